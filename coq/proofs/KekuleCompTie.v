(* C05 -- the backtracking search _kekule_component: Model.Kekule.kekule_component equals the same function written with the
   decisions GENERATED from the source (Gen.KekuleComp, tools/gen_kekulecomp.py): start atom selection, initial stack items,
   size, the complete-path test, the pyridine-over-pyrrole buffer tests, the classification of the neighbours of the current
   atom, the `if loop:` chain and the items it inserts, the first test of the growth step.  The rest of the growth step (which
   items are appended to which stack level) is pinned by the skeleton of the translator. *)
From Coq Require Import ZArith List Bool Lia.
From Model Require Import PyBase Graph Kekule.
From Gen Require Import KekuleComp.
Import ListNotations.
Open Scope Z_scope.

Section ComponentSrc.
Variables (rings : adjl) (db pyr : list Z) (start size : Z).

(* for next_atom in rings[atom]: ... *)
Definition scan_nbrs_src (atom prev : Z) (path : list kentry) : Z * list Z * list Z :=
  fold_left (fun acc nx => let '(lp, cl, fs) := acc in
                           if gen_kc_scan_back nx prev then acc
                           else if gen_kc_scan_loop nx start then (nx, cl, fs)
                           else if in_path nx path then (lp, cl ++ [nx], fs)
                           else (lp, cl, fs ++ [nx])) (al_get rings atom) (0, [], []).

Lemma scan_nbrs_src_eq atom prev path : scan_nbrs_src atom prev path = scan_nbrs rings start atom prev path.
Proof. reflexivity. Qed.

(* the growth step: its first test from the source, the rest as the model has it *)
Definition grow_src (top : list kitem) (rest : list (list kitem)) (path : list kentry) (atom bond : Z) (closures for_stack : list Z)
  : pyres (list (list kitem) * list kentry) :=
  if gen_kc_grow_out bond (indb db atom) then
    match do_closures atom closures top path with
    | Err e => Err e
    | Ok (top1, path1) => Ok ((top1 ++ map (fun n => ((n, atom, 1, None) : kitem)) for_stack) :: rest, path1)
    end
  else grow db pyr top rest path atom bond closures for_stack.

Lemma grow_src_eq top rest path atom bond closures for_stack :
  grow_src top rest path atom bond closures for_stack = grow db pyr top rest path atom bond closures for_stack.
Proof.
  unfold grow_src, gen_kc_grow_out, grow. destruct ((bond =? 2) || indb db atom); reflexivity.
Qed.

Definition kstep_src (s : kstate) : pyres (kstate * list (list kentry)) :=
  match k_stack s with
  | [] => Ok (s, [])
  | top0 :: rest =>
    match pop_last top0 with
    | None => Err IndexError
    | Some ((atom, prev, bond, _), top) =>
      let path := k_path s ++ [(atom, prev, bond)] in
      if gen_kc_full (Z.of_nat (List.length path)) size then
        let '(ys, buffer, bsize) :=
          if gen_kc_use_buffer (nonempty pyr) (k_bsize s) then
            if gen_kc_pair_test (countb (fun n => gen_kc_pair_elt (gsum n path) true) pyr) then
              if gen_kc_buffer_full (Z.of_nat (List.length (k_buffer s))) (k_bsize s) then (k_buffer s ++ [path], [], 0)
              else ([], k_buffer s ++ [path], k_bsize s)
            else (path :: k_buffer s, [], 0)
          else ([path], k_buffer s, k_bsize s) in
        match cut_path rest path with
        | Err e => Err e
        | Ok p => Ok (mkK rest p buffer bsize false, ys)
        end
      else if gen_kc_not_start atom start then
        let '(lp, closures, for_stack) := scan_nbrs_src atom prev path in
        let continue_with := fun (top' : list kitem) (bond' : Z) =>
          match grow_src top' rest path atom bond' closures for_stack with
          | Err e => Err e
          | Ok (st, p) => Ok (mkK st p (k_buffer s) (k_bsize s) (k_never s), [])
          end in
        let abandon :=
          match backtrack rest path with
          | Err e => Err e
          | Ok (st, p) => Ok (mkK st p (k_buffer s) (k_bsize s) (k_never s), [])
          end in
        if gen_kc_has_loop lp then
          if gen_kc_bond_double bond then (if nonempty db then continue_with ((lp, atom, gen_kc_loop_single1, None) :: top) bond else abandon)
          else if nonempty db then
            (if gen_kc_side_path (nonempty for_stack) (indb db atom) (inpyr pyr atom) then continue_with ((lp, atom, gen_kc_loop_single2, None) :: top) bond else abandon)
          else continue_with ((lp, atom, gen_kc_loop_double, None) :: top) gen_kc_grow_bond
        else continue_with top bond
      else Ok (mkK (top :: rest) path (k_buffer s) (k_bsize s) (k_never s), [])
    end
  end.

Lemma countb_ext {A} (f f' : A -> bool) : (forall a, f a = f' a) -> forall l, countb f l = countb f' l.
Proof. intros H l. induction l as [|x r IH]; simpl; [reflexivity|]. rewrite H, IH. reflexivity. Qed.

Theorem gen_kstep_eq : forall s, kstep_src s = kstep rings db pyr start size s.
Proof.
  intros s. unfold kstep_src, kstep. destruct (k_stack s) as [|top0 rest]; [reflexivity|].
  destruct (pop_last top0) as [[[[[atom prev] bond] c] top]|]; [|reflexivity]. cbv zeta.
  unfold gen_kc_full, gen_kc_use_buffer, gen_kc_pair_test, gen_kc_buffer_full, gen_kc_not_start, gen_kc_has_loop, gen_kc_bond_double,
         gen_kc_side_path, gen_kc_loop_single1, gen_kc_loop_single2, gen_kc_loop_double, gen_kc_grow_bond.
  rewrite (countb_ext (fun n => gen_kc_pair_elt (gsum n (k_path s ++ [(atom, prev, bond)])) true) (fun n => gsum n (k_path s ++ [(atom, prev, bond)]) =? 2))
    by (intros n; unfold gen_kc_pair_elt; apply andb_true_r).
  destruct (Z.of_nat (List.length (k_path s ++ [(atom, prev, bond)])) =? size); [reflexivity|].
  destruct (negb (atom =? start)); [|reflexivity].
  rewrite scan_nbrs_src_eq. destruct (scan_nbrs rings start atom prev (k_path s ++ [(atom, prev, bond)])) as [[lp cl] fs].
  destruct (negb (lp =? 0)); destruct (bond =? 2); destruct (nonempty db);
    try destruct (nonempty fs || indb db atom || inpyr pyr atom); rewrite ?grow_src_eq; reflexivity.
Qed.

Fixpoint kloop_src (fuel : nat) (maxy : nat) (s : kstate) (acc : list (list kentry)) : pyres (list (list kentry) * bool * bool) :=
  if (maxy <=? List.length acc)%nat then Ok (firstn maxy acc, false, false) else
  match k_stack s with
  | [] => if k_never s then Ok (acc, true, true) else Ok (firstn maxy (acc ++ k_buffer s), false, true)
  | _ => match fuel with
         | O => Err OtherError
         | S f => match kstep_src s with
                  | Err e => Err e
                  | Ok (s', ys) => kloop_src f maxy s' (acc ++ ys)
                  end
         end
  end.

Theorem gen_kloop_eq : forall fuel maxy s acc, kloop_src fuel maxy s acc = kloop rings db pyr start size fuel maxy s acc.
Proof.
  induction fuel as [|f IH]; intros maxy s acc.
  - simpl. reflexivity.
  - simpl. destruct (maxy <=? List.length acc)%nat; [reflexivity|]. destruct (k_stack s) eqn:E; [reflexivity|].
    rewrite gen_kstep_eq. destruct (kstep rings db pyr start size s) as [[s' ys]|e]; [apply IH|reflexivity].
Qed.
End ComponentSrc.

(* start = next(n for n, ms in rings.items() if len(ms) == 2 [and n not in pyrroles]) *)
Definition find_start_src (rings : adjl) (pyr : list Z) (strict : bool) : option Z :=
  match filter (fun nl => if strict then gen_kc_start_strict (Z.of_nat (List.length (snd nl))) (zmem (fst nl) pyr)
                          else gen_kc_start_loose (Z.of_nat (List.length (snd nl)))) rings with
  | [] => None
  | nl :: _ => Some (fst nl)
  end.

Lemma filter_ext2 {A} (f f' : A -> bool) : (forall a, f a = f' a) -> forall l, filter f l = filter f' l.
Proof. intros H l. induction l as [|x r IH]; simpl; [reflexivity|]. rewrite H, IH. reflexivity. Qed.

Lemma gen_find_start_eq rings pyr strict : find_start_src rings pyr strict = find_start rings pyr strict.
Proof.
  unfold find_start_src, find_start.
  rewrite (filter_ext2 _ (fun nl => (Z.of_nat (List.length (snd nl)) =? 2) && (negb strict || negb (zmem (fst nl) pyr)))); [reflexivity|].
  intros nl. destruct strict; unfold gen_kc_start_strict, gen_kc_start_loose; simpl; [reflexivity|]. rewrite andb_true_r. reflexivity.
Qed.

(* the whole search from generated decisions *)
Definition kekule_component_src (rings : adjl) (db : list Z) (db_start : Z) (pyr : list Z) (buffer_size : Z) (maxy fuel : nat)
  : pyres (list (list kentry) * bool * bool) :=
  let size := gen_kc_size (Z.of_nat (fold_right (fun nl s => (List.length (snd nl) + s)%nat) O rings)) in
  let run := fun (db' : list Z) (start bond cut : Z) (all_nbrs : bool) =>
    match al_get rings start with
    | [] => Err StopIteration
    | n0 :: more =>
        let stack := if all_nbrs then rev (map (fun nx => [((nx, start, bond, Some cut) : kitem)]) (n0 :: more))
                     else [[((n0, start, bond, Some cut) : kitem)]] in
        kloop_src rings db' pyr start size fuel maxy (mkK stack [] [] buffer_size true) []
    end in
  match db with
  | _ :: _ => run db db_start gen_kc_init_bond_db gen_kc_init_cut_db false
  | [] =>
      match find_start_src rings pyr true with
      | Some st => run db st gen_kc_init_bond_strict gen_kc_init_cut_strict true
      | None => match find_start_src rings pyr false with
                | Some st => run db st gen_kc_init_bond_loose gen_kc_init_cut_loose true
                | None => match rings with
                          | [] => Err StopIteration
                          | nl :: _ => run [fst nl] (fst nl) gen_kc_init_bond_full gen_kc_init_cut_full true
                          end
                end
      end
  end.

Theorem gen_kekule_component_eq : forall rings db db_start pyr buffer_size maxy fuel,
  kekule_component_src rings db db_start pyr buffer_size maxy fuel = kekule_component rings db db_start pyr buffer_size maxy fuel.
Proof.
  intros. unfold kekule_component_src, kekule_component. cbv zeta. rewrite !gen_find_start_eq.
  unfold gen_kc_size, gen_kc_init_bond_db, gen_kc_init_cut_db, gen_kc_init_bond_strict, gen_kc_init_cut_strict, gen_kc_init_bond_loose,
         gen_kc_init_cut_loose, gen_kc_init_bond_full, gen_kc_init_cut_full.
  destruct db as [|d0 dr].
  - destruct (find_start rings pyr true) as [st|].
    + destruct (al_get rings st); [reflexivity|apply gen_kloop_eq].
    + destruct (find_start rings pyr false) as [st|].
      * destruct (al_get rings st); [reflexivity|apply gen_kloop_eq].
      * destruct rings as [|nl r]; [reflexivity|]. destruct (al_get (nl :: r) (fst nl)); [reflexivity|apply gen_kloop_eq].
  - destruct (al_get rings db_start); [reflexivity|apply gen_kloop_eq].
Qed.

(* non-vacuity: the generated decisions take both values / the generated constants are the ones the soundness proof relies on *)
Theorem gen_kekule_comp_values :
  gen_kc_start_strict 2 false = true /\ gen_kc_start_strict 2 true = false /\ gen_kc_start_strict 3 false = false /\ gen_kc_start_loose 2 = true /\
  gen_kc_start_loose 3 = false /\ gen_kc_size 12 = 6 /\ gen_kc_full 6 6 = true /\ gen_kc_full 5 6 = false /\
  gen_kc_use_buffer true 7 = true /\ gen_kc_use_buffer true 0 = false /\ gen_kc_use_buffer false 7 = false /\
  gen_kc_pair_elt 2 true = true /\ gen_kc_pair_elt 1 true = false /\ gen_kc_pair_elt 2 false = false /\ gen_kc_pair_test 2 = true /\ gen_kc_pair_test 1 = false /\
  gen_kc_buffer_full 7 7 = true /\ gen_kc_buffer_full 6 7 = false /\ gen_kc_has_loop 0 = false /\ gen_kc_has_loop 5 = true /\
  gen_kc_side_path false false false = false /\ gen_kc_side_path true false false = true /\ gen_kc_side_path false true false = true /\
  gen_kc_side_path false false true = true /\ gen_kc_grow_out 2 false = true /\ gen_kc_grow_out 1 true = true /\ gen_kc_grow_out 1 false = false /\
  [gen_kc_init_bond_db; gen_kc_init_cut_db; gen_kc_init_bond_strict; gen_kc_init_cut_strict; gen_kc_init_bond_loose; gen_kc_init_cut_loose;
   gen_kc_init_bond_full; gen_kc_init_cut_full; gen_kc_loop_single1; gen_kc_loop_single2; gen_kc_loop_double; gen_kc_grow_bond] = [1; 0; 1; 0; 1; 0; 2; 0; 1; 1; 2; 2].
Proof. repeat split; reflexivity. Qed.

(* the property theorem itself over the regenerated search: every form the search WRITTEN WITH THE SOURCE'S DECISIONS yields on
   well-formed arguments is a sound form *)
From Proofs Require KekuleSound.
Theorem kekule_component_src_sound : forall rings db db_start pyr bs maxy fuel ys r c,
  KekuleSound.rings_wf2 rings db pyr = true -> (db <> [] -> In db_start db) ->
  kekule_component_src rings db db_start pyr bs maxy fuel = Ok (ys, r, c) ->
  forallb (form_sound rings db pyr) ys = true.
Proof. intros until c. rewrite gen_kekule_component_eq. apply KekuleSound.kekule_component_sound. Qed.
