(* C15 -- proofs about the model of MoleculeContainer.compose (Model.Compose). *)
From Coq Require Import ZArith List Bool Lia Permutation.
From Model Require Import PyBase Graph Compose.
Import ListNotations.
Open Scope Z_scope.

(* ---------- association lists ---------- *)
Lemma zget_zset {V} (d : list (Z * V)) k v k' :
  zget (zset d k v) k' = if Z.eqb k' k then Some v else zget d k'.
Proof.
  induction d as [|[k0 v0] d IH]; cbn [zset zget].
  - destruct (Z.eqb k' k); reflexivity.
  - destruct (Z.eqb k k0) eqn:E.
    + apply Z.eqb_eq in E. subst k0. cbn [zget]. destruct (Z.eqb k' k); reflexivity.
    + cbn [zget]. destruct (Z.eqb k' k0) eqn:E2.
      * apply Z.eqb_eq in E2. subst k0. rewrite Z.eqb_sym in E. rewrite E. reflexivity.
      * exact IH.
Qed.

Lemma keys_zset_In {V} (d : list (Z * V)) k v x : In x (keys (zset d k v)) <-> x = k \/ In x (keys d).
Proof.
  unfold keys. induction d as [|[k0 v0] d IH]; cbn [zset map In fst].
  - intuition.
  - destruct (Z.eqb k k0) eqn:E.
    + apply Z.eqb_eq in E. subst k0. cbn [map In fst]. intuition.
    + cbn [map In fst]. rewrite IH. intuition.
Qed.

Lemma keys_zset_absent {V} (d : list (Z * V)) k v : ~ In k (keys d) -> zset d k v = d ++ [(k, v)].
Proof.
  unfold keys. induction d as [|[k0 v0] d IH]; cbn [zset map In fst app]; intros H.
  - reflexivity.
  - destruct (Z.eqb k k0) eqn:E.
    + apply Z.eqb_eq in E. subst. exfalso. apply H. left. reflexivity.
    + f_equal. apply IH. intros Hx. apply H. right. exact Hx.
Qed.

Lemma keys_zset_present {V} (d : list (Z * V)) k v : In k (keys d) -> keys (zset d k v) = keys d.
Proof.
  unfold keys. induction d as [|[k0 v0] d IH]; cbn [zset map In fst]; intros H.
  - contradiction.
  - destruct (Z.eqb k k0) eqn:E.
    + apply Z.eqb_eq in E. subst. reflexivity.
    + cbn [map fst]. f_equal. apply IH. destruct H as [H|H]; [|exact H].
      subst. rewrite Z.eqb_refl in E. discriminate.
Qed.

Lemma keys_app {K V} (a b : list (K * V)) : keys (a ++ b) = keys a ++ keys b.
Proof. unfold keys. apply map_app. Qed.

Lemma NoDup_snoc {A} (l : list A) x : NoDup l -> ~ In x l -> NoDup (l ++ [x]).
Proof.
  intros H Hn. induction H as [|y l Hy H IH]; cbn.
  - constructor; [intros []|constructor].
  - constructor.
    + rewrite in_app_iff. cbn. intros [Hi|[He|[]]]; [contradiction|]. subst. apply Hn. left. reflexivity.
    + apply IH. intros Hi. apply Hn. right. exact Hi.
Qed.

Lemma NoDup_keys_zset {V} (d : list (Z * V)) k v : NoDup (keys d) -> NoDup (keys (zset d k v)).
Proof.
  intros H. destruct (in_dec Z.eq_dec k (keys d)) as [Hi|Hn].
  - rewrite keys_zset_present by exact Hi. exact H.
  - rewrite keys_zset_absent by exact Hn. rewrite keys_app. cbn. apply NoDup_snoc; assumption.
Qed.

Lemma zget_In {V} (d : list (Z * V)) k v : zget d k = Some v -> In (k, v) d.
Proof.
  induction d as [|[k0 v0] d IH]; cbn [zget]; [discriminate|].
  destruct (Z.eqb k k0) eqn:E; intros H.
  - apply Z.eqb_eq in E. inversion H. subst. left. reflexivity.
  - right. apply IH. exact H.
Qed.

Lemma zget_In_keys {V} (d : list (Z * V)) k v : zget d k = Some v -> In k (keys d).
Proof. intros H. apply zget_In in H. unfold keys. apply in_map_iff. exists (k, v). split; [reflexivity|exact H]. Qed.

Lemma zget_None_keys {V} (d : list (Z * V)) k : zget d k = None <-> ~ In k (keys d).
Proof.
  unfold keys. induction d as [|[k0 v0] d IH]; cbn [zget map In fst].
  - intuition.
  - destruct (Z.eqb k k0) eqn:E.
    + apply Z.eqb_eq in E. subst. split; [discriminate|]. intros H. exfalso. apply H. left. reflexivity.
    + rewrite IH. apply Z.eqb_neq in E. intuition.
Qed.

Lemma In_zget {V} (d : list (Z * V)) k v : NoDup (keys d) -> In (k, v) d -> zget d k = Some v.
Proof.
  unfold keys. induction d as [|[k0 v0] d IH]; cbn [zget map In fst]; intros Hn Hi; [contradiction|].
  inversion Hn as [|? ? Hk Hn']; subst.
  destruct Hi as [Hi|Hi].
  - inversion Hi. subst. rewrite Z.eqb_refl. reflexivity.
  - destruct (Z.eqb k k0) eqn:E.
    + apply Z.eqb_eq in E. subst. exfalso. apply Hk. apply in_map_iff. exists (k0, v). split; [reflexivity|exact Hi].
    + apply IH; assumption.
Qed.

Lemma nodup_z_NoDup l : nodup_z l = true <-> NoDup l.
Proof.
  induction l as [|x l IH]; cbn [nodup_z].
  - split; [constructor|reflexivity].
  - rewrite andb_true_iff, negb_true_iff, IH. split.
    + intros [H1 H2]. constructor; [|exact H2]. intros Hi. apply zmem_In in Hi. congruence.
    + intros H. inversion H as [|? ? Hx Hl]; subst. split; [|exact Hl].
      destruct (zmem x l) eqn:E; [|reflexivity]. apply zmem_In in E. contradiction.
Qed.

Lemma zmem_false x l : zmem x l = false <-> ~ In x l.
Proof. rewrite <- zmem_In. destruct (zmem x l); intuition congruence. Qed.

Lemma list_eqb_Z_eq' a b : list_eqb Z.eqb a b = true -> a = b.
Proof.
  revert b. induction a as [|x a IH]; intros [|y b] H; try discriminate; [reflexivity|].
  cbn in H. apply andb_prop in H. destruct H as [H1 H2]. apply Z.eqb_eq in H1. subst. f_equal. apply IH. exact H2.
Qed.

(* ---------- consequences of wf_mol ---------- *)
Lemma wf_keys g : wf_mol g = true -> keys (m_atoms g) = keys (m_adj g) /\ NoDup (ids g).
Proof.
  unfold wf_mol. intros H. apply andb_prop in H. destruct H as [H _]. apply andb_prop in H. destruct H as [H1 H2].
  split; [apply list_eqb_Z_eq'; exact H1 | apply nodup_z_NoDup; exact H2].
Qed.

Lemma wf_entry g n l : wf_mol g = true -> In (n, l) (m_adj g) ->
  NoDup (keys l) /\
  forall m b, In (m, b) l -> m <> n /\ In m (ids g) /\ exists b', bond_of g m n = Some b' /\ bond_eqb b b' = true.
Proof.
  unfold wf_mol. intros H Hi. apply andb_prop in H. destruct H as [_ H].
  rewrite forallb_forall in H. specialize (H (n, l) Hi). cbn [fst snd] in H.
  apply andb_prop in H. destruct H as [H1 H2]. split; [apply nodup_z_NoDup; exact H1|].
  intros m b Hm. rewrite forallb_forall in H2. specialize (H2 (m, b) Hm). cbn [fst snd] in H2.
  apply andb_prop in H2. destruct H2 as [H2 H3]. apply andb_prop in H2. destruct H2 as [H2 H4].
  apply negb_true_iff in H2. apply Z.eqb_neq in H2. apply zmem_In in H4.
  split; [exact H2|]. split; [exact H4|].
  destruct (bond_of g m n) as [b'|]; [|discriminate]. exists b'. split; [reflexivity|exact H3].
Qed.

Lemma wf_adj_nodup g : wf_mol g = true -> NoDup (keys (m_adj g)).
Proof. intros H. destruct (wf_keys g H) as [E N]. unfold ids in N. rewrite E in N. exact N. Qed.

Lemma nbrs_entry g n : wf_mol g = true -> nbrs g n <> [] -> In (n, nbrs g n) (m_adj g).
Proof.
  intros H Hn. unfold nbrs in *. destruct (zget (m_adj g) n) as [l|] eqn:E; [|congruence].
  apply zget_In. exact E.
Qed.

Lemma wf_nbrs_nodup g n : wf_mol g = true -> NoDup (keys (nbrs g n)).
Proof.
  intros H. unfold nbrs. destruct (zget (m_adj g) n) as [l|] eqn:E; [|constructor].
  apply zget_In in E. apply (wf_entry g n l H E).
Qed.

Lemma bond_eqb_ord a b : bond_eqb a b = true -> b_ord a = b_ord b.
Proof. unfold bond_eqb. intros H. apply andb_prop in H. destruct H as [H _]. apply Z.eqb_eq. exact H. Qed.

Lemma wf_bond g n m b : wf_mol g = true -> bond_of g n m = Some b ->
  In n (ids g) /\ In m (ids g) /\ m <> n /\ exists b', bond_of g m n = Some b' /\ b_ord b' = b_ord b.
Proof.
  intros H Hb. unfold bond_of in Hb. unfold nbrs in Hb at 1.
  destruct (zget (m_adj g) n) as [l|] eqn:E; [|discriminate].
  pose proof (zget_In_keys _ _ _ E) as Hk. apply zget_In in E.
  destruct (wf_entry g n l H E) as [_ W]. apply zget_In in Hb. destruct (W m b Hb) as [W1 [W2 [b' [W3 W4]]]].
  destruct (wf_keys g H) as [EK _]. unfold ids. rewrite EK. split; [exact Hk|]. rewrite <- EK.
  split; [exact W2|]. split; [exact W1|]. exists b'. split; [exact W3|]. symmetry. apply bond_eqb_ord. exact W4.
Qed.

Lemma nbrs_In_bond g n m b : wf_mol g = true -> In (m, b) (nbrs g n) -> bond_of g n m = Some b.
Proof. intros H Hi. unfold bond_of. apply In_zget; [apply wf_nbrs_nodup; exact H|exact Hi]. Qed.

Lemma bond_In_nbrs g n m b : bond_of g n m = Some b -> In (m, b) (nbrs g n).
Proof. unfold bond_of. apply zget_In. Qed.

Lemma ord_in_sym g n m : wf_mol g = true -> ord_in g n m = ord_in g m n.
Proof.
  intros H. unfold ord_in. destruct (bond_of g n m) as [b|] eqn:E1.
  - destruct (wf_bond g n m b H E1) as [_ [_ [_ [b' [E2 E3]]]]]. rewrite E2. cbn. congruence.
  - destruct (bond_of g m n) as [b|] eqn:E2; [|reflexivity].
    destruct (wf_bond g m n b H E2) as [_ [_ [_ [b' [E3 _]]]]]. congruence.
Qed.

Lemma ord_in_ids g n m o : wf_mol g = true -> ord_in g n m = Some o -> In n (ids g) /\ In m (ids g) /\ n <> m.
Proof.
  intros H. unfold ord_in. destruct (bond_of g n m) as [b|] eqn:E; [|discriminate]. intros _.
  destruct (wf_bond g n m b H E) as [A [B [C _]]]. repeat split; auto.
Qed.

Lemma atom_of_ids g n : (exists a, atom_of g n = Some a) <-> In n (ids g).
Proof.
  unfold atom_of, ids. split.
  - intros [a H]. apply zget_In_keys in H. exact H.
  - intros H. destruct (zget (m_atoms g) n) as [a|] eqn:E; [exists a; reflexivity|].
    apply zget_None_keys in E. contradiction.
Qed.

Lemma inb_In g n : inb g n = true <-> In n (ids g).
Proof. unfold inb. apply zmem_In. Qed.

(* spec_bond is symmetric *)
Lemma spec_bond_sym r p n m : wf_mol r = true -> wf_mol p = true -> spec_bond r p n m = spec_bond r p m n.
Proof.
  intros Hr Hp. unfold spec_bond.
  rewrite (ord_in_sym r n m Hr), (ord_in_sym p n m Hp).
  rewrite (andb_comm (is_common r p n)), (orb_comm (is_common r p n)), (andb_comm (inb r n)), (andb_comm (inb p n)).
  reflexivity.
Qed.

(* ---------- the bond-emitting walk shared by loops 1, 2 and 4 ---------- *)
Section Walk.
Context {X : Type}.
Variable items : Z -> list (Z * X).
Variable mk : Z -> Z -> X -> dbond.     (* n, m, payload *)

Fixpoint walk (order seen : list Z) : blist :=
  match order with
  | [] => []
  | n :: rest => emit (n :: seen) n (mk n) (items n) ++ walk rest (n :: seen)
  end.

Lemma emit_In ha n (f : Z -> X -> dbond) its a b bd :
  In (a, b, bd) (emit ha n f its) <-> a = n /\ ~ In b ha /\ exists x, In (b, x) its /\ bd = f b x.
Proof.
  unfold emit. rewrite in_map_iff. split.
  - intros [[m x] [E Hf]]. cbn [fst snd] in E. inversion E; subst. apply filter_In in Hf. destruct Hf as [Hi Hm].
    cbn [fst] in Hm. apply negb_true_iff in Hm. apply zmem_false in Hm. split; [reflexivity|]. split; [exact Hm|].
    exists x. split; [exact Hi|reflexivity].
  - intros [E [Hn [x [Hi Hb]]]]. subst. exists (b, x). cbn [fst snd]. split; [reflexivity|].
    apply filter_In. split; [exact Hi|]. cbn [fst]. apply negb_true_iff. apply zmem_false. exact Hn.
Qed.

Lemma emit_ext ha ha' n (f : Z -> X -> dbond) its : (forall x, In x ha <-> In x ha') -> emit ha n f its = emit ha' n f its.
Proof.
  intros H. unfold emit. f_equal. apply filter_ext. intros [m x]. cbn [fst]. f_equal.
  destruct (zmem m ha) eqn:E1, (zmem m ha') eqn:E2; try reflexivity.
  - apply zmem_In in E1. apply H in E1. apply zmem_In in E1. congruence.
  - apply zmem_In in E2. apply H in E2. apply zmem_In in E2. congruence.
Qed.

Lemma walk_ext order : forall seen seen', (forall x, In x seen <-> In x seen') -> walk order seen = walk order seen'.
Proof.
  induction order as [|n rest IH]; intros seen seen' H; cbn [walk]; [reflexivity|].
  f_equal.
  - apply emit_ext. intros x. cbn [In]. rewrite H. reflexivity.
  - apply IH. intros x. cbn [In]. rewrite H. reflexivity.
Qed.

Lemma walk_sound order : forall seen a b bd, In (a, b, bd) (walk order seen) ->
  In a order /\ ~ In b seen /\ b <> a /\ exists x, In (b, x) (items a) /\ bd = mk a b x.
Proof.
  induction order as [|n rest IH]; intros seen a b bd H; cbn [walk] in H; [contradiction|].
  apply in_app_iff in H. destruct H as [H|H].
  - apply emit_In in H. destruct H as [E [Hn [x [Hi Hb]]]]. subst a. cbn [In] in Hn.
    split; [left; reflexivity|]. split; [tauto|]. split; [intros E; apply Hn; left; congruence|].
    exists x. split; assumption.
  - apply IH in H. destruct H as [H1 [H2 [H3 H4]]]. cbn [In] in H2. split; [right; exact H1|]. split; [tauto|].
    split; assumption.
Qed.

Lemma walk_complete_out order : forall seen a b x, In a order -> In (b, x) (items a) -> ~ In b seen -> ~ In b order ->
  In (a, b, mk a b x) (walk order seen).
Proof.
  induction order as [|n rest IH]; intros seen a b x Ha Hi Hs Ho; cbn [walk]; [contradiction|].
  apply in_app_iff. cbn [In] in Ha, Ho. destruct (Z.eq_dec n a) as [E|E].
  - subst n. left. apply emit_In. split; [reflexivity|]. split.
    + cbn [In]. intros [H|H]; [apply Ho; left; exact H|contradiction].
    + exists x. split; [exact Hi|reflexivity].
  - right. apply IH; try assumption.
    + destruct Ha as [Ha|Ha]; [contradiction|exact Ha].
    + cbn [In]. intros [H|H]; [apply Ho; left; exact H|contradiction].
    + intros H. apply Ho. right. exact H.
Qed.

Lemma walk_complete_in order : forall seen a b x x', In a order -> In b order -> a <> b -> ~ In a seen -> ~ In b seen ->
  In (b, x) (items a) -> In (a, x') (items b) ->
  In (a, b, mk a b x) (walk order seen) \/ In (b, a, mk b a x') (walk order seen).
Proof.
  induction order as [|n rest IH]; intros seen a b x x' Ha Hb Hab Hsa Hsb Hi Hi'; cbn [walk]; [contradiction|].
  cbn [In] in Ha, Hb. destruct (Z.eq_dec n a) as [E|E].
  - subst n. left. apply in_app_iff. left. apply emit_In. split; [reflexivity|]. split.
    + cbn [In]. intros [H|H]; [congruence|contradiction].
    + exists x. split; [exact Hi|reflexivity].
  - destruct (Z.eq_dec n b) as [E'|E'].
    + subst n. right. apply in_app_iff. left. apply emit_In. split; [reflexivity|]. split.
      * cbn [In]. intros [H|H]; [congruence|contradiction].
      * exists x'. split; [exact Hi'|reflexivity].
    + destruct (IH (n :: seen) a b x x') as [H|H]; try assumption.
      * destruct Ha as [Ha|Ha]; [contradiction|exact Ha].
      * destruct Hb as [Hb|Hb]; [contradiction|exact Hb].
      * cbn [In]. intros [H|H]; [congruence|contradiction].
      * cbn [In]. intros [H|H]; [congruence|contradiction].
      * left. apply in_app_iff. right. exact H.
      * right. apply in_app_iff. right. exact H.
Qed.
End Walk.

(* ---------- loops 1/2: atoms and bonds ---------- *)
Definition side_mk (common : list Z) (broken : Z -> dbond) (n m : Z) (b : bond) : dbond :=
  if zmem m common then broken (b_ord b) else from_bond b.

Lemma loop_side_spec g common broken order : forall ha haf bs,
  loop_side g common broken order ha = Ok (haf, bs) ->
  (forall x, zget haf x = if zmem x order then option_map from_atom (atom_of g x) else zget ha x) /\
  (forall seen, (forall x, In x seen <-> In x (keys ha)) -> bs = walk (nbrs g) (side_mk common broken) order seen) /\
  (NoDup order -> (forall x, In x order -> ~ In x (keys ha)) -> keys haf = keys ha ++ order).
Proof.
  induction order as [|n rest IH]; intros ha haf bs H; cbn [loop_side] in H.
  - inversion H; subst. split; [intros x; reflexivity|]. split; [intros; reflexivity|]. intros _ _. rewrite app_nil_r. reflexivity.
  - destruct (atom_of g n) as [a|] eqn:Ea; [|discriminate].
    destruct (loop_side g common broken rest (zset ha n (from_atom a))) as [[haf' bs']|e] eqn:El; [|discriminate].
    inversion H; subst haf' bs. clear H. destruct (IH _ _ _ El) as [I1 [I2 I3]]. split; [|split].
    + intros x. rewrite I1. cbn [zmem existsb]. fold (zmem x rest). destruct (zmem x rest) eqn:Er.
      * rewrite orb_true_r. reflexivity.
      * rewrite orb_false_r. rewrite zget_zset. destruct (Z.eqb x n) eqn:E; [|reflexivity].
        apply Z.eqb_eq in E. subst. rewrite Ea. reflexivity.
    + intros seen Hs. cbn [walk]. f_equal.
      * apply emit_ext. intros x. rewrite keys_zset_In. cbn [In]. rewrite Hs. intuition.
      * apply I2. intros x. rewrite keys_zset_In. cbn [In]. rewrite Hs. intuition.
    + intros Hn Hd. inversion Hn as [|? ? Hnr Hn']; subst. rewrite I3.
      * rewrite keys_zset_absent by (apply Hd; left; reflexivity). rewrite keys_app. cbn. rewrite <- app_assoc. reflexivity.
      * exact Hn'.
      * intros x Hx. rewrite keys_zset_In. intros [E|Hk]; [subst; contradiction|].
        apply (Hd x); [right; exact Hx|exact Hk].
Qed.

Lemma loop_side_ok g common broken order : forall ha, (forall n, In n order -> In n (ids g)) ->
  exists haf bs, loop_side g common broken order ha = Ok (haf, bs).
Proof.
  induction order as [|n rest IH]; intros ha H; cbn [loop_side].
  - eexists. eexists. reflexivity.
  - destruct (proj2 (atom_of_ids g n) (H n (or_introl eq_refl))) as [a Ea]. rewrite Ea.
    destruct (IH (zset ha n (from_atom a))) as [haf [bs E]]; [intros m Hm; apply H; right; exact Hm|].
    rewrite E. eexists. eexists. reflexivity.
Qed.

(* ---------- loop 3: the merged neighbour table of a common atom ---------- *)
Definition adj_spec (r p : mol) (common : list Z) (n m : Z) : option adj_entry :=
  if zmem m common then
    match ord_in r n m, ord_in p n m with
    | None, None => None
    | a, b => Some (a, b)
    end
  else None.

Lemma fold_set0 common (l : list (Z * bond)) : forall an m, NoDup (keys l) ->
  zget (fold_left (fun an mb => if zmem (fst mb) common then adj_set0 an (fst mb) (b_ord (snd mb)) else an) l an) m =
  match (if zmem m common then zget l m else None) with
  | Some b => Some (Some (b_ord b), match zget an m with Some e => snd e | None => None end)
  | None => zget an m
  end.
Proof.
  induction l as [|[m' b'] l IH]; intros an m Hn; cbn [fold_left zget fst snd].
  - destruct (zmem m common); reflexivity.
  - unfold keys in Hn. cbn [map fst] in Hn. inversion Hn as [|? ? Hk Hn']; subst. rewrite IH by exact Hn'.
    destruct (Z.eqb m m') eqn:E.
    + apply Z.eqb_eq in E. subst m'.
      assert (Z0 : zget l m = None) by (apply zget_None_keys; exact Hk). rewrite Z0.
      destruct (zmem m common) eqn:Ec.
      * unfold adj_set0. rewrite zget_zset, Z.eqb_refl. reflexivity.
      * reflexivity.
    + destruct (zmem m' common) eqn:Ec'.
      * unfold adj_set0. rewrite zget_zset, E. reflexivity.
      * reflexivity.
Qed.

Lemma fold_set1 common (l : list (Z * bond)) : forall an m, NoDup (keys l) ->
  zget (fold_left (fun an mb => if zmem (fst mb) common then adj_set1 an (fst mb) (b_ord (snd mb)) else an) l an) m =
  match (if zmem m common then zget l m else None) with
  | Some b => Some (match zget an m with Some e => fst e | None => None end, Some (b_ord b))
  | None => zget an m
  end.
Proof.
  induction l as [|[m' b'] l IH]; intros an m Hn; cbn [fold_left zget fst snd].
  - destruct (zmem m common); reflexivity.
  - unfold keys in Hn. cbn [map fst] in Hn. inversion Hn as [|? ? Hk Hn']; subst. rewrite IH by exact Hn'.
    destruct (Z.eqb m m') eqn:E.
    + apply Z.eqb_eq in E. subst m'.
      assert (Z0 : zget l m = None) by (apply zget_None_keys; exact Hk). rewrite Z0.
      destruct (zmem m common) eqn:Ec.
      * unfold adj_set1. rewrite zget_zset, Z.eqb_refl. reflexivity.
      * reflexivity.
    + destruct (zmem m' common) eqn:Ec'.
      * unfold adj_set1. rewrite zget_zset, E. reflexivity.
      * reflexivity.
Qed.

Lemma fold_set_nodup {A} (f : list (Z * adj_entry) -> A -> list (Z * adj_entry)) (l : list A) :
  (forall an x, NoDup (keys an) -> NoDup (keys (f an x))) -> forall an, NoDup (keys an) -> NoDup (keys (fold_left f l an)).
Proof. intros Hf. induction l as [|x l IH]; intros an H; cbn [fold_left]; [exact H|]. apply IH. apply Hf. exact H. Qed.

Lemma build_adj_nodup r p common n : NoDup (keys (build_adj r p common n)).
Proof.
  unfold build_adj. apply fold_set_nodup.
  - intros an x H. destruct (zmem (fst x) common); [apply NoDup_keys_zset; exact H|exact H].
  - apply fold_set_nodup.
    + intros an x H. destruct (zmem (fst x) common); [apply NoDup_keys_zset; exact H|exact H].
    + constructor.
Qed.

Lemma build_adj_get r p common n m : wf_mol r = true -> wf_mol p = true ->
  zget (build_adj r p common n) m = adj_spec r p common n m.
Proof.
  intros Hr Hp. unfold build_adj, adj_spec. rewrite fold_set1 by (apply wf_nbrs_nodup; exact Hp).
  rewrite fold_set0 by (apply wf_nbrs_nodup; exact Hr). cbn [zget].
  unfold ord_in, bond_of. destruct (zmem m common); [|reflexivity].
  destruct (zget (nbrs r n) m), (zget (nbrs p n) m); reflexivity.
Qed.

Lemma build_adj_In r p common n m e : wf_mol r = true -> wf_mol p = true ->
  In (m, e) (build_adj r p common n) <-> adj_spec r p common n m = Some e.
Proof.
  intros Hr Hp. rewrite <- build_adj_get by assumption. split.
  - apply In_zget. apply build_adj_nodup.
  - apply zget_In.
Qed.

Lemma adj_lookup_map r p common o3 n : In n o3 ->
  adj_lookup (map (fun n => (n, build_adj r p common n)) o3) n = build_adj r p common n.
Proof.
  unfold adj_lookup. induction o3 as [|k o3 IH]; intros H; [contradiction|]. cbn [map zget].
  destruct (Z.eqb n k) eqn:E.
  - apply Z.eqb_eq in E. subst. reflexivity.
  - apply IH. destruct H as [H|H]; [subst; rewrite Z.eqb_refl in E; discriminate|exact H].
Qed.

(* ---------- loop 4 ---------- *)
Definition common_mk (n m : Z) (e : adj_entry) : dbond := mkDBond (fst e) (snd e).
Definition dyn_of (a b : atom) : datom := mkDAtom (a_num a) (a_iso a) (a_chg a) (a_rad a) (a_chg b) (a_rad b).
Definition compatible (a b : atom) : Prop := a_num a = a_num b /\ a_iso a = a_iso b.

Lemma option_eqb_Z_eq (a b : option Z) : option_eqb Z.eqb a b = true <-> a = b.
Proof.
  destruct a, b; cbn; split; intros H; try discriminate; try reflexivity.
  - apply Z.eqb_eq in H. congruence.
  - inversion H. apply Z.eqb_refl.
Qed.

Lemma from_atoms_ok a b : compatible a b -> from_atoms a b = Ok (dyn_of a b).
Proof.
  intros [H1 H2]. unfold from_atoms. rewrite (proj2 (Z.eqb_eq _ _) H1). cbn [negb].
  rewrite (proj2 (option_eqb_Z_eq _ _) H2). reflexivity.
Qed.

Lemma from_atoms_inv a b : (exists d, from_atoms a b = Ok d /\ compatible a b /\ d = dyn_of a b) \/
                           (from_atoms a b = Err ValueError /\ ~ compatible a b).
Proof.
  unfold from_atoms, compatible. destruct (a_num a =? a_num b) eqn:E1; cbn [negb].
  - apply Z.eqb_eq in E1. destruct (option_eqb Z.eqb (a_iso a) (a_iso b)) eqn:E2; cbn [negb].
    + apply option_eqb_Z_eq in E2. left. eexists. split; [reflexivity|]. split; [split; assumption|reflexivity].
    + right. split; [reflexivity|]. intros [_ H]. apply option_eqb_Z_eq in H. congruence.
  - right. split; [reflexivity|]. apply Z.eqb_neq in E1. intros [H _]. contradiction.
Qed.

Lemma loop_common_spec r p adjd order : forall ha haf bs,
  loop_common r p adjd order ha = Ok (haf, bs) ->
  (forall x, zget haf x = if zmem x order
                          then match atom_of r x, atom_of p x with Some a, Some b => Some (dyn_of a b) | _, _ => None end
                          else zget ha x) /\
  (forall seen, (forall x, In x seen <-> In x (keys ha)) -> bs = walk (adj_lookup adjd) common_mk order seen) /\
  (NoDup order -> (forall x, In x order -> ~ In x (keys ha)) -> keys haf = keys ha ++ order) /\
  (forall x, In x order -> exists a b, atom_of r x = Some a /\ atom_of p x = Some b /\ compatible a b).
Proof.
  induction order as [|n rest IH]; intros ha haf bs H; cbn [loop_common] in H.
  - inversion H; subst. split; [intros x; reflexivity|]. split; [intros; reflexivity|].
    split; [intros _ _; rewrite app_nil_r; reflexivity|]. intros x [].
  - destruct (atom_of r n) as [a|] eqn:Ea; [|discriminate].
    destruct (atom_of p n) as [b|] eqn:Eb; [|discriminate].
    destruct (from_atoms_inv a b) as [[d [Ed [Hc Hd]]]|[Ee _]]; [|rewrite Ee in H; discriminate].
    rewrite Ed in H. subst d.
    destruct (loop_common r p adjd rest (zset ha n (dyn_of a b))) as [[haf' bs']|e] eqn:El; [|discriminate].
    inversion H; subst haf' bs. clear H. destruct (IH _ _ _ El) as [I1 [I2 [I3 I4]]]. split; [|split; [|split]].
    + intros x. rewrite I1. cbn [zmem existsb]. fold (zmem x rest). destruct (zmem x rest) eqn:Er.
      * rewrite orb_true_r. reflexivity.
      * rewrite orb_false_r. rewrite zget_zset. destruct (Z.eqb x n) eqn:E; [|reflexivity].
        apply Z.eqb_eq in E. subst. rewrite Ea, Eb. reflexivity.
    + intros seen Hs. cbn [walk]. f_equal.
      * apply emit_ext. intros x. rewrite keys_zset_In. cbn [In]. rewrite Hs. intuition.
      * apply I2. intros x. rewrite keys_zset_In. cbn [In]. rewrite Hs. intuition.
    + intros Hn Hdj. inversion Hn as [|? ? Hnr Hn']; subst. rewrite I3.
      * rewrite keys_zset_absent by (apply Hdj; left; reflexivity). rewrite keys_app. cbn. rewrite <- app_assoc. reflexivity.
      * exact Hn'.
      * intros x Hx. rewrite keys_zset_In. intros [E|Hk]; [subst; contradiction|].
        apply (Hdj x); [right; exact Hx|exact Hk].
    + intros x [E|Hx]; [subst x; exists a, b; auto|apply I4; exact Hx].
Qed.

Lemma loop_common_ok r p adjd order : forall ha,
  (forall n, In n order -> exists a b, atom_of r n = Some a /\ atom_of p n = Some b /\ compatible a b) ->
  exists haf bs, loop_common r p adjd order ha = Ok (haf, bs).
Proof.
  induction order as [|n rest IH]; intros ha H; cbn [loop_common].
  - eexists. eexists. reflexivity.
  - destruct (H n (or_introl eq_refl)) as [a [b [Ea [Eb Hc]]]]. rewrite Ea, Eb, (from_atoms_ok a b Hc).
    destruct (IH (zset ha n (dyn_of a b))) as [haf [bs E]]; [intros m Hm; apply H; right; exact Hm|].
    rewrite E. eexists. eexists. reflexivity.
Qed.

(* an incompatible common atom: ValueError, whatever the orders *)
Lemma loop_common_err r p adjd order : forall ha,
  (forall n, In n order -> exists a b, atom_of r n = Some a /\ atom_of p n = Some b) ->
  (exists n a b, In n order /\ atom_of r n = Some a /\ atom_of p n = Some b /\ ~ compatible a b) ->
  loop_common r p adjd order ha = Err ValueError.
Proof.
  induction order as [|n rest IH]; intros ha H [x [a [b [Hx [Ea [Eb Hc]]]]]]; [contradiction|]. cbn [loop_common].
  destruct (H n (or_introl eq_refl)) as [a' [b' [Ea' Eb']]]. rewrite Ea', Eb'.
  destruct (from_atoms_inv a' b') as [[d [Ed [Hc' Hd]]]|[Ee _]]; [|rewrite Ee; reflexivity].
  rewrite Ed. destruct Hx as [E|Hx].
  - subst x. rewrite Ea in Ea'. rewrite Eb in Eb'. inversion Ea'; inversion Eb'; subst. contradiction.
  - rewrite IH; [reflexivity| |].
    + intros m Hm. apply H. right. exact Hm.
    + exists x, a, b. auto.
Qed.

(* ---------- loop 5: writing the bonds into hb ---------- *)
Definition zget2 (hb : list (Z * list (Z * dbond))) (n m : Z) : option dbond :=
  match zget hb n with Some l => zget l m | None => None end.

Lemma cbond_zget2 h n m : cbond h n m = zget2 (c_adj h) n m.
Proof. unfold cbond, cnbrs, zget2. destruct (zget (c_adj h) n); reflexivity. Qed.

Lemma set_bond_keys hb a b bd : keys (set_bond hb a b bd) = keys hb.
Proof.
  unfold set_bond. destruct (zget hb a) eqn:E; [|reflexivity].
  apply keys_zset_present. apply zget_In_keys in E. exact E.
Qed.

Lemma set_bond_get hb a b bd n m :
  zget2 (set_bond hb a b bd) n m =
  if (n =? a) && (m =? b) && (if zget hb a then true else false) then Some bd else zget2 hb n m.
Proof.
  unfold set_bond, zget2. destruct (zget hb a) as [l|] eqn:E.
  - rewrite zget_zset. destruct (n =? a) eqn:E1; cbn [andb].
    + apply Z.eqb_eq in E1. subst n. rewrite zget_zset, E. destruct (m =? b); reflexivity.
    + reflexivity.
  - rewrite andb_false_r. reflexivity.
Qed.

Definition pm (a b n m : Z) : bool := ((n =? a) && (m =? b)) || ((n =? b) && (m =? a)).

Lemma assign_keys hb e : keys (assign hb e) = keys hb.
Proof. destruct e as [[a b] bd]. unfold assign. rewrite !set_bond_keys. reflexivity. Qed.

Lemma fold_assign_keys bonds : forall hb, keys (fold_left assign bonds hb) = keys hb.
Proof. induction bonds as [|e bonds IH]; intros hb; cbn [fold_left]; [reflexivity|]. rewrite IH. apply assign_keys. Qed.

Lemma is_some_keys {V} (d : list (Z * V)) k : In k (keys d) -> (if zget d k then true else false) = true.
Proof. intros H. destruct (zget d k) eqn:E; [reflexivity|]. apply zget_None_keys in E. contradiction. Qed.

Lemma assign_get_miss hb a b bd n m : pm a b n m = false -> zget2 (assign hb (a, b, bd)) n m = zget2 hb n m.
Proof.
  unfold pm, assign. intros H. apply orb_false_iff in H. destruct H as [H1 H2].
  rewrite !set_bond_get. rewrite H2, H1. reflexivity.
Qed.

Lemma assign_get_hit hb a b bd n m : In a (keys hb) -> In b (keys hb) -> pm a b n m = true ->
  zget2 (assign hb (a, b, bd)) n m = Some bd.
Proof.
  unfold pm, assign. intros Ha Hb H. rewrite !set_bond_get.
  rewrite (is_some_keys hb a Ha). rewrite (is_some_keys (set_bond hb a b bd) b) by (rewrite set_bond_keys; exact Hb).
  rewrite !andb_true_r. destruct ((n =? b) && (m =? a)); [reflexivity|].
  rewrite orb_false_r in H. rewrite H. reflexivity.
Qed.

Lemma fold_assign_none bonds : forall hb n m, (forall a b bd, In (a, b, bd) bonds -> pm a b n m = false) ->
  zget2 (fold_left assign bonds hb) n m = zget2 hb n m.
Proof.
  induction bonds as [|[[a b] bd] bonds IH]; intros hb n m H; cbn [fold_left]; [reflexivity|].
  rewrite IH by (intros; eapply H; right; eassumption).
  apply assign_get_miss. eapply H. left. reflexivity.
Qed.

Lemma fold_assign_some bonds : forall hb n m v,
  (forall a b bd, In (a, b, bd) bonds -> In a (keys hb) /\ In b (keys hb)) ->
  (forall a b bd, In (a, b, bd) bonds -> pm a b n m = true -> bd = v) ->
  (zget2 hb n m = Some v \/ exists a b bd, In (a, b, bd) bonds /\ pm a b n m = true) ->
  zget2 (fold_left assign bonds hb) n m = Some v.
Proof.
  induction bonds as [|[[a b] bd] bonds IH]; intros hb n m v Hk Hv Hex; cbn [fold_left].
  - destruct Hex as [H|[? [? [? [[] _]]]]]. exact H.
  - destruct (Hk a b bd (or_introl eq_refl)) as [Ka Kb].
    apply IH.
    + intros a' b' bd' Hi. rewrite assign_keys. apply (Hk a' b' bd'). right. exact Hi.
    + intros a' b' bd' Hi. apply (Hv a' b' bd'). right. exact Hi.
    + destruct (pm a b n m) eqn:Ep.
      * left. rewrite (assign_get_hit hb a b bd n m Ka Kb Ep). f_equal. apply (Hv a b bd (or_introl eq_refl) Ep).
      * rewrite (assign_get_miss hb a b bd n m Ep). destruct Hex as [H|[a' [b' [bd' [[E|Hi] Hp]]]]].
        -- left. exact H.
        -- inversion E; subst. congruence.
        -- right. exists a', b', bd'. split; assumption.
Qed.

Lemma pm_true a b n m : pm a b n m = true <-> (n = a /\ m = b) \/ (n = b /\ m = a).
Proof. unfold pm. rewrite orb_true_iff, !andb_true_iff, !Z.eqb_eq. reflexivity. Qed.

Lemma zget2_init (ha : list (Z * datom)) n m : zget2 (map (fun na => (fst na, [])) ha) n m = None.
Proof.
  unfold zget2. induction ha as [|[k v] ha IH]; cbn [map zget fst]; [reflexivity|].
  destruct (n =? k); [reflexivity|exact IH].
Qed.

Lemma keys_init (ha : list (Z * datom)) : keys (map (fun na => (fst na, @nil (Z * dbond))) ha) = keys ha.
Proof. unfold keys. rewrite map_map. reflexivity. Qed.

Lemma NoDup_app_intro {A} (a b : list A) : NoDup a -> NoDup b -> (forall x, In x a -> ~ In x b) -> NoDup (a ++ b).
Proof.
  intros Ha Hb Hd. induction Ha as [|x a Hx Ha IH]; cbn; [exact Hb|].
  constructor.
  - rewrite in_app_iff. intros [H|H]; [contradiction|]. apply (Hd x); [left; reflexivity|exact H].
  - apply IH. intros y Hy. apply Hd. right. exact Hy.
Qed.

(* ---------- the three sets ---------- *)
Section Orders.
Variables (r p : mol) (o1 o2 o3 : list Z).
Hypothesis Hr : wf_mol r = true.
Hypothesis Hp : wf_mol p = true.
Hypothesis Ho : orders_ok r p o1 o2 o3.

Lemma o1_In x : In x o1 <-> In x (ids r) /\ ~ In x (ids p).
Proof.
  destruct Ho as [H _]. split.
  - intros Hx. apply (Permutation_in _ H) in Hx. unfold cleavage_ids in Hx. apply filter_In in Hx.
    destruct Hx as [A B]. apply negb_true_iff, zmem_false in B. auto.
  - intros [A B]. apply (Permutation_in _ (Permutation_sym H)). apply filter_In. split; [exact A|].
    apply negb_true_iff, zmem_false. exact B.
Qed.
Lemma o2_In x : In x o2 <-> In x (ids p) /\ ~ In x (ids r).
Proof.
  destruct Ho as [_ [H _]]. split.
  - intros Hx. apply (Permutation_in _ H) in Hx. unfold coupling_ids in Hx. apply filter_In in Hx.
    destruct Hx as [A B]. apply negb_true_iff, zmem_false in B. auto.
  - intros [A B]. apply (Permutation_in _ (Permutation_sym H)). apply filter_In. split; [exact A|].
    apply negb_true_iff, zmem_false. exact B.
Qed.
Lemma o3_In x : In x o3 <-> In x (ids r) /\ In x (ids p).
Proof.
  destruct Ho as [_ [_ H]]. split.
  - intros Hx. apply (Permutation_in _ H) in Hx. unfold common_ids in Hx. apply filter_In in Hx.
    destruct Hx as [A B]. apply zmem_In in B. auto.
  - intros [A B]. apply (Permutation_in _ (Permutation_sym H)). apply filter_In. split; [exact A|].
    apply zmem_In. exact B.
Qed.
Lemma o1_NoDup : NoDup o1.
Proof. destruct Ho as [H _]. apply (Permutation_NoDup (Permutation_sym H)). apply NoDup_filter. apply (wf_keys r Hr). Qed.
Lemma o2_NoDup : NoDup o2.
Proof. destruct Ho as [_ [H _]]. apply (Permutation_NoDup (Permutation_sym H)). apply NoDup_filter. apply (wf_keys p Hp). Qed.
Lemma o3_NoDup : NoDup o3.
Proof. destruct Ho as [_ [_ H]]. apply (Permutation_NoDup (Permutation_sym H)). apply NoDup_filter. apply (wf_keys r Hr). Qed.

Lemma o3_common x : zmem x o3 = is_common r p x.
Proof.
  unfold is_common, inb. destruct (zmem x o3) eqn:E.
  - apply zmem_In, o3_In in E. destruct E as [A B]. apply zmem_In in A, B. rewrite A, B. reflexivity.
  - apply zmem_false in E. destruct (zmem x (ids r)) eqn:A, (zmem x (ids p)) eqn:B; try reflexivity.
    exfalso. apply E. apply o3_In. split; apply zmem_In; assumption.
Qed.

Lemma all_NoDup : NoDup (o1 ++ o2 ++ o3).
Proof.
  apply NoDup_app_intro; [exact o1_NoDup| |].
  - apply NoDup_app_intro; [exact o2_NoDup|exact o3_NoDup|].
    intros x H2 H3. apply o2_In in H2. apply o3_In in H3. tauto.
  - intros x H1 H23. apply o1_In in H1. apply in_app_iff in H23. destruct H23 as [H|H].
    + apply o2_In in H. tauto.
    + apply o3_In in H. tauto.
Qed.

Lemma all_In x : In x (o1 ++ o2 ++ o3) <-> In x (ids r) \/ In x (ids p).
Proof.
  rewrite !in_app_iff, o1_In, o2_In, o3_In.
  destruct (in_dec Z.eq_dec x (ids r)), (in_dec Z.eq_dec x (ids p)); tauto.
Qed.
End Orders.

(* ---------- the result of compose, looked up ---------- *)
Section Main.
Variables (r p : mol) (o1 o2 o3 : list Z).
Hypothesis Hr : wf_mol r = true.
Hypothesis Hp : wf_mol p = true.
Hypothesis Ho : orders_ok r p o1 o2 o3.

Let broken1 := fun o : Z => mkDBond (Some o) None.
Let formed2 := fun o : Z => mkDBond None (Some o).
Let adjd := map (fun n => (n, build_adj r p o3 n)) o3.
Let bonds1 := walk (nbrs r) (side_mk o3 broken1) o1 [].
Let bonds2 := walk (nbrs p) (side_mk o3 formed2) o2 o1.
Let bonds3 := walk (adj_lookup adjd) common_mk o3 (o1 ++ o2).

Lemma common_In x : is_common r p x = true <-> In x (ids r) /\ In x (ids p).
Proof. unfold is_common. rewrite andb_true_iff, !inb_In. reflexivity. Qed.

Lemma sound1 a b bd : In (a, b, bd) bonds1 -> spec_bond r p a b = Some bd.
Proof.
  intros H. apply walk_sound in H. destruct H as [Ha [_ [Hab [x [Hi Hb]]]]].
  apply (o1_In r p o1 o2 o3 Ho) in Ha. destruct Ha as [Ar Ap].
  apply (nbrs_In_bond r a b x Hr) in Hi. destruct (wf_bond r a b x Hr Hi) as [_ [Br _]].
  unfold spec_bond. assert (Ca : is_common r p a = false).
  { destruct (is_common r p a) eqn:E; [|reflexivity]. apply common_In in E. tauto. }
  rewrite Ca. cbn [andb orb]. rewrite (proj2 (inb_In r a) Ar), (proj2 (inb_In r b) Br). cbn [andb].
  unfold ord_in. rewrite Hi. cbn [option_map]. subst bd. unfold side_mk.
  rewrite (o3_common r p o1 o2 o3 Ho). destruct (is_common r p b); reflexivity.
Qed.

Lemma sound2 a b bd : In (a, b, bd) bonds2 -> spec_bond r p a b = Some bd.
Proof.
  intros H. apply walk_sound in H. destruct H as [Ha [_ [Hab [x [Hi Hb]]]]].
  apply (o2_In r p o1 o2 o3 Ho) in Ha. destruct Ha as [Ap Ar].
  apply (nbrs_In_bond p a b x Hp) in Hi. destruct (wf_bond p a b x Hp Hi) as [_ [Bp _]].
  unfold spec_bond. assert (Ca : is_common r p a = false).
  { destruct (is_common r p a) eqn:E; [|reflexivity]. apply common_In in E. tauto. }
  rewrite Ca. cbn [andb orb].
  assert (Ra : inb r a = false) by (unfold inb; apply zmem_false; exact Ar). rewrite Ra. cbn [andb].
  rewrite (proj2 (inb_In p a) Ap), (proj2 (inb_In p b) Bp). cbn [andb].
  unfold ord_in. rewrite Hi. cbn [option_map]. subst bd. unfold side_mk.
  rewrite (o3_common r p o1 o2 o3 Ho). destruct (is_common r p b); reflexivity.
Qed.

Lemma adj_spec_inv a b e : adj_spec r p o3 a b = Some e ->
  is_common r p b = true /\ e = (ord_in r a b, ord_in p a b) /\ (ord_in r a b <> None \/ ord_in p a b <> None).
Proof.
  unfold adj_spec. rewrite (o3_common r p o1 o2 o3 Ho). destruct (is_common r p b); [|discriminate].
  destruct (ord_in r a b), (ord_in p a b); intros H; inversion H; subst; (split; [reflexivity|]); (split; [reflexivity|]);
    try (left; discriminate); right; discriminate.
Qed.

Lemma sound3 a b bd : In (a, b, bd) bonds3 -> spec_bond r p a b = Some bd.
Proof.
  intros H. apply walk_sound in H. destruct H as [Ha [_ [Hab [e [Hi Hb]]]]].
  unfold adjd in Hi. rewrite adj_lookup_map in Hi by exact Ha.
  apply build_adj_In in Hi; try assumption. apply adj_spec_inv in Hi. destruct Hi as [Cb [Ee Hne]].
  assert (Ca : is_common r p a = true) by (rewrite <- (o3_common r p o1 o2 o3 Ho); apply zmem_In; exact Ha).
  unfold spec_bond. rewrite Ca, Cb. cbn [andb]. subst bd e. unfold common_mk. cbn [fst snd].
  destruct (ord_in r a b), (ord_in p a b); try reflexivity. destruct Hne; congruence.
Qed.

Lemma sound_all a b bd : In (a, b, bd) (bonds1 ++ bonds2 ++ bonds3) -> spec_bond r p a b = Some bd.
Proof.
  rewrite !in_app_iff. intros [H|[H|H]]; [apply sound1|apply sound2|apply sound3]; exact H.
Qed.

Lemma not_common_cases x : is_common r p x = false -> In x (ids r) -> In x o1.
Proof.
  intros C A. apply (o1_In r p o1 o2 o3 Ho). split; [exact A|]. intros B.
  assert (is_common r p x = true) by (apply common_In; auto). congruence.
Qed.
Lemma not_common_cases2 x : is_common r p x = false -> In x (ids p) -> In x o2.
Proof.
  intros C A. apply (o2_In r p o1 o2 o3 Ho). split; [exact A|]. intros B.
  assert (is_common r p x = true) by (apply common_In; auto). congruence.
Qed.
Lemma common_o3 x : is_common r p x = true -> In x o3.
Proof. intros C. apply zmem_In. rewrite (o3_common r p o1 o2 o3 Ho). exact C. Qed.
Lemma common_not_o1 x : is_common r p x = true -> ~ In x o1.
Proof. intros C H. apply common_In in C. apply (o1_In r p o1 o2 o3 Ho) in H. tauto. Qed.
Lemma common_not_o2 x : is_common r p x = true -> ~ In x o2.
Proof. intros C H. apply common_In in C. apply (o2_In r p o1 o2 o3 Ho) in H. tauto. Qed.

Lemma complete_all n m bd : spec_bond r p n m = Some bd ->
  In (n, m, bd) (bonds1 ++ bonds2 ++ bonds3) \/ In (m, n, bd) (bonds1 ++ bonds2 ++ bonds3).
Proof.
  intros H. pose proof H as H0. unfold spec_bond in H.
  destruct (is_common r p n) eqn:Cn, (is_common r p m) eqn:Cm; cbn [andb orb] in H.
  - (* both common: loop 4 *)
    assert (Hne : ord_in r n m <> None \/ ord_in p n m <> None).
    { destruct (ord_in r n m), (ord_in p n m); try discriminate; [left|left|right]; discriminate. }
    assert (Hnm : n <> m).
    { destruct Hne as [Hx|Hx].
      - destruct (ord_in r n m) eqn:E; [|congruence]. apply (ord_in_ids r n m z Hr E).
      - destruct (ord_in p n m) eqn:E; [|congruence]. apply (ord_in_ids p n m z Hp E). }
    assert (E1 : adj_spec r p o3 n m = Some (ord_in r n m, ord_in p n m)).
    { unfold adj_spec. rewrite (o3_common r p o1 o2 o3 Ho), Cm.
      destruct (ord_in r n m), (ord_in p n m); try reflexivity. destruct Hne; congruence. }
    assert (E2 : adj_spec r p o3 m n = Some (ord_in r n m, ord_in p n m)).
    { unfold adj_spec. rewrite (o3_common r p o1 o2 o3 Ho), Cn.
      rewrite (ord_in_sym r m n Hr), (ord_in_sym p m n Hp).
      destruct (ord_in r n m), (ord_in p n m); try reflexivity. destruct Hne; congruence. }
    assert (Bd : bd = mkDBond (ord_in r n m) (ord_in p n m)).
    { destruct (ord_in r n m), (ord_in p n m); inversion H; reflexivity. }
    pose proof (common_o3 n Cn) as In3. pose proof (common_o3 m Cm) as Im3.
    destruct (walk_complete_in (adj_lookup adjd) common_mk o3 (o1 ++ o2) n m
                (ord_in r n m, ord_in p n m) (ord_in r n m, ord_in p n m)) as [W|W]; try assumption.
    + rewrite in_app_iff. intros [X|X]; [apply (common_not_o1 n Cn X)|apply (common_not_o2 n Cn X)].
    + rewrite in_app_iff. intros [X|X]; [apply (common_not_o1 m Cm X)|apply (common_not_o2 m Cm X)].
    + unfold adjd. rewrite adj_lookup_map by exact In3. apply build_adj_In; assumption.
    + unfold adjd. rewrite adj_lookup_map by exact Im3. apply build_adj_In; assumption.
    + left. rewrite !in_app_iff. right. right. subst bd. exact W.
    + right. rewrite !in_app_iff. right. right. subst bd. exact W.
  - (* n common, m not *)
    destruct (inb r n && inb r m) eqn:Er.
    + apply andb_prop in Er. destruct Er as [Rn Rm]. apply inb_In in Rn, Rm.
      unfold ord_in in H. destruct (bond_of r n m) as [x|] eqn:Eb; [|discriminate]. cbn [option_map] in H. inversion H; subst bd.
      destruct (wf_bond r n m x Hr Eb) as [_ [_ [_ [x' [Eb' Eo]]]]].
      right. rewrite !in_app_iff. left.
      replace (mkDBond (Some (b_ord x)) None) with (side_mk o3 broken1 m n x').
      * apply walk_complete_out.
        -- apply not_common_cases; assumption.
        -- apply bond_In_nbrs. exact Eb'.
        -- intros [].
        -- apply common_not_o1. exact Cn.
      * unfold side_mk. rewrite (o3_common r p o1 o2 o3 Ho), Cn. unfold broken1. rewrite Eo. reflexivity.
    + destruct (inb p n && inb p m) eqn:Ep; [|discriminate].
      apply andb_prop in Ep. destruct Ep as [Pn Pm]. apply inb_In in Pn, Pm.
      unfold ord_in in H. destruct (bond_of p n m) as [x|] eqn:Eb; [|discriminate]. cbn [option_map] in H. inversion H; subst bd.
      destruct (wf_bond p n m x Hp Eb) as [_ [_ [_ [x' [Eb' Eo]]]]].
      right. rewrite !in_app_iff. right. left.
      replace (mkDBond None (Some (b_ord x))) with (side_mk o3 formed2 m n x').
      * apply walk_complete_out.
        -- apply not_common_cases2; assumption.
        -- apply bond_In_nbrs. exact Eb'.
        -- apply common_not_o1. exact Cn.
        -- apply common_not_o2. exact Cn.
      * unfold side_mk. rewrite (o3_common r p o1 o2 o3 Ho), Cn. unfold formed2. rewrite Eo. reflexivity.
  - (* m common, n not *)
    destruct (inb r n && inb r m) eqn:Er.
    + apply andb_prop in Er. destruct Er as [Rn Rm]. apply inb_In in Rn, Rm.
      unfold ord_in in H. destruct (bond_of r n m) as [x|] eqn:Eb; [|discriminate]. cbn [option_map] in H. inversion H; subst bd.
      left. rewrite !in_app_iff. left.
      replace (mkDBond (Some (b_ord x)) None) with (side_mk o3 broken1 n m x).
      * apply walk_complete_out.
        -- apply not_common_cases; assumption.
        -- apply bond_In_nbrs. exact Eb.
        -- intros [].
        -- apply common_not_o1. exact Cm.
      * unfold side_mk. rewrite (o3_common r p o1 o2 o3 Ho), Cm. reflexivity.
    + destruct (inb p n && inb p m) eqn:Ep; [|discriminate].
      apply andb_prop in Ep. destruct Ep as [Pn Pm]. apply inb_In in Pn, Pm.
      unfold ord_in in H. destruct (bond_of p n m) as [x|] eqn:Eb; [|discriminate]. cbn [option_map] in H. inversion H; subst bd.
      left. rewrite !in_app_iff. right. left.
      replace (mkDBond None (Some (b_ord x))) with (side_mk o3 formed2 n m x).
      * apply walk_complete_out.
        -- apply not_common_cases2; assumption.
        -- apply bond_In_nbrs. exact Eb.
        -- apply common_not_o1. exact Cm.
        -- apply common_not_o2. exact Cm.
      * unfold side_mk. rewrite (o3_common r p o1 o2 o3 Ho), Cm. reflexivity.
  - (* neither common *)
    destruct (inb r n && inb r m) eqn:Er.
    + apply andb_prop in Er. destruct Er as [Rn Rm]. apply inb_In in Rn, Rm.
      unfold ord_in in H. destruct (bond_of r n m) as [x|] eqn:Eb; [|discriminate]. cbn [option_map] in H. inversion H; subst bd.
      destruct (wf_bond r n m x Hr Eb) as [_ [_ [Hnm [x' [Eb' Eo]]]]].
      assert (S1 : side_mk o3 broken1 n m x = mkDBond (Some (b_ord x)) (Some (b_ord x))).
      { unfold side_mk. rewrite (o3_common r p o1 o2 o3 Ho), Cm. reflexivity. }
      assert (S2 : side_mk o3 broken1 m n x' = mkDBond (Some (b_ord x)) (Some (b_ord x))).
      { unfold side_mk. rewrite (o3_common r p o1 o2 o3 Ho), Cn. unfold from_bond. rewrite Eo. reflexivity. }
      destruct (walk_complete_in (nbrs r) (side_mk o3 broken1) o1 [] n m x x') as [W|W].
      * apply not_common_cases; assumption.
      * apply not_common_cases; assumption.
      * congruence.
      * intros [].
      * intros [].
      * apply bond_In_nbrs. exact Eb.
      * apply bond_In_nbrs. exact Eb'.
      * left. rewrite !in_app_iff. left. rewrite <- S1. exact W.
      * right. rewrite !in_app_iff. left. rewrite <- S2. exact W.
    + destruct (inb p n && inb p m) eqn:Ep; [|discriminate].
      apply andb_prop in Ep. destruct Ep as [Pn Pm]. apply inb_In in Pn, Pm.
      unfold ord_in in H. destruct (bond_of p n m) as [x|] eqn:Eb; [|discriminate]. cbn [option_map] in H. inversion H; subst bd.
      destruct (wf_bond p n m x Hp Eb) as [_ [_ [Hnm [x' [Eb' Eo]]]]].
      assert (S1 : side_mk o3 formed2 n m x = mkDBond (Some (b_ord x)) (Some (b_ord x))).
      { unfold side_mk. rewrite (o3_common r p o1 o2 o3 Ho), Cm. reflexivity. }
      assert (S2 : side_mk o3 formed2 m n x' = mkDBond (Some (b_ord x)) (Some (b_ord x))).
      { unfold side_mk. rewrite (o3_common r p o1 o2 o3 Ho), Cn. unfold from_bond. rewrite Eo. reflexivity. }
      pose proof (not_common_cases2 n Cn Pn) as N2. pose proof (not_common_cases2 m Cm Pm) as M2.
      destruct (walk_complete_in (nbrs p) (side_mk o3 formed2) o2 o1 n m x x') as [W|W].
      * exact N2.
      * exact M2.
      * congruence.
      * intros X. apply (o1_In r p o1 o2 o3 Ho) in X. tauto.
      * intros X. apply (o1_In r p o1 o2 o3 Ho) in X. tauto.
      * apply bond_In_nbrs. exact Eb.
      * apply bond_In_nbrs. exact Eb'.
      * left. rewrite !in_app_iff. right. left. rewrite <- S1. exact W.
      * right. rewrite !in_app_iff. right. left. rewrite <- S2. exact W.
Qed.
End Main.

Lemma zmem_true_In x l : zmem x l = true -> In x l. Proof. apply zmem_In. Qed.

Theorem compose_lookup r p o1 o2 o3 h :
  wf_mol r = true -> wf_mol p = true -> orders_ok r p o1 o2 o3 -> compose_ord o1 o2 o3 r p = Ok h ->
  keys (c_atoms h) = o1 ++ o2 ++ o3 /\ keys (c_adj h) = o1 ++ o2 ++ o3 /\
  (forall n, catom h n = spec_atom r p n) /\ (forall n m, cbond h n m = spec_bond r p n m).
Proof.
  intros Hr Hp Ho H. unfold compose_ord in H.
  destruct (loop_side r o3 (fun o => mkDBond (Some o) None) o1 []) as [[ha1 b1]|e] eqn:L1; [|discriminate].
  destruct (loop_side p o3 (fun o => mkDBond None (Some o)) o2 ha1) as [[ha2 b2]|e] eqn:L2; [|discriminate].
  destruct (loop_common r p (map (fun n => (n, build_adj r p o3 n)) o3) o3 ha2) as [[ha3 b3]|e] eqn:L3; [|discriminate].
  inversion H; subst h; clear H. cbn [c_atoms c_adj].
  destruct (loop_side_spec _ _ _ _ _ _ _ L1) as [A1 [B1 K1]].
  destruct (loop_side_spec _ _ _ _ _ _ _ L2) as [A2 [B2 K2]].
  destruct (loop_common_spec _ _ _ _ _ _ _ L3) as [A3 [B3 [K3 _]]].
  pose proof (o1_NoDup r p o1 o2 o3 Hr Ho) as N1. pose proof (o2_NoDup r p o1 o2 o3 Hp Ho) as N2.
  pose proof (o3_NoDup r p o1 o2 o3 Hr Ho) as N3.
  assert (E1 : keys ha1 = o1) by (rewrite K1; [reflexivity|exact N1|intros x _ []]).
  assert (E2 : keys ha2 = o1 ++ o2).
  { rewrite K2; [rewrite E1; reflexivity|exact N2|]. intros x X2 X1. rewrite E1 in X1.
    apply (o1_In r p o1 o2 o3 Ho) in X1. apply (o2_In r p o1 o2 o3 Ho) in X2. tauto. }
  assert (E3 : keys ha3 = o1 ++ o2 ++ o3).
  { rewrite K3; [rewrite E2, app_assoc; reflexivity|exact N3|]. intros x X3 X12. rewrite E2 in X12.
    apply (o3_In r p o1 o2 o3 Ho) in X3. apply in_app_iff in X12. destruct X12 as [X|X].
    - apply (o1_In r p o1 o2 o3 Ho) in X. tauto.
    - apply (o2_In r p o1 o2 o3 Ho) in X. tauto. }
  split; [exact E3|]. split; [rewrite fold_assign_keys, keys_init; exact E3|]. split.
  - (* atoms *)
    intros n. unfold catom. rewrite A3. unfold spec_atom. destruct (zmem n o3) eqn:M3.
    + apply zmem_true_In, (o3_In r p o1 o2 o3 Ho) in M3. destruct M3 as [X Y].
      apply atom_of_ids in X, Y. destruct X as [a Ea], Y as [b Eb]. rewrite Ea, Eb. reflexivity.
    + rewrite A2. destruct (zmem n o2) eqn:M2.
      * apply zmem_true_In, (o2_In r p o1 o2 o3 Ho) in M2. destruct M2 as [Y X].
        destruct (atom_of r n) as [a|] eqn:Ea; [exfalso; apply X; apply atom_of_ids; exists a; exact Ea|].
        apply atom_of_ids in Y. destruct Y as [b Eb]. rewrite Eb. reflexivity.
      * rewrite A1. destruct (zmem n o1) eqn:M1.
        -- apply zmem_true_In, (o1_In r p o1 o2 o3 Ho) in M1. destruct M1 as [X Y].
           destruct (atom_of p n) as [b|] eqn:Eb; [exfalso; apply Y; apply atom_of_ids; exists b; exact Eb|].
           apply atom_of_ids in X. destruct X as [a Ea]. rewrite Ea. reflexivity.
        -- cbn [zget]. apply zmem_false in M1, M2, M3.
           destruct (atom_of r n) as [a|] eqn:Ea.
           ++ assert (X : In n (ids r)) by (apply atom_of_ids; exists a; exact Ea).
              destruct (atom_of p n) as [b|] eqn:Eb.
              ** exfalso. apply M3. apply (o3_In r p o1 o2 o3 Ho). split; [exact X|]. apply atom_of_ids. exists b. exact Eb.
              ** exfalso. apply M1. apply (o1_In r p o1 o2 o3 Ho). split; [exact X|]. intros Y. apply atom_of_ids in Y.
                 destruct Y as [b Eb']. congruence.
           ++ destruct (atom_of p n) as [b|] eqn:Eb; [|reflexivity].
              exfalso. apply M2. apply (o2_In r p o1 o2 o3 Ho). split; [apply atom_of_ids; exists b; exact Eb|].
              intros X. apply atom_of_ids in X. destruct X as [a Ea']. congruence.
  - (* bonds *)
    intros n m. rewrite cbond_zget2. cbn [c_adj].
    assert (Eb1 : b1 = walk (nbrs r) (side_mk o3 (fun o => mkDBond (Some o) None)) o1 []) by (apply B1; intros x; reflexivity).
    assert (Eb2 : b2 = walk (nbrs p) (side_mk o3 (fun o => mkDBond None (Some o))) o2 o1) by (apply B2; intros x; rewrite E1; reflexivity).
    assert (Eb3 : b3 = walk (adj_lookup (map (fun n => (n, build_adj r p o3 n)) o3)) common_mk o3 (o1 ++ o2))
      by (apply B3; intros x; rewrite E2; reflexivity).
    rewrite Eb1, Eb2, Eb3.
    destruct (spec_bond r p n m) as [bd|] eqn:Es.
    + apply fold_assign_some.
      * intros a b bd' Hi. apply (sound_all r p o1 o2 o3 Hr Hp Ho) in Hi. rewrite keys_init, E3.
        assert (Q : forall x y v, spec_bond r p x y = Some v -> In x (ids r) \/ In x (ids p)).
        { intros x y v Q. unfold spec_bond in Q. destruct (is_common r p x) eqn:Cx.
          - apply common_In in Cx. tauto.
          - cbn [andb] in Q. destruct (inb r x) eqn:Rx; [left; apply inb_In; exact Rx|]. cbn [andb] in Q.
            destruct (inb p x) eqn:Px; [right; apply inb_In; exact Px|]. cbn [andb] in Q. discriminate. }
        split; apply (all_In r p o1 o2 o3 Ho).
        -- apply (Q a b bd'). exact Hi.
        -- apply (Q b a bd'). rewrite spec_bond_sym by assumption. exact Hi.
      * intros a b bd' Hi Hpm. apply (sound_all r p o1 o2 o3 Hr Hp Ho) in Hi. apply pm_true in Hpm.
        destruct Hpm as [[X Y]|[X Y]]; subst.
        -- congruence.
        -- rewrite spec_bond_sym in Hi by assumption. congruence.
      * right. destruct (complete_all r p o1 o2 o3 Hr Hp Ho n m bd Es) as [W|W].
        -- exists n, m, bd. split; [exact W|]. apply pm_true. left. auto.
        -- exists m, n, bd. split; [exact W|]. apply pm_true. right. auto.
    + rewrite fold_assign_none; [apply zget2_init|].
      intros a b bd Hi. apply (sound_all r p o1 o2 o3 Hr Hp Ho) in Hi.
      destruct (pm a b n m) eqn:Hpm; [|reflexivity]. apply pm_true in Hpm. destruct Hpm as [[X Y]|[X Y]]; subst.
      * congruence.
      * rewrite spec_bond_sym in Hi by assumption. congruence.
Qed.

(* ---------- when compose succeeds ---------- *)
Theorem compose_ok r p o1 o2 o3 :
  wf_mol r = true -> wf_mol p = true -> orders_ok r p o1 o2 o3 ->
  (forall n a b, atom_of r n = Some a -> atom_of p n = Some b -> compatible a b) ->
  exists h, compose_ord o1 o2 o3 r p = Ok h.
Proof.
  intros Hr Hp Ho Hc. unfold compose_ord.
  destruct (loop_side_ok r o3 (fun o => mkDBond (Some o) None) o1 []) as [ha1 [b1 E1]].
  { intros n Hn. apply (o1_In r p o1 o2 o3 Ho) in Hn. tauto. }
  rewrite E1.
  destruct (loop_side_ok p o3 (fun o => mkDBond None (Some o)) o2 ha1) as [ha2 [b2 E2]].
  { intros n Hn. apply (o2_In r p o1 o2 o3 Ho) in Hn. tauto. }
  rewrite E2.
  destruct (loop_common_ok r p (map (fun n => (n, build_adj r p o3 n)) o3) o3 ha2) as [ha3 [b3 E3]].
  { intros n Hn. apply (o3_In r p o1 o2 o3 Ho) in Hn. destruct Hn as [X Y]. apply atom_of_ids in X, Y.
    destruct X as [a Ea], Y as [b Eb]. exists a, b. split; [exact Ea|]. split; [exact Eb|]. apply (Hc n); assumption. }
  rewrite E3. eexists. reflexivity.
Qed.

Theorem compose_value_error r p o1 o2 o3 :
  wf_mol r = true -> wf_mol p = true -> orders_ok r p o1 o2 o3 ->
  (exists n a b, atom_of r n = Some a /\ atom_of p n = Some b /\ ~ compatible a b) ->
  compose_ord o1 o2 o3 r p = Err ValueError.
Proof.
  intros Hr Hp Ho [n [a [b [Ea [Eb Hc]]]]]. unfold compose_ord.
  destruct (loop_side_ok r o3 (fun o => mkDBond (Some o) None) o1 []) as [ha1 [b1 E1]].
  { intros k Hk. apply (o1_In r p o1 o2 o3 Ho) in Hk. tauto. }
  rewrite E1.
  destruct (loop_side_ok p o3 (fun o => mkDBond None (Some o)) o2 ha1) as [ha2 [b2 E2]].
  { intros k Hk. apply (o2_In r p o1 o2 o3 Ho) in Hk. tauto. }
  rewrite E2. rewrite loop_common_err; [reflexivity| |].
  - intros k Hk. apply (o3_In r p o1 o2 o3 Ho) in Hk. destruct Hk as [X Y]. apply atom_of_ids in X, Y.
    destruct X as [a' Ea'], Y as [b' Eb']. exists a', b'. auto.
  - exists n, a, b. split; [|auto]. apply (o3_In r p o1 o2 o3 Ho). split; apply atom_of_ids; eauto.
Qed.

(* the result does not depend on the iteration order of the three sets (as a dict of dicts) *)
Theorem compose_order_independent r p o1 o2 o3 o1' o2' o3' h h' :
  wf_mol r = true -> wf_mol p = true -> orders_ok r p o1 o2 o3 -> orders_ok r p o1' o2' o3' ->
  compose_ord o1 o2 o3 r p = Ok h -> compose_ord o1' o2' o3' r p = Ok h' ->
  Permutation (keys (c_atoms h)) (keys (c_atoms h')) /\
  (forall n, catom h n = catom h' n) /\ (forall n m, cbond h n m = cbond h' n m).
Proof.
  intros Hr Hp Ho Ho' H H'.
  destruct (compose_lookup r p o1 o2 o3 h Hr Hp Ho H) as [K [_ [A B]]].
  destruct (compose_lookup r p o1' o2' o3' h' Hr Hp Ho' H') as [K' [_ [A' B']]].
  split; [|split].
  - rewrite K, K'. destruct Ho as [P1 [P2 P3]], Ho' as [P1' [P2' P3']].
    apply Permutation_app; [|apply Permutation_app].
    + rewrite P1, P1'. reflexivity.
    + rewrite P2, P2'. reflexivity.
    + rewrite P3, P3'. reflexivity.
  - intros n. rewrite A, A'. reflexivity.
  - intros n m. rewrite B, B'. reflexivity.
Qed.

Lemma orders_ok_canonical r p : orders_ok r p (cleavage_ids r p) (coupling_ids r p) (common_ids r p).
Proof. repeat split; apply Permutation_refl. Qed.

(* ---------- dynamic atoms and bonds: exactly the differences ---------- *)
Lemma dbond_dynamic_iff b : dbond_dynamic b = true <-> db_ord b <> db_pord b.
Proof.
  unfold dbond_dynamic. rewrite negb_true_iff. split.
  - intros H E. apply option_eqb_Z_eq in E. congruence.
  - intros H. destruct (option_eqb Z.eqb (db_ord b) (db_pord b)) eqn:E; [|reflexivity]. apply option_eqb_Z_eq in E. contradiction.
Qed.

Lemma datom_dynamic_iff a : datom_dynamic a = true <-> d_chg a <> d_pchg a \/ d_rad a <> d_prad a.
Proof.
  unfold datom_dynamic. rewrite orb_true_iff, !negb_true_iff, Z.eqb_neq. split; intros [H|H]; auto.
  - right. intros E. rewrite E in H. destruct (d_prad a); discriminate.
  - right. destruct (d_rad a), (d_prad a); try reflexivity; congruence.
Qed.

Lemma ord_in_absent_l g n m : wf_mol g = true -> ~ In n (ids g) -> ord_in g n m = None.
Proof.
  intros H Hn. destruct (ord_in g n m) eqn:E; [|reflexivity]. apply (ord_in_ids g n m z H) in E. tauto.
Qed.
Lemma ord_in_absent_r g n m : wf_mol g = true -> ~ In m (ids g) -> ord_in g n m = None.
Proof. intros H Hn. rewrite ord_in_sym by exact H. apply ord_in_absent_l; assumption. Qed.

Lemma is_common_false_cases r p x : is_common r p x = false -> ~ In x (ids r) \/ ~ In x (ids p).
Proof.
  unfold is_common. intros H. apply andb_false_iff in H. destruct H as [H|H]; [left|right]; intros X; apply inb_In in X; congruence.
Qed.

Theorem compose_dynamic_iff r p o1 o2 o3 h :
  wf_mol r = true -> wf_mol p = true -> orders_ok r p o1 o2 o3 -> compose_ord o1 o2 o3 r p = Ok h ->
  (forall n m, is_dynamic_bond h n m <->
               ord_in r n m <> ord_in p n m /\ (is_common r p n = true \/ is_common r p m = true)) /\
  (forall n, is_dynamic_atom h n <->
             exists a b, atom_of r n = Some a /\ atom_of p n = Some b /\ (a_chg a <> a_chg b \/ a_rad a <> a_rad b)).
Proof.
  intros Hr Hp Ho H. destruct (compose_lookup r p o1 o2 o3 h Hr Hp Ho H) as [_ [_ [A B]]]. split.
  - intros n m. unfold is_dynamic_bond. rewrite B. unfold spec_bond.
    destruct (is_common r p n) eqn:Cn, (is_common r p m) eqn:Cm; cbn [andb orb].
    + split.
      * intros [b [E D]]. apply dbond_dynamic_iff in D. split; [|left; reflexivity].
        destruct (ord_in r n m), (ord_in p n m); inversion E; subst b; cbn in D; congruence.
      * intros [D _]. destruct (ord_in r n m) eqn:E1, (ord_in p n m) eqn:E2; try congruence;
          (eexists; split; [reflexivity|apply dbond_dynamic_iff; cbn; congruence]).
    + (* n common, m on one side only *)
      destruct (is_common_false_cases r p m Cm) as [Mr|Mp].
      * rewrite (ord_in_absent_r r n m Hr Mr).
        assert (Rm : inb r m = false) by (unfold inb; apply zmem_false; exact Mr). rewrite Rm, andb_false_r.
        destruct (inb p n && inb p m) eqn:Ep; split.
        -- intros [b [E D]]. destruct (ord_in p n m); inversion E; subst. split; [discriminate|left; reflexivity].
        -- intros [D _]. destruct (ord_in p n m); [|congruence]. eexists. split; [reflexivity|reflexivity].
        -- intros [b [E _]]. discriminate.
        -- intros [D _]. exfalso. destruct (ord_in p n m) eqn:E; [|congruence].
           apply (ord_in_ids p n m z Hp) in E. destruct E as [X [Y _]]. apply common_In in Cn.
           assert (inb p n && inb p m = true) by (rewrite andb_true_iff, !inb_In; tauto). congruence.
      * rewrite (ord_in_absent_r p n m Hp Mp). destruct (inb r n && inb r m) eqn:Er; split.
        -- intros [b [E D]]. destruct (ord_in r n m); inversion E; subst. split; [discriminate|left; reflexivity].
        -- intros [D _]. destruct (ord_in r n m); [|congruence]. eexists. split; [reflexivity|reflexivity].
        -- assert (Pm : inb p m = false) by (unfold inb; apply zmem_false; exact Mp). rewrite Pm, andb_false_r.
           intros [b [E _]]. discriminate.
        -- intros [D _]. exfalso. destruct (ord_in r n m) eqn:E; [|congruence].
           apply (ord_in_ids r n m z Hr) in E. destruct E as [X [Y _]].
           assert (inb r n && inb r m = true) by (rewrite andb_true_iff, !inb_In; tauto). congruence.
    + (* m common, n on one side only *)
      destruct (is_common_false_cases r p n Cn) as [Nr|Np].
      * rewrite (ord_in_absent_l r n m Hr Nr).
        assert (Rn : inb r n = false) by (unfold inb; apply zmem_false; exact Nr). rewrite Rn. cbn [andb].
        destruct (inb p n && inb p m) eqn:Ep; split.
        -- intros [b [E D]]. destruct (ord_in p n m); inversion E; subst. split; [discriminate|right; reflexivity].
        -- intros [D _]. destruct (ord_in p n m); [|congruence]. eexists. split; [reflexivity|reflexivity].
        -- intros [b [E _]]. discriminate.
        -- intros [D _]. exfalso. destruct (ord_in p n m) eqn:E; [|congruence].
           apply (ord_in_ids p n m z Hp) in E. destruct E as [X [Y _]].
           assert (inb p n && inb p m = true) by (rewrite andb_true_iff, !inb_In; tauto). congruence.
      * rewrite (ord_in_absent_l p n m Hp Np). destruct (inb r n && inb r m) eqn:Er; split.
        -- intros [b [E D]]. destruct (ord_in r n m); inversion E; subst. split; [discriminate|right; reflexivity].
        -- intros [D _]. destruct (ord_in r n m); [|congruence]. eexists. split; [reflexivity|reflexivity].
        -- assert (Pn : inb p n = false) by (unfold inb; apply zmem_false; exact Np). rewrite Pn. cbn [andb].
           intros [b [E _]]. discriminate.
        -- intros [D _]. exfalso. destruct (ord_in r n m) eqn:E; [|congruence].
           apply (ord_in_ids r n m z Hr) in E. destruct E as [X [Y _]].
           assert (inb r n && inb r m = true) by (rewrite andb_true_iff, !inb_In; tauto). congruence.
    + (* neither common: never dynamic *)
      split; [|intros [_ [X|X]]; discriminate].
      intros [b [E D]]. exfalso. apply dbond_dynamic_iff in D.
      destruct (inb r n && inb r m).
      * destruct (ord_in r n m); inversion E; subst; cbn in D; congruence.
      * destruct (inb p n && inb p m); [|discriminate].
        destruct (ord_in p n m); inversion E; subst; cbn in D; congruence.
  - intros n. unfold is_dynamic_atom. rewrite A. unfold spec_atom. split.
    + intros [d [E D]]. apply datom_dynamic_iff in D.
      destruct (atom_of r n) as [a|], (atom_of p n) as [b|]; inversion E; subst d; cbn in D.
      * exists a, b. auto.
      * destruct D; congruence.
      * destruct D; congruence.
    + intros [a [b [Ea [Eb D]]]]. rewrite Ea, Eb. eexists. split; [reflexivity|]. apply datom_dynamic_iff. cbn. exact D.
Qed.

(* fully mapped (balanced) reactions: the statement of DESIGN Appendix A holds as written *)
Theorem compose_dynamic_balanced r p o1 o2 o3 h :
  wf_mol r = true -> wf_mol p = true -> orders_ok r p o1 o2 o3 -> compose_ord o1 o2 o3 r p = Ok h ->
  (forall x, In x (ids r) <-> In x (ids p)) ->
  forall n m, is_dynamic_bond h n m <-> ord_in r n m <> ord_in p n m.
Proof.
  intros Hr Hp Ho H Hb n m. destruct (compose_dynamic_iff r p o1 o2 o3 h Hr Hp Ho H) as [B _]. rewrite B. split; [tauto|].
  intros D. split; [exact D|]. left. apply common_In.
  destruct (ord_in r n m) eqn:E1.
  - apply (ord_in_ids r n m z Hr) in E1. destruct E1 as [X _]. split; [exact X|apply Hb; exact X].
  - destruct (ord_in p n m) eqn:E2; [|congruence].
    apply (ord_in_ids p n m z Hp) in E2. destruct E2 as [X _]. split; [apply Hb; exact X|exact X].
Qed.

(* ... and is FALSE without the restriction: a bond between two atoms that exist only in the reactants is copied
   unchanged although it is absent from the products *)
Definition naive_r : mol :=
  mkMol [(1, mkAtom 6 None 0 false (Some 3) None); (2, mkAtom 6 None 0 false (Some 3) None)]
        [(1, [(2, mkBond 1 None)]); (2, [(1, mkBond 1 None)])].
Definition naive_p : mol := mkMol [] [].
Theorem compose_unbalanced_convention :
  exists r p h n m, wf_mol r = true /\ wf_mol p = true /\ compose r p = Ok h /\
    ord_in r n m <> ord_in p n m /\ ~ is_dynamic_bond h n m.
Proof.
  exists naive_r, naive_p. eexists. exists 1, 2. split; [reflexivity|]. split; [reflexivity|].
  split; [vm_compute; reflexivity|]. split; [vm_compute; discriminate|].
  intros [b [E D]]. vm_compute in E. inversion E. subst b. vm_compute in D. discriminate.
Qed.

(* ---------- well-formedness of the result ---------- *)
Lemma In_zset {V} (d : list (Z * V)) k v k' v' : In (k', v') (zset d k v) -> (k' = k /\ v' = v) \/ In (k', v') d.
Proof.
  induction d as [|[k0 v0] d IH]; cbn [zset In].
  - intros [H|[]]. inversion H. auto.
  - destruct (Z.eqb k k0) eqn:E; cbn [In].
    + intros [H|H]; [inversion H; auto|auto].
    + intros [H|H]; [auto|]. apply IH in H. tauto.
Qed.

Definition inner_nodup (hb : list (Z * list (Z * dbond))) : Prop := forall n l, In (n, l) hb -> NoDup (keys l).

Lemma set_bond_inner hb a b bd : inner_nodup hb -> inner_nodup (set_bond hb a b bd).
Proof.
  intros H. unfold set_bond. destruct (zget hb a) as [l|] eqn:E; [|exact H].
  intros n l' Hi. apply In_zset in Hi. destruct Hi as [[_ E2]|Hi].
  - subst l'. apply NoDup_keys_zset. apply (H a). apply zget_In. exact E.
  - apply (H n). exact Hi.
Qed.

Lemma fold_assign_inner bonds : forall hb, inner_nodup hb -> inner_nodup (fold_left assign bonds hb).
Proof.
  induction bonds as [|[[a b] bd] bonds IH]; intros hb H; cbn [fold_left]; [exact H|].
  apply IH. unfold assign. apply set_bond_inner. apply set_bond_inner. exact H.
Qed.

Lemma init_inner (ha : list (Z * datom)) : inner_nodup (map (fun na => (fst na, [])) ha).
Proof. intros n l Hi. apply in_map_iff in Hi. destruct Hi as [x [E _]]. inversion E. constructor. Qed.

Lemma compose_inner_nodup o1 o2 o3 r p h : compose_ord o1 o2 o3 r p = Ok h -> inner_nodup (c_adj h).
Proof.
  unfold compose_ord.
  destruct (loop_side r o3 _ o1 []) as [[ha1 b1]|e]; [|discriminate].
  destruct (loop_side p o3 _ o2 ha1) as [[ha2 b2]|e]; [|discriminate].
  destruct (loop_common r p _ o3 ha2) as [[ha3 b3]|e]; [|discriminate].
  intros H. inversion H. cbn [c_adj]. apply fold_assign_inner. apply init_inner.
Qed.

Lemma list_eqb_Z_refl l : list_eqb Z.eqb l l = true.
Proof. induction l as [|x l IH]; cbn; [reflexivity|]. rewrite Z.eqb_refl. exact IH. Qed.

Lemma dbond_eqb_refl b : dbond_eqb b b = true.
Proof.
  unfold dbond_eqb. rewrite (proj2 (option_eqb_Z_eq _ _) eq_refl), (proj2 (option_eqb_Z_eq _ _) eq_refl). reflexivity.
Qed.

Lemma spec_bond_ends r p n m bd : wf_mol r = true -> wf_mol p = true -> spec_bond r p n m = Some bd ->
  n <> m /\ (In n (ids r) \/ In n (ids p)) /\ (In m (ids r) \/ In m (ids p)).
Proof.
  intros Hr Hp H.
  assert (Q : forall x y v, spec_bond r p x y = Some v -> In x (ids r) \/ In x (ids p)).
  { intros x y v Q. unfold spec_bond in Q. destruct (is_common r p x) eqn:Cx.
    - apply common_In in Cx. tauto.
    - cbn [andb] in Q. destruct (inb r x) eqn:Rx; [left; apply inb_In; exact Rx|]. cbn [andb] in Q.
      destruct (inb p x) eqn:Px; [right; apply inb_In; exact Px|]. cbn [andb] in Q. discriminate. }
  split; [|split].
  - intros E. subst m. unfold spec_bond in H.
    assert (Lr : ord_in r n n = None).
    { destruct (ord_in r n n) eqn:E; [|reflexivity]. apply (ord_in_ids r n n z Hr) in E. tauto. }
    assert (Lp : ord_in p n n = None).
    { destruct (ord_in p n n) eqn:E; [|reflexivity]. apply (ord_in_ids p n n z Hp) in E. tauto. }
    rewrite Lr, Lp in H. destruct (is_common r p n && is_common r p n); [discriminate|].
    destruct (inb r n && inb r n); [discriminate|]. destruct (inb p n && inb p n); discriminate.
  - apply (Q n m bd H).
  - apply (Q m n bd). rewrite spec_bond_sym by assumption. exact H.
Qed.

Theorem compose_symmetric_wf r p o1 o2 o3 h :
  wf_mol r = true -> wf_mol p = true -> orders_ok r p o1 o2 o3 -> compose_ord o1 o2 o3 r p = Ok h ->
  wf_cgr h = true /\ (forall n m, cbond h n m = cbond h m n).
Proof.
  intros Hr Hp Ho H. destruct (compose_lookup r p o1 o2 o3 h Hr Hp Ho H) as [K [K' [A B]]].
  pose proof (compose_inner_nodup _ _ _ _ _ _ H) as Hin.
  pose proof (all_NoDup r p o1 o2 o3 Hr Hp Ho) as Hnd.
  split.
  - unfold wf_cgr. rewrite K, K', list_eqb_Z_refl. cbn [andb].
    rewrite (proj2 (nodup_z_NoDup _) Hnd). cbn [andb].
    apply forallb_forall. intros [n l] Hi. cbn [fst snd].
    rewrite (proj2 (nodup_z_NoDup _) (Hin n l Hi)). cbn [andb].
    apply forallb_forall. intros [m b] Hm. cbn [fst snd].
    assert (Eg : zget (c_adj h) n = Some l) by (apply In_zget; [rewrite K'; exact Hnd|exact Hi]).
    assert (Eb : cbond h n m = Some b).
    { unfold cbond, cnbrs. rewrite Eg. apply In_zget; [apply (Hin n l Hi)|exact Hm]. }
    rewrite B in Eb. destruct (spec_bond_ends r p n m b Hr Hp Eb) as [Hnm [_ Hm']].
    rewrite B, spec_bond_sym, Eb by assumption. rewrite dbond_eqb_refl, andb_true_r.
    apply andb_true_intro. split.
    + apply negb_true_iff, Z.eqb_neq. congruence.
    + apply zmem_In. apply (all_In r p o1 o2 o3 Ho). exact Hm'.
  - intros n m. rewrite !B. apply spec_bond_sym; assumption.
Qed.

(* ---------- center_atoms ---------- *)
Theorem center_atoms_spec h n :
  In n (center_atoms h) <->
  (exists a, In (n, a) (c_atoms h) /\ datom_dynamic a = true) \/
  (exists l m b, In (n, l) (c_adj h) /\ In (m, b) l /\ dbond_dynamic b = true).
Proof.
  unfold center_atoms.
  set (c1 := map fst (filter (fun na => datom_dynamic (snd na)) (c_atoms h))).
  assert (P1 : In n c1 <-> exists a, In (n, a) (c_atoms h) /\ datom_dynamic a = true).
  { unfold c1. rewrite in_map_iff. split.
    - intros [[k a] [E Hf]]. cbn in E. subst k. apply filter_In in Hf. exists a. exact Hf.
    - intros [a Ha]. exists (n, a). split; [reflexivity|]. apply filter_In. exact Ha. }
  assert (P2 : In n (map fst (filter (fun nl => existsb (fun mb => dbond_dynamic (snd mb)) (snd nl)) (c_adj h))) <->
               exists l m b, In (n, l) (c_adj h) /\ In (m, b) l /\ dbond_dynamic b = true).
  { rewrite in_map_iff. split.
    - intros [[k l] [E Hf]]. cbn in E. subst k. apply filter_In in Hf. destruct Hf as [Hi He]. cbn [snd] in He.
      apply existsb_exists in He. destruct He as [[m b] [Hm Hd]]. exists l, m, b. auto.
    - intros [l [m [b [Hi [Hm Hd]]]]]. exists (n, l). split; [reflexivity|]. apply filter_In. split; [exact Hi|].
      cbn [snd]. apply existsb_exists. exists (m, b). auto. }
  rewrite in_app_iff, filter_In, P1, P2, negb_true_iff, zmem_false, P1.
  split; [tauto|]. intros [X|X]; [left; exact X|].
  destruct (in_dec Z.eq_dec n c1) as [Y|Y]; [left; apply P1; exact Y|]. right. split; [exact X|]. rewrite <- P1. exact Y.
Qed.

(* with the well-formedness of the result: centre = dynamic atoms + ends of dynamic bonds *)
Theorem compose_center_atoms r p o1 o2 o3 h :
  wf_mol r = true -> wf_mol p = true -> orders_ok r p o1 o2 o3 -> compose_ord o1 o2 o3 r p = Ok h ->
  forall n, In n (center_atoms h) <-> is_dynamic_atom h n \/ exists m, is_dynamic_bond h n m.
Proof.
  intros Hr Hp Ho H n. destruct (compose_lookup r p o1 o2 o3 h Hr Hp Ho H) as [K [K' _]].
  pose proof (compose_inner_nodup _ _ _ _ _ _ H) as Hin.
  pose proof (all_NoDup r p o1 o2 o3 Hr Hp Ho) as Hnd.
  rewrite center_atoms_spec. unfold is_dynamic_atom, is_dynamic_bond, catom. split.
  - intros [[a [Hi Hd]]|[l [m [b [Hi [Hm Hd]]]]]].
    + left. exists a. split; [apply In_zget; [rewrite K; exact Hnd|exact Hi]|exact Hd].
    + right. exists m, b. split; [|exact Hd]. unfold cbond, cnbrs.
      rewrite (In_zget _ _ _ (eq_ind_r (fun k => NoDup k) Hnd K') Hi). apply In_zget; [apply (Hin n l Hi)|exact Hm].
  - intros [[a [E Hd]]|[m [b [E Hd]]]].
    + left. exists a. split; [apply zget_In; exact E|exact Hd].
    + right. unfold cbond, cnbrs in E. destruct (zget (c_adj h) n) as [l|] eqn:El; [|discriminate].
      exists l, m, b. split; [apply zget_In; exact El|]. split; [apply zget_In; exact E|exact Hd].
Qed.

(* ---------- identical sides: no reaction centre ---------- *)
Theorem compose_identity_no_center g o1 o2 o3 :
  wf_mol g = true -> orders_ok g g o1 o2 o3 ->
  exists h, compose_ord o1 o2 o3 g g = Ok h /\ center_atoms h = [] /\
            (forall n, ~ is_dynamic_atom h n) /\ (forall n m, ~ is_dynamic_bond h n m).
Proof.
  intros Hg Ho. destruct (compose_ok g g o1 o2 o3 Hg Hg Ho) as [h H].
  { intros n a b Ea Eb. rewrite Ea in Eb. inversion Eb. split; reflexivity. }
  exists h. split; [exact H|].
  destruct (compose_dynamic_iff g g o1 o2 o3 h Hg Hg Ho H) as [B A].
  assert (NA : forall n, ~ is_dynamic_atom h n).
  { intros n D. apply A in D. destruct D as [a [b [Ea [Eb D]]]]. rewrite Ea in Eb. inversion Eb. subst. destruct D; congruence. }
  assert (NB : forall n m, ~ is_dynamic_bond h n m).
  { intros n m D. apply B in D. destruct D as [D _]. congruence. }
  split; [|split; assumption].
  destruct (center_atoms h) as [|x l] eqn:E; [reflexivity|]. exfalso.
  assert (X : In x (center_atoms h)) by (rewrite E; left; reflexivity).
  apply (compose_center_atoms g g o1 o2 o3 h Hg Hg Ho H) in X. destruct X as [X|[m X]]; [apply (NA x X)|apply (NB x m X)].
Qed.

Corollary compose_identity g : wf_mol g = true -> exists h, compose g g = Ok h /\ center_atoms h = [].
Proof.
  intros Hg. destruct (compose_identity_no_center g _ _ _ Hg (orders_ok_canonical g g)) as [h [H [C _]]].
  exists h. split; assumption.
Qed.

(* ---------- equivariance under a renumbering ---------- *)
Definition mapk {V : Type} (f : Z -> Z) (d : list (Z * V)) : list (Z * V) := map (fun kv => (f (fst kv), snd kv)) d.
Definition mapkk {V : Type} (f : Z -> Z) (hb : list (Z * list (Z * V))) : list (Z * list (Z * V)) :=
  map (fun nl => (f (fst nl), mapk f (snd nl))) hb.
Definition mapb (f : Z -> Z) (bs : blist) : blist := map (fun e => (f (fst (fst e)), f (snd (fst e)), snd e)) bs.

Section Equivariance.
Variable f : Z -> Z.
Hypothesis finj : forall x y, f x = f y -> x = y.

Lemma zmem_map x l : zmem (f x) (map f l) = zmem x l.
Proof.
  induction l as [|y l IH]; cbn [map zmem existsb]; [reflexivity|]. fold (zmem (f x) (map f l)). fold (zmem x l).
  rewrite IH. f_equal. destruct (Z.eqb x y) eqn:E.
  - apply Z.eqb_eq in E. subst. apply Z.eqb_refl.
  - apply Z.eqb_neq. intros H. apply finj in H. apply Z.eqb_neq in E. contradiction.
Qed.

Lemma feqb x y : (f x =? f y) = (x =? y).
Proof.
  destruct (Z.eqb x y) eqn:E.
  - apply Z.eqb_eq in E. subst. apply Z.eqb_refl.
  - apply Z.eqb_neq. intros H. apply finj in H. apply Z.eqb_neq in E. contradiction.
Qed.

Lemma zget_mapk {V} (d : list (Z * V)) k : zget (mapk f d) (f k) = zget d k.
Proof.
  induction d as [|[k0 v0] d IH]; cbn [mapk map zget fst snd]; [reflexivity|].
  rewrite feqb. destruct (k =? k0); [reflexivity|exact IH].
Qed.

Lemma keys_mapk {V} (d : list (Z * V)) : keys (mapk f d) = map f (keys d).
Proof. unfold keys, mapk. rewrite !map_map. reflexivity. Qed.

Lemma zset_mapk {V} (d : list (Z * V)) k v : zset (mapk f d) (f k) v = mapk f (zset d k v).
Proof.
  induction d as [|[k0 v0] d IH]; cbn [mapk map zset fst snd]; [reflexivity|].
  rewrite feqb. destruct (k =? k0); cbn [map fst snd]; [reflexivity|]. f_equal. exact IH.
Qed.

Lemma zget_mapkk {V} (hb : list (Z * list (Z * V))) k : zget (mapkk f hb) (f k) = option_map (mapk f) (zget hb k).
Proof.
  induction hb as [|[k0 v0] hb IH]; cbn [mapkk map zget fst snd option_map]; [reflexivity|].
  rewrite feqb. destruct (k =? k0); [reflexivity|exact IH].
Qed.

Lemma rename_eq g : rename f g = mkMol (mapk f (m_atoms g)) (mapkk f (m_adj g)).
Proof. reflexivity. Qed.

Lemma atom_of_rename g n : atom_of (rename f g) (f n) = atom_of g n.
Proof. unfold atom_of, rename. cbn [m_atoms]. apply (zget_mapk (m_atoms g) n). Qed.

Lemma nbrs_rename g n : nbrs (rename f g) (f n) = mapk f (nbrs g n).
Proof.
  unfold nbrs. rewrite rename_eq. cbn [m_adj].
  rewrite (zget_mapkk (m_adj g) n). destruct (zget (m_adj g) n); reflexivity.
Qed.

Lemma ids_rename g : ids (rename f g) = map f (ids g).
Proof. unfold ids, rename. cbn [m_atoms]. apply (keys_mapk (m_atoms g)). Qed.

Lemma emit_mapk {X} ha n (mk mk' : Z -> X -> dbond) items :
  (forall m x, mk' (f m) x = mk m x) ->
  emit (map f ha) (f n) mk' (mapk f items) = mapb f (emit ha n mk items).
Proof.
  intros Hmk. unfold emit, mapb, mapk. induction items as [|[m x] items IH]; cbn [map filter fst snd]; [reflexivity|].
  rewrite zmem_map. destruct (zmem m ha); cbn [negb map fst snd]; [exact IH|]. rewrite Hmk. f_equal. exact IH.
Qed.

Lemma mapb_app a b : mapb f (a ++ b) = mapb f a ++ mapb f b.
Proof. unfold mapb. apply map_app. Qed.

Lemma loop_side_rename g common broken order : forall ha,
  loop_side (rename f g) (map f common) broken (map f order) (mapk f ha) =
  map_res (fun hb => (mapk f (fst hb), mapb f (snd hb))) (loop_side g common broken order ha).
Proof.
  induction order as [|n rest IH]; intros ha; cbn [map loop_side map_res fst snd]; [reflexivity|].
  rewrite atom_of_rename. destruct (atom_of g n) as [a|]; [|reflexivity].
  rewrite zset_mapk, IH. destruct (loop_side g common broken rest (zset ha n (from_atom a))) as [[haf bs]|e];
    cbn [map_res fst snd]; [|reflexivity].
  f_equal. f_equal. rewrite mapb_app. f_equal.
  rewrite nbrs_rename, keys_mapk. apply emit_mapk. intros m x. rewrite zmem_map. reflexivity.
Qed.

Lemma fold_set0_mapk common (l : list (Z * bond)) : forall an,
  fold_left (fun an mb => if zmem (fst mb) (map f common) then adj_set0 an (fst mb) (b_ord (snd mb)) else an) (mapk f l) (mapk f an) =
  mapk f (fold_left (fun an mb => if zmem (fst mb) common then adj_set0 an (fst mb) (b_ord (snd mb)) else an) l an).
Proof.
  induction l as [|[m b] l IH]; intros an; cbn [mapk map fold_left fst snd]; [reflexivity|].
  rewrite zmem_map. destruct (zmem m common); [|apply IH].
  unfold adj_set0. rewrite zget_mapk, zset_mapk. apply IH.
Qed.

Lemma fold_set1_mapk common (l : list (Z * bond)) : forall an,
  fold_left (fun an mb => if zmem (fst mb) (map f common) then adj_set1 an (fst mb) (b_ord (snd mb)) else an) (mapk f l) (mapk f an) =
  mapk f (fold_left (fun an mb => if zmem (fst mb) common then adj_set1 an (fst mb) (b_ord (snd mb)) else an) l an).
Proof.
  induction l as [|[m b] l IH]; intros an; cbn [mapk map fold_left fst snd]; [reflexivity|].
  rewrite zmem_map. destruct (zmem m common); [|apply IH].
  unfold adj_set1. rewrite zget_mapk, zset_mapk. apply IH.
Qed.

Lemma build_adj_rename r p common n :
  build_adj (rename f r) (rename f p) (map f common) (f n) = mapk f (build_adj r p common n).
Proof.
  unfold build_adj. rewrite !nbrs_rename. change (@nil (Z * adj_entry)) with (mapk f (@nil (Z * adj_entry))) at 1.
  rewrite fold_set0_mapk. apply fold_set1_mapk.
Qed.

Lemma adjd_rename r p common o3 :
  map (fun n => (n, build_adj (rename f r) (rename f p) (map f common) n)) (map f o3) =
  mapkk f (map (fun n => (n, build_adj r p common n)) o3).
Proof.
  unfold mapkk. rewrite !map_map. apply map_ext. intros n. cbn [fst snd]. rewrite build_adj_rename. reflexivity.
Qed.

Lemma adj_lookup_rename (adjd : list (Z * list (Z * adj_entry))) n : adj_lookup (mapkk f adjd) (f n) = mapk f (adj_lookup adjd n).
Proof. unfold adj_lookup. rewrite zget_mapkk. destruct (zget adjd n); reflexivity. Qed.

Lemma loop_common_rename r p adjd order : forall ha,
  loop_common (rename f r) (rename f p) (mapkk f adjd) (map f order) (mapk f ha) =
  map_res (fun hb => (mapk f (fst hb), mapb f (snd hb))) (loop_common r p adjd order ha).
Proof.
  induction order as [|n rest IH]; intros ha; cbn [map loop_common map_res fst snd]; [reflexivity|].
  rewrite !atom_of_rename. destruct (atom_of r n) as [a|]; [|reflexivity]. destruct (atom_of p n) as [b|]; [|reflexivity].
  destruct (from_atoms a b) as [d|e]; [|reflexivity].
  rewrite zset_mapk, IH. destruct (loop_common r p adjd rest (zset ha n d)) as [[haf bs]|e]; cbn [map_res fst snd]; [|reflexivity].
  f_equal. f_equal. rewrite mapb_app. f_equal.
  rewrite adj_lookup_rename, keys_mapk. apply emit_mapk. intros m x. reflexivity.
Qed.

Lemma zset_mapkk {V} (hb : list (Z * list (Z * V))) k l : zset (mapkk f hb) (f k) (mapk f l) = mapkk f (zset hb k l).
Proof.
  induction hb as [|[k0 v0] hb IH]; cbn [mapkk map zset fst snd]; [reflexivity|].
  rewrite feqb. destruct (k =? k0); cbn [map fst snd]; [reflexivity|]. f_equal. exact IH.
Qed.

Lemma set_bond_rename hb n m b : set_bond (mapkk f hb) (f n) (f m) b = mapkk f (set_bond hb n m b).
Proof.
  unfold set_bond. rewrite zget_mapkk. destruct (zget hb n) as [l|]; cbn [option_map]; [|reflexivity].
  rewrite zset_mapk. apply zset_mapkk.
Qed.

Lemma fold_assign_rename bs : forall hb, fold_left assign (mapb f bs) (mapkk f hb) = mapkk f (fold_left assign bs hb).
Proof.
  induction bs as [|[[a b] bd] bs IH]; intros hb; cbn [mapb map fold_left fst snd]; [reflexivity|].
  unfold assign at 2. rewrite !set_bond_rename. apply IH.
Qed.

Lemma init_rename (ha : list (Z * datom)) :
  map (fun na => (fst na, @nil (Z * dbond))) (mapk f ha) = mapkk f (map (fun na => (fst na, @nil (Z * dbond))) ha).
Proof. unfold mapkk, mapk. rewrite !map_map. reflexivity. Qed.

Theorem compose_rename_inj o1 o2 o3 r p :
  compose_ord (map f o1) (map f o2) (map f o3) (rename f r) (rename f p) = map_res (rename_cgr f) (compose_ord o1 o2 o3 r p).
Proof.
  unfold compose_ord.
  change (@nil (Z * datom)) with (mapk f (@nil (Z * datom))) at 1.
  rewrite loop_side_rename.
  destruct (loop_side r o3 (fun o => mkDBond (Some o) None) o1 []) as [[ha1 b1]|e]; cbn [map_res fst snd]; [|reflexivity].
  rewrite loop_side_rename.
  destruct (loop_side p o3 (fun o => mkDBond None (Some o)) o2 ha1) as [[ha2 b2]|e]; cbn [map_res fst snd]; [|reflexivity].
  rewrite adjd_rename, loop_common_rename.
  destruct (loop_common r p (map (fun n => (n, build_adj r p o3 n)) o3) o3 ha2) as [[ha3 b3]|e]; cbn [map_res fst snd]; [|reflexivity].
  f_equal. unfold rename_cgr. cbn [c_atoms c_adj]. f_equal.
  rewrite <- !mapb_app, init_rename, fold_assign_rename. reflexivity.
Qed.
End Equivariance.

(* a map that is injective on a finite set of numbers agrees there with a globally injective one *)
Definition fbound (D : list Z) (f : Z -> Z) : Z := fold_left (fun acc d => Z.max acc (Z.abs (f d))) D 0 + 1.
Definition extend (D : list Z) (f : Z -> Z) (x : Z) : Z :=
  if zmem x D then f x else if x >=? 0 then x + fbound D f else x - fbound D f.

Lemma fold_max_ge (D : list Z) (f : Z -> Z) : forall acc, acc <= fold_left (fun acc d => Z.max acc (Z.abs (f d))) D acc.
Proof. induction D as [|d D IH]; intros acc; cbn [fold_left]; [lia|]. specialize (IH (Z.max acc (Z.abs (f d)))). lia. Qed.

Lemma fold_max_bound (D : list Z) (f : Z -> Z) : forall acc d, In d D -> Z.abs (f d) <= fold_left (fun acc d => Z.max acc (Z.abs (f d))) D acc.
Proof.
  induction D as [|d0 D IH]; intros acc d H; [contradiction|]. cbn [fold_left]. destruct H as [H|H].
  - subst. pose proof (fold_max_ge D f (Z.max acc (Z.abs (f d)))). lia.
  - apply IH. exact H.
Qed.

Lemma fbound_gt D f d : In d D -> Z.abs (f d) < fbound D f.
Proof. intros H. unfold fbound. pose proof (fold_max_bound D f 0 d H). lia. Qed.

Lemma fbound_pos D f : 1 <= fbound D f.
Proof. unfold fbound. pose proof (fold_max_ge D f 0). lia. Qed.

Lemma extend_agree D f x : In x D -> extend D f x = f x.
Proof. intros H. unfold extend. rewrite (proj2 (zmem_In x D) H). reflexivity. Qed.

Lemma extend_inj D f : inj_on D f -> forall x y, extend D f x = extend D f y -> x = y.
Proof.
  intros Hi x y. unfold extend. pose proof (fbound_pos D f) as Bp.
  destruct (zmem x D) eqn:Ex, (zmem y D) eqn:Ey.
  - apply zmem_In in Ex, Ey. apply Hi; assumption.
  - apply zmem_In in Ex. pose proof (fbound_gt D f x Ex). destruct (y >=? 0) eqn:Sy; lia.
  - apply zmem_In in Ey. pose proof (fbound_gt D f y Ey). destruct (x >=? 0) eqn:Sx; lia.
  - destruct (x >=? 0) eqn:Sx, (y >=? 0) eqn:Sy; lia.
Qed.

Lemma mapk_ext_in {V} (f g : Z -> Z) (d : list (Z * V)) : (forall k, In k (keys d) -> f k = g k) -> mapk f d = mapk g d.
Proof.
  intros H. unfold mapk. apply map_ext_in. intros [k v] Hi. cbn [fst snd]. f_equal. apply H.
  unfold keys. apply in_map_iff. exists (k, v). auto.
Qed.

Lemma mapkk_ext_in {V} (f g : Z -> Z) (hb : list (Z * list (Z * V))) :
  (forall k, In k (keys hb) -> f k = g k) -> (forall n l m, In (n, l) hb -> In m (keys l) -> f m = g m) -> mapkk f hb = mapkk g hb.
Proof.
  intros H1 H2. unfold mapkk. apply map_ext_in. intros [n l] Hi. cbn [fst snd]. f_equal.
  - apply H1. unfold keys. apply in_map_iff. exists (n, l). auto.
  - apply mapk_ext_in. intros m Hm. apply (H2 n l m Hi Hm).
Qed.

Lemma rename_ext f g r D : wf_mol r = true -> incl (ids r) D -> (forall x, In x D -> f x = g x) -> rename f r = rename g r.
Proof.
  intros Hr Hd He. rewrite !rename_eq. f_equal.
  - apply mapk_ext_in. intros k Hk. apply He, Hd. exact Hk.
  - apply mapkk_ext_in.
    + intros k Hk. apply He, Hd. destruct (wf_keys r Hr) as [E _]. unfold ids. rewrite E. exact Hk.
    + intros n l m Hi Hm. apply He, Hd. destruct (wf_entry r n l Hr Hi) as [_ W].
      unfold keys in Hm. apply in_map_iff in Hm. destruct Hm as [[m' b] [E Hm]]. cbn in E. subst m'.
      apply (W m b Hm).
Qed.

Lemma wf_cgr_inner h : wf_cgr h = true ->
  keys (c_atoms h) = keys (c_adj h) /\ forall n l m, In (n, l) (c_adj h) -> In m (keys l) -> In m (keys (c_atoms h)).
Proof.
  unfold wf_cgr. intros H. apply andb_prop in H. destruct H as [H W]. apply andb_prop in H. destruct H as [E _].
  apply list_eqb_Z_eq' in E. split; [exact E|]. intros n l m Hi Hm. rewrite forallb_forall in W.
  specialize (W (n, l) Hi). cbn [fst snd] in W. apply andb_prop in W. destruct W as [_ W]. rewrite forallb_forall in W.
  unfold keys in Hm. apply in_map_iff in Hm. destruct Hm as [[m' b] [Em Hm]]. cbn in Em. subst m'.
  specialize (W (m, b) Hm). cbn [fst snd] in W. apply andb_prop in W. destruct W as [W _]. apply andb_prop in W.
  destruct W as [_ W]. apply zmem_In in W. exact W.
Qed.

Lemma rename_cgr_eq f h : rename_cgr f h = mkCgr (mapk f (c_atoms h)) (mapkk f (c_adj h)).
Proof. reflexivity. Qed.

Lemma map_ext_incl (f g : Z -> Z) (l D : list Z) : incl l D -> (forall x, In x D -> f x = g x) -> map f l = map g l.
Proof. intros Hl He. apply map_ext_in. intros x Hx. apply He, Hl, Hx. Qed.

(* renumbering both sides by the same map, injective on the atom numbers in use, renumbers the CGR (with the
   iteration orders renumbered alike, the result is literally the renamed dict of dicts) *)
Theorem compose_equivariant f r p o1 o2 o3 :
  wf_mol r = true -> wf_mol p = true -> orders_ok r p o1 o2 o3 -> inj_on (ids r ++ ids p) f ->
  compose_ord (map f o1) (map f o2) (map f o3) (rename f r) (rename f p) = map_res (rename_cgr f) (compose_ord o1 o2 o3 r p).
Proof.
  intros Hr Hp Ho Hi. set (D := ids r ++ ids p). set (g := extend D f).
  assert (Ag : forall x, In x D -> f x = g x) by (intros x Hx; symmetry; apply extend_agree; exact Hx).
  assert (I1 : incl o1 D). { intros x Hx. apply (o1_In r p o1 o2 o3 Ho) in Hx. apply in_app_iff. tauto. }
  assert (I2 : incl o2 D). { intros x Hx. apply (o2_In r p o1 o2 o3 Ho) in Hx. apply in_app_iff. tauto. }
  assert (I3 : incl o3 D). { intros x Hx. apply (o3_In r p o1 o2 o3 Ho) in Hx. apply in_app_iff. tauto. }
  rewrite (map_ext_incl f g o1 D I1 Ag), (map_ext_incl f g o2 D I2 Ag), (map_ext_incl f g o3 D I3 Ag).
  rewrite (rename_ext f g r D Hr) by (try exact Ag; intros x Hx; apply in_app_iff; tauto).
  rewrite (rename_ext f g p D Hp) by (try exact Ag; intros x Hx; apply in_app_iff; tauto).
  rewrite (compose_rename_inj g (extend_inj D f Hi)).
  destruct (compose_ord o1 o2 o3 r p) as [h|e] eqn:E; cbn [map_res]; [|reflexivity].
  f_equal. destruct (compose_lookup r p o1 o2 o3 h Hr Hp Ho E) as [K [K' _]].
  destruct (compose_symmetric_wf r p o1 o2 o3 h Hr Hp Ho E) as [W _]. destruct (wf_cgr_inner h W) as [_ Win].
  assert (IK : incl (o1 ++ o2 ++ o3) D).
  { intros x Hx. apply (all_In r p o1 o2 o3 Ho) in Hx. apply in_app_iff. exact Hx. }
  rewrite !rename_cgr_eq. f_equal.
  - apply mapk_ext_in. intros k Hk. symmetry. apply Ag, IK. rewrite <- K. exact Hk.
  - apply mapkk_ext_in.
    + intros k Hk. symmetry. apply Ag, IK. rewrite <- K'. exact Hk.
    + intros n l m Hl Hm. symmetry. apply Ag, IK. rewrite <- K. apply (Win n l m Hl Hm).
Qed.

(* the renumbered orders are iteration orders of the renumbered sets *)
Lemma filter_map_comm (g : Z -> Z) (P Q : Z -> bool) l : (forall x, In x l -> P (g x) = Q x) -> filter P (map g l) = map g (filter Q l).
Proof.
  induction l as [|x l IH]; intros H; cbn [map filter]; [reflexivity|].
  rewrite (H x (or_introl eq_refl)). destruct (Q x); cbn [map]; [f_equal|]; apply IH; intros y Hy; apply H; right; exact Hy.
Qed.

Lemma zmem_map_on D f x l : inj_on D f -> In x D -> incl l D -> zmem (f x) (map f l) = zmem x l.
Proof.
  intros Hi Hx Hl. destruct (zmem x l) eqn:E.
  - apply zmem_In. apply in_map. apply zmem_In. exact E.
  - apply zmem_false. apply zmem_false in E. intros H. apply in_map_iff in H. destruct H as [y [Ey Hy]].
    apply Hi in Ey; [subst; contradiction|apply Hl; exact Hy|exact Hx].
Qed.

Theorem orders_ok_rename f r p o1 o2 o3 :
  inj_on (ids r ++ ids p) f -> orders_ok r p o1 o2 o3 ->
  orders_ok (rename f r) (rename f p) (map f o1) (map f o2) (map f o3).
Proof.
  intros Hi [P1 [P2 P3]]. unfold orders_ok, cleavage_ids, coupling_ids, common_ids.
  rewrite !rename_eq. unfold ids. cbn [m_atoms]. rewrite !keys_mapk.
  assert (Ir : incl (keys (m_atoms r)) (ids r ++ ids p)) by (intros x Hx; apply in_app_iff; left; exact Hx).
  assert (Ip : incl (keys (m_atoms p)) (ids r ++ ids p)) by (intros x Hx; apply in_app_iff; right; exact Hx).
  split; [|split].
  - rewrite (filter_map_comm f _ (fun n => negb (zmem n (ids p)))).
    + apply Permutation_map. exact P1.
    + intros x Hx. f_equal. apply (zmem_map_on _ f x _ Hi); [apply Ir; exact Hx|exact Ip].
  - rewrite (filter_map_comm f _ (fun n => negb (zmem n (ids r)))).
    + apply Permutation_map. exact P2.
    + intros x Hx. f_equal. apply (zmem_map_on _ f x _ Hi); [apply Ip; exact Hx|exact Ir].
  - rewrite (filter_map_comm f _ (fun n => zmem n (ids p))).
    + apply Permutation_map. exact P3.
    + intros x Hx. apply (zmem_map_on _ f x _ Hi); [apply Ir; exact Hx|exact Ip].
Qed.

(* compose is its trace followed by loop 5 (the assignment of the collected bonds) *)
Theorem compose_ord_of_trace o1 o2 o3 r p :
  compose_ord o1 o2 o3 r p =
  match compose_trace o1 o2 o3 r p with
  | Ok (ha, bs, _) => Ok (mkCgr ha (fold_left assign bs (map (fun na => (fst na, [])) ha)))
  | Err e => Err e
  end.
Proof.
  unfold compose_ord, compose_trace.
  destruct (loop_side r o3 _ o1 []) as [[ha1 b1]|e]; [|reflexivity].
  destruct (loop_side p o3 _ o2 ha1) as [[ha2 b2]|e]; [|reflexivity].
  destruct (loop_common r p _ o3 ha2) as [[ha3 b3]|e]; reflexivity.
Qed.

(* ---------- non-vacuity ---------- *)
(* C-C-O  ->  C=C  O(-):  bond 1-2 single -> double, bond 2-3 kept, atom 3 charge 0 -> -1 *)
Definition example_r : mol :=
  mkMol [(1, mkAtom 6 None 0 false (Some 3) None); (2, mkAtom 6 None 0 false (Some 2) None); (3, mkAtom 8 None 0 false (Some 1) None)]
        [(1, [(2, mkBond 1 None)]); (2, [(1, mkBond 1 None); (3, mkBond 1 None)]); (3, [(2, mkBond 1 None)])].
Definition example_p : mol :=
  mkMol [(1, mkAtom 6 None 0 false (Some 2) None); (2, mkAtom 6 None 0 false (Some 1) None); (3, mkAtom 8 None (-1) false (Some 0) None)]
        [(1, [(2, mkBond 2 None)]); (2, [(1, mkBond 2 None); (3, mkBond 1 None)]); (3, [(2, mkBond 1 None)])].
Theorem compose_example :
  wf_mol example_r = true /\ wf_mol example_p = true /\
  (exists h, compose example_r example_p = Ok h /\ is_dynamic_bond h 1 2 /\ is_dynamic_atom h 3 /\ ~ is_dynamic_bond h 2 3 /\
             list_eqb Z.eqb (center_atoms h) [3; 1; 2] = true).
Proof.
  split; [reflexivity|]. split; [reflexivity|]. eexists. split; [vm_compute; reflexivity|].
  split; [eexists; split; vm_compute; reflexivity|]. split; [eexists; split; vm_compute; reflexivity|].
  split; [|vm_compute; reflexivity]. intros [b [E D]]. vm_compute in E. inversion E. subst b. vm_compute in D. discriminate.
Qed.

(* ---------- CGR SMILES tokens: the token determines the dynamic bond / charge pair, and shows ">" exactly
   when it is dynamic (finite: complete sweeps) ---------- *)
From Coq Require Import String Ascii.
Definition orders6 : list (option Z) := [None; Some 1; Some 2; Some 3; Some 4; Some 8].
Definition charges9 : list Z := zrange (-4) 5.
Definition opt_str_eqb (a b : option string) : bool := option_eqb String.eqb a b.
Fixpoint has_gt (s : string) : bool :=
  match s with EmptyString => false | String c r => Ascii.eqb c ">"%char || has_gt r end.

Definition dyn_order_sweep : bool :=
  forallb (fun o => forallb (fun p =>
    match dyn_order_str o p with
    | None => option_eqb Z.eqb o None && option_eqb Z.eqb p None
    | Some s =>
        Bool.eqb (has_gt s) (dbond_dynamic (mkDBond o p)) &&
        forallb (fun o' => forallb (fun p' =>
          implb (opt_str_eqb (dyn_order_str o' p') (Some s)) (option_eqb Z.eqb o o' && option_eqb Z.eqb p p')) orders6) orders6
    end) orders6) orders6.
Lemma dyn_order_sweep_ok : dyn_order_sweep = true.
Proof. vm_compute. reflexivity. Qed.

Definition dyn_charge_sweep : bool :=
  forallb (fun i => forallb (fun j =>
    match dyn_charge_str i j with
    | None => false
    | Some s =>
        Bool.eqb (has_gt s) (negb (i =? j)) &&
        forallb (fun i' => forallb (fun j' =>
          implb (opt_str_eqb (dyn_charge_str i' j') (Some s)) ((i =? i') && (j =? j'))) charges9) charges9
    end) charges9) charges9.
Lemma dyn_charge_sweep_ok : dyn_charge_sweep = true.
Proof. vm_compute. reflexivity. Qed.

Lemma In_orders6 o : In o orders6 <-> o = None \/ o = Some 1 \/ o = Some 2 \/ o = Some 3 \/ o = Some 4 \/ o = Some 8.
Proof. unfold orders6. cbn [In]. intuition. Qed.

Lemma opt_str_eqb_eq a b : opt_str_eqb a b = true <-> a = b.
Proof.
  destruct a, b; cbn; split; intros H; try discriminate; try reflexivity.
  - apply String.eqb_eq in H. congruence.
  - inversion H. apply String.eqb_refl.
Qed.

Theorem dyn_order_str_faithful o p o' p' s : In o orders6 -> In p orders6 -> In o' orders6 -> In p' orders6 ->
  dyn_order_str o p = Some s ->
  (has_gt s = dbond_dynamic (mkDBond o p)) /\ (dyn_order_str o' p' = Some s -> o = o' /\ p = p').
Proof.
  intros Ho Hp Ho' Hp' E. pose proof dyn_order_sweep_ok as S. unfold dyn_order_sweep in S.
  rewrite forallb_forall in S. specialize (S o Ho). rewrite forallb_forall in S. specialize (S p Hp). rewrite E in S.
  apply andb_prop in S. destruct S as [S1 S2]. split; [apply Bool.eqb_prop; exact S1|].
  intros E'. rewrite forallb_forall in S2. specialize (S2 o' Ho'). rewrite forallb_forall in S2. specialize (S2 p' Hp').
  rewrite (proj2 (opt_str_eqb_eq _ _) E') in S2. cbn [implb] in S2. apply andb_prop in S2. destruct S2 as [A B].
  apply option_eqb_Z_eq in A, B. auto.
Qed.

Theorem dyn_order_str_total o p : In o orders6 -> In p orders6 -> (o <> None \/ p <> None) -> exists s, dyn_order_str o p = Some s.
Proof.
  intros Ho Hp Hn. pose proof dyn_order_sweep_ok as S. unfold dyn_order_sweep in S.
  rewrite forallb_forall in S. specialize (S o Ho). rewrite forallb_forall in S. specialize (S p Hp).
  destruct (dyn_order_str o p) as [s|]; [exists s; reflexivity|]. apply andb_prop in S. destruct S as [A B].
  apply option_eqb_Z_eq in A, B. destruct Hn; congruence.
Qed.

Theorem dyn_charge_str_faithful i j i' j' : -4 <= i <= 4 -> -4 <= j <= 4 -> -4 <= i' <= 4 -> -4 <= j' <= 4 ->
  exists s, dyn_charge_str i j = Some s /\ (has_gt s = negb (i =? j)) /\ (dyn_charge_str i' j' = Some s -> i = i' /\ j = j').
Proof.
  intros Hi Hj Hi' Hj'. pose proof dyn_charge_sweep_ok as S. unfold dyn_charge_sweep in S.
  assert (R : forall x, -4 <= x <= 4 -> In x charges9) by (intros x Hx; apply zrange_In; lia).
  rewrite forallb_forall in S. specialize (S i (R i Hi)). rewrite forallb_forall in S. specialize (S j (R j Hj)).
  destruct (dyn_charge_str i j) as [s|]; [|discriminate]. exists s. split; [reflexivity|].
  apply andb_prop in S. destruct S as [S1 S2]. split; [apply Bool.eqb_prop; exact S1|].
  intros E'. rewrite forallb_forall in S2. specialize (S2 i' (R i' Hi')). rewrite forallb_forall in S2. specialize (S2 j' (R j' Hj')).
  rewrite (proj2 (opt_str_eqb_eq _ _) E') in S2. cbn [implb] in S2. apply andb_prop in S2. destruct S2 as [A B].
  apply Z.eqb_eq in A, B. auto.
Qed.
