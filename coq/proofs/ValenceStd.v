(* C04 round 4 -- the rule engine of standardize() (Standardize.__standardize) edits charges, radical flags and bond orders of
   the matched atoms, collects the atoms it edited in `hs` and ends with `for n in hs: self.calc_implicit(n)`.  SELECTIVE
   recalculation is enough exactly when `hs` covers every atom whose valence state changed:
     selective_recalc_fresh    a molecule whose counts were all fresh, edited anywhere, recalculated on hs: if every atom
                               OUTSIDE hs kept its stored count and its calc_implicit value, every atom of the result is fresh
     calc_implicit_view        what `kept its calc_implicit value` needs: element, charge, radical flag of the atom and the
                               (order, neighbour element) view of its bonds unchanged
     selective_recalc_needs_all  the hypothesis is necessary: methyl-nickel whose Ni-C bond became a coordinate bond (order 8),
                               recalculated on the carbon only (the metal left out of hs) keeps the stale `no valence state`
                               mark on a nickel atom that has one *)
From Coq Require Import ZArith List String Bool Lia.
From Model Require Import PyBase Graph PeriodicTable Valence ValenceArom.
From Gen Require Import Elements.
From Proofs Require Import ValenceProofs ValenceExt ValenceImpl.
Import ListNotations.
Open Scope Z_scope.

Definition fresh_at (g : mol) (k : Z) : Prop := exists a, atom_of g k = Some a /\ calc_implicit g k = Ok (a_h a).

Lemma in_ids_atom g k : In k (ids g) -> exists a, atom_of g k = Some a.
Proof.
  unfold ids, keys, atom_of. induction (m_atoms g) as [|[k1 a1] r IH]; cbn [map In zget fst]; [intros []|].
  intros [E | H]; [subst k1; rewrite Z.eqb_refl; eexists; reflexivity|].
  destruct (k =? k1); [eexists; reflexivity | exact (IH H)].
Qed.

Lemma calc_implicit_view g g' k :
  option_map (fun a => (a_num a, a_chg a, a_rad a)) (atom_of g k) = option_map (fun a => (a_num a, a_chg a, a_rad a)) (atom_of g' k) ->
  option_map (nview_of g) (zget (m_adj g) k) = option_map (nview_of g') (zget (m_adj g') k) ->
  calc_implicit g k = calc_implicit g' k.
Proof.
  intros Ha Hv. unfold calc_implicit.
  destruct (atom_of g k) as [a|], (atom_of g' k) as [a'|]; cbn [option_map] in Ha; try discriminate; [|reflexivity].
  inversion Ha as [[Hn Hc Hr]]. unfold rules_of_atom. rewrite Hn, Hc, Hr.
  destruct (a_num a' =? 1); [reflexivity|].
  destruct (zget (m_adj g) k) as [nb|], (zget (m_adj g') k) as [nb'|]; cbn [option_map] in Hv; try discriminate; [|reflexivity].
  inversion Hv as [Hv']. reflexivity.
Qed.

Theorem selective_recalc_fresh g0 g1 hs g2 :
  (forall k, In k (ids g0) -> fresh_at g0 k) ->
  ids g1 = ids g0 ->
  (forall k, In k (ids g1) -> ~ In k hs ->
     option_map a_h (atom_of g1 k) = option_map a_h (atom_of g0 k) /\ calc_implicit g1 k = calc_implicit g0 k) ->
  recalc_loop g1 hs = Ok g2 ->
  ids g2 = ids g1 /\ forall k, In k (ids g2) -> fresh_at g2 k.
Proof.
  intros F0 I01 Keep H. destruct (recalc_loop_spec _ _ _ H) as [S [I [Hok Hat]]]. split; [exact I|].
  intros k Hk. rewrite I in Hk. destruct (in_ids_atom _ _ Hk) as [a Ea]. unfold fresh_at.
  rewrite Hat, Ea, <- (proj1 (same_skel_calc _ _ k S)).
  destruct (zmem k hs) eqn:Z.
  - apply zmem_In in Z. destruct (Hok k Z) as [v Hv]. eexists. split; [reflexivity|]. rewrite Hv. reflexivity.
  - assert (N : ~ In k hs) by (intros C; apply zmem_In in C; rewrite C in Z; discriminate).
    destruct (Keep k Hk N) as [Kh Kc]. eexists. split; [reflexivity|].
    rewrite I01 in Hk. destruct (F0 k Hk) as [a0 [Ea0 C0]]. rewrite Kc, C0. rewrite Ea, Ea0 in Kh. cbn [option_map] in Kh.
    inversion Kh. reflexivity.
Qed.

(* [Ni]-CH3 (fresh: carbon 3 H, nickel without a valence state) -> the Ni-C bond becomes a coordinate bond *)
Definition methylnickel : mol :=
  mkMol [(1, mkAtom 6 None 0 false (Some 3) None); (2, mkAtom 28 None 0 false None None)]
        [(1, [(2, mkBond 1 None)]); (2, [(1, mkBond 1 None)])].
Definition methylnickel_coordinate : mol :=
  mkMol [(1, mkAtom 6 None 0 false (Some 3) None); (2, mkAtom 28 None 0 false None None)]
        [(1, [(2, mkBond 8 None)]); (2, [(1, mkBond 8 None)])].
Example selective_recalc_needs_all :
  fresh_on methylnickel [1; 2] = true /\
  (exists g, recalc_loop methylnickel_coordinate [1; 2] = Ok g /\ fresh_on g [1; 2] = true /\ stored_ok g = true /\ check_valence g = [] /\
             map (fun na => a_h (snd na)) (m_atoms g) = [Some 4; Some 0]) /\
  (exists g, recalc_loop methylnickel_coordinate [1] = Ok g /\ fresh_on g [1] = true /\ fresh_on g [1; 2] = false /\ stored_ok g = false /\
             check_valence g = [2] /\ calc_implicit g 2 = Ok (Some 0)).
Proof. split; [vm_compute; reflexivity|]. split; eexists; vm_compute; repeat split; reflexivity. Qed.
