(* C11: whole RD files with V3000 REACTION records: ERDFWrite then RDFRead. *)
From Coq Require Import ZArith List String Ascii Bool Lia.
From Model Require Import PyBase Mdl.
From Gen Require Import MdlTables.
From Proofs Require Import MdlProofs MdlV2000 MdlV3000 MdlTail MdlFraming MdlFramingExt MdlMeta MdlFile MdlFileMol MdlFileMol3 MdlRxn MdlFileRxn.
Import ListNotations.
Open Scope Z_scope.
Local Notation length := List.length.
Local Notation concat := List.concat.

Definition wmol_ok3 (g : wmol) (fs : list (fval * fval * fval)) : Prop := wf_wmol3 g fs /\ Forall fields_nonl (wm_atoms g).

Lemma starts_v30_line_ok l : starts_v30 l -> nonl l = true -> line_ok l.
Proof. intros H Hn. destruct (starts_v30_heads l H) as [_ [_ [H3 [H4 _]]]]. repeat split; assumption. Qed.

Lemma ctab_lines_line_ok mapping g fs lines : wmol_ok3 g fs -> write_ctab_v3000 mapping g = Ok lines -> Forall line_ok lines.
Proof.
  intros [_ Hf] Hw. pose proof (write_ctab_v3000_all_v30 mapping g lines Hw) as Hv.
  pose proof (write_ctab_v3000_nonl mapping g lines Hf Hw) as Hn.
  rewrite Forall_forall in *. intros l Hl. apply starts_v30_line_ok; auto.
Qed.

Lemma ctabs_line_ok mapping mols : forall fs cs, Forall2 wmol_ok3 mols fs -> mapM (write_ctab_v3000 mapping) mols = Ok cs ->
  Forall line_ok (concat cs).
Proof.
  intros fs cs Hall Hm. apply mapM_Forall2 in Hm. revert fs Hall. induction Hm as [|g ls mols cs Hw _ IH]; intros fs Hall; [constructor|].
  inversion Hall as [|? f ? fs' Hg Hall']; subst. cbn [concat]. apply Forall_app. split; [|apply (IH fs' Hall')].
  eapply ctab_lines_line_ok; eassumption.
Qed.

Local Opaque zstr.
Lemma rxn_counts_v3000_line_ok r : line_ok (rxn_counts_v3000 r).
Proof.
  apply starts_v30_line_ok.
  - unfold rxn_counts_v3000, starts_v30. change (L "M  V30 COUNTS ") with (L "M  V30 " ++ L "COUNTS "). rewrite <- !app_assoc. eexists. reflexivity.
  - unfold rxn_counts_v3000. rewrite !nonl_app, !nonl_zstr. destruct (wr_reagents r); [reflexivity|]. rewrite !nonl_app, nonl_zstr. reflexivity.
Qed.
Local Transparent zstr.

Lemma lit_line_ok (s : string) : nonl (L s) = true -> is_fmt (L s) = false -> is_dtype (L s) = false -> line_ok (L s).
Proof. intros. repeat split; assumption. Qed.

Lemma rxn3_lines_line_ok mapping r fr fp fg lines :
  Forall2 wmol_ok3 (wr_reactants r) fr -> Forall2 wmol_ok3 (wr_products r) fp -> Forall2 wmol_ok3 (wr_reagents r) fg ->
  rxn_name_ok (wr_name r) -> rxn_lines_v3000 mapping r = Ok lines ->
  Forall line_ok lines /\ nth_error lines 0 = Some (L "$RXN V3000") /\ nth_error lines 4 = Some (rxn_counts_v3000 r).
Proof.
  intros Hr Hp Hg [N1 [N2 N3]]. unfold rxn_lines_v3000.
  destruct (mapM (write_ctab_v3000 mapping) (wr_reactants r)) as [rs|e] eqn:Hrs; cbn [bind]; [|discriminate].
  destruct (mapM (write_ctab_v3000 mapping) (wr_products r)) as [ps|e] eqn:Hps; cbn [bind]; [|discriminate].
  destruct (mapM (write_ctab_v3000 mapping) (wr_reagents r)) as [gs|e] eqn:Hgs; cbn [bind]; [|discriminate].
  intros H. apply MdlFileMol.Ok_inj in H. subst lines. split; [|split; reflexivity].
  repeat (apply Forall_app; split).
  - constructor; [apply lit_line_ok; reflexivity|]. constructor; [repeat split; assumption|].
    constructor; [repeat split; reflexivity|]. constructor; [repeat split; reflexivity|].
    constructor; [apply rxn_counts_v3000_line_ok|]. constructor; [apply lit_line_ok; reflexivity | constructor].
  - apply (ctabs_line_ok mapping (wr_reactants r) fr rs Hr Hrs).
  - constructor; [apply lit_line_ok; reflexivity|]. constructor; [apply lit_line_ok; reflexivity | constructor].
  - apply (ctabs_line_ok mapping (wr_products r) fp ps Hp Hps).
  - constructor; [apply lit_line_ok; reflexivity | constructor].
  - destruct (wr_reagents r) eqn:Eg; [constructor|].
    repeat (apply Forall_app; split).
    + constructor; [apply lit_line_ok; reflexivity | constructor].
    + rewrite <- Eg in *. apply (ctabs_line_ok mapping (wr_reagents r) fg gs Hg Hgs).
    + constructor; [apply lit_line_ok; reflexivity | constructor].
  - constructor; [apply lit_line_ok; reflexivity | constructor].
Qed.

Definition rxn_expected3 (mapping : bool) (x : rxn_in) : rparsed :=
  mk_rparsed (map2 (expected_ctab3 mapping) (wr_reactants (ri_rxn x)) (ri_fr x))
             (map2 (expected_ctab3 mapping) (wr_products (ri_rxn x)) (ri_fp x))
             (map2 (expected_ctab3 mapping) (wr_reagents (ri_rxn x)) (ri_fg x))
             (title_of (wr_name (ri_rxn x))) 0.

Definition erdf_rxn_wf (buffer_size hlen : nat) (mapping : bool) (x : rxn_in) : Prop :=
  let r := ri_rxn x in
  Forall2 wmol_ok3 (wr_reactants r) (ri_fr x) /\ Forall2 wmol_ok3 (wr_products r) (ri_fp x) /\ Forall2 wmol_ok3 (wr_reagents r) (ri_fg x) /\
  rxn_mols r <> [] /\ rxn_name_ok (wr_name r) /\
  Forall rdf_entry_ok (ri_entries x) /\ Forall (fun e => Forall (fun l => is_fmt l = false) (tl (snd e))) (ri_entries x) /\
  (forall lines, rxn_lines_v3000 mapping r = Ok lines ->
     (S hlen + (length lines + length (concat (map rdf_entry_lines (ri_entries x)))) < buffer_size)%nat).

Lemma erdf_rxn_rrec buffer_size hlen mapping x : erdf_rxn_wf buffer_size hlen mapping x ->
  exists rr, rrec_ok buffer_size hlen rr /\
    erdf_rxn_text mapping (ri_rxn x) (meta_of (ri_entries x)) = Ok (rrec_text rr) /\
    forall A (build : parsed3 -> pyres A) (build_rxn : rparsed -> pyres A),
      rrec_result A build build_rxn rr =
      match build_rxn (rxn_expected3 mapping x) with Ok o => inl (o, meta_spec (ri_entries x)) | Err e => inr (Py e) end.
Proof.
  intros [Hr [Hp [Hg [Hne [Hname [Hent [Hval Hsize]]]]]]].
  assert (W : forall ms fs, Forall2 wmol_ok3 ms fs -> Forall2 wf_wmol3 ms fs) by (intros ms fs; apply Forall2_weaken; intros g f [H _]; exact H).
  destruct (rxn_v3000_fields_roundtrip mapping (ri_rxn x) (ri_fr x) (ri_fp x) (ri_fg x) (W _ _ Hr) (W _ _ Hp) (W _ _ Hg) Hne) as [lines [Hw Hparse]].
  destruct (rxn3_lines_line_ok mapping _ _ _ _ lines Hr Hp Hg Hname Hw) as [Hok [H0 H4]].
  exists (mk_rrec (L "$RFMT") lines (ri_entries x)). split; [|split].
  - constructor; cbn [rr_fmt rr_struct rr_entries].
    + reflexivity.
    + apply nl_not_in_lit. reflexivity.
    + eapply Forall_impl; [|exact Hok]. intros l [_ [H _]]. exact H.
    + eapply Forall_impl; [|exact Hok]. intros l [_ [_ H]]. exact H.
    + destruct lines; [discriminate H0 | discriminate].
    + eapply Forall_impl; [|exact Hok]. intros l [H _]. apply nonl_iff. exact H.
    + exact Hent.
    + exact Hval.
    + unfold rrec_lines. cbn [rr_struct rr_entries]. rewrite app_length. apply Hsize. exact Hw.
  - rewrite (erdf_rxn_text_lines mapping _ _ lines Hw). unfold rrec_text. cbn [rr_fmt rr_struct rr_entries]. reflexivity.
  - intros A build build_rxn. unfold rrec_result, rrec_lines. cbn [rr_struct rr_entries]. rewrite map_app.
    assert (N : forall k l, nth_error lines k = Some l ->
                nth_error (map add_nl lines ++ map add_nl (concat (map rdf_entry_lines (ri_entries x)))) k = Some (add_nl l)).
    { intros k l Hk. rewrite nth_error_app1 by (rewrite map_length; apply nth_error_Some; rewrite Hk; discriminate). rewrite nth_error_map, Hk. reflexivity. }
    unfold rdf_dispatch. rewrite (N _ _ H0). cbn [of_opt bind].
    change (startswith (L "$RXN") (add_nl (L "$RXN V3000"))) with true. cbv iota.
    rewrite (N _ _ H4). cbn [of_opt bind]. rewrite startswith_add_nl by reflexivity.
    assert (E : startswith (L "M  V30 COUNTS") (rxn_counts_v3000 (ri_rxn x)) = true) by (unfold rxn_counts_v3000; reflexivity).
    rewrite E. rewrite Hparse. cbn [bind]. reflexivity.
Qed.

(* erdf_file_roundtrip, reaction records: the header, then what ERDFWrite wrote for each reaction *)
Theorem erdf_v3000_rxn_file_roundtrip A (build : parsed3 -> pyres A) (build_rxn : rparsed -> pyres A) buffer_size mapping header (recs : list rxn_in) :
  Forall (fun l => ~ In nl l /\ is_fmt l = false /\ startswith (L "$RXN") l = false) header ->
  Forall (erdf_rxn_wf buffer_size (length header) mapping) recs ->
  exists texts, mapM (fun x => erdf_rxn_text mapping (ri_rxn x) (meta_of (ri_entries x))) recs = Ok texts /\
    rdf_read A build build_rxn buffer_size (readlines (text_of_lines header ++ concat texts)) =
    collect A (map (fun x => match build_rxn (rxn_expected3 mapping x) with Ok o => inl (o, meta_spec (ri_entries x)) | Err e => inr (Py e) end) recs).
Proof.
  intros Hh H.
  assert (G : exists rrs, Forall (rrec_ok buffer_size (length header)) rrs /\
              mapM (fun x => erdf_rxn_text mapping (ri_rxn x) (meta_of (ri_entries x))) recs = Ok (map rrec_text rrs) /\
              map (rrec_result A build build_rxn) rrs =
              map (fun x => match build_rxn (rxn_expected3 mapping x) with Ok o => inl (o, meta_spec (ri_entries x)) | Err e => inr (Py e) end) recs).
  { induction H as [|r recs Hr _ [rrs [F1 [F2 F3]]]].
    - exists []. repeat split; constructor.
    - destruct (erdf_rxn_rrec _ _ _ _ Hr) as [rr [Ha [Hb Hc]]]. exists (rr :: rrs). split; [constructor; assumption|]. split.
      + cbn [mapM map]. rewrite Hb. cbn [bind]. rewrite F2. cbn [bind]. reflexivity.
      + cbn [map]. rewrite Hc, F3. reflexivity. }
  destruct G as [rrs [F1 [F2 F3]]]. exists (map rrec_text rrs). split; [exact F2|].
  change (text_of_lines header ++ concat (map rrec_text rrs)) with (rdfile_text header rrs).
  rewrite rdf_file_roundtrip_generic by assumption. rewrite F3. reflexivity.
Qed.

(* ------------------------------------------------------------------------------------------------ *)
(** * non-vacuity: a one-reaction RD file (2 reactants, 1 product, 1 reagent NAMED "$MOL" resp. "M  V30 BEGIN CTAB"), both versions *)
Definition ex_rxn_header : list str := [L "$RDFILE 1"; L "$DATM    01/01/01 00:00"].
Definition ex_rxn_in2 : rxn_in := (ex_rxn2, ([ex_fs; ex_fs], [ex_fs], [ex_fs]), [(L "k", [L "v"; L " w "])]).
Definition ex_rxn_in3 : rxn_in := (ex_rxn3, ([ex3_fs; ex3_fs], [ex3_fs], [ex3_fs]), [(L "k", [L "v"; L " w "])]).

Lemma ex_wmol_ok2 name : name_ok name -> wmol_ok2 (ex_mol_named name ex_mol) ex_fs.
Proof. intros Hn. split; [apply ex_wf2|]. split; [exact Hn | repeat constructor]. Qed.
Lemma ex_wmol_ok3 name : wmol_ok3 (ex_mol_named name ex3_mol) ex3_fs.
Proof. split; [apply ex_wf3 | repeat constructor]. Qed.

Lemma ex_rxn_files_wf : rdf_rxn_wf 200 2 true ex_rxn_in2 /\ erdf_rxn_wf 200 2 true ex_rxn_in3.
Proof.
  split.
  - unfold rdf_rxn_wf. cbn [ri_rxn ri_fr ri_fp ri_fg ri_entries ex_rxn_in2 fst snd].
    split; [repeat (apply Forall2_cons; [apply ex_wmol_ok2; repeat split; reflexivity|]); apply Forall2_nil|].
    split; [repeat (apply Forall2_cons; [apply ex_wmol_ok2; repeat split; reflexivity|]); apply Forall2_nil|].
    split; [repeat (apply Forall2_cons; [apply ex_wmol_ok2; repeat split; reflexivity|]); apply Forall2_nil|].
    split; [cbn; lia|]. split; [cbn; lia|]. split; [cbn; lia|]. split; [discriminate|]. split; [repeat split; reflexivity|].
    split; [|split].
    + repeat constructor; cbn; try discriminate; intros X; repeat (destruct X as [X|X]; [discriminate|]); exact X.
    + repeat constructor.
    + intros lines Hw. assert (E : exists l0, rxn_lines_v2000 true ex_rxn2 = Ok l0 /\ length l0 = 61%nat) by (eexists; split; [vm_compute; reflexivity | reflexivity]).
      destruct E as [l0 [E0 El]]. rewrite E0 in Hw. apply MdlFileMol.Ok_inj in Hw. subst l0. rewrite El. cbn. lia.
  - unfold erdf_rxn_wf. cbn [ri_rxn ri_fr ri_fp ri_fg ri_entries ex_rxn_in3 fst snd].
    split; [repeat (apply Forall2_cons; [apply ex_wmol_ok3|]); apply Forall2_nil|].
    split; [repeat (apply Forall2_cons; [apply ex_wmol_ok3|]); apply Forall2_nil|].
    split; [repeat (apply Forall2_cons; [apply ex_wmol_ok3|]); apply Forall2_nil|].
    split; [discriminate|]. split; [repeat split; reflexivity|].
    split; [|split].
    + repeat constructor; cbn; try discriminate; intros X; repeat (destruct X as [X|X]; [discriminate|]); exact X.
    + repeat constructor.
    + intros lines Hw. assert (E : exists l0, rxn_lines_v3000 true ex_rxn3 = Ok l0 /\ (length l0 < 150)%nat) by (eexists; split; [vm_compute; reflexivity | cbn; lia]).
      destruct E as [l0 [E0 El]]. rewrite E0 in Hw. apply MdlFileMol.Ok_inj in Hw. subst l0. cbn. lia.
Qed.

Example rxn_file_examples :
  (exists texts, mapM (fun x => rdf_rxn_text true (ri_rxn x) (meta_of (ri_entries x))) [ex_rxn_in2] = Ok texts /\
     rdf_read (option str) ex_build ex_build_rxn 200 (readlines (text_of_lines ex_rxn_header ++ concat texts)) =
     ([(Some (L "test rxn"), [(L "k", L "v" ++ [nl] ++ L "w")])], Exhausted)) /\
  (exists texts, mapM (fun x => erdf_rxn_text true (ri_rxn x) (meta_of (ri_entries x))) [ex_rxn_in3] = Ok texts /\
     rdf_read (option str) ex_build ex_build_rxn 200 (readlines (text_of_lines ex_rxn_header ++ concat texts)) =
     ([(Some (L "test rxn"), [(L "k", L "v" ++ [nl] ++ L "w")])], Exhausted)).
Proof.
  assert (Hh : Forall (fun l => ~ In nl l /\ is_fmt l = false /\ startswith (L "$RXN") l = false) ex_rxn_header).
  { repeat constructor; try reflexivity; apply nl_not_in_lit; reflexivity. }
  destruct ex_rxn_files_wf as [W2 W3]. split.
  - destruct (rdf_v2000_rxn_file_roundtrip (option str) ex_build ex_build_rxn 200 true ex_rxn_header [ex_rxn_in2] Hh (Forall_cons _ W2 (Forall_nil _))) as [texts [H1 H2]].
    exists texts. split; [exact H1|]. rewrite H2. vm_compute. reflexivity.
  - destruct (erdf_v3000_rxn_file_roundtrip (option str) ex_build ex_build_rxn 200 true ex_rxn_header [ex_rxn_in3] Hh (Forall_cons _ W3 (Forall_nil _))) as [texts [H1 H2]].
    exists texts. split; [exact H1|]. rewrite H2. vm_compute. reflexivity.
Qed.
