(* C11: tie of the hand-written model coq/model/Mdl.v to the SOURCE TEXT of the writers and readers.
   Gen.MdlSource is regenerated on every run from the f-strings, slices, string and integer constants, exception lists and the
   key-line regular expression of the files mdl/write.py, mol.py, emol.py, rxn.py, erxn.py, read.py, SDFrw.py, RDFrw.py.
   Part 1 records what the model was written from (hand_X) and checks generated = recorded, definition by definition, so that a
   source edit in one of these functions breaks the NAMED obligation of that function.  Part 2 proves that the line writers of the
   model ARE the renderings of the generated templates: literal pieces, field order and format specifications come from the source;
   only the meaning of the specifications 3d, 3s, empty, and of the float fields is the model's. *)
From Coq Require Import ZArith List String Ascii Bool Lia.
From Model Require Import PyBase Mdl.
From Gen Require Import MdlTables MdlSource.
Import ListNotations.
Open Scope Z_scope.
Local Notation length := List.length.
Local Notation concat := List.concat.

(* ------------------------------------------------------------------------------------------------ *)
(** * Part 1: what the model was written from *)

Definition hand_molwrite_templates : list (list (string * string)) :=
  [[("g.name"%string, ""%string); (""%string, "\n\n\n"%string); ("g.atoms_count"%string, "3d"%string); ("g.bonds_count"%string, "3d"%string); (""%string, "  0  0  0  0            999 V2000\n"%string)];
   [("x"%string, "10.4f"%string); ("y"%string, "10.4f"%string); ("z"%string, "10.4f"%string); (""%string, " "%string); ("a.atomic_symbol"%string, "3s"%string); (""%string, " 0"%string); ("c"%string, ""%string); (""%string, "  0  0  0  0  0  0  0"%string); ("m"%string, "3d"%string); (""%string, "  0  0\n"%string)];
   [("atoms[n]"%string, "3d"%string); ("atoms[m]"%string, "3d"%string); (""%string, "  "%string); ("bonds[n][m].order"%string, ""%string); (""%string, "  "%string); ("s == 1 and '1' or '6'"%string, ""%string); (""%string, "  0  0  0\n"%string)];
   [("atoms[n]"%string, "3d"%string); ("atoms[m]"%string, "3d"%string); (""%string, "  "%string); ("b.order"%string, ""%string); (""%string, "  0  0  0  0\n"%string)];
   [(""%string, "M  ISO  1 "%string); ("n"%string, "3d"%string); (""%string, " "%string); ("a.isotope"%string, "3d"%string); (""%string, "\n"%string)];
   [(""%string, "M  RAD  1 "%string); ("n"%string, "3d"%string); (""%string, "   2\n"%string)];
   [(""%string, "M  CHG  1 "%string); ("n"%string, "3d"%string); (""%string, " "%string); ("a.charge"%string, "3d"%string); (""%string, "\n"%string)]].
Definition hand_molwrite_strings : list string :=
  ["MoleculeContainer expected"%string; "MOL file support only small molecules"%string; "M  END\n"%string].
Definition hand_molwrite_ints : list Z :=
  [999; 1; 0; 1; 1; 4; 4].
Definition hand_emolwrite_templates : list (list (string * string)) :=
  [[(""%string, "M  V30 BEGIN CTAB\nM  V30 COUNTS "%string); ("g.atoms_count"%string, ""%string); (""%string, " "%string); ("g.bonds_count"%string, ""%string); (""%string, " 0 0 0\nM  V30 BEGIN ATOM\n"%string)];
   [("z"%string, ".4f"%string)];
   [(""%string, " CHG="%string); ("a.charge"%string, ""%string)];
   [(""%string, " MASS="%string); ("a.isotope"%string, ""%string)];
   [(""%string, "M  V30 "%string); ("n"%string, ""%string); (""%string, " "%string); ("a.atomic_symbol"%string, ""%string); (""%string, " "%string); ("x"%string, ".4f"%string); (""%string, " "%string); ("y"%string, ".4f"%string); (""%string, " "%string); ("z"%string, ""%string); (""%string, " "%string); ("m"%string, ""%string); ("c"%string, ""%string); ("r"%string, ""%string); ("i"%string, ""%string); (""%string, "\n"%string)];
   [(""%string, "M  V30 "%string); ("i"%string, ""%string); (""%string, " "%string); ("bonds[n][m].order"%string, ""%string); (""%string, " "%string); ("mapping[n]"%string, ""%string); (""%string, " "%string); ("mapping[m]"%string, ""%string); (""%string, " CFG="%string); ("s == 1 and '1' or '3'"%string, ""%string); (""%string, "\n"%string)];
   [(""%string, "M  V30 "%string); ("i"%string, ""%string); (""%string, " "%string); ("b.order"%string, ""%string); (""%string, " "%string); ("mapping[n]"%string, ""%string); (""%string, " "%string); ("mapping[m]"%string, ""%string); (""%string, "\n"%string)]].
Definition hand_emolwrite_strings : list string :=
  ["MoleculeContainer expected"%string; ""%string; " RAD=2"%string; ""%string; ""%string; "M  V30 END ATOM\nM  V30 BEGIN BOND\n"%string; "M  V30 END BOND\nM  V30 END CTAB\n"%string].
Definition hand_io_init_strings : list string :=
  ["a"%string; "w"%string; "a"%string; "w"%string; "invalid file. TextIOWrapper, StringIO subclasses or path to file expected"%string].
Definition hand_sdfwrite_templates : list (list (string * string)) :=
  [[(""%string, ">  <"%string); ("k"%string, ""%string); (""%string, ">\n"%string); ("v"%string, ""%string); (""%string, "\n\n"%string)]].
Definition hand_sdfwrite_strings : list string :=
  ["$$$$\n"%string].
Definition hand_esdfwrite_templates : list (list (string * string)) :=
  [[("data.name"%string, ""%string); (""%string, "\n\n\n  0  0  0     0  0            999 V3000\n"%string)];
   [(""%string, ">  <"%string); ("k"%string, ""%string); (""%string, ">\n"%string); ("v"%string, ""%string); (""%string, "\n\n"%string)]].
Definition hand_esdfwrite_strings : list string :=
  ["M  END\n"%string; "$$$$\n"%string].
Definition hand_rdfwrite_templates : list (list (string * string)) :=
  [[(""%string, "$RFMT\n$RXN\n"%string); ("data.name"%string, ""%string); (""%string, "\n\n\n"%string); ("len(data.reactants)"%string, "3d"%string); ("len(data.products)"%string, "3d"%string)];
   [("len(data.reagents)"%string, "3d"%string); (""%string, "\n"%string)];
   [(""%string, "$DTYPE "%string); ("k"%string, ""%string); (""%string, "\n$DATUM "%string); ("v"%string, ""%string); (""%string, "\n"%string)]].
Definition hand_rdfwrite_strings : list string :=
  ["\n"%string; "$MOL\n"%string; "$MFMT\n"%string].
Definition hand_erdfwrite_templates : list (list (string * string)) :=
  [[(""%string, "$RFMT\n$RXN V3000\n"%string); ("data.name"%string, ""%string); (""%string, "\n\n\nM  V30 COUNTS "%string); ("len(data.reactants)"%string, ""%string); (""%string, " "%string); ("len(data.products)"%string, ""%string)];
   [(""%string, " "%string); ("len(data.reagents)"%string, ""%string); (""%string, "\nM  V30 BEGIN REACTANT\n"%string)];
   [(""%string, "$MFMT\n"%string); ("data.name"%string, ""%string); (""%string, "\n\n\n  0  0  0     0  0            999 V3000\n"%string)];
   [(""%string, "$DTYPE "%string); ("k"%string, ""%string); (""%string, "\n$DATUM "%string); ("v"%string, ""%string); (""%string, "\n"%string)]].
Definition hand_erdfwrite_strings : list string :=
  ["\nM  V30 BEGIN REACTANT\n"%string; "M  V30 END REACTANT\nM  V30 BEGIN PRODUCT\n"%string; "M  V30 END PRODUCT\n"%string; "M  V30 BEGIN AGENT\n"%string; "M  V30 END AGENT\n"%string; "M  END\n"%string; "M  END\n"%string].
Definition hand_rdfwrite_header_strings : list string :=
  ["$RDFILE 1\n$DATM    %m/%d/%y %H:%M\n"%string].
Definition hand_rdfwrite_init_condition : string := "not append or not (self._is_buffer or self._file.tell() != 0)"%string.
Definition hand_mol_slices : list (string * string) :=
  [("0"%string, "3"%string); ("3"%string, "6"%string); ("4"%string, "4 + atoms_count"%string); ("36"%string, "39"%string); ("31"%string, "34"%string); ("34"%string, "36"%string);
   ("60"%string, "63"%string); ("0"%string, "10"%string); ("10"%string, "20"%string); ("20"%string, "30"%string); ("4 + atoms_count"%string, "4 + atoms_count + bonds_count"%string); ("0"%string, "3"%string);
   ("3"%string, "6"%string); ("9"%string, "12"%string); ("6"%string, "9"%string); ("4 + atoms_count + bonds_count"%string, ""%string); ("6"%string, "9"%string); ("10 + i8"%string, "13 + i8"%string);
   ("14 + i8"%string, "17 + i8"%string); ("6"%string, "9"%string); ("14 + i8"%string, "17 + i8"%string); ("10 + i8"%string, "13 + i8"%string); ("10 + i8"%string, "13 + i8"%string); ("7"%string, "10"%string);
   ("14 + 4 * i"%string, "17 + 4 * i"%string); ("10"%string, "13"%string); ("7"%string, "10"%string); ("7"%string, "10"%string); ("10"%string, ""%string); ("7"%string, "10"%string);
   ("10"%string, ""%string); ("6"%string, ""%string)].
Definition hand_mol_strings : list string :=
  ["AL"%string; "queries not supported"%string; "D"%string; "H"%string; " 0"%string; "isotope on deuterium atom"%string; " 0"%string; "element"%string;
   "charge"%string; "isotope"%string; "parsed_mapping"%string; "x"%string; "y"%string; "z"%string; "delta_isotope"%string; "  1"%string;
   "  6"%string; "  0"%string; "M  END"%string; "M  ALS"%string; "list of atoms not supported"%string; "M  ISO"%string; "M  RAD"%string; "M  CHG"%string;
   "invalid atoms number"%string; "isotope"%string; "delta_isotope"%string; "M  STY"%string; "DAT"%string; "SUP"%string; "type"%string; "MDL_SUP"%string;
   "M  SAL"%string; "atoms"%string; "M  SDT"%string; "type"%string; "M  SED"%string; "value"%string; "/"%string; ""%string;
   "M  SMT"%string; "value"%string; "M  SDD"%string; "is_radical"%string; "is_radical"%string; "type"%string; "mrv_implicit_h"%string; "atoms"%string;
   "value"%string; "implicit_hydrogens"%string; "title"%string; "atoms"%string; "bonds"%string; "stereo"%string; "log"%string].
Definition hand_mol_ints : list Z :=
  [3; 0; 3; 3; 6; 0; 4; 4; 36; 39; 31; 34; 34; 36; 2; 60; 63; 0; 0; 10;
   10; 20; 20; 30; 4; 4; 0; 3; 1; 3; 6; 1; 9; 12; 1; 1; 6; 9; 9; 8;
   4; 3; 6; 9; 8; 10; 13; 1; 14; 17; 6; 9; 8; 14; 17; 10; 13; 10; 13; 7;
   10; 14; 4; 17; 4; 1; 10; 13; 7; 10; 1; 7; 10; 10; 7; 10; 10; 1; 0; 1;
   0; 6].
Definition hand_emol_slices : list (string * string) :=
  [("4"%string, ""%string); ("13"%string, ""%string); ("3"%string, ""%string); ("7"%string, "-2"%string); ("7"%string, ""%string); (""%string, "atom_count"%string);
   ("2 + atom_count"%string, "2 + atom_count + bonds_count"%string); ("1"%string, "-1"%string); ("1"%string, ""%string); ("3 + atom_count + bonds_count"%string, ""%string); ("1"%string, ""%string); ("1"%string, "-1"%string);
   ("6"%string, ""%string)].
Definition hand_emol_strings : list string :=
  ["="%string; "="%string; "-\n"%string; "["%string; "NOT"%string; "list of atoms not supported"%string; "*"%string; "R#"%string;
   "R-groups not supported"%string; "="%string; "CHG"%string; "MASS"%string; "RAD"%string; "D"%string; "isotope on deuterium atom"%string; "H"%string;
   "element"%string; "isotope"%string; "charge"%string; "is_radical"%string; "x"%string; "y"%string; "z"%string; "parsed_mapping"%string;
   "invalid bond ignored: star-point to star-point"%string; "invalid atoms number"%string; "invalid atoms number"%string; "coordinate bond replaced to special"%string; "invalid atoms numbers"%string; "="%string; "CFG"%string; "1"%string;
   "3"%string; "invalid or unsupported stereo"%string; "ENDPTS"%string; "invalid ENDPTS block"%string; "invalid atoms numbers in ENDPTS block"%string; "Bond ignored. Star atom not allowed as endpoint"%string; "END CTAB"%string; "BEGIN SGROUP"%string;
   "END SGROUP"%string; "DAT"%string; "="%string; "ATOMS"%string; "FIELDNAME"%string; """"%string; "FIELDDATA"%string; """"%string;
   "MRV_IMPLICIT_H"%string; "implicit_hydrogens"%string; "SRU"%string; "Polymers not supported"%string; "title"%string; "atoms"%string; "bonds"%string; "stereo"%string;
   "meta"%string; "log"%string].
Definition hand_emol_ints : list Z :=
  [0; 4; 1; 13; 1; 3; 7; 2; 7; 0; 1; 2; 2; 2; 9; 10; 8; 1; 1; 1;
   1; 0; 1; 1; 8; 3; 1; 1; 1; 1; 0; 6].
Definition hand_emol_split_strings : list string :=
  ["("%string; "("%string; ")"%string; """"%string; """"%string; " "%string; ""%string; ""%string].
Definition hand_rxn_slices : list (string * string) :=
  [(""%string, "3"%string); ("3"%string, "6"%string); ("6"%string, ""%string); ("start + 5"%string, ""%string); ("start"%string, ""%string); (""%string, "reactants_count"%string);
   ("reactants_count"%string, "products_count"%string); ("products_count"%string, ""%string)].
Definition hand_rxn_strings : list string :=
  ["$MOL"%string; "reactants"%string; "products"%string; "reagents"%string; "title"%string; "log"%string].
Definition hand_rxn_ints : list Z :=
  [4; 3; 3; 6; 6; 0; 1; 1; 0; 5; 6; 1; 1; 1; 1; 1; 1].
Definition hand_erxn_slices : list (string * string) :=
  [("13"%string, ""%string); ("start + 5"%string, ""%string); ("start"%string, ""%string); (""%string, "reactants_count"%string); ("reactants_count"%string, "products_count"%string); ("products_count"%string, ""%string)].
Definition hand_erxn_strings : list string :=
  ["M  V30 BEGIN CTAB"%string; "reactants"%string; "products"%string; "reagents"%string; "title"%string; "log"%string].
Definition hand_erxn_ints : list Z :=
  [4; 13; 0; 1; 2; 3; 0; 1; 1; 0; 5; 5; 1; 1; 1; 1; 1; 1].
Definition hand_iter_handlers : list string := ["(ValueError, IndexError)"%string; "EOFError"%string].
Definition hand_getitem_handlers : list string := ["EOFError"%string; "ValueError"%string; "EOFError"%string; "ValueError"%string].
Definition hand_sdfread_read_structure_strings : list string :=
  ["M  V30 BEGIN CTAB"%string].
Definition hand_sdfread_read_structure_slices : list (string * string) :=
  [].
Definition hand_sdfread_read_metadata_strings : list string :=
  [" "%string; "chython_unparsed_metadata"%string; "\n"%string].
Definition hand_sdfread_read_metadata_slices : list (string * string) :=
  [].
Definition hand_sdfread_read_block_strings : list string :=
  ["$$$$"%string; "M  END"%string].
Definition hand_sdfread_read_block_slices : list (string * string) :=
  [].
Definition hand_sdfread_reset_index_strings : list string :=
  ["win32"%string; "grep"%string; "-bE"%string; "\$\$\$\$"%string; "wb"%string; "Indexable supported in unix-like o.s. and for files stored on disk"%string].
Definition hand_rdfread_read_structure_strings : list string :=
  ["$RXN"%string; "M  V30 COUNTS"%string; "reactants"%string; "reagents"%string; "products"%string; "M  V30 BEGIN CTAB"%string].
Definition hand_rdfread_read_structure_slices : list (string * string) :=
  [].
Definition hand_rdfread_read_metadata_strings : list string :=
  ["$DTYPE"%string; "chython_unparsed_metadata"%string; "$DATUM"%string; "chython_unparsed_metadata"%string; "\n"%string].
Definition hand_rdfread_read_metadata_slices : list (string * string) :=
  [("7"%string, ""%string); ("6"%string, ""%string)].
Definition hand_rdfread_read_block_strings : list string :=
  ["$RXN"%string; "$RFMT"%string; "$MFMT"%string; "$DTYPE"%string; "$RFMT"%string; "$MFMT"%string].
Definition hand_rdfread_read_block_slices : list (string * string) :=
  [].
Definition hand_rdfread_reset_index_strings : list string :=
  ["win32"%string; "grep"%string; "-bE"%string; "^\$[RM]FMT"%string; "wb"%string; "Indexable supported in unix-like o.s. and for files stored on disk"%string].
Definition hand_meta_pattern : string := "^>([^<]+)<([^>]+)>([^><]*)$"%string.

(* ------------------------------------------------------------------------------------------------ *)
(** * generated = recorded *)
Lemma tie_molwrite_templates : src_molwrite_templates = hand_molwrite_templates.
Proof. vm_compute. reflexivity. Qed.
Lemma tie_molwrite_strings : src_molwrite_strings = hand_molwrite_strings.
Proof. vm_compute. reflexivity. Qed.
Lemma tie_molwrite_ints : src_molwrite_ints = hand_molwrite_ints.
Proof. vm_compute. reflexivity. Qed.
Lemma tie_emolwrite_templates : src_emolwrite_templates = hand_emolwrite_templates.
Proof. vm_compute. reflexivity. Qed.
Lemma tie_emolwrite_strings : src_emolwrite_strings = hand_emolwrite_strings.
Proof. vm_compute. reflexivity. Qed.
Lemma tie_io_init_strings : src_io_init_strings = hand_io_init_strings.
Proof. vm_compute. reflexivity. Qed.
Lemma tie_sdfwrite_templates : src_sdfwrite_templates = hand_sdfwrite_templates.
Proof. vm_compute. reflexivity. Qed.
Lemma tie_sdfwrite_strings : src_sdfwrite_strings = hand_sdfwrite_strings.
Proof. vm_compute. reflexivity. Qed.
Lemma tie_esdfwrite_templates : src_esdfwrite_templates = hand_esdfwrite_templates.
Proof. vm_compute. reflexivity. Qed.
Lemma tie_esdfwrite_strings : src_esdfwrite_strings = hand_esdfwrite_strings.
Proof. vm_compute. reflexivity. Qed.
Lemma tie_rdfwrite_templates : src_rdfwrite_templates = hand_rdfwrite_templates.
Proof. vm_compute. reflexivity. Qed.
Lemma tie_rdfwrite_strings : src_rdfwrite_strings = hand_rdfwrite_strings.
Proof. vm_compute. reflexivity. Qed.
Lemma tie_erdfwrite_templates : src_erdfwrite_templates = hand_erdfwrite_templates.
Proof. vm_compute. reflexivity. Qed.
Lemma tie_erdfwrite_strings : src_erdfwrite_strings = hand_erdfwrite_strings.
Proof. vm_compute. reflexivity. Qed.
Lemma tie_rdfwrite_header_strings : src_rdfwrite_header_strings = hand_rdfwrite_header_strings.
Proof. vm_compute. reflexivity. Qed.
Lemma tie_rdfwrite_init_condition : src_rdfwrite_init_condition = hand_rdfwrite_init_condition.
Proof. vm_compute. reflexivity. Qed.
Lemma tie_mol_slices : src_mol_slices = hand_mol_slices.
Proof. vm_compute. reflexivity. Qed.
Lemma tie_mol_strings : src_mol_strings = hand_mol_strings.
Proof. vm_compute. reflexivity. Qed.
Lemma tie_mol_ints : src_mol_ints = hand_mol_ints.
Proof. vm_compute. reflexivity. Qed.
Lemma tie_emol_slices : src_emol_slices = hand_emol_slices.
Proof. vm_compute. reflexivity. Qed.
Lemma tie_emol_strings : src_emol_strings = hand_emol_strings.
Proof. vm_compute. reflexivity. Qed.
Lemma tie_emol_ints : src_emol_ints = hand_emol_ints.
Proof. vm_compute. reflexivity. Qed.
Lemma tie_emol_split_strings : src_emol_split_strings = hand_emol_split_strings.
Proof. vm_compute. reflexivity. Qed.
Lemma tie_rxn_slices : src_rxn_slices = hand_rxn_slices.
Proof. vm_compute. reflexivity. Qed.
Lemma tie_rxn_strings : src_rxn_strings = hand_rxn_strings.
Proof. vm_compute. reflexivity. Qed.
Lemma tie_rxn_ints : src_rxn_ints = hand_rxn_ints.
Proof. vm_compute. reflexivity. Qed.
Lemma tie_erxn_slices : src_erxn_slices = hand_erxn_slices.
Proof. vm_compute. reflexivity. Qed.
Lemma tie_erxn_strings : src_erxn_strings = hand_erxn_strings.
Proof. vm_compute. reflexivity. Qed.
Lemma tie_erxn_ints : src_erxn_ints = hand_erxn_ints.
Proof. vm_compute. reflexivity. Qed.
Lemma tie_iter_handlers : src_iter_handlers = hand_iter_handlers.
Proof. vm_compute. reflexivity. Qed.
Lemma tie_getitem_handlers : src_getitem_handlers = hand_getitem_handlers.
Proof. vm_compute. reflexivity. Qed.
Lemma tie_sdfread_read_structure_strings : src_sdfread_read_structure_strings = hand_sdfread_read_structure_strings.
Proof. vm_compute. reflexivity. Qed.
Lemma tie_sdfread_read_structure_slices : src_sdfread_read_structure_slices = hand_sdfread_read_structure_slices.
Proof. vm_compute. reflexivity. Qed.
Lemma tie_sdfread_read_metadata_strings : src_sdfread_read_metadata_strings = hand_sdfread_read_metadata_strings.
Proof. vm_compute. reflexivity. Qed.
Lemma tie_sdfread_read_metadata_slices : src_sdfread_read_metadata_slices = hand_sdfread_read_metadata_slices.
Proof. vm_compute. reflexivity. Qed.
Lemma tie_sdfread_read_block_strings : src_sdfread_read_block_strings = hand_sdfread_read_block_strings.
Proof. vm_compute. reflexivity. Qed.
Lemma tie_sdfread_read_block_slices : src_sdfread_read_block_slices = hand_sdfread_read_block_slices.
Proof. vm_compute. reflexivity. Qed.
Lemma tie_sdfread_reset_index_strings : src_sdfread_reset_index_strings = hand_sdfread_reset_index_strings.
Proof. vm_compute. reflexivity. Qed.
Lemma tie_rdfread_read_structure_strings : src_rdfread_read_structure_strings = hand_rdfread_read_structure_strings.
Proof. vm_compute. reflexivity. Qed.
Lemma tie_rdfread_read_structure_slices : src_rdfread_read_structure_slices = hand_rdfread_read_structure_slices.
Proof. vm_compute. reflexivity. Qed.
Lemma tie_rdfread_read_metadata_strings : src_rdfread_read_metadata_strings = hand_rdfread_read_metadata_strings.
Proof. vm_compute. reflexivity. Qed.
Lemma tie_rdfread_read_metadata_slices : src_rdfread_read_metadata_slices = hand_rdfread_read_metadata_slices.
Proof. vm_compute. reflexivity. Qed.
Lemma tie_rdfread_read_block_strings : src_rdfread_read_block_strings = hand_rdfread_read_block_strings.
Proof. vm_compute. reflexivity. Qed.
Lemma tie_rdfread_read_block_slices : src_rdfread_read_block_slices = hand_rdfread_read_block_slices.
Proof. vm_compute. reflexivity. Qed.
Lemma tie_rdfread_reset_index_strings : src_rdfread_reset_index_strings = hand_rdfread_reset_index_strings.
Proof. vm_compute. reflexivity. Qed.
Lemma tie_meta_pattern : src_meta_pattern = hand_meta_pattern.
Proof. vm_compute. reflexivity. Qed.

(* ------------------------------------------------------------------------------------------------ *)
(** * Part 2: the model's writers are the renderings of the generated templates *)

(* a literal of the generated file spells the newline as backslash n *)
Definition lit (s : string) : str := replace (L "\n") [nl] (L s).
(* the value of a template field and the meaning of the format specifications that occur *)
Inductive fieldval := VZ (z : Z) | VS (s : str) | VF (formatted : str).     (* VF: a float, given as its formatted text (input of the model) *)
Definition render_field (v : option fieldval) (spec : string) : option str :=
  match v with
  | Some (VZ z) => if String.eqb spec "3d" then Some (fmt_d 3 z) else if String.eqb spec "" then Some (zstr z) else None
  | Some (VS s) => if String.eqb spec "3s" then Some (fmt_s 3 s) else if String.eqb spec "" then Some s else None
  | Some (VF f) => if String.eqb spec "10.4f" || String.eqb spec ".4f" then Some f else None
  | None => None
  end.
Fixpoint render (env : string -> option fieldval) (t : list (string * string)) : option str :=
  match t with
  | [] => Some []
  | (e, x) :: r =>
    match (if String.eqb e "" then Some (lit x) else render_field (env e) x), render env r with
    | Some a, Some b => Some (a ++ b)
    | _, _ => None
    end
  end.
Definition env_of (l : list (string * fieldval)) (e : string) : option fieldval :=
  match find (fun p => String.eqb (fst p) e) l with Some p => Some (snd p) | None => None end.
Definition tpl (ts : list (list (string * string))) (k : nat) : list (string * string) := nth k ts [].

(* MOLWrite: header + counts line, atom line, the two bond lines, the three property lines *)
Lemma tie_v2_header name na nb :
  render (env_of [("g.name"%string, VS name); ("g.atoms_count"%string, VZ na); ("g.bonds_count"%string, VZ nb)]) (tpl src_molwrite_templates 0) =
  Some (text_of_lines [name; []; []; v2_counts_line na nb]).
Proof. unfold text_of_lines, add_nl, v2_counts_line. cbn [map concat]. rewrite <- !app_assoc. reflexivity. Qed.
Lemma tie_v2_atom_line (mapping : bool) a c : w_charge (wa_chg a) = Ok c ->
  match render (env_of [("x"%string, VF (wa_x a)); ("y"%string, VF (wa_y a)); ("z"%string, VF (wa_z a)); ("a.atomic_symbol"%string, VS (wa_sym a));
                        ("c"%string, VS c); ("m"%string, VZ (if mapping then wa_num a else 0))]) (tpl src_molwrite_templates 1) with
  | Some t => v2_atom_line mapping a = Ok (removelast t) /\ last t sp = nl
  | None => False
  end.
Proof.
  intros Hc. unfold v2_atom_line. rewrite Hc. cbn [bind].
  assert (R : forall (x : str) y, removelast (x ++ y ++ [nl]) = x ++ y) by (intros x y; rewrite app_assoc, removelast_last; reflexivity).
  cbn [tpl nth src_molwrite_templates render env_of find fst snd String.eqb Ascii.eqb Bool.eqb render_field orb].
  split.
  - f_equal. set (m := if mapping then wa_num a else 0).
    change (lit " ") with [sp]. change (lit " 0") with (L " 0"). change (lit "  0  0  0  0  0  0  0") with (L "  0  0  0  0  0  0  0").
    change (lit "  0  0\n") with (L "  0  0" ++ [nl]).
    rewrite !app_nil_r. repeat rewrite app_assoc. rewrite removelast_last. repeat rewrite <- app_assoc. reflexivity.
  - change (lit "  0  0\n") with (L "  0  0" ++ [nl]). rewrite !app_nil_r. repeat rewrite app_assoc. apply last_last.
Qed.
Lemma tie_v2_bond_lines i j o (up : bool) :
  render (env_of [("atoms[n]"%string, VZ i); ("atoms[m]"%string, VZ j); ("bonds[n][m].order"%string, VZ o);
                  ("s == 1 and '1' or '6'"%string, VS (if up then L "1" else L "6"))]) (tpl src_molwrite_templates 2) =
    Some (add_nl (v2_bond_line i j o (if up then L "1" else L "6"))) /\
  render (env_of [("atoms[n]"%string, VZ i); ("atoms[m]"%string, VZ j); ("b.order"%string, VZ o)]) (tpl src_molwrite_templates 3) =
    Some (add_nl (v2_bond_line i j o (L "0"))).
Proof. unfold add_nl, v2_bond_line. split; cbn [tpl nth src_molwrite_templates render env_of find fst snd String.eqb Ascii.eqb Bool.eqb render_field orb];
  rewrite <- ?app_assoc; reflexivity. Qed.
Lemma tie_v2_prop_lines n iso chg :
  render (env_of [("n"%string, VZ n); ("a.isotope"%string, VZ iso)]) (tpl src_molwrite_templates 4) =
    Some (add_nl (L "M  ISO  1 " ++ fmt_d 3 n ++ [sp] ++ fmt_d 3 iso)) /\
  render (env_of [("n"%string, VZ n)]) (tpl src_molwrite_templates 5) = Some (add_nl (L "M  RAD  1 " ++ fmt_d 3 n ++ L "   2")) /\
  render (env_of [("n"%string, VZ n); ("a.charge"%string, VZ chg)]) (tpl src_molwrite_templates 6) =
    Some (add_nl (L "M  CHG  1 " ++ fmt_d 3 n ++ [sp] ++ fmt_d 3 chg)).
Proof. unfold add_nl. repeat split; cbn [tpl nth src_molwrite_templates render env_of find fst snd String.eqb Ascii.eqb Bool.eqb render_field orb];
  rewrite <- ?app_assoc; reflexivity. Qed.
(* ... these are exactly the lines v2_prop_lines emits *)
Lemma v2_prop_lines_spelled n a :
  v2_prop_lines n a =
  (if iso_truthy (wa_iso a) then [L "M  ISO  1 " ++ fmt_d 3 n ++ [sp] ++ fmt_d 3 (iso_val (wa_iso a))] else []) ++
  (if wa_rad a then [L "M  RAD  1 " ++ fmt_d 3 n ++ L "   2"] else []) ++
  (if (wa_chg a =? -4) || (wa_chg a =? 4) then [L "M  CHG  1 " ++ fmt_d 3 n ++ [sp] ++ fmt_d 3 (wa_chg a)] else []).
Proof. reflexivity. Qed.

(* EMOLWrite: counts block, atom line (with its optional CHG / MASS suffixes), bond lines *)
Lemma tie_v3_head na nb :
  render (env_of [("g.atoms_count"%string, VZ na); ("g.bonds_count"%string, VZ nb)]) (tpl src_emolwrite_templates 0) =
  Some (text_of_lines [L "M  V30 BEGIN CTAB"; L "M  V30 COUNTS " ++ zstr na ++ [sp] ++ zstr nb ++ L " 0 0 0"; L "M  V30 BEGIN ATOM"]).
Proof. unfold text_of_lines, add_nl. cbn [map concat]. rewrite <- !app_assoc. reflexivity. Qed.
Lemma tie_v3_atom_line (mapping : bool) n a :
  let c := if wa_chg a =? 0 then Some [] else render (env_of [("a.charge"%string, VZ (wa_chg a))]) (tpl src_emolwrite_templates 2) in
  let i := if iso_truthy (wa_iso a) then render (env_of [("a.isotope"%string, VZ (iso_val (wa_iso a)))]) (tpl src_emolwrite_templates 3) else Some [] in
  match c, i with
  | Some c, Some i =>
    render (env_of [("n"%string, VZ n); ("a.atomic_symbol"%string, VS (wa_sym a)); ("x"%string, VF (wa_x a)); ("y"%string, VF (wa_y a));
                    ("z"%string, VS (wa_z a)); ("m"%string, VZ (if mapping then wa_num a else 0)); ("c"%string, VS c);
                    ("r"%string, VS (if wa_rad a then L " RAD=2" else [])); ("i"%string, VS i)]) (tpl src_emolwrite_templates 4) =
    Some (add_nl (v3_atom_line mapping n a))
  | _, _ => False
  end.
Proof.
  unfold v3_atom_line, add_nl. cbv zeta.
  destruct (wa_chg a =? 0); destruct (iso_truthy (wa_iso a));
    cbn [tpl nth src_emolwrite_templates render env_of find fst snd String.eqb Ascii.eqb Bool.eqb render_field orb];
    rewrite ?app_nil_r; rewrite <- ?app_assoc; reflexivity.
Qed.
Lemma tie_v3_bond_lines i o a b (up : bool) :
  render (env_of [("i"%string, VZ i); ("bonds[n][m].order"%string, VZ o); ("mapping[n]"%string, VZ a); ("mapping[m]"%string, VZ b);
                  ("s == 1 and '1' or '3'"%string, VS (if up then L "1" else L "3"))]) (tpl src_emolwrite_templates 5) =
    Some (add_nl (v3_bond_line i o a b (L " CFG=" ++ (if up then L "1" else L "3")))) /\
  render (env_of [("i"%string, VZ i); ("b.order"%string, VZ o); ("mapping[n]"%string, VZ a); ("mapping[m]"%string, VZ b)]) (tpl src_emolwrite_templates 6) =
    Some (add_nl (v3_bond_line i o a b [])).
Proof. unfold add_nl, v3_bond_line. split; cbn [tpl nth src_emolwrite_templates render env_of find fst snd String.eqb Ascii.eqb Bool.eqb render_field orb];
  rewrite ?app_nil_r; rewrite <- ?app_assoc; reflexivity. Qed.

(* metadata blocks of SDFWrite / RDFWrite *)
Lemma tie_sdf_meta_entry k v :
  render (env_of [("k"%string, VS k); ("v"%string, VS v)]) (tpl src_sdfwrite_templates 0) = Some (L ">  <" ++ k ++ L ">" ++ [nl] ++ v ++ [nl; nl]) /\
  render (env_of [("k"%string, VS k); ("v"%string, VS v)]) (tpl src_esdfwrite_templates 1) = Some (L ">  <" ++ k ++ L ">" ++ [nl] ++ v ++ [nl; nl]) /\
  render (env_of [("k"%string, VS k); ("v"%string, VS v)]) (tpl src_rdfwrite_templates 2) = Some (L "$DTYPE " ++ k ++ [nl] ++ L "$DATUM " ++ v ++ [nl]) /\
  render (env_of [("k"%string, VS k); ("v"%string, VS v)]) (tpl src_erdfwrite_templates 3) = Some (L "$DTYPE " ++ k ++ [nl] ++ L "$DATUM " ++ v ++ [nl]).
Proof. repeat split; cbn [tpl nth src_sdfwrite_templates src_esdfwrite_templates src_rdfwrite_templates src_erdfwrite_templates render env_of find fst snd String.eqb Ascii.eqb Bool.eqb render_field orb];
  rewrite ?app_nil_r; rewrite <- ?app_assoc; reflexivity. Qed.

(* the reaction head lines of RDFWrite / ERDFWrite *)
Lemma tie_rdf_rxn_head name nr np ng :
  render (env_of [("data.name"%string, VS name); ("len(data.reactants)"%string, VZ nr); ("len(data.products)"%string, VZ np)]) (tpl src_rdfwrite_templates 0) =
    Some (L "$RFMT" ++ [nl] ++ L "$RXN" ++ [nl] ++ name ++ [nl; nl; nl] ++ fmt_d 3 nr ++ fmt_d 3 np) /\
  render (env_of [("len(data.reagents)"%string, VZ ng)]) (tpl src_rdfwrite_templates 1) = Some (fmt_d 3 ng ++ [nl]) /\
  render (env_of [("data.name"%string, VS name); ("len(data.reactants)"%string, VZ nr); ("len(data.products)"%string, VZ np)]) (tpl src_erdfwrite_templates 0) =
    Some (L "$RFMT" ++ [nl] ++ L "$RXN V3000" ++ [nl] ++ name ++ [nl; nl; nl] ++ L "M  V30 COUNTS " ++ zstr nr ++ [sp] ++ zstr np).
Proof. repeat split; cbn [tpl nth src_rdfwrite_templates src_erdfwrite_templates render env_of find fst snd String.eqb Ascii.eqb Bool.eqb render_field orb];
  rewrite ?app_nil_r; rewrite <- ?app_assoc; reflexivity. Qed.

(* the header decision of _RDFWrite.__init__ and the exceptions the iterator / the slice reader skip: the source text the model mirrors *)
Lemma tie_header_condition : src_rdfwrite_init_condition = "not append or not (self._is_buffer or self._file.tell() != 0)"%string /\
  forall is_buffer append tell_nonzero, rdf_writes_header is_buffer append tell_nonzero = negb append || negb (is_buffer || tell_nonzero).
Proof. split; reflexivity. Qed.
Lemma tie_skipped_exceptions : src_iter_handlers = ["(ValueError, IndexError)"; "EOFError"]%string /\
  src_getitem_handlers = ["EOFError"; "ValueError"; "EOFError"; "ValueError"]%string.
Proof. split; reflexivity. Qed.
