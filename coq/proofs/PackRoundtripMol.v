(* C10: the molecule level round trip  unpack (pack m ++ suffix)  for every molecule within the format limits.
   - Python dict helpers (dict_set / dict_of_pairs on duplicate free keys)
   - the reader invariant of take_nbrs / build_adj
   - facts derived from pack_ok (ranges, lengths, no wrap-around of the C counters)
   - pack m = the block layout; unpack of the block layout. *)
From Coq Require Import ZArith List Bool Lia ZifyBool Permutation.
From Model Require Import PyBase Pack PackSpec.
From Gen Require Import Elements.
From Proofs Require Import PackBits PackRoundtrip PackRoundtripGraph.
Import ListNotations.
Open Scope Z_scope.

(* ================================================================================================ *)
(* dicts with duplicate free keys *)

Lemma dict_set_new {V} (d : list (Z * V)) k v : ~ In k (map fst d) -> dict_set d k v = d ++ [(k, v)].
Proof.
  induction d as [|[k' v'] d IH]; intros H; [reflexivity|].
  cbn [dict_set map fst In] in *. destruct (k =? k') eqn:E.
  - apply Z.eqb_eq in E. exfalso. apply H. left. congruence.
  - cbn [app]. rewrite IH; [reflexivity|]. intros Hin. apply H. right. exact Hin.
Qed.

Lemma dict_set_mid {V} (l1 l2 : list (Z * V)) k v0 v : ~ In k (map fst l1) ->
  dict_set (l1 ++ (k, v0) :: l2) k v = l1 ++ (k, v) :: l2.
Proof.
  induction l1 as [|[k' v'] l1 IH]; intros H.
  - cbn [app dict_set]. rewrite Z.eqb_refl. reflexivity.
  - cbn [app dict_set map fst In] in *. destruct (k =? k') eqn:E.
    + apply Z.eqb_eq in E. exfalso. apply H. left. congruence.
    + rewrite IH; [reflexivity|]. intros Hin. apply H. right. exact Hin.
Qed.

Lemma NoDup_app_not_in {A} (l1 l2 : list A) x : NoDup (l1 ++ x :: l2) -> ~ In x l1.
Proof. intros H Hin. apply NoDup_remove_2 in H. apply H. apply in_or_app. left. exact Hin. Qed.

Lemma dict_fold_nodup {V} (l : list (Z * V)) : forall acc, NoDup (map fst (acc ++ l)) ->
  fold_left (fun d kv => dict_set d (fst kv) (snd kv)) l acc = acc ++ l.
Proof.
  induction l as [|[k v] l IH]; intros acc H; [rewrite app_nil_r; reflexivity|].
  cbn [fold_left fst snd]. rewrite dict_set_new.
  - rewrite IH; rewrite <- app_assoc; [reflexivity | exact H].
  - rewrite map_app in H. cbn [map fst] in H. apply NoDup_app_not_in in H. exact H.
Qed.

Lemma dict_of_pairs_nodup {V} (l : list (Z * V)) : NoDup (map fst l) -> dict_of_pairs l = l.
Proof. intros H. unfold dict_of_pairs. apply (dict_fold_nodup l [] H). Qed.

Definition empty_entry (a : patom) : Z * list (Z * Z) := (pa_n a, []).

Lemma adj0_fold (l : list patom) : forall (acc : uadj), NoDup (map fst acc ++ map pa_n l) ->
  fold_left (fun d x => dict_set d (ua_n x) []) (map uatom_of l) acc = acc ++ map empty_entry l.
Proof.
  induction l as [|a l IH]; intros acc H; [rewrite app_nil_r; reflexivity|].
  cbn [map fold_left]. change (ua_n (uatom_of a)) with (pa_n a). rewrite dict_set_new.
  - rewrite IH.
    + rewrite <- app_assoc. reflexivity.
    + rewrite map_app. cbn [map fst]. rewrite <- app_assoc. exact H.
  - cbn [map] in H. apply NoDup_app_not_in in H. exact H.
Qed.

(* ================================================================================================ *)
(* the reader of the connection table *)

Lemma take_nbrs_spec n seen adj : forall (nb : list nbr) conns' orders',
  (forall x, In x nb -> zmem (nb_m x) seen = true ->
             exists ml, zget adj (nb_m x) = Some ml /\ zget ml n = Some (nb_ord x)) ->
  take_nbrs n (length nb) (map nb_m nb ++ conns') (fwd_orders (map (pair n) (fwd_nbrs seen nb)) ++ orders') seen adj
  = Ok (map (fun x => (nb_m x, nb_ord x)) nb, conns', orders').
Proof.
  induction nb as [|x nb IH]; intros conns' orders' H; [reflexivity|].
  assert (H' : forall y, In y nb -> zmem (nb_m y) seen = true ->
                         exists ml, zget adj (nb_m y) = Some ml /\ zget ml n = Some (nb_ord y)).
  { intros y Hy. apply H. right. exact Hy. }
  cbn [length map app take_nbrs]. unfold fwd_nbrs. cbn [filter]. fold (fwd_nbrs seen nb).
  destruct (zmem (nb_m x) seen) eqn:E; cbn [negb].
  - destruct (H x (or_introl eq_refl) E) as [ml [H1 H2]]. rewrite H1, H2. rewrite IH by exact H'. reflexivity.
  - rewrite fwd_orders_cons. cbn [app]. rewrite IH by exact H'.
    replace (nb_ord x - 1 + 1) with (nb_ord x) by lia. reflexivity.
Qed.

Lemma map_fst_adj_entry l : map fst (map adj_entry l) = map pa_n l.
Proof. rewrite map_map. reflexivity. Qed.
Lemma map_fst_empty_entry l : map fst (map empty_entry l) = map pa_n l.
Proof. rewrite map_map. reflexivity. Qed.

Section Reader.
  Variable atoms : list patom.
  Hypothesis W : graph_wf atoms.

  Lemma build_adj_spec : forall todo done conns' orders',
    atoms = done ++ todo ->
    build_adj (map uatom_of todo) (mol_conns todo ++ conns')
              (fwd_orders (mol_fwd (rev (map pa_n done)) todo) ++ orders')
              (rev (map pa_n done)) (map adj_entry done ++ map empty_entry todo)
    = Ok (map adj_entry atoms).
  Proof.
    induction todo as [|a r IH]; intros done conns' orders' Hat.
    - cbn [map build_adj]. rewrite Hat, !app_nil_r. reflexivity.
    - assert (Ha : In a atoms) by (rewrite Hat; apply in_or_app; right; left; reflexivity).
      assert (Hdone : forall b, In b done -> In b atoms) by (intros b Hb; rewrite Hat; apply in_or_app; left; exact Hb).
      pose proof (gw_nodup _ W) as Hnd.
      assert (Hkeys : map fst (map adj_entry done ++ empty_entry a :: map empty_entry r) = map pa_n atoms).
      { change (empty_entry a :: map empty_entry r) with (map empty_entry (a :: r)). rewrite map_app, map_fst_adj_entry, map_fst_empty_entry, <- map_app, <- Hat. reflexivity. }
      cbn [map build_adj]. change (ua_n (uatom_of a)) with (pa_n a).
      change (ua_ngb (uatom_of a)) with (Z.of_nat (length (pa_nbrs a))). rewrite Nat2Z.id.
      cbn [mol_conns flat_map mol_fwd]. fold (mol_conns r). rewrite fwd_orders_app, <- !app_assoc.
      rewrite take_nbrs_spec.
      + rewrite dict_of_pairs_nodup by (rewrite map_map; apply (gw_nbr_nodup _ W a Ha)).
        change (empty_entry a :: map empty_entry r) with ((pa_n a, []) :: map empty_entry r).
        rewrite dict_set_mid.
        * specialize (IH (done ++ [a]) conns' orders'). rewrite map_app, rev_app_distr in IH. cbn [map rev app] in IH.
          rewrite map_app in IH. cbn [map] in IH.
          rewrite <- (app_assoc (map adj_entry done) [adj_entry a]) in IH. cbn [app] in IH.
          apply IH. rewrite <- app_assoc. exact Hat.
        * rewrite map_fst_adj_entry. rewrite Hat, map_app in Hnd. cbn [map] in Hnd. apply NoDup_app_not_in in Hnd. exact Hnd.
      + intros x Hx Hz. apply zmem_In in Hz. destruct Hz as [Hz|Hz].
        { exfalso. apply (gw_noloop _ W a x Ha Hx). symmetry. exact Hz. }
        apply in_rev in Hz. apply in_map_iff in Hz. destruct Hz as [b [Hbn Hb]].
        exists (snd (adj_entry b)). split.
        * apply zget_NoDup; [rewrite Hkeys; exact Hnd|]. apply in_or_app. left. rewrite <- Hbn.
          apply in_map_iff. exists b. split; [reflexivity | exact Hb].
        * destruct (gw_sym _ W a x Ha Hx) as [b' [s [Hb' [Hbn' Hin']]]].
          assert (b' = b).
          { apply (NoDup_map_inj pa_n atoms); [exact Hnd | exact Hb' | apply Hdone; exact Hb | congruence]. }
          subst b'. cbn [adj_entry snd]. apply zget_NoDup.
          -- rewrite map_map. apply (gw_nbr_nodup _ W b (Hdone b Hb)).
          -- apply in_map_iff. exists (pa_n a, (nb_ord x, s)). split; [reflexivity | exact Hin'].
  Qed.
End Reader.

(* ================================================================================================ *)
(* unpack of a version 2 pack, step by step (the control flow of Pack.unpack with the intermediate reads named) *)

Lemma unpack_v2_eq data a b c atoms ac ctc bc adj ct :
  getb data 0 = Some 2 -> getb data 1 = Some a -> getb data 2 = Some b -> getb data 3 = Some c ->
  u16 (Z.lor (Z.shiftl a 4) (Z.shiftr b 4)) = ac ->
  u16 (Z.lor (Z.shiftl (Z.land b 15) 8) c) = ctc ->
  read_atoms data (Z.to_nat ac) 4 = Some atoms ->
  u16 (fold_left (fun acc x => u16 (acc + ua_ngb x)) atoms 0) / 2 = bc ->
  (if bc =? 0 then Ok (fold_left (fun d x => dict_set d (ua_n x) []) atoms [])
   else match read_conns data (Z.to_nat bc) (4 + 9 * ac),
              slice data (4 + 9 * ac + 3 * bc) (Z.to_nat (order_block_size bc)) with
        | Some conns, Some obytes =>
            build_adj atoms conns (read_orders_v2 obytes (0, 0)) [] (fold_left (fun d x => dict_set d (ua_n x) []) atoms [])
        | _, _ => Err IndexError
        end) = Ok adj ->
  read_ct data (Z.to_nat ctc) (order_block_size bc + (4 + 9 * ac + 3 * bc)) = Some ct ->
  unpack data = Ok (mkUnpacked atoms adj ct (order_block_size bc + (4 + 9 * ac + 3 * bc) + 4 * ctc)).
Proof.
  intros G0 G1 G2 G3 Hac Hctc Hat Hbc Hadj Hct.
  unfold unpack. rewrite G0, G1, G2, G3. cbv zeta. rewrite Hac, Hctc, Hat, Hbc.
  change (2 =? 2) with true. cbv iota.
  destruct (bc =? 0).
  - injection Hadj as Hadj. rewrite Hadj, Hct. reflexivity.
  - destruct (read_conns data (Z.to_nat bc) (4 + 9 * ac)) as [conns|]; [|discriminate].
    destruct (slice data (4 + 9 * ac + 3 * bc) (Z.to_nat (order_block_size bc))) as [obytes|]; [|discriminate].
    rewrite Hadj, Hct. reflexivity.
Qed.

(* ================================================================================================ *)
(* facts derived from the format limits *)

Lemma mol_fwd_In : forall atoms seen n x, In (n, x) (mol_fwd seen atoms) ->
  exists a, In a atoms /\ n = pa_n a /\ In x (pa_nbrs a).
Proof.
  induction atoms as [|a r IH]; intros seen n x H; cbn [mol_fwd] in H; [contradiction|].
  apply in_app_or in H. destruct H as [H|H].
  - apply in_map_iff in H. destruct H as [y [Hy Hin]]. injection Hy as ? ?. subst.
    unfold fwd_nbrs in Hin. apply filter_In in Hin. exists a. repeat split; [left; reflexivity | apply Hin].
  - destruct (IH _ _ _ H) as [a' [H1 H2]]. exists a'. split; [right; exact H1 | exact H2].
Qed.

Lemma zrange_from_length s n : length (zrange_from s n) = n.
Proof. revert s. induction n as [|n IH]; intros s; cbn [zrange_from length]; [reflexivity | rewrite IH; reflexivity]. Qed.

Lemma numbers_pigeonhole (l : list Z) : NoDup l -> (forall x, In x l -> 1 <= x < 4096) -> (length l <= 4095)%nat.
Proof.
  intros Hnd Hr. assert (Hi : incl l (zrange 1 4096)) by (intros x Hx; apply zrange_In; apply Hr; exact Hx).
  pose proof (NoDup_incl_length Hnd Hi) as K. unfold zrange in K. rewrite zrange_from_length in K.
  lia.
Qed.

Lemma mol_conns_cons a r : mol_conns (a :: r) = map nb_m (pa_nbrs a) ++ mol_conns r.
Proof. reflexivity. Qed.

Lemma mol_conns_length_bound atoms : (forall a, In a atoms -> (length (pa_nbrs a) <= 15)%nat) ->
  (length (mol_conns atoms) <= 15 * length atoms)%nat.
Proof.
  induction atoms as [|a r IH]; intros H; [cbn; lia|].
  rewrite mol_conns_cons. cbn [length]. rewrite app_length, map_length.
  pose proof (H a (or_introl eq_refl)). specialize (IH (fun b Hb => H b (or_intror Hb))). unfold nbr in *. lia.
Qed.

(* the C accumulators (unsigned short, taken mod 65536 after every addition) never wrap within the limits *)
Lemma ngb_sum_unpack atoms : forall acc, 0 <= acc -> acc + Z.of_nat (length (mol_conns atoms)) < 65536 ->
  fold_left (fun s x => u16 (s + ua_ngb x)) (map uatom_of atoms) acc = acc + Z.of_nat (length (mol_conns atoms)).
Proof.
  induction atoms as [|a r IH]; intros acc H0 H; [cbn; lia|].
  rewrite mol_conns_cons in *. rewrite app_length, map_length in *.
  cbn [map fold_left]. change (ua_ngb (uatom_of a)) with (Z.of_nat (length (pa_nbrs a))).
  unfold nbr in *. rewrite u16_small by lia. rewrite IH by lia. lia.
Qed.

Lemma ngb_sum_pack atoms : forall acc, 0 <= acc -> acc + Z.of_nat (length (mol_conns atoms)) < 65536 ->
  fold_left (fun s a => u16 (s + Z.of_nat (length (pa_nbrs a)))) atoms acc = acc + Z.of_nat (length (mol_conns atoms)).
Proof.
  induction atoms as [|a r IH]; intros acc H0 H; [cbn; lia|].
  rewrite mol_conns_cons in *. rewrite app_length, map_length in *.
  cbn [fold_left]. unfold nbr in *. rewrite u16_small by lia. rewrite IH by lia. lia.
Qed.

Lemma mol_conns_nil_adj atoms : mol_conns atoms = [] -> map adj_entry atoms = map empty_entry atoms.
Proof.
  induction atoms as [|a r IH]; intros H; [reflexivity|].
  rewrite mol_conns_cons in H. apply app_eq_nil in H. destruct H as [H1 H2].
  cbn [map]. rewrite (IH H2). f_equal. unfold adj_entry, empty_entry.
  destruct (pa_nbrs a); [reflexivity | discriminate].
Qed.

Section Limits.
  Variable atoms : list patom.
  Hypothesis W : graph_wf atoms.

  Lemma wf_nbrs_15 a : In a atoms -> (length (pa_nbrs a) <= 15)%nat.
  Proof.
    intros Ha. destruct (graph_wf_num a atoms W Ha) as [_ Hok]. unfold atom_ok in Hok. split_andb.
    apply Nat.leb_le. assumption.
  Qed.

  Lemma wf_atoms_count : (length atoms <= 4095)%nat.
  Proof.
    rewrite <- (map_length pa_n). apply numbers_pigeonhole; [apply (gw_nodup _ W)|].
    intros x Hx. apply in_map_iff in Hx. destruct Hx as [a [Hn Ha]]. subst x. apply (graph_wf_num a atoms W Ha).
  Qed.

  Lemma wf_conns_bound : Z.of_nat (length (mol_conns atoms)) < 65536.
  Proof. pose proof (mol_conns_length_bound atoms wf_nbrs_15). pose proof wf_atoms_count. lia. Qed.

  Lemma wf_conns_num : Forall num_ok (mol_conns atoms).
  Proof.
    apply Forall_forall. intros x Hx. unfold mol_conns in Hx. apply in_flat_map in Hx. destruct Hx as [a [Ha Hx]].
    apply in_map_iff in Hx. destruct Hx as [e [He Hin]]. subst x.
    pose proof (graph_wf_nbr_num atoms a e W Ha Hin). unfold num_ok. lia.
  Qed.

  Lemma wf_fwd_orders seen : Forall ord_ok (fwd_orders (mol_fwd seen atoms)).
  Proof.
    apply Forall_forall. intros o Ho. unfold fwd_orders in Ho. apply in_map_iff in Ho. destruct Ho as [[n x] [Ho Hin]].
    subst o. destruct (mol_fwd_In _ _ _ _ Hin) as [a [Ha [_ Hx]]]. cbn [snd].
    apply order_ok_code. apply (gw_order _ W a x Ha Hx).
  Qed.

  Lemma wf_conns_even : Nat.Even (length (mol_conns atoms)).
  Proof. exists (length (mol_fwd [] atoms)). apply (conns_twice_fwd atoms W). Qed.
End Limits.

(* the cis/trans records *)
Lemma fwd_ct_spec terminals : forall f,
  (forall nx, In nx f -> is_labelled (snd nx) = true -> terminals_for terminals (fst nx)) ->
  length (fwd_ct terminals f) = length (fwd_labelled f) /\ Forall ct_rec_ok (fwd_ct terminals f).
Proof.
  induction f as [|[n x] f IH]; intros H; [split; [reflexivity | constructor]|].
  destruct (IH (fun nx Hnx => H nx (or_intror Hnx))) as [IH1 IH2].
  unfold fwd_ct, fwd_labelled in *. cbn [flat_map filter fst snd].
  pose proof (H (n, x) (or_introl eq_refl)) as Hx. cbn [fst snd] in Hx. unfold is_labelled in *.
  destruct (nb_st x) as [v|].
  - destruct (Hx eq_refl) as [tn [tm [Hz [H1 H2]]]]. rewrite Hz. cbn [app length]. split; [rewrite IH1; reflexivity|].
    constructor; [split; assumption | exact IH2].
  - cbn [app]. split; assumption.
Qed.

Lemma pack_ok_terminals m : pack_ok m = true ->
  forall a, In a (pm_atoms m) -> existsb is_labelled (pa_nbrs a) = true -> terminals_for (pm_terminals m) (pa_n a).
Proof.
  unfold pack_ok. cbv zeta. intros H a Ha Hl. split_andb.
  match goal with K : forallb (term_ok _) _ = true |- _ => rewrite forallb_forall in K; specialize (K a Ha); unfold term_ok in K;
    rewrite Hl in K end.
  destruct (zget (pm_terminals m) (pa_n a)) as [[tn tm]|] eqn:Ez; [|discriminate].
  unfold terminals_for. rewrite Ez. exists tn, tm. split; [reflexivity|]. unfold num_ok. split_andb. lia.
Qed.

Lemma pack_ok_atom_pre m : pack_ok m = true -> Forall (atom_pre (pm_terminals m)) (pm_atoms m).
Proof.
  intros H. pose proof (pack_ok_graph_wf m H) as W. apply Forall_forall. intros a Ha.
  destruct (graph_wf_num a _ W Ha) as [Hn _]. split; [lia|]. split.
  - apply Forall_forall. intros x Hx. pose proof (graph_wf_nbr_num _ a x W Ha Hx). split; [unfold num_ok; lia|].
    apply order_ok_code. apply (gw_order _ W a x Ha Hx).
  - apply (pack_ok_terminals m H a Ha).
Qed.

Lemma pack_ok_ct m : pack_ok m = true ->
  let f := mol_fwd [] (pm_atoms m) in
  pm_ct_count m = Z.of_nat (length (fwd_ct (pm_terminals m) f)) /\ 0 <= pm_ct_count m < 4096 /\
  Forall ct_rec_ok (fwd_ct (pm_terminals m) f).
Proof.
  intros H f. destruct (fwd_ct_spec (pm_terminals m) f) as [H1 H2].
  - intros [n x] Hin Hl. destruct (mol_fwd_In _ _ _ _ Hin) as [a [Ha [Hn Hx]]]. cbn [fst snd] in *. subst n.
    apply (pack_ok_terminals m H a Ha). apply existsb_exists. exists x. split; assumption.
  - unfold pack_ok in H. cbv zeta in H. split_andb. subst f. rewrite H1. split; [lia|]. split; [lia | exact H2].
Qed.

(* ================================================================================================ *)
(* pack m is the concatenation of the five blocks *)

Definition pack_layout (m : pmol) : list Z :=
  let atoms := pm_atoms m in
  let f := mol_fwd [] atoms in
  header_bytes (Z.of_nat (length atoms)) (pm_ct_count m) ++ atoms_block atoms ++ conn_bytes (mol_conns atoms) ++
  order_bytes (fwd_orders f) ++ flat_map ct_record (fwd_ct (pm_terminals m) f).

(* what unpack must return: the atoms in order with all their fields, every atom's neighbours in order with the bond
   orders, the cis/trans records of the labelled bonds in first-encounter order, and the number of bytes consumed *)
Definition unpack_expected (m : pmol) : unpacked :=
  mkUnpacked (map uatom_of (pm_atoms m)) (map adj_entry (pm_atoms m))
             (fwd_ct (pm_terminals m) (mol_fwd [] (pm_atoms m))) (Z.of_nat (length (pack_layout m))).

Theorem pack_blocks m : pack_ok m = true -> pack m = Ok (pack_layout m).
Proof.
  intros H. pose proof (pack_ok_graph_wf m H) as W. pose proof (wf_atoms_count _ W) as Hc.
  destruct (pack_ok_ct m H) as [_ [Hct _]].
  unfold pack. rewrite (pack_atoms_spec (pm_terminals m) (pm_atoms m) _ (pack_ok_atom_pre m H)).
  cbn [ps_seen ps_conn ps_ord ps_atoms ps_cbytes ps_obytes ps_tbytes app].
  rewrite !u16_small by lia. unfold pack_layout, order_bytes, conn_bytes, order_flush. cbv zeta.
  rewrite <- !app_assoc. reflexivity.
Qed.

Lemma header_bytes_length ac ct : length (header_bytes ac ct) = 4%nat.
Proof. reflexivity. Qed.

(* sizes of the blocks *)
Lemma pack_layout_length m : pack_ok m = true ->
  let k := Z.of_nat (length (mol_fwd [] (pm_atoms m))) in
  Z.of_nat (length (pack_layout m)) =
  order_block_size k + (4 + 9 * Z.of_nat (length (pm_atoms m)) + 3 * k) + 4 * pm_ct_count m.
Proof.
  intros H k. pose proof (pack_ok_graph_wf m H) as W.
  destruct (pack_ok_ct m H) as [Hct _].
  unfold pack_layout. cbv zeta. rewrite !app_length, header_bytes_length, !Nat2Z.inj_add.
  rewrite atoms_block_length by (unfold pack_ok in H; cbv zeta in H; split_andb; assumption).
  destruct (conn_roundtrip (mol_conns (pm_atoms m)) [] [] (wf_conns_num _ W) (wf_conns_even _ W)) as [_ Hcl].
  rewrite Hcl. rewrite (conns_twice_fwd _ W).
  rewrite order_bytes_length by (apply (wf_fwd_orders _ W)).
  rewrite ct_block_length, <- Hct. unfold fwd_orders. rewrite map_length. fold k.
  replace (Z.of_nat (2 * length (mol_fwd [] (pm_atoms m))) / 2) with k by (subst k; rewrite Nat2Z.inj_mul, Z.mul_comm, Z.div_mul; lia).
  change (Z.of_nat 4) with 4. lia.
Qed.

(* ================================================================================================ *)
(* unpack of the block layout (followed by anything: packs are concatenated in reaction packs) *)

Lemma nat_div2_double n : Nat.div2 (2 * n) = n.
Proof. induction n as [|n IH]; [reflexivity|]. replace (2 * S n)%nat with (S (S (2 * n))) by lia. cbn [Nat.div2]. rewrite IH. reflexivity. Qed.

Theorem unpack_layout m suf : pack_ok m = true -> unpack (pack_layout m ++ suf) = Ok (unpack_expected m).
Proof.
  intros H. pose proof (pack_ok_graph_wf m H) as W.
  pose proof (wf_atoms_count _ W) as Hcnt.
  destruct (pack_ok_ct m H) as [Hct [Hctr Hrecs]]. cbv zeta in Hct, Hrecs.
  pose proof (pack_layout_length m H) as Hlen. cbv zeta in Hlen.
  assert (Hatoms : forallb atom_ok (pm_atoms m) = true) by (unfold pack_ok in H; cbv zeta in H; split_andb; assumption).
  set (atoms := pm_atoms m) in *. set (f := mol_fwd [] atoms) in *. set (k := Z.of_nat (length f)) in *.
  set (ac := Z.of_nat (length atoms)) in *.
  assert (Hconns : length (mol_conns atoms) = (2 * length f)%nat) by apply (conns_twice_fwd _ W).
  destruct (header_roundtrip ac (pm_ct_count m)) as [a [b [c [Hh [Hac [Hctc _]]]]]]; [unfold num_ok; lia | unfold num_ok; lia|].
  unfold unpack_expected. fold atoms f. rewrite Hlen.
  unfold pack_layout. cbv zeta. fold atoms f ac. rewrite Hh.
  set (A := atoms_block atoms). set (C := conn_bytes (mol_conns atoms)). set (O := order_bytes (fwd_orders f)).
  set (T := flat_map ct_record (fwd_ct (pm_terminals m) f)). set (hdr := [2; a; b; c]).
  assert (LA : Z.of_nat (length A) = 9 * ac) by (apply atoms_block_length; exact Hatoms).
  destruct (conn_roundtrip (mol_conns atoms) (hdr ++ A) (O ++ T ++ suf) (wf_conns_num _ W) (wf_conns_even _ W)) as [RC LC].
  fold C in RC, LC. rewrite Hconns in LC, RC. rewrite nat_div2_double in RC.
  replace (Z.of_nat (2 * length f) / 2) with k in LC by (subst k; rewrite Nat2Z.inj_mul, Z.mul_comm, Z.div_mul; lia).
  assert (LO : Z.of_nat (length O) = order_block_size k).
  { unfold O. rewrite order_bytes_length by (apply (wf_fwd_orders _ W)). unfold fwd_orders. rewrite map_length. reflexivity. }
  assert (Hdata : (hdr ++ A ++ C ++ O ++ T) ++ suf = hdr ++ A ++ C ++ O ++ T ++ suf) by (rewrite <- !app_assoc; reflexivity).
  rewrite Hdata. clear Hdata.
  apply (unpack_v2_eq _ a b c (map uatom_of atoms) ac (pm_ct_count m) k); try reflexivity; try assumption.
  - (* atoms *)
    unfold ac. rewrite Nat2Z.id. apply (read_atoms_roundtrip atoms hdr (C ++ O ++ T ++ suf) Hatoms).
  - (* bonds count *)
    rewrite ngb_sum_unpack; [| lia | pose proof (wf_conns_bound _ W); lia].
    pose proof (wf_conns_bound _ W). rewrite u16_small by lia. rewrite Z.add_0_l, Hconns.
    subst k. rewrite Nat2Z.inj_mul, Z.mul_comm, Z.div_mul; lia.
  - (* adjacency *)
    rewrite (adj0_fold atoms []) by (cbn [map app]; apply (gw_nodup _ W)). cbn [app].
    destruct (k =? 0) eqn:Ek.
    + apply Z.eqb_eq in Ek. f_equal. symmetry. apply mol_conns_nil_adj. apply length_zero_iff_nil. lia.
    + replace (4 + 9 * ac) with (Z.of_nat (length (hdr ++ A))) by (rewrite app_length, Nat2Z.inj_add, LA; reflexivity).
      replace (hdr ++ A ++ C ++ O ++ T ++ suf) with ((hdr ++ A) ++ C ++ O ++ T ++ suf) by (rewrite <- app_assoc; reflexivity).
      unfold k at 1. rewrite Nat2Z.id, RC.
      replace (Z.of_nat (length (hdr ++ A)) + 3 * k) with (Z.of_nat (length ((hdr ++ A) ++ C)) + 0)
        by (rewrite (app_length (hdr ++ A) C), Nat2Z.inj_add, LC; lia).
      replace ((hdr ++ A) ++ C ++ O ++ T ++ suf) with (((hdr ++ A) ++ C) ++ O ++ T ++ suf) by (rewrite <- (app_assoc (hdr ++ A)); reflexivity).
      rewrite slice_shift by lia. rewrite <- LO, Nat2Z.id, slice_prefix.
      destruct (order_roundtrip_junk (fwd_orders f) (wf_fwd_orders _ W [])) as [junk Hj]. fold O in Hj. rewrite Hj.
      pose proof (build_adj_spec atoms W atoms [] [] junk eq_refl) as B. cbn [map rev app] in B. rewrite app_nil_r in B.
      exact B.
  - (* cis/trans block *)
    replace (order_block_size k + (4 + 9 * ac + 3 * k)) with (Z.of_nat (length (hdr ++ A ++ C ++ O)))
      by (rewrite !app_length, !Nat2Z.inj_add, LA, LC, LO; change (Z.of_nat (length hdr)) with 4; lia).
    replace (hdr ++ A ++ C ++ O ++ T ++ suf) with ((hdr ++ A ++ C ++ O) ++ T ++ suf) by (rewrite <- !app_assoc; reflexivity).
    rewrite Hct, Nat2Z.id. apply read_ct_roundtrip. exact Hrecs.
Qed.

(* ROUND TRIP, molecule level: for every molecule within the format limits pack succeeds and unpack of the produced
   bytes (followed by any other bytes) returns the atoms in order with all fields, the neighbour tables in order with
   the bond orders, the cis/trans records, and the number of bytes pack produced *)
Theorem unpack_pack m suf : pack_ok m = true ->
  exists bytes, pack m = Ok bytes /\
    unpack (bytes ++ suf) = Ok (unpacked_of m (Z.of_nat (length bytes))).
Proof.
  intros H. exists (pack_layout m). split; [apply pack_blocks; exact H|]. apply (unpack_layout m suf H).
Qed.

(* pack_size (the size pack computes before allocating) is the length of what it writes *)
Lemma pack_size_layout m : pack_ok m = true -> pack_size m = Z.of_nat (length (pack_layout m)).
Proof.
  intros H. pose proof (pack_ok_graph_wf m H) as W. pose proof (wf_atoms_count _ W) as Hcnt.
  pose proof (wf_conns_bound _ W) as Hb. destruct (pack_ok_ct m H) as [_ [Hctr _]].
  rewrite (pack_layout_length m H). cbv zeta. unfold pack_size, bonds_count. cbv zeta.
  rewrite ngb_sum_pack by lia. rewrite !u16_small by lia. rewrite Z.add_0_l, (conns_twice_fwd _ W).
  replace (Z.of_nat (2 * length (mol_fwd [] (pm_atoms m))) / 2) with (Z.of_nat (length (mol_fwd [] (pm_atoms m))))
    by (rewrite Nat2Z.inj_mul, Z.mul_comm, Z.div_mul; lia).
  lia.
Qed.

(* MoleculeContainer.pack_len reads the atom count back *)
Lemma mol_pack_len_layout m suf : pack_ok m = true ->
  mol_pack_len (pack_layout m ++ suf) = Ok (Z.of_nat (length (pm_atoms m))).
Proof.
  intros H. pose proof (pack_ok_graph_wf m H) as W. pose proof (wf_atoms_count _ W) as Hcnt.
  destruct (pack_ok_ct m H) as [_ [Hctr _]].
  destruct (header_roundtrip (Z.of_nat (length (pm_atoms m))) (pm_ct_count m)) as [a [b [c [Hh [_ [_ [Hs _]]]]]]];
    [unfold num_ok; lia | unfold num_ok; lia|].
  unfold pack_layout. cbv zeta. rewrite Hh. unfold mol_pack_len.
  change (getb (([2; a; b; c] ++ _) ++ suf) 0) with (Some 2).
  change (getb (([2; a; b; c] ++ _) ++ suf) 1) with (Some a).
  change (getb (([2; a; b; c] ++ _) ++ suf) 2) with (Some b).
  cbn [Z.eqb orb negb]. rewrite Hs. reflexivity.
Qed.

Theorem pack_size_correct m bytes : pack_ok m = true -> pack m = Ok bytes -> pack_size m = Z.of_nat (length bytes).
Proof. intros H E. rewrite (pack_blocks m H) in E. injection E as E. subst bytes. exact (pack_size_layout m H). Qed.

Theorem mol_pack_len_correct m bytes suf : pack_ok m = true -> pack m = Ok bytes ->
  mol_pack_len (bytes ++ suf) = Ok (Z.of_nat (length (pm_atoms m))).
Proof. intros H E. rewrite (pack_blocks m H) in E. injection E as E. subst bytes. exact (mol_pack_len_layout m suf H). Qed.

(* non-vacuity: a molecule at the format limits satisfies pack_ok, and the theorem instantiated on it *)
Lemma pack_example_ok :
  pack_ok pack_example = true /\
  (exists a, In a (pm_atoms pack_example) /\ pa_n a = 4095 /\ length (pa_nbrs a) = 15%nat /\ pa_stereo a = Some true /\
             pa_iso a = Some 238 /\ pa_chg a = -4 /\ pa_h a = None) /\
  length (pm_atoms pack_example) = 16%nat /\ length (mol_fwd [] (pm_atoms pack_example)) = 19%nat /\
  fwd_ct (pm_terminals pack_example) (mol_fwd [] (pm_atoms pack_example)) = [(3, 4, true)].
Proof.
  split; [vm_compute; reflexivity|]. split.
  - eexists. split; [left; reflexivity|]. vm_compute. repeat split; reflexivity.
  - vm_compute. repeat split; reflexivity.
Qed.
