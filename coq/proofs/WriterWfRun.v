(* C02, writer_wellformed for the whole run of Smiles._smiles: the components partition the molecule.  Every atom of a
   well-formed molecule is written exactly once (the written order is a permutation of the atom numbers), and each
   component's token list satisfies component_wf (WriterWfFinal) for the atoms that were still unwritten. *)
From Coq Require Import ZArith List Bool Lia Permutation.
From Model Require Import PyBase Graph Stereo Writer.
From Proofs Require Import WriterProofsClosures WriterWfAtoms WriterWfStream WriterWfDfs WriterWfEvents WriterWfTree
                           WriterWfComplete WriterWfFlatten2 WriterWfDistinct WriterWfFinal.
Import ListNotations.
Open Scope Z_scope.

Lemma emit_order o fat fa tokens casted : forall smi vb out ord vb',
  emit o fat fa smi tokens casted vb = Ok (out, ord, vb') -> ord = atoms_of smi.
Proof.
  induction smi as [|t smi IH]; intros vb out ord vb' H; cbn [emit atoms_of] in *.
  - inversion H. reflexivity.
  - destruct t as [n| | |n m].
    + destruct (fat n); [|discriminate]. destruct (emit_closures o fa n (zgetl tokens n) casted vb) as [[cls vb1]|]; [|discriminate].
      destruct (emit o fat fa smi tokens casted vb1) as [[[out1 ord1] vb2]|] eqn:E; [|discriminate]. inversion H. subst.
      rewrite (IH _ _ _ _ E). reflexivity.
    + destruct (emit o fat fa smi tokens casted vb) as [[[out1 ord1] vb2]|] eqn:E; [|discriminate]. inversion H. subst. apply (IH _ _ _ _ E).
    + destruct (emit o fat fa smi tokens casted vb) as [[[out1 ord1] vb2]|] eqn:E; [|discriminate]. inversion H. subst. apply (IH _ _ _ _ E).
    + destruct (fa n m); [|discriminate]. destruct (emit o fat fa smi tokens casted vb) as [[[out1 ord1] vb2]|] eqn:E; [|discriminate].
      inversion H. subst. apply (IH _ _ _ _ E).
Qed.

Lemma zhas_zupd {V} (d : list (Z * V)) k f x : zhas (zupd d k f) x = zhas d x.
Proof.
  unfold zhas. induction d as [|[a v] d IH]; cbn [zupd zget]; [reflexivity|].
  destruct (k =? a); cbn [zget]; destruct (x =? a); try reflexivity; exact IH.
Qed.

Lemma order_neighbours_vis casted edges : forall smi tokens visited tokens' visited',
  order_neighbours smi casted edges tokens visited = (tokens', visited') -> forall x, zhas visited' x = zhas visited x.
Proof.
  induction smi as [|t smi IH]; intros tokens visited tokens' visited' H x; cbn [order_neighbours] in H.
  - inversion H. reflexivity.
  - destruct t as [a| | |a b]; try (apply (IH _ _ _ _ H x)).
    destruct (zget tokens a) as [l|]; destruct (zget edges a) as [ch|]; rewrite (IH _ _ _ _ H x); rewrite ?zhas_zupd; reflexivity.
Qed.

Lemma wf_mol_ids g : wf_mol g = true -> NoDup (ids g) /\ (forall n m, In n (ids g) -> In m (nbr_ids g n) -> In m (ids g)).
Proof.
  unfold wf_mol. intros H. apply andb_true_iff in H. destruct H as [H H3]. apply andb_true_iff in H. destruct H as [_ H2].
  split; [apply nodup_z_NoDup; exact H2|]. rewrite forallb_forall in H3.
  intros n m _ Hm. unfold nbr_ids, nbrs in Hm. destruct (zget (m_adj g) n) as [l|] eqn:El; [|destruct Hm].
  specialize (H3 (n, l) (zget_In _ _ _ El)). cbn [fst snd] in H3. apply andb_true_iff in H3. destruct H3 as [_ H3].
  rewrite forallb_forall in H3. unfold keys in Hm. apply in_map_iff in Hm. destruct Hm as [[m' b] [Em Hmb]]. cbn in Em. subst m'.
  specialize (H3 (m, b) Hmb). cbn [fst snd] in H3. apply andb_true_iff in H3. destruct H3 as [H3 _].
  apply andb_true_iff in H3. destruct H3 as [_ H3]. apply zmem_In. exact H3.
Qed.

Lemma filter_split {A} (f : A -> bool) : forall l, Permutation l (filter (fun x => negb (f x)) l ++ filter f l).
Proof.
  induction l as [|x l IH]; [apply Permutation_refl|]. cbn [filter]. destruct (f x); cbn [negb app].
  - apply Permutation_cons_app. exact IH.
  - apply perm_skip. exact IH.
Qed.

Section Run.
  Variable g : mol.
  Variable w tb : Z -> Z.
  Variable o : opts.
  Variable tabs : stabs.
  Hypothesis Hwf : wf_mol g = true.

  Record RI (st : wstate) : Prop := mkRI {
    ri_nodup : NoDup (ws_atoms st);
    ri_closed : forall n m, In n (ws_atoms st) -> In m (nbr_ids g n) -> In m (ws_atoms st);
    ri_perm : Permutation (ws_atoms st ++ ws_order st) (ids g)
  }.

  (* one component: the traversal, its token list, what it leaves *)
  Theorem component_run : forall st st', RI st -> component g w tb o tabs (ids g) st = Ok st' ->
    RI st' /\ exists t smi, traverse g w tb o (ids g) st = Ok t /\ flatten g t = Ok smi /\
                            component_wf g (ws_atoms st) t smi /\
                            ws_order st' = ws_order st ++ atoms_of smi /\
                            Permutation (ws_atoms st) (ws_atoms st' ++ atoms_of smi).
  Proof.
    intros st st' [Rn Rc Rp] H. unfold component in H.
    destruct (traverse g w tb o (ids g) st) as [t|] eqn:Et; [|discriminate].
    destruct (flatten g t) as [smi|] eqn:Ef; [|discriminate].
    pose proof (writer_wellformed g w tb o (ids g) st t smi Hwf Rc Et Ef) as CW.
    set (d := tr_dfs t) in *.
    destruct (number_atoms (ds_tokens d) _ _ (ws_casted st) (ws_heap st)) as [[casted heap]|]; [|discriminate].
    destruct (order_neighbours smi casted (ds_edges d) (ds_tokens d) (ds_visited d)) as [tokens' visited'] eqn:Eo.
    destruct (emit _ _ _ _ _ _ _) as [[[out ord] vb]|] eqn:Ee; [|discriminate].
    inversion H. subst st'. clear H. cbn [ws_atoms ws_order].
    pose proof (emit_order _ _ _ _ _ _ _ _ _ _ Ee) as Hord. subst ord.
    set (V := atoms_of smi) in *.
    set (rest := filter (fun n => negb (zhas visited' n)) (ws_atoms st)).
    assert (Hvis' : forall x, zhas visited' x = true <-> In x V).
    { intros x. rewrite (order_neighbours_vis _ _ _ _ _ _ _ Eo x). symmetry. apply (cw_vis _ _ _ _ CW x). }
    assert (HV : Permutation (filter (fun n => zhas visited' n) (ws_atoms st)) V).
    { apply NoDup_Permutation; [apply NoDup_filter; exact Rn | apply (cw_nodup _ _ _ _ CW)|].
      intros x. rewrite filter_In. split; [intros [_ Hx]; apply Hvis'; exact Hx | intros Hx; split; [apply (cw_in _ _ _ _ CW x Hx) | apply Hvis'; exact Hx]]. }
    assert (Hsplit : Permutation (ws_atoms st) (rest ++ V)).
    { eapply Permutation_trans; [apply (filter_split (fun n => zhas visited' n))|]. apply Permutation_app_head. exact HV. }
    split.
    - constructor; cbn [ws_atoms ws_order].
      + apply NoDup_filter. exact Rn.
      + intros n m Hn Hm. unfold rest in Hn |- *. apply filter_In in Hn. destruct Hn as [Hn1 Hn2]. apply filter_In. split; [apply (Rc n m Hn1 Hm)|].
        apply negb_true_iff. apply not_true_iff_false. intros Hx. apply Hvis' in Hx.
        destruct (wf_mol_graph g Hwf) as [_ Hsym].
        assert (In n V) by (apply (cw_closed _ _ _ _ CW m n Hx); apply Hsym; exact Hm).
        apply negb_true_iff in Hn2. apply not_true_iff_false in Hn2. apply Hn2. apply Hvis'. assumption.
      + eapply Permutation_trans; [|exact Rp].
        apply Permutation_trans with ((rest ++ V) ++ ws_order st).
        * rewrite <- app_assoc. apply Permutation_app_head. apply Permutation_app_comm.
        * apply Permutation_app_tail. apply Permutation_sym. exact Hsplit.
    - exists t, smi. split; [reflexivity|]. split; [exact Ef|]. split; [exact CW|]. split; [reflexivity | exact Hsplit].
  Qed.

  Lemma components_RI : forall fuel st st', RI st -> components g w tb o tabs fuel (ids g) st = Ok st' -> RI st' /\ ws_atoms st' = [].
  Proof.
    induction fuel as [|fuel IH]; intros st st' R H; cbn [components] in H; [discriminate|].
    destruct (component g w tb o tabs (ids g) st) as [st1|] eqn:Ec; [|discriminate].
    destruct (component_run st st1 R Ec) as [R1 _].
    destruct (ws_atoms st1) eqn:Ea; [inversion H; subst; split; [exact R1 | exact Ea] | apply (IH st1 st' R1 H)].
  Qed.

  (* every atom of the molecule is written exactly once *)
  Theorem writer_order_permutation : forall out order, smiles_tokens g w tb o tabs = Ok (Some (out, order)) ->
    Permutation order (ids g).
  Proof.
    intros out order H. unfold smiles_tokens in H. destruct (ids g) eqn:Ei; [discriminate|]. rewrite <- Ei in *.
    destruct (components g w tb o tabs (S (n_atoms g)) (ids g) (init_state g)) as [st|] eqn:Ec; [|discriminate].
    inversion H. subst.
    assert (R0 : RI (init_state g)).
    { destruct (wf_mol_ids g Hwf) as [A B]. constructor; cbn [ws_atoms ws_order init_state]; [exact A | exact B | rewrite app_nil_r; apply Permutation_refl]. }
    destruct (components_RI _ _ _ R0 Ec) as [[_ _ Rp] Ha]. rewrite Ha in Rp. exact Rp.
  Qed.
End Run.
