(* C01: `==` and `hash` of two descriptions of one structure whose classes become discrete through the stereo refinement, with the
   weights computed by the chiral-Morgan model on each side: corollary of ChiralReinsertBool.canonical_string_two_descriptions. *)
From Coq Require Import ZArith List Bool Permutation String.
From Model Require Import PyBase PyHash Graph Morgan Stereo Writer ChiralMorgan.
From Proofs Require Import MorganProofs WriterInvProofs StereoOrderExt SameStereo EqHashExt ChiralMorganProofs ChiralOrderExt ChiralReinsertExt ChiralReinsertBool.
Import ListNotations.
Open Scope Z_scope.

Theorem canonical_eq_hash_two_descriptions (h : list Z -> Z) (str_hash : string -> Z) (ring ring' : Z -> bool) (g g1 : mol) (s tb tb' : Z -> Z) (o : opts)
  (tabs tabs' : stabs) (ctabs ctabs1 : cmtabs) (flipc : Z * Z -> bool) (flipw : Z -> Z -> bool) (ao ao1 W : labels) (tr : list labels)
  (ord ord1 : cmorders) :
  mol_perm (strip g) (strip g1) -> wf_mol g1 = true -> wf_mol (strip (ren_mol s g1)) = true ->
  (forall x y, s x = s y -> x = y) -> s 0 = 0 -> (forall n, In n (ids g1) -> ring' (s n) = ring n) -> o_mapping o = false ->
  mol_perm (ren_mol s (strip g)) (strip (ren_mol s g1)) ->
  same_atom_stereo g (ren_mol s g1) s tabs tabs' -> same_ct_stereo g (ren_mol s g1) s tabs tabs' flipw ->
  atoms_order h ring g = Ok ao -> atoms_order h ring g1 = Ok ao1 ->
  two_desc_b h g g1 ctabs ctabs1 flipc ao ao1 ord ord1 = true ->
  chiral_morgan h g ctabs ao ord = Ok (W, tr) -> NoDup (keys W) -> inj_on (ids g) (lbl W) ->
  exists W' tr',
    atoms_order h ring' (ren_mol s g1) = Ok (ren_labels s ao1) /\
    chiral_morgan h (ren_mol s g1) (ren_cmtabs s ctabs1) (ren_labels s ao1) (ren_cmorders s ord1) = Ok (W', tr') /\
    let d := mkDesc g (lbl W) tb tabs in let d' := mkDesc (ren_mol s g1) (lbl W') tb' tabs' in
    mol_eq (canon_of o) d' d = true /\ mol_eq (canon_of o) d d' = true /\ mol_hash (canon_of o) str_hash d' = mol_hash (canon_of o) str_hash d.
Proof.
  intros Hp Hwf1 Hwf' Hs H0 Hr Hmp Hp' Hat Hct Hao Hao1 Hb Hcm HndW Hinj.
  destruct (canonical_string_two_descriptions h ring ring' g g1 s tb tb' o tabs tabs' ctabs ctabs1 flipc flipw ao ao1 W tr ord ord1
              Hp Hwf1 Hwf' Hs H0 Hr Hmp Hp' Hat Hct Hao Hao1 Hb Hcm HndW Hinj) as (W1 & tr1 & _ & _ & EA & EB & ES).
  exists (ren_labels s W1), (map (ren_labels s) tr1). split; [exact EA|]. split; [exact EB|]. intros d d'.
  assert (canon_of o d' = canon_of o d) as E by (apply (canon_of_map_order o d d' s); exact ES).
  unfold mol_eq, mol_hash. rewrite E. repeat split; apply String.eqb_refl.
Qed.

From Proofs Require Import MolPermDecide.
(* every hypothesis a computation: what the check evaluates on real rebuilt molecules is exactly the hypothesis of the theorem *)
Theorem chiral_morgan_two_descriptions_dec (h : list Z -> Z) (g g1 : mol) (tabs tabs1 : cmtabs) (flipc : Z * Z -> bool) (ao ao1 : labels) (ord ord1 : cmorders) :
  mol_perm_b (strip g) (strip g1) = true -> two_desc_b h g g1 tabs tabs1 flipc ao ao1 ord ord1 = true ->
  cmres_perm (chiral_morgan h g tabs ao ord) (chiral_morgan h g1 tabs1 ao1 ord1).
Proof. intros Hp. apply chiral_morgan_two_descriptions_b. apply mol_perm_b_sound. exact Hp. Qed.

(* the weight of every atom is the same in the two descriptions *)
Corollary chiral_weights_two_descriptions (h : list Z -> Z) (g g1 : mol) (tabs tabs1 : cmtabs) (flipc : Z * Z -> bool) (ao ao1 W W1 : labels)
  (tr tr1 : list labels) (ord ord1 : cmorders) :
  mol_perm_b (strip g) (strip g1) = true -> two_desc_b h g g1 tabs tabs1 flipc ao ao1 ord ord1 = true ->
  chiral_morgan h g tabs ao ord = Ok (W, tr) -> chiral_morgan h g1 tabs1 ao1 ord1 = Ok (W1, tr1) -> NoDup (keys W) ->
  forall n, lbl W1 n = lbl W n.
Proof.
  intros Hp Hb E E1 Hn n. pose proof (chiral_morgan_two_descriptions_dec h g g1 tabs tabs1 flipc ao ao1 ord ord1 Hp Hb) as H.
  rewrite E, E1 in H. destruct H as [HW _]. symmetry. apply lbl_perm; assumption.
Qed.
