(* C14 -- standardize_charges, whole call: if at the moment of every accepted match the charges are what the pattern says
   (charges_pre, executable, evaluated on every recorded run by the correspondence), the heterocycle part conserves the NET CHARGE,
   for every molecule with distinct atom numbers, every matcher output and every canonical order. *)
From Coq Require Import ZArith List String Bool Lia.
From Model Require Import PyBase Graph Standardize StandardizeChargesBase StandardizeCharges StandardizeChargesPre.
From Gen Require Import StdRules.
From Proofs Require Import StandardizeProofs StandardizeChargesProofs.
Import ListNotations.
Open Scope Z_scope.

Lemma ids_set_charge g n c : ids (set_charge g n c) = ids g.
Proof. unfold set_charge. apply ids_upd_atom. Qed.

Lemma charge_is_atom g n c : charge_is g n c = true -> exists a, atom_of g n = Some a /\ a_chg a = c.
Proof. unfold charge_is. destruct (atom_of g n) as [a|]; [|discriminate]. intros H. apply Z.eqb_eq in H. exists a. split; [reflexivity|exact H]. Qed.

Lemma total_set_charge g n c a : NoDup (ids g) -> atom_of g n = Some a -> total_charge (set_charge g n c) = total_charge g - a_chg a + c.
Proof. intros Hnd Ha. unfold set_charge. rewrite (total_upd_atom g n (set_chg c) a Hnd Ha). reflexivity. Qed.

Lemma atom_of_set_charge_other g n c k : k <> n -> atom_of (set_charge g n c) k = atom_of g k.
Proof. intros H. unfold set_charge. rewrite atom_of_upd_atom. destruct (k =? n) eqn:E; [apply Z.eqb_eq in E; contradiction|reflexivity]. Qed.

(* what a state carries through the loops *)
Definition wf (st : cstate) : Prop := NoDup (ids (cs_mol st)).
Definition pending (st : cstate) : Z := Z.of_nat (List.length (cs_pairs st)).

(* ---- fixed step: net charge and pairs unchanged ---- *)
Lemma fixed_step_net fx mp st st' :
  wf st -> fixed_pre fx mp st = true -> fixed_step fx mp st = Ok st' ->
  wf st' /\ total_charge (cs_mol st') = total_charge (cs_mol st) /\ cs_pairs st' = cs_pairs st.
Proof.
  unfold wf, fixed_pre, fixed_step. intros Hnd Hpre H.
  destruct (accept mp st) as [[st1 o]|e] eqn:Ea; [|discriminate].
  pose proof (accept_mol _ _ _ _ Ea) as Em.
  assert (Ep : cs_pairs st1 = cs_pairs st).
  { unfold accept in Ea. destruct (inter_count _ _ >? 2); [inversion Ea; reflexivity|].
    destruct (zget mp 1); [|discriminate]. destruct (zget mp 2); [|discriminate].
    destruct (not_pyrrole_like _ _); [inversion Ea; reflexivity|]. destruct (not_pyrrole_like _ _); inversion Ea; reflexivity. }
  destruct o as [[a1 a2]|].
  - destruct (if fx then zget mp 3 else Some a1) as [d|]; [|discriminate].
    rewrite !andb_true_iff in Hpre. destruct Hpre as [[Hne Hd] Ha2]. apply negb_true_iff in Hne. apply Z.eqb_neq in Hne.
    destruct (charge_is_atom _ _ _ Hd) as [ad [Ead Hcd]]. destruct (charge_is_atom _ _ _ Ha2) as [au [Eau Hcu]].
    inversion H. cbn [cs_mol cs_pairs]. rewrite Em. repeat split.
    + rewrite !ids_set_charge. exact Hnd.
    + assert (Hnd1 : NoDup (ids (set_charge (cs_mol st) d 0))) by (rewrite ids_set_charge; exact Hnd).
      assert (E2 : atom_of (set_charge (cs_mol st) d 0) a2 = Some au) by (rewrite atom_of_set_charge_other; [exact Eau|congruence]).
      rewrite (total_set_charge _ a2 1 au Hnd1 E2). rewrite (total_set_charge _ d 0 ad Hnd Ead). lia.
    + exact Ep.
  - inversion H. subst st'. rewrite Em. repeat split; assumption.
Qed.

(* ---- morgan step: an accepted match takes one unit away and records one pair ---- *)
Lemma morgan_step_net fx mp st st' :
  wf st -> morgan_pre fx mp st = true -> morgan_step fx mp st = Ok st' ->
  wf st' /\ total_charge (cs_mol st') + pending st' = total_charge (cs_mol st) + pending st.
Proof.
  unfold wf, morgan_pre, morgan_step, pending. intros Hnd Hpre H.
  destruct (accept mp st) as [[st1 o]|e] eqn:Ea; [|discriminate].
  pose proof (accept_mol _ _ _ _ Ea) as Em.
  assert (Ep : cs_pairs st1 = cs_pairs st).
  { unfold accept in Ea. destruct (inter_count _ _ >? 2); [inversion Ea; reflexivity|].
    destruct (zget mp 1); [|discriminate]. destruct (zget mp 2); [|discriminate].
    destruct (not_pyrrole_like _ _); [inversion Ea; reflexivity|]. destruct (not_pyrrole_like _ _); inversion Ea; reflexivity. }
  destruct o as [[a1 a2]|].
  - destruct fx.
    + destruct (zget mp 3) as [a3|]; [|discriminate]. destruct (charge_is_atom _ _ _ Hpre) as [ad [Ead Hcd]].
      inversion H. cbn [cs_mol cs_pairs]. rewrite Em, Ep. split; [rewrite ids_set_charge; exact Hnd|].
      rewrite (total_set_charge _ a3 0 ad Hnd Ead). rewrite app_length. cbn [List.length]. lia.
    + destruct (charge_is_atom _ _ _ Hpre) as [ad [Ead Hcd]].
      inversion H. cbn [cs_mol cs_pairs]. rewrite Em, Ep. split; [rewrite ids_set_charge; exact Hnd|].
      rewrite (total_set_charge _ a1 0 ad Hnd Ead). rewrite app_length. cbn [List.length]. lia.
  - inversion H. subst st'. rewrite Em, Ep. split; [exact Hnd|reflexivity].
Qed.

(* ---- assignment: one unit comes back ---- *)
Lemma assign_net order p st st' :
  wf st -> assign_pre order p st = true -> morgan_assign order p st = Ok st' ->
  wf st' /\ total_charge (cs_mol st') = total_charge (cs_mol st) + 1 /\ cs_pairs st' = cs_pairs st.
Proof.
  unfold wf, assign_pre, morgan_assign. destruct p as [[a1 a2] fx]. intros Hnd Hpre H.
  destruct (order a1 >? order a2); destruct (charge_is_atom _ _ _ Hpre) as [a [Ea Hc]]; inversion H; cbn [cs_mol cs_pairs];
    (repeat split; [rewrite ids_set_charge; exact Hnd | rewrite (total_set_charge _ _ 1 a Hnd Ea); lia]).
Qed.

(* ---- the loops ---- *)
Lemma steps_fixed_net fx ms : forall st st',
  wf st -> steps_pre (fixed_pre fx) (fixed_step fx) ms st = true -> run_steps (fixed_step fx) ms st = Ok st' ->
  wf st' /\ total_charge (cs_mol st') = total_charge (cs_mol st) /\ cs_pairs st' = cs_pairs st.
Proof.
  induction ms as [|mp ms IH]; intros st st' W P R; cbn in *.
  - inversion R. subst. repeat split; assumption.
  - apply andb_true_iff in P. destruct P as [P1 P2]. destruct (fixed_step fx mp st) as [st1|e] eqn:E; [|discriminate].
    destruct (fixed_step_net fx mp st st1 W P1 E) as [W1 [T1 Q1]]. destruct (IH st1 st' W1 P2 R) as [W2 [T2 Q2]].
    repeat split; [exact W2|congruence|congruence].
Qed.

Lemma table_fixed_net table : forall y st st',
  wf st -> table_pre fixed_pre fixed_step table y st = true -> run_table fixed_step table y st = Ok st' ->
  wf st' /\ total_charge (cs_mol st') = total_charge (cs_mol st) /\ cs_pairs st' = cs_pairs st.
Proof.
  induction table as [|c table IH]; intros y st st' W P R; cbn in *.
  - inversion R. subst. repeat split; assumption.
  - destruct y as [|ms y]; [inversion R; subst; repeat split; assumption|].
    apply andb_true_iff in P. destruct P as [P1 P2]. destruct (run_steps (fixed_step (c_fix c)) ms st) as [st1|e] eqn:E; [|discriminate].
    destruct (steps_fixed_net _ ms st st1 W P1 E) as [W1 [T1 Q1]]. destruct (IH y st1 st' W1 P2 R) as [W2 [T2 Q2]].
    repeat split; [exact W2|congruence|congruence].
Qed.

Lemma steps_morgan_net fx ms : forall st st',
  wf st -> steps_pre (morgan_pre fx) (morgan_step fx) ms st = true -> run_steps (morgan_step fx) ms st = Ok st' ->
  wf st' /\ total_charge (cs_mol st') + pending st' = total_charge (cs_mol st) + pending st.
Proof.
  induction ms as [|mp ms IH]; intros st st' W P R; cbn in *.
  - inversion R. subst. split; [assumption|reflexivity].
  - apply andb_true_iff in P. destruct P as [P1 P2]. destruct (morgan_step fx mp st) as [st1|e] eqn:E; [|discriminate].
    destruct (morgan_step_net fx mp st st1 W P1 E) as [W1 T1]. destruct (IH st1 st' W1 P2 R) as [W2 T2]. split; [exact W2|lia].
Qed.

Lemma table_morgan_net table : forall y st st',
  wf st -> table_pre morgan_pre morgan_step table y st = true -> run_table morgan_step table y st = Ok st' ->
  wf st' /\ total_charge (cs_mol st') + pending st' = total_charge (cs_mol st) + pending st.
Proof.
  induction table as [|c table IH]; intros y st st' W P R; cbn in *.
  - inversion R. subst. split; [assumption|reflexivity].
  - destruct y as [|ms y]; [inversion R; subst; split; [assumption|reflexivity]|].
    apply andb_true_iff in P. destruct P as [P1 P2]. destruct (run_steps (morgan_step (c_fix c)) ms st) as [st1|e] eqn:E; [|discriminate].
    destruct (steps_morgan_net _ ms st st1 W P1 E) as [W1 T1]. destruct (IH y st1 st' W1 P2 R) as [W2 T2]. split; [exact W2|lia].
Qed.

Lemma steps_assign_net order ps : forall st st',
  wf st -> steps_pre (assign_pre order) (morgan_assign order) ps st = true -> run_steps (morgan_assign order) ps st = Ok st' ->
  wf st' /\ total_charge (cs_mol st') = total_charge (cs_mol st) + Z.of_nat (List.length ps).
Proof.
  induction ps as [|p ps IH]; intros st st' W P R; cbn [steps_pre run_steps List.length] in *.
  - inversion R. subst. split; [assumption|cbn; lia].
  - apply andb_true_iff in P. destruct P as [P1 P2]. destruct (morgan_assign order p st) as [st1|e] eqn:E; [|discriminate].
    destruct (assign_net order p st st1 W P1 E) as [W1 [T1 _]]. destruct (IH st1 st' W1 P2 R) as [W2 T2]. split; [exact W2|].
    rewrite T2, T1. rewrite Nat2Z.inj_succ. lia.
Qed.

(* for EVERY molecule with distinct atom numbers, EVERY matcher output and canonical order: when the charges are what the patterns say at
   the moment of every accepted match (charges_pre), the heterocycle part of standardize_charges conserves atoms, elements, isotopes,
   adjacency AND the net charge *)
Theorem charges_conserved yf ym order g st :
  NoDup (ids g) -> charges_pre yf ym order g = true -> standardize_charges_model yf ym order g = Ok st -> conserved g (cs_mol st).
Proof.
  intros Hnd Hpre H. destruct (charges_conserve_atoms_and_bonds _ _ _ _ _ H) as [S [G _]]. repeat split; try assumption.
  unfold standardize_charges_model, charges_with in H. unfold charges_pre in Hpre.
  apply andb_true_iff in Hpre. destruct Hpre as [P1 Hpre].
  destruct (run_table fixed_step fixed_rules yf _) as [st1|e] eqn:E1; [|discriminate].
  apply andb_true_iff in Hpre. destruct Hpre as [P2 P3].
  destruct (run_table morgan_step morgan_rules ym st1) as [st2|e] eqn:E2; [|discriminate].
  assert (W0 : wf (mkCS g [] [] [])) by exact Hnd.
  destruct (table_fixed_net _ _ _ _ W0 P1 E1) as [W1 [T1 Q1]]. cbn [cs_mol cs_pairs] in T1, Q1.
  destruct (table_morgan_net _ _ _ _ W1 P2 E2) as [W2 T2]. unfold pending in T2. rewrite Q1 in T2. cbn [List.length] in T2.
  destruct (steps_assign_net order _ _ _ W2 P3 H) as [_ T3]. lia.
Qed.

(* non-vacuity: the hypothesis holds on the recorded runs of the examples *)
Theorem charges_conserved_example :
  charges_pre ex_fixed_yf ex_fixed_ym (fun _ => 0) ex_fixed_g = true /\ NoDup (ids ex_fixed_g) /\
  charges_pre [] ex_morgan_ym (ex_order true) ex_morgan_g = true /\ NoDup (ids ex_morgan_g).
Proof.
  repeat split; try (vm_compute; reflexivity).
  - unfold ids, keys. cbn. repeat constructor; cbn; intuition discriminate.
  - unfold ids, keys. cbn. repeat constructor; cbn; intuition discriminate.
Qed.
