(* C09 -- the hand-written model equals what tools/gen_isoclosure.py regenerates from the source on every run:
   the bond word of the structure buffer, the ring-closure entry of the query buffer, the three mask conditions of
   _isomorphism.pyx, the closure-partner condition, the struct formats and the record layouts.  A source edit of any of these
   lines changes coq/gen/IsoClosure.v and breaks the corresponding theorem below. *)
From Coq Require Import ZArith List Bool String Lia.
From Model Require Import PyBase IsoBits.
From Gen Require Import IsoClosure.
Import ListNotations.
Open Scope Z_scope.

Theorem g_enc_bond_is_model b nb1 : g_enc_bond b nb1 = enc_bond b nb1.
Proof.
  unfold g_enc_bond, enc_bond, order_bit.
  destruct (lb_ord b =? 1), (lb_ord b =? 2), (lb_ord b =? 3), (lb_ord b =? 4), (lb_ring b); reflexivity.
Qed.

Lemma g_clo_order_is_model v o : g_clo_order v o = Z.lor v (order_bit o).
Proof.
  unfold g_clo_order, order_bit.
  destruct (o =? 1) eqn:E1; [reflexivity|]. destruct (o =? 4) eqn:E4.
  - apply Z.eqb_eq in E4. subst o. reflexivity.
  - destruct (o =? 2), (o =? 3); reflexivity.
Qed.

Theorem g_enc_closure_is_model qb : g_enc_closure qb = enc_closure qb.
Proof.
  unfold g_enc_closure, enc_closure, qorder_bits, qring_bits.
  assert (F : forall l v, fold_left g_clo_order l v = fold_left (fun acc o => Z.lor acc (order_bit o)) l v).
  { induction l as [|o l IH]; intros v; cbn [fold_left]; [reflexivity|]. rewrite g_clo_order_is_model. apply IH. }
  rewrite F. destruct (qb_ring qb) as [[|]|]; reflexivity.
Qed.

(* the conditions of the .pyx: first atom, neighbour loop, closure break, closure partner *)
Theorem g_first_test_is_model sc m b : g_first_test sc m b = sc && mask_match_first m b.
Proof. unfold g_first_test, mask_match_first. rewrite !andb_assoc. reflexivity. Qed.

Theorem g_next_test_is_model sc mt m bond b : g_next_test sc mt m bond b = sc && negb mt && mask_match_next m bond b.
Proof. unfold g_next_test, mask_match_next. rewrite !andb_assoc. reflexivity. Qed.

Theorem g_closure_break_is_model qv c : closure_ok qv c = negb (g_closure_break qv c).
Proof. unfold g_closure_break, closure_ok. rewrite negb_orb, !negb_involutive. reflexivity. Qed.

(* mask_cand / closures_at test `negb (bt_index j =? base) && zmem (bt_index j) path` for a closure partner *)
Theorem g_counts_as_closure_is_model j n mt : g_counts_as_closure j n mt = negb (j =? n) && mt.
Proof. reflexivity. Qed.

(* record layouts: the packed structs of the .pyx are exactly the struct formats of isomorphism.py, in the field order of the
   model records m_atom_t (bits 1-4, from, to, mapping), q_atom_t (mask 1-4, back, closure, from, to, mapping), bond_t *)
Definition fmt_char (ctype : string) : string :=
  if String.eqb ctype "unsigned long long" then "Q" else if String.eqb ctype "unsigned int" then "I" else "?".
Definition fmt_of (fields : list (string * string)) : string := String.concat "" (map (fun f => fmt_char (fst f)) fields).

Theorem struct_layouts_agree :
  g_header_struct = "I"%string /\
  fmt_of g_pyx_atom_t = g_m_atom_struct /\ fmt_of g_pyx_q_atom_t = g_q_atom_struct /\ fmt_of g_pyx_bond_t = g_bond_struct /\
  map snd g_pyx_atom_t = ["bits1"; "bits2"; "bits3"; "bits4"; "from_"; "to_"; "mapping"]%string /\
  map snd g_pyx_q_atom_t = ["mask1"; "mask2"; "mask3"; "mask4"; "back"; "closure"; "from_"; "to_"; "mapping"]%string /\
  map snd g_pyx_bond_t = ["bond"; "index"]%string.
Proof. vm_compute. repeat split; reflexivity. Qed.
