(* C11: tie by translation, continued: the block `if maps['reagents']: ...` of postprocess_parsed_reaction (agents that share a number with
   reactants / products are renumbered), translated with sets as lists and the comprehension as the prelude's comp_next, IS the model's
   ppr_reagents. *)
From Coq Require Import ZArith List String Ascii Bool Lia.
From Model Require Import PyBase Mdl MdlMap MdlMapRxn.
From Gen Require Import MdlFn.
From Proofs Require Import MdlMapProofs.
Import ListNotations.
Open Scope Z_scope.

Lemma comp_next_renumber tmp core : forall l c, (forall x, In x l -> zmem x tmp = zmem x core) ->
  comp_next (fun x => negb (zmem x tmp)) c l = renumber_shared core c l.
Proof.
  induction l as [|a l IH]; intros c H; [reflexivity|]. cbn [comp_next renumber_shared]. rewrite (H a (or_introl eq_refl)).
  destruct (zmem a core); cbn [negb]; rewrite IH by (intros x Hx; apply H; right; exact Hx); reflexivity.
Qed.
Lemma zmem_filter_core core l x : In x l -> zmem x (filter (fun y => zmem y core) l) = zmem x core.
Proof.
  intros Hx. destruct (zmem x core) eqn:E.
  - apply zmem_In, filter_In. split; [exact Hx | exact E].
  - apply not_true_is_false. intros H. apply zmem_In, filter_In in H. destruct H as [_ H]. congruence.
Qed.
Lemma nonempty_filter_existsb f l : nonempty (filter f l) = existsb f l.
Proof. induction l as [|a l IH]; [reflexivity|]. cbn [filter existsb]. destruct (f a); [reflexivity | exact IH]. Qed.
Lemma existsb_ext' {A} (f g : A -> bool) l : (forall x, f x = g x) -> existsb f l = existsb g l.
Proof. intros H. induction l as [|a l IH]; [reflexivity|]. cbn [existsb]. rewrite H, IH. reflexivity. Qed.
Lemma zmem_app x a b : zmem x (a ++ b) = zmem x a || zmem x b.
Proof. unfold zmem. apply existsb_app. Qed.

Theorem tie_ppr_reagents : forall ig rc pr rg c l, src_ppr_reagents ig rc pr rg c l = ppr_reagents ig rc pr rg c l.
Proof.
  intros ig rc pr rg c l. unfold src_ppr_reagents, ppr_reagents.
  destruct rg as [|x r]; [reflexivity|]. cbn [nonempty]. set (rg := x :: r).
  rewrite nonempty_filter_existsb. rewrite (existsb_ext' _ (fun x => zmem x rc || zmem x pr) rg (fun y => zmem_app y rc pr)).
  destruct (existsb (fun x => zmem x rc || zmem x pr) rg); [| reflexivity].
  destruct ig; cbn [negb]; [| reflexivity].
  rewrite (comp_next_renumber _ (rc ++ pr)) by (intros y Hy; apply zmem_filter_core; exact Hy).
  destruct (renumber_shared (rc ++ pr) c rg). reflexivity.
Qed.
