(* C16 (round 4): TIE BY TRANSLATION.  Gen.ReactorBody.g_get_deleted is the body of BaseReactor._get_deleted translated
   statement by statement from /repo's source on every run (tools/gen_reactorbody.py).  Here it is proved EQUAL, for all
   inputs, to the hand-written Model.Reactor.get_deleted the C16 theorems are about (fuel of the `while` = fuel_walk, which
   proofs/ReactorProofs.v proves sufficient): an edit of the source that changes what the function computes changes the
   generated term and breaks g_get_deleted_is_model by name. *)
From Coq Require Import ZArith List Bool Lia.
From Model Require Import PyBase Graph Reactor.
From Gen Require Import ReactorBody.
From Proofs Require Import ReactorProofs.
Import ListNotations.
Open Scope Z_scope.

Lemma fold_res_ext_in {A S} (f g : S -> A -> pyres S) (l : list A) :
  (forall s a, In a l -> f s a = g s a) -> forall s, fold_res f l s = fold_res g l s.
Proof.
  induction l as [|a r IH]; intros H s; simpl; [reflexivity|].
  rewrite (H s a (or_introl eq_refl)). destruct (g s a); [|reflexivity].
  apply IH. intros; apply H; right; assumption.
Qed.

Lemma res_eta2 {A B} (r : pyres (A * B)) : match r with Err e => Err e | Ok (a, b) => Ok (a, b) end = r.
Proof. destruct r as [[a b]|e]; reflexivity. Qed.

Lemma res_eta3 {A B C} (r : pyres (A * B * C)) : match r with Err e => Err e | Ok (a, b, c) => Ok (a, b, c) end = r.
Proof. destruct r as [[[a b] c]|e]; reflexivity. Qed.

(* the translation keeps the loop variables in the order (seen, stack, attached); the hand model in (stack, seen, attached) *)
Definition swap3 (st : list Z * list Z * bool) : list Z * list Z * bool := let '(stack, seen, att) := st in (seen, stack, att).

(* for m in bonds[...]: if m in remain: ... elif ...  == fold_left visit *)
Lemma inner_for remain del (F : list Z * list Z * bool -> Z -> pyres (list Z * list Z * bool)) :
  (forall seen stack att m, F (seen, stack, att) m = Ok (swap3 (visit remain del (stack, seen, att) m))) ->
  forall nb seen stack att,
    fold_res F nb (seen, stack, att) = Ok (swap3 (fold_left (visit remain del) nb (stack, seen, att))).
Proof.
  intros HF. induction nb as [|m r IH]; intros seen stack att; cbn [fold_res fold_left]; [reflexivity|].
  rewrite HF. destruct (visit remain del (stack, seen, att) m) as [[stack' seen'] att']. cbn [swap3]. apply IH.
Qed.

(* while stack: ...  == walk *)
Lemma while_walk bonds remain del (cond : list Z * list Z * bool -> bool) (B : list Z * list Z * bool -> pyres (list Z * list Z * bool)) :
  (forall seen stack att, cond (seen, stack, att) = py_nonempty stack) ->
  (forall seen stack att,
     B (seen, stack, att) = match stack with
                            | [] => Err IndexError
                            | top :: rest => match zget bonds top with
                                             | None => Err KeyError
                                             | Some nb => Ok (swap3 (fold_left (visit remain del) nb (rest, seen, att)))
                                             end
                            end) ->
  forall fuel seen stack att,
    py_while fuel cond B (seen, stack, att) =
    match walk bonds remain del fuel stack seen att with
    | WDone s a => Ok (s, [], a)
    | WKeyErr => Err KeyError
    | WFuel => Err OtherError
    end.
Proof.
  intros Hc HB. induction fuel as [|f IH]; intros seen stack att; cbn [py_while walk]; [reflexivity|].
  rewrite Hc. destruct stack as [|top rest]; cbn [py_nonempty]; [reflexivity|].
  rewrite HB. destruct (zget bonds top) as [nb|]; [|reflexivity].
  destruct (fold_left (visit remain del) nb (rest, seen, att)) as [[stack' seen'] att']. cbn [swap3]. apply IH.
Qed.

(* the model reads `remain` only through membership tests *)
Lemma visit_ext r1 r2 del : (forall x, zmem x r1 = zmem x r2) -> forall st m, visit r1 del st m = visit r2 del st m.
Proof. intros H [[stack seen] att] m. unfold visit. rewrite H. reflexivity. Qed.

Lemma fold_visit_ext r1 r2 del : (forall x, zmem x r1 = zmem x r2) ->
  forall nb st, fold_left (visit r1 del) nb st = fold_left (visit r2 del) nb st.
Proof. intros H. induction nb as [|m r IH]; intros st; simpl; [reflexivity|]. rewrite (visit_ext r1 r2 del H). apply IH. Qed.

Lemma walk_ext bonds r1 r2 del : (forall x, zmem x r1 = zmem x r2) ->
  forall fuel stack seen att, walk bonds r1 del fuel stack seen att = walk bonds r2 del fuel stack seen att.
Proof.
  intros H. induction fuel as [|f IH]; intros stack seen att; cbn [walk]; [reflexivity|].
  destruct stack as [|c rest]; [reflexivity|]. destruct (zget bonds c) as [nb|]; [|reflexivity].
  rewrite (fold_visit_ext r1 r2 del H). destruct (fold_left (visit r2 del) nb (rest, seen, att)) as [[s' se'] a']. apply IH.
Qed.

Lemma start_walk_ext bonds r1 r2 del : (forall x, zmem x r1 = zmem x r2) ->
  forall st n, start_walk bonds r1 del st n = start_walk bonds r2 del st n.
Proof. intros H [delete keep] n. unfold start_walk. rewrite H, (walk_ext bonds r1 r2 del H). reflexivity. Qed.

Lemma get_deleted_loops_ext bonds del r1 r2 : (forall x, zmem x r1 = zmem x r2) ->
  get_deleted_loops bonds del r1 = get_deleted_loops bonds del r2.
Proof.
  intros H. unfold get_deleted_loops. apply fold_res_ext_in. intros st x _.
  destruct (zget bonds x) as [nb|]; [|reflexivity]. apply fold_res_ext_in. intros; apply start_walk_ext; assumption.
Qed.

Lemma zmem_nodup x l : zmem x (nodup Z.eq_dec l) = zmem x l.
Proof.
  destruct (zmem x l) eqn:E.
  - apply zmem_In. apply nodup_In. apply zmem_In. assumption.
  - apply zmem_false. intro H. apply nodup_In in H. apply zmem_false in E. contradiction.
Qed.

Lemma zmem_zdiff x a b : zmem x (zdiff a b) = zmem x a && negb (zmem x b).
Proof.
  destruct (zmem x (zdiff a b)) eqn:E.
  - apply zmem_In in E. apply zdiff_In in E. destruct E as [Ha Hb].
    apply zmem_In in Ha. apply zmem_false in Hb. rewrite Ha, Hb. reflexivity.
  - apply zmem_false in E. destruct (zmem x a) eqn:Ha; [|reflexivity]. destruct (zmem x b) eqn:Hb; [reflexivity|].
    exfalso. apply E. apply zdiff_In. split; [apply zmem_In; assumption | apply zmem_false; assumption].
Qed.

(* {mapping[x] for x in self._to_delete} before set(): map_image *)
Lemma map_res_image mapping l :
  py_map_res (fun x => match zget mapping x with None => Err KeyError | Some v => Ok v end) l =
  match map_image mapping l with Some vs => Ok vs | None => Err KeyError end.
Proof.
  induction l as [|x r IH]; simpl; [reflexivity|].
  destruct (zget mapping x) as [v|]; [|reflexivity]. rewrite IH. destruct (map_image mapping r); reflexivity.
Qed.

(* ---------- the tie: translated source = hand-written model, for ALL inputs ---------- *)
Theorem g_get_deleted_is_model : forall bonds mapping to_del,
  g_get_deleted (fuel_walk bonds) to_del bonds mapping = get_deleted bonds mapping to_del.
Proof.
  intros bonds mapping to_del. unfold g_get_deleted, get_deleted.
  destruct to_del as [|p ps]; [reflexivity|]. cbv beta iota delta [py_nonempty negb].
  rewrite map_res_image. unfold kept, get_deleted_core, image.
  destruct (map_image mapping (p :: ps)) as [vs|]; [|reflexivity].
  cbv zeta. unfold py_set.
  set (del := nodup Z.eq_dec vs). set (remain := zdiff (nodup Z.eq_dec (map snd mapping)) del).
  (* the two nested `for` loops with the `while` inside = get_deleted_loops (with the translated `remain`) *)
  match goal with |- context [py_for del ?F ?s0] => assert (Hloops : py_for del F s0 = get_deleted_loops bonds del remain) end.
  { unfold py_for, get_deleted_loops. apply fold_res_ext_in. intros [delete keep] x _.
    destruct (zget bonds x) as [nb|]; [|reflexivity]. rewrite res_eta2.
    apply fold_res_ext_in. intros [delete' keep'] n _. unfold start_walk.
    destruct (zmem n del || zmem n remain || zmem n delete' || zmem n keep'); [reflexivity|].
    rewrite (while_walk bonds remain del).
    - destruct (walk bonds remain del (fuel_walk bonds) [n] [n] false) as [seen [|]| |]; reflexivity.
    - intros; reflexivity.
    - intros seen stack att. destruct stack as [|top rest]; [reflexivity|].
      destruct (zget bonds top) as [nb'|]; [|reflexivity]. rewrite res_eta3.
      apply inner_for. intros seen' stack' att' m. unfold visit, swap3.
      destruct (zmem m remain); [reflexivity|]. destruct (zmem m del); destruct (zmem m seen'); reflexivity. }
  rewrite Hloops.
  rewrite (get_deleted_loops_ext bonds del remain (zdiff (map snd mapping) del)).
  - destruct (get_deleted_loops bonds del (zdiff (map snd mapping) del)) as [[delete keep]|e]; reflexivity.
  - intros x. unfold remain. rewrite !zmem_zdiff, zmem_nodup. reflexivity.
Qed.

(* the specification of _get_deleted, stated about the translated source text *)
Theorem g_get_deleted_spec : forall g mapping to_del,
  sym_graph g = true ->
  (forall p, In p to_del -> exists v, zget mapping p = Some v /\ In v (keys g)) ->
  exists r, g_get_deleted (fuel_walk g) to_del g mapping = Ok r /\
            forall x, In x r <-> deleted_spec g (image mapping to_del) (kept mapping to_del) x.
Proof. intros g mapping to_del Hs Hm. rewrite g_get_deleted_is_model. apply get_deleted_spec; assumption. Qed.

(* non-vacuity: the two inputs on which the code before fix: b90326c was wrong, run through the translated body *)
Lemma g_get_deleted_on_witnesses :
  g_get_deleted (fuel_walk wit_g) wit_to_del wit_g wit_mapping = Ok [2] /\
  sorted_res (g_get_deleted (fuel_walk wit2_g) wit2_to_del wit2_g wit2_mapping) = Ok [2; 3; 4; 6] /\
  g_get_deleted (fuel_walk wit_g) [] wit_g wit_mapping = Ok [] /\
  g_get_deleted (fuel_walk wit_g) [77] wit_g wit_mapping = Err KeyError.
Proof. vm_compute. repeat split; reflexivity. Qed.
