(* C16 (round 5): Gen.ReactorInit is regenerated from /repo on every run (tools/gen_reactorinit.py): the expression assigned to
   self._to_delete, which constructor argument of BaseReactor.__init__ becomes which field, the argument lists of the
   super().__init__ calls of Transformer and Reactor, and the tail of _patcher that reads the two flags.  Here: the translated
   _to_delete expression is the hand-written Model.Reactor.to_delete_of, and the constructor arguments reach the places the
   documentation of the classes promises (a swap of two flags in a super().__init__ call breaks *_wiring by name). *)
From Coq Require Import ZArith List Bool Lia.
From Model Require Import PyBase Graph Reactor.
From Gen Require Import ReactorInit.
From Proofs Require Import ReactorProofs ReactorBodyTie.
Import ListNotations.
Open Scope Z_scope.

Lemma nodup_filter (f : Z -> bool) (l : list Z) : nodup Z.eq_dec (filter f l) = filter f (nodup Z.eq_dec l).
Proof.
  induction l as [|x r IH]; [reflexivity|]. cbn [filter nodup].
  destruct (in_dec Z.eq_dec x r) as [Hin|Hnin].
  - destruct (f x) eqn:Ef; [|exact IH]. cbn [nodup].
    destruct (in_dec Z.eq_dec x (filter f r)) as [_|Hn]; [exact IH|].
    exfalso. apply Hn. apply filter_In. split; assumption.
  - cbn [filter]. destruct (f x) eqn:Ef; [|exact IH]. cbn [nodup].
    destruct (in_dec Z.eq_dec x (filter f r)) as [Hi|_]; [|rewrite IH; reflexivity].
    exfalso. apply Hnin. apply filter_In in Hi. tauto.
Qed.

Lemma zdiff_nodup_r a b : zdiff a (nodup Z.eq_dec b) = zdiff a b.
Proof. unfold zdiff. apply filter_ext. intros x. rewrite zmem_nodup. reflexivity. Qed.

(* the translated expression = the set (duplicate-free list) of the hand-written one, for ALL inputs *)
Theorem g_to_delete_is_model : forall pattern replacement delete_atoms,
  g_to_delete pattern replacement delete_atoms = nodup Z.eq_dec (to_delete_of pattern replacement delete_atoms).
Proof.
  intros pattern replacement da. unfold g_to_delete, to_delete_of, pyi_set, keys. destruct da; [|reflexivity].
  rewrite zdiff_nodup_r. unfold zdiff at 1. rewrite <- nodup_filter. fold (zdiff (map fst (filter (fun '(_, masked) => negb masked) pattern)) replacement).
  do 3 f_equal. apply filter_ext. intros [n m]. reflexivity.
Qed.

Lemma NoDup_keys_filter {V} (f : Z * V -> bool) (l : list (Z * V)) : NoDup (map fst l) -> NoDup (map fst (filter f l)).
Proof.
  induction l as [|[k v] r IH]; intros H; cbn [filter map]; [constructor|].
  inversion H as [|? ? Hn Hr]; subst. destruct (f (k, v)); [|apply IH; assumption].
  cbn [map fst]. constructor; [|apply IH; assumption].
  intro Hin. apply Hn. apply in_map_iff in Hin. destruct Hin as ([k' v'] & Hk & Hf). apply filter_In in Hf.
  apply in_map_iff. exists (k', v'). tauto.
Qed.

(* pattern.atoms() is a dict: its keys are different, and then the two are literally equal *)
Theorem g_to_delete_is_model_dict : forall pattern replacement delete_atoms,
  NoDup (keys pattern) -> g_to_delete pattern replacement delete_atoms = to_delete_of pattern replacement delete_atoms.
Proof.
  intros pattern replacement da Hnd. rewrite g_to_delete_is_model. apply nodup_fixed_point.
  unfold to_delete_of. destruct da; [|constructor]. unfold zdiff. apply NoDup_filter. unfold keys. apply NoDup_keys_filter. exact Hnd.
Qed.

(* ---------- where the constructor arguments go ---------- *)
(* what an object built by cls(args) does at the end of _patcher, which replacement it patches in, and from which
   (pattern, replacement, delete_atoms) its _to_delete is computed *)
Definition wiring {A} (super : A * A * bool * bool * bool) : A * finish * (A * A * bool) :=
  let '(p, r, d, fr, ft) := super in
  let '(repl, self_fix_rings, self_fix_tautomers) := g_base_fields p r d fr ft in
  (repl, g_patcher_finish self_fix_rings self_fix_tautomers, (p, r, d)).

Theorem transformer_wiring : forall (A : Type) (u : list A -> A) (pattern replacement : A)
    (delete_atoms automorphism_filter fix_aromatic_rings fix_tautomers copy_metadata : bool),
  wiring (g_transformer_super u pattern replacement delete_atoms automorphism_filter fix_aromatic_rings fix_tautomers copy_metadata) =
    (replacement, (if fix_aromatic_rings then KekuleThenThiele fix_tautomers else OnlyFixStereo), (pattern, replacement, delete_atoms)).
Proof. intros. reflexivity. Qed.

Theorem reactor_wiring : forall (A : Type) (u : list A -> A) (patterns products : list A)
    (delete_atoms one_shot : bool) (polymerise_limit : Z) (automorphism_filter fix_aromatic_rings fix_tautomers : bool),
  wiring (g_reactor_super u patterns products delete_atoms one_shot polymerise_limit automorphism_filter fix_aromatic_rings fix_tautomers) =
    (u products, (if fix_aromatic_rings then KekuleThenThiele fix_tautomers else OnlyFixStereo), (u patterns, u products, delete_atoms)).
Proof. intros. reflexivity. Qed.

(* non-vacuity: the two flags are told apart *)
Lemma wiring_example :
  snd (fst (wiring (g_transformer_super (fun _ => 0) 1 2 true true true false false))) = KekuleThenThiele false /\
  snd (fst (wiring (g_transformer_super (fun _ => 0) 1 2 true true false true false))) = OnlyFixStereo /\
  g_to_delete [(1, false); (2, true); (3, false); (4, false)] [1; 9] true = [3; 4] /\
  g_to_delete [(1, false); (2, true); (3, false)] [1] false = [].
Proof. vm_compute. repeat split; reflexivity. Qed.

(* ---------- fix_mapping_overlap and the collision remap of _single_stage, translated ---------- *)
Lemma pyi_set_nodup l : NoDup l -> pyi_set l = l.
Proof. intros H. unfold pyi_set. apply nodup_fixed_point. exact H. Qed.

(* the translated body of fix_mapping_overlap = Model.Reactor.fix_mapping_overlap for all lists of structures whose atom numbers
   are different inside each structure (the atom numbers of a molecule are the keys of a dict) *)
Theorem g_fix_mapping_overlap_is_model : forall structures,
  Forall (@NoDup Z) structures -> g_fix_mapping_overlap structures = fix_mapping_overlap structures.
Proof.
  intros structures Hnd. unfold g_fix_mapping_overlap, fix_mapping_overlap. cbv zeta.
  destruct structures as [|s0 [|s1 r]]; [reflexivity|reflexivity|].
  replace (Z.of_nat (List.length (s0 :: s1 :: r)) =? 1) with false
    by (symmetry; apply Z.eqb_neq; cbn [List.length]; lia).
  match goal with |- context [fold_res ?F (s0 :: s1 :: r) ([], [])] =>
    replace (fold_res F (s0 :: s1 :: r) ([], [])) with (fold_res overlap_step (s0 :: s1 :: r) ([], [])) end.
  - destruct (fold_res overlap_step (s0 :: s1 :: r) ([], [])) as [[checked ca]|e]; reflexivity.
  - apply fold_res_ext_in. intros [checked ca] s Hin.
    rewrite Forall_forall in Hnd. specialize (Hnd s Hin).
    unfold overlap_step. rewrite (pyi_set_nodup s Hnd).
    destruct (zinter s ca) as [|i0 ir]; cbn [pyi_nonempty]; [reflexivity|].
    destruct (zmax_list ca) as [a|]; [|reflexivity]. destruct (zmax_list s) as [b|]; reflexivity.
Qed.

Theorem g_stage_remap_is_model : forall new ignored, NoDup new -> g_stage_remap new ignored = stage_remap new ignored.
Proof.
  intros new ignored Hnd. unfold g_stage_remap, stage_remap. cbv zeta. rewrite (pyi_set_nodup new Hnd).
  destruct (zinter new ignored) as [|c0 cr]; cbn [pyi_nonempty]; [reflexivity|].
  destruct (zmax_list new); reflexivity.
Qed.

(* non-vacuity: the second structure collides on 2 and 3; a product that took the numbers 7, 8 of a spectator *)
Lemma overlap_translated_example :
  g_fix_mapping_overlap [[1; 2; 3]; [2; 3; 9]] = Ok [[1; 2; 3]; [10; 11; 9]] /\
  g_fix_mapping_overlap [[1; 2]] = Ok [[1; 2]] /\
  g_fix_mapping_overlap [[1; 2]; []; [2]] = Ok [[1; 2]; []; [3]] /\
  g_stage_remap [1; 2; 7; 8] [7; 8; 12] = Ok [1; 2; 13; 14] /\
  g_stage_remap [1; 2] [7; 8] = Ok [1; 2].
Proof. vm_compute. repeat split; reflexivity. Qed.
