(* C05 -- the loop over the hydrogen donors of thiele(fix_tautomers=True) (`for start in donors: ... else: continue`): a donor from
   which the depth-first search finds no alternating path to an acceptor is SKIPPED - the remaining donors are processed exactly
   as if it were not there (molecule, acceptors and pyrrole set untouched); a donor with a path rewrites the path and, while
   acceptors remain, the loop goes on. *)
From Coq Require Import ZArith List Bool.
From Model Require Import PyBase Graph Kekule Thiele.
Import ListNotations.
Open Scope Z_scope.

Definition donor_seed (ords : adjl) (dbl : list Z) (start : Z) : list titem :=
  map (fun n => ((start, n, 0, 2) : titem)) (filter (fun n => negb (zmem n dbl)) (al_get ords start)).

Theorem taut_donors_skips_unfixable : forall fuel ords dbl start rest g acc pyr,
  taut_dfs fuel g ords dbl acc (donor_seed ords dbl start) [] [start] = None ->
  taut_donors fuel ords dbl (start :: rest) g acc pyr = taut_donors fuel ords dbl rest g acc pyr.
Proof. intros fuel ords dbl start rest g acc pyr H. unfold donor_seed in H. simpl. rewrite H. reflexivity. Qed.

(* all donors unfixable: nothing changes *)
Theorem taut_donors_all_unfixable : forall fuel ords dbl donors g acc pyr,
  (forall start, In start donors -> taut_dfs fuel g ords dbl acc (donor_seed ords dbl start) [] [start] = None) ->
  taut_donors fuel ords dbl donors g acc pyr = (g, acc, pyr).
Proof.
  intros fuel ords dbl donors. induction donors as [|s r IH]; intros g acc pyr H; [reflexivity|].
  rewrite taut_donors_skips_unfixable; [|apply H; left; reflexivity]. apply IH. intros st I. apply H. right. exact I.
Qed.

(* non-vacuity: a donor without neighbours to walk to is unfixable; it is skipped whatever follows *)
Example donors_skip_example : forall rest g acc pyr,
  taut_donors 5 [(1, [])] [] (1 :: rest) g acc pyr = taut_donors 5 [(1, [])] [] rest g acc pyr.
Proof. intros. apply taut_donors_skips_unfixable. reflexivity. Qed.
