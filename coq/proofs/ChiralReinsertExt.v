(* C01: `_chiral_morgan` of two DESCRIPTIONS of one labelled structure (same atom numbers; other insertion orders of atoms and
   bonds, registries listed in other orders with the stored signs re-expressed, terminal pairs of double-bond systems possibly
   listed the other way round, other iteration orders of the three stereo sets): for uniform runs the two results are the same
   dict up to the order of the items. *)
From Coq Require Import ZArith List Bool Lia Permutation Arith Sorting.Sorted.
From Model Require Import PyBase PyHash Graph Morgan Stereo Writer ChiralMorgan.
From Proofs Require Import MorganProofs WriterInvProofs WriterStereoExt ChiralMorganProofs StereoProofs StereoOrderExt StereoOrderExt2 EnvLaws SameStereo ChiralOrderExt.
Import ListNotations.
Open Scope Z_scope.

Lemma existsb_corr {X Y} (p : X -> bool) (p2 : Y -> bool) (R : X -> Y -> Prop) L L2 :
  (forall x, In x L -> exists y, In y L2 /\ R x y) -> (forall y, In y L2 -> exists x, In x L /\ R x y) ->
  (forall x y, In x L -> R x y -> p x = p2 y) -> existsb p L = existsb p2 L2.
Proof.
  intros H1 H2 Hp. apply eq_iff_eq_true. rewrite !existsb_exists. split.
  - intros [x [Hx Ht]]. destruct (H1 x Hx) as [y [Hy Hr]]. exists y. split; [exact Hy | rewrite <- (Hp x y Hx Hr); exact Ht].
  - intros [y [Hy Ht]]. destruct (H2 y Hy) as [x [Hx Hr]]. exists x. split; [exact Hx | rewrite (Hp x y Hx Hr); exact Ht].
Qed.
Lemma filter_map_comm {A B} (f : A -> B) (p : B -> bool) l : filter p (map f l) = map f (filter (fun x => p (f x)) l).
Proof. induction l as [|x l IH]; cbn [map filter]; [reflexivity|]. destruct (p (f x)); cbn [map]; rewrite IH; reflexivity. Qed.

Section GenPass2.
  Context {A G A2 G2 : Type}.
  Variables (envok sign : G -> pyres bool) (uatom : G -> Z) (always : bool) (ing : A -> list G -> bool) (lblm : Z -> Z) (key : G -> Z).
  Variables (envok2 sign2 : G2 -> pyres bool) (uatom2 : G2 -> Z) (ing2 : A2 -> list G2 -> bool) (lblm2 : Z -> Z) (key2 : G2 -> Z).
  Variables (Phi : G -> G2) (phi : A -> A2).
  Variables (l : list G) (r : list A).
  Hypothesis Hlbl : forall k, lblm2 k = lblm k.
  Hypothesis Hkey : forall x, In x l -> key2 (Phi x) = key x.
  Hypothesis Hua : forall x, In x l -> even_len (cls key (key x) l) = true -> uatom2 (Phi x) = uatom x.
  Hypothesis Henv : forall x, In x l -> envok2 (Phi x) = envok x.
  Hypothesis Hsign : forall x, In x l -> envok x = Ok true -> sign2 (Phi x) = sign x.
  Hypothesis Hing : forall a gr, In a r -> incl gr l -> ing2 (phi a) (map Phi gr) = ing a gr.
  Hypothesis ing2_perm : forall a g1 g2, Permutation g1 g2 -> ing2 a g1 = ing2 a g2.
  Hypothesis Hok : pass_ok envok sign key l.

  Lemma cls_map k : cls key2 k (map Phi l) = map Phi (cls key k l).
  Proof.
    unfold cls. rewrite filter_map_comm. f_equal. apply filter_ext_in. intros x Hx. rewrite (Hkey x Hx). reflexivity.
  Qed.

  Variable l2 : list G2.
  Hypothesis Hl2 : Permutation (map Phi l) l2.

  Lemma cls2_perm k : Permutation (map Phi (cls key k l)) (cls key2 k l2).
  Proof. rewrite <- cls_map. apply cls_perm. exact Hl2. Qed.

  Lemma pass_ok2 : pass_ok envok2 sign2 key2 l2.
  Proof.
    intros x2 Hx2 He. apply (Permutation_in x2 (Permutation_sym Hl2)) in Hx2. apply in_map_iff in Hx2. destruct Hx2 as [x [<- Hx]].
    rewrite (Hkey x Hx) in He. rewrite <- (even_len_perm _ _ (cls2_perm (key x))) in He. unfold even_len in He. rewrite map_length in He.
    destruct (Hok x Hx He) as [E [b Hb]]. rewrite (Henv x Hx), (Hsign x Hx E). split; [exact E | exists b; exact Hb].
  Qed.

  Definition gcorr (gr : list G) (gr2 : list G2) : Prop := Permutation (map Phi gr) gr2.
  Lemma groups_corr1 gr : In gr (group_by key l) -> exists gr2, In gr2 (group_by key2 l2) /\ gcorr gr gr2.
  Proof.
    intros Hi. apply group_by_in in Hi. destruct Hi as [k [-> Hn]]. exists (cls key2 k l2). split; [|apply cls2_perm].
    apply group_by_in. exists k. split; [reflexivity|]. intros E. pose proof (cls2_perm k) as Hp. rewrite E in Hp.
    apply Permutation_sym, Permutation_nil in Hp. apply map_eq_nil in Hp. apply Hn. exact Hp.
  Qed.
  Lemma groups_corr2 gr2 : In gr2 (group_by key2 l2) -> exists gr, In gr (group_by key l) /\ gcorr gr gr2.
  Proof.
    intros Hi. apply group_by_in in Hi. destruct Hi as [k [-> Hn]]. exists (cls key k l). split; [|apply cls2_perm].
    apply group_by_in. exists k. split; [reflexivity|]. intros E. pose proof (cls2_perm k) as Hp. rewrite E in Hp. cbn in Hp.
    apply Permutation_nil in Hp. apply Hn. exact Hp.
  Qed.

  (* facts about one pair of corresponding groups *)
  Section OneGroup.
    Variables (gr : list G) (gr2 : list G2).
    Hypothesis Hin : In gr (group_by key l).
    Hypothesis Hc : gcorr gr gr2.
    Lemma gr_incl : incl gr l.
    Proof. apply group_by_in in Hin. destruct Hin as [k [-> _]]. intros x Hx. unfold cls in Hx. apply filter_In in Hx. exact (proj1 Hx). Qed.
    Lemma gr_even : even_len gr2 = even_len gr.
    Proof. rewrite <- (even_len_perm _ _ Hc). unfold even_len. rewrite map_length. reflexivity. Qed.
    Lemma gr_len : List.length gr2 = List.length gr.
    Proof. rewrite <- (Permutation_length Hc). apply map_length. Qed.
    Lemma gr_sel : even_len gr = true -> Permutation (map Phi (sel_true sign gr)) (sel_true sign2 gr2).
    Proof.
      intros He. eapply Permutation_trans; [|apply sel_true_perm; exact Hc]. unfold sel_true. rewrite filter_map_comm.
      rewrite (filter_ext_in (fun x => match sign2 (Phi x) with Ok true => true | _ => false end)
                             (fun x => match sign x with Ok true => true | _ => false end)); [apply Permutation_refl|].
      intros x Hx. destruct (pass_groups_ok envok sign key l Hok gr Hin) as [_ Hg]. destruct (Hg He x Hx) as [E _].
      rewrite (Hsign x (gr_incl x Hx) E). reflexivity.
    Qed.
    Lemma gr_proper : even_len gr = true -> proper_part (sel_true sign2 gr2) gr2 = proper_part (sel_true sign gr) gr.
    Proof. intros He. unfold proper_part. rewrite gr_len, <- (Permutation_length (gr_sel He)), map_length. reflexivity. Qed.
    Lemma gr_contrib k : zmem k (contrib sign2 uatom2 gr2) = zmem k (contrib sign uatom gr).
    Proof.
      unfold contrib. rewrite gr_even. destruct (even_len gr) eqn:He; cbn [andb]; [|reflexivity]. rewrite (gr_proper He).
      destruct (proper_part _ _); [|reflexivity]. rewrite <- (zmem_perm _ _ k (Permutation_map uatom2 (gr_sel He))), map_map.
      f_equal. apply map_ext_in. intros x Hx. unfold sel_true in Hx. apply filter_In in Hx. destruct Hx as [Hx _].
      apply Hua; [apply gr_incl; exact Hx|]. pose proof Hin as Hi'. apply group_by_in in Hi'. destruct Hi' as [k0 [Eg _]].
      assert (key x = k0) as -> by (rewrite Eg in Hx; unfold cls in Hx; apply filter_In in Hx; apply Z.eqb_eq; exact (proj2 Hx)).
      rewrite <- Eg. exact He.
    Qed.
    Lemma gr_discards : discards sign2 always gr2 = discards sign always gr.
    Proof. unfold discards. rewrite gr_even. destruct (even_len gr) eqn:He; cbn [andb]; [|reflexivity]. rewrite (gr_proper He). reflexivity. Qed.
    Lemma gr_ing a : In a r -> ing2 (phi a) gr2 = ing a gr.
    Proof. intros Ha. rewrite <- (ing2_perm (phi a) _ _ Hc). apply Hing; [exact Ha | exact gr_incl]. Qed.
  End OneGroup.

  Theorem pass_sim2 u u2 (r2 : list A2) :
    Permutation (map phi r) r2 -> (forall k, zget u k = zget u2 k) ->
    exists uf uf2 rf rf2,
      fold_left (gen_group envok sign uatom always ing lblm) (group_by key l) (Ok (u, r, [])) = Ok (uf, rf, []) /\
      fold_left (gen_group envok2 sign2 uatom2 always ing2 lblm2) (group_by key2 l2) (Ok (u2, r2, [])) = Ok (uf2, rf2, []) /\
      Permutation (map phi rf) rf2 /\ (forall k, zget uf k = zget uf2 k) /\
      (forall k, zget uf k <> None -> zget u k <> None \/ exists x, In x l /\ k = uatom x) /\ incl rf r.
  Proof.
    intros Hr Hu.
    destruct (fold_closed envok sign uatom always ing lblm (group_by key l) u r (pass_groups_ok envok sign key l Hok)) as [uf [E Hz]].
    destruct (fold_closed envok2 sign2 uatom2 always ing2 lblm2 (group_by key2 l2) u2 r2 (pass_groups_ok envok2 sign2 key2 l2 pass_ok2))
      as [uf2 [E2 Hz2]].
    exists uf, uf2, (filter (fun a => negb (existsb (fun gr => discards sign always gr && ing a gr) (group_by key l))) r),
                    (filter (fun a => negb (existsb (fun gr => discards sign2 always gr && ing2 a gr) (group_by key2 l2))) r2).
    split; [exact E|]. split; [exact E2|]. split; [|split; [|split]].
    - eapply Permutation_trans; [|apply perm_filter; exact Hr]. rewrite filter_map_comm. apply Permutation_map.
      rewrite (filter_ext_in (fun a => negb (existsb (fun gr => discards sign always gr && ing a gr) (group_by key l)))
                             (fun a => negb (existsb (fun gr => discards sign2 always gr && ing2 (phi a) gr) (group_by key2 l2))));
        [apply Permutation_refl|].
      intros a Ha. f_equal. apply (existsb_corr _ _ gcorr); [apply groups_corr1 | apply groups_corr2|].
      intros gr gr2 Hi Hc. rewrite (gr_discards gr gr2 Hi Hc), (gr_ing gr gr2 Hi Hc a Ha). reflexivity.
    - intros k. rewrite Hz, Hz2, Hu, Hlbl.
      rewrite (existsb_corr (fun gr => zmem k (contrib sign uatom gr)) (fun gr => zmem k (contrib sign2 uatom2 gr)) gcorr (group_by key l) (group_by key2 l2));
        [reflexivity | apply groups_corr1 | apply groups_corr2|].
      intros gr gr2 Hi Hc. symmetry. apply (gr_contrib gr gr2 Hi Hc).
    - intros k Hk. rewrite Hz in Hk. destruct (existsb _ (group_by key l)) eqn:Hex; [|left; exact Hk]. right.
      apply existsb_exists in Hex. destruct Hex as [gr [Hi Hm]]. unfold contrib in Hm. destruct (even_len gr && _); [|discriminate].
      unfold zmem in Hm. apply existsb_exists in Hm. destruct Hm as [a [Ha Hka]]. apply Z.eqb_eq in Hka. subst a.
      apply in_map_iff in Ha. destruct Ha as [x [Hx Hs]]. exists x. split; [|symmetry; exact Hx].
      apply group_by_in in Hi. destruct Hi as [k0 [-> _]]. unfold sel_true in Hs. apply filter_In in Hs. destruct Hs as [Hs _].
      unfold cls in Hs. apply filter_In in Hs. exact (proj1 Hs).
    - intros a Ha. apply filter_In in Ha. exact (proj1 Ha).
  Qed.
End GenPass2.

(* ---------- small facts ---------- *)
Lemma nodup_map_inj {A B} (f : A -> B) l x y : NoDup (map f l) -> In x l -> In y l -> f x = f y -> x = y.
Proof.
  induction l as [|a l IH]; intros Hn Hx Hy E; [destruct Hx|]. cbn [map] in Hn. inversion Hn as [|? ? Hni Hn']; subst.
  destruct Hx as [->|Hx], Hy as [->|Hy]; try reflexivity.
  - exfalso. apply Hni. rewrite E. apply in_map. exact Hy.
  - exfalso. apply Hni. rewrite <- E. apply in_map. exact Hx.
  - apply IH; assumption.
Qed.
Lemma sorted_perm_eq_in {A} (leb : A -> A -> bool) l : forall l',
  (forall x y, In x l -> In y l -> leb x y = true -> leb y x = true -> x = y) ->
  StronglySorted (fun x y => leb x y = true) l -> StronglySorted (fun x y => leb x y = true) l' -> Permutation l l' -> l = l'.
Proof.
  induction l as [|x l IH]; intros l' Ha Hs Hs' Hp.
  - apply Permutation_nil in Hp. subst. reflexivity.
  - destruct l' as [|x' l']; [apply Permutation_sym, Permutation_nil in Hp; discriminate|].
    inversion Hs as [|? ? Hl Hx]; subst. inversion Hs' as [|? ? Hl' Hx']; subst. rewrite Forall_forall in Hx, Hx'.
    assert (In x (x' :: l')) as H1 by (eapply Permutation_in; [exact Hp | left; reflexivity]).
    assert (In x' (x :: l)) as H2 by (eapply Permutation_in; [apply Permutation_sym; exact Hp | left; reflexivity]).
    assert (x = x') as ->.
    { destruct H1 as [H1|H1]; [symmetry; exact H1|]. destruct H2 as [H2|H2]; [exact H2|].
      apply Ha; [left; reflexivity | right; exact H2 | apply Hx; exact H2 | apply Hx'; exact H1]. }
    f_equal. apply IH; [intros a b Ha' Hb'; apply Ha; right; assumption | exact Hl | exact Hl' | eapply Permutation_cons_inv; exact Hp].
Qed.
Lemma sort_by_label_perm m m2 env env2 : (forall k, lbl m2 k = lbl m k) -> NoDup (map (lbl m) env) -> Permutation env env2 ->
  sort_by_label m2 env2 = sort_by_label m env.
Proof.
  intros Hl Hn Hp. unfold sort_by_label.
  assert (forall l, isort (fun x y => lbl m2 x <=? lbl m2 y) l = isort (fun x y => lbl m x <=? lbl m y) l) as ->.
  { intros l. induction l as [|a l IH]; cbn [isort fold_right]; [reflexivity|]. fold (isort (fun x y => lbl m2 x <=? lbl m2 y) l).
    fold (isort (fun x y => lbl m x <=? lbl m y) l). rewrite IH. generalize (isort (fun x y => lbl m x <=? lbl m y) l). intros L.
    induction L as [|b L IHL]; cbn [insert_by]; [reflexivity|]. rewrite !Hl, IHL. reflexivity. }
  set (leb := fun x y => lbl m x <=? lbl m y).
  assert (forall x y, leb x y = true \/ leb y x = true) as Htot by (intros x y; unfold leb; destruct (Z.leb_spec (lbl m x) (lbl m y)); [left; reflexivity | right; apply Z.leb_le; lia]).
  assert (forall x y z, leb x y = true -> leb y z = true -> leb x z = true) as Htr by (intros x y z; unfold leb; rewrite !Z.leb_le; lia).
  symmetry. apply (sorted_perm_eq_in leb).
  - intros x y Hx Hy H1 H2. unfold leb in H1, H2. apply Z.leb_le in H1, H2. apply (nodup_map_inj (lbl m) env x y Hn).
    + eapply Permutation_in; [apply isort_perm | exact Hx].
    + eapply Permutation_in; [apply isort_perm | exact Hy].
    + lia.
  - apply (isort_sorted leb Htot Htr).
  - apply (isort_sorted leb Htot Htr).
  - eapply Permutation_trans; [apply isort_perm|]. eapply Permutation_trans; [exact Hp|]. apply Permutation_sym, isort_perm.
Qed.
Lemma nclasses_nodup m env : Nat.eqb (List.length env) (n_classes m env) = true -> NoDup (map (lbl m) env).
Proof.
  unfold n_classes. intros H. apply Nat.eqb_eq in H. fold (dset (map (lbl m) env)) in H.
  apply NoDup_incl_NoDup with (l := dset (map (lbl m) env)); [apply dset_NoDup | rewrite <- H, map_length; apply le_n|].
  intros x Hx. exact (proj1 (dset_In x _) Hx).
Qed.
Lemma n_classes_perm m m2 env env2 : (forall k, lbl m2 k = lbl m k) -> Permutation env env2 -> n_classes m2 env2 = n_classes m env.
Proof.
  intros Hl Hp. unfold n_classes. rewrite (map_ext (lbl m2) (lbl m) Hl). rewrite (zsort_canonical _ _ (Permutation_map (lbl m) (Permutation_sym Hp))). reflexivity.
Qed.

Ltac split_at x l k := match l with | x :: ?r => k (@nil Z) r | ?y :: ?r => split_at x r ltac:(fun a b => k (y :: a) b) end.
Ltac permc := match goal with
  | |- Permutation [] [] => constructor
  | |- Permutation (?x :: ?l) ?l' => split_at x l' ltac:(fun a b => change l' with (a ++ x :: b); apply Permutation_cons_app; cbn [app]; permc)
  end.
Lemma sel_perm4 a b c d q : In q perms4 -> Permutation [a; b; c; d] (sel [a; b; c; d] q).
Proof. intros Hq. cbv in Hq. repeat (destruct Hq as [Hq|Hq]; [subst q; cbv [sel map znth Z.ltb Z.compare Z.to_nat Pos.to_nat Pos.iter_op Nat.add nth]; permc|]). contradiction. Qed.
Lemma sel_perm3 a b c q : In q perms3 -> Permutation [a; b; c] (sel [a; b; c] q).
Proof. intros Hq. cbv in Hq. repeat (destruct Hq as [Hq|Hq]; [subst q; cbv [sel map znth Z.ltb Z.compare Z.to_nat Pos.to_nat Pos.iter_op Nat.add nth]; permc|]). contradiction. Qed.

Lemma opt_is_ext o x (isH isH' : Z -> bool) : (forall y, isH' y = isH y) -> opt_is o x isH' = opt_is o x isH.
Proof. intros H. destruct o; cbn; [reflexivity | apply H]. Qed.
Lemma translate_env_ext (isH isH' : Z -> bool) e a b s : (forall y, isH' y = isH y) -> translate_env isH' e a b s = translate_env isH e a b s.
Proof. intros H. destruct e as [[[n0 n1] n2] n3]. unfold translate_env. rewrite !(opt_is_ext _ _ isH isH' H). reflexivity. Qed.
Lemma find_ext' {A} (f f' : A -> bool) l : (forall y, f' y = f y) -> find f' l = find f l.
Proof. intros H. induction l as [|x l IH]; cbn [find]; [reflexivity|]. rewrite H, IH. reflexivity. Qed.
Lemma translate_th_ext (isH isH' : Z -> bool) order env s : (forall y, isH' y = isH y) -> translate_th isH' order env s = translate_th isH order env s.
Proof. intros H. unfold translate_th. rewrite (find_ext' isH isH' env H). reflexivity. Qed.

(* ---------- environments ---------- *)
Definition pickA (m : labels) (e : cenv4) : Z := let '(n1, m1, n2, m2) := e in pick_min m n1 n2.
Definition pickB (m : labels) (e : cenv4) : Z := let '(n1, m1, n2, m2) := e in pick_min m m1 m2.

Lemma discrete_env_var m sa sb ex (e : cenv4) : discrete_env m (var_env sa sb ex e) = discrete_env m e.
Proof.
  destruct e as [[[n0 n1] [n2|]] [n3|]]; destruct sa, sb, ex; cbn [var_env swapA swapB exch_env discrete_env lbl_opt];
    repeat match goal with |- context [?a =? ?b] => destruct (Z.eqb_spec a b) end; try reflexivity; exfalso; congruence.
Qed.
Lemma discrete_env_ext m m2 (e : cenv4) : (forall k, lbl m2 k = lbl m k) -> discrete_env m2 e = discrete_env m e.
Proof. intros H. destruct e as [[[n0 n1] [n2|]] [n3|]]; cbn [discrete_env lbl_opt]; rewrite !H; reflexivity. Qed.
Lemma pick_ext m m2 (e : cenv4) : (forall k, lbl m2 k = lbl m k) -> pickA m2 e = pickA m e /\ pickB m2 e = pickB m e.
Proof. intros H. destruct e as [[[n0 n1] [n2|]] [n3|]]; cbn [pickA pickB pick_min]; rewrite ?H; split; reflexivity. Qed.
Lemma pick_var m sa sb ex (e : cenv4) : discrete_env m e = true ->
  pickA m (var_env sa sb ex e) = (if ex then pickB m e else pickA m e) /\ pickB m (var_env sa sb ex e) = (if ex then pickA m e else pickB m e).
Proof.
  destruct e as [[[n0 n1] [n2|]] [n3|]]; cbn [discrete_env lbl_opt]; intros H; apply andb_prop in H; destruct H as [H1 H2];
    apply negb_true_iff in H1, H2; apply Z.eqb_neq in H1, H2;
    destruct sa, sb, ex; cbn [var_env swapA swapB exch_env pickA pickB pick_min]; split;
    repeat match goal with |- context [?a <? ?b] => destruct (Z.ltb_spec a b) end; try reflexivity; exfalso; lia.
Qed.

Definition ct_st (g : mol) (tabs : cmtabs) (n : Z) : pyres bool :=
  match zget (c_ctc tabs) n with
  | None => Err KeyError
  | Some (i, j) => match bond_of g i j with
                   | None => Err KeyError
                   | Some bd => match b_stereo bd with None => Err KeyError | Some s => Ok s end
                   end
  end.
Lemma ct_sign_unfold g tabs m x :
  ct_sign g tabs m x = match cpget (c_sct tabs) (snd x) with
                       | None => Err KeyError
                       | Some e => match ct_st g tabs (fst (snd x)) with
                                   | Err er => Err er
                                   | Ok s => translate_env (cm_isH g) e (pickA m e) (pickB m e) s
                                   end
                       end.
Proof.
  unfold ct_sign, ct_st. destruct x as [u [n m0]]. cbn [snd fst]. destruct (cpget (c_sct tabs) (n, m0)) as [[[[n1 m1] n2] m2]|]; [|reflexivity].
  destruct (zget (c_ctc tabs) n) as [[i j]|]; [|reflexivity]. destruct (bond_of g i j) as [bd|]; [|reflexivity].
  destruct (b_stereo bd); reflexivity.
Qed.
Lemma al_sign_unfold g tabs m c :
  al_sign g tabs m c = match zget (c_allenes tabs) c, atom_stereo g c with
                       | Some e, Some s => translate_env (cm_isH g) e (pickA m e) (pickB m e) s
                       | _, _ => Err KeyError
                       end.
Proof. unfold al_sign. destruct (zget (c_allenes tabs) c) as [[[[n1 m1] n2] m2]|]; reflexivity. Qed.

Section Reinsert.
  Variable h : list Z -> Z.
  Variables g g2 : mol.
  Variables tabs tabs2 : cmtabs.
  Variable flipc : Z * Z -> bool.
  Variable P : list (Z * Z).                       (* the terminal pairs of the labelled double-bond systems *)
  Definition phi (p : Z * Z) : Z * Z := if flipc p then (snd p, fst p) else p.

  Hypothesis noH : forall x, cm_isH g x = false.
  Hypothesis HisH : forall x, cm_isH g2 x = cm_isH g x.

  Definition th_rel (n : Z) : Prop :=
    match zget (c_tetra tabs) n with
    | None => zget (c_tetra tabs2) n = None
    | Some order =>
        (exists a b c d q, order = [a; b; c; d] /\ NoDup [a; b; c; d] /\ In q perms4 /\ zget (c_tetra tabs2) n = Some (sel [a; b; c; d] q) /\
           atom_stereo g2 n = option_map (fun sg => xorb sg (odd_perm q)) (atom_stereo g n)) \/
        (exists a b c q, order = [a; b; c] /\ NoDup [a; b; c] /\ In q perms3 /\ zget (c_tetra tabs2) n = Some (sel [a; b; c] q) /\
           atom_stereo g2 n = option_map (fun sg => xorb sg (odd_perm (q ++ [3]))) (atom_stereo g n))
    end.
  Definition al_rel (c : Z) : Prop :=
    match zget (c_allenes tabs) c with
    | None => zget (c_allenes tabs2) c = None
    | Some env => exists sa sb xe, zget (c_allenes tabs2) c = Some (var_env sa sb xe env) /\ env_ok (cm_isH g) env /\
                    (sa = true -> canA env = true) /\ (sb = true -> canB env = true) /\
                    atom_stereo g2 c = option_map (fun sg => xorb sg (xorb sa sb)) (atom_stereo g c)
    end.
  Definition ct_rel (p : Z * Z) : Prop :=
    match cpget (c_sct tabs) p with
    | None => cpget (c_sct tabs2) (phi p) = None
    | Some env => exists sa sb, cpget (c_sct tabs2) (phi p) = Some (var_env sa sb (flipc p) env) /\ env_ok (cm_isH g) env /\
                    (sa = true -> canA env = true) /\ (sb = true -> canB env = true) /\
                    ct_st g2 tabs2 (fst (phi p)) = map_res (fun sg => xorb sg (xorb sa sb)) (ct_st g tabs (fst p))
    end.

  Section Labels.
    Variables m m2 : labels.
    Hypothesis Hl : forall k, lbl m2 k = lbl m k.

    Lemma th_envok_same n : th_rel n -> th_envok tabs2 m2 n = th_envok tabs m n.
    Proof.
      unfold th_rel, th_envok. destruct (zget (c_tetra tabs) n) as [order|]; [|intros ->; reflexivity].
      intros [(a & b & c & d & q & -> & Hnd & Hq & E2 & Es)|(a & b & c & q & -> & Hnd & Hq & E2 & Es)]; rewrite E2.
      - rewrite (n_classes_perm m m2 _ _ Hl (sel_perm4 a b c d q Hq)), <- (Permutation_length (sel_perm4 a b c d q Hq)). reflexivity.
      - rewrite (n_classes_perm m m2 _ _ Hl (sel_perm3 a b c q Hq)), <- (Permutation_length (sel_perm3 a b c q Hq)). reflexivity.
    Qed.
    Lemma th_sign_same n : th_rel n -> th_envok tabs m n = Ok true -> th_sign g2 tabs2 m2 n = th_sign g tabs m n.
    Proof.
      unfold th_rel, th_envok, th_sign. destruct (zget (c_tetra tabs) n) as [order|]; [|discriminate].
      intros Hrel He. assert (Nat.eqb (List.length order) (n_classes m order) = true) as He' by congruence.
      destruct Hrel as [(a & b & c & d & q & -> & Hnd & Hq & E2 & Es)|(a & b & c & q & -> & Hnd & Hq & E2 & Es)]; rewrite E2, Es;
        (destruct (atom_stereo g n) as [sg|]; cbn [option_map]; [|reflexivity]); rewrite (translate_th_ext (cm_isH g) (cm_isH g2) _ _ _ HisH).
      - rewrite (sort_by_label_perm m m2 _ _ Hl (nclasses_nodup m _ He') (sel_perm4 a b c d q Hq)).
        apply (translate_th_reorder_any (cm_isH g) a b c d Hnd q _ sg Hq).
      - rewrite (sort_by_label_perm m m2 _ _ Hl (nclasses_nodup m _ He') (sel_perm3 a b c q Hq)).
        apply (translate_th_reorder_any3 (cm_isH g) a b c Hnd (conj (noH a) (conj (noH b) (noH c))) q _ sg Hq).
    Qed.

    Lemma al_envok_same c : al_rel c -> al_envok tabs2 m2 c = al_envok tabs m c.
    Proof.
      unfold al_rel, al_envok. destruct (zget (c_allenes tabs) c) as [env|]; [|intros ->; reflexivity].
      intros (sa & sb & xe & E2 & _). rewrite E2, (discrete_env_ext m m2 _ Hl), discrete_env_var. reflexivity.
    Qed.
    Lemma env_sign_same (env : cenv4) sa sb xe sg : env_ok (cm_isH g) env -> (sa = true -> canA env = true) -> (sb = true -> canB env = true) ->
      discrete_env m env = true ->
      translate_env (cm_isH g2) (var_env sa sb xe env) (pickA m2 (var_env sa sb xe env)) (pickB m2 (var_env sa sb xe env)) (xorb sg (xorb sa sb)) =
      translate_env (cm_isH g) env (pickA m env) (pickB m env) sg.
    Proof.
      intros Hok Ha Hb Hd. rewrite (translate_env_ext (cm_isH g) (cm_isH g2) _ _ _ _ HisH).
      destruct (pick_ext m m2 (var_env sa sb xe env) Hl) as [-> ->]. destruct (pick_var m sa sb xe env Hd) as [-> ->].
      rewrite (var_law (cm_isH g) noH sa sb xe env _ _ sg Hok Ha Hb). destruct xe; reflexivity.
    Qed.
    Lemma al_sign_same c : al_rel c -> al_envok tabs m c = Ok true -> al_sign g2 tabs2 m2 c = al_sign g tabs m c.
    Proof.
      rewrite !al_sign_unfold. unfold al_rel, al_envok. destruct (zget (c_allenes tabs) c) as [env|]; [|discriminate].
      intros (sa & sb & xe & E2 & Hok & Ha & Hb & Es) He. rewrite E2, Es. destruct (atom_stereo g c) as [sg|]; cbn [option_map]; [|reflexivity].
      apply env_sign_same; try assumption. congruence.
    Qed.

    Lemma snd_ct_key mm p : snd (ct_key mm p) = p.
    Proof. unfold ct_key. destruct (_ <=? _); reflexivity. Qed.
    Lemma ct_envok_same p : ct_rel p -> ct_envok tabs2 m2 (ct_key m2 (phi p)) = ct_envok tabs m (ct_key m p).
    Proof.
      unfold ct_rel, ct_envok. rewrite !snd_ct_key. destruct (cpget (c_sct tabs) p) as [env|]; [|intros ->; reflexivity].
      intros (sa & sb & E2 & _). rewrite E2, (discrete_env_ext m m2 _ Hl), discrete_env_var. reflexivity.
    Qed.
    Lemma ct_sign_same p : ct_rel p -> ct_envok tabs m (ct_key m p) = Ok true ->
      ct_sign g2 tabs2 m2 (ct_key m2 (phi p)) = ct_sign g tabs m (ct_key m p).
    Proof.
      rewrite !ct_sign_unfold. unfold ct_rel, ct_envok. rewrite !snd_ct_key. destruct (cpget (c_sct tabs) p) as [env|]; [|discriminate].
      intros (sa & sb & E2 & Hok & Ha & Hb & Es) He. rewrite E2, Es. destruct (ct_st g tabs (fst p)) as [sg|e]; cbn [map_res]; [|reflexivity].
      apply env_sign_same; try assumption. congruence.
    Qed.
  End Labels.

  (* ---------- the loop ---------- *)
  Hypothesis Hmorgan : forall inp inp2, NoDup (keys inp) -> Permutation inp inp2 ->
    res_perm (Morgan.morgan h inp (int_adjacency g)) (Morgan.morgan h inp2 (int_adjacency g2)).
  Hypothesis Hadjnd : NoDup (keys (int_adjacency g)).
  Hypothesis Hth : forall n, th_rel n.
  Hypothesis Hal : forall c, al_rel c.
  Hypothesis Hct : forall p, In p P -> ct_rel p.
  Hypothesis Hphi_inj : forall p q, In p P -> In q P -> phi p = phi q -> p = q.

  Definition ctk (m : labels) (x : Z * (Z * Z)) : Z := lbl m (fst x).
  (* a pair listed the other way round in the second description has terminals of different classes (when its group is even) *)
  Definition ct_asym (m : labels) (sct : list (Z * Z)) : Prop :=
    forall p, In p sct -> flipc p = true -> even_len (cls (ctk m) (ctk m (ct_key m p)) (map (ct_key m) sct)) = true ->
              lbl m (fst p) <> lbl m (snd p).
  Fixpoint asym_run (fuel : nat) (m : labels) (sa : list Z) (sct : list (Z * Z)) (sal : list Z) : Prop :=
    match fuel with
    | O => True
    | S f =>
        ct_asym m sct /\
        forall u1 sa' u2 sct' u3 sal' m',
          fold_left (th_group g tabs m) (group_by (lbl m) sa) (Ok ([], sa, [])) = Ok (u1, sa', []) ->
          fold_left (ct_group g tabs m) (group_by (fun x => lbl m (fst x)) (map (ct_key m) sct)) (Ok (u1, sct, [])) = Ok (u2, sct', []) ->
          fold_left (al_group g tabs m) (group_by (lbl m) sal) (Ok (u2, sal, [])) = Ok (u3, sal', []) ->
          Morgan.morgan h (merge_update m u3) (int_adjacency g) = Ok m' ->
          asym_run f m' sa' sct' sal'
    end.

  Lemma cpair_eqb_spec p q : cpair_eqb p q = true <-> p = q.
  Proof.
    unfold cpair_eqb. destruct p as [a b], q as [c d]. cbn [fst snd]. rewrite andb_true_iff, !Z.eqb_eq. split; [intros [-> ->]; reflexivity | intros E; inversion E; split; reflexivity].
  Qed.
  Lemma existsb_map {X Y} (f : X -> Y) (p : Y -> bool) l : existsb p (map f l) = existsb (fun x => p (f x)) l.
  Proof. induction l as [|x l IH]; cbn [map existsb]; [reflexivity|]. rewrite IH. reflexivity. Qed.
  Lemma existsb_ext_in {X} (p q : X -> bool) l : (forall x, In x l -> p x = q x) -> existsb p l = existsb q l.
  Proof. induction l as [|x l IH]; intros H; cbn [existsb]; [reflexivity|]. rewrite (H x (or_introl eq_refl)), IH; [reflexivity|]. intros y Hy. apply H. right. exact Hy. Qed.
  Lemma ct_key_lbl mm p : lbl mm (fst (ct_key mm p)) = Z.min (lbl mm (fst p)) (lbl mm (snd p)).
  Proof. unfold ct_key. destruct (Z.leb_spec (lbl mm (fst p)) (lbl mm (snd p))); cbn [fst]; lia. Qed.
  Lemma phi_ends p : (fst (phi p) = fst p /\ snd (phi p) = snd p /\ flipc p = false) \/ (fst (phi p) = snd p /\ snd (phi p) = fst p /\ flipc p = true).
  Proof. unfold phi. destruct (flipc p); [right | left]; repeat split; reflexivity. Qed.
  Lemma merge_update_perm m m2 u u2 : NoDup (keys m) -> Permutation m m2 -> (forall k, zget u k = zget u2 k) ->
    (forall k, zget u k <> None -> zmem k (keys m) = true) -> Permutation (merge_update m u) (merge_update m2 u2).
  Proof.
    intros Hn Hp Hu Hk. unfold merge_update.
    assert (forall (u0 mm : list (Z * Z)), (forall k, zget u0 k <> None -> zmem k (keys mm) = true) -> filter (fun kv : Z * Z => negb (zmem (fst kv) (keys mm))) u0 = []) as Hf.
    { intros u0 mm H0. apply filter_all_false. intros [k v] Hi. cbn [fst]. rewrite (H0 k); [reflexivity | apply (zget_in_some u0 k v Hi)]. }
    rewrite (Hf u m Hk), (Hf u2 m2), !app_nil_r.
    - rewrite (map_ext (fun kv : Z * Z => (fst kv, match zget u2 (fst kv) with Some v => v | None => snd kv end))
                       (fun kv : Z * Z => (fst kv, match zget u (fst kv) with Some v => v | None => snd kv end))) by (intros kv; rewrite Hu; reflexivity).
      apply Permutation_map. exact Hp.
    - intros k Hk2. rewrite <- Hu in Hk2. unfold keys. rewrite <- (zmem_perm _ _ k (Permutation_map fst Hp)). apply Hk. exact Hk2.
  Qed.
  Lemma keys_merge_update m u : (forall k, zget u k <> None -> zmem k (keys m) = true) -> keys (merge_update m u) = keys m.
  Proof.
    intros Hk. unfold merge_update. rewrite filter_all_false, app_nil_r; [unfold keys; rewrite map_map; reflexivity|].
    intros [k v] Hi. cbn [fst]. rewrite (Hk k); [reflexivity | apply (zget_in_some u k v Hi)].
  Qed.

  Definition dres_rel2 (r r2 : pyres dres) : Prop :=
    match r, r2 with
    | Err e, Err e2 => e = e2
    | Ok d, Ok d2 => Permutation (d_morgan d) (d_morgan d2) /\ Forall2 (@Permutation (Z * Z)) (d_trace d) (d_trace d2) /\
                     d_ga d = [] /\ d_gct d = [] /\ d_gal d = [] /\ d_ga d2 = [] /\ d_gct d2 = [] /\ d_gal d2 = []
    | _, _ => False
    end.

  Lemma diff_sim2 fuel : forall m m2 sa sct sal sa2 sct2 sal2 tr tr2,
    NoDup (keys m) -> Permutation m m2 -> Permutation sa sa2 -> Permutation (map phi sct) sct2 -> incl sct P -> Permutation sal sal2 ->
    Forall2 (@Permutation (Z * Z)) tr tr2 ->
    uniform_run h g tabs fuel m sa sct sal -> asym_run fuel m sa sct sal ->
    dres_rel2 (differentiation h g tabs fuel m sa sct sal tr) (differentiation h g2 tabs2 fuel m2 sa2 sct2 sal2 tr2).
  Proof.
    induction fuel as [|f IH]; intros m m2 sa sct sal sa2 sct2 sal2 tr tr2 Hnd Hm Hsa Hsct HP Hsal Htr Hu Has; [reflexivity|].
    destruct Hu as (P1 & P2 & P3 & K1 & K2 & K3 & K4 & Hnext). destruct Has as (Hasym & Hanext).
    assert (forall k, lbl m2 k = lbl m k) as Hl by (intros k; symmetry; apply lbl_perm; assumption).
    cbn [differentiation]. rewrite !if_fold.
    (* tetrahedrons *)
    destruct (pass_sim2 (th_envok tabs m) (th_sign g tabs m) (fun x => x) true zmem (lbl m) (lbl m)
                (th_envok tabs2 m2) (th_sign g2 tabs2 m2) (fun x => x) zmem (lbl m2) (lbl m2) (fun x : Z => x) (fun x : Z => x) sa sa
                Hl (fun x _ => Hl x) (fun x _ _ => eq_refl) (fun x _ => th_envok_same m m2 Hl x (Hth x))
                (fun x _ E => th_sign_same m m2 Hl x (Hth x) E)
                (fun a gr _ _ => f_equal (zmem a) (map_id gr)) zmem_ing_perm P1 sa2
                (eq_ind_r (fun l0 => Permutation l0 sa2) Hsa (map_id sa)) [] [] sa2
                (eq_ind_r (fun l0 => Permutation l0 sa2) Hsa (map_id sa)) (fun _ => eq_refl))
      as (u1 & u1' & r1 & r1' & E1 & E1' & Hr1 & Hz1 & Hk1 & Hi1).
    rewrite map_id in Hr1.
    rewrite <- (fold_left_ext2 _ _ _ _ (th_group_gen g tabs m)) in E1. rewrite <- (fold_left_ext2 _ _ _ _ (th_group_gen g2 tabs2 m2)) in E1'.
    rewrite E1, E1'. cbv beta iota. rewrite !if_fold_map.
    (* cis / trans *)
    assert (Permutation (map (fun x => ct_key m2 (phi (snd x))) (map (ct_key m) sct)) (map (ct_key m2) sct2)) as Hl2.
    { rewrite map_map. rewrite (map_ext (fun x => ct_key m2 (phi (snd (ct_key m x)))) (fun x => ct_key m2 (phi x))) by (intros x; rewrite snd_ct_key; reflexivity).
      rewrite <- (map_map phi (ct_key m2)). apply Permutation_map. exact Hsct. }
    assert (forall x, In x (map (ct_key m) sct) -> exists p, In p sct /\ x = ct_key m p) as Hel
      by (intros x Hx; apply in_map_iff in Hx; destruct Hx as [p [<- Hp]]; exists p; split; [exact Hp | reflexivity]).
    destruct (pass_sim2 (ct_envok tabs m) (ct_sign g tabs m) fst false ct_ing (lbl m) (fun x => lbl m (fst x))
                (ct_envok tabs2 m2) (ct_sign g2 tabs2 m2) fst ct_ing (lbl m2) (fun x => lbl m2 (fst x))
                (fun x => ct_key m2 (phi (snd x))) phi (map (ct_key m) sct) sct Hl) with (l2 := map (ct_key m2) sct2) (u := u1) (u2 := u1') (r2 := sct2)
      as (u2 & u2' & r2 & r2' & E2 & E2' & Hr2 & Hz2 & Hk2 & Hi2).
    { intros x Hx. destruct (Hel x Hx) as [p [Hp ->]]. rewrite snd_ct_key, !ct_key_lbl, !Hl.
      destruct (phi_ends p) as [(-> & -> & _)|(-> & -> & _)]; [reflexivity | apply Z.min_comm]. }
    { intros x Hx He. destruct (Hel x Hx) as [p [Hp ->]]. rewrite snd_ct_key. unfold ct_key. rewrite !Hl.
      destruct (phi_ends p) as [(-> & -> & _)|(-> & -> & Hf)].
      - destruct (_ <=? _); reflexivity.
      - pose proof (Hasym p Hp Hf He) as Hne.
        destruct (Z.leb_spec (lbl m (snd p)) (lbl m (fst p))), (Z.leb_spec (lbl m (fst p)) (lbl m (snd p))); cbn [fst]; try reflexivity; exfalso; lia. }
    { intros x Hx. destruct (Hel x Hx) as [p [Hp ->]]. rewrite snd_ct_key. apply (ct_envok_same m m2 Hl p (Hct p (HP p Hp))). }
    { intros x Hx E. destruct (Hel x Hx) as [p [Hp ->]]. rewrite snd_ct_key. apply (ct_sign_same m m2 Hl p (Hct p (HP p Hp)) E). }
    { intros a gr Ha Hgr. unfold ct_ing. rewrite existsb_map. apply existsb_ext_in. intros x Hx. destruct (Hel x (Hgr x Hx)) as [p [Hp ->]].
      rewrite !snd_ct_key. apply eq_iff_eq_true. rewrite !cpair_eqb_spec. split; [intros E; apply Hphi_inj; [apply HP; exact Ha | apply HP; exact Hp | exact E] | intros ->; reflexivity]. }
    { exact ct_ing_perm. }
    { exact P2. }
    { exact Hl2. }
    { exact Hsct. }
    { exact Hz1. }
    rewrite <- (fold_left_ext2 _ _ _ _ (ct_group_gen g tabs m)) in E2. rewrite <- (fold_left_ext2 _ _ _ _ (ct_group_gen g2 tabs2 m2)) in E2'.
    unfold pstate, labels in *. rewrite E2, E2'. cbv beta iota. rewrite !if_fold.
    (* allenes *)
    destruct (pass_sim2 (al_envok tabs m) (al_sign g tabs m) (fun x => x) false zmem (lbl m) (lbl m)
                (al_envok tabs2 m2) (al_sign g2 tabs2 m2) (fun x => x) zmem (lbl m2) (lbl m2) (fun x : Z => x) (fun x : Z => x) sal sal
                Hl (fun x _ => Hl x) (fun x _ _ => eq_refl) (fun x _ => al_envok_same m m2 Hl x (Hal x))
                (fun x _ E => al_sign_same m m2 Hl x (Hal x) E)
                (fun a gr _ _ => f_equal (zmem a) (map_id gr)) zmem_ing_perm P3 sal2
                (eq_ind_r (fun l0 => Permutation l0 sal2) Hsal (map_id sal)) u2 u2' sal2
                (eq_ind_r (fun l0 => Permutation l0 sal2) Hsal (map_id sal)) Hz2)
      as (u3 & u3' & r3 & r3' & E3 & E3' & Hr3 & Hz3 & Hk3 & Hi3).
    rewrite map_id in Hr3.
    rewrite <- (fold_left_ext2 _ _ _ _ (al_group_gen g tabs m)) in E3. rewrite <- (fold_left_ext2 _ _ _ _ (al_group_gen g2 tabs2 m2)) in E3'.
    unfold pstate, labels in *. rewrite E3, E3'. cbv beta iota.
    destruct u3 as [|p3 u3r] eqn:Hu3.
    - rewrite (zget_ext_nil [] u3' Hz3 eq_refl). cbn. repeat split; try reflexivity; assumption.
    - destruct u3' as [|p3' u3r'] eqn:Hu3'.
      { assert (p3 :: u3r = []) as Hx by (apply (zget_ext_nil [] (p3 :: u3r)); [intros k; symmetry; apply Hz3 | reflexivity]). discriminate. }
      rewrite <- Hu3, <- Hu3' in *.
      assert (forall k, zget u3 k <> None -> zmem k (keys m) = true) as Hkeys.
      { intros k Hk. destruct (Hk3 k Hk) as [Hk'|[x [Hx ->]]]; [|apply K4; exact Hx].
        destruct (Hk2 k Hk') as [Hk''|[x [Hx ->]]].
        - destruct (Hk1 k Hk'') as [Hn|[x [Hx ->]]]; [contradiction Hn; reflexivity | apply K1; exact Hx].
        - apply in_map_iff in Hx. destruct Hx as [nm [<- Hnm]]. unfold ct_key. destruct (_ <=? _); cbn [fst].
          + apply K2. apply in_map. exact Hnm.
          + apply K3. apply in_map. exact Hnm. }
      pose proof (merge_update_perm m m2 u3 u3' Hnd Hm Hz3 Hkeys) as Hmp.
      assert (NoDup (keys (merge_update m u3))) as Hnd' by (unfold labels in *; rewrite (keys_merge_update m u3 Hkeys); exact Hnd).
      pose proof (Hmorgan _ _ Hnd' Hmp) as Hres. unfold res_perm in Hres.
      destruct (Morgan.morgan h (merge_update m u3) (int_adjacency g)) as [m'|e] eqn:Em;
        destruct (Morgan.morgan h (merge_update m2 u3') (int_adjacency g2)) as [m2'|e2] eqn:Em2; try contradiction; [|exact Hres].
      apply IH; try assumption.
      + apply (morgan_keys_nodup h _ _ m' Hnd' Hadjnd Em).
      + intros p Hp. apply HP. apply Hi2. exact Hp.
      + apply Forall2_app; [exact Htr | constructor; [exact Hmp | constructor]].
      + apply (Hnext u1 r1 u2 r2 u3 r3 m' E1 E2 E3 Em).
      + apply (Hanext u1 r1 u2 r2 u3 r3 m' E1 E2 E3 Em).
  Qed.
End Reinsert.

(* ---------- `_chiral_morgan` of two descriptions ---------- *)
Definition cmres_perm (r r2 : pyres (labels * list labels)) : Prop :=
  match r, r2 with
  | Ok (W, tr), Ok (W2, tr2) => Permutation W W2 /\ Forall2 (@Permutation (Z * Z)) tr tr2
  | Err e, Err e2 => e = e2
  | _, _ => False
  end.

Lemma int_adjacency_strip g : int_adjacency (strip g) = int_adjacency g.
Proof.
  unfold int_adjacency, strip. cbn [m_adj]. rewrite map_map. apply map_ext. intros [n row]. cbn [fst snd]. f_equal. rewrite map_map.
  apply map_ext. intros [m b]. reflexivity.
Qed.

Theorem chiral_morgan_two_descriptions (h : list Z -> Z) (g g1 : mol) (tabs tabs1 : cmtabs) (flipc : Z * Z -> bool) (ao ao1 : labels) (ord ord1 : cmorders) :
  wf_mol (strip g) = true -> mol_perm (strip g) (strip g1) ->
  (forall x, cm_isH g x = false) -> (forall x, cm_isH g1 x = false) -> has_stereo_labels g1 = has_stereo_labels g ->
  (forall n, th_rel g g1 tabs tabs1 n) -> (forall c, al_rel g g1 tabs tabs1 c) -> (forall p, In p (o_ct ord) -> ct_rel g g1 tabs tabs1 flipc p) ->
  (forall p q, In p (o_ct ord) -> In q (o_ct ord) -> phi flipc p = phi flipc q -> p = q) ->
  NoDup (keys ao) -> Permutation ao ao1 ->
  Permutation (o_atoms ord) (o_atoms ord1) -> Permutation (map (phi flipc) (o_ct ord)) (o_ct ord1) -> Permutation (o_al ord) (o_al ord1) ->
  uniform_run h g tabs (diff_fuel ord) ao (o_atoms ord) (o_ct ord) (o_al ord) ->
  asym_run h g tabs flipc (diff_fuel ord) ao (o_atoms ord) (o_ct ord) (o_al ord) ->
  cmres_perm (chiral_morgan h g tabs ao ord) (chiral_morgan h g1 tabs1 ao1 ord1).
Proof.
  intros Hwf [_ Hadj] HnH HnH1 Hhas Hth Hal Hct Hinj Hnd Hao H1 H2 H3 Hu Has.
  destruct (wf_mol_inv (strip g) Hwf) as [Hk [Hn _]].
  assert (NoDup (keys (int_adjacency g))) as Hadjnd.
  { rewrite <- int_adjacency_strip, keys_int_adjacency. rewrite Hk in Hn. exact Hn. }
  assert (forall inp inp2, NoDup (keys inp) -> Permutation inp inp2 ->
            res_perm (Morgan.morgan h inp (int_adjacency g)) (Morgan.morgan h inp2 (int_adjacency g1))) as Hmorgan.
  { intros inp inp2 Hni Hp. apply morgan_perm; [exact Hni | exact Hadjnd | exact Hp|].
    rewrite <- (int_adjacency_strip g), <- (int_adjacency_strip g1). apply adj_perm_int_adjacency. exact Hadj. }
  unfold chiral_morgan. rewrite Hhas. destruct (negb (has_stereo_labels g)).
  { cbn. split; [exact Hao | constructor]. }
  assert (diff_fuel ord1 = diff_fuel ord) as ->.
  { unfold diff_fuel. rewrite <- (Permutation_length H1), <- (Permutation_length H2), <- (Permutation_length H3), map_length. reflexivity. }
  generalize (S (List.length (m_atoms g))) as F. generalize (S (List.length (m_atoms g1))) as F1. intros F1 F. cbn [chiral_loop].
  match goal with |- cmres_perm (match ?A with _ => _ end) (match ?B with _ => _ end) => set (D := A); set (D1 := B) end.
  assert (dres_rel2 D D1) as Hd.
  { apply (diff_sim2 h g g1 tabs tabs1 flipc (o_ct ord) HnH (fun x => eq_trans (HnH1 x) (eq_sym (HnH x))) Hmorgan Hadjnd Hth Hal Hct Hinj
                (diff_fuel ord) ao ao1 (o_atoms ord) (o_ct ord) (o_al ord) (o_atoms ord1) (o_ct ord1) (o_al ord1) [] []
                Hnd Hao H1 H2 (fun p Hp => Hp) H3 (Forall2_nil _) Hu Has). }
  clearbody D D1. unfold dres_rel2 in Hd. destruct D as [d|e], D1 as [d1|e1]; try contradiction; [|exact Hd].
  destruct Hd as (E1 & E2 & G1 & G2 & G3 & G4 & G5 & G6). rewrite G1, G2, G3, G4, G5, G6. cbn. split; assumption.
Qed.
