(* C08 -- denotation of branched SMARTS texts with bracket atoms and unbracketed atoms:
     tree := atom ( "(" bond tree ")" )* ( bond tree )?      atom := "[" body "]" | N O P S F I C B Cl Br c n o p s b
   The tokenizer produces exactly the tokens of Proofs.SmartsTree, hence smarts_full builds the atoms in the order written and
   bonds every atom to its parent in the tree with the documented orders / ring mark of its bond spelling. *)
From Coq Require Import ZArith List String Ascii Bool Lia.
From Gen Require Import Elements TokenTables SmartsTables.
From Model Require Import PyBase Graph PeriodicTable Tokenize Smarts Query SmartsFull.
From Model Require Parser.
From Proofs Require Import QueryProofs SmartsProofs SmartsDenote SmartsDenoteText SmartsTree.
Import ListNotations.
Open Scope Z_scope.

(* ---------------------------------------------------------------- tokenizer states between items *)
Definition pendCB (st : tstate) : Prop := t_type st = Some 0 /\ (t_pend st = PdStr "C" \/ t_pend st = PdStr "B").
(* after an atom or a closing parenthesis *)
Definition aft (st : tstate) : Prop := (t_pend st = PdNone /\ In (t_type st) [Some 0; Some 8; Some 3; Some 6]) \/ pendCB st.
(* where a bond spelling may start: after an atom / ")" or after "(" *)
Definition bondpre (st : tstate) : Prop := aft st \/ (t_pend st = PdNone /\ t_type st = Some 2).
(* where an atom may start *)
Definition bef (st : tstate) : Prop := bondpre st \/ (t_pend st = PdNone /\ In (t_type st) [None; Some 1; Some 4]).

Ltac st_cases H :=
  unfold bef, bondpre, aft, pendCB in H; cbn [In] in H;
  repeat match type of H with
         | _ \/ _ => destruct H as [H|H]
         | _ /\ _ => let A := fresh in let B := fresh in destruct H as [A B]; try (st_cases A); try (st_cases B)
         | False => destruct H
         end.

Lemma bracket_loop' st body rest : bef st -> nobr body -> body <> [] ->
  tok_loop tok_step st ("["%char :: body ++ "]"%char :: rest) =
  tok_loop tok_step (mkT (Some 0) PdNone ((5, PStr (string_of_list_ascii body)) :: flushed st)) rest.
Proof.
  intros Hs Hb Hn. destruct st as [ty pd toks].
  assert (E : tok_step (mkT ty pd toks) "[" = Ok (mkT (Some 5) (PdChars []) (flushed (mkT ty pd toks)))).
  { unfold bef, bondpre, aft, pendCB in Hs. cbn [t_type t_pend In] in Hs.
    repeat match goal with H : _ \/ _ |- _ => destruct H | H : _ /\ _ |- _ => destruct H | H : False |- _ => destruct H end; subst; reflexivity. }
  cbn [tok_loop]. rewrite E. rewrite (body_loop body [] _ ("]"%char :: rest) Hb). cbn [app tok_loop].
  destruct body as [|c r]; [congruence|]. reflexivity.
Qed.

Ltac cases_st Hs :=
  unfold bef, bondpre, aft, pendCB in Hs; cbn [t_type t_pend In] in Hs;
  repeat match goal with H : _ \/ _ |- _ => destruct H | H : _ /\ _ |- _ => destruct H | H : False |- _ => destruct H end; subst.

(* a bond core after an atom, ")" or "(" *)
Lemma core_loop' c st rest : bondpre st -> core_ok c ->
  tok_loop tok_step st (spell_core c ++ rest) =
  tok_loop tok_step (mkT (match c with CSym _ => Some 1 | _ => None end) PdNone (core_token c :: flushed st)) rest.
Proof.
  intros Hs H. destruct st as [ty pd toks]. cases_st Hs;
    (destruct c as [a|a b|a]; [destruct a | destruct a, b | destruct a; try contradiction]; reflexivity).
Qed.

Lemma bond_loop' b st rest : bondpre st -> bond_ok b ->
  exists st', bef st' /\ flushed st' = (match bond_token b with Some t => [t] | None => [] end ++ flushed st)%list /\
              tok_loop tok_step st (spell_bond b ++ rest) = tok_loop tok_step st' rest.
Proof.
  intros Hs H. destruct b as [|c [r|]]; cbn [spell_bond bond_token].
  - exists st. split; [left; exact Hs|]. split; reflexivity.
  - eexists. split; [|split; [|rewrite <- app_assoc, (core_loop' c st _ Hs H), (ring_loop c r _ rest); reflexivity]].
    + right. split; [reflexivity | left; reflexivity].
    + reflexivity.
  - eexists. split; [|split; [|rewrite app_nil_r; apply (core_loop' c st rest Hs H)]].
    + right. split; [reflexivity | destruct c; [right; left; reflexivity | left; reflexivity | left; reflexivity]].
    + reflexivity.
Qed.

Lemma open_loop st rest : aft st ->
  tok_loop tok_step st ("("%char :: rest) = tok_loop tok_step (mkT (Some 2) PdNone ((2, PNone) :: flushed st)) rest.
Proof. intros Hs. destruct st as [ty pd toks]. cases_st Hs; reflexivity. Qed.
Lemma close_loop st rest : aft st ->
  tok_loop tok_step st (")"%char :: rest) = tok_loop tok_step (mkT (Some 3) PdNone ((3, PNone) :: flushed st)) rest.
Proof. intros Hs. destruct st as [ty pd toks]. cases_st Hs; reflexivity. Qed.

(* unbracketed atoms *)
Inductive usym := UN | UO | UP | US | UF | UI | UC | UB | UCl | UBr | Uc | Un | Uo | Up | Us | Ub.
Definition usym_text (u : usym) : list ascii :=
  match u with
  | UN => ["N"] | UO => ["O"] | UP => ["P"] | US => ["S"] | UF => ["F"] | UI => ["I"] | UC => ["C"] | UB => ["B"]
  | UCl => ["C"; "l"] | UBr => ["B"; "r"] | Uc => ["c"] | Un => ["n"] | Uo => ["o"] | Up => ["p"] | Us => ["s"] | Ub => ["b"]
  end%char.
Definition usym_token (u : usym) : token :=
  match u with
  | UN => (0, PStr "N") | UO => (0, PStr "O") | UP => (0, PStr "P") | US => (0, PStr "S") | UF => (0, PStr "F") | UI => (0, PStr "I")
  | UC => (0, PStr "C") | UB => (0, PStr "B") | UCl => (0, PStr "Cl") | UBr => (0, PStr "Br")
  | Uc => (8, PStr "C") | Un => (8, PStr "N") | Uo => (8, PStr "O") | Up => (8, PStr "P") | Us => (8, PStr "S") | Ub => (8, PStr "B")
  end%string.

Lemma usym_loop u st rest : bef st ->
  exists st', aft st' /\ flushed st' = usym_token u :: flushed st /\
              tok_loop tok_step st (usym_text u ++ rest) = tok_loop tok_step st' rest.
Proof.
  intros Hs. destruct st as [ty pd toks].
  cases_st Hs; destruct u; (eexists; split; [|split; [|reflexivity]];
    [first [left; split; [reflexivity | cbn; tauto] | right; split; [reflexivity | cbn; tauto]] | reflexivity]).
Qed.

(* ---------------------------------------------------------------- trees of text *)
Inductive tatom := TBr (body : list ascii) | TSym (u : usym).
Inductive ttree := TNode (a : tatom) (p : Query.parsed) (kids : tforest)
with tforest :=
| TNil
| TBranch (b : bspell) (t : ttree) (rest : tforest)
| TNext (b : bspell) (t : ttree).
Scheme ttree_mind := Induction for ttree Sort Prop
with tforest_mind := Induction for tforest Sort Prop.
Combined Scheme ttree_tforest_mind from ttree_mind, tforest_mind.

Definition atom_text (a : tatom) : list ascii := match a with TBr body => bracket body | TSym u => usym_text u end.
Definition atom_raw (a : tatom) : token := match a with TBr body => (5, PStr (string_of_list_ascii body)) | TSym u => usym_token u end.
(* what the atom must parse to *)
Definition atom_ok (a : tatom) (p : Query.parsed) : Prop :=
  match a with
  | TBr body => body_ok body p
  | TSym u => p = simple_query (match snd (usym_token u) with PStr s => s | _ => ""%string end)
  end.

Fixpoint text_tree (t : ttree) : list ascii :=
  match t with TNode a _ f => (atom_text a ++ text_forest f)%list end
with text_forest (f : tforest) : list ascii :=
  match f with
  | TNil => []
  | TBranch b t r => ("("%char :: spell_bond b ++ text_tree t ++ ")"%char :: text_forest r)%list
  | TNext b t => (spell_bond b ++ text_tree t)%list
  end.
Fixpoint raw_tree (t : ttree) : list token :=
  match t with TNode a _ f => atom_raw a :: raw_forest f end
with raw_forest (f : tforest) : list token :=
  match f with
  | TNil => []
  | TBranch b t r => ((2, PNone) :: optb (bond_token b) ++ raw_tree t ++ (3, PNone) :: raw_forest r)%list
  | TNext b t => (optb (bond_token b) ++ raw_tree t)%list
  end.
Fixpoint tok_ok_tree (t : ttree) : Prop :=
  match t with TNode a p f => atom_ok a p /\ tok_ok_forest f end
with tok_ok_forest (f : tforest) : Prop :=
  match f with
  | TNil => True
  | TBranch b t r => bond_ok b /\ tok_ok_tree t /\ tok_ok_forest r
  | TNext b t => bond_ok b /\ tok_ok_tree t
  end.
(* the tree of tokens it stands for *)
Fixpoint to_tree (t : ttree) : tree :=
  match t with TNode _ p f => Node p (to_forest f) end
with to_forest (f : tforest) : forest :=
  match f with
  | TNil => FNil
  | TBranch b t r => FBranch (bond_token b) (to_tree t) (to_forest r)
  | TNext b t => FNext (bond_token b) (to_tree t)
  end.

Lemma atom_loop a p st rest : bef st -> atom_ok a p ->
  exists st', aft st' /\ flushed st' = atom_raw a :: flushed st /\
              tok_loop tok_step st (atom_text a ++ rest) = tok_loop tok_step st' rest.
Proof.
  intros Hs Ha. destruct a as [body|u]; cbn [atom_text atom_raw].
  - destruct Ha as [Hn [Hne _]]. eexists. split; [|split; [|unfold bracket; cbn [app]; rewrite <- app_assoc; cbn [app];
      apply (bracket_loop' st body rest Hs Hn Hne)]].
    + left. split; [reflexivity | cbn; tauto].
    + reflexivity.
  - apply usym_loop. exact Hs.
Qed.

Definition Q_tree (t : ttree) : Prop := forall st rest, bef st -> tok_ok_tree t ->
  exists st', aft st' /\ flushed st' = (rev (raw_tree t) ++ flushed st)%list /\
              tok_loop tok_step st (text_tree t ++ rest) = tok_loop tok_step st' rest.
Definition Q_forest (f : tforest) : Prop := forall st rest, aft st -> tok_ok_forest f ->
  exists st', aft st' /\ flushed st' = (rev (raw_forest f) ++ flushed st)%list /\
              tok_loop tok_step st (text_forest f ++ rest) = tok_loop tok_step st' rest.

Lemma text_loop : (forall t, Q_tree t) /\ (forall f, Q_forest f).
Proof.
  apply ttree_tforest_mind; unfold Q_tree, Q_forest.
  - intros a p f IHf st rest Hs [Ha Hf]. cbn [text_tree raw_tree]. rewrite <- app_assoc.
    destruct (atom_loop a p st (text_forest f ++ rest) Hs Ha) as [s1 [A1 [F1 E1]]]. rewrite E1.
    destruct (IHf s1 rest A1 Hf) as [s2 [A2 [F2 E2]]]. exists s2. split; [exact A2|]. split; [|exact E2].
    rewrite F2, F1. cbn [rev]. rewrite <- app_assoc. reflexivity.
  - intros st rest Hs _. exists st. split; [exact Hs|]. split; reflexivity.
  - intros b t IHt r IHr st rest Hs [Hb [Ht Hr]]. cbn [text_forest raw_forest app].
    rewrite (open_loop st _ Hs). rewrite <- !app_assoc.
    destruct (bond_loop' b (mkT (Some 2) PdNone ((2, PNone) :: flushed st)) (text_tree t ++ (")"%char :: text_forest r) ++ rest)
                ltac:(right; split; reflexivity) Hb) as [s1 [B1 [F1 E1]]]. rewrite E1.
    destruct (IHt s1 ((")"%char :: text_forest r) ++ rest)%list B1 Ht) as [s2 [A2 [F2 E2]]]. rewrite E2.
    cbn [app]. rewrite (close_loop s2 _ A2).
    destruct (IHr (mkT (Some 3) PdNone ((3, PNone) :: flushed s2)) rest ltac:(left; split; [reflexivity | cbn; tauto]) Hr) as [s3 [A3 [F3 E3]]].
    exists s3. split; [exact A3|]. split; [|exact E3].
    rewrite F3. cbn [flushed truthy t_pend t_toks]. rewrite F2, F1. cbn [flushed truthy t_pend t_toks].
    cbn [rev]. rewrite !rev_app_distr. cbn [rev]. rewrite <- !app_assoc. cbn [app].
    destruct (bond_token b); cbn [optb rev app]; reflexivity.
  - intros b t IHt st rest Hs [Hb Ht]. cbn [text_forest raw_forest]. rewrite <- app_assoc.
    destruct (bond_loop' b st (text_tree t ++ rest) ltac:(left; exact Hs) Hb) as [s1 [B1 [F1 E1]]]. rewrite E1.
    destruct (IHt s1 rest B1 Ht) as [s2 [A2 [F2 E2]]]. exists s2. split; [exact A2|]. split; [|exact E2].
    rewrite F2, F1. rewrite rev_app_distr. rewrite <- app_assoc. destruct (bond_token b); reflexivity.
Qed.

Lemma tokenize_tree t : tok_ok_tree t -> tokenize_raw (string_of_list_ascii (text_tree t)) = Ok (raw_tree t).
Proof.
  intros Hok. unfold tokenize_raw, tokenize_raw_with. rewrite list_ascii_of_string_of_list_ascii.
  destruct (proj1 text_loop t t_init [] ltac:(right; split; [reflexivity | cbn; tauto]) Hok) as [st [A [F E]]].
  rewrite app_nil_r in E. rewrite E. cbn [tok_loop]. cbn [flushed truthy t_init t_pend t_toks] in F. rewrite app_nil_r in F.
  unfold tok_finish.
  assert (T : tt_is st 5 = false /\ tt_is st 7 = false /\ tt_is st 11 = false /\ tt_is st 12 = false).
  { destruct st as [ty pd toks]. unfold aft, pendCB in A. cbn [t_type t_pend In] in A.
    repeat match goal with H : _ \/ _ |- _ => destruct H | H : _ /\ _ |- _ => destruct H | H : False |- _ => destruct H end; subst;
      repeat split; reflexivity. }
  destruct T as [-> [-> [-> ->]]]. rewrite F, rev_involutive. reflexivity.
Qed.

Lemma split_step t ts toks ps st : smarts_token t = Ok st -> split_tokens ts = Ok (toks, ps) ->
  split_tokens (t :: ts) = Ok (match st with SAtom p => (atom_token (p_stereo p) :: toks, p :: ps) | STok t' => (t' :: toks, ps) end).
Proof. intros H1 H2. cbn [split_tokens]. rewrite H1, H2. destruct st; reflexivity. Qed.

Lemma atom_raw_token a p : atom_ok a p -> smarts_token (atom_raw a) = Ok (SAtom p).
Proof.
  destruct a as [body|u]; cbn [atom_ok atom_raw].
  - intros [_ [_ Hq]]. cbn [smarts_token Z.eqb Pos.eqb orb]. rewrite list_ascii_of_string_of_list_ascii, Hq. reflexivity.
  - intros ->. destruct u; reflexivity.
Qed.

Definition S_tree (t : ttree) : Prop := forall rest toks ps, tok_ok_tree t -> split_tokens rest = Ok (toks, ps) ->
  split_tokens (raw_tree t ++ rest) = Ok ((tok_tree (to_tree t) ++ toks)%list, (atoms_tree (to_tree t) ++ ps)%list).
Definition S_forest (f : tforest) : Prop := forall rest toks ps, tok_ok_forest f -> split_tokens rest = Ok (toks, ps) ->
  split_tokens (raw_forest f ++ rest) = Ok ((tok_forest (to_forest f) ++ toks)%list, (atoms_forest (to_forest f) ++ ps)%list).

Lemma split_optb b rest toks ps : bond_ok b -> split_tokens rest = Ok (toks, ps) ->
  split_tokens (optb (bond_token b) ++ rest) = Ok ((optb (bond_token b) ++ toks)%list, ps).
Proof.
  intros Hb H. pose proof (proj1 (bond_token_meaning b Hb)) as Ht. destruct (bond_token b) as [t|]; cbn [optb app]; [|exact H].
  rewrite (split_tokens_bond t rest Ht), H. reflexivity.
Qed.

Lemma split_tree : (forall t, S_tree t) /\ (forall f, S_forest f).
Proof.
  apply ttree_tforest_mind; unfold S_tree, S_forest.
  - intros a p f IHf rest toks ps [Ha Hf] H. cbn [raw_tree to_tree tok_tree atoms_tree app].
    rewrite (split_step _ _ _ _ _ (atom_raw_token a p Ha) (IHf rest toks ps Hf H)). reflexivity.
  - intros rest toks ps _ H. exact H.
  - intros b t IHt r IHr rest toks ps [Hb [Ht Hr]] H. cbn [raw_forest to_forest tok_forest atoms_forest app].
    rewrite <- !app_assoc. cbn [app].
    assert (R := IHr rest toks ps Hr H).
    assert (C : split_tokens (((3, PNone) :: raw_forest r) ++ rest) = Ok ((3, PNone) :: tok_forest (to_forest r) ++ toks, atoms_forest (to_forest r) ++ ps)%list).
    { cbn [app]. apply (split_step (3, PNone) _ _ _ (STok (3, PNone)) eq_refl R). }
    assert (T := IHt _ _ _ Ht C).
    assert (B := split_optb b _ _ _ Hb T).
    etransitivity; [exact (split_step (2, PNone) _ _ _ (STok (2, PNone)) eq_refl B)|].
    cbn [app]. rewrite <- ?app_assoc. cbn [app]. rewrite <- ?app_assoc. reflexivity.
  - intros b t IHt rest toks ps [Hb Ht] H. cbn [raw_forest to_forest tok_forest atoms_forest]. rewrite <- !app_assoc.
    apply (split_optb b _ _ _ Hb). apply IHt; assumption.
Qed.

Lemma to_tree_ok : (forall t, tok_ok_tree t -> ok_tree (to_tree t)) /\ (forall f, tok_ok_forest f -> ok_forest (to_forest f)).
Proof.
  apply ttree_tforest_mind.
  - intros a p f IH [_ H]. exact (IH H).
  - intros _. exact I.
  - intros b t IHt r IHr [Hb [Ht Hr]]. cbn [to_forest ok_forest]. split; [exact (proj1 (bond_token_meaning b Hb))|]. split; [apply IHt | apply IHr]; assumption.
  - intros b t IHt [Hb Ht]. cbn [to_forest ok_forest]. split; [exact (proj1 (bond_token_meaning b Hb)) | apply IHt; exact Ht].
Qed.

(* ---------------------------------------------------------------- the theorem *)
Theorem tree_text_denotation t qs :
  tok_ok_tree t ->
  Forall2 (fun p q => build_atom p = Ok q) (atoms_tree (to_tree t)) qs ->
  NoDup (explicit_maps (atoms_tree (to_tree t))) ->
  Forall payload_valid (bonds_forest (kids_of (to_tree t)) 0 1) ->
  smarts_full (string_of_list_ascii (text_tree t)) =
  Ok (map (fun pq => atom_result (fst pq) (snd pq)) (combine (atoms_tree (to_tree t)) qs),
      map to_sbond (bonds_forest (kids_of (to_tree t)) 0 1)).
Proof.
  intros Hok Hat Hnd Hv. unfold smarts_full.
  assert (Es : String.eqb (string_of_list_ascii (text_tree t)) "" = false).
  { destruct t as [[body|u] p f]; [reflexivity | destruct u; reflexivity]. }
  rewrite Es, (tokenize_tree t Hok).
  pose proof (proj1 split_tree t [] [] [] Hok eq_refl) as S. rewrite !app_nil_r in S. rewrite S.
  apply tree_denotation; [apply (proj1 to_tree_ok); exact Hok | exact Hat | exact Hnd | exact Hv].
Qed.

(* non-vacuity: a branched pattern with bracket atoms, unbracketed atoms (aliphatic, aromatic, two-letter) and every kind of bond *)
Definition qp (body : string) : Query.parsed := match query_parse (s2l body) with Ok p => p | Err _ => simple_query "" end.
Definition ex_tree : ttree :=
  TNode (TBr (s2l "C;D3")) (qp "C;D3")
    (TBranch (BCore (CSym Bdouble) None) (TNode (TSym UO) (simple_query "O") TNil)
    (TBranch (BCore (COr Bsingle Barom) (Some true)) (TNode (TBr (s2l "N,O")) (qp "N,O") TNil)
    (TNext BNone (TNode (TSym Uc) (simple_query "C")
       (TNext (BCore (CNot Bsingle) None) (TNode (TBr (s2l "#6;a")) (qp "#6;a")
          (TNext BNone (TNode (TSym UCl) (simple_query "Cl") TNil)))))))).
Theorem tree_text_example :
  tok_ok_tree ex_tree /\
  string_of_list_ascii (text_tree ex_tree) = "[C;D3](=O)(-,:;@[N,O])c!-[#6;a]Cl"%string /\
  smarts_full "[C;D3](=O)(-,:;@[N,O])c!-[#6;a]Cl" =
  Ok ([(QElem 6 None (mkQX 0 false [3] [] [] [] [] false), None); (QElem 8 None (mkQX 0 false [] [] [] [] [] false), None);
       (QList [7; 8] (mkQX 0 false [] [] [] [] [] false), None); (QElem 6 None (mkQX 0 false [] [] [] [] [] false), None);
       (QElem 6 None (mkQX 0 false [] [4] [] [] [] false), None); (QElem 17 None (mkQX 0 false [] [] [] [] [] false), None)],
      [mkSB 1 0 (mkQB [2] None) None; mkSB 2 0 (mkQB [1; 4] (Some true)) None; mkSB 3 0 (mkQB [1] None) None;
       mkSB 4 3 (mkQB [2; 3; 4] None) None; mkSB 5 4 (mkQB [1] None) None]).
Proof.
  split; [|split; vm_compute; reflexivity].
  assert (B : forall body, forallb (fun c => negb (Ascii.eqb c "[" || Ascii.eqb c "]")) (s2l body) = true -> s2l body <> [] ->
                           query_parse (s2l body) = Ok (qp body) -> body_ok (s2l body) (qp body)) by (intros; repeat split; assumption).
  cbn [ex_tree tok_ok_tree tok_ok_forest atom_ok bond_ok core_ok].
  repeat split; try exact I; try reflexivity; apply B; (reflexivity || discriminate || (vm_compute; reflexivity)).
Qed.
