(* C20 extension 5: the constants and test shapes the hand-written models copy from stereo.py / element.py are regenerated on
   every run (Gen.RdkitConsts, tools/gen_rdkit_consts.py); here the hand models are proved to BE the generated ones. *)
From Coq Require Import ZArith List String Bool Lia.
From Model Require Import PyBase Graph PeriodicTable Stereo Rdkit RdkitRegistry.
From Gen Require Import Elements RdkitTables RdkitConsts.
Import ListNotations.
Open Scope Z_scope.

Definition is_nil {A} (l : list A) : bool := match l with [] => true | _ => false end.
(* `[not] A and [not] B` over two Python sets *)
Definition entry_test (neg : bool * bool) (a b : list Z) : bool :=
  (if fst neg then is_nil a else negb (is_nil a)) && (if snd neg then is_nil b else negb (is_nil b)).

Theorem models_use_generated_constants :
  (* __chiral_centers: ring cut-off *)
  (forall sizes, ring_bond_chiral sizes = negb (existsb (fun x => x <? ring_small_below) sizes)) /\
  (* _chiral_morgan: entry test *)
  (forall a b, uses_plain_order a b = entry_test plain_order_negated a b) /\
  (* tetrahedrons / stereogenic_tetrahedrons *)
  (forall g n, is_tetrahedron g n =
     match atom_of g n with
     | Some a => (a_num a =? stereo_C) && (a_chg a =? 0) && negb (a_rad a) &&
                 forallb (fun mb => b_ord (snd mb) =? tetra_bond_order) (nbrs g n) &&
                 negb (tetra_max_bonds <? Z.of_nat (List.length (nbrs g n)))
     | None => false
     end) /\
  (forall g x, is_hydrogen g x = match atom_of g x with Some a => a_num a =? stereo_H | None => false end) /\
  (forall k : Z, ((k =? 3) || (k =? 4)) = zmem k tetra_env_sizes) /\
  (* Element.charge setter, as used by from_atom *)
  (forall chg, ((4 <? chg) || (chg <? -4)) = ((charge_max <? chg) || (chg <? charge_min))).
Proof.
  repeat split; try reflexivity.
  - intros a b. destruct a, b; reflexivity.
  - intros k. cbn. rewrite orb_false_r. reflexivity.
Qed.
