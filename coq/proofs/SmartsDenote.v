(* C08 -- denotation of linear SMARTS patterns at the token level: for a chain  atom (bond? atom)*  of smarts_tokenize tokens
   (bond tokens of type 1 / 10 / 12, no direction marks, branches or ring closures) the whole of smarts() after tokenizing
   builds exactly the named atoms, in order, and exactly one bond between consecutive atoms with the orders and ring mark of
   its token (single when there is none), with no cis/trans flag. *)
From Coq Require Import ZArith List String Ascii Bool Lia.
From Gen Require Import Elements TokenTables SmartsTables.
From Model Require Import PyBase Graph PeriodicTable Tokenize Smarts Query SmartsFull.
From Model Require Parser.
Import ListNotations.
Open Scope Z_scope.

Import Parser.

(* the state of the parser after k atoms of a chain *)
Definition CI (k : nat) (bs : list (Z * Z * payload)) (s : pstate) : Prop :=
  (1 <= k)%nat /\ ps_n s = Z.of_nat k /\ ps_last s = Z.of_nat k - 1 /\ List.length (ps_atoms s) = k /\ ps_types s = repeat 0 k /\
  ps_bonds s = bs /\ ps_stack s = [] /\ ps_cycles s = [] /\ ps_sbonds s = [] /\ ps_prev s = None.

Lemma nth_error_repeat {A} (x : A) k i : (i < k)%nat -> nth_error (repeat x k) i = Some x.
Proof. revert i. induction k as [|k IH]; intros i H; [lia|]. destruct i; cbn; [reflexivity | apply IH; lia]. Qed.

Lemma type_at_chain k bs s : CI k bs s -> type_at s (ps_last s) = Ok 0.
Proof.
  intros [H1 [H2 [H3 [H4 [H5 _]]]]]. unfold type_at. rewrite H3, H5.
  destruct (Z.of_nat k - 1 <? 0) eqn:E; [apply Z.ltb_lt in E; lia|].
  rewrite nth_error_repeat; [reflexivity | lia].
Qed.

Definition is_bond_tok (t : token) : Prop :=
  (exists o, t = (1, PInt o)) \/ (exists l, t = (10, PZs l)) \/ (exists l r, t = (12, PQB l r)).
Definition bond_value (b : option token) : payload := match b with Some (_, v) => v | None => PInt 1 end.

Lemma step_bond_tok k bs s t : CI k bs s -> is_bond_tok t -> step false s t = Ok (set_prev s (Some t)).
Proof.
  intros [H1 [H2 [H3 [H4 [H5 [H6 [H7 [H8 [H9 H10]]]]]]]]] Ht. unfold step.
  assert (Hat : ps_atoms s <> []) by (intros E; rewrite E in H4; cbn in H4; lia).
  destruct Ht as [[o ->]|[[l ->]|[l [r ->]]]]; cbn [Z.eqb Pos.eqb zmem existsb orb]; rewrite H10;
    (destruct (ps_atoms s); [congruence | reflexivity]).
Qed.

Lemma step_atom_chain k bs s b a : CI k bs s -> match b with Some t => is_bond_tok t | None => True end ->
  exists s', step false (set_prev s b) (0, PAtom a) = Ok s' /\
             CI (S k) (bs ++ [(Z.of_nat k, Z.of_nat k - 1, bond_value b)]) s'.
Proof.
  intros HC Hb. pose proof (type_at_chain k bs s HC) as HT.
  destruct HC as [H1 [H2 [H3 [H4 [H5 [H6 [H7 [H8 [H9 H10]]]]]]]]].
  destruct s as [atoms types bonds order n last stack cycles satoms sbonds prev lg].
  cbn [ps_n ps_last ps_atoms ps_types ps_bonds ps_stack ps_cycles ps_sbonds ps_prev] in *. subst.
  destruct atoms as [|a0 ar]; [cbn in H1; lia|].
  assert (Fin : forall bonds' order' sat,
            CI (S (List.length (a0 :: ar))) bonds'
               (mkP ((a0 :: ar) ++ [mkAt (at_el a) (at_iso a) (at_map a) (at_chg a) (at_h a) None])
                    (repeat 0 (List.length (a0 :: ar)) ++ [0]) bonds' order' (Z.of_nat (List.length (a0 :: ar)) + 1)
                    (Z.of_nat (List.length (a0 :: ar))) [] [] sat [] None lg)).
  { intros bonds' order' sat. unfold CI. cbn [ps_n ps_last ps_atoms ps_types ps_bonds ps_stack ps_cycles ps_sbonds ps_prev].
    repeat split; try lia.
    - rewrite app_length. cbn [List.length]. lia.
    - change [0] with (repeat 0 1). rewrite <- repeat_app. f_equal. lia. }
  unfold step, set_prev. cbn [ps_n ps_last ps_atoms ps_types ps_bonds ps_stack ps_cycles ps_sbonds ps_prev ps_order ps_satoms ps_log].
  cbn [Z.eqb Pos.eqb zmem existsb orb].
  destruct b as [[bt bv]|].
  - destruct Hb as [[o E]|[[l E]|[l [r E]]]]; inversion E; subst; cbn [Z.eqb Pos.eqb zmem existsb orb bond_value];
      (eexists; split; [reflexivity | apply Fin]).
  - unfold type_at in HT |- *. cbn [ps_types ps_last] in HT |- *. 
    destruct (Z.of_nat (List.length (a0 :: ar)) - 1 <? 0); [discriminate|].
    destruct (nth_error _ _) as [t|]; [|discriminate]. inversion HT; subst.
    eexists; split; [reflexivity | apply Fin].
Qed.

Lemma set_prev_same s : ps_prev s = None -> set_prev s None = s.
Proof. destruct s. cbn. intros ->. reflexivity. Qed.

(* a chain: the first atom, then (optional bond token, atom) links *)
Definition link := (option token * Query.parsed)%type.
Definition link_tokens (x : link) : list token :=
  (match fst x with Some t => [t] | None => [] end) ++ [atom_token (p_stereo (snd x))].
Definition chain_tokens (p0 : Query.parsed) (rest : list link) : list token :=
  atom_token (p_stereo p0) :: flat_map link_tokens rest.
Fixpoint chain_bonds (k : nat) (rest : list link) : list (Z * Z * payload) :=
  match rest with
  | [] => []
  | x :: r => (Z.of_nat k, Z.of_nat k - 1, bond_value (fst x)) :: chain_bonds (S k) r
  end.
Definition link_ok (x : link) : Prop := match fst x with Some t => is_bond_tok t | None => True end.

Lemma chain_loop rest : forall k bs s, CI k bs s -> Forall link_ok rest ->
  exists s', loop false s (flat_map link_tokens rest) = Ok s' /\ CI (k + List.length rest) (bs ++ chain_bonds k rest) s'.
Proof.
  induction rest as [|[b p] r IH]; intros k bs s HC Hok.
  - exists s. split; [reflexivity|]. rewrite Nat.add_0_r, app_nil_r. exact HC.
  - inversion Hok as [|? ? H1 H2]; subst.
    change (flat_map link_tokens ((b, p) :: r)) with (((match b with Some t => [t] | None => [] end) ++ [atom_token (p_stereo p)]) ++ flat_map link_tokens r)%list.
    destruct (step_atom_chain k bs s b (mkAt ""%string None None 0 None (p_stereo p)) HC H1) as [s1 [E1 C1]].
    assert (L : loop false s ((match b with Some t => [t] | None => [] end) ++ [atom_token (p_stereo p)] ++ flat_map link_tokens r) =
                loop false s1 (flat_map link_tokens r)).
    { destruct b as [t|]; cbn [app loop].
      - rewrite (step_bond_tok k bs s t HC H1). unfold atom_token. rewrite E1. reflexivity.
      - rewrite set_prev_same in E1 by (destruct HC as [_ [_ [_ [_ [_ [_ [_ [_ [_ HP]]]]]]]]]; exact HP).
        unfold atom_token. rewrite E1. reflexivity. }
    rewrite <- app_assoc. rewrite L.
    destruct (IH (S k) _ s1 C1 H2) as [s' [E' C']]. exists s'. split; [exact E'|].
    cbn [List.length chain_bonds fst]. rewrite <- app_assoc in C'. cbn [app] in C'.
    replace (k + S (List.length r))%nat with (S k + List.length r)%nat by lia. exact C'.
Qed.

Theorem chain_parse p0 rest : Forall link_ok rest ->
  exists pr, parse (chain_tokens p0 rest) false = Ok pr /\
             p_bonds pr = chain_bonds 1 rest /\ p_stereo_bonds pr = [] /\ List.length (p_atoms pr) = S (List.length rest).
Proof.
  intros Hok. unfold parse, chain_tokens, atom_token. cbn [guard Z.eqb Pos.eqb zmem existsb orb loop].
  assert (F : exists s1, step false p_init (0, PAtom (mkAt ""%string None None 0 None (p_stereo p0))) = Ok s1 /\ CI 1 [] s1).
  { eexists. split; [reflexivity|]. unfold CI. cbn. repeat split; lia. }
  destruct F as [s1 [E1 C1]]. rewrite E1.
  destruct (chain_loop rest 1 [] s1 C1 Hok) as [s' [E' C']]. rewrite E'.
  destruct C' as [H1 [H2 [H3 [H4 [H5 [H6 [H7 [H8 [H9 H10]]]]]]]]]. unfold finish. rewrite H7, H8, H10.
  eexists. split; [reflexivity|]. cbn [p_bonds p_stereo_bonds p_atoms]. repeat split; [exact H6 | exact H9 | rewrite H4; lia].
Qed.

(* ---- the atom loop and the bond loop on a chain *)
Definition explicit_maps (ps : list Query.parsed) : list Z :=
  flat_map (fun p => match p_mapping p with Some k => [k] | None => [] end) ps.
Definition atom_result (p : Query.parsed) (q : qatom) : qatom * option bool :=
  (q, match q with QMetal _ _ => None | _ => p_stereo p end).

Lemma atoms_loop_ok ps : forall qs seen, Forall2 (fun p q => build_atom p = Ok q) ps qs -> NoDup (explicit_maps ps) ->
  (forall k, In k (explicit_maps ps) -> ~ In k seen) ->
  atoms_loop ps seen = Ok (map (fun pq => atom_result (fst pq) (snd pq)) (combine ps qs)).
Proof.
  induction ps as [|p r IH]; intros qs seen HF Hnd Hs; inversion HF as [|? q ? qr Hb Hr]; subst; [reflexivity|].
  cbn [atoms_loop]. rewrite Hb. cbv zeta. cbn [explicit_maps flat_map] in Hnd, Hs. fold (explicit_maps r) in Hnd, Hs.
  destruct (p_mapping p) as [k|] eqn:Ek.
  - cbn [app] in Hnd, Hs. inversion Hnd as [|? ? Hk Hnd']; subst.
    assert (Hz : zmem k seen = false).
    { destruct (zmem k seen) eqn:E; [|reflexivity]. apply zmem_In in E. exfalso. exact (Hs k (or_introl eq_refl) E). }
    rewrite Hz. rewrite (IH qr (k :: seen) Hr Hnd').
    + reflexivity.
    + intros j Hj [<-|Hin]; [exact (Hk Hj) | exact (Hs j (or_intror Hj) Hin)].
  - cbn [app] in Hnd, Hs. rewrite (IH qr seen Hr Hnd Hs). reflexivity.
Qed.

Fixpoint chain_sbonds (k : nat) (qs : list qbond) : list sbond :=
  match qs with
  | [] => []
  | q :: r => mkSB (Z.of_nat k) (Z.of_nat k - 1) q None :: chain_sbonds (S k) r
  end.

Lemma bonds_loop_chain rest : forall k bqs seen, (1 <= k)%nat ->
  Forall2 (fun x q => qbond_of_payload (bond_value (fst x)) = Ok q) rest bqs ->
  (forall x, In x seen -> fst x < Z.of_nat k /\ snd x < Z.of_nat k - 1) ->
  bonds_loop [] (chain_bonds k rest) seen = Ok (chain_sbonds k bqs).
Proof.
  induction rest as [|x r IH]; intros k bqs seen Hk HF Hs; inversion HF as [|? q ? qr Hq Hr]; subst; [reflexivity|].
  cbn [chain_bonds bonds_loop]. unfold stereo_of. cbn [zget]. rewrite Hq.
  destruct (Z.of_nat k =? Z.of_nat k - 1) eqn:E; [apply Z.eqb_eq in E; lia|].
  assert (Hex : existsb (fun p => ((fst p =? Z.of_nat k) && (snd p =? Z.of_nat k - 1)) || ((fst p =? Z.of_nat k - 1) && (snd p =? Z.of_nat k))) seen = false).
  { destruct (existsb _ seen) eqn:Ex; [|reflexivity]. apply existsb_exists in Ex. destruct Ex as [p [Hp Hc]].
    destruct (Hs p Hp) as [A B]. apply orb_true_iff in Hc. destruct Hc as [Hc|Hc]; apply andb_true_iff in Hc; destruct Hc as [C1 C2];
      apply Z.eqb_eq in C1, C2; lia. }
  rewrite Hex. rewrite (IH (S k) qr _ ltac:(lia) Hr).
  - reflexivity.
  - intros p [<-|Hp]; cbn [fst snd]; [lia|]. destruct (Hs p Hp). lia.
Qed.

(* ---- the denotation of a chain *)
Theorem chain_denotation p0 rest q0 qs bqs :
  Forall link_ok rest ->
  Forall2 (fun p q => build_atom p = Ok q) (p0 :: map snd rest) (q0 :: qs) ->
  NoDup (explicit_maps (p0 :: map snd rest)) ->
  Forall2 (fun x q => qbond_of_payload (bond_value (fst x)) = Ok q) rest bqs ->
  full_of_tokens (chain_tokens p0 rest) (p0 :: map snd rest) =
  Ok (map (fun pq => atom_result (fst pq) (snd pq)) (combine (p0 :: map snd rest) (q0 :: qs)), chain_sbonds 1 bqs).
Proof.
  intros Hok Hat Hnd Hbq. unfold full_of_tokens.
  destruct (chain_parse p0 rest Hok) as [pr [E [B1 [B2 _]]]]. rewrite E.
  rewrite (atoms_loop_ok _ _ [] Hat Hnd) by (intros k _ []).
  rewrite B1, B2. rewrite (bonds_loop_chain rest 1 bqs [] ltac:(lia) Hbq) by (intros x []). reflexivity.
Qed.
