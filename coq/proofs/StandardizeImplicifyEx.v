(* C14 round 3: non-vacuity of implicify_total_h: the hypothesis on the valence lookup holds for the REAL valence tables on
   explicit methane, and the theorem's conclusion is observed *)
From Coq Require Import ZArith List String Bool Lia.
From Model Require Import PyBase Graph PeriodicTable Standardize StandardizeMatch StandardizeHyd.
From Gen Require Import Elements StdRules.
From Proofs Require Import StandardizeProofs StandardizeExt StandardizeImplicify StandardizeInverse.
Import ListNotations.
Open Scope Z_scope.

Definition methane : mol := mkMol [(1, mkAtom 6 None 0 false (Some 4) None)] [(1, [])].
Definition methane_explicit : mol := match explicify methane with Ok g => g | Err _ => methane end.

Lemma methane_balanced : forall ex, scan_explicit methane_explicit (m_atoms methane_explicit) [] = Ok ex ->
  balanced_lookup real_vlookup methane_explicit ex.
Proof.
  intros ex Hex. vm_compute in Hex. inversion Hex; subst ex. clear Hex.
  intros n hs Hin. destruct Hin as [Heq | []]. inversion Heq; subst n hs. clear Heq.
  intros a j h Ha Hj Hlk. vm_compute in Ha. inversion Ha; subst a. clear Ha. cbn [List.length] in Hj.
  destruct j as [|[|[|[|[|j]]]]]; try lia; vm_compute in Hlk; inversion Hlk; reflexivity.
Qed.

Theorem implicify_total_h_example :
  (forall ex, scan_explicit methane_explicit (m_atoms methane_explicit) [] = Ok ex -> balanced_lookup real_vlookup methane_explicit ex) /\
  List.length (m_atoms methane_explicit) = 5%nat /\ total_h methane_explicit = 4 /\
  exists g', implicify real_vlookup methane_explicit = Ok g' /\ List.length (m_atoms g') = 1%nat /\ total_h g' = 4 /\ mol_eqb g' methane = true.
Proof.
  split; [exact methane_balanced|]. split; [vm_compute; reflexivity|]. split; [vm_compute; reflexivity|].
  eexists. split; [vm_compute; reflexivity|]. vm_compute. repeat split; reflexivity.
Qed.

(* non-vacuity of explicify_implicify_inverse: its hypotheses hold for methane with the REAL valence tables *)
Definition ethanol : mol :=
  mkMol [(1, mkAtom 6 None 0 false (Some 3) None); (2, mkAtom 6 None 0 false (Some 2) None); (3, mkAtom 8 None 0 false (Some 1) None)]
        [(1, [(2, mkBond 1 None)]); (2, [(1, mkBond 1 None); (3, mkBond 1 None)]); (3, [(2, mkBond 1 None)])].

Theorem inverse_example :
  exists g', explicify ethanol = Ok g' /\ List.length (m_atoms g') = 9%nat /\ implicify real_vlookup g' = Ok ethanol.
Proof.
  eexists. split; [vm_compute; reflexivity|]. split; [reflexivity|].
  apply (explicify_implicify_inverse real_vlookup ethanol).
  - apply nodup_z_NoDup. reflexivity.
  - reflexivity.
  - intros k l x Hin Hx. cbn in Hin. destruct Hin as [H | [H | [H | []]]]; inversion H; subst; cbn in Hx; cbn; tauto.
  - intros k a Hin. cbn in Hin. destruct Hin as [H | [H | [H | []]]]; inversion H; subst; cbn; discriminate.
  - intros na Hin. cbn in Hin. destruct Hin as [H | [H | [H | []]]]; subst na; cbn; eexists; split; try reflexivity; lia.
  - intros n a h Hin Hh Hpos. cbn in Hin. destruct Hin as [H | [H | [H | []]]]; inversion H; subst; cbn in Hh; inversion Hh; subst; vm_compute; reflexivity.
  - vm_compute. reflexivity.
Qed.
