(* C16 (extension): _patcher commutes with an injective renumbering of the structure (dict orders included) *)
From Coq Require Import ZArith List Bool Lia.
From Model Require Import PyBase Graph Reactor ReactorStage.
From Proofs Require Import ReactorProofs.
Import ListNotations.
Open Scope Z_scope.

Section Ren.
  Variable f : Z -> Z.
  Variable P : Z -> Prop.
  Hypothesis Hinj : forall a b, P a -> P b -> f a = f b -> a = b.

  Lemma keys_rkv {V W} (vf : V -> W) d : keys (rkv f vf d) = map f (keys d).
  Proof. unfold keys, rkv. rewrite !map_map. reflexivity. Qed.

  Lemma zget_rkv {V W} (vf : V -> W) d k : P k -> Forall P (keys d) -> zget (rkv f vf d) (f k) = option_map vf (zget d k).
  Proof.
    intros Hk. induction d as [|[k' v] d IH]; cbn; intros HF; [reflexivity|]. inversion HF as [|? ? Hk' HF']; subst.
    destruct (Z.eqb_spec (f k) (f k')) as [E|E], (Z.eqb_spec k k') as [E'|E']; try reflexivity.
    - exfalso. apply E'. apply Hinj; assumption.
    - subst. contradiction.
    - apply IH. exact HF'.
  Qed.

  Lemma zset_rkv {V W} (vf : V -> W) d k v : P k -> Forall P (keys d) -> zset (rkv f vf d) (f k) (vf v) = rkv f vf (zset d k v).
  Proof.
    intros Hk. induction d as [|[k' v'] d IH]; cbn; intros HF; [reflexivity|]. inversion HF as [|? ? Hk' HF']; subst.
    destruct (Z.eqb_spec (f k) (f k')) as [E|E], (Z.eqb_spec k k') as [E'|E']; cbn.
    - reflexivity.
    - exfalso. apply E'. apply Hinj; assumption.
    - subst. contradiction.
    - f_equal. apply IH. exact HF'.
  Qed.

  Lemma zmem_map x l : P x -> Forall P l -> zmem (f x) (map f l) = zmem x l.
  Proof.
    intros Hx. induction l as [|y l IH]; intros HF; [reflexivity|]. inversion HF as [|? ? Hy HF']; subst.
    cbn [map zmem existsb]. fold (zmem (f x) (map f l)). fold (zmem x l). rewrite (IH HF').
    destruct (Z.eqb_spec (f x) (f y)) as [E|E], (Z.eqb_spec x y) as [E'|E']; try reflexivity.
    - exfalso. apply E'. apply Hinj; assumption.
    - subst. contradiction.
  Qed.

  Lemma Forall_keys_zset {V} (d : list (Z * V)) k v : P k -> Forall P (keys d) -> Forall P (keys (zset d k v)).
  Proof.
    intros Hk HF. apply Forall_forall. intros x Hx. apply keys_zset_In in Hx. destruct Hx as [->|Hx]; [exact Hk|].
    rewrite Forall_forall in HF. apply HF. exact Hx.
  Qed.
End Ren.

Lemma zset_In {V} (d : list (Z * V)) k v x w : In (x, w) (zset d k v) -> (x, w) = (k, v) \/ In (x, w) d.
Proof.
  induction d as [|[k' v'] d IH]; cbn; [intros [E|[]]; left; symmetry; exact E|].
  destruct (k =? k'); cbn.
  - intros [E|H]; [left; symmetry; exact E|right; right; exact H].
  - intros [E|H]; [right; left; exact E|]. destruct (IH H) as [E|H']; [left; exact E|right; right; exact H'].
Qed.

Definition rename_vals (f : Z -> Z) (mapping : list (Z * Z)) : list (Z * Z) := map (fun kv => (fst kv, f (snd kv))) mapping.

Lemma zget_rename_vals f mp n : zget (rename_vals f mp) n = option_map f (zget mp n).
Proof. induction mp as [|[k v] l IH]; cbn; [reflexivity|]. destruct (n =? k); [reflexivity|exact IH]. Qed.

Lemma zset_rename_vals f mp n m : zset (rename_vals f mp) n (f m) = rename_vals f (zset mp n m).
Proof. induction mp as [|[k v] l IH]; cbn; [reflexivity|]. destruct (n =? k); cbn; [reflexivity|]. f_equal. exact IH. Qed.

Definition map_res {A B} (h : A -> B) (r : pyres A) : pyres B := match r with Ok a => Ok (h a) | Err e => Err e end.

Section Equivariant.
  Variables (g : mol) (f : Z -> Z) (mx mx' : Z).
  Definition P (x : Z) : Prop := In x (ids g) \/ mx < x.
  Hypothesis Hwf : wf_mol g = true.
  Hypothesis Hpos : forall x, In x (ids g) -> 0 < x.
  Hypothesis Hmx : zmax_list (ids g) = Some mx.
  Hypothesis Hmx' : zmax_list (map f (ids g)) = Some mx'.
  Hypothesis Hinj : forall a b, P a -> P b -> f a = f b -> a = b.
  Hypothesis Hfpos : forall x, P x -> 0 < f x.
  Hypothesis Hnew : forall x, mx < x -> f x = x - mx + mx'.

  Let g2 := rename_mol f g.

  Lemma mx_pos : 0 < mx.
  Proof. apply Hpos. apply (zmax_list_spec _ _ Hmx). Qed.

  Lemma P_pos x : P x -> 0 < x.
  Proof. intros [H|H]; [apply Hpos; exact H|pose proof mx_pos; lia]. Qed.

  Lemma P_ids : Forall P (ids g).
  Proof. apply Forall_forall. intros x Hx. left. exact Hx. Qed.

  Lemma atom_of_g2 m : P m -> atom_of g2 (f m) = atom_of g m.
  Proof.
    intros Hm. unfold atom_of, g2, rename_mol, rk. cbn [m_atoms].
    rewrite (zget_rkv f P Hinj (fun v => v) (m_atoms g) m Hm P_ids). destruct (zget (m_atoms g) m); reflexivity.
  Qed.

  Lemma ids_g2 : ids g2 = map f (ids g).
  Proof. unfold ids, g2, rename_mol, rk. cbn [m_atoms]. apply keys_rkv. Qed.

  Lemma truthy_rename mp n : Forall P (map snd mp) -> truthy_get (rename_vals f mp) n = option_map f (truthy_get mp n).
  Proof.
    intros HF. unfold truthy_get. rewrite zget_rename_vals. destruct (zget mp n) as [m|] eqn:E; cbn; [|reflexivity].
    assert (Hm : P m).
    { rewrite Forall_forall in HF. apply HF. apply in_map_iff. exists (n, m). split; [reflexivity|]. apply zget_Some_In. exact E. }
    pose proof (P_pos m Hm). pose proof (Hfpos m Hm).
    destruct (Z.eqb_spec m 0); [lia|]. destruct (Z.eqb_spec (f m) 0); [lia|]. reflexivity.
  Qed.

  (* ---------- phase 1: the atoms of the replacement ---------- *)
  Definition RS (s : pstate) : pstate :=
    mkP (rk f (p_atoms s)) (ra f (p_adj s)) (rename_vals f (p_map s)) (p_max s - mx + mx').
  Definition I1 (s : pstate) : Prop :=
    Forall P (keys (p_atoms s)) /\ Forall P (keys (p_adj s)) /\ Forall P (map snd (p_map s)) /\ mx <= p_max s /\
    (forall x l, In (x, l) (p_adj s) -> Forall P (keys l)).

  Lemma Forall_vals_zset mp n m : P m -> Forall P (map snd mp) -> Forall P (map snd (zset mp n m)).
  Proof.
    intros Hm. induction mp as [|[k v] l IH]; cbn; intros HF; [constructor; [exact Hm|constructor]|].
    inversion HF; subst. destruct (n =? k); cbn; constructor; auto.
  Qed.

  Lemma put_atom_RS s m a mp pm : P m -> I1 s ->
    RS (put_atom s m a mp pm) = put_atom (RS s) (f m) a (rename_vals f mp) (pm - mx + mx').
  Proof.
    intros Hm (H1 & H2 & _). unfold put_atom, RS. cbn [p_atoms p_adj p_map p_max]. f_equal.
    - unfold rk. symmetry. apply (zset_rkv f P Hinj (fun v => v)); assumption.
    - unfold ra. symmetry. change (@nil (Z * bond)) with (rk f (@nil (Z * bond))). apply (zset_rkv f P Hinj (rk f)); assumption.
  Qed.

  Lemma patch_atom_ren s nra : I1 s ->
    patch_atom g2 (RS s) nra = map_res RS (patch_atom g s nra) /\
    (forall s', patch_atom g s nra = Ok s' -> I1 s').
  Proof.
    intros HI. destruct HI as (H1 & H2 & H3 & H4 & H5). destruct nra as [n [chg rad|num iso chg rad h]]; unfold patch_atom.
    - cbn [RS p_map]. rewrite (truthy_rename _ n H3).
      destruct (truthy_get (p_map s) n) as [m|] eqn:Em; cbn [option_map]; [|split; [reflexivity|discriminate]].
      assert (Hm : P m).
      { apply truthy_get_zget in Em. rewrite Forall_forall in H3. apply H3. apply in_map_iff. exists (n, m). split; [reflexivity|].
        apply zget_Some_In. apply Em. }
      rewrite (atom_of_g2 m Hm). destruct (atom_of g m) as [sa|]; cbn [map_res]; [|split; [reflexivity|discriminate]].
      split.
      + rewrite (put_atom_RS s m _ (p_map s) (p_max s) Hm (conj H1 (conj H2 (conj H3 (conj H4 H5))))). reflexivity.
      + intros s' E. inversion E; subst s'. unfold I1, put_atom. cbn [p_atoms p_adj p_map p_max].
        split; [apply Forall_keys_zset; assumption|]. split; [apply Forall_keys_zset; assumption|]. split; [assumption|]. split; [assumption|].
        intros x l Hin. apply zset_In in Hin. destruct Hin as [E'|Hin]; [inversion E'; subst; constructor|eapply H5; exact Hin].
    - cbn [RS p_map]. rewrite (truthy_rename _ n H3).
      destruct (truthy_get (p_map s) n) as [m|] eqn:Em; cbn [option_map].
      + assert (Hm : P m).
        { apply truthy_get_zget in Em. rewrite Forall_forall in H3. apply H3. apply in_map_iff. exists (n, m). split; [reflexivity|].
          apply zget_Some_In. apply Em. }
        rewrite (atom_of_g2 m Hm). destruct (atom_of g m) as [sa|]; cbn [map_res]; [|split; [reflexivity|discriminate]].
        split.
        * rewrite (put_atom_RS s m _ (p_map s) (p_max s) Hm (conj H1 (conj H2 (conj H3 (conj H4 H5))))). reflexivity.
        * intros s' E. inversion E; subst s'. unfold I1, put_atom. cbn [p_atoms p_adj p_map p_max].
          split; [apply Forall_keys_zset; assumption|]. split; [apply Forall_keys_zset; assumption|]. split; [assumption|]. split; [assumption|].
        intros x l Hin. apply zset_In in Hin. destruct Hin as [E'|Hin]; [inversion E'; subst; constructor|eapply H5; exact Hin].
      + cbn [map_res p_max].
        assert (Hm : P (p_max s + 1)) by (right; lia).
        assert (Ef : p_max s - mx + mx' + 1 = f (p_max s + 1)) by (rewrite Hnew by lia; lia).
        split.
        * rewrite (put_atom_RS s (p_max s + 1) _ _ (p_max s + 1) Hm (conj H1 (conj H2 (conj H3 (conj H4 H5))))).
          change (p_max (RS s)) with (p_max s - mx + mx'). change (p_map (RS s)) with (rename_vals f (p_map s)).
          rewrite Ef. rewrite <- zset_rename_vals. f_equal. f_equal. rewrite Hnew by lia. lia.
        * intros s' E. inversion E; subst s'. unfold I1, put_atom. cbn [p_atoms p_adj p_map p_max].
          split; [apply Forall_keys_zset; assumption|]. split; [apply Forall_keys_zset; assumption|].
          split; [apply Forall_vals_zset; assumption|]. split; [lia|].
          intros x l Hin. apply zset_In in Hin. destruct Hin as [E'|Hin]; [inversion E'; subst; constructor|eapply H5; exact Hin].
  Qed.

  Lemma patch_atoms_ren : forall l s, I1 s ->
    fold_res (patch_atom g2) l (RS s) = map_res RS (fold_res (patch_atom g) l s) /\
    (forall s', fold_res (patch_atom g) l s = Ok s' -> I1 s').
  Proof.
    induction l as [|nra l IH]; intros s HI; cbn [fold_res].
    - split; [reflexivity|]. intros s' E. inversion E; subst. exact HI.
    - destruct (patch_atom_ren s nra HI) as [E1 HI1]. rewrite E1.
      destruct (patch_atom g s nra) as [s1|]; cbn [map_res]; [|split; [reflexivity|discriminate]].
      apply IH. apply HI1. reflexivity.
  Qed.

  (* ---------- phases 2 and 4: bonds ---------- *)
  Definition adjP (adj : adjT) : Prop := Forall P (keys adj) /\ forall x l, In (x, l) adj -> Forall P (keys l).

  Lemma link_ren adj n m fresh : adjP adj -> P n -> P m ->
    link (ra f adj) (f n) (f m) fresh = map_res (ra f) (link adj n m fresh) /\
    (forall adj', link adj n m fresh = Ok adj' -> adjP adj').
  Proof.
    intros [A1 A2] Hn Hm. unfold link, ra.
    rewrite (zget_rkv f P Hinj (rk f) adj m Hm A1), (zget_rkv f P Hinj (rk f) adj n Hn A1).
    destruct (zget adj m) as [lm|] eqn:Em; cbn [option_map]; [|split; [reflexivity|discriminate]].
    destruct (zget adj n) as [ln|] eqn:En; cbn [option_map map_res]; [|split; [reflexivity|discriminate]].
    pose proof (A2 m lm (zget_Some_In _ _ _ Em)) as Flm. pose proof (A2 n ln (zget_Some_In _ _ _ En)) as Fln.
    split.
    - f_equal.
      assert (E0 : zget (rk f lm) (f n) = zget lm n).
      { unfold rk. rewrite (zget_rkv f P Hinj (fun v : bond => v) lm n Hn Flm). destruct (zget lm n); reflexivity. }
      rewrite E0. set (b := match zget lm n with Some b => b | None => fresh end).
      assert (E1 : zset (rk f ln) (f m) b = rk f (zset ln m b)).
      { unfold rk. apply (zset_rkv f P Hinj (fun v : bond => v) ln m b Hm Fln). }
      rewrite E1.
      apply (zset_rkv f P Hinj (rk f) adj n (zset ln m b) Hn A1).
    - intros adj' E. inversion E; subst adj'. split; [apply Forall_keys_zset; assumption|].
      intros x l Hin. apply zset_In in Hin. destruct Hin as [E'|Hin]; [|eapply A2; exact Hin].
      inversion E'; subst. apply Forall_keys_zset; assumption.
  Qed.

  (* a fold whose state and elements are renamed commutes with the renaming *)
  Lemma fold_res_ren {A A2 St St2} (step : St -> A -> pyres St) (step2 : St2 -> A2 -> pyres St2)
        (R : St -> St2) (ea : A -> A2) (Inv : St -> Prop) (okA : A -> Prop) :
    (forall st a, Inv st -> okA a -> step2 (R st) (ea a) = map_res R (step st a) /\ forall st', step st a = Ok st' -> Inv st') ->
    forall l st, Inv st -> Forall okA l ->
      fold_res step2 (map ea l) (R st) = map_res R (fold_res step l st) /\ forall st', fold_res step l st = Ok st' -> Inv st'.
  Proof.
    intros Hstep. induction l as [|a l IH]; intros st HI Hl; cbn [fold_res map].
    - split; [reflexivity|]. intros st' E. inversion E; subst. exact HI.
    - inversion Hl as [|? ? Ha Hl']; subst. destruct (Hstep st a HI Ha) as [E1 HI1]. rewrite E1.
      destruct (step st a) as [st1|]; cbn [map_res]; [|split; [reflexivity|discriminate]].
      apply IH; [apply HI1; reflexivity|exact Hl'].
  Qed.

  Lemma map_id {A} (l : list A) : map (fun x => x) l = l.
  Proof. induction l; cbn; congruence. Qed.

  Lemma patch_bonds_of_ren mp adj nbs : Forall P (map snd mp) -> adjP adj ->
    patch_bonds_of (rename_vals f mp) (ra f adj) nbs = map_res (ra f) (patch_bonds_of mp adj nbs) /\
    (forall adj', patch_bonds_of mp adj nbs = Ok adj' -> adjP adj').
  Proof.
    intros Hmp HA. unfold patch_bonds_of. rewrite zget_rename_vals.
    destruct (zget mp (fst nbs)) as [n|] eqn:En; cbn [option_map]; [|split; [reflexivity|discriminate]].
    assert (Hn : P n).
    { rewrite Forall_forall in Hmp. apply Hmp. apply in_map_iff. exists (fst nbs, n). split; [reflexivity|apply zget_Some_In; exact En]. }
    rewrite <- (map_id (snd nbs)) at 1.
    apply (fold_res_ren _ _ (ra f) (fun x => x) adjP (fun _ => True)); [|exact HA|apply Forall_forall; auto].
    intros st mrb HI _. rewrite zget_rename_vals.
    destruct (zget mp (fst mrb)) as [m|] eqn:Em; cbn [option_map]; [|split; [reflexivity|discriminate]].
    assert (Hm : P m).
    { rewrite Forall_forall in Hmp. apply Hmp. apply in_map_iff. exists (fst mrb, m). split; [reflexivity|apply zget_Some_In; exact Em]. }
    apply link_ren; assumption.
  Qed.

  Lemma patch_bonds_ren mp tb adj : Forall P (map snd mp) -> adjP adj ->
    fold_res (patch_bonds_of (rename_vals f mp)) tb (ra f adj) = map_res (ra f) (fold_res (patch_bonds_of mp) tb adj) /\
    (forall adj', fold_res (patch_bonds_of mp) tb adj = Ok adj' -> adjP adj').
  Proof.
    intros Hmp HA. rewrite <- (map_id tb) at 1.
    apply (fold_res_ren _ _ (ra f) (fun x => x) adjP (fun _ => True)); [|exact HA|apply Forall_forall; auto].
    intros st nbs HI _. apply patch_bonds_of_ren; assumption.
  Qed.

  (* ---------- phase 3: the atoms the template does not name ---------- *)
  Variables (patched del : list Z).
  Hypothesis Hpatched : Forall P patched.
  Hypothesis Hdel : Forall P del.

  Definition R3 (st : list (Z * atom) * adjT) : list (Z * atom) * adjT := (rk f (fst st), ra f (snd st)).
  Definition I3 (st : list (Z * atom) * adjT) : Prop := Forall P (keys (fst st)) /\ adjP (snd st).

  Lemma keep_atom_ren st nsa : I3 st -> P (fst nsa) ->
    keep_atom (map f patched) (map f del) (R3 st) (f (fst nsa), snd nsa) = R3 (keep_atom patched del st nsa) /\
    I3 (keep_atom patched del st nsa).
  Proof.
    intros [H1 [A1 A2]] Hn. unfold keep_atom. cbn [fst snd R3].
    rewrite (zmem_map f P Hinj _ _ Hn Hpatched), (zmem_map f P Hinj _ _ Hn Hdel).
    destruct (zmem (fst nsa) patched || zmem (fst nsa) del); [split; [reflexivity|split; [exact H1|split; assumption]]|].
    split.
    - unfold R3. cbn [fst snd]. f_equal.
      + unfold rk. apply (zset_rkv f P Hinj (fun v => v)); assumption.
      + unfold ra. change (@nil (Z * bond)) with (rk f (@nil (Z * bond))). apply (zset_rkv f P Hinj (rk f)); assumption.
    - split; cbn [fst snd]; [apply Forall_keys_zset; assumption|]. split; [apply Forall_keys_zset; assumption|].
      intros x l Hin. apply zset_In in Hin. destruct Hin as [E'|Hin]; [inversion E'; subst; constructor|eapply A2; exact Hin].
  Qed.

  Lemma keep_atoms_ren : forall l st, I3 st -> Forall P (keys l) ->
    fold_left (keep_atom (map f patched) (map f del)) (rk f l) (R3 st) = R3 (fold_left (keep_atom patched del) l st) /\
    I3 (fold_left (keep_atom patched del) l st).
  Proof.
    induction l as [|nsa l IH]; intros st HI Hl; cbn [fold_left rk rkv map].
    - split; [reflexivity|exact HI].
    - cbn [keys map] in Hl. inversion Hl as [|? ? Hn Hl']; subst.
      destruct (keep_atom_ren st nsa HI Hn) as [E1 HI1]. cbn beta. rewrite E1. apply IH; assumption.
  Qed.

  (* ---------- phase 4 ---------- *)
  Lemma keep_bonds_of_ren adj nbs : adjP adj -> P (fst nbs) -> Forall P (keys (snd nbs)) ->
    keep_bonds_of (map f patched) (map f del) (ra f adj) (f (fst nbs), rk f (snd nbs)) =
      map_res (ra f) (keep_bonds_of patched del adj nbs) /\
    (forall adj', keep_bonds_of patched del adj nbs = Ok adj' -> adjP adj').
  Proof.
    intros HA Hn Hbs. unfold keep_bonds_of. cbn [fst snd].
    rewrite (zmem_map f P Hinj _ _ Hn Hdel).
    destruct (zmem (fst nbs) del); [split; [reflexivity|intros adj' E; inversion E; subst; exact HA]|].
    unfold rk, rkv.
    apply (fold_res_ren _ _ (ra f) (fun kv : Z * bond => (f (fst kv), snd kv)) adjP (fun mb => P (fst mb))); [|exact HA|].
    - intros st mb HI Hm. cbn [fst snd].
      rewrite (zmem_map f P Hinj _ _ Hm Hdel), (zmem_map f P Hinj _ _ Hn Hpatched), (zmem_map f P Hinj _ _ Hm Hpatched).
      destruct (zmem (fst mb) del || zmem (fst nbs) patched && zmem (fst mb) patched);
        [split; [reflexivity|intros adj' E; inversion E; subst; exact HI]|].
      apply link_ren; assumption.
    - apply Forall_forall. intros mb Hmb. rewrite Forall_forall in Hbs. apply Hbs. apply in_map. exact Hmb.
  Qed.

  Lemma keep_bonds_ren : forall l adj, adjP adj -> Forall (fun nbs => P (fst nbs) /\ Forall P (keys (snd nbs))) l ->
    fold_res (keep_bonds_of (map f patched) (map f del)) (ra f l) (ra f adj) =
      map_res (ra f) (fold_res (keep_bonds_of patched del) l adj).
  Proof.
    intros l adj HA Hl. unfold ra at 1, rkv.
    apply (fold_res_ren _ _ (ra f) (fun nl : Z * list (Z * bond) => (f (fst nl), rk f (snd nl))) adjP
             (fun nbs => P (fst nbs) /\ Forall P (keys (snd nbs)))); [|exact HA|exact Hl].
    intros st nbs HI [Hn Hbs]. apply keep_bonds_of_ren; assumption.
  Qed.
End Equivariant.

(* ---------- assembling the four phases ---------- *)
Theorem patcher_equivariant_on : forall g f mx mx' mapping tpl del new mp',
  wf_mol g = true -> (forall x, In x (ids g) -> 0 < x) ->
  zmax_list (ids g) = Some mx -> zmax_list (map f (ids g)) = Some mx' ->
  (forall a b, P g mx a -> P g mx b -> f a = f b -> a = b) ->
  (forall x, P g mx x -> 0 < f x) ->
  (forall x, mx < x -> f x = x - mx + mx') ->
  Forall (P g mx) (map snd mapping) -> Forall (P g mx) del ->
  patcher g mapping tpl del = Ok (new, mp') ->
  patcher (rename_mol f g) (rename_vals f mapping) tpl (map f del) = Ok (rename_mol f new, rename_vals f mp').
Proof.
  intros g f mx mx' mapping tpl del new mp' Hwf Hpos Hmx Hmx' Hinj Hfpos Hnew Hvals Hdel Hrun.
  destruct (wf_mol_facts g Hwf) as (Hndg & Hkeys & Hadj).
  unfold patcher in *. rewrite ids_g2, Hmx'. rewrite Hmx in Hrun.
  set (s0 := mkP [] [] mapping mx).
  assert (E0 : mkP [] [] (rename_vals f mapping) mx' = RS f mx mx' s0).
  { unfold RS, s0. cbn. f_equal. lia. }
  assert (HI0 : I1 g mx s0).
  { unfold I1, s0. cbn. split; [constructor|]. split; [constructor|]. split; [exact Hvals|]. split; [lia|intros x l []]. }
  rewrite E0.
  destruct (patch_atoms_ren g f mx mx' Hpos Hmx Hinj Hfpos Hnew (t_atoms tpl) s0 HI0) as [E1 HI1]. rewrite E1.
  fold s0 in Hrun.
  destruct (fold_res (patch_atom g) (t_atoms tpl) s0) as [s1|] eqn:Es1; [|discriminate]. cbn [map_res].
  destruct (HI1 s1 eq_refl) as (J1 & J2 & J3 & J4 & J5).
  cbn [RS p_map p_adj p_atoms].
  destruct (patch_bonds_ren g f mx Hinj (p_map s1) (t_bonds tpl) (p_adj s1) J3 (conj J2 J5)) as [E2 HA2]. rewrite E2.
  destruct (fold_res (patch_bonds_of (p_map s1)) (t_bonds tpl) (p_adj s1)) as [adj2|] eqn:Ea2; [|discriminate]. cbn [map_res].
  specialize (HA2 adj2 eq_refl).
  assert (Hk : keys (rk f (p_atoms s1)) = map f (keys (p_atoms s1))) by (unfold rk; apply keys_rkv).
  rewrite Hk. set (patched := keys (p_atoms s1)) in *.
  assert (Hg2atoms : m_atoms (rename_mol f g) = rk f (m_atoms g)) by reflexivity.
  assert (Hg2adj : m_adj (rename_mol f g) = ra f (m_adj g)) by reflexivity.
  rewrite Hg2atoms, Hg2adj.
  assert (Hids : Forall (P g mx) (ids g)) by (apply Forall_forall; intros x Hx; left; exact Hx).
  destruct (keep_atoms_ren g f mx Hinj patched del J1 Hdel (m_atoms g) (p_atoms s1, adj2)) as [E3 HI3].
  { split; [exact J1|exact HA2]. }
  { exact Hids. }
  change (rk f (p_atoms s1), ra f adj2) with (R3 f (p_atoms s1, adj2)). rewrite E3.
  destruct (fold_left (keep_atom patched del) (m_atoms g) (p_atoms s1, adj2)) as [atoms3 adj3] eqn:E3'.
  unfold R3. cbn [fst snd]. destruct HI3 as [_ HA3]. cbn [snd] in HA3.
  rewrite (keep_bonds_ren g f mx Hinj patched del J1 Hdel (m_adj g) adj3 HA3).
  - destruct (fold_res (keep_bonds_of patched del) (m_adj g) adj3) as [adj4|]; [|discriminate]. cbn [map_res].
    inversion Hrun; subst new mp'. reflexivity.
  - apply Forall_forall. intros [n bs] Hin. cbn [fst snd]. split.
    + left. rewrite <- Hkeys. unfold keys. apply in_map_iff. exists (n, bs). split; [reflexivity|exact Hin].
    + apply Forall_forall. intros m Hm. left. unfold keys in Hm. apply in_map_iff in Hm. destruct Hm as ([m' b] & <- & Hmb).
      apply (proj2 (Hadj n bs Hin) m' b Hmb).
Qed.

(* ---------- the statement for a renumbering s of the structure ---------- *)
Lemma rkv_ext {V W} (f h : Z -> Z) (vf vh : V -> W) (d : list (Z * V)) :
  (forall k v, In (k, v) d -> f k = h k /\ vf v = vh v) -> rkv f vf d = rkv h vh d.
Proof.
  intros H. unfold rkv. apply map_ext_in. intros [k v] Hin. cbn [fst snd]. destruct (H k v Hin) as [-> ->]. reflexivity.
Qed.

Theorem patcher_equivariant : forall g s mapping tpl del new mp' mx mx',
  wf_mol g = true -> (forall x, In x (ids g) -> 0 < x) ->
  (forall a b, In a (ids g) -> In b (ids g) -> s a = s b -> a = b) -> (forall x, In x (ids g) -> 0 < s x) ->
  zmax_list (ids g) = Some mx -> zmax_list (map s (ids g)) = Some mx' ->
  (forall k v, In (k, v) mapping -> In v (ids g)) -> (forall x, In x del -> In x (ids g)) ->
  patcher g mapping tpl del = Ok (new, mp') ->
  patcher (rename_mol s g) (rename_match s mapping) tpl (map s del) =
    Ok (rename_mol (extend_renumbering s mx mx') new, rename_match (extend_renumbering s mx mx') mp').
Proof.
  intros g s mapping tpl del new mp' mx mx' Hwf Hpos Hinj Hspos Hmx Hmx' Hvals Hdel Hrun.
  set (f := extend_renumbering s mx mx').
  destruct (wf_mol_facts g Hwf) as (Hndg & Hkeys & Hadj).
  assert (Hle : forall x, In x (ids g) -> x <= mx) by (apply (zmax_list_spec _ _ Hmx)).
  assert (Hfs : forall x, In x (ids g) -> f x = s x).
  { intros x Hx. unfold f, extend_renumbering. specialize (Hle x Hx). destruct (Z.leb_spec x mx); [reflexivity|lia]. }
  assert (Hmx'pos : 0 < mx').
  { destruct (zmax_list_spec _ _ Hmx') as [Hin _]. apply in_map_iff in Hin. destruct Hin as (x & <- & Hx). apply Hspos. exact Hx. }
  assert (Hsle : forall x, In x (ids g) -> s x <= mx').
  { intros x Hx. apply (zmax_list_spec _ _ Hmx'). apply in_map. exact Hx. }
  assert (Hfnew : forall x, mx < x -> f x = x - mx + mx').
  { intros x Hx. unfold f, extend_renumbering. destruct (Z.leb_spec x mx); [lia|reflexivity]. }
  (* on the structure, the match and the atoms to delete, f is s *)
  assert (Eg : rename_mol s g = rename_mol f g).
  { unfold rename_mol. f_equal.
    - unfold rk. apply rkv_ext. intros k v Hin. split; [|reflexivity]. symmetry. apply Hfs.
      unfold ids, keys. apply in_map_iff. exists (k, v). split; [reflexivity|exact Hin].
    - unfold ra. apply rkv_ext. intros k l Hin. split.
      + symmetry. apply Hfs. rewrite <- Hkeys. unfold keys. apply in_map_iff. exists (k, l). split; [reflexivity|exact Hin].
      + unfold rk. apply rkv_ext. intros m b Hmb. split; [|reflexivity]. symmetry. apply Hfs. apply (proj2 (Hadj k l Hin) m b Hmb). }
  assert (Em : rename_match s mapping = rename_vals f mapping).
  { unfold rename_match, rename_vals. apply map_ext_in. intros [k v] Hin. cbn. rewrite (Hfs v (Hvals k v Hin)). reflexivity. }
  assert (Ed : map s del = map f del) by (apply map_ext_in; intros x Hx; symmetry; apply Hfs; apply Hdel; exact Hx).
  rewrite Eg, Em, Ed. change (rename_match f mp') with (rename_vals f mp').
  apply (patcher_equivariant_on g f mx mx'); try assumption.
  - rewrite <- Hmx'. f_equal. apply map_ext_in. intros x Hx. apply Hfs. exact Hx.
  - intros a b [Ha|Ha] [Hb|Hb] E.
    + rewrite (Hfs a Ha), (Hfs b Hb) in E. apply Hinj; assumption.
    + rewrite (Hfs a Ha), (Hfnew b Hb) in E. specialize (Hsle a Ha). lia.
    + rewrite (Hfnew a Ha), (Hfs b Hb) in E. specialize (Hsle b Hb). lia.
    + rewrite (Hfnew a Ha), (Hfnew b Hb) in E. lia.
  - intros x [Hx|Hx]; [rewrite (Hfs x Hx); apply Hspos; exact Hx|rewrite (Hfnew x Hx); lia].
  - apply Forall_forall. intros v Hv. apply in_map_iff in Hv. destruct Hv as ([k v'] & <- & Hin). left. apply (Hvals k v' Hin).
  - apply Forall_forall. intros x Hx. left. apply Hdel. exact Hx.
Qed.

(* non-vacuity: ethyl acetate renumbered by x -> 10 - x (atoms 9 8 7 6 5 4); the new atom 7 of the original run becomes 10 *)
Example patcher_equivariant_example :
  let s := fun x => 10 - x in
  (forall a b, In a (ids ex_mol) -> In b (ids ex_mol) -> s a = s b -> a = b) /\ (forall x, In x (ids ex_mol) -> 0 < s x) /\
  zmax_list (ids ex_mol) = Some 6 /\ zmax_list (map s (ids ex_mol)) = Some 9 /\
  (forall k v, In (k, v) ex_mapping -> In v (ids ex_mol)) /\
  exists new mp', patcher ex_mol ex_mapping ex_tpl [5; 6] = Ok (new, mp') /\
    patcher (rename_mol s ex_mol) (rename_match s ex_mapping) ex_tpl (map s [5; 6]) =
      Ok (rename_mol (extend_renumbering s 6 9) new, rename_match (extend_renumbering s 6 9) mp') /\
    ids (rename_mol (extend_renumbering s 6 9) new) = [8; 7; 6; 10; 9].
Proof.
  cbn zeta. split; [intros a b Ha Hb E; lia|]. split.
  { intros x Hx. vm_compute in Hx. repeat (destruct Hx as [<-|Hx]; [reflexivity|]). destruct Hx. }
  split; [vm_compute; reflexivity|]. split; [vm_compute; reflexivity|]. split.
  { intros k v Hin. vm_compute in Hin. repeat (destruct Hin as [E|Hin]; [inversion E; subst; vm_compute; auto 10|]). destruct Hin. }
  eexists _, _. split; [vm_compute; reflexivity|]. split; vm_compute; reflexivity.
Qed.
