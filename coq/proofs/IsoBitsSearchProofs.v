(* C09 -- the two searches return the same sequence of mappings.
   Both are instances of the generic explicit-stack DFS `dfs` of Model.IsoBits; the first-atom tests agree by
   mask_match_first_correct, the candidate tests agree by mask_match_next_correct / closure_ok_correct and because the
   counter-based closure test of the .pyx equals the set test of _get_mapping when the partial mapping is injective. *)
From Coq Require Import ZArith List Bool Lia Setoid.
From Model Require Import PyBase PeriodicTable IsoBits.
From Gen Require Import Elements.
From Proofs Require Import IsoBitsProofs.
Import ListNotations.
Open Scope Z_scope.

Lemma in_firstn {A} (x : A) n l : In x (firstn n l) -> In x l.
Proof. intros H. rewrite <- (firstn_skipn n l). apply in_or_app. left. exact H. Qed.
Lemma NoDup_firstn {A} n (l : list A) : NoDup l -> NoDup (firstn n l).
Proof.
  revert n. induction l as [|x l IH]; intros n H; destruct n; cbn [firstn]; try constructor.
  - inversion H; subst. intros Hin. apply in_firstn in Hin. contradiction.
  - inversion H; subst. apply IH. assumption.
Qed.
Lemma NoDup_app_single {A} (l : list A) x : NoDup l -> ~ In x l -> NoDup (l ++ [x]).
Proof.
  induction l as [|y l IH]; intros H Hn; cbn [app].
  - constructor; [intros []|constructor].
  - inversion H; subst. constructor.
    + intros Hin. apply in_app_or in Hin. destruct Hin as [Hin|[->|[]]]; [contradiction|]. apply Hn. left. reflexivity.
    + apply IH; [assumption|]. intros Hin. apply Hn. right. exact Hin.
Qed.

(* ------------------------------------------------------------------------------------------------------------ *)
(* 1. two instances of dfs with equal first tests and equal candidate lists on reachable states are equal         *)

Section DfsExt.
  Variables (E1 E2 : Type) (idx1 : E1 -> Z) (idx2 : E2 -> Z).
  Variables (nbrs1 : Z -> list E1) (nbrs2 : Z -> list E2).
  Variable last : nat.
  Variables (back1 back2 : nat -> Z).
  Variables (cand1 : nat -> list Z -> Z -> E1 -> bool) (cand2 : nat -> list Z -> Z -> E2 -> bool).

  Hypothesis back_eq : forall front, (front <= last)%nat -> back1 front = back2 front.
  Hypothesis cand_eq : forall front path base,
    List.length path = front -> NoDup path -> (0 < front <= last)%nat ->
    map idx1 (filter (cand1 front path base) (nbrs1 base)) = map idx2 (filter (cand2 front path base) (nbrs2 base)).
  Hypothesis cand_fresh : forall front path base e, cand1 front path base e = true -> ~ In (idx1 e) path.

  (* stack entries: depth within the path, atom not among the first `depth` path entries, depths weakly decreasing downwards *)
  Fixpoint stack_ok (path : list Z) (st : list (Z * nat)) : Prop :=
    match st with
    | [] => True
    | (n, d) :: r => (d <= List.length path)%nat /\ (d <= last)%nat /\ ~ In n (firstn d path) /\
                     Forall (fun x => (snd x <= d)%nat) r /\ stack_ok path r
    end.

  Lemma stack_ok_yield path n d r : stack_ok path ((n, d) :: r) -> stack_ok path r.
  Proof. cbn. tauto. Qed.

  Lemma firstn_app_le {A} (l : list A) (x : A) (d d' : nat) :
    (d' <= d)%nat -> (d <= List.length l)%nat -> firstn d' (firstn d l ++ [x]) = firstn d' l.
  Proof.
    intros H1 H2. rewrite firstn_app. rewrite firstn_length, Nat.min_l by exact H2.
    replace (d' - d)%nat with O by lia. cbn [firstn]. rewrite app_nil_r.
    rewrite firstn_firstn, Nat.min_l by exact H1. reflexivity.
  Qed.

  Lemma stack_ok_truncate path n d r :
    NoDup path -> (d <= List.length path)%nat -> Forall (fun x => (snd x <= d)%nat) r -> stack_ok path r ->
    stack_ok (firstn d path ++ [n]) r.
  Proof.
    intros Hnd Hd. induction r as [|[n' d'] r IH]; intros Hs Hok; cbn [stack_ok]; [exact I|].
    cbn [stack_ok] in Hok. destruct Hok as [H1 [H2 [H3 [H4 H5]]]]. inversion Hs as [|? ? Hd' Hs']; subst. cbn [snd] in Hd'.
    split; [rewrite app_length, firstn_length, Nat.min_l by exact Hd; cbn; lia|].
    split; [exact H2|]. split; [rewrite firstn_app_le by assumption; exact H3|]. split; [exact H4|].
    apply IH; assumption.
  Qed.

  Lemma stack_ok_push path front (cs : list Z) r :
    List.length path = front -> (front <= last)%nat -> (forall c, In c cs -> ~ In c path) ->
    Forall (fun x => (snd x <= front)%nat) r -> stack_ok path r ->
    stack_ok path (rev (map (fun c => (c, front)) cs) ++ r).
  Proof.
    intros Hl Hf Hc Hs Hok.
    assert (G : forall l : list (Z * nat), (forall x, In x l -> snd x = front /\ ~ In (fst x) path) -> stack_ok path (l ++ r)).
    { induction l as [|[c d] l IH]; intros Hx; cbn [app]; [exact Hok|]. cbn [stack_ok].
      destruct (Hx (c, d) (or_introl eq_refl)) as [Hd Hn]. cbn [fst snd] in Hd, Hn. subst d.
      split; [lia|]. split; [exact Hf|]. split; [intros Hin; apply Hn; eapply in_firstn; exact Hin|].
      split.
      - apply Forall_app. split; [|exact Hs]. apply Forall_forall. intros x Hxl. destruct (Hx x (or_intror Hxl)) as [Hd _]. lia.
      - apply IH. intros x Hxl. apply Hx. right. exact Hxl. }
    apply G. intros x Hx. apply in_rev in Hx. apply in_map_iff in Hx. destruct Hx as [c [<- Hcin]]. cbn [fst snd].
    split; [reflexivity | apply Hc; exact Hcin].
  Qed.

  Lemma dfs_ext fuel : forall stack path acc,
    NoDup path -> stack_ok path stack ->
    dfs E1 idx1 nbrs1 last back1 cand1 fuel stack path acc = dfs E2 idx2 nbrs2 last back2 cand2 fuel stack path acc.
  Proof.
    induction fuel as [|fuel IH]; intros stack path acc Hnd Hok; cbn [dfs]; [reflexivity|].
    destruct stack as [|[n d] st]; [reflexivity|].
    cbn [stack_ok] in Hok. destruct Hok as [H1 [H2 [H3 [H4 H5]]]].
    destruct (Nat.eqb d last) eqn:Ed.
    - apply IH; assumption.
    - apply Nat.eqb_neq in Ed.
      set (path' := firstn d path ++ [n]).
      assert (Hlen : List.length path' = S d).
      { unfold path'. rewrite app_length, firstn_length, Nat.min_l by exact H1. cbn. lia. }
      assert (Hnd' : NoDup path').
      { unfold path'. apply NoDup_app_single; [apply NoDup_firstn; exact Hnd | exact H3]. }
      assert (Hf : (S d <= last)%nat) by lia.
      rewrite <- (back_eq (S d) Hf).
      set (base := if negb (back1 (S d) =? Z.of_nat d) then znth path' (back1 (S d)) 0 else n).
      pose proof (cand_eq (S d) path' base Hlen Hnd' ltac:(lia)) as Hc.
      assert (Hm : map (fun e => (idx1 e, S d)) (filter (cand1 (S d) path' base) (nbrs1 base)) =
                   map (fun e => (idx2 e, S d)) (filter (cand2 (S d) path' base) (nbrs2 base))).
      { rewrite <- (map_map idx1 (fun i => (i, S d))), <- (map_map idx2 (fun i => (i, S d))), Hc. reflexivity. }
      rewrite <- Hm. apply IH; [exact Hnd'|].
      rewrite <- (map_map idx1 (fun i => (i, S d))).
      apply stack_ok_push; try assumption.
      + intros c Hcin. apply in_map_iff in Hcin. destruct Hcin as [e [<- He]]. apply filter_In in He.
        destruct He as [_ He]. exact (cand_fresh _ _ _ _ He).
      + eapply Forall_impl; [|exact H4]. intros x Hx. cbn beta in Hx. lia.
      + apply stack_ok_truncate; assumption.
  Qed.
End DfsExt.

Lemma search_ext (E1 E2 : Type) idx1 idx2 natoms (f1 f2 : Z -> bool) nbrs1 nbrs2 last back1 back2 cand1 cand2 :
  (forall n, 0 <= n < natoms -> f1 n = f2 n) ->
  (forall front, (front <= last)%nat -> back1 front = back2 front) ->
  (forall front path base, List.length path = front -> NoDup path -> (0 < front <= last)%nat ->
     map idx1 (filter (cand1 front path base) (nbrs1 base)) = map idx2 (filter (cand2 front path base) (nbrs2 base))) ->
  (forall front path base e, cand1 front path base e = true -> ~ In (idx1 e) path) ->
  forall fuel, search E1 idx1 natoms f1 nbrs1 last back1 cand1 fuel = search E2 idx2 natoms f2 nbrs2 last back2 cand2 fuel.
Proof.
  intros Hf Hb Hc Hfr fuel. unfold search.
  assert (Hi : init_stack natoms f1 = init_stack natoms f2).
  { unfold init_stack. f_equal. f_equal. apply filter_ext_in. intros n Hn. apply Hf. apply zrange_In. exact Hn. }
  rewrite Hi. apply (dfs_ext E1 E2 idx1 idx2 nbrs1 nbrs2 last back1 back2 cand1 cand2 Hb Hc Hfr); [constructor|].
  unfold init_stack. generalize (filter f2 (zrange 0 natoms)). intros l.
  assert (G : forall st : list (Z * nat), Forall (fun x => snd x = O) st -> stack_ok last [] st).
  { induction st as [|[n d] st IH]; intros H; cbn [stack_ok]; [exact I|]. inversion H as [|? ? Hd Hs]; subst. cbn [snd] in Hd. subst d.
    split; [cbn; lia|]. split; [lia|]. split; [cbn; tauto|]. split; [|apply IH; exact Hs].
    eapply Forall_impl; [|exact Hs]. intros x Hx. cbn beta in Hx. lia. }
  apply G. apply Forall_forall. intros x Hx. apply in_rev in Hx. apply in_map_iff in Hx. destruct Hx as [n [<- _]]. reflexivity.
Qed.

(* ------------------------------------------------------------------------------------------------------------ *)
(* 2. reading the buffers written by enc_mol / enc_query                                                          *)

Definition sumf {A} (f : A -> Z) (l : list A) : Z := fold_right (fun a acc => f a + acc) 0 l.

Lemma zlen_app {A} (a b : list A) : zlen (a ++ b) = zlen a + zlen b.
Proof. unfold zlen. rewrite app_length. lia. Qed.
Lemma zlen_nonneg {A} (a : list A) : 0 <= zlen a.
Proof. unfold zlen. lia. Qed.
Lemma zlen_map {A B} (f : A -> B) l : zlen (map f l) = zlen l.
Proof. unfold zlen. rewrite map_length. reflexivity. Qed.

Lemma flat_map_len {A B} (g : A -> list B) l : zlen (flat_map g l) = sumf (fun a => zlen (g a)) l.
Proof. induction l as [|a l IH]; cbn [flat_map sumf fold_right]; [reflexivity|]. rewrite zlen_app, IH. reflexivity. Qed.

Lemma slice_app {A} (a b c : list A) : slice (zlen a) (zlen a + zlen b) (a ++ b ++ c) = b.
Proof.
  unfold slice, zlen. replace (Z.to_nat (Z.of_nat (List.length a) + Z.of_nat (List.length b) - Z.of_nat (List.length a))) with (List.length b) by lia.
  rewrite Nat2Z.id. rewrite skipn_app, skipn_all, Nat.sub_diag. cbn [app skipn].
  rewrite firstn_app, firstn_all, Nat.sub_diag. cbn [firstn]. apply app_nil_r.
Qed.

Lemma sumf_ext {A} (f g : A -> Z) l : (forall x, f x = g x) -> sumf f l = sumf g l.
Proof. intros H. induction l as [|x l IH]; cbn [sumf fold_right]; [reflexivity|]. fold (sumf f l) (sumf g l). rewrite H, IH. reflexivity. Qed.
Lemma flat_slice {A B} (G : A -> list B) pre a post :
  slice (sumf (fun x => zlen (G x)) pre) (sumf (fun x => zlen (G x)) pre + zlen (G a)) (flat_map G (pre ++ a :: post)) = G a.
Proof. rewrite flat_map_app. cbn [flat_map]. rewrite <- flat_map_len. apply slice_app. Qed.

Lemma slice_0_0 {A} (l : list A) : slice 0 0 l = [].
Proof. reflexivity. Qed.

Lemma split_nth {A} (l : list A) i d : (i < List.length l)%nat -> l = firstn i l ++ nth i l d :: skipn (S i) l.
Proof.
  revert i. induction l as [|x l IH]; intros i H; cbn [List.length] in H; [lia|].
  destruct i; cbn [firstn nth skipn app]; [reflexivity|]. f_equal. apply IH. lia.
Qed.

Lemma from_to_length {A} (f : A -> Z) l s : List.length (from_to f l s) = List.length l.
Proof. revert s. induction l as [|a l IH]; intros s; cbn [from_to List.length]; [reflexivity|]. rewrite IH. reflexivity. Qed.

Lemma from_to_split {A} (f : A -> Z) pre a post s :
  nth (List.length pre) (from_to f (pre ++ a :: post) s) (0, 0) = (s + sumf f pre, s + sumf f pre + f a).
Proof.
  revert s. induction pre as [|x pre IH]; intros s; cbn [app from_to List.length nth sumf fold_right].
  - f_equal; lia.
  - rewrite IH. fold (sumf f pre). f_equal; lia.
Qed.

Lemma q_from_to_length l s : List.length (q_from_to l s) = List.length l.
Proof.
  revert s. induction l as [|a l IH]; intros s; cbn [q_from_to List.length]; [reflexivity|].
  destruct (rq_clos a); cbn [List.length]; rewrite IH; reflexivity.
Qed.

Definition sumq (l : list rqent) : Z := sumf (fun e => zlen (rq_clos e)) l.

Lemma q_from_to_split pre e post s : rq_clos e <> [] ->
  nth (List.length pre) (q_from_to (pre ++ e :: post) s) (0, 0) = (s + sumq pre, s + sumq pre + zlen (rq_clos e)).
Proof.
  intros He. revert s. induction pre as [|x pre IH]; intros s; cbn [app q_from_to List.length nth].
  - destruct (rq_clos e) as [|c cl] eqn:Ec; [congruence|]. cbn [nth]. unfold sumq, sumf. cbn [fold_right]. f_equal; lia.
  - unfold sumq, sumf. cbn [fold_right]. fold (sumf (fun e => zlen (rq_clos e)) pre). fold (sumq pre).
    destruct (rq_clos x) as [|c cl] eqn:Ex; cbn [nth]; rewrite IH.
    + unfold zlen. cbn [List.length]. f_equal; lia.
    + f_equal; lia.
Qed.

Lemma znth_nth {A} (l : list A) i d : 0 <= i -> znth l i d = nth (Z.to_nat i) l d.
Proof. intros H. unfold znth. destruct (i <? 0) eqn:E; [apply Z.ltb_lt in E; lia | reflexivity]. Qed.
Lemma znth_neg {A} (l : list A) i d : i < 0 -> znth l i d = d.
Proof. intros H. unfold znth. destruct (i <? 0) eqn:E; [reflexivity | apply Z.ltb_ge in E; lia]. Qed.
Lemma znth_over {A} (l : list A) i d : zlen l <= i -> znth l i d = d.
Proof. intros H. pose proof (zlen_nonneg l). rewrite znth_nth by lia. apply nth_overflow. unfold zlen in H. lia. Qed.

(* ---- molecule ---- *)
Definition bits_of (rm : list ratom) : list bits4 := map (fun a => enc_atom (ra_atom a)) rm.
Definition encb (rm : list ratom) (e : Z * lbond) : bond_t :=
  mkBT (enc_bond (snd e) (w1 (znth (bits_of rm) (fst e) b4zero))) (fst e).
Definition dra : ratom := mkRA 0 (mkLA 0 None 0 false 0 0 None 0 []) [].

Lemma enc_mol_natoms rm : zlen (mo_atoms (enc_mol rm)) = zlen rm.
Proof.
  unfold enc_mol, zlen. cbn [mo_atoms]. rewrite map_length, !combine_length, map_length, from_to_length.
  rewrite !Nat.min_id. reflexivity.
Qed.

Lemma bits_of_nth rm i : 0 <= i < zlen rm -> znth (bits_of rm) i b4zero = enc_atom (ra_atom (r_atom rm i)).
Proof.
  intros H. unfold r_atom. rewrite !znth_nth by lia. unfold bits_of.
  rewrite (nth_indep _ b4zero (enc_atom (ra_atom dra))) by (rewrite map_length; unfold zlen in H; lia).
  rewrite (map_nth (fun a => enc_atom (ra_atom a))). reflexivity.
Qed.

Lemma enc_mol_atom rm i : 0 <= i < zlen rm ->
  ma_bits (m_atom (enc_mol rm) i) = enc_atom (ra_atom (r_atom rm i)) /\
  ma_mapping (m_atom (enc_mol rm) i) = ra_num (r_atom rm i) /\
  m_bonds_of (enc_mol rm) i = map (encb rm) (ra_nbrs (r_atom rm i)).
Proof.
  intros H. assert (Hi : (Z.to_nat i < List.length rm)%nat) by (unfold zlen in H; lia).
  set (F := fun abf : ratom * bits4 * (Z * Z) => let '(a, b, (f, t)) := abf in mkMA b f t (ra_num a)).
  set (ft := from_to (fun a => zlen (ra_nbrs a)) rm 0).
  assert (Ha : m_atom (enc_mol rm) i = F (nth (Z.to_nat i) rm dra, nth (Z.to_nat i) (bits_of rm) b4zero, nth (Z.to_nat i) ft (0, 0))).
  { unfold m_atom. rewrite znth_nth by lia. unfold enc_mol. cbn [mo_atoms]. fold (bits_of rm). fold ft. fold F.
    change (mkMA b4zero 0 0 0) with (F (dra, b4zero, (0, 0))). rewrite map_nth.
    rewrite combine_nth by (unfold ft; rewrite combine_length, from_to_length; unfold bits_of; rewrite map_length, Nat.min_id; reflexivity).
    rewrite combine_nth by (unfold bits_of; rewrite map_length; reflexivity). reflexivity. }
  pose proof (split_nth rm (Z.to_nat i) dra Hi) as Hs.
  set (pre := firstn (Z.to_nat i) rm) in *. set (a := nth (Z.to_nat i) rm dra) in *. set (post := skipn (S (Z.to_nat i)) rm) in *.
  assert (Hl : List.length pre = Z.to_nat i) by (unfold pre; rewrite firstn_length; lia).
  assert (Hft : nth (Z.to_nat i) ft (0, 0) = (sumf (fun a => zlen (ra_nbrs a)) pre, sumf (fun a => zlen (ra_nbrs a)) pre + zlen (ra_nbrs a))).
  { unfold ft. rewrite Hs at 1. rewrite <- Hl. rewrite from_to_split. f_equal; lia. }
  assert (Hb : nth (Z.to_nat i) (bits_of rm) b4zero = enc_atom (ra_atom a)).
  { pose proof (bits_of_nth rm i H) as Hb. rewrite znth_nth in Hb by lia. rewrite Hb. unfold r_atom. rewrite znth_nth by lia. reflexivity. }
  assert (Hr : r_atom rm i = a) by (unfold r_atom; rewrite znth_nth by lia; reflexivity).
  rewrite Hr. unfold m_bonds_of. rewrite Ha, Hft, Hb. cbn [F ma_bits ma_mapping ma_from ma_to].
  split; [reflexivity|]. split; [reflexivity|].
  unfold enc_mol. cbn [mo_bonds]. fold (bits_of rm).
  set (G := fun a0 : ratom => map (encb rm) (ra_nbrs a0)).
  change (flat_map _ rm) with (flat_map G rm).
  assert (Hfm : flat_map G rm = flat_map G (pre ++ a :: post)) by (rewrite <- Hs; reflexivity).
  rewrite Hfm.
  replace (sumf (fun a0 => zlen (ra_nbrs a0)) pre) with (sumf (fun x => zlen (G x)) pre)
    by (apply sumf_ext; intros x; unfold G; rewrite zlen_map; reflexivity).
  replace (zlen (ra_nbrs a)) with (zlen (G a)) by (unfold G; rewrite zlen_map; reflexivity).
  change (map (encb rm) (ra_nbrs a)) with (G a). exact (flat_slice G pre a post).
Qed.

Lemma enc_mol_atom_out rm i : ~ (0 <= i < zlen rm) -> m_bonds_of (enc_mol rm) i = [] /\ ra_nbrs (r_atom rm i) = [].
Proof.
  intros H. unfold m_bonds_of, m_atom, r_atom.
  destruct (Z_lt_le_dec i 0) as [L|L].
  - rewrite !znth_neg by exact L. split; reflexivity.
  - assert (G : zlen rm <= i) by lia. rewrite (znth_over rm) by exact G.
    rewrite znth_over by (rewrite enc_mol_natoms; exact G). split; reflexivity.
Qed.

(* ---- query ---- *)
Definition drq : rqent := mkRQ 0 0 (QMetal [] []) None [].
Definition encc (mb : Z * qbond) : bond_t := mkBT (enc_closure (snd mb)) (fst mb).

Lemma enc_query_natoms rq : List.length (qu_atoms (enc_query rq)) = List.length rq.
Proof. unfold enc_query. cbn [qu_atoms]. rewrite map_length, combine_length, q_from_to_length, Nat.min_id. reflexivity. Qed.

Lemma enc_query_atom rq i : (i < List.length rq)%nat ->
  let e := rq_ent rq (Z.of_nat i) in
  let qa := q_atom (enc_query rq) (Z.of_nat i) in
  qa_mask qa = enc_qatom (rq_atom e) (rq_bond e) /\ qa_back qa = rq_back e /\ qa_closure qa = zlen (rq_clos e) /\
  qa_mapping qa = rq_num e /\
  (rq_clos e <> [] -> slice (qa_from qa) (qa_to qa) (qu_bonds (enc_query rq)) = map encc (rq_clos e)).
Proof.
  intros Hi. cbn zeta.
  set (F := fun eft : rqent * (Z * Z) => let '(e, (f, t)) := eft in
            mkQA (enc_qatom (rq_atom e) (rq_bond e)) (rq_back e) (zlen (rq_clos e)) f t (rq_num e)).
  assert (Ha : q_atom (enc_query rq) (Z.of_nat i) = F (nth i rq drq, nth i (q_from_to rq 0) (0, 0))).
  { unfold q_atom. rewrite znth_nth by lia. rewrite Nat2Z.id. unfold enc_query. cbn [qu_atoms]. fold F.
    rewrite (nth_indep _ (mkQA b4zero 0 0 0 0 0) (F (drq, (0, 0)))) by (rewrite map_length, combine_length, q_from_to_length, Nat.min_id; exact Hi).
    rewrite map_nth.
    rewrite combine_nth by (rewrite q_from_to_length; reflexivity). reflexivity. }
  assert (He : rq_ent rq (Z.of_nat i) = nth i rq drq) by (unfold rq_ent; rewrite znth_nth by lia; rewrite Nat2Z.id; reflexivity).
  rewrite He, Ha. set (e := nth i rq drq).
  destruct (nth i (q_from_to rq 0) (0, 0)) as [f t] eqn:Eft. cbn [F qa_mask qa_back qa_closure qa_from qa_to qa_mapping].
  repeat (split; [reflexivity|]). intros Hne.
  pose proof (split_nth rq i drq Hi) as Hs. fold e in Hs.
  set (pre := firstn i rq) in *. set (post := skipn (S i) rq) in *.
  assert (Hl : List.length pre = i) by (unfold pre; rewrite firstn_length; lia).
  assert (Hft : (f, t) = (sumq pre, sumq pre + zlen (rq_clos e))).
  { rewrite <- Eft. rewrite Hs at 1. rewrite <- Hl at 1. rewrite q_from_to_split by exact Hne. f_equal; lia. }
  inversion Hft; subst f t.
  unfold enc_query. cbn [qu_bonds].
  set (G := fun e0 : rqent => map encc (rq_clos e0)).
  change (flat_map _ rq) with (flat_map G rq).
  assert (Hfm : flat_map G rq = flat_map G (pre ++ e :: post)) by (rewrite <- Hs; reflexivity).
  rewrite Hfm. unfold sumq.
  replace (sumf (fun e0 => zlen (rq_clos e0)) pre) with (sumf (fun x => zlen (G x)) pre)
    by (apply sumf_ext; intros x; unfold G; rewrite zlen_map; reflexivity).
  replace (zlen (rq_clos e)) with (zlen (G e)) by (unfold G; rewrite zlen_map; reflexivity).
  change (map encc (rq_clos e)) with (G e). exact (flat_slice G pre e post).
Qed.

(* ------------------------------------------------------------------------------------------------------------ *)
(* 3. the counter-based closure test of the .pyx equals the set test of _get_mapping                              *)

Lemma zget_In {V} (d : list (Z * V)) k v : zget d k = Some v -> In (k, v) d.
Proof.
  induction d as [|[k' v'] d IH]; cbn [zget]; [discriminate|].
  destruct (k =? k') eqn:E; [apply Z.eqb_eq in E; subst; intros H; inversion H; left; reflexivity | intros H; right; apply IH; exact H].
Qed.
Lemma zget_None {V} (d : list (Z * V)) k : zget d k = None <-> ~ In k (map fst d).
Proof.
  induction d as [|[k' v'] d IH]; cbn [zget map fst In]; [tauto|].
  destruct (k =? k') eqn:E.
  - apply Z.eqb_eq in E. subst. split; [discriminate | intros H; exfalso; apply H; left; reflexivity].
  - apply Z.eqb_neq in E. destruct IH as [I1 I2]. split.
    + intros H [H1|H1]; [congruence | exact (I1 H H1)].
    + intros H. apply I2. intros H1. apply H. right. exact H1.
Qed.

Definition matched_nb (path : list Z) (base k : Z) : bool := zmem k path && negb (k =? base).
Definition K (path : list Z) (base : Z) (obon : list (Z * lbond)) : list Z := filter (matched_nb path base) (map fst obon).
Definition mcond (path : list Z) (base : Z) (j : bond_t) : bool := negb (bt_index j =? base) && zmem (bt_index j) path.

Lemma K_count rm path base obon : zlen (filter (mcond path base) (map (encb rm) obon)) = zlen (K path base obon).
Proof.
  unfold K, zlen. f_equal. induction obon as [|[k lb] l IH]; [reflexivity|].
  cbn [map filter fst]. unfold mcond at 1, matched_nb at 1. cbn [encb bt_index fst].
  rewrite andb_comm. destruct (zmem k path && negb (k =? base)); cbn [List.length]; rewrite IH; reflexivity.
Qed.

Lemma K_exists rm path base obon : existsb (mcond path base) (map (encb rm) obon) = nonempty (K path base obon).
Proof.
  unfold K. induction obon as [|[k lb] l IH]; [reflexivity|].
  cbn [map filter fst existsb]. unfold mcond at 1, matched_nb at 1. cbn [encb bt_index fst].
  rewrite andb_comm. destruct (zmem k path && negb (k =? base)); cbn [orb nonempty]; [reflexivity | exact IH].
Qed.

Lemma K_In path base obon x : In x (K path base obon) <-> In x (map fst obon) /\ matched_nb path base x = true.
Proof. unfold K. apply filter_In. Qed.

Lemma K_NoDup path base obon : NoDup (map fst obon) -> NoDup (K path base obon).
Proof. intros H. unfold K. apply NoDup_filter. exact H. Qed.

Lemma closures_at_spec rm path base obon x : NoDup (map fst obon) ->
  closures_at (map (encb rm) obon) path base x =
  match zget obon x with
  | Some lb => if matched_nb path base x then enc_bond lb (w1 (znth (bits_of rm) x b4zero)) else 0
  | None => 0
  end.
Proof.
  unfold closures_at. generalize 0 at 1 2 3 as acc.
  induction obon as [|[k lb] l IH]; intros acc Hnd; cbn [map fold_left zget]; [reflexivity|].
  cbn [encb bt_index bt_bond fst snd]. cbn [map fst] in Hnd. inversion Hnd as [|? ? Hk Hl]; subst.
  destruct (x =? k) eqn:E.
  - apply Z.eqb_eq in E. subst k. rewrite Z.eqb_refl, andb_true_r.
    rewrite (IH _ Hl). assert (N : zget l x = None) by (apply zget_None; exact Hk). rewrite N.
    unfold matched_nb. rewrite andb_comm. reflexivity.
  - rewrite (Z.eqb_sym k x), E, andb_false_r. apply IH. exact Hl.
Qed.

Lemma forallb_map {A B} (f : A -> B) (p : B -> bool) l : forallb p (map f l) = forallb (fun x => p (f x)) l.
Proof. induction l as [|x l IH]; cbn [map forallb]; [reflexivity|]. rewrite IH. reflexivity. Qed.
Lemma forallb_andb {A} (p q : A -> bool) l : forallb (fun x => p x && q x) l = forallb p l && forallb q l.
Proof.
  induction l as [|x l IH]; cbn [forallb]; [reflexivity|]. rewrite IH.
  destruct (p x), (q x), (forallb p l), (forallb q l); reflexivity.
Qed.

Lemma subset_incl a b : subset_z a b = true <-> incl a b.
Proof.
  unfold subset_z. rewrite forallb_forall. unfold incl. split; intros H x Hx; [apply zmem_In | apply zmem_In]; apply H; exact Hx.
Qed.

(* NoDup sets of equal size: inclusion one way is inclusion both ways *)
Lemma size_or_subset (Ks W : list Z) : NoDup Ks -> NoDup W -> subset_z W Ks = true ->
  (zlen Ks =? zlen W) = subset_z Ks W.
Proof.
  intros HK HW Hs. apply subset_incl in Hs. apply eq_true_iff_eq. rewrite Z.eqb_eq, subset_incl. unfold zlen. split.
  - intros Hl. apply (NoDup_length_incl HW); [lia | exact Hs].
  - intros Hi. pose proof (NoDup_incl_length HK Hi). pose proof (NoDup_incl_length HW Hs). lia.
Qed.

Lemma NoDup_map_nth (path : list Z) (l : list Z) :
  NoDup path -> NoDup l -> (forall i, In i l -> 0 <= i < zlen path) -> NoDup (map (fun i => znth path i 0) l).
Proof.
  intros Hp Hl Hr. induction l as [|i l IH]; cbn [map]; [constructor|].
  inversion Hl as [|? ? Hi Hl']; subst. constructor.
  - intros Hin. apply in_map_iff in Hin. destruct Hin as [j [Hj Hjl]].
    assert (Ri : 0 <= i < zlen path) by (apply Hr; left; reflexivity).
    assert (Rj : 0 <= j < zlen path) by (apply Hr; right; exact Hjl).
    rewrite !znth_nth in Hj by lia. unfold zlen in Ri, Rj.
    pose proof (proj1 (NoDup_nth path 0) Hp (Z.to_nat j) (Z.to_nat i) ltac:(lia) ltac:(lia) Hj) as E.
    assert (i = j) by lia. subst j. contradiction.
  - apply IH; [exact Hl'|]. intros j Hj. apply Hr. right. exact Hj.
Qed.

Lemma atom_ok_num a : atom_ok a = true -> 1 <= la_num a <= 118.
Proof.
  unfold atom_ok. rewrite !andb_true_iff. intros [[[[[[[H _] _] _] _] _] _] _].
  unfold in_range in H. apply andb_true_iff in H. destruct H as [H1 H2]. apply Z.leb_le in H1, H2. lia.
Qed.

Lemma r_atom_In rm i : 0 <= i < zlen rm -> In (r_atom rm i) rm.
Proof. intros H. unfold r_atom. rewrite znth_nth by lia. apply nth_In. unfold zlen in H. lia. Qed.

Lemma forallb_ext_in {A} (p q : A -> bool) l : (forall x, In x l -> p x = q x) -> forallb p l = forallb q l.
Proof.
  induction l as [|x l IH]; intros H; cbn [forallb]; [reflexivity|].
  rewrite (H x (or_introl eq_refl)), IH; [reflexivity|]. intros y Hy. apply H. right. exact Hy.
Qed.

Lemma closure_part_agree rm path base obon (clos : list (Z * qbond)) :
  wf_mol rm -> NoDup (map fst obon) ->
  Forall (fun e => 0 <= fst e < zlen rm /\ bond_ok (snd e) = true) obon ->
  NoDup path -> NoDup (map fst clos) ->
  Forall (fun mb => 0 <= fst mb < zlen path /\ qbond_ok (snd mb) = true) clos ->
  (if negb (zlen clos =? 0) then
     (zlen (filter (mcond path base) (map (encb rm) obon)) =? zlen clos) &&
     forallb (fun jq => closure_ok (bt_bond jq) (closures_at (map (encb rm) obon) path base (znth path (bt_index jq) 0)))
             (map encc clos)
   else negb (existsb (mcond path base) (map (encb rm) obon)))
  = same_keys_z (K path base obon) (map (fun mb => znth path (fst mb) 0) clos) &&
    forallb (fun mb => match zget obon (znth path (fst mb) 0) with
                       | Some ob => qbond_match (snd mb) ob
                       | None => false
                       end) clos.
Proof.
  intros Hwf Hnd Hob Hp Hcn Hcl.
  set (R := fun mb : Z * qbond => match zget obon (znth path (fst mb) 0) with
                                  | Some ob => qbond_match (snd mb) ob
                                  | None => false
                                  end).
  set (W := map (fun mb : Z * qbond => znth path (fst mb) 0) clos).
  assert (Entry : forall mb, In mb clos ->
            closure_ok (enc_closure (snd mb)) (closures_at (map (encb rm) obon) path base (znth path (fst mb) 0)) =
            zmem (znth path (fst mb) 0) (K path base obon) && R mb).
  { intros mb Hmb. rewrite Forall_forall in Hcl. destruct (Hcl mb Hmb) as [_ Hqb].
    rewrite (closures_at_spec rm path base obon _ Hnd). unfold R. set (x := znth path (fst mb) 0).
    destruct (zget obon x) as [lb|] eqn:Zg.
    - pose proof (zget_In _ _ _ Zg) as Hin. rewrite Forall_forall in Hob. destruct (Hob (x, lb) Hin) as [Hx Hlb]. cbn [fst snd] in Hx, Hlb.
      assert (Hxin : In x (map fst obon)) by (apply in_map_iff; exists (x, lb); split; [reflexivity | exact Hin]).
      destruct (matched_nb path base x) eqn:M.
      + rewrite (bits_of_nth rm x Hx), enc_atom_w1.
        unfold wf_mol in Hwf. rewrite Forall_forall in Hwf. destruct (Hwf _ (r_atom_In rm x Hx)) as [Hok _].
        rewrite (closure_ok_correct (snd mb) lb _ (atom_ok_num _ Hok) Hqb Hlb).
        assert (Hk : zmem x (K path base obon) = true) by (apply zmem_In, K_In; split; assumption).
        rewrite Hk. reflexivity.
      + assert (Hk : zmem x (K path base obon) = false).
        { apply not_true_is_false. intros T. apply zmem_In, K_In in T. destruct T as [_ T]. congruence. }
        rewrite Hk. reflexivity.
    - rewrite andb_false_r. reflexivity. }
  destruct (zlen clos =? 0) eqn:Hz.
  - assert (Ec : clos = []).
    { apply Z.eqb_eq in Hz. unfold zlen in Hz. destruct clos; [reflexivity | cbn [List.length] in Hz; lia]. }
    unfold W, R. rewrite Ec. cbn [negb map forallb]. rewrite K_exists, andb_true_r.
    unfold same_keys_z, subset_z. cbn [forallb]. rewrite andb_true_r.
    destruct (K path base obon) as [|k ks]; reflexivity.
  - cbn [negb]. rewrite K_count, forallb_map. cbn [encc bt_bond bt_index].
    rewrite (forallb_ext_in _ (fun mb => zmem (znth path (fst mb) 0) (K path base obon) && R mb) clos Entry).
    rewrite forallb_andb.
    assert (Hs : forallb (fun mb : Z * qbond => zmem (znth path (fst mb) 0) (K path base obon)) clos = subset_z W (K path base obon)).
    { unfold subset_z, W. rewrite forallb_map. reflexivity. }
    rewrite Hs. fold R. fold W.
    assert (Hlen : zlen clos = zlen W) by (unfold W; rewrite zlen_map; reflexivity). rewrite Hlen.
    assert (HW : NoDup W).
    { unfold W. rewrite <- (map_map fst (fun i => znth path i 0)). apply NoDup_map_nth; [exact Hp | exact Hcn|].
      intros i Hi. apply in_map_iff in Hi. destruct Hi as [mb [<- Hmb]]. rewrite Forall_forall in Hcl. apply (Hcl mb Hmb). }
    unfold same_keys_z. destruct (subset_z W (K path base obon)) eqn:Sub.
    + rewrite (size_or_subset _ _ (K_NoDup path base obon Hnd) HW Sub). rewrite andb_true_r. reflexivity.
    + rewrite andb_false_r. cbn [andb]. rewrite andb_false_r. reflexivity.
Qed.

(* ------------------------------------------------------------------------------------------------------------ *)
(* 4. the candidate tests agree, hence the searches                                                               *)

Lemma rq_ent_In rq i : (i < List.length rq)%nat -> In (rq_ent rq (Z.of_nat i)) rq.
Proof. intros H. unfold rq_ent. rewrite znth_nth by lia. rewrite Nat2Z.id. apply nth_In. exact H. Qed.

Lemma cand_agree rq rm scope front path base e :
  wf_query rq -> wf_mol rm -> in_range_pair rq rm ->
  (0 < front)%nat -> (front < List.length rq)%nat -> List.length path = front -> NoDup path ->
  0 <= base < zlen rm -> In e (ra_nbrs (r_atom rm base)) ->
  mask_cand (enc_query rq) (enc_mol rm) scope front path base (encb rm e) = ref_cand rq rm scope front path base e.
Proof.
  intros Hq Hm Hr Hf0 Hf Hlen Hnd Hb He.
  pose proof Hm as Hm'. unfold wf_mol in Hm'. rewrite Forall_forall in Hm'.
  destruct (Hm' _ (r_atom_In rm base Hb)) as [_ [_ Hnb]]. rewrite Forall_forall in Hnb. destruct (Hnb e He) as [Hon Hlb].
  destruct e as [o_n lb]. cbn [fst snd] in Hon, Hlb.
  destruct (Hm' _ (r_atom_In rm o_n Hon)) as [Haok [Hond Honb]].
  destruct (Hq front Hf) as [Hqok [_ [Hsb [Hcn Hcl]]]]. destruct (Hsb ltac:(lia)) as [sb [Esb Hsbok]].
  destruct (enc_query_atom rq front Hf) as [Emask [_ [Eclo [_ Eslice]]]].
  destruct (enc_mol_atom rm o_n Hon) as [Ebits [_ Ebonds]].
  unfold mask_cand, ref_cand. cbn [encb bt_index bt_bond fst snd]. cbn zeta.
  rewrite Ebonds, Ebits, Emask, Eclo, Esb.
  rewrite (bits_of_nth rm o_n Hon).
  assert (Hel : elem_hyp (rq_atom (rq_ent rq (Z.of_nat front))) (la_num (ra_atom (r_atom rm o_n)))).
  { apply Hr; [apply rq_ent_In; exact Hf | apply r_atom_In; exact Hon]. }
  rewrite (mask_match_next_correct _ sb _ lb Hqok Haok Hel Hsbok Hlb).
  assert (Hcl' : Forall (fun mb : Z * qbond => 0 <= fst mb < zlen path /\ qbond_ok (snd mb) = true) (rq_clos (rq_ent rq (Z.of_nat front)))).
  { eapply Forall_impl; [|exact Hcl]. intros mb [H1 H2]. split; [unfold zlen; lia | exact H2]. }
  pose proof (closure_part_agree rm path base (ra_nbrs (r_atom rm o_n)) (rq_clos (rq_ent rq (Z.of_nat front))) Hm Hond Honb Hnd Hcn Hcl') as CP.
  fold (mcond path base). fold (matched_nb path base).
  change (filter (matched_nb path base) (map fst (ra_nbrs (r_atom rm o_n)))) with (K path base (ra_nbrs (r_atom rm o_n))).
  rewrite <- !andb_assoc. f_equal. f_equal. f_equal. f_equal.
  rewrite <- CP.
  destruct (zlen (rq_clos (rq_ent rq (Z.of_nat front))) =? 0) eqn:Hz; cbn [negb]; [reflexivity|].
  rewrite Eslice; [reflexivity|]. intros Hnil. rewrite Hnil in Hz. discriminate.
Qed.

Lemma cand_lists_agree rq rm scope front path base :
  wf_query rq -> wf_mol rm -> in_range_pair rq rm ->
  (0 < front)%nat -> (front < List.length rq)%nat -> List.length path = front -> NoDup path ->
  map bt_index (filter (mask_cand (enc_query rq) (enc_mol rm) scope front path base) (m_bonds_of (enc_mol rm) base)) =
  map fst (filter (ref_cand rq rm scope front path base) (ra_nbrs (r_atom rm base))).
Proof.
  intros Hq Hm Hr Hf0 Hf Hlen Hnd.
  destruct (Z_lt_le_dec base 0) as [L|L]; [|destruct (Z_lt_le_dec base (zlen rm)) as [L2|L2]].
  - destruct (enc_mol_atom_out rm base ltac:(lia)) as [E1 E2]. rewrite E1, E2. reflexivity.
  - destruct (enc_mol_atom rm base ltac:(lia)) as [_ [_ E]]. rewrite E.
    assert (G : forall l, (forall e, In e l -> In e (ra_nbrs (r_atom rm base))) ->
                map bt_index (filter (mask_cand (enc_query rq) (enc_mol rm) scope front path base) (map (encb rm) l)) =
                map fst (filter (ref_cand rq rm scope front path base) l)).
    { induction l as [|e l IH]; intros Hin; [reflexivity|]. cbn [map filter].
      rewrite (cand_agree rq rm scope front path base e Hq Hm Hr Hf0 Hf Hlen Hnd ltac:(lia) (Hin e (or_introl eq_refl))).
      destruct (ref_cand rq rm scope front path base e); cbn [map]; rewrite IH by (intros x Hx; apply Hin; right; exact Hx); reflexivity. }
    apply G. auto.
  - destruct (enc_mol_atom_out rm base ltac:(lia)) as [E1 E2]. rewrite E1, E2. reflexivity.
Qed.

(* THE TWO SEARCHES: on the buffers written by the two encoders the mask-and-compare loop of _isomorphism.pyx yields
   exactly the sequence of partial-mapping paths that _get_mapping yields, for every scope and any amount of fuel *)
Theorem mask_search_equiv rq rm scope fuel :
  rq <> [] -> wf_query rq -> wf_mol rm -> in_range_pair rq rm ->
  mask_search (enc_query rq) (enc_mol rm) scope fuel = ref_search rq rm scope fuel.
Proof.
  intros Hne Hq Hm Hr. unfold mask_search, ref_search. rewrite enc_mol_natoms, enc_query_natoms.
  assert (Hlen : (0 < List.length rq)%nat) by (destruct rq; [congruence | cbn; lia]).
  apply search_ext.
  - intros n Hn. unfold mask_first, ref_first. f_equal.
    destruct (enc_query_atom rq O Hlen) as [Emask _]. destruct (enc_mol_atom rm n Hn) as [Ebits _].
    change (Z.of_nat 0) with 0 in Emask. rewrite Emask, Ebits.
    destruct (Hq O Hlen) as [Hqok [Hnob _]]. change (Z.of_nat 0) with 0 in Hqok, Hnob. rewrite (Hnob eq_refl).
    pose proof Hm as Hm'. unfold wf_mol in Hm'. rewrite Forall_forall in Hm'. destruct (Hm' _ (r_atom_In rm n Hn)) as [Haok _].
    assert (Hel : elem_hyp (rq_atom (rq_ent rq 0)) (la_num (ra_atom (r_atom rm n)))).
    { apply Hr; [apply (rq_ent_In rq O Hlen) | apply r_atom_In; exact Hn]. }
    apply mask_match_first_correct; assumption.
  - intros front Hfr. destruct (enc_query_atom rq front ltac:(lia)) as [_ [Eb _]]. exact Eb.
  - intros front path base Hl Hnd Hfr. apply cand_lists_agree; try assumption; lia.
  - intros front path base e Hc. unfold mask_cand in Hc. cbn zeta in Hc.
    repeat (apply andb_true_iff in Hc; destruct Hc as [Hc ?]).
    match goal with H : negb (zmem _ path) = true |- _ => apply negb_true_iff in H; intros Hin; apply zmem_In in Hin; congruence end.
Qed.

(* ------------------------------------------------------------------------------------------------------------ *)
(* 5. decidable hypotheses, the mappings, a non-trivial instance                                                  *)

Lemma nodup_z_sound l : nodup_z l = true -> NoDup l.
Proof.
  induction l as [|x l IH]; cbn [nodup_z]; intros H; [constructor|].
  apply andb_true_iff in H. destruct H as [H1 H2]. constructor; [|apply IH; exact H2].
  intros Hin. apply zmem_In in Hin. rewrite Hin in H1. discriminate.
Qed.

Lemma wf_molb_sound rm : wf_molb rm = true -> wf_mol rm.
Proof.
  unfold wf_molb, wf_mol. rewrite forallb_forall, Forall_forall. intros H a Ha. specialize (H a Ha).
  unfold wf_ratomb in H. apply andb_true_iff in H. destruct H as [H H3]. apply andb_true_iff in H. destruct H as [H1 H2].
  split; [exact H1|]. split; [apply nodup_z_sound; exact H2|].
  rewrite forallb_forall in H3. apply Forall_forall. intros e He. specialize (H3 e He).
  apply andb_true_iff in H3. destruct H3 as [H3 H5]. apply andb_true_iff in H3. destruct H3 as [H3 H4].
  apply Z.leb_le in H3. apply Z.ltb_lt in H4. split; [lia | exact H5].
Qed.

Lemma wf_queryb_sound rq : wf_queryb rq = true -> wf_query rq.
Proof.
  unfold wf_queryb, wf_query. rewrite forallb_forall. intros H i Hi. assert (Hin : In i (seq 0 (List.length rq))) by (apply in_seq; lia). specialize (H i Hin).
  unfold wf_rqentb in H. apply andb_true_iff in H. destruct H as [H H4]. apply andb_true_iff in H. destruct H as [H H3].
  apply andb_true_iff in H. destruct H as [H1 H2].
  split; [exact H1|]. split; [|split; [|split]].
  - intros ->. destruct (rq_bond (rq_ent rq (Z.of_nat 0))); [discriminate | reflexivity].
  - intros Hne. destruct i as [|i]; [congruence|]. destruct (rq_bond (rq_ent rq (Z.of_nat (S i)))) as [sb|]; [|discriminate].
    exists sb. split; [reflexivity | exact H2].
  - apply nodup_z_sound. exact H3.
  - rewrite forallb_forall in H4. apply Forall_forall. intros mb Hmb. specialize (H4 mb Hmb).
    apply andb_true_iff in H4. destruct H4 as [H4 H6]. apply andb_true_iff in H4. destruct H4 as [H4 H5].
    apply Z.leb_le in H4. apply Z.ltb_lt in H5. split; [lia | exact H6].
Qed.

Lemma elem_hypb_sound q an : elem_hypb q an = true -> elem_hyp q an.
Proof.
  unfold elem_hypb, elem_hyp. intros H. apply andb_true_iff in H. destruct H as [H1 H2].
  unfold in_range in H1. apply andb_true_iff in H1. destruct H1 as [H1 H1']. apply Z.leb_le in H1, H1'. split; [lia|].
  destruct q as [n iso x|x|nums x|nb hyb].
  - unfold in_range in H2. apply andb_true_iff in H2. destruct H2 as [H2 H2']. apply Z.leb_le in H2, H2'. lia.
  - exact I.
  - exact H2.
  - exact I.
Qed.

Lemma in_range_pairb_sound rq rm : in_range_pairb rq rm = true -> in_range_pair rq rm.
Proof.
  unfold in_range_pairb, in_range_pair. rewrite forallb_forall. intros H e a He Ha. specialize (H e He).
  rewrite forallb_forall in H. apply elem_hypb_sound. apply H. exact Ha.
Qed.

Theorem mask_search_equiv_b rq rm scope fuel :
  hyps_ok rq rm = true -> mask_search (enc_query rq) (enc_mol rm) scope fuel = ref_search rq rm scope fuel.
Proof.
  unfold hyps_ok. intros H. apply andb_true_iff in H. destruct H as [H H4]. apply andb_true_iff in H. destruct H as [H H3].
  apply andb_true_iff in H. destruct H as [H1 H2].
  apply mask_search_equiv; [destruct rq; [discriminate | congruence] | apply wf_queryb_sound; exact H2 |
                            apply wf_molb_sound; exact H3 | apply in_range_pairb_sound; exact H4].
Qed.

(* the dictionaries built from a path: query atom number -> molecule atom number *)
Lemma map_fst_combine {A B} (l : list A) (l' : list B) : List.length l = List.length l' -> map fst (combine l l') = l.
Proof.
  revert l'. induction l as [|x l IH]; intros [|y l'] H; cbn [combine map fst]; try reflexivity; try discriminate.
  f_equal. apply IH. cbn [List.length] in H. lia.
Qed.

Theorem mapping_equiv rq rm p : Forall (fun i => 0 <= i < zlen rm) p ->
  mask_mapping (enc_query rq) (enc_mol rm) p = ref_mapping rq rm p.
Proof.
  intros Hp. unfold mask_mapping, ref_mapping. f_equal.
  - unfold enc_query. cbn [qu_atoms]. rewrite map_map.
    transitivity (map rq_num (map fst (combine rq (q_from_to rq 0)))).
    + rewrite (map_map fst rq_num). apply map_ext. intros [e [f t]]. reflexivity.
    + rewrite map_fst_combine by (rewrite q_from_to_length; reflexivity). reflexivity.
  - apply map_ext_in. intros i Hi. rewrite Forall_forall in Hp. destruct (enc_mol_atom rm i (Hp i Hi)) as [_ [E _]]. exact E.
Qed.

(* non-vacuity: a three-membered ring query (one ring closure) on methylcyclopropane; six mappings, found by both searches *)
Definition ex_c : latom := mkLA 6 None 0 false 2 1 (Some 2) 0 [3].
Definition ex_rm : list ratom :=
  [mkRA 10 (mkLA 6 None 0 false 1 1 (Some 3) 0 []) [(1, mkLB 1 false)];
   mkRA 11 (mkLA 6 None 0 false 3 1 (Some 1) 0 [3]) [(0, mkLB 1 false); (2, mkLB 1 true); (3, mkLB 1 true)];
   mkRA 12 ex_c [(1, mkLB 1 true); (3, mkLB 1 true)];
   mkRA 13 ex_c [(1, mkLB 1 true); (2, mkLB 1 true)]].
Definition ex_q : qatom := QElem 6 None (mkQX 0 false [] [] [] [] [3]).
Definition ex_rq : list rqent :=
  [mkRQ 1 0 ex_q None []; mkRQ 2 0 ex_q (Some (mkQB [1] (Some true))) [];
   mkRQ 3 1 ex_q (Some (mkQB [1; 2] None)) [(0, mkQB [1] None)]].
Theorem mask_search_example :
  hyps_ok ex_rq ex_rm = true /\
  mask_search (enc_query ex_rq) (enc_mol ex_rm) [true; true; true; true] 100 =
    Some [[3; 2; 1]; [3; 1; 2]; [2; 3; 1]; [2; 1; 3]; [1; 3; 2]; [1; 2; 3]] /\
  ref_search ex_rq ex_rm [true; true; true; true] 100 = Some [[3; 2; 1]; [3; 1; 2]; [2; 3; 1]; [2; 1; 3]; [1; 3; 2]; [1; 2; 3]] /\
  mask_search (enc_query ex_rq) (enc_mol ex_rm) [true; true; true; false] 100 = Some [].
Proof. vm_compute. repeat split; reflexivity. Qed.

(* ------------------------------------------------------------------------------------------------------------ *)
(* 6. the guard of QueryIsomorphism.get_mapping: one component / scope call under `_cython=True` and `_cython=False`  *)

Section DfsRange.
  Variables (E : Type) (idx : E -> Z) (nbrs : Z -> list E) (last : nat) (back : nat -> Z).
  Variable cand : nat -> list Z -> Z -> E -> bool.
  Variable P : Z -> Prop.
  Hypothesis nbrs_P : forall b e, In e (nbrs b) -> P (idx e).

  Lemma dfs_range fuel : forall stack path acc out,
    Forall (fun x => P (fst x)) stack -> Forall P path -> Forall (Forall P) acc ->
    dfs E idx nbrs last back cand fuel stack path acc = Some out -> Forall (Forall P) out.
  Proof.
    induction fuel as [|fuel IH]; intros stack path acc out Hs Hp Ha; cbn [dfs]; [discriminate|].
    destruct stack as [|[n d] st].
    - intros H. inversion H; subst. apply Forall_rev. exact Ha.
    - inversion Hs as [|? ? Hn Hst]; subst. cbn [fst] in Hn.
      assert (Hp' : Forall P (firstn d path ++ [n])).
      { apply Forall_app. split; [|constructor; [exact Hn | constructor]].
        apply Forall_forall. intros x Hx. rewrite Forall_forall in Hp. apply Hp. eapply in_firstn. exact Hx. }
      destruct (Nat.eqb d last).
      + apply IH; [exact Hst | exact Hp | constructor; [exact Hp' | exact Ha]].
      + apply IH; [|exact Hp' | exact Ha]. apply Forall_app. split; [|exact Hst].
        apply Forall_forall. intros x Hx. apply in_rev in Hx. apply in_map_iff in Hx. destruct Hx as [e [<- He]].
        apply filter_In in He. destruct He as [He _]. cbn [fst]. eapply nbrs_P. exact He.
  Qed.
End DfsRange.

Lemma ref_search_range rq rm scope fuel out : wf_mol rm ->
  ref_search rq rm scope fuel = Some out -> Forall (Forall (fun i => 0 <= i < zlen rm)) out.
Proof.
  intros Hm H. unfold ref_search, search in H.
  eapply (dfs_range (Z * lbond) fst (fun i => ra_nbrs (r_atom rm i))); [| | constructor | constructor | exact H].
  - intros b e He. destruct (Z_lt_le_dec b 0) as [L|L]; [|destruct (Z_lt_le_dec b (zlen rm)) as [L2|L2]].
    + destruct (enc_mol_atom_out rm b ltac:(lia)) as [_ E]. rewrite E in He. destruct He.
    + unfold wf_mol in Hm. rewrite Forall_forall in Hm. destruct (Hm _ (r_atom_In rm b ltac:(lia))) as [_ [_ Hn]].
      rewrite Forall_forall in Hn. apply (Hn e He).
    + destruct (enc_mol_atom_out rm b ltac:(lia)) as [_ E]. rewrite E in He. destruct He.
  - unfold init_stack. apply Forall_forall. intros x Hx. apply in_rev in Hx. apply in_map_iff in Hx.
    destruct Hx as [n [<- Hn]]. apply filter_In in Hn. destruct Hn as [Hn _]. apply zrange_In in Hn. cbn [fst]. exact Hn.
Qed.

Lemma no_unknown_h rm : has_unknown_h rm = false ->
  forall a, In a rm -> exists h, la_h (ra_atom a) = Some h.
Proof.
  intros H a Ha. unfold has_unknown_h in H. destruct (la_h (ra_atom a)) as [h|] eqn:E; [exists h; reflexivity|].
  exfalso. assert (T : existsb (fun a0 => match la_h (ra_atom a0) with None => true | Some _ => false end) rm = true).
  { apply existsb_exists. exists a. split; [exact Ha|]. rewrite E. reflexivity. }
  congruence.
Qed.

(* ONE COMPONENT / SCOPE CALL OF get_mapping: the dictionaries yielded with `_cython=True` (guard included) and with
   `_cython=False` are the same sequence.  A molecule with an unknown hydrogen count needs no further hypothesis: the guard
   sends it to the reference path; every other molecule must be well formed and inside the representable range. *)
Theorem get_mapping_equiv rq rm scope fuel :
  rq <> [] -> wf_query rq -> (has_unknown_h rm = false -> wf_mol rm) -> in_range_pair rq rm ->
  component_mappings true rq rm scope fuel = component_mappings false rq rm scope fuel.
Proof.
  intros Hne Hq Hm Hr. unfold component_mappings, uses_mask_path. cbn [andb].
  destruct (has_unknown_h rm) eqn:Hu; cbn [negb]; [reflexivity|].
  specialize (Hm eq_refl). rewrite (mask_search_equiv rq rm scope fuel Hne Hq Hm Hr).
  destruct (ref_search rq rm scope fuel) as [out|] eqn:Es; [|reflexivity]. cbn [option_map]. f_equal.
  apply map_ext_in. intros p Hp. apply mapping_equiv.
  pose proof (ref_search_range rq rm scope fuel out Hm Es) as Hrg. rewrite Forall_forall in Hrg. exact (Hrg p Hp).
Qed.

Theorem get_mapping_example :
  let rm := [mkRA 1 (mkLA 6 None 0 false 1 4 (Some 1) 1 [6]) [(1, mkLB 4 true)];
             mkRA 2 noh_atom [(0, mkLB 4 true)]] in
  let rq := [mkRQ 1 0 (QElem 7 None (mkQX 0 false [] [] [0] [] [])) None []] in
  has_unknown_h rm = true /\ uses_mask_path true rm = false /\
  component_mappings true rq rm [true; true] 10 = Some [] /\ component_mappings false rq rm [true; true] 10 = Some [] /\
  (* the mask path, had it been taken, would have accepted the nitrogen: this is what the guard prevents *)
  option_map (map (mask_mapping (enc_query rq) (enc_mol rm))) (mask_search (enc_query rq) (enc_mol rm) [true; true] 10) = Some [[(1, 2)]].
Proof. vm_compute. repeat split; reflexivity. Qed.

Theorem get_mapping_equiv_b rq rm scope fuel : gm_hyps_ok rq rm = true ->
  component_mappings true rq rm scope fuel = component_mappings false rq rm scope fuel.
Proof.
  unfold gm_hyps_ok. intros H. apply andb_true_iff in H. destruct H as [H H4]. apply andb_true_iff in H. destruct H as [H H3].
  apply andb_true_iff in H. destruct H as [H1 H2].
  apply get_mapping_equiv; [destruct rq; [discriminate | congruence] | apply wf_queryb_sound; exact H2 | | apply in_range_pairb_sound; exact H4].
  intros Hu. rewrite Hu in H3. cbn [orb] in H3. apply wf_molb_sound. exact H3.
Qed.
