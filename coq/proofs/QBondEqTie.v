(* C08 -- TIE BY TRANSLATION of QueryBond.__eq__: the function generated from the source (Gen.QBondEqBody, tools/gen_qbondeq.py)
   equals the hand-written Query.qbond_match on molecule bonds for EVERY query bond and bond; the other branches are what the
   documentation says (same orders and ring mark for a query bond, membership for an int, False otherwise). *)
From Coq Require Import ZArith List Bool.
From Gen Require Import QBondEqBody.
From Model Require Import PyBase Query.
Import ListNotations.
Open Scope Z_scope.

Theorem g_eq_QueryBond_bond q b : g_eq_QueryBond q (OBond b) = qbond_match q b.
Proof.
  unfold g_eq_QueryBond, qbond_match. destruct (qb_ring q) as [r|]; cbn [g_is_none negb option_eqb]; [|reflexivity].
  destruct (Bool.eqb r (lb_ring b)); reflexivity.
Qed.
Theorem g_eq_QueryBond_others q :
  (forall o, g_eq_QueryBond q (OQuery o) = list_eqb Z.eqb (qb_ord q) (qb_ord o) && option_eqb Bool.eqb (qb_ring q) (qb_ring o)) /\
  (forall n, g_eq_QueryBond q (OInt n) = zmem n (qb_ord q)) /\ g_eq_QueryBond q OOther = false.
Proof. repeat split. Qed.
Lemma g_eq_QueryBond_example :
  g_eq_QueryBond (mkQB [1; 2] (Some true)) (OBond (mkLB 2 true)) = true /\ g_eq_QueryBond (mkQB [1; 2] (Some true)) (OBond (mkLB 2 false)) = false /\
  g_eq_QueryBond (mkQB [1; 2] None) (OBond (mkLB 3 false)) = false /\ g_eq_QueryBond (mkQB [1; 2] None) (OInt 2) = true /\
  g_eq_QueryBond (mkQB [1; 2] None) (OQuery (mkQB [1; 2] (Some false))) = false.
Proof. vm_compute. repeat split; reflexivity. Qed.
