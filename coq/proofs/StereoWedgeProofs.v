(* C12: add_wedge on allenes -- a wedge to one substituent of a terminal atom is the hash to its geminal partner, and
   wedge / hash give opposite labels *)
From Coq Require Import ZArith List Bool Lia.
From Model Require Import PyBase Stereo StereoSmiles StereoWedge.
From Proofs Require Import StereoProofs.
Import ListNotations.
Open Scope Z_scope.

Lemma sign_pair s : (if - s =? 0 then None else Some (0 <? - s)) = (if s =? 0 then None else Some (s <? 0)).
Proof.
  destruct (Z.eqb_spec s 0) as [->|H]; [reflexivity|]. destruct (Z.eqb_spec (- s) 0) as [E|_]; [lia|].
  f_equal. destruct (Z.ltb_spec 0 (- s)), (Z.ltb_spec s 0); try reflexivity; lia.
Qed.

Lemma env_index_full n0 n1 n2 n3 : NoDup [n0; n1; n2; n3] ->
  env_index (n0, n1, Some n2, Some n3) n0 = Some 0 /\ env_index (n0, n1, Some n2, Some n3) n1 = Some 1 /\
  env_index (n0, n1, Some n2, Some n3) n2 = Some 2 /\ env_index (n0, n1, Some n2, Some n3) n3 = Some 3.
Proof.
  intros Hn. inversion Hn as [|? ? A H1]; subst. inversion H1 as [|? ? B H2]; subst. inversion H2 as [|? ? C _]; subst. cbn in A, B, C.
  assert (E : (n1 =? n0) = false /\ (n2 =? n0) = false /\ (n2 =? n1) = false /\ (n3 =? n0) = false /\ (n3 =? n1) = false /\ (n3 =? n2) = false).
  { repeat split; apply Z.eqb_neq; intuition congruence. }
  destruct E as (E1 & E2 & E3 & E4 & E5 & E6). unfold env_index. rewrite !Z.eqb_refl, ?E1, ?E2, ?E3, ?E4, ?E5, ?E6. repeat split; reflexivity.
Qed.

(* geminal identity: the wedge (mark) to the SECOND substituent of a terminal atom stores the label of the hash (-mark) to the
   FIRST substituent of the same terminal atom -- for both terminal atoms *)
Theorem wedge_al_geminal isH n0 n1 n2 n3 t1 t2 c mark :
  NoDup [n0; n1; n2; n3] -> isH n0 = false -> isH n1 = false -> isH n2 = false -> isH n3 = false ->
  wedge_al isH (n0, n1, Some n2, Some n3) t1 t2 t1 n2 c mark = wedge_al isH (n0, n1, Some n2, Some n3) t1 t2 t1 n0 c (- mark) /\
  wedge_al isH (n0, n1, Some n2, Some n3) t1 t2 t2 n3 c mark = wedge_al isH (n0, n1, Some n2, Some n3) t1 t2 t2 n1 c (- mark).
Proof.
  intros Hn H0 H1 H2 H3. destruct (env_index_full n0 n1 n2 n3 Hn) as (I0 & I1 & I2 & I3).
  unfold wedge_al. rewrite H0, H1, H2, H3, I0, I1, I2, I3. rewrite !allene_sign_mark. rewrite !sign_pair. split; reflexivity.
Qed.

(* wedge and hash on the same bond give opposite labels (or both none) *)
Theorem wedge_al_mark isH e t1 t2 n m c mark :
  wedge_al isH e t1 t2 n m c (- mark) =
  match wedge_al isH e t1 t2 n m c mark with Ok (Some b) => Ok (Some (negb b)) | r => r end.
Proof.
  destruct e as [[[n0 n1] n2] n3]. unfold wedge_al.
  match goal with |- match ?s with _ => _ end = _ => destruct s as [[[[a b] m1] r]|] end; [|reflexivity].
  rewrite allene_sign_mark. set (s := allene_sign mark (xy_of c a) (xy_of c b) (xy_of c m1)).
  destruct (Z.eqb_spec s 0) as [E|E]; [rewrite E; reflexivity|]. destruct (Z.eqb_spec (- s) 0); [lia|].
  do 2 f_equal. destruct r; destruct (Z.ltb_spec (- s) 0), (Z.ltb_spec 0 (- s)), (Z.ltb_spec s 0), (Z.ltb_spec 0 s); try reflexivity; lia.
Qed.

Theorem wedge_example :
  (* N1 C2(Br3)=C4=C5(O6)C7 drawn flat, env (1, 6, 3, 7): wedge 5->7 up == wedge 5->6 down *)
  let c := [(1, (-3, 2)); (2, (-2, 0)); (3, (-3, -2)); (4, (0, 0)); (5, (2, 0)); (6, (3, 2)); (7, (3, -2))] in
  wedge_al (fun _ => false) (1, 6, Some 3, Some 7) 2 5 5 7 c 1 = Ok (Some false) /\
  wedge_al (fun _ => false) (1, 6, Some 3, Some 7) 2 5 5 6 c (-1) = Ok (Some false) /\
  wedge_al (fun _ => false) (1, 6, Some 3, Some 7) 2 5 5 6 c 1 = Ok (Some true) /\
  wedge_al (fun _ => false) (1, 6, Some 3, Some 7) 2 5 2 1 c 1 = Ok (Some false) /\
  api_drops_smiles_cache true = true.
Proof. repeat split; vm_compute; reflexivity. Qed.
