(* C13 -- every action on one molecule keeps its bond objects pairwise distinct (inj). *)
From Coq Require Import ZArith List Bool Lia.
From Model Require Import PyBase Cache.
From Proofs Require Import CacheProofs CacheWf CacheCopy CacheCoh CacheWorld CacheUnion CacheTheorems CacheUsable CacheFresh CacheFreshOps CacheInj.
Import ListNotations.
Open Scope Z_scope.

(* ---- actions that do not touch the adjacency *)
Definition ka (a : act) : Prop := forall h o, match a h o with (_, o', _) => o_adj o' = o_adj o end.
Lemma ka_seq a b : ka a -> ka b -> ka (a ;; b).
Proof.
  intros A B h o. unfold seq. specialize (A h o). destruct (a h o) as [[h1 o1] [e|]]; [exact A|]. specialize (B h1 o1).
  destruct (b h1 o1) as [[h2 o2] e2]. congruence.
Qed.
Lemma ka_relabels a : relabels a -> ka a.
Proof. intros R h o. specialize (R h o). destruct (a h o) as [[h1 o1] e]. destruct R as [[A _] _]. exact A. Qed.
Lemma ka_unless a : ka a -> ka (unless_transaction a).
Proof. intros A h o. unfold unless_transaction. destruct (o_backup o); [reflexivity | apply A]. Qed.
Lemma ka_flush ks kc : ka (flush ks kc). Proof. intros h o. reflexivity. Qed.
Lemma ka_read k : ka (read k). Proof. intros h o. reflexivity. Qed.
Lemma ka_mark ns : ka (mark_changed ns). Proof. intros h o. unfold mark_changed. destruct (o_changed o); reflexivity. Qed.
Lemma ka_discard n : ka (discard_changed n). Proof. intros h o. reflexivity. Qed.
Lemma ka_ok : ka ok. Proof. intros h o. reflexivity. Qed.
Lemma ka_calc_labels : ka calc_labels.
Proof.
  unfold calc_labels. apply ka_seq; [apply ka_read|]. apply ka_seq; [apply ka_read|]. apply ka_relabels. intros h o.
  apply label_rows_relabels. apply incl_refl.
Qed.
Lemma ka_fix_structure : ka fix_structure.
Proof.
  unfold fix_structure. apply ka_seq; [apply ka_calc_labels|]. apply ka_seq; [|intros h o; reflexivity].
  apply ka_relabels. intros h o. destruct (o_changed o) as [[|x l]|]; apply calc_implicit_all_relabels.
Qed.
Lemma ka_fix_both : ka (fix_structure ;; fix_stereo).
Proof. apply ka_seq; [apply ka_fix_structure | apply ka_read]. Qed.
Lemma ka_sub_finish rh : ka (sub_finish rh).
Proof.
  destruct rh; [apply ka_fix_both|]. unfold sub_finish. apply ka_seq; [|apply ka_read]. apply ka_seq; [apply ka_calc_labels | intros h o; reflexivity].
Qed.
Lemma ka_exit_ok : ka exit_ok.
Proof.
  unfold exit_ok. apply ka_seq; [intros h o; unfold note_setters; destruct (o_changed o); [destruct (o_backup o)|]; reflexivity|].
  apply ka_seq; [apply ka_flush|]. apply ka_seq; [apply ka_fix_structure|]. apply ka_seq; [apply ka_read | intros h o; reflexivity].
Qed.
(* the adjacency after S ;; T is the one S leaves *)
Lemma seq_adj (S T : act) h o : ka T -> match (S ;; T) h o, S h o with (_, o', _), (_, o1, _) => o_adj o' = o_adj o1 end.
Proof.
  intros K. unfold seq. destruct (S h o) as [[h1 o1] [e|]]; [reflexivity|]. specialize (K h1 o1). destruct (T h1 o1) as [[h2 o2] e2]. exact K.
Qed.

Definition iact (a : act) : Prop := forall h o, inv1 h o -> inj (o_adj o) -> match a h o with (_, o', _) => inj (o_adj o') end.
Lemma iact_ka a : ka a -> iact a.
Proof. intros K h o _ I. specialize (K h o). destruct (a h o) as [[h1 o1] e]. now rewrite K. Qed.

(* ---- the structural primitives *)
Lemma inj_put_atom adj n' : ~ In n' (keys adj) -> inj adj -> inj (adj ++ [(n', [])]).
Proof. intros N I. apply (inj_sub adj); [|exact I]. intros x y r. now rewrite aslot_app. Qed.
Lemma inj_put_bond h o n m rn rm :
  wf h o -> zget (o_adj o) n = Some rn -> zget (o_adj o) m = Some rm -> n <> m -> inj (o_adj o) ->
  inj (zset (zset (o_adj o) n (zset rn m (h_next h))) m (zset rm n (h_next h))).
Proof.
  intros Wf Hn Hm D I x y x' y' r. rewrite !(aslot_put _ n m rn rm (h_next h)) by assumption.
  assert (forall a b, aslot (o_adj o) a b = Some (h_next h) -> False) as Fresh.
  { intros a b S. apply aslot_arefs in S. apply (wf_lt _ _ _ Wf) in S. lia. }
  destruct (((x =? n) && (y =? m)) || ((x =? m) && (y =? n))) eqn:E1, (((x' =? n) && (y' =? m)) || ((x' =? m) && (y' =? n))) eqn:E2; intros H1 H2.
  - apply orb_true_iff in E1, E2. rewrite !andb_true_iff, !Z.eqb_eq in E1, E2. destruct E1 as [[-> ->]|[-> ->]], E2 as [[-> ->]|[-> ->]]; auto.
  - inversion H1; subst r. exfalso. eapply Fresh; eauto.
  - inversion H2; subst r. exfalso. eapply Fresh; eauto.
  - eapply I; eauto.
Qed.
Lemma zget_zdel_some {V} (d : list (Z * V)) k x v : zget (zdel d k) x = Some v -> zget d x = Some v.
Proof. rewrite zget_zdel. destruct (x =? k); [discriminate | auto]. Qed.

Lemma add_atom_iact c n : iact (add_atom c n).
Proof.
  intros h o I J. unfold add_atom. cbv zeta. set (n' := match n with None => _ | Some x => x end).
  destruct (match n with Some x => zmem x (keys (o_atoms o)) | None => false end) eqn:E; [exact J|].
  assert (~ In n' (keys (o_adj o))) as N.
  { rewrite (wf_keys _ _ _ (proj1 I)). unfold n'. clear n'. destruct n as [x|]; [exact (proj1 (zmem_false_notin _ _) E)|]. intros Hi. apply (zmax_ge _ 0) in Hi. lia. }
  pose proof (seq_adj (put_atom c n') (flush false false ;; mark_changed [n'] ;; unless_transaction fix_structure) h o) as K.
  destruct ((put_atom c n' ;; flush false false ;; mark_changed [n'] ;; unless_transaction fix_structure) h o) as [[h2 o2] e2].
  unfold put_atom, ok in K. rewrite K; [now apply inj_put_atom|].
  apply ka_seq; [apply ka_flush|]. apply ka_seq; [apply ka_mark | apply ka_unless, ka_fix_structure].
Qed.
Lemma add_bond_iact n m ord : iact (add_bond n m ord).
Proof.
  intros h o I J. unfold add_bond. destruct (negb (valid_order ord)); [exact J|]. destruct (Z.eqb_spec n m) as [|D]; [exact J|].
  destruct (zget (o_adj o) n) as [rn|] eqn:Hn; [|exact J]. destruct (zget (o_adj o) m) as [rm|] eqn:Hm; [|exact J].
  destruct (zmem n (keys rm)); [exact J|].
  match goal with |- match (?S ;; ?T) h o with _ => _ end => pose proof (seq_adj S T h o) as K; destruct ((S ;; T) h o) as [[h2 o2] e2] end.
  unfold put_bond, halloc, ok in K. rewrite K; [simpo; apply (inj_put_bond h o); auto; apply I|].
  apply ka_seq; [apply ka_flush|]. destruct (ord =? 8); [apply ka_unless, ka_calc_labels|].
  apply ka_seq; [apply ka_mark | apply ka_unless, ka_fix_both].
Qed.
Lemma delete_atom_iact n : iact (delete_atom n).
Proof.
  intros h o I J. unfold delete_atom. destruct (zget (o_atoms o) n) as [a|] eqn:Ha; [|exact J]. destruct (zget (o_adj o) n) as [r|] eqn:Hr; [|exact J].
  destruct (delete_struct n h o a r I Ha Hr) as [o1 [R _]]. pose proof (wf_nd _ _ _ (proj1 I)) as [_ Rw].
  assert (unlink n r h (set_adj (set_atoms o (zdel (o_atoms o) n)) (zdel (o_adj o) n)) = (h, o1, None)) as RU by exact R.
  destruct (unlink_rows n r h _ h o1 (Rw _ _ Hr) RU) as [_ [_ [_ [Rows _]]]]. simpo.
  rewrite <- seq_assoc.
  match goal with |- match (?S ;; ?T) h o with _ => _ end => pose proof (seq_adj S T h o) as K; destruct ((S ;; T) h o) as [[h2 o2] e2] end.
  rewrite R in K. rewrite K.
  - apply (inj_sub (o_adj o)); [|exact J]. intros x y rr. unfold aslot. rewrite Rows, zget_zdel.
    destruct (zmem x (keys r)); destruct (x =? n); cbn; try discriminate.
    + destruct (zget (o_adj o) x); cbn; [apply zget_zdel_some | discriminate].
    + auto.
  - apply ka_seq; [apply ka_discard|]. apply ka_seq; [apply ka_flush | apply ka_unless, ka_fix_both].
Qed.
Lemma delete_bond_iact n m : iact (delete_bond n m).
Proof.
  intros h o I J. unfold delete_bond. destruct (zget (o_adj o) n) as [rn|] eqn:Hn; [|exact J]. destruct (zget rn m) as [rf0|] eqn:Hnm; [|exact J].
  destruct (delete_bond_struct n m h o rn rf0 I Hn Hnm) as [rm [cl [Hm [Hmn [D [Hc _]]]]]].
  simpo. rewrite zget_zset. replace (m =? n) with false by (symmetry; apply Z.eqb_neq; congruence). rewrite Hm, Hmn, Hc.
  match goal with |- match (?S ;; ?T) h ?O with _ => _ end => pose proof (seq_adj S T h O) as K; destruct ((S ;; T) h O) as [[h2 o2] e2] end.
  assert (inj (zset (zset (o_adj o) n (zdel rn m)) m (zdel rm n))) as J2.
  { apply (inj_sub (o_adj o)); [|exact J]. intros x y rr. rewrite (aslot_cut _ n m rn rm) by assumption. destruct (_ || _); [discriminate | auto]. }
  destruct (b_ord cl =? 8).
  - unfold ok in K. rewrite K; [exact J2|]. apply ka_seq; [apply ka_flush | apply ka_unless, ka_fix_both].
  - pose proof (ka_mark [m; n] h (set_adj (set_adj o (zset (o_adj o) n (zdel rn m))) (zset (zset (o_adj o) n (zdel rn m)) m (zdel rm n)))) as Km.
    destruct (mark_changed [m; n] h _) as [[h3 o3] e3]. rewrite K; [rewrite Km; exact J2|].
    apply ka_seq; [apply ka_flush | apply ka_unless, ka_fix_both].
Qed.
Lemma inj_rename f adj : nd adj -> inj adj -> inj (rn_adj f adj).
Proof.
  intros ND I.
  assert (forall x' y' r, aslot (rn_adj f adj) x' y' = Some r -> exists x y, x' = f x /\ y' = f y /\ aslot adj x y = Some r) as Fw.
  { intros x' y' r H. apply aslot_In in H. destruct H as [rw' [H1 H2]]. unfold rn_adj in H1. apply in_map_iff in H1.
    destruct H1 as [[x rw] [E H1]]. cbn [fst snd] in E. inversion E; subst. unfold rn_row in H2. apply in_map_iff in H2.
    destruct H2 as [[y r0] [E2 H2]]. cbn [fst snd] in E2. inversion E2; subst. exists x, y. repeat split. eapply nd_In_aslot; eauto. }
  intros x1 y1 x2 y2 r H1 H2. apply Fw in H1, H2. destruct H1 as [a [b [-> [-> S1]]]], H2 as [c [d [-> [-> S2]]]].
  destruct (I _ _ _ _ _ S1 S2) as [[-> ->]|[-> ->]]; auto.
Qed.
Lemma remap_iact mp : iact (remap mp).
Proof.
  intros h o I J. unfold remap. destruct (negb (nodup_z (map snd mp)) || existsb _ (keys (o_atoms o))); [exact J|].
  unfold flush, ok. cbn beta iota. simpo. apply (inj_rename (mg mp)); [apply (wf_nd _ _ _ (proj1 I)) | exact J].
Qed.
Lemma patch_iact n m bo dch : iact (patch n m bo dch).
Proof.
  intros h o I J. unfold patch. destruct (Z.eqb_spec n m) as [|D]; [exact J|].
  destruct (zget (o_atoms o) n) as [an|]; [|exact J]. destruct (zget (o_atoms o) m) as [am|]; [|exact J].
  destruct (zget (o_adj o) n) as [rn|] eqn:Ern; [|exact J]. destruct (zget (o_adj o) m) as [rm|] eqn:Erm; [|exact J]. cbv zeta.
  assert (ka (calc_labels ;; calc_implicit n ;; calc_implicit m ;; fix_stereo)) as K2.
  { apply ka_seq; [apply ka_calc_labels|]. apply ka_seq; [apply ka_relabels, calc_implicit_relabels|].
    apply ka_seq; [apply ka_relabels, calc_implicit_relabels | apply ka_read]. }
  destruct (_ >? 4).
  { assert (ka (flush true true ;; calc_labels ;; calc_implicit n ;; fix_stereo)) as K.
    { apply ka_seq; [apply ka_flush|]. apply ka_seq; [apply ka_calc_labels|]. apply ka_seq; [apply ka_relabels, calc_implicit_relabels | apply ka_read]. }
    specialize (K h o). destruct ((flush true true ;; calc_labels ;; calc_implicit n ;; fix_stereo) h o) as [[h2 o2] e2]. now rewrite K. }
  set (o1 := set_atoms o _). destruct (zget rn m) as [rf|].
  - destruct (hget h rf) as [cl|]; [|exact J].
    match goal with |- match ?A ?H ?O with _ => _ end => assert (ka A) as K by (apply ka_seq; [apply ka_flush | exact K2]); specialize (K H O); destruct (A H O) as [[h2 o2] e2] end.
    now rewrite K.
  - match goal with |- match (?S ;; ?T) h o1 with _ => _ end => pose proof (seq_adj S T h o1) as K; destruct ((S ;; T) h o1) as [[h2 o2] e2] end.
    unfold put_bond, halloc, ok in K. rewrite K; [|apply ka_seq; [apply ka_flush | exact K2]]. simpo.
    apply (inj_put_bond h o); auto. apply I.
Qed.
