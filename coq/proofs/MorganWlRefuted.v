(* C01: Morgan cannot tell apart non-isomorphic components whose atoms are pairwise Weisfeiler-Lehman equivalent.  For EVERY hash
   function, `_morgan` on the disjoint union of a three-ring and a six-ring of equal atoms (cyclopropane + cyclohexane: one initial
   invariant c, all bonds of order 1) returns rank 1 for all nine atoms: the refinement never leaves the uniform labelling, the loop
   ends by the stability counter.  So "atoms of non-isomorphic components get different ranks" is REFUTED for the faithful model, and the
   discreteness hypothesis of the writer theorems is necessary for multi-component molecules as well (known finding
   canon-differs:wl-equivalent-components: the order of the components in the canonical string follows set order). *)
From Coq Require Import ZArith List Bool Lia.
From Model Require Import PyBase PyHash Graph Morgan.
Import ListNotations.
Open Scope Z_scope.

Definition c3c6_ids : list Z := [1; 2; 3; 4; 5; 6; 7; 8; 9].
Definition c3c6_atoms (c : Z) : labels := map (fun n => (n, c)) c3c6_ids.
Definition c3c6_adj : iadj :=
  [(1, [(2, 1); (3, 1)]); (2, [(1, 1); (3, 1)]); (3, [(1, 1); (2, 1)]);
   (4, [(5, 1); (9, 1)]); (5, [(4, 1); (6, 1)]); (6, [(5, 1); (7, 1)]); (7, [(6, 1); (8, 1)]); (8, [(7, 1); (9, 1)]); (9, [(8, 1); (4, 1)])].

Lemma isort_leb_repeat (x : Z) (n : nat) : isort Z.leb (repeat x n) = repeat x n.
Proof.
  induction n as [|n IH]; [reflexivity|]. cbn [repeat]. unfold isort in *. cbn [fold_right]. rewrite IH.
  destruct n; cbn [repeat insert_by]; [reflexivity|]. rewrite Z.leb_refl. reflexivity.
Qed.
Lemma uniq_repeat (x : Z) (n : nat) : uniq (repeat x (S n)) = [x].
Proof. induction n as [|n IH]; [reflexivity|]. cbn [repeat uniq] in *. rewrite Z.eqb_refl. exact IH. Qed.
Lemma ndistinct_repeat (x : Z) (n : nat) : ndistinct (repeat x (S n)) = 1.
Proof. unfold ndistinct, zsort. rewrite isort_leb_repeat, uniq_repeat. reflexivity. Qed.

Lemma isort_by_label_const (x : Z) (l : labels) : (forall p, In p l -> snd p = x) -> isort by_label l = l.
Proof.
  induction l as [|p l IH]; intros H; [reflexivity|]. unfold isort in *. cbn [fold_right]. rewrite IH by (intros q Hq; apply H; right; exact Hq).
  destruct l as [|q r]; [reflexivity|]. cbn [insert_by]. unfold by_label.
  rewrite (H p (or_introl eq_refl)), (H q (or_intror (or_introl eq_refl))), Z.leb_refl. reflexivity.
Qed.
Lemma rank_walk_const (x : Z) (l : labels) (i : Z) : (forall p, In p l -> snd p = x) -> rank_walk x i l = map (fun p => (fst p, i)) l.
Proof.
  induction l as [|p l IH]; intros H; [reflexivity|]. cbn [rank_walk map]. rewrite (H p (or_introl eq_refl)), Z.eqb_refl. cbv zeta.
  f_equal. apply IH. intros q Hq. apply H. right. exact Hq.
Qed.

Section AnyHash.
  Variable h : list Z -> Z.
  Definition next_label (c : Z) : Z := h [c; c; 1; c; 1].

  Lemma sorted_pair (c : Z) : isort pair_leb [(c, 1); (c, 1)] = [(c, 1); (c, 1)].
  Proof. unfold isort. cbn [fold_right insert_by]. unfold pair_leb. cbn [fst snd]. rewrite Z.ltb_irrefl, Z.eqb_refl. reflexivity. Qed.

  Lemma row_tuple (A : labels) (c n a b : Z) : lbl A n = c -> lbl A a = c -> lbl A b = c ->
    round_tuple A n [(a, 1); (b, 1)] = [c; c; 1; c; 1].
  Proof. intros Hn Ha Hb. unfold round_tuple. cbn [map fst snd]. rewrite Hn, Ha, Hb, sorted_pair. reflexivity. Qed.

  Lemma round_c3c6 (c : Z) : round h (c3c6_atoms c) c3c6_adj = c3c6_atoms (next_label c).
  Proof. unfold round, c3c6_adj. cbn [map fst snd]. rewrite !(row_tuple (c3c6_atoms c) c) by reflexivity. reflexivity. Qed.

  Lemma refine_c3c6 (fuel : nat) : forall c stab, exists c', refine h c3c6_adj fuel (c3c6_atoms c) 1 stab = Ok (c3c6_atoms c').
  Proof.
    induction fuel as [|k IH]; intros c stab; [exists c; reflexivity|]. cbn [refine].
    replace (closed (c3c6_atoms c) c3c6_adj) with true by reflexivity. rewrite round_c3c6. cbv zeta.
    replace (map snd (c3c6_atoms (next_label c))) with (repeat (next_label c) 9) by reflexivity. rewrite ndistinct_repeat.
    replace (1 =? Z.of_nat (List.length (c3c6_atoms (next_label c)))) with false by reflexivity.
    replace (1 =? 1) with true by reflexivity.
    destruct (stab =? 3); [exists (next_label c); reflexivity | apply IH].
  Qed.

  Theorem morgan_wl_equivalent_components_one_class (c : Z) :
    morgan h (c3c6_atoms c) c3c6_adj = Ok (map (fun n => (n, 1)) c3c6_ids).
  Proof.
    unfold morgan, morgan_labels.
    replace (Z.to_nat (Z.of_nat (List.length (c3c6_atoms c)) - 1)) with 8%nat by reflexivity.
    replace (map snd (c3c6_atoms c)) with (repeat c 9) by reflexivity. rewrite ndistinct_repeat.
    destruct (refine_c3c6 8 c 0) as [c' E]. rewrite E. f_equal. unfold dense_rank.
    assert (forall p, In p (c3c6_atoms c') -> snd p = c') as Hc.
    { intros p Hp. unfold c3c6_atoms in Hp. apply in_map_iff in Hp. destruct Hp as [n [<- _]]. reflexivity. }
    rewrite (isort_by_label_const c' _ Hc). unfold c3c6_atoms at 1. cbn [c3c6_ids map fst snd].
    rewrite (rank_walk_const c'); [reflexivity|]. intros p Hp. apply Hc. right. exact Hp.
  Qed.
End AnyHash.

(* the statement one would like - atoms of non-isomorphic components never share a rank - is false for the faithful model *)
Theorem morgan_wl_equivalent_components_refuted :
  ~ (forall (h : list Z -> Z) (atoms : labels) (adj : iadj) (r : labels) (n m : Z), morgan h atoms adj = Ok r ->
       (* n lies on a three-ring, m on a six-ring of another component *) atoms = c3c6_atoms 7 -> adj = c3c6_adj -> n = 1 -> m = 4 ->
       zget r n <> zget r m).
Proof.
  intros H. apply (H hash_ztuple (c3c6_atoms 7) c3c6_adj _ 1 4 (morgan_wl_equivalent_components_one_class hash_ztuple 7) eq_refl eq_refl eq_refl eq_refl).
  reflexivity.
Qed.
