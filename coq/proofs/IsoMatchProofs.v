(* C07: the matcher yields exactly the induced embeddings of a compiled pattern component, each once.
   Everything here is stated for a linear order that satisfies [lin_ok] (what _compile_query promises,
   proved in IsoCompileProofs) and for arbitrary atom / bond match predicates. *)
From Coq Require Import ZArith List Bool Lia Permutation.
From Model Require Import PyBase Iso.
Import ListNotations.
Local Open Scope Z_scope.

(* ---------- association lists ---------- *)
Section Assoc.
  Context {V : Type}.
  Implicit Types (d : list (Z * V)).

  Lemma zget_In d k v : zget d k = Some v -> In (k, v) d.
  Proof.
    induction d as [|[k' v'] d IH]; cbn; [discriminate|].
    destruct (Z.eqb_spec k k'); intros H.
    - injection H as ->. subst. left; reflexivity.
    - right. apply IH. exact H.
  Qed.

  Lemma zget_None d k : zget d k = None <-> ~ In k (keys d).
  Proof.
    induction d as [|[k' v'] d IH]; cbn; [tauto|].
    destruct (Z.eqb_spec k k').
    - split; [discriminate|]. intros H. exfalso. apply H. left. congruence.
    - rewrite IH. split; intros H; [intros [E|E]; [congruence|contradiction] | tauto].
  Qed.

  Lemma zget_Some_key d k v : zget d k = Some v -> In k (keys d).
  Proof. intros H. apply zget_In in H. apply (in_map fst) in H. exact H. Qed.

  Lemma In_zget d k v : NoDup (keys d) -> In (k, v) d -> zget d k = Some v.
  Proof.
    induction d as [|[k' v'] d IH]; cbn; intros Hn H; [destruct H|].
    inversion Hn as [|? ? Hk Hd]; subst.
    destruct H as [E|H].
    - injection E as -> ->. rewrite Z.eqb_refl. reflexivity.
    - destruct (Z.eqb_spec k k').
      + subst. exfalso. apply Hk. apply (in_map fst) in H. exact H.
      + apply IH; assumption.
  Qed.

  Lemma In_key_zget d k : In k (keys d) -> exists v, zget d k = Some v.
  Proof.
    intros H. destruct (zget d k) eqn:E; [eauto|]. apply zget_None in E. contradiction.
  Qed.

  Lemma zget_app d1 d2 k : zget (d1 ++ d2) k = match zget d1 k with Some v => Some v | None => zget d2 k end.
  Proof.
    induction d1 as [|[k' v'] d1 IH]; cbn; [reflexivity|]. destruct (k =? k'); [reflexivity | exact IH].
  Qed.
End Assoc.

Lemma same_keys_z_iff a b : same_keys_z a b = true <-> (forall x, In x a <-> In x b).
Proof.
  unfold same_keys_z, subset_z. rewrite andb_true_iff, !forallb_forall. split.
  - intros [H1 H2] x. split; intros H; apply zmem_In; [apply H1 | apply H2]; exact H.
  - intros H. split; intros x Hx; apply zmem_In, H; exact Hx.
Qed.

Lemma NoDup_flat_map {S T} (g : S -> list T) (l : list S) :
  NoDup l -> (forall x, In x l -> NoDup (g x)) ->
  (forall x y z, In x l -> In y l -> In z (g x) -> In z (g y) -> x = y) ->
  NoDup (flat_map g l).
Proof.
  induction l as [|x l IH]; intros Hn Hg Hd; [constructor|].
  inversion Hn as [|? ? Hx Hl]; subst. cbn.
  assert (A : forall (a c : list T), NoDup a -> NoDup c -> (forall z, In z a -> In z c -> False) -> NoDup (a ++ c)).
  { induction a as [|u a IHa]; intros c Ha Hc Hac; [exact Hc|].
    inversion Ha as [|? ? Hu Ha']; subst. cbn. constructor.
    - rewrite in_app_iff. intros [H|H]; [contradiction | apply (Hac u); [left; reflexivity | exact H]].
    - apply IHa; [exact Ha' | exact Hc |]. intros z H1 H2. apply (Hac z); [right; exact H1 | exact H2]. }
  apply A.
  - apply Hg. left; reflexivity.
  - apply IH; [exact Hl | intros; apply Hg; right; assumption |].
    intros a c z Ha Hc. apply Hd; right; assumption.
  - intros z H1 H2. apply in_flat_map in H2. destruct H2 as [y [Hy H2]].
    assert (x = y) by (apply (Hd x y z); [left; reflexivity | right; exact Hy | exact H1 | exact H2]).
    subst. contradiction.
Qed.

Lemma NoDup_app_single {T} (l : list T) x : NoDup l -> ~ In x l -> NoDup (l ++ [x]).
Proof.
  induction l as [|y l IH]; intros Hn Hx; cbn.
  - constructor; [intros []|constructor].
  - inversion Hn as [|? ? Hy Hl]; subst. constructor.
    + rewrite in_app_iff. intros [H|[H|[]]]; [contradiction | subst; apply Hx; left; reflexivity].
    + apply IH; [exact Hl | intros H; apply Hx; right; exact H].
Qed.

Lemma NoDup_app_l {T} (a c : list T) : NoDup (a ++ c) -> NoDup a.
Proof.
  induction a as [|x a IH]; intros H; [constructor|]. cbn in H. inversion H as [|? ? Hx Ha]; subst.
  constructor; [intros Hin; apply Hx; apply in_or_app; left; exact Hin | apply IH; exact Ha].
Qed.

Lemma NoDup_keys_filter {V} (p : Z * V -> bool) (d : list (Z * V)) : NoDup (keys d) -> NoDup (keys (filter p d)).
Proof.
  unfold keys. induction d as [|x d IH]; intros H; [constructor|]. cbn in *.
  inversion H as [|? ? Hx Hd]; subst. destruct (p x); cbn.
  - constructor; [|apply IH; exact Hd]. intros Hin. apply Hx.
    apply in_map_iff in Hin. destruct Hin as [y [E Hy]]. apply filter_In in Hy. destruct Hy as [Hy _].
    rewrite <- E. apply in_map. exact Hy.
  - apply IH. exact Hd.
Qed.

Lemma NoDup_keys_NoDup {V} (d : list (Z * V)) : NoDup (keys d) -> NoDup d.
Proof. apply NoDup_map_inv. Qed.

Lemma NoDup_keys_inj {V} (d : list (Z * V)) x y : NoDup (keys d) -> In x d -> In y d -> fst x = fst y -> x = y.
Proof.
  intros Hn Hx Hy E. destruct x as [k v], y as [k' v']. cbn in E. subst k'.
  apply (In_zget _ _ _ Hn) in Hx. apply (In_zget _ _ _ Hn) in Hy. congruence.
Qed.

Section Match.
  Variables QA A QB B : Type.
  Variable amatch : QA -> A -> bool.
  Variable bmatch : QB -> B -> bool.
  Variable q_atoms : list (Z * QA).
  Variable q_bonds : list (Z * list (Z * QB)).
  Variable clo : closures_t QB.
  Variable o_atoms : list (Z * A).
  Variable o_bonds : list (Z * list (Z * B)).
  Variable scope : list Z.
  Hypothesis wf_q : wf_adj q_atoms q_bonds.
  Hypothesis wf_o : wf_adj o_atoms o_bonds.

  Notation emb := (induced_embedding amatch bmatch q_atoms q_bonds o_atoms o_bonds).
  Notation lentry := (lentry QA QB).

  (* the pairwise clause of induced_embedding *)
  Definition pair_ok (x1 y1 x2 y2 : Z) : Prop :=
    match bond_get q_bonds x1 x2, bond_get o_bonds y1 y2 with
    | Some qb, Some ob => bmatch qb ob = true
    | None, None => True
    | _, _ => False
    end.

  Lemma pair_ok_sym x1 y1 x2 y2 : pair_ok x1 y1 x2 y2 -> pair_ok x2 y2 x1 y1.
  Proof.
    unfold pair_ok. destruct wf_q as (_ & _ & _ & _ & _ & Sq). destruct wf_o as (_ & _ & _ & _ & _ & So).
    rewrite (Sq x2 x1), (So y2 y1). trivial.
  Qed.

  Lemma q_no_loop x : bond_get q_bonds x x = None.
  Proof.
    destruct wf_q as (_ & _ & _ & _ & L & _). unfold bond_get. apply zget_None. intros H. apply L in H. destruct H as [H _]. congruence.
  Qed.
  Lemma o_no_loop y : bond_get o_bonds y y = None.
  Proof.
    destruct wf_o as (_ & _ & _ & _ & L & _). unfold bond_get. apply zget_None. intros H. apply L in H. destruct H as [H _]. congruence.
  Qed.
  Lemma o_adj_NoDup n : NoDup (keys (adj_get o_bonds n)).
  Proof. destruct wf_o as (_ & _ & _ & H & _). apply H. Qed.
  Lemma o_bond_In n m ob : In (m, ob) (adj_get o_bonds n) <-> bond_get o_bonds n m = Some ob.
  Proof.
    unfold bond_get. split; [apply In_zget, o_adj_NoDup | apply zget_In].
  Qed.

  Lemma pair_ok_self x y : pair_ok x y x y.
  Proof. unfold pair_ok. rewrite q_no_loop, o_no_loop. trivial. Qed.

  (* ---------- facts about embeddings seen as association lists ---------- *)
  Lemma emb_fun comp f x y y' : emb comp scope f -> NoDup comp -> In (x, y) f -> In (x, y') f -> y = y'.
  Proof.
    intros (Hk & _) Hn H1 H2. rewrite <- Hk in Hn.
    apply (In_zget _ _ _ Hn) in H1. apply (In_zget _ _ _ Hn) in H2. congruence.
  Qed.

  Lemma image_inj (f : mapping) x x' y : NoDup (image f) -> In (x, y) f -> In (x', y) f -> x = x'.
  Proof.
    unfold image. induction f as [|[a c] f IH]; cbn; intros Hn H1 H2; [destruct H1|].
    inversion Hn as [|? ? Hc Hf]; subst.
    destruct H1 as [E1|H1], H2 as [E2|H2].
    - congruence.
    - injection E1 as -> ->. exfalso. apply Hc. apply (in_map snd) in H2. exact H2.
    - injection E2 as -> ->. exfalso. apply Hc. apply (in_map snd) in H1. exact H1.
    - apply IH; assumption.
  Qed.

  (* ---------- the closure test of cand_ok ---------- *)
  Definition want_of (mp : mapping) (clo_sn : list (Z * QB)) : option (list Z) :=
    fold_right (fun mb acc => match acc, zget mp (fst mb) with
                              | Some l, Some y => Some (y :: l)
                              | _, _ => None
                              end) (Some []) clo_sn.

  Lemma want_of_spec mp clo_sn w :
    want_of mp clo_sn = Some w ->
    (forall y, In y w <-> exists m bd, In (m, bd) clo_sn /\ zget mp m = Some y) /\
    (forall m bd, In (m, bd) clo_sn -> exists y, zget mp m = Some y).
  Proof.
    revert w. induction clo_sn as [|[m0 bd0] r IH]; cbn; intros w H.
    - injection H as <-. split; [|intros ? ? []]. intros y. split; [intros [] | intros (? & ? & [] & _)].
    - fold (want_of mp r) in H. destruct (want_of mp r) as [l|] eqn:El; [|discriminate].
      destruct (zget mp m0) as [y0|] eqn:E0; [|discriminate]. injection H as <-.
      destruct (IH l eq_refl) as [I1 I2]. split.
      + intros y. cbn. rewrite I1. split.
        * intros [<-|(m & bd & Hin & Hz)]; [exists m0, bd0; split; [left; reflexivity | exact E0] | exists m, bd; split; [right; exact Hin | exact Hz]].
        * intros (m & bd & [E|Hin] & Hz); [injection E as <- <-; left; congruence | right; exists m, bd; split; assumption].
      + intros m bd [E|Hin]; [injection E as <- <-; eauto | eapply I2; exact Hin].
  Qed.

  Lemma want_of_total mp clo_sn :
    (forall m bd, In (m, bd) clo_sn -> exists y, zget mp m = Some y) -> exists w, want_of mp clo_sn = Some w.
  Proof.
    induction clo_sn as [|[m0 bd0] r IH]; cbn; intros H; [eauto|].
    fold (want_of mp r). destruct IH as [w Hw]; [intros; eapply H; right; eassumption|]. rewrite Hw.
    destruct (H m0 bd0 (or_introl eq_refl)) as [y Hy]. rewrite Hy. eauto.
  Qed.

  Lemma cand_ok_unfold clo_sn mp n s_atom s_bond o_n o_bond :
    cand_ok amatch bmatch clo_sn o_atoms o_bonds scope mp n s_atom s_bond o_n o_bond =
    zmem o_n scope && negb (zmem o_n (image mp)) &&
    match s_bond with Some sb => bmatch sb o_bond | None => false end &&
    match zget o_atoms o_n with Some oa => amatch s_atom oa | None => false end &&
    match want_of mp clo_sn with
    | None => false
    | Some want =>
        fs_eqb (filter (fun x => zmem x (image mp) && negb (x =? n)) (keys (adj_get o_bonds o_n))) want &&
        forallb (fun mb => match zget mp (fst mb) with
                           | Some y => match zget (adj_get o_bonds o_n) y with Some ob => bmatch (snd mb) ob | None => false end
                           | None => false
                           end) clo_sn
    end.
  Proof. reflexivity. Qed.

  (* what one entry of a compiled linear order says, relative to the atoms [pre] before it *)
  Definition entry_ok (pre : list Z) (e : lentry) : Prop :=
    let '(s_n, back, a, b) := e in
    ~ In s_n pre /\ zget q_atoms s_n = Some a /\
    (exists bk bd, back = Some bk /\ b = Some bd /\ In bk pre /\ bond_get q_bonds bk s_n = Some bd) /\
    NoDup (keys (clo_get clo s_n)) /\
    (forall m bd, In (m, bd) (clo_get clo s_n) <-> In m pre /\ back <> Some m /\ bond_get q_bonds s_n m = Some bd).

  Lemma lin_ok_cons pre e r : pre <> [] -> lin_ok q_atoms q_bonds clo pre (e :: r) ->
    entry_ok pre e /\ lin_ok q_atoms q_bonds clo (pre ++ [fst4 e]) r.
  Proof.
    intros Hp. destruct e as [[[s_n back] a] b]. cbn [lin_ok fst4]. intros (H1 & H2 & H3 & H4 & H5 & H6).
    split; [|exact H6]. unfold entry_ok.
    split; [exact H1|]. split; [exact H2|]. split; [destruct pre; [congruence | exact H3]|]. split; [exact H4 | exact H5].
  Qed.

  (* the image of `back` that the matcher works from *)
  Lemma back_image pre (mp : mapping) (current n bk : Z) :
    map fst (mp ++ [(current, n)]) = pre -> NoDup pre -> In bk pre ->
    exists n', (if opt_is (Some bk) current then Some n else zget (mp ++ [(current, n)]) bk) = Some n' /\
               In (bk, n') (mp ++ [(current, n)]).
  Proof.
    intros Hk Hn Hb. cbn [opt_is].
    assert (Hcur : zget (mp ++ [(current, n)]) current = Some n).
    { apply In_zget; [unfold keys; rewrite Hk; exact Hn | apply in_or_app; right; left; reflexivity]. }
    destruct (Z.eqb_spec current bk) as [E|E].
    - subst bk. exists n. split; [reflexivity | apply zget_In; exact Hcur].
    - rewrite <- Hk in Hb. destruct (In_key_zget _ _ Hb) as [n' Hn']. exists n'. split; [exact Hn' | apply zget_In; exact Hn'].
  Qed.

  (* ---------- one step: a candidate passes cand_ok  <->  the extended map is still an embedding ---------- *)
  Lemma step_sound pre (mp : mapping) s_n back s_atom s_bond bk n' o_n o_bond :
    NoDup pre -> emb pre scope mp ->
    entry_ok pre (s_n, back, s_atom, s_bond) -> back = Some bk -> In (bk, n') mp ->
    In (o_n, o_bond) (adj_get o_bonds n') ->
    cand_ok amatch bmatch (clo_get clo s_n) o_atoms o_bonds scope mp n' s_atom s_bond o_n o_bond = true ->
    emb (pre ++ [s_n]) scope (mp ++ [(s_n, o_n)]).
  Proof.
    intros Hn E (Hnew & Hatom & (bk' & bd & Eb & Ebd & Hbk & Hbond) & Hcn & Hclo) Eback Hbkn Hadj Hc.
    rewrite Eback in Eb. injection Eb as <-. subst s_bond.
    rewrite cand_ok_unfold in Hc. repeat (apply andb_prop in Hc; destruct Hc as [Hc ?]).
    rename H into Hcl, H0 into Hat, H1 into Hbm, H2 into Hfresh. apply zmem_In in Hc.
    destruct (zget o_atoms o_n) as [oa|] eqn:Eoa; [|discriminate].
    destruct (want_of mp (clo_get clo s_n)) as [want|] eqn:Ew; [|discriminate].
    apply andb_prop in Hcl. destruct Hcl as [Hset Hall].
    unfold fs_eqb in Hset. pose proof (proj1 (same_keys_z_iff _ _) Hset) as Hset'. clear Hset. rename Hset' into Hset.
    rewrite forallb_forall in Hall.
    destruct (want_of_spec _ _ _ Ew) as [Hw1 Hw2].
    apply negb_true_iff in Hfresh.
    assert (Hfresh' : ~ In o_n (image mp)) by (intros H; apply zmem_In in H; congruence).
    destruct E as (Ek & Einj & Eat & Epair).
    assert (Hkeys : NoDup (keys mp)) by (unfold keys; rewrite Ek; exact Hn).
    (* the new pair against an old one *)
    assert (Hnew_old : forall x y, In (x, y) mp -> pair_ok s_n o_n x y).
    { intros x y Hxy. unfold pair_ok.
      assert (Hxpre : In x pre) by (rewrite <- Ek; apply (in_map fst) in Hxy; exact Hxy).
      destruct (Z.eq_dec x bk) as [->|Hxb].
      - assert (y = n') by (apply (In_zget _ _ _ Hkeys) in Hxy; apply (In_zget _ _ _ Hkeys) in Hbkn; congruence). subst y.
        destruct wf_q as (_ & _ & _ & _ & _ & Sq). destruct wf_o as (_ & _ & _ & _ & _ & So).
        rewrite (Sq s_n bk), Hbond, (So o_n n'). apply o_bond_In in Hadj. rewrite Hadj. exact Hbm.
      - destruct (bond_get q_bonds s_n x) as [qb|] eqn:Eq.
        + assert (Hin : In (x, qb) (clo_get clo s_n)) by (apply Hclo; repeat split; [exact Hxpre | congruence | exact Eq]).
          specialize (Hall _ Hin). cbn [fst snd] in Hall.
          rewrite (In_zget _ _ _ Hkeys Hxy) in Hall. unfold bond_get.
          destruct (zget (adj_get o_bonds o_n) y); [exact Hall | discriminate].
        + destruct (bond_get o_bonds o_n y) as [ob|] eqn:Eo; [|trivial].
          assert (Hy : In y (filter (fun z => zmem z (image mp) && negb (z =? n')) (keys (adj_get o_bonds o_n)))).
          { apply filter_In. split; [apply zget_Some_key in Eo; exact Eo|].
            apply andb_true_intro. split; [apply zmem_In; apply (in_map snd) in Hxy; exact Hxy|].
            apply negb_true_iff, Z.eqb_neq. intros ->. apply Hxb. apply (image_inj mp x bk n' Einj Hxy Hbkn). }
          apply Hset, Hw1 in Hy. destruct Hy as (m & bdm & Hm & Hz).
          apply zget_In in Hz. assert (m = x) by (apply (image_inj mp m x y Einj Hz Hxy)). subst m.
          apply Hclo in Hm. destruct Hm as (_ & _ & Hm). congruence. }
    unfold induced_embedding. repeat split.
    - rewrite map_app, Ek. reflexivity.
    - unfold image in *. rewrite map_app. cbn [map]. apply NoDup_app_single; assumption.
    - apply in_app_or in H. destruct H as [H|[H|[]]]; [apply (Eat _ _ H)|]. injection H as <- <-. exact Hc.
    - apply in_app_or in H. destruct H as [H|[H|[]]]; [apply (Eat _ _ H)|]. injection H as <- <-.
      exists s_atom, oa. auto.
    - intros x1 y1 x2 y2 H1 H2. fold (pair_ok x1 y1 x2 y2).
      apply in_app_or in H1. apply in_app_or in H2.
      destruct H1 as [H1|[H1|[]]], H2 as [H2|[H2|[]]].
      + apply Epair; assumption.
      + injection H2 as <- <-. apply pair_ok_sym. apply Hnew_old. exact H1.
      + injection H1 as <- <-. apply Hnew_old. exact H2.
      + injection H1 as <- <-. injection H2 as <- <-. apply pair_ok_self.
  Qed.

  Lemma NoDup_app_single_inv {T} (l : list T) x : NoDup (l ++ [x]) -> NoDup l /\ ~ In x l.
  Proof.
    intros H. pose proof (NoDup_remove_1 l [] x H) as H1. pose proof (NoDup_remove_2 l [] x H) as H2.
    rewrite app_nil_r in *. split; assumption.
  Qed.

  Lemma step_complete pre (mp : mapping) s_n back s_atom s_bond bk n' o_n :
    NoDup pre -> map fst mp = pre ->
    entry_ok pre (s_n, back, s_atom, s_bond) -> back = Some bk -> In (bk, n') mp ->
    emb (pre ++ [s_n]) scope (mp ++ [(s_n, o_n)]) ->
    exists o_bond, In (o_n, o_bond) (adj_get o_bonds n') /\
      cand_ok amatch bmatch (clo_get clo s_n) o_atoms o_bonds scope mp n' s_atom s_bond o_n o_bond = true.
  Proof.
    intros Hn Ek (Hnew & Hatom & (bk' & bd & Eb & Ebd & Hbk & Hbond) & Hcn & Hclo) Eback Hbkn (Ek' & Einj' & Eat' & Epair').
    rewrite Eback in Eb. injection Eb as <-. subst s_bond.
    assert (Hkeys : NoDup (keys mp)) by (unfold keys; rewrite Ek; exact Hn).
    unfold image in Einj'. rewrite map_app in Einj'. cbn [map snd] in Einj'.
    apply NoDup_app_single_inv in Einj'. destruct Einj' as [Einj Hfresh]. fold (image mp) in Einj, Hfresh.
    assert (Hnew_in : In (s_n, o_n) (mp ++ [(s_n, o_n)])) by (apply in_or_app; right; left; reflexivity).
    assert (Hold_in : forall x y, In (x, y) mp -> In (x, y) (mp ++ [(s_n, o_n)])) by (intros; apply in_or_app; left; assumption).
    assert (Hno : forall x y, In (x, y) mp -> pair_ok s_n o_n x y) by (intros x y H; apply Epair'; auto).
    (* the tree bond *)
    pose proof (Epair' bk n' s_n o_n (Hold_in _ _ Hbkn) Hnew_in) as Ht. rewrite Hbond in Ht.
    destruct (bond_get o_bonds n' o_n) as [ob|] eqn:Eob; [|contradiction].
    exists ob. split; [apply o_bond_In; exact Eob|].
    rewrite cand_ok_unfold.
    destruct (Eat' _ _ Hnew_in) as (Hsc & qa & oa & Hqa & Hoa & Hm).
    assert (qa = s_atom) by congruence. subst qa.
    rewrite Hoa, Hm, Ht.
    replace (zmem o_n scope) with true by (symmetry; apply zmem_In; exact Hsc).
    replace (zmem o_n (image mp)) with false by (symmetry; destruct (zmem o_n (image mp)) eqn:Ez; [apply zmem_In in Ez; contradiction | reflexivity]).
    cbn [negb andb].
    destruct (want_of_total mp (clo_get clo s_n)) as [want Ew].
    { intros m bdm Hm'. apply Hclo in Hm'. destruct Hm' as (Hp & _). rewrite <- Ek in Hp. apply In_key_zget. exact Hp. }
    rewrite Ew. destruct (want_of_spec _ _ _ Ew) as [Hw1 Hw2].
    apply andb_true_intro. split.
    - unfold fs_eqb. apply same_keys_z_iff. intros y. rewrite filter_In, Hw1. split.
      + intros (Hy1 & Hy2). apply andb_prop in Hy2. destruct Hy2 as [Hy2 Hy3].
        apply zmem_In in Hy2. apply negb_true_iff, Z.eqb_neq in Hy3.
        unfold image in Hy2. apply in_map_iff in Hy2. destruct Hy2 as ([x y'] & E & Hxy). cbn in E. subst y'.
        pose proof (Hno x y Hxy) as Hp. unfold pair_ok in Hp.
        destruct (In_key_zget _ _ Hy1) as [ob' Eob']. fold (bond_get o_bonds o_n y) in Eob'. rewrite Eob' in Hp.
        destruct (bond_get q_bonds s_n x) as [qb|] eqn:Eq; [|contradiction].
        exists x, qb. split; [|apply In_zget; assumption].
        apply Hclo. split; [rewrite <- Ek; apply (in_map fst) in Hxy; exact Hxy|]. split; [|exact Eq].
        intros E. rewrite Eback in E. injection E as ->. apply Hy3.
        apply (In_zget _ _ _ Hkeys) in Hxy. apply (In_zget _ _ _ Hkeys) in Hbkn. congruence.
      + intros (m & bdm & Hm' & Hz). apply Hclo in Hm'. destruct Hm' as (Hp & Hb & Hq).
        apply zget_In in Hz. pose proof (Hno m y Hz) as Hpo. unfold pair_ok in Hpo. rewrite Hq in Hpo.
        destruct (bond_get o_bonds o_n y) as [ob'|] eqn:Eob'; [|contradiction].
        split; [apply zget_Some_key in Eob'; exact Eob'|].
        apply andb_true_intro. split; [apply zmem_In; apply (in_map snd) in Hz; exact Hz|].
        apply negb_true_iff, Z.eqb_neq. intros ->. apply Hb. rewrite Eback. f_equal. symmetry. apply (image_inj mp m bk n' Einj Hz Hbkn).
    - apply forallb_forall. intros [m bdm] Hm'. cbn [fst snd].
      pose proof Hm' as Hm''. apply Hclo in Hm''. destruct Hm'' as (Hp & Hb & Hq).
      destruct (Hw2 _ _ Hm') as [y Hy]. rewrite Hy. apply zget_In in Hy.
      pose proof (Hno m y Hy) as Hpo. unfold pair_ok in Hpo. rewrite Hq in Hpo. unfold bond_get in Hpo.
      destruct (zget (adj_get o_bonds o_n) y); [exact Hpo | contradiction].
  Qed.

  (* ---------- the recursive search ---------- *)
  Notation gm := (gm_from amatch bmatch clo o_atoms o_bonds scope).

  Lemma emb_prefix c1 c2 (f1 f2 : mapping) : emb (c1 ++ c2) scope (f1 ++ f2) -> map fst f1 = c1 -> emb c1 scope f1.
  Proof.
    intros (Hk & Hinj & Hat & Hp) H1. unfold induced_embedding. split; [exact H1|]. split.
    - unfold image in *. rewrite map_app in Hinj. apply NoDup_app_l in Hinj. exact Hinj.
    - split; [intros x y H; apply Hat; apply in_or_app; left; exact H|].
      intros x1 y1 x2 y2 Ha Hb. apply Hp; apply in_or_app; left; assumption.
  Qed.

  Lemma gm_sound : forall rest P current (mp : mapping) n,
    NoDup P -> lin_ok q_atoms q_bonds clo P rest -> emb P scope (mp ++ [(current, n)]) ->
    forall f, In f (gm rest current mp n) -> emb (P ++ map fst4 rest) scope f.
  Proof.
    induction rest as [|e rest IH]; intros P current mp n Hn Hl E f Hf.
    - cbn in Hf. destruct Hf as [<-|[]]. cbn. rewrite app_nil_r. exact E.
    - assert (Hk : map fst (mp ++ [(current, n)]) = P) by apply E.
      assert (HP : P <> []) by (rewrite <- Hk, map_app; intros H; apply app_eq_nil in H; destruct H; discriminate).
      destruct (lin_ok_cons _ _ _ HP Hl) as [He Hl'].
      destruct e as [[[s_n back] s_atom] s_bond]. cbn [fst4] in Hl'.
      pose proof He as (_ & _ & (bk & bd & Eb & _ & Hbk & _) & _).
      destruct (back_image P mp current n bk Hk Hn Hbk) as (n' & En' & Hin').
      cbn [gm_from] in Hf. rewrite Eb in Hf. rewrite En' in Hf.
      apply in_flat_map in Hf. destruct Hf as ([o_n o_bond] & Hc & Hf). apply in_rev in Hc.
      apply filter_In in Hc. destruct Hc as [Hadj Hok]. cbn [fst snd] in Hok, Hf.
      assert (E' : emb (P ++ [s_n]) scope ((mp ++ [(current, n)]) ++ [(s_n, o_n)])).
      { apply (step_sound P _ s_n back s_atom s_bond bk n' o_n o_bond); try assumption; try (rewrite Eb; exact Hok). }
      cbn [map fst4]. replace (P ++ s_n :: map fst4 rest) with ((P ++ [s_n]) ++ map fst4 rest) by (rewrite <- app_assoc; reflexivity).
      apply (IH (P ++ [s_n]) s_n (mp ++ [(current, n)]) o_n); try assumption.
      apply NoDup_app_single; [exact Hn | apply He].
  Qed.

  Lemma gm_complete : forall rest P current (mp : mapping) n frest,
    NoDup P -> map fst (mp ++ [(current, n)]) = P -> lin_ok q_atoms q_bonds clo P rest ->
    emb (P ++ map fst4 rest) scope ((mp ++ [(current, n)]) ++ frest) ->
    In ((mp ++ [(current, n)]) ++ frest) (gm rest current mp n).
  Proof.
    induction rest as [|e rest IH]; intros P current mp n frest Hn Hk Hl E.
    - assert (frest = []).
      { destruct E as (Ek & _). cbn in Ek. rewrite app_nil_r, map_app, Hk in Ek.
        rewrite <- (app_nil_r P) in Ek at 2. apply app_inv_head in Ek. destruct frest; [reflexivity | discriminate]. }
      subst. rewrite app_nil_r. left; reflexivity.
    - assert (HP : P <> []) by (rewrite <- Hk, map_app; intros H; apply app_eq_nil in H; destruct H; discriminate).
      destruct (lin_ok_cons _ _ _ HP Hl) as [He Hl'].
      destruct e as [[[s_n back] s_atom] s_bond]. cbn [fst4] in Hl'.
      pose proof He as (Hnew & _ & (bk & bd & Eb & _ & Hbk & _) & _).
      destruct (back_image P mp current n bk Hk Hn Hbk) as (n' & En' & Hin').
      assert (Hfr : exists o_n frest', frest = (s_n, o_n) :: frest').
      { destruct E as (Ek & _). cbn [map fst4] in Ek. rewrite map_app, Hk in Ek. apply app_inv_head in Ek.
        destruct frest as [|[x y] fr]; [discriminate|]. cbn in Ek. injection Ek as -> _. eauto. }
      destruct Hfr as (o_n & frest' & ->).
      replace ((mp ++ [(current, n)]) ++ (s_n, o_n) :: frest') with (((mp ++ [(current, n)]) ++ [(s_n, o_n)]) ++ frest') in *
        by (rewrite <- app_assoc; reflexivity).
      cbn [map fst4] in E. replace (P ++ s_n :: map fst4 rest) with ((P ++ [s_n]) ++ map fst4 rest) in E by (rewrite <- app_assoc; reflexivity).
      assert (E1 : emb (P ++ [s_n]) scope ((mp ++ [(current, n)]) ++ [(s_n, o_n)])).
      { apply (emb_prefix _ _ _ _ E). rewrite map_app, Hk. reflexivity. }
      destruct (step_complete P _ s_n back s_atom s_bond bk n' o_n Hn Hk He Eb Hin' E1) as (o_bond & Hadj & Hok).
      cbn [gm_from]. rewrite Eb. rewrite En'.
      apply in_flat_map. exists (o_n, o_bond). split.
      + apply -> in_rev. apply filter_In. split; [exact Hadj|]. cbn [fst snd]. exact Hok.
      + cbn [fst]. apply (IH (P ++ [s_n])); try assumption.
        * apply NoDup_app_single; assumption.
        * rewrite map_app, Hk. reflexivity.
  Qed.

  Lemma gm_prefix : forall rest current (mp : mapping) n f,
    In f (gm rest current mp n) -> exists t, f = (mp ++ [(current, n)]) ++ t.
  Proof.
    induction rest as [|e rest IH]; intros current mp n f Hf.
    - cbn in Hf. destruct Hf as [<-|[]]. exists []. rewrite app_nil_r. reflexivity.
    - destruct e as [[[s_n back] s_atom] s_bond]. cbn [gm_from] in Hf.
      destruct (if opt_is back current then Some n else match back with Some b => zget (mp ++ [(current, n)]) b | None => None end) as [n'|]; [|destruct Hf].
      apply in_flat_map in Hf. destruct Hf as (ob & _ & Hf). apply IH in Hf. destruct Hf as [t ->].
      exists ((s_n, fst ob) :: t). rewrite <- app_assoc. reflexivity.
  Qed.

  Lemma gm_NoDup : forall rest current (mp : mapping) n, NoDup (gm rest current mp n).
  Proof.
    induction rest as [|e rest IH]; intros current mp n.
    - cbn. constructor; [intros []|constructor].
    - destruct e as [[[s_n back] s_atom] s_bond]. cbn [gm_from].
      destruct (if opt_is back current then Some n else match back with Some b => zget (mp ++ [(current, n)]) b | None => None end) as [n'|]; [|constructor].
      set (cands := filter _ (adj_get o_bonds n')).
      assert (Hck : NoDup (keys cands)) by (apply NoDup_keys_filter, o_adj_NoDup).
      apply NoDup_flat_map.
      + apply NoDup_rev. apply NoDup_keys_NoDup. exact Hck.
      + intros. apply IH.
      + intros x y z Hx Hy Hzx Hzy. apply in_rev in Hx. apply in_rev in Hy.
        apply gm_prefix in Hzx. apply gm_prefix in Hzy. destruct Hzx as [t1 ->]. destruct Hzy as [t2 E].
        rewrite <- !app_assoc in E. apply app_inv_head in E. cbn in E. injection E as E _.
        apply (NoDup_keys_inj cands); assumption.
  Qed.

  (* ---------- _get_mapping on one compiled component ---------- *)
  Notation getm := (get_mapping amatch bmatch).

  Lemma first_entry (c : list lentry) : c <> [] -> lin_ok q_atoms q_bonds clo [] c ->
    exists s0 a0 rest, c = (s0, None, a0, None) :: rest /\ zget q_atoms s0 = Some a0 /\ lin_ok q_atoms q_bonds clo [s0] rest.
  Proof.
    destruct c as [|[[[s0 b0] a0] bd0] rest]; [congruence|]. intros _ (H1 & H2 & (-> & ->) & H4 & H5 & H6).
    exists s0, a0, rest. auto.
  Qed.

  Lemma base_emb s0 a0 n oa : zget q_atoms s0 = Some a0 -> In (n, oa) o_atoms -> In n scope -> amatch a0 oa = true ->
    emb [s0] scope ([] ++ [(s0, n)]).
  Proof.
    intros Hq Ho Hs Hm. unfold induced_embedding. cbn [app map fst]. split; [reflexivity|]. split.
    - cbn. constructor; [intros []|constructor].
    - split.
      + intros x y [E|[]]. injection E as <- <-. split; [exact Hs|]. exists a0, oa. split; [exact Hq|]. split; [|exact Hm].
        apply In_zget; [apply wf_o | exact Ho].
      + intros x1 y1 x2 y2 [E1|[]] [E2|[]]. injection E1 as <- <-. injection E2 as <- <-. apply pair_ok_self.
  Qed.

  Theorem get_mapping_sound (c : list lentry) : c <> [] -> lin_ok q_atoms q_bonds clo [] c ->
    forall f, In f (getm c clo o_atoms o_bonds scope) -> emb (map fst4 c) scope f.
  Proof.
    intros Hc Hl f Hf. destruct (first_entry c Hc Hl) as (s0 & a0 & rest & -> & Hq & Hl').
    cbn [get_mapping] in Hf. apply in_flat_map in Hf. destruct Hf as ([n oa] & Hin & Hf). apply in_rev in Hin.
    apply filter_In in Hin. destruct Hin as [Ho Hc']. cbn [fst snd] in Hc', Hf. apply andb_prop in Hc'. destruct Hc' as [Hs Hm].
    apply zmem_In in Hs. cbn [map fst4].
    apply (gm_sound rest [s0] s0 [] n); [constructor; [intros []|constructor] | exact Hl' | | exact Hf].
    apply (base_emb s0 a0 n oa); assumption.
  Qed.

  Theorem get_mapping_complete (c : list lentry) : c <> [] -> lin_ok q_atoms q_bonds clo [] c ->
    forall f, emb (map fst4 c) scope f -> In f (getm c clo o_atoms o_bonds scope).
  Proof.
    intros Hc Hl f E. destruct (first_entry c Hc Hl) as (s0 & a0 & rest & -> & Hq & Hl').
    cbn [map fst4] in E. pose proof E as (Ek & _ & Eat & _).
    destruct f as [|[x n] frest]; [discriminate|]. cbn in Ek. injection Ek as -> Ek.
    destruct (Eat s0 n (or_introl eq_refl)) as (Hs & qa & oa & Hqa & Hoa & Hm).
    assert (qa = a0) by congruence. subst qa.
    cbn [get_mapping]. apply in_flat_map. exists (n, oa). split.
    - apply -> in_rev. apply filter_In. split; [apply zget_In; exact Hoa|]. cbn [fst snd].
      apply andb_true_intro. split; [apply zmem_In; exact Hs | exact Hm].
    - cbn [fst]. apply (gm_complete rest [s0] s0 [] n frest); [constructor; [intros []|constructor] | reflexivity | exact Hl' | exact E].
  Qed.

  Theorem get_mapping_NoDup (c : list lentry) : NoDup (getm c clo o_atoms o_bonds scope).
  Proof.
    destruct c as [|[[[s0 b0] a0] bd0] rest]; [constructor|]. cbn [get_mapping].
    set (init := filter _ o_atoms).
    assert (Hik : NoDup (keys init)) by (apply NoDup_keys_filter, wf_o).
    apply NoDup_flat_map.
    - apply NoDup_rev, NoDup_keys_NoDup, Hik.
    - intros. apply gm_NoDup.
    - intros x y z Hx Hy Hzx Hzy. apply in_rev in Hx. apply in_rev in Hy.
      apply gm_prefix in Hzx. apply gm_prefix in Hzy. destruct Hzx as [t1 ->]. destruct Hzy as [t2 E].
      cbn in E. injection E as E _. apply (NoDup_keys_inj init); assumption.
  Qed.
End Match.
