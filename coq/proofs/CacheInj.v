(* C13 -- distinct bonds are distinct objects: a reference occurs in exactly the two slots (n, m) and (m, n) of an adjacency.
   Kept by every operation (heap independent); needed for the patch step: changing the order of ONE bond object changes the
   environment of its two ends only. *)
From Coq Require Import ZArith List Bool Lia.
From Model Require Import PyBase Cache.
From Proofs Require Import CacheProofs CacheWf CacheCopy.
Import ListNotations.
Open Scope Z_scope.

Definition inj (adj : adjacency) : Prop :=
  forall x y x' y' r, aslot adj x y = Some r -> aslot adj x' y' = Some r -> (x' = x /\ y' = y) \/ (x' = y /\ y' = x).
Lemma inj_sub adj adj' : (forall x y r, aslot adj' x y = Some r -> aslot adj x y = Some r) -> inj adj -> inj adj'.
Proof. intros S I x y x' y' r H1 H2. eapply I; eauto. Qed.
Lemma inj_nil : inj [].
Proof. intros x y x' y' r H. discriminate. Qed.

(* ---- the copy loop *)
Section G.
Variables (keep : Z -> bool) (f : bcell -> pyres bcell).
Lemma gcopy_row_fresh cb n : forall t h h1 l, gcopy_row keep f h cb n t = Ok (h1, l) ->
  h_next h <= h_next h1 /\
  (forall m r rowm, In (m, r) l -> zget cb m = Some rowm -> zget rowm n = Some r) /\
  (forall m r, In (m, r) l -> zget cb m = None -> h_next h <= r < h_next h1) /\
  (forall m1 m2 r, In (m1, r) l -> In (m2, r) l -> zget cb m1 = None -> zget cb m2 = None -> m1 = m2).
Proof.
  induction t as [|[m rf] t IH]; intros h h1 l H; cbn [gcopy_row] in H.
  - inversion H; subst. split; [lia|]. split; [intros ? ? ? []|]. split; [intros ? ? []| intros ? ? ? []].
  - destruct (zget cb m) as [rowm|] eqn:Em.
    + destruct (zget rowm n) as [rf'|] eqn:En; [|discriminate].
      destruct (gcopy_row keep f h cb n t) as [[h2 l2]|] eqn:Rec; [|discriminate]. inversion H; subst.
      destruct (IH h h1 l2 Rec) as [L [A [B C]]]. split; [exact L|]. split; [|split].
      * intros m' r rowm' [E|E] Hz; [inversion E; subst; congruence | eapply A; eauto].
      * intros m' r [E|E] Hz; [inversion E; subst; congruence | eapply B; eauto].
      * intros m1 m2 r [E1|E1] [E2|E2] Z1 Z2; try (inversion E1; subst; congruence); try (inversion E2; subst; congruence). eapply C; eauto.
    + destruct (keep m).
      * destruct (hget h rf) as [cl|]; [|discriminate]. destruct (f cl) as [cl'|]; [|discriminate].
        destruct (halloc h cl') as [ha rfa] eqn:Ea.
        assert (rfa = h_next h /\ h_next ha = h_next h + 1) as [-> Na] by (unfold halloc in Ea; inversion Ea; subst; cbn; auto).
        destruct (gcopy_row keep f ha cb n t) as [[h2 l2]|] eqn:Rec; [|discriminate]. inversion H; subst.
        destruct (IH ha h1 l2 Rec) as [L [A [B C]]]. split; [lia|]. split; [|split].
        -- intros m' r rowm' [E|E] Hz; [inversion E; subst; congruence | eapply A; eauto].
        -- intros m' r [E|E] Hz; [inversion E; subst; lia | destruct (B m' r E Hz); lia].
        -- intros m1 m2 r [E1|E1] [E2|E2] Z1 Z2.
           ++ inversion E1; inversion E2; subst; reflexivity.
           ++ inversion E1; subst. destruct (B m2 (h_next h) E2 Z2). lia.
           ++ inversion E2; subst. destruct (B m1 (h_next h) E1 Z1). lia.
           ++ eapply C; eauto.
      * eapply IH; eauto.
Qed.

Definition below (h : hp) (cb : adjacency) : Prop := forall x y r, aslot cb x y = Some r -> r < h_next h.

Lemma gcopy_rows_inj : forall rows h cb h' cb',
  NoDup (keys cb ++ keys rows) -> inj cb -> below h cb ->
  gcopy_rows keep f h cb rows = Ok (h', cb') -> inj cb' /\ below h' cb'.
Proof.
  induction rows as [|[n r] rows IH]; intros h cb h' cb' ND I B H; cbn [gcopy_rows] in H.
  - inversion H; subst. auto.
  - assert (~ In n (keys cb)) as Nn. { cbn in ND. apply NoDup_remove_2 in ND. intros Hi. apply ND. apply in_or_app. now left. }
    rewrite (zset_notin_app cb n []) in H by assumption.
    destruct (gcopy_row keep f h (cb ++ [(n, [])]) n r) as [[h1 l]|] eqn:Row; [|discriminate].
    rewrite (zset_notin_app cb n l) in H by assumption.
    destruct (gcopy_row_fresh _ _ _ _ _ _ Row) as [L [A [Fb C]]].
    assert (forall m, zget (cb ++ [(n, @nil (Z * ref))]) m = match zget cb m with Some rw => Some rw | None => if m =? n then Some [] else None end) as Z0.
    { intros m. rewrite zget_app. destruct (zget cb m); [reflexivity|]. cbn. now destruct (m =? n). }
    (* entries of the new row: aliases of older slots, or fresh *)
    assert (forall m rr, In (m, rr) l -> (aslot cb m n = Some rr /\ rr < h_next h) \/ (zget cb m = None /\ m <> n /\ h_next h <= rr < h_next h1)) as Ent.
    { intros m rr Hi. destruct (zget cb m) as [rw|] eqn:Em.
      - left. pose proof (A m rr rw Hi) as Ha. rewrite Z0, Em in Ha. specialize (Ha eq_refl). assert (aslot cb m n = Some rr) as S by (unfold aslot; now rewrite Em).
        split; [exact S | eapply B; eauto].
      - destruct (Z.eqb_spec m n) as [->|Dm].
        + exfalso. pose proof (A n rr [] Hi) as Ha. rewrite Z0, Em, Z.eqb_refl in Ha. specialize (Ha eq_refl). discriminate.
        + right. split; [reflexivity|]. split; [exact Dm|]. apply (Fb m rr Hi). rewrite Z0, Em. destruct (Z.eqb_spec m n); [contradiction | reflexivity]. }
    apply (IH h1 (cb ++ [(n, l)]) h' cb'); [| | | exact H].
    + rewrite keys_app. cbn [keys map fst]. rewrite <- app_assoc. exact ND.
    + intros x y x' y' rr. rewrite !aslot_snoc. destruct (zget cb x) as [rwx|] eqn:Ex, (zget cb x') as [rwx'|] eqn:Ex'.
      * intros H1 H2. apply (I x y x' y' rr); unfold aslot; [now rewrite Ex | now rewrite Ex'].
      * destruct (Z.eqb_spec x' n) as [->|]; [|discriminate]. intros H1 H2. apply zget_In in H2. destruct (Ent _ _ H2) as [[S _]|[_ [_ Bd]]].
        -- assert (aslot cb x y = Some rr) as S1 by (unfold aslot; now rewrite Ex). destruct (I _ _ _ _ _ S S1) as [[-> ->]|[-> ->]]; [now right|].
           exfalso. rewrite zget_None_keys in Ex'. apply Ex'. eapply zget_In_keys; eauto.
        -- exfalso. assert (aslot cb x y = Some rr) as S1 by (unfold aslot; now rewrite Ex). apply B in S1. lia.
      * destruct (Z.eqb_spec x n) as [->|]; [|discriminate]. intros H1 H2. apply zget_In in H1. destruct (Ent _ _ H1) as [[S _]|[_ [_ Bd]]].
        -- assert (aslot cb x' y' = Some rr) as S1 by (unfold aslot; now rewrite Ex'). destruct (I _ _ _ _ _ S1 S) as [[-> ->]|[-> ->]]; [now right|].
           exfalso. rewrite zget_None_keys in Ex. apply Ex. eapply zget_In_keys; eauto.
        -- exfalso. assert (aslot cb x' y' = Some rr) as S1 by (unfold aslot; now rewrite Ex'). apply B in S1. lia.
      * destruct (Z.eqb_spec x n) as [->|]; [|discriminate]. destruct (Z.eqb_spec x' n) as [->|]; [|discriminate]. intros H1 H2.
        apply zget_In in H1, H2. left. split; [reflexivity|].
        destruct (Ent _ _ H1) as [[S1 B1]|[Z1 [D1 B1]]], (Ent _ _ H2) as [[S2 B2]|[Z2 [D2 B2]]]; try lia.
        -- destruct (I _ _ _ _ _ S1 S2) as [[E _]|[E _]]; [congruence|]. exfalso. apply aslot_key_l in S2. subst. contradiction.
        -- apply (C y' y rr H2 H1); rewrite Z0.
           ++ rewrite Z2. destruct (Z.eqb_spec y' n); [contradiction | reflexivity].
           ++ rewrite Z1. destruct (Z.eqb_spec y n); [contradiction | reflexivity].
    + intros x y rr. rewrite aslot_snoc. destruct (zget cb x) as [rwx|] eqn:Ex.
      * intros Hs. assert (aslot cb x y = Some rr) as S1 by (unfold aslot; now rewrite Ex). apply B in S1. lia.
      * destruct (Z.eqb_spec x n) as [->|]; [|discriminate]. intros Hs. apply zget_In in Hs. destruct (Ent _ _ Hs) as [[_ Bd]|[_ [_ Bd]]]; lia.
Qed.
Lemma gcopy_inj rows h h' cb' : NoDup (keys rows) -> gcopy_rows keep f h [] rows = Ok (h', cb') -> inj cb'.
Proof. intros ND H. eapply (gcopy_rows_inj rows h [] h' cb'); eauto; [apply inj_nil | intros x y r Hs; discriminate]. Qed.
End G.
