(* C13 -- the copy loop never fails on a well formed source whose bonds can all be copied: copy() and __enter__ succeed on every
   settled molecule. *)
From Coq Require Import ZArith List Bool Lia.
From Model Require Import PyBase Cache.
From Proofs Require Import CacheProofs CacheWf CacheCopy.
Import ListNotations.
Open Scope Z_scope.

Lemma NoDup_app_l {A} (a b : list A) : NoDup (a ++ b) -> NoDup a.
Proof.
  induction a as [|x a IH]; cbn; intros N; [constructor|]. inversion N; subst. constructor; [|auto]. intros Hi. apply H1. apply in_or_app. now left.
Qed.
Section Total.
Variables (keep : Z -> bool) (f : bcell -> pyres bcell) (h0 : hp) (adj : adjacency).
Hypothesis Hnd : nd adj.
Hypothesis Hsym : forall n m r, aslot adj n m = Some r -> aslot adj m n = Some r.
Hypothesis Hold : forall r, In r (arefs adj) -> r < h_next h0.
Hypothesis Hloop : forall n, aslot adj n n = None.
Hypothesis Hcopy : forall r, In r (arefs adj) -> exists c c', hget h0 r = Some c /\ f c = Ok c'.

Lemma gcopy_row_total cb n : forall t h,
  hext h0 h ->
  (forall m rf, In (m, rf) t -> In rf (arefs adj)) ->
  (forall m rf rowm, In (m, rf) t -> zget cb m = Some rowm -> zget rowm n <> None) ->
  exists h1 l, gcopy_row keep f h cb n t = Ok (h1, l).
Proof.
  induction t as [|[m rf] t IH]; intros h X Src Al; cbn [gcopy_row]; [eauto|].
  destruct (zget cb m) as [rowm|] eqn:Em.
  - destruct (zget rowm n) as [rf'|] eqn:En; [|exfalso; eapply (Al m rf rowm); eauto; now left].
    destruct (IH h X) as [h1 [l E]]; [intros; eapply Src; right; eauto | intros; eapply Al; eauto; right; eauto|]. rewrite E. eauto.
  - destruct (keep m).
    + destruct (Hcopy rf (Src m rf (or_introl eq_refl))) as [c [c' [Hc Hf]]].
      assert (hget h rf = Some c) as Hc'. { destruct X as [_ U]. rewrite U; [exact Hc | apply Hold; eapply Src; now left]. }
      rewrite Hc', Hf. pose proof (hext_halloc h c') as Xa. destruct (halloc h c') as [ha rfa]. cbn [fst] in Xa.
      destruct (IH ha (hext_trans _ _ _ X Xa)) as [h1 [l E]]; [intros; eapply Src; right; eauto | intros; eapply Al; eauto; right; eauto|]. rewrite E. eauto.
    + apply IH; auto; [intros; eapply Src; right; eauto | intros; eapply Al; eauto; right; eauto].
Qed.

Lemma gcopy_rows_total : forall rows done h cb,
  (forall n r, In (n, r) (done ++ rows) -> zget adj n = Some r) ->
  NoDup (keys (done ++ rows)) ->
  (forall n, In n (keys (done ++ rows)) -> keep n = true) ->
  cinv keep f h0 h done cb -> exists h' cb', gcopy_rows keep f h cb rows = Ok (h', cb').
Proof.
  induction rows as [|[n r] rows IH]; intros done h cb Src ND K CI; cbn [gcopy_rows]; [eauto|].
  pose proof CI as [X [F J]].
  assert (keys cb = keys done) as Kc by (eapply F2_keys; [apply rrel_k | exact F]).
  assert (~ In n (keys cb)) as Nn.
  { rewrite Kc. rewrite keys_app in ND. cbn in ND. apply NoDup_remove_2 in ND. intros Hi. apply ND. apply in_or_app. now left. }
  assert (zget adj n = Some r) as Hr by (apply Src; apply in_or_app; right; now left).
  assert (forall m rf, In (m, rf) r -> aslot adj n m = Some rf) as Sl.
  { intros m rf Hi. unfold aslot. rewrite Hr. apply In_zget_nodup; [|assumption]. destruct Hnd as [_ Rw]. eapply Rw; eauto. }
  rewrite (zset_notin_app cb n []) by assumption.
  destruct (gcopy_row_total (cb ++ [(n, [])]) n r h X) as [h1 [l Row]].
  { intros m rf Hi. eapply aslot_arefs. eapply Sl; eauto. }
  { intros m rf rowm Hi Hz. rewrite zget_app in Hz. destruct (zget cb m) as [rw|] eqn:Em.
    - inversion Hz; subst rw. destruct (F2_zget_r _ (rrel_k keep f h0 h) _ _ F m rowm Em) as [rsrc [Hd [_ Fr]]]. cbn [snd] in Fr.
      assert (zget adj m = Some rsrc) as Hm. { apply Src. apply in_or_app. left. now apply zget_In. }
      pose proof (Hsym _ _ _ (Sl _ _ Hi)) as S2. unfold aslot in S2. rewrite Hm in S2.
      assert (zget (filter (fun mr => keep (fst mr)) rsrc) n = Some rf) as Hf.
      { rewrite zget_filter_key. rewrite (K n); [exact S2|]. rewrite keys_app. apply in_or_app. right. now left. }
      destruct (F2_zget_l _ (erel_k f h0 h) _ _ Fr n rf Hf) as [rf' [Hz' _]]. congruence.
    - cbn in Hz. destruct (Z.eqb_spec m n) as [->|]; [|discriminate]. exfalso. pose proof (Sl _ _ Hi) as S. rewrite Hloop in S. discriminate. }
  rewrite Row. rewrite (zset_notin_app cb n l) by assumption.
  assert (gcopy_rows keep f h cb [(n, r)] = Ok (h1, cb ++ [(n, l)])) as One.
  { cbn [gcopy_rows]. rewrite (zset_notin_app cb n []) by assumption. rewrite Row. now rewrite (zset_notin_app cb n l). }
  assert (done ++ (n, r) :: rows = (done ++ [(n, r)]) ++ rows) as EA by (rewrite <- app_assoc; reflexivity).
  rewrite EA in Src, ND, K.
  apply (IH (done ++ [(n, r)]) h1 (cb ++ [(n, l)])); auto.
  apply (gcopy_rows_spec keep f h0 adj Hnd Hsym Hold [(n, r)] done h cb h1 (cb ++ [(n, l)])); auto.
  - intros n0 r0 Hi. apply Src. apply in_or_app. left. exact Hi.
  - rewrite keys_app in ND. apply NoDup_app_l in ND. exact ND.
  - intros n0 Hi. apply K. rewrite keys_app. apply in_or_app. now left.
Qed.
End Total.
