(* C17 extension 2: a semantic characterisation of the Morgan identifier.  The identifier of an atom after r rounds
   depends only on its radius-r neighbourhood as a rooted labelled graph: if a map f sends the neighbourhood of a in g
   to that of f a in g' preserving atom identifiers (distance <= r) and the (neighbour, bond order) lists of the atoms at
   distance < r (up to order), both atoms get the same identifier after r rounds, for EVERY hash function.  A rooted
   isomorphism of the radius-r balls satisfies the hypothesis; the hypothesis is weaker (f need not be injective, edges
   between two atoms at distance exactly r are not looked at): exactly what r rounds can see. *)
From Coq Require Import ZArith List Bool Lia Permutation.
From Model Require Import PyBase Graph PyHash Fingerprint.
From Proofs Require Import FingerprintProofs.
Import ListNotations.
Open Scope Z_scope.

(* x is reachable from a by a walk of at most k bonds *)
Inductive within (g : mol) (a : Z) : nat -> Z -> Prop :=
| within_0 : within g a 0 a
| within_step k x y : within g a k x -> edge g x y -> within g a (S k) y
| within_mono k x : within g a k x -> within g a (S k) x.

Lemma within_le g a k k' x : (k <= k')%nat -> within g a k x -> within g a k' x.
Proof. intro Hle. induction Hle as [|m _ IH]; intro Hw; [exact Hw | apply within_mono; apply IH; exact Hw]. Qed.

Lemma within_inv g a k y : within g a (S k) y -> within g a k y \/ exists x, within g a k x /\ edge g x y.
Proof. intro H. inversion H; subst; [right; eauto | left; assumption]. Qed.

Lemma within_ids g a k x : wf_mol g = true -> In a (ids g) -> within g a k x -> In x (ids g).
Proof.
  intros Hwf Ha H. induction H as [|k x y _ IH He|k x _ IH]; [exact Ha| |exact IH].
  destruct (wf_mol_sym_closed g Hwf) as (_ & _ & Hc). exact (Hc _ _ He).
Qed.

(* the (neighbour, bond order) items of an atom *)
Definition nb_items (g : mol) (x : Z) : list (Z * Z) := map (fun nb => (fst nb, b_ord (snd nb))) (nbrs g x).

(* f maps the radius-r neighbourhood of a in g onto that of f a in g' *)
Definition nbhd_iso (g g' : mol) (f : Z -> Z) (a : Z) (r : nat) : Prop :=
  In a (ids g) /\ In (f a) (ids g') /\
  (forall k x, (k <= r)%nat -> within g a k x -> ident (atom_identifiers g) x = ident (atom_identifiers g') (f x)) /\
  (forall k x, (k < r)%nat -> within g a k x ->
     Permutation (map (fun it => (f (fst it), snd it)) (nb_items g x)) (nb_items g' (f x))).

Section Nbhd.
  Variable h : list Z -> Z.
  Variables g g' : mol.
  Variable f : Z -> Z.
  Hypothesis Hwf : wf_mol g = true.
  Hypothesis Hwf' : wf_mol g' = true.

  Lemma nb_items_edge x y o : In (y, o) (nb_items g' x) -> edge g' x y.
  Proof.
    unfold nb_items, edge, nbr_ids, keys. intro H. apply in_map_iff in H. destruct H as [nb [E Hn]].
    inversion E; subst. apply in_map. exact Hn.
  Qed.

  Lemma level_pairs_perm (d d' : list (Z * Z)) x :
    Permutation (map (fun it => (f (fst it), snd it)) (nb_items g x)) (nb_items g' (f x)) ->
    (forall nb, In nb (nbrs g x) -> ident d (fst nb) = ident d' (f (fst nb))) ->
    Permutation (map (fun nb => (b_ord (snd nb), ident d (fst nb))) (nbrs g x))
                (map (fun nb => (b_ord (snd nb), ident d' (fst nb))) (nbrs g' (f x))).
  Proof.
    intros HP Hid.
    apply (Permutation_map (fun it : Z * Z => (snd it, ident d' (fst it)))) in HP.
    unfold nb_items in HP. rewrite !map_map in HP. cbn [fst snd] in HP.
    eapply Permutation_trans; [|exact HP]. 
    rewrite (map_ext_in (fun nb => (b_ord (snd nb), ident d (fst nb))) (fun nb => (b_ord (snd nb), ident d' (f (fst nb))))).
    - apply Permutation_refl.
    - intros nb Hn. rewrite (Hid nb Hn). reflexivity.
  Qed.

  (* the invariant: after r' rounds, every atom x at distance <= j with j + r' <= r has the identifier of f x *)
  Lemma neighbourhood_invariant_aux a r : nbhd_iso g g' f a r ->
    forall r' j x, (j + r' <= r)%nat -> within g a j x ->
      In (f x) (ids g') /\ ident (morgan_level h g r') x = ident (morgan_level h g' r') (f x).
  Proof.
    intros (Ha & Hfa & Hlab & Hnb).
    assert (Hin' : forall j x, (j <= r)%nat -> within g a j x -> In (f x) (ids g')).
    { induction j as [|j IH]; intros x Hj Hw.
      - inversion Hw; subst. exact Hfa.
      - destruct (within_inv _ _ _ _ Hw) as [Hw'|[y [Hw' He]]]; [apply IH; [lia | exact Hw']|].
        assert (Hjr : (j < r)%nat) by lia. pose proof (Hnb j y Hjr Hw') as HP.
        unfold edge, nbr_ids, keys in He. apply in_map_iff in He. destruct He as [nb [E Hn]]. subst x.
        assert (Hi : In (f (fst nb), b_ord (snd nb)) (nb_items g' (f y))).
        { apply (Permutation_in _ HP). unfold nb_items. rewrite map_map. cbn [fst snd].
          apply (in_map (fun nb0 : Z * bond => (f (fst nb0), b_ord (snd nb0)))). exact Hn. }
        apply nb_items_edge in Hi. destruct (wf_mol_sym_closed g' Hwf') as (_ & _ & Hc). exact (Hc _ _ Hi). }
    induction r' as [|r' IH]; intros j x Hj Hw.
    - split; [apply (Hin' j); [lia | exact Hw]|]. cbn [morgan_level]. apply (Hlab j); [lia | exact Hw].
    - assert (Hfx : In (f x) (ids g')) by (apply (Hin' j); [lia | exact Hw]).
      split; [exact Hfx|].
      rewrite (morgan_level_value h g r' x (within_ids g a j x Hwf Ha Hw)), (morgan_level_value h g' r' (f x) Hfx).
      destruct (IH j x ltac:(lia) Hw) as [_ E0]. rewrite E0. do 3 f_equal.
      apply sort_pairs_order_free. apply level_pairs_perm.
      + apply (Hnb j); [lia | exact Hw].
      + intros nb Hn. apply (IH (S j) (fst nb)); [lia|].
        apply (within_step g a j x); [exact Hw|]. unfold edge, nbr_ids, keys. apply in_map. exact Hn.
  Qed.

  Theorem morgan_level_neighbourhood_invariant a r : nbhd_iso g g' f a r ->
    ident (morgan_level h g r) a = ident (morgan_level h g' r) (f a).
  Proof.
    intro H. apply (neighbourhood_invariant_aux a r H r 0%nat a); [lia | constructor].
  Qed.
End Nbhd.

(* an isomorphism of whole molecules (renumbering) is a neighbourhood isomorphism of every atom and radius *)
Theorem rename_nbhd_iso (s : Z -> Z) g a r : (forall x y, s x = s y -> x = y) -> In a (ids g) ->
  nbhd_iso g (rename_mol s g) s a r.
Proof.
  intros Hinj Ha. split; [exact Ha|]. split; [rewrite (ids_rename s); apply in_map; exact Ha|]. split.
  - intros k x _ _. symmetry. apply ident_rename. exact Hinj.
  - intros k x _ _. unfold nb_items. rewrite (nbrs_rename s Hinj), !map_map. cbn [fst snd]. apply Permutation_refl.
Qed.

(* ---- non-vacuity ---- *)
(* (1) the two methyl groups of 2-propanol: the automorphism exchanging atoms 1 and 3 *)
Definition swap13 (x : Z) : Z := if x =? 1 then 3 else if x =? 3 then 1 else x.
(* (2) the methyl carbon of 2-propanol and that of ethanol: same radius-1 neighbourhood, different radius-2 one *)
Definition ethanol : mol :=
  mkMol [(1, ex_atom 6); (2, ex_atom 6); (3, ex_atom 8)] [(1, [(2, ex_b1)]); (2, [(1, ex_b1); (3, ex_b1)]); (3, [(2, ex_b1)])].

Lemma in4 x : In x [1; 2; 3; 4] -> x = 1 \/ x = 2 \/ x = 3 \/ x = 4.
Proof. cbn. intuition. Qed.

Lemma example_nbhd :
  nbhd_iso ex_mol ex_mol swap13 1 5 /\
  (forall h : list Z -> Z, ident (morgan_level h ex_mol 5) 1 = ident (morgan_level h ex_mol 5) 3) /\
  nbhd_iso ex_mol ethanol (fun x => x) 1 1 /\
  (forall h : list Z -> Z, ident (morgan_level h ex_mol 1) 1 = ident (morgan_level h ethanol 1) 1) /\
  ident (morgan_level hash_ztuple ex_mol 2) 1 <> ident (morgan_level hash_ztuple ethanol 2) 1 /\
  wf_mol ethanol = true.
Proof.
  assert (Hw : wf_mol ex_mol = true) by (vm_compute; reflexivity).
  assert (He : wf_mol ethanol = true) by (vm_compute; reflexivity).
  assert (H1 : nbhd_iso ex_mol ex_mol swap13 1 5).
  { split; [vm_compute; tauto|]. split; [vm_compute; tauto|]. split.
    - intros k x _ Hx. apply (within_ids _ _ _ _ Hw) in Hx; [|vm_compute; tauto].
      apply in4 in Hx. destruct Hx as [->|[->|[->| ->]]]; vm_compute; reflexivity.
    - intros k x _ Hx. apply (within_ids _ _ _ _ Hw) in Hx; [|vm_compute; tauto].
      apply in4 in Hx. destruct Hx as [->|[->|[->| ->]]]; vm_compute; try apply Permutation_refl. apply perm_swap. }
  assert (H2 : nbhd_iso ex_mol ethanol (fun x => x) 1 1).
  { split; [vm_compute; tauto|]. split; [vm_compute; tauto|]. split.
    - intros k x Hk Hx. assert (Hx1 : within ex_mol 1 1 x) by (apply (within_le _ _ k); [exact Hk | exact Hx]).
      destruct (within_inv _ _ _ _ Hx1) as [H0|[y [H0 Hy]]]; inversion H0; subst.
      + vm_compute. reflexivity.
      + vm_compute in Hy. destruct Hy as [<-|[]]. vm_compute. reflexivity.
    - intros k x Hk Hx. assert (k = 0%nat) by lia. subst k. inversion Hx; subst. vm_compute. apply Permutation_refl. }
  split; [exact H1|]. split.
  - intro h. apply (morgan_level_neighbourhood_invariant h ex_mol ex_mol swap13 Hw Hw 1 5 H1).
  - split; [exact H2|]. split.
    + intro h. apply (morgan_level_neighbourhood_invariant h ex_mol ethanol (fun x => x) Hw He 1 1 H2).
    + split; [vm_compute; discriminate | exact He].
Qed.
