(* C08 -- the position of a ';'-separated stereo mark does not matter either: '@' or '@@' written as a ';' segment of its own
   (after a part x without '@' and without ':', followed by nothing or by the next ';' segment) is parsed by the model of
   _query_parse exactly as the same mark glued in place - wherever the charge mark stands (inside x, inside y, glued or as a
   segment of its own) and whatever else x and y contain. *)
From Coq Require Import ZArith List String Ascii Bool Lia.
From Gen Require Import Elements TokenTables SmartsTables.
From Model Require Import PyBase Graph PeriodicTable Tokenize Smarts Query.
From Proofs Require Import SmartsProofs SmartsRoundtrip QueryParseSep.
Import ListNotations.
Open Scope Z_scope.

Definition stereo_mark (g : str) : Prop := g = ["@"%char] \/ g = ["@"%char; "@"%char].

(* ---------------------------------------------------------------- the charge scan *)
Lemma sign_split u : clean is_sign u \/ exists a s r, u = (a ++ s :: r)%list /\ clean is_sign a /\ is_sign s = true.
Proof.
  induction u as [|c u IH]; [left; reflexivity|].
  destruct (is_sign c) eqn:Ec.
  - right. exists [], c, u. repeat split. exact Ec.
  - destruct IH as [H|[a [s [r [E [Ha Hs]]]]]].
    + left. apply clean_cons. split; assumption.
    + right. exists (c :: a), s, r. subst u. repeat split; [apply clean_cons; split; assumption | exact Hs].
Qed.

Definition strip_chg (t1 : str) : pyres (option Z * str) :=
  match chg_search t1 with
  | None => Ok (None, t1)
  | Some (a, g, b) => match charge_dict g with Some c => Ok (Some c, (a ++ b)%list) | None => Err IncorrectSmarts end
  end.

Lemma clean_sub f a g b : clean f (a ++ g ++ b) -> clean f (a ++ b).
Proof. intros H. apply clean_app in H. destruct H as [Ha H]. apply clean_app in H. apply clean_app. tauto. Qed.

Lemma chg_sep x g y : stereo_mark g -> sep_tail y -> clean is_at x -> clean is_colon x ->
  (strip_chg (x ++ ";"%char :: g ++ y) = Err IncorrectSmarts /\ strip_chg (x ++ g ++ y) = Err IncorrectSmarts) \/
  exists c x2 y2, strip_chg (x ++ ";"%char :: g ++ y) = Ok (c, (x2 ++ ";"%char :: g ++ y2)%list) /\
                  strip_chg (x ++ g ++ y) = Ok (c, (x2 ++ g ++ y2)%list) /\
                  sep_tail y2 /\ clean is_at x2 /\ clean is_colon x2.
Proof.
  intros Hg Hy Hat Hco. unfold strip_chg.
  assert (Hgs : clean is_sign g) by (destruct Hg as [->| ->]; reflexivity).
  destruct (sign_split x) as [Hx|[a [s [r [E [Ha Hs]]]]]].
  - (* no sign in x: the charge, if any, stands in y *)
    assert (H1 : clean is_sign (x ++ ";"%char :: g)) by (apply clean_app; split; [exact Hx|apply clean_cons; split; [reflexivity|exact Hgs]]).
    assert (H2 : clean is_sign (x ++ g)) by (apply clean_app; split; assumption).
    replace (x ++ ";"%char :: g ++ y)%list with ((x ++ ";"%char :: g) ++ y)%list by (rewrite <- app_assoc; reflexivity).
    replace (x ++ g ++ y)%list with ((x ++ g) ++ y)%list by (rewrite <- app_assoc; reflexivity).
    rewrite (chg_search_prefix _ y H1), (chg_search_prefix _ y H2).
    destruct (chg_search y) as [[[a' gg] b]|] eqn:Ey.
    + destruct (charge_dict gg) as [c|]; [|left; split; reflexivity]. right.
      exists (Some c), x, (a' ++ b)%list. rewrite <- ?app_assoc. cbn [app]. rewrite <- ?app_assoc. repeat split; try assumption.
      destruct Hy as [->|[y' ->]]; [discriminate Ey|]. cbn [chg_search] in Ey. change (is_sign ";") with false in Ey. cbv iota in Ey.
      destruct (chg_search y') as [[[a2 g2] b2]|]; inversion Ey. right; eexists; reflexivity.
    + right. exists None, x, y. rewrite <- !app_assoc. cbn [app]. repeat split; assumption.
  - (* the first sign stands in x: the same group is cut out of both spellings *)
    subst x. rewrite <- !app_assoc. cbn [app].
    rewrite (chg_search_prefix a _ Ha), (chg_search_prefix a _ Ha). cbn [chg_search]. rewrite Hs.
    assert (Hsub : forall gg b, (a ++ s :: r = a ++ gg ++ b)%list -> clean is_at (a ++ b) /\ clean is_colon (a ++ b)).
    { intros gg b E. rewrite E in Hat, Hco. split; eapply clean_sub; eassumption. }
    destruct r as [|d r'].
    + cbn [app]. change (is_chg2 ";") with false. cbv iota.
      destruct (Hsub [s] [] eq_refl) as [P Q]. rewrite app_nil_r in P, Q.
      destruct Hg as [->| ->]; cbn [app]; change (is_chg2 "@") with false; cbv iota;
      (destruct (charge_dict [s]) as [c|]; [|left; split; reflexivity]); right;
      exists (Some c), a, y; rewrite ?app_nil_r; repeat split; assumption.
    + cbn [app]. destruct (is_chg2 d).
      * destruct (charge_dict [s; d]) as [c|]; [|left; split; reflexivity]. right.
        exists (Some c), (a ++ r')%list, y. rewrite !app_nil_r, <- !app_assoc.
        destruct (Hsub [s; d] r' eq_refl) as [P Q]. repeat split; assumption.
      * destruct (charge_dict [s]) as [c|]; [|left; split; reflexivity]. right.
        exists (Some c), (a ++ d :: r')%list, y. rewrite !app_nil_r, <- !app_assoc. cbn [app].
        destruct (Hsub [s] (d :: r') eq_refl) as [P Q]. repeat split; assumption.
Qed.

(* ---------------------------------------------------------------- mapping and stereo scans *)
Lemma strip_map_prefix u v : clean is_colon u -> strip_map (u ++ v) = (fst (strip_map v), (u ++ snd (strip_map v))%list).
Proof.
  intros Hu. unfold strip_map. rewrite (mpp_search_prefix u v Hu). destruct (mpp_search v) as [[a d]|]; reflexivity.
Qed.
Lemma strip_map_tail v : sep_tail v -> sep_tail (snd (strip_map v)).
Proof.
  intros Hv. unfold strip_map. destruct (mpp_search v) as [[xx d]|] eqn:E; [|exact Hv]. cbn [snd].
  destruct Hv as [->|[v' ->]]; [discriminate E|]. cbn [mpp_search] in E. change (ceq ";" ":") with false in E. cbn [andb] in E.
  destruct (mpp_search v') as [[a' d']|]; inversion E. right; eexists; reflexivity.
Qed.
Lemma mark_found g y : stereo_mark g -> sep_tail y -> str_search (g ++ y) = Some ([], g, y).
Proof. intros [->| ->] [->|[y' ->]]; reflexivity. Qed.

Lemma after_charge_stereo iso c x g y : stereo_mark g -> sep_tail y -> clean is_at x -> clean is_colon x ->
  after_charge iso c (x ++ ";"%char :: g ++ y) = after_charge iso c (x ++ g ++ y).
Proof.
  intros Hg Hy Hat Hco. unfold after_charge.
  assert (Hgc : clean is_colon g) by (destruct Hg as [->| ->]; reflexivity).
  assert (H1 : clean is_colon (x ++ ";"%char :: g)) by (apply clean_app; split; [exact Hco|apply clean_cons; split; [reflexivity|exact Hgc]]).
  assert (H2 : clean is_colon (x ++ g)) by (apply clean_app; split; assumption).
  replace (x ++ ";"%char :: g ++ y)%list with ((x ++ ";"%char :: g) ++ y)%list by (rewrite <- app_assoc; reflexivity).
  replace (x ++ g ++ y)%list with ((x ++ g) ++ y)%list by (rewrite <- app_assoc; reflexivity).
  rewrite (strip_map_prefix _ y H1), (strip_map_prefix _ y H2).
  pose proof (strip_map_tail y Hy) as Hy3. destruct (strip_map y) as [m y3]. cbn [fst snd] in *.
  unfold strip_stereo.
  assert (A1 : clean is_at (x ++ [";"%char])) by (apply clean_app; split; [exact Hat|reflexivity]).
  replace ((x ++ ";"%char :: g) ++ y3)%list with ((x ++ [";"%char]) ++ (g ++ y3))%list by (rewrite <- !app_assoc; reflexivity).
  replace ((x ++ g) ++ y3)%list with (x ++ (g ++ y3))%list by (rewrite <- app_assoc; reflexivity).
  rewrite (str_search_prefix _ (g ++ y3) A1), (str_search_prefix x (g ++ y3) Hat), (mark_found g y3 Hg Hy3).
  rewrite !app_nil_r, <- app_assoc. cbn [app]. apply finish_sep. exact Hy3.
Qed.

Theorem stereo_position_independent x g y :
  clean is_at x -> clean is_colon x -> stereo_mark g -> sep_tail y ->
  query_parse (x ++ ";"%char :: g ++ y) = query_parse (x ++ g ++ y).
Proof.
  intros Hat Hco Hg Hy. rewrite !query_parse_unfold.
  assert (E2 : (x ++ g ++ y = x ++ "@"%char :: (tl g ++ y))%list) by (destruct Hg as [->| ->]; reflexivity).
  rewrite E2, (span_stop is_digit x ";"%char _ eq_refl), (span_stop is_digit x "@"%char _ eq_refl). rewrite <- E2.
  pose proof (span_split is_digit x) as Hx.
  destruct (span is_digit x) as [ds x']. cbn [fst snd] in *.
  assert (Hat' : clean is_at x') by (rewrite Hx in Hat; apply clean_app in Hat; tauto).
  assert (Hco' : clean is_colon x') by (rewrite Hx in Hco; apply clean_app in Hco; tauto).
  assert (G : forall iso,
    match chg_search (x' ++ ";"%char :: g ++ y) with
    | None => after_charge iso None (x' ++ ";"%char :: g ++ y)
    | Some (a, g0, b) => match charge_dict g0 with Some c => after_charge iso (Some c) (a ++ b) | None => Err IncorrectSmarts end
    end =
    match chg_search (x' ++ g ++ y) with
    | None => after_charge iso None (x' ++ g ++ y)
    | Some (a, g0, b) => match charge_dict g0 with Some c => after_charge iso (Some c) (a ++ b) | None => Err IncorrectSmarts end
    end).
  { intros iso. pose proof (chg_sep x' g y Hg Hy Hat' Hco') as H. unfold strip_chg in H.
    destruct (chg_search (x' ++ ";"%char :: g ++ y)) as [[[a1 g1] b1]|]; destruct (chg_search (x' ++ g ++ y)) as [[[a2 g2] b2]|].
    all: try destruct (charge_dict g1); try destruct (charge_dict g2).
    all: destruct H as [[H1 H2]|[c [x2 [y2 [H1 [H2 [Hy2 [P Q]]]]]]]]; try discriminate H1; try discriminate H2; try reflexivity.
    all: injection H1 as Ec1 Et1; injection H2 as Ec2 Et2; rewrite Et1, Et2; subst c; try discriminate Ec2; try (injection Ec2 as ->);
         apply after_charge_stereo; assumption. }
  assert (Eg : (x' ++ "@"%char :: tl g ++ y = x' ++ g ++ y)%list) by (destruct Hg as [->| ->]; reflexivity).
  destruct ds as [|d0 ds'].
  - cbn [app] in Hx. subst x'. cbv zeta. apply G.
  - cbv zeta. rewrite Eg. apply G.
Qed.

Lemma stereo_position_example :
  (clean is_at (s2l "13C;+;D3") /\ clean is_colon (s2l "13C;+;D3") /\ stereo_mark (s2l "@@") /\ sep_tail (s2l ";h1;M:7")) /\
  query_parse (s2l "13C;+;D3;@@;h1;M:7") = query_parse (s2l "13C;+;D3@@;h1;M:7") /\
  query_parse (s2l "C;@;-;h1") = query_parse (s2l "C@;-;h1") /\ query_parse (s2l "C;h1;@") = query_parse (s2l "C;h1@") /\
  exists p, query_parse (s2l "13C;+;D3;@@;h1;M:7") = Ok p /\ p_stereo p = Some false /\ p_charge p = Some 1 /\ p_nb p = Some [3] /\
            p_h p = Some [1] /\ p_masked p = true /\ p_mapping p = Some 7.
Proof.
  split; [repeat split; try reflexivity; [right; reflexivity | right; eexists; reflexivity]|].
  split; [vm_compute; reflexivity|]. split; [vm_compute; reflexivity|]. split; [vm_compute; reflexivity|].
  eexists. split; [vm_compute; reflexivity|]. repeat split; reflexivity.
Qed.

(* ---------------------------------------------------------------- consequences for the atom smarts() builds *)
Corollary charge_position_atom x g y :
  clean is_sign x -> clean is_colon x -> In g charge_groups -> sep_tail y ->
  smarts_atom (x ++ ";"%char :: g ++ y) = smarts_atom (x ++ g ++ y).
Proof. intros. unfold smarts_atom. rewrite charge_position_independent by assumption. reflexivity. Qed.
Corollary stereo_position_atom x g y :
  clean is_at x -> clean is_colon x -> stereo_mark g -> sep_tail y ->
  smarts_atom (x ++ ";"%char :: g ++ y) = smarts_atom (x ++ g ++ y).
Proof. intros. unfold smarts_atom. rewrite stereo_position_independent by assumption. reflexivity. Qed.
