(* read_spell_denote: the token machine of parser.py (branch stack, last_num, previous) implements the tree structure of the
   SMILES abstract syntax: parse (spell t) = denote t for every well-formed tree, where `denote` (Model.SmilesAst) attaches every
   atom to its parent IN THE TREE and applies ring digits at the atom they follow, with no stack / last atom / pending bond. *)
From Coq Require Import ZArith List String Ascii Bool Lia.
From Model Require Import PyBase Tokenize Parser SmilesAst.
From Proofs Require Import TokenizeProofs ParserProofs.
Import ListNotations.
Open Scope Z_scope.

(* ------------------------------------------------------------------------------------------------ induction over trees *)
Section TreeInd.
  Variable P : tree -> Prop.
  Hypothesis H : forall ty a rings kids, Forall (fun bk : option token * tree => P (snd bk)) kids -> P (Node ty a rings kids).
  Fixpoint tree_ind' (t : tree) : P t :=
    match t with
    | Node ty a rings kids =>
        H ty a rings kids
          ((fix go (ks : list (option token * tree)) : Forall (fun bk : option token * tree => P (snd bk)) ks :=
              match ks with
              | [] => Forall_nil _
              | bk :: r => match bk as bk0 return Forall (fun bk : option token * tree => P (snd bk)) (bk0 :: r) with
                           | (b, c) => Forall_cons (b, c) (tree_ind' c) (go r)
                           end
              end) kids)
    end.
End TreeInd.

(* ------------------------------------------------------------------------------------------------ the stack is a frame *)
Definition with_stack (s : pstate) (st : list Z) : pstate := set_last_stack s (ps_last s) st.
Definition map_ok (f : pstate -> pstate) (r : pyres pstate) : pyres pstate := match r with Ok s => Ok (f s) | Err e => Err e end.
Definition flat_tok (t : token) : bool := negb (fst t =? 2) && negb (fst t =? 3).

Lemma step_frame strong s t st : flat_tok t = true ->
  step strong (with_stack s st) t = map_ok (fun s' => with_stack s' st) (step strong s t).
Proof.
  destruct t as [ty v]. unfold flat_tok. cbn [fst]. intros F. apply andb_prop in F. destruct F as [E2 E3].
  apply negb_true_iff in E2. apply negb_true_iff in E3.
  destruct s as [atoms types bonds order n last stack cycles satoms sbonds prev lg].
  unfold step, with_stack, set_last_stack, set_prev. cbn [ps_atoms ps_types ps_bonds ps_order ps_n ps_last ps_stack ps_cycles ps_satoms ps_sbonds ps_prev ps_log].
  rewrite E2, E3.
  destruct (zmem ty [1; 4; 9; 10; 12]).
  { destruct prev; [reflexivity|]. destruct atoms; reflexivity. }
  destruct (ty =? 6).
  { destruct (match prev with Some (pt, _) => pt =? 4 | None => false end); [reflexivity|].
    destruct v; try reflexivity. destruct (zget cycles z) as [[[a ob] ind]|]; [|reflexivity].
    replace (close_bond strong (mkP atoms types bonds order n last st cycles satoms sbonds prev lg) a ob)
      with (close_bond strong (mkP atoms types bonds order n last stack cycles satoms sbonds prev lg) a ob) by reflexivity.
    destruct (close_bond strong _ a ob) as [[[[b sb] lg'] x]|]; [|reflexivity].
    destruct (od_set order a ind (Some last)); reflexivity. }
  destruct atoms as [|a0 ar].
  { destruct v; reflexivity. }
  destruct prev as [[bt b]|].
  - destruct (bt =? 9).
    + replace (type_at (mkP (a0 :: ar) types bonds order n last st cycles satoms sbonds (Some (bt, b)) lg) last)
        with (type_at (mkP (a0 :: ar) types bonds order n last stack cycles satoms sbonds (Some (bt, b)) lg) last) by reflexivity.
      destruct (type_at _ last); [|reflexivity]. destruct (as_bool b); [|reflexivity]. destruct v; reflexivity.
    + destruct (zmem bt [1; 10; 12]); destruct v; reflexivity.
  - replace (type_at (mkP (a0 :: ar) types bonds order n last st cycles satoms sbonds None lg) last)
      with (type_at (mkP (a0 :: ar) types bonds order n last stack cycles satoms sbonds None lg) last) by reflexivity.
    destruct (type_at _ last); [|reflexivity]. destruct v; reflexivity.
Qed.

Lemma loop_frame strong toks : forall s st, forallb flat_tok toks = true ->
  loop strong (with_stack s st) toks = map_ok (fun s' => with_stack s' st) (loop strong s toks).
Proof.
  induction toks as [|t r IH]; intros s st F; cbn [loop]; [reflexivity|].
  cbn [forallb] in F. apply andb_prop in F. destruct F as [F1 F2].
  rewrite step_frame by exact F1. destruct (step strong s t) as [s1|e]; cbn [map_ok]; [apply IH; exact F2 | reflexivity].
Qed.

(* ------------------------------------------------------------------------------------------------ what the flat steps leave behind *)
Lemma step_shape strong s ty v s' : step strong s (ty, v) = Ok s' -> (ty =? 2) = false -> (ty =? 3) = false ->
  ps_stack s' = ps_stack s /\
  (zmem ty [1; 4; 9; 10; 12] = true -> ps_last s' = ps_last s /\ ps_prev s = None /\ ps_atoms s <> [] /\ ps_atoms s' = ps_atoms s) /\
  (ty =? 6 = true -> ps_last s' = ps_last s /\ ps_prev s' = None) /\
  (zmem ty [0; 8] = true -> ps_last s' = ps_n s /\ (ps_atoms s <> [] \/ ps_prev s = None -> ps_prev s' = None)).
Proof.
  unfold step, ISm. intros H E2 E3. rewrite E2, E3 in H.
  destruct (zmem ty [1; 4; 9; 10; 12]) eqn:Eb.
  { destruct (ps_prev s) eqn:Ep; [discriminate|]. destruct (ps_atoms s) eqn:Ea; [discriminate|]. inversion H; subst; cbn.
    split; [reflexivity|]. split; [intros _; repeat split; try assumption; discriminate|].
    split; intros K; exfalso; zcontra. }
  destruct (ty =? 6) eqn:E6.
  { apply Z.eqb_eq in E6. subst ty.
    destruct (match ps_prev s with Some (pt, _) => pt =? 4 | None => false end); [discriminate|].
    destruct v; try discriminate. destruct (zget (ps_cycles s) z) as [[[a ob] ind]|].
    - destruct (close_bond strong s a ob) as [[[[b sb] lg] x]|]; [|discriminate].
      destruct (od_set (ps_order s) a ind (Some (ps_last s))); [|discriminate]. inversion H; subst; cbn.
      split; [reflexivity|]. split; [discriminate|]. split; [intros _; split; reflexivity | discriminate].
    - inversion H; subst; cbn. split; [reflexivity|]. split; [discriminate|]. split; [intros _; split; reflexivity | discriminate]. }
  match type of H with match ?X with _ => _ end = _ => destruct X as [[[bonds order] sb]|]; [|discriminate] end.
  destruct v; try discriminate. inversion H; subst; cbn.
  split; [reflexivity|]. split; [discriminate|]. split; [discriminate|]. intros _. split; [reflexivity|].
  intros [K | K]; [destruct (ps_atoms s); [contradiction | reflexivity] | destruct (ps_atoms s); [exact K | reflexivity]].
Qed.

Lemma bond_ok_tok ty v : bond_ok (Some (ty, v)) = true -> zmem ty [1; 4; 9; 10; 12] = true /\ (ty =? 2) = false /\ (ty =? 3) = false /\ (ty =? 6) = false.
Proof. cbn. intros H. split; [exact H|]. zcontra; repeat split; reflexivity. Qed.

Lemma atom_ty ty : zmem ty [0; 8] = true -> (ty =? 2) = false /\ (ty =? 3) = false.
Proof. intros H. zcontra; split; reflexivity. Qed.

(* attaching an atom (with an optional bond token in front) *)
Lemma attach_shape strong s b ty a s1 : ps_prev s = None -> bond_ok b = true -> zmem ty [0; 8] = true ->
  loop strong s (opt_bond b ++ [(ty, PAtom a)]) = Ok s1 ->
  ps_last s1 = ps_n s /\ ps_prev s1 = None /\ ps_stack s1 = ps_stack s.
Proof.
  intros Hp Hb Hty H. destruct (atom_ty ty Hty) as [A2 A3].
  destruct b as [[bt bv]|]; cbn [opt_bond app loop] in H.
  - destruct (bond_ok_tok bt bv Hb) as [B1 [B2 [B3 _]]].
    destruct (step strong s (bt, bv)) as [s0|e] eqn:E0; [|discriminate].
    destruct (step_shape strong s bt bv s0 E0 B2 B3) as [S1 [S2 _]]. destruct (S2 B1) as [_ [_ [Hne Hat]]].
    destruct (step strong s0 (ty, PAtom a)) as [s1'|e] eqn:E1; [|discriminate]. inversion H; subst.
    destruct (step_shape strong s0 ty (PAtom a) s1 E1 A2 A3) as [T1 [_ [_ T4]]]. destruct (T4 Hty) as [U1 U2].
    assert (N : ps_n s0 = ps_n s).
    { unfold step in E0. rewrite B2, B3, B1, Hp in E0. destruct (ps_atoms s); [discriminate|]. inversion E0. reflexivity. }
    repeat split; [rewrite U1; exact N | apply U2; left; rewrite Hat; exact Hne | rewrite T1; exact S1].
  - destruct (step strong s (ty, PAtom a)) as [s1'|e] eqn:E1; [|discriminate]. inversion H; subst.
    destruct (step_shape strong s ty (PAtom a) s1 E1 A2 A3) as [T1 [_ [_ T4]]]. destruct (T4 Hty) as [U1 U2].
    repeat split; [exact U1 | apply U2; right; exact Hp | exact T1].
Qed.

Lemma rings_shape strong rings : forall s s2, ps_prev s = None ->
  forallb (fun r : option token * Z => bond_ok (fst r)) rings = true ->
  loop strong s (ring_tokens rings) = Ok s2 -> ps_last s2 = ps_last s /\ ps_prev s2 = None /\ ps_stack s2 = ps_stack s.
Proof.
  induction rings as [|[b k] r IH]; intros s s2 Hp Hw H.
  - cbn in H. inversion H; subst. repeat split. exact Hp.
  - cbn [forallb fst] in Hw. apply andb_prop in Hw. destruct Hw as [Hb Hr].
    unfold ring_tokens in H. cbn [flat_map fst snd] in H. fold (ring_tokens r) in H. rewrite <- app_assoc in H. rewrite loop_app in H.
    assert (K : forall s0, loop strong s (opt_bond b) = Ok s0 -> ps_last s0 = ps_last s /\ ps_stack s0 = ps_stack s).
    { intros s0 H0. destruct b as [[bt bv]|]; cbn [opt_bond loop] in H0.
      - destruct (bond_ok_tok bt bv Hb) as [B1 [B2 [B3 _]]]. destruct (step strong s (bt, bv)) as [s0'|e] eqn:E0; [|discriminate].
        inversion H0; subst. destruct (step_shape strong s bt bv s0 E0 B2 B3) as [S1 [S2 _]]. destruct (S2 B1) as [L _]. split; assumption.
      - inversion H0; subst. split; reflexivity. }
    destruct (loop strong s (opt_bond b)) as [s0|e]; [|discriminate]. destruct (K s0 eq_refl) as [K1 K2].
    cbn [app loop] in H. destruct (step strong s0 (6, PInt k)) as [s1|e] eqn:E1; [|discriminate].
    destruct (step_shape strong s0 6 (PInt k) s1 E1 eq_refl eq_refl) as [S1 [_ [S3 _]]]. destruct (S3 eq_refl) as [L1 P1].
    destruct (IH s1 s2 P1 Hr H) as [I1 [I2 I3]]. repeat split; [congruence | exact I2 | congruence].
Qed.

Lemma flat_opt_bond b : bond_ok b = true -> forallb flat_tok (opt_bond b) = true.
Proof.
  destruct b as [[bt bv]|]; [|reflexivity]. intros H. destruct (bond_ok_tok bt bv H) as [_ [B2 [B3 _]]].
  cbn. unfold flat_tok. cbn [fst]. rewrite B2, B3. reflexivity.
Qed.

Lemma flat_attach b ty a : bond_ok b = true -> zmem ty [0; 8] = true -> forallb flat_tok (opt_bond b ++ [(ty, PAtom a)]) = true.
Proof.
  intros Hb Hty. rewrite forallb_app, flat_opt_bond by exact Hb. destruct (atom_ty ty Hty) as [A2 A3].
  cbn. unfold flat_tok. cbn [fst]. rewrite A2, A3. reflexivity.
Qed.

Lemma flat_rings rings : forallb (fun r : option token * Z => bond_ok (fst r)) rings = true -> forallb flat_tok (ring_tokens rings) = true.
Proof.
  induction rings as [|[b k] r IH]; intros H; [reflexivity|]. cbn [forallb fst] in H. apply andb_prop in H. destruct H as [H1 H2].
  unfold ring_tokens. cbn [flat_map fst snd]. fold (ring_tokens r). rewrite !forallb_app, flat_opt_bond, IH by assumption. reflexivity.
Qed.

(* ------------------------------------------------------------------------------------------------ states up to (last, stack, previous) *)
Definition core (s : pstate) : pstate := at_node s 0.

Lemma at_node_core s1 s2 p : core s1 = core s2 -> at_node s1 p = at_node s2 p.
Proof.
  unfold core, at_node. intros H. inversion H. reflexivity.
Qed.

Lemma core_n s1 s2 : core s1 = core s2 -> ps_n s1 = ps_n s2.
Proof. unfold core, at_node. intros H. inversion H. reflexivity. Qed.

Lemma at_node_self s : ps_prev s = None -> at_node s (ps_last s) = with_stack s [].
Proof. destruct s. cbn. intros ->. reflexivity. Qed.

Lemma core_with_stack s st : core (with_stack s st) = core s.
Proof. destruct s. reflexivity. Qed.
Lemma core_set_last s l st : core (set_last_stack s l st) = core s.
Proof. destruct s. reflexivity. Qed.

(* den reads its state only up to core *)
Lemma den_core strong t p b s1 s2 : core s1 = core s2 -> den strong t p b s1 = den strong t p b s2.
Proof.
  intros H. destruct t as [ty a rings kids]. cbn [den]. unfold op_at.
  rewrite (at_node_core s1 s2 p H), (core_n s1 s2 H). reflexivity.
Qed.

(* a local operation at the atom where the machine stands = the machine's own run, up to the stack *)
Lemma op_at_here strong s toks : ps_prev s = None -> forallb flat_tok toks = true ->
  op_at strong s (ps_last s) toks = map_ok (fun s' => with_stack s' []) (loop strong s toks).
Proof. intros Hp F. unfold op_at. rewrite at_node_self by exact Hp. apply loop_frame. exact F. Qed.

(* ------------------------------------------------------------------------------------------------ the simulation *)
Definition Sim (strong : bool) (t : tree) : Prop :=
  forall b s, wf_tree t = true -> bond_ok b = true -> ps_prev s = None ->
  match den strong t (ps_last s) b s with
  | Err e => loop strong s (opt_bond b ++ spell t) = Err e
  | Ok d => exists s', loop strong s (opt_bond b ++ spell t) = Ok s' /\ core s' = core d /\ ps_stack s' = ps_stack s /\ ps_prev s' = None
  end.

(* the spelling of the children of a node *)
Fixpoint spell_kids (ks : list (option token * tree)) : list token :=
  match ks with
  | [] => []
  | (b, c) :: rest =>
      match rest with
      | [] => opt_bond b ++ spell c
      | _ => (2, PNone) :: (opt_bond b ++ spell c) ++ (3, PNone) :: spell_kids rest
      end
  end.
Fixpoint den_kids (strong : bool) (me : Z) (ks : list (option token * tree)) (s : pstate) : pyres pstate :=
  match ks with
  | [] => Ok s
  | (b', c) :: rest => match den strong c me b' s with Err e => Err e | Ok s' => den_kids strong me rest s' end
  end.
Fixpoint wf_kids (ks : list (option token * tree)) : bool :=
  match ks with [] => true | (b, c) :: rest => bond_ok b && wf_tree c && wf_kids rest end.

Lemma spell_node ty a rings kids : spell (Node ty a rings kids) = (ty, PAtom a) :: ring_tokens rings ++ spell_kids kids.
Proof.
  cbn [spell]. apply f_equal. apply f_equal. induction kids as [|[b c] r IH]; [reflexivity|]. cbn [spell_kids]. destruct r; [reflexivity|].
  rewrite <- IH. reflexivity.
Qed.
Lemma den_node strong ty a rings kids parent b s :
  den strong (Node ty a rings kids) parent b s =
  match op_at strong s parent (opt_bond b ++ [(ty, PAtom a)]) with
  | Err e => Err e
  | Ok s1 => match op_at strong s1 (ps_n s) (ring_tokens rings) with
             | Err e => Err e
             | Ok s2 => den_kids strong (ps_n s) kids s2
             end
  end.
Proof.
  cbn [den]. destruct (op_at strong s parent _) as [s1|e]; [|reflexivity]. destruct (op_at strong s1 (ps_n s) _) as [s2|e]; [|reflexivity].
  generalize s2. induction kids as [|[b' c] r IH]; intros s0; [reflexivity|]. cbn [den_kids].
  destruct (den strong c (ps_n s) b' s0); [apply IH | reflexivity].
Qed.
Lemma wf_node ty a rings kids : wf_tree (Node ty a rings kids) =
  zmem ty [0; 8] && forallb (fun r : option token * Z => bond_ok (fst r)) rings && wf_kids kids.
Proof.
  cbn [wf_tree]. apply f_equal. induction kids as [|[b c] r IH]; [reflexivity|]. cbn [wf_kids]. rewrite <- IH. reflexivity.
Qed.

Lemma sim_kids strong kids : Forall (fun bk : option token * tree => Sim strong (snd bk)) kids ->
  forall s d, wf_kids kids = true -> ps_prev s = None -> core s = core d ->
  match den_kids strong (ps_last s) kids d with
  | Err e => loop strong s (spell_kids kids) = Err e
  | Ok d' => exists s', loop strong s (spell_kids kids) = Ok s' /\ core s' = core d' /\ ps_stack s' = ps_stack s /\ ps_prev s' = None
  end.
Proof.
  induction kids as [|[b c] r IH]; intros HF s d Hw Hp Hc.
  - cbn. exists s. repeat split; assumption.
  - inversion HF as [|? ? Hc0 HFr]; subst. cbn [snd] in Hc0.
    cbn [wf_kids] in Hw. apply andb_prop in Hw. destruct Hw as [Hw Hwr]. apply andb_prop in Hw. destruct Hw as [Hb Hwc].
    cbn [den_kids spell_kids]. destruct r as [|bk2 r2].
    + (* the chain goes on *)
      rewrite (den_core strong c (ps_last s) b d s (eq_sym Hc)).
      specialize (Hc0 b s Hwc Hb Hp). destruct (den strong c (ps_last s) b s) as [dc|e]; [|exact Hc0].
      destruct Hc0 as [s' [L [C [S P]]]]. cbn [den_kids]. exists s'. repeat split; assumption.
    + (* a branch *)
      set (sp := set_last_stack s (ps_last s) (ps_last s :: ps_stack s)).
      assert (Eopen : step strong s (2, PNone) = Ok sp).
      { unfold step. cbn [Z.eqb Pos.eqb]. rewrite Hp. reflexivity. }
      assert (Hsp : ps_last sp = ps_last s /\ ps_prev sp = None /\ core sp = core d).
      { unfold sp. destruct s. cbn in *. repeat split; assumption. }
      destruct Hsp as [Lsp [Psp Csp]].
      cbn [loop]. rewrite Eopen. rewrite loop_app.
      rewrite (den_core strong c (ps_last s) b d sp (eq_sym Csp)). rewrite <- Lsp.
      specialize (Hc0 b sp Hwc Hb Psp). destruct (den strong c (ps_last sp) b sp) as [dc|e]; [|rewrite Hc0; reflexivity].
      destruct Hc0 as [s1 [L [C [S P]]]]. rewrite L. cbn [app loop].
      assert (Eclose : step strong s1 (3, PNone) = Ok (set_last_stack s1 (ps_last s) (ps_stack s))).
      { unfold step. cbn [Z.eqb Pos.eqb]. rewrite P, S. unfold sp. destruct s; reflexivity. }
      rewrite Eclose.
      set (s2 := set_last_stack s1 (ps_last s) (ps_stack s)).
      assert (H2 : ps_last s2 = ps_last s /\ ps_prev s2 = None /\ core s2 = core dc /\ ps_stack s2 = ps_stack s).
      { unfold s2. rewrite core_set_last. destruct s1. cbn in *. repeat split; assumption. }
      destruct H2 as [L2 [P2 [C2 S2]]].
      specialize (IH HFr s2 dc Hwr P2 C2). rewrite L2 in IH. rewrite Lsp.
      destruct (den_kids strong (ps_last s) (bk2 :: r2) dc) as [d'|e]; [|exact IH].
      destruct IH as [s' [L' [C' [S' P']]]]. exists s'. repeat split; [exact L' | exact C' | congruence | exact P'].
Qed.

Lemma sim_all strong t : Sim strong t.
Proof.
  induction t as [ty a rings kids IHk] using tree_ind'. intros b s Hw Hb Hp.
  rewrite wf_node in Hw. apply andb_prop in Hw. destruct Hw as [Hw Hwk]. apply andb_prop in Hw. destruct Hw as [Hty Hwr].
  rewrite den_node, spell_node.
  change (opt_bond b ++ (ty, PAtom a) :: ring_tokens rings ++ spell_kids kids)
    with (opt_bond b ++ [(ty, PAtom a)] ++ ring_tokens rings ++ spell_kids kids).
  rewrite app_assoc, loop_app.
  rewrite (op_at_here strong s _ Hp (flat_attach b ty a Hb Hty)). unfold token in *.
  match goal with |- context [map_ok _ (loop strong s ?l)] => destruct (loop strong s l) as [s1|e] eqn:E1 end; cbn [map_ok]; [|reflexivity].
  destruct (attach_shape strong s b ty a s1 Hp Hb Hty E1) as [L1 [P1 S1]].
  rewrite loop_app.
  (* the ring digits at the new atom *)
  assert (R : op_at strong (with_stack s1 []) (ps_n s) (ring_tokens rings) = map_ok (fun s' => with_stack s' []) (loop strong s1 (ring_tokens rings))).
  { unfold op_at. rewrite (at_node_core (with_stack s1 []) s1 (ps_n s) (core_with_stack s1 [])). rewrite <- L1.
    rewrite at_node_self by exact P1. apply loop_frame. apply flat_rings. exact Hwr. }
  rewrite R. match goal with |- context [map_ok _ (loop strong s1 ?l)] => destruct (loop strong s1 l) as [s2|e] eqn:E2 end; cbn [map_ok]; [|reflexivity].
  destruct (rings_shape strong rings s1 s2 P1 Hwr E2) as [L2 [P2 S2]].
  pose proof (sim_kids strong kids IHk s2 (with_stack s2 []) Hwk P2 (eq_sym (core_with_stack s2 []))) as K.
  rewrite L2, L1 in K.
  destruct (den_kids strong (ps_n s) kids (with_stack s2 [])) as [d'|e]; [|exact K].
  destruct K as [s' [L' [C' [S' P']]]]. exists s'. repeat split; [exact L' | exact C' | congruence | exact P'].
Qed.

(* ------------------------------------------------------------------------------------------------ the theorem *)
Lemma finish_core s : ps_stack s = [] -> ps_prev s = None -> finish s = finish (core s).
Proof. destruct s. cbn. intros -> ->. reflexivity. Qed.

(* parser(spell t) returns exactly the record the tree denotes - or raises exactly when the denotation is undefined (an unclosed
   or mismatched ring digit, a bond before a ring digit after a dot, ...) *)
Theorem read_spell_denote strong t : wf_tree t = true -> parse (spell t) strong = denote strong t.
Proof.
  intros Hw. pose proof (sim_all strong t None p_init Hw eq_refl eq_refl) as S. cbn [opt_bond app ps_last p_init] in S.
  unfold parse, denote.
  assert (G : guard (spell t) = Ok tt).
  { destruct t as [ty a rings kids]. rewrite wf_node in Hw. apply andb_prop in Hw. destruct Hw as [Hw _]. apply andb_prop in Hw.
    destruct Hw as [Hty _]. rewrite spell_node. unfold guard. destruct (atom_ty ty Hty) as [A2 _]. rewrite A2, Hty. reflexivity. }
  rewrite G. destruct (den strong t 0 None p_init) as [d|e]; [|rewrite S; reflexivity].
  destruct S as [s' [L [C [St P]]]]. rewrite L. rewrite (finish_core s' St P). unfold core in *. rewrite C. reflexivity.
Qed.

(* non-vacuity: a tree with a branch, a ring, a dot and an explicit bond; and one whose ring digit is never closed *)
Example read_spell_denote_example :
  let C := simple_atom "C" in
  let t := Node 0 C [(None, 1)] [(Some (1, PInt 2), Node 0 (simple_atom "O") [] []);
                                 (None, Node 8 C [] [(None, Node 8 C [(Some (9, PBool true), 1)] [(Some (4, PNone), Node 0 C [] [])])])] in
  wf_tree t = true /\ (exists p, denote true t = Ok p /\ List.length (p_atoms p) = 5%nat /\ List.length (p_bonds p) = 4%nat) /\
  denote true (Node 0 C [(None, 1)] []) = Err IncorrectSmiles.
Proof. cbn zeta. split; [reflexivity|]. split; [eexists; split; [vm_compute; reflexivity | split; reflexivity] | vm_compute; reflexivity]. Qed.
