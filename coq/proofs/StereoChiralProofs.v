(* C12 extension 3: theorems about the model of __chiral_centers (Model.StereoChiral).
   1. for molecules without rings the chiral centres are EXACTLY: stereogenic tetrahedrons whose listed neighbours have pairwise
      different classes; registered cumulenes whose two ends each have substituents of different classes (a missing second
      substituent counts as class 0) -- minus the labelled ones;
   2. (all molecules) every chiral tetrahedron is a stereogenic tetrahedron without label, every chiral cis/trans entry is the
      terminal pair of a registered path whose central bond has no label;
   3. (no rings) chirality is monotone under refinement of the classes: this discharges the hypothesis of C12_fix_stereo_spec up to
      "restoring a label only refines the classes" (C01: Model.ChiralMorgan). *)
From Coq Require Import ZArith List Bool Lia.
From Model Require Import PyBase Graph Stereo StereoRegistry StereoFix StereoChiral.
From Proofs Require Import StereoRegistryProofs StereoFixProofs.
Import ListNotations.
Open Scope Z_scope.

Lemma sadd_In x y l : In y (sadd x l) <-> y = x \/ In y l.
Proof.
  unfold sadd. destruct (zmem x l) eqn:E.
  - split; [intros H; right; exact H|]. intros [->|H]; [apply zmem_In; exact E | exact H].
  - rewrite in_app_iff. cbn [In]. split; [intros [H|[H|[]]]; [right; exact H | left; symmetry; exact H]|].
    intros [->|H]; [right; left; reflexivity | left; exact H].
Qed.

Lemma flat_map_nil {A B} (f : A -> list B) l : (forall x, In x l -> f x = []) -> flat_map f l = [].
Proof. induction l as [|x l IH]; intros H; cbn; [reflexivity|]. rewrite (H x (or_introl eq_refl)), IH; [reflexivity|]. intros y Hy. apply H. right. exact Hy. Qed.

Section Acyclic.
  Variable g : mol.
  Variable r : registries.
  Variable w : Z -> Z.

  Definition ends_distinct (e : env4) : bool :=
    let '(n1, m1, n2, m2) := e in negb (w n1 =? wo w n2) && negb (w m1 =? wo w m2).

  Definition cum_step (s : cstate) (pe : list Z * env4) : cstate :=
    let p := fst pe in let '(n1, m1, n2, m2) := snd pe in
    if negb (w n1 =? wo w n2) && negb (w m1 =? wo w m2) then
      let '(n, m) := ends p in
      let s1 := if odd_len p then mkCs (c_t s) (c_c s) (sadd (centre_of p) (c_a s)) (c_sg s) (c_graph s) (c_pseudo s)
                else mkCs (c_t s) (sadd n (c_c s)) (c_a s) (c_sg s) (c_graph s) (c_pseudo s) in
      mkCs (c_t s1) (c_c s1) (c_a s1) (sadd m (sadd n (c_sg s1))) (c_graph s1) (c_pseudo s1)
    else s.

  Lemma step_cum_fold s : step_cum r w s = fold_left cum_step (r_sg_cum r) s.
  Proof. reflexivity. Qed.

  Lemma cum_step_cases s pe :
    (ends_distinct (snd pe) = false /\ cum_step s pe = s) \/
    (ends_distinct (snd pe) = true /\ odd_len (fst pe) = true /\ c_t (cum_step s pe) = c_t s /\ c_c (cum_step s pe) = c_c s /\
       c_a (cum_step s pe) = sadd (centre_of (fst pe)) (c_a s) /\ c_graph (cum_step s pe) = c_graph s) \/
    (ends_distinct (snd pe) = true /\ odd_len (fst pe) = false /\ c_t (cum_step s pe) = c_t s /\
       c_c (cum_step s pe) = sadd (first_z (fst pe)) (c_c s) /\ c_a (cum_step s pe) = c_a s /\ c_graph (cum_step s pe) = c_graph s).
  Proof.
    destruct pe as [p [[[n1 m1] n2] m2]]. unfold cum_step, ends_distinct, ends. cbn [fst snd].
    destruct (negb (w n1 =? wo w n2) && negb (w m1 =? wo w m2)); [|left; tauto].
    destruct (odd_len p); [right; left | right; right]; cbn; tauto.
  Qed.

  Lemma fold_cum_spec : forall l s,
    let s' := fold_left cum_step l s in
    c_t s' = c_t s /\ c_graph s' = c_graph s /\
    (forall n, In n (c_c s') <-> In n (c_c s) \/ exists pe, In pe l /\ ends_distinct (snd pe) = true /\ odd_len (fst pe) = false /\ n = first_z (fst pe)) /\
    (forall c, In c (c_a s') <-> In c (c_a s) \/ exists pe, In pe l /\ ends_distinct (snd pe) = true /\ odd_len (fst pe) = true /\ c = centre_of (fst pe)).
  Proof.
    induction l as [|pe l IH]; intros s; cbn [fold_left].
    - split; [reflexivity|]. split; [reflexivity|]. split; intros x; (split; [intros H; left; exact H | intros [H|[pe [[] _]]]; exact H]).
    - specialize (IH (cum_step s pe)). cbv zeta in *. destruct IH as (I1 & I2 & I3 & I4).
      destruct (cum_step_cases s pe) as [[Hd E]|[(Hd & Ho & E1 & E2 & E3 & E4)|(Hd & Ho & E1 & E2 & E3 & E4)]].
      + rewrite E in *. split; [assumption|]. split; [assumption|]. split.
        * intros n. rewrite I3. split; [intros [H|(q & Hq & A)]; [tauto | right; exists q; cbn; tauto]|].
          intros [H|(q & [<-|Hq] & A & B)]; [tauto | congruence | right; exists q; tauto].
        * intros c. rewrite I4. split; [intros [H|(q & Hq & A)]; [tauto | right; exists q; cbn; tauto]|].
          intros [H|(q & [<-|Hq] & A & B)]; [tauto | congruence | right; exists q; tauto].
      + split; [congruence|]. split; [congruence|]. split.
        * intros n. rewrite I3, E2. split; [intros [H|(q & Hq & A)]; [tauto | right; exists q; cbn; tauto]|].
          intros [H|(q & [<-|Hq] & A & B & C)]; [tauto | congruence | right; exists q; tauto].
        * intros c. rewrite I4, E3, sadd_In. split.
          -- intros [[->|H]|(q & Hq & A)]; [right; exists pe; cbn; tauto | tauto | right; exists q; cbn; tauto].
          -- intros [H|(q & [<-|Hq] & A & B & C)]; [tauto | tauto | right; exists q; tauto].
      + split; [congruence|]. split; [congruence|]. split.
        * intros n. rewrite I3, E2, sadd_In. split.
          -- intros [[->|H]|(q & Hq & A)]; [right; exists pe; cbn; tauto | tauto | right; exists q; cbn; tauto].
          -- intros [H|(q & [<-|Hq] & A & B & C)]; [tauto | tauto | right; exists q; tauto].
        * intros c. rewrite I4, E3. split; [intros [H|(q & Hq & A)]; [tauto | right; exists q; cbn; tauto]|].
          intros [H|(q & [<-|Hq] & A & B & C)]; [tauto | congruence | right; exists q; tauto].
  Qed.

  (* without rings nothing but the two direct tests remains *)
  Lemma acyclic_final : final_state g r [] w = Ok (fold_left cum_step (r_sg_cum r) (step_tetra r [] w)).
  Proof.
    unfold final_state, pre_graph_state.
    assert (E1 : ring_cum_terms r [] = []).
    { unfold ring_cum_terms. apply flat_map_nil. intros pe _. destruct (ends (fst pe)). reflexivity. }
    assert (E2 : rl_cum_terms r [] = []).
    { unfold rl_cum_terms. apply flat_map_nil. intros pe _. destruct (ends (fst pe)). reflexivity. }
    assert (E3 : ring_attached r [] = []).
    { unfold ring_attached. apply flat_map_nil. intros pe _. destruct (ends (fst pe)). destruct (snd pe) as [[[? ?] ?] ?]. reflexivity. }
    unfold step_ring_cum, step_axes. rewrite E1, E2, E3. cbn [fold_left rl_th ring_th flat_map].
    rewrite step_cum_fold. unfold step_graph.
    destruct (fold_cum_spec (r_sg_cum r) (step_tetra r [] w)) as (_ & G & _). cbv zeta in G. rewrite G. reflexivity.
  Qed.

  Definition acyclic_state : cstate := fold_left cum_step (r_sg_cum r) (step_tetra r [] w).

  Theorem acyclic_chiral_tetrahedrons n :
    In n (c_t acyclic_state) <-> exists env, In (n, env) (r_sg_th r) /\ distinct_classes w env = true.
  Proof.
    unfold acyclic_state. destruct (fold_cum_spec (r_sg_cum r) (step_tetra r [] w)) as (T & _). cbv zeta in T. rewrite T.
    unfold step_tetra. cbn [rl_th flat_map fold_left c_t]. rewrite in_map_iff. split.
    - intros [[n' env] [E H]]. cbn in E. subst n'. apply filter_In in H. exists env. exact H.
    - intros [env H]. exists (n, env). split; [reflexivity | apply filter_In; exact H].
  Qed.

  Theorem acyclic_chiral_cumulenes :
    (forall n, In n (c_c acyclic_state) <->
       exists pe, In pe (r_sg_cum r) /\ ends_distinct (snd pe) = true /\ odd_len (fst pe) = false /\ n = first_z (fst pe)) /\
    (forall c, In c (c_a acyclic_state) <->
       exists pe, In pe (r_sg_cum r) /\ ends_distinct (snd pe) = true /\ odd_len (fst pe) = true /\ c = centre_of (fst pe)).
  Proof.
    unfold acyclic_state. destruct (fold_cum_spec (r_sg_cum r) (step_tetra r [] w)) as (_ & _ & C & A). cbv zeta in C, A.
    split; [intros n; rewrite C | intros c; rewrite A]; unfold step_tetra; cbn; tauto.
  Qed.
End Acyclic.

(* ---------- monotone under refinement of the classes (no rings) ---------- *)
Section Mono.
  Variable g : mol.
  Variable r : registries.
  Variable w w' : Z -> Z.
  Hypothesis refine : forall x y, w x <> w y -> w' x <> w' y.
  Hypothesis nonzero : forall x, w x <> 0 -> w' x <> 0.

  Lemma distinct_classes_mono env : distinct_classes w env = true -> distinct_classes w' env = true.
  Proof.
    induction env as [|x l IH]; cbn; [reflexivity|]. intros H. apply andb_prop in H. destruct H as [H1 H2].
    rewrite (IH H2), andb_true_r. apply negb_true_iff in H1. apply negb_true_iff.
    apply not_true_is_false. intros E. apply existsb_exists in E. destruct E as (y & Hy & E). apply Z.eqb_eq in E.
    assert (F : existsb (fun y => w y =? w x) l = true); [|congruence].
    apply existsb_exists. exists y. split; [exact Hy|]. apply Z.eqb_eq.
    destruct (Z.eq_dec (w y) (w x)) as [e|ne]; [exact e | exfalso; apply (refine y x ne E)].
  Qed.

  Lemma ends_distinct_mono e : ends_distinct w e = true -> ends_distinct w' e = true.
  Proof.
    destruct e as [[[n1 m1] n2] m2]. unfold ends_distinct. intros H. apply andb_prop in H. destruct H as [H1 H2].
    apply negb_true_iff, Z.eqb_neq in H1, H2. apply andb_true_intro. split; apply negb_true_iff, Z.eqb_neq.
    - destruct n2 as [y|]; cbn [wo] in *; [apply refine; exact H1 | apply nonzero; exact H1].
    - destruct m2 as [y|]; cbn [wo] in *; [apply refine; exact H2 | apply nonzero; exact H2].
  Qed.

  Theorem acyclic_chiral_mono :
    (forall n, In n (c_t (acyclic_state r w)) -> In n (c_t (acyclic_state r w'))) /\
    (forall n, In n (c_c (acyclic_state r w)) -> In n (c_c (acyclic_state r w'))) /\
    (forall c, In c (c_a (acyclic_state r w)) -> In c (c_a (acyclic_state r w'))).
  Proof.
    split; [|split].
    - intros n. rewrite !acyclic_chiral_tetrahedrons. intros [env [H D]]. exists env. split; [exact H | apply distinct_classes_mono; exact D].
    - intros n. rewrite (proj1 (acyclic_chiral_cumulenes r w)), (proj1 (acyclic_chiral_cumulenes r w')).
      intros (pe & H & D & R). exists pe. split; [exact H|]. split; [apply ends_distinct_mono; exact D | exact R].
    - intros c. rewrite (proj2 (acyclic_chiral_cumulenes r w)), (proj2 (acyclic_chiral_cumulenes r w')).
      intros (pe & H & D & R). exists pe. split; [exact H|]. split; [apply ends_distinct_mono; exact D | exact R].
  Qed.
End Mono.

(* ---------- all molecules: chiral centres are registered centres without label ---------- *)
Section Sound.
  Variable g : mol.
  Variable r : registries.
  Variable ar : list (Z * list (list Z)).
  Variable w : Z -> Z.

  Lemma fold_keep {A B} (f : A -> B -> A) (P : A -> Prop) l : (forall s x, P s -> P (f s x)) -> forall s, P s -> P (fold_left f l s).
  Proof. intros H. induction l as [|x l IH]; intros s Hs; cbn; [exact Hs | apply IH, H, Hs]. Qed.

  Definition t_ok (s : cstate) : Prop := forall n, In n (c_t s) -> In n (keys (r_sg_th r)).

  Lemma rl_th_keys n e : In (n, e) (rl_th r ar) -> In n (keys (r_sg_th r)).
  Proof.
    unfold rl_th. rewrite in_flat_map. intros [[k rs] [_ H]]. unfold linker_entry in H. cbn [fst] in H.
    destruct (zmem k (keys (r_sg_th r))) eqn:E; [|destruct H].
    destruct (find _ (pairs2 (rings_of ar k))) as [[nr mr]|]; [|destruct H]. destruct H as [H|[]]. injection H as <- _.
    apply zmem_In. exact E.
  Qed.

  Lemma step_tetra_ok : t_ok (step_tetra r ar w).
  Proof.
    unfold step_tetra, t_ok. cbn [c_t].
    assert (H0 : forall n, In n (map fst (filter (fun ne => distinct_classes w (snd ne)) (r_sg_th r))) -> In n (keys (r_sg_th r))).
    { intros n H. apply in_map_iff in H. destruct H as [[n' e] [E H]]. cbn in E. subst n'. apply filter_In in H.
      unfold keys. apply in_map_iff. exists (n, e). tauto. }
    revert H0. generalize (map fst (filter (fun ne => distinct_classes w (snd ne)) (r_sg_th r))).
    assert (Hk : forall n e, In (n, e) (rl_th r ar) -> In n (keys (r_sg_th r))) by apply rl_th_keys.
    revert Hk. generalize (rl_th r ar). intros l. induction l as [|[n [[[n1 n2] m1] m2]] l IH]; intros Hk t0 H0; cbn [fold_left]; [exact H0|].
    apply IH; [intros k e Hke; apply (Hk k e); right; exact Hke|].
    destruct (negb (w n1 =? w n2) && negb (w m1 =? w m2)); [|exact H0].
    intros k Hkin. apply sadd_In in Hkin. destruct Hkin as [->|Hkin]; [apply (Hk n (n1, n2, m1, m2)); left; reflexivity | apply H0; exact Hkin].
  Qed.

  Lemma step_cum_t s : c_t (step_cum r w s) = c_t s.
  Proof. rewrite step_cum_fold. apply (fold_cum_spec w (r_sg_cum r) s). Qed.

  Lemma step_ring_cum_t s : c_t (step_ring_cum r ar s) = c_t s.
  Proof.
    unfold step_ring_cum. apply (fold_keep _ (fun s' => c_t s' = c_t s)); [|reflexivity].
    intros s' [n m] H.
    destruct (existsb (fun x => Z.of_nat (List.length x) <? 8) (rings_of ar n)).
    - destruct (zmem m (sdiscard n (c_c s'))); [exact H|]. destruct (al_center r n); exact H.
    - destruct (pair_mem (n, m) (keys (r_sg_ct r))); [exact H|]. destruct (al_center r n); exact H.
  Qed.

  Lemma step_axes_t s : c_t (step_axes g r ar w s) = c_t s.
  Proof.
    unfold step_axes.
    apply (fold_keep _ (fun s' => c_t s' = c_t s)).
    { intros s' [[n m] env] H. cbn [fst snd]. destruct (same2 w env); [exact H|]. destruct (in_ring ar n); exact H. }
    apply (fold_keep _ (fun s' => c_t s' = c_t s)).
    { intros s' [n m] H. exact H. }
    apply (fold_keep _ (fun s' => c_t s' = c_t s)).
    { intros s' [n [[[n1 n2] m1] m2]] H. exact H. }
    apply (fold_keep _ (fun s' => c_t s' = c_t s)); [|reflexivity].
    intros s' [n env] H. cbn [fst snd]. destruct (same2 w env); exact H.
  Qed.

  Lemma pre_graph_ok : t_ok (pre_graph_state g r ar w).
  Proof.
    unfold pre_graph_state, t_ok. rewrite step_axes_t, step_ring_cum_t, step_cum_t. apply step_tetra_ok.
  Qed.

  Lemma step_graph_ok s s' : t_ok s -> step_graph r ar s = Ok s' -> t_ok s'.
  Proof.
    intros H. unfold step_graph. destruct (1 <? Z.of_nat (List.length (c_graph s))); [|intros E; injection E as <-; exact H].
    destruct (prune _ _ _) as [gr|e]; [|discriminate]. intros E. injection E as <-.
    apply (fold_keep _ t_ok); [|exact H].
    intros s0 n H0. destruct (zmem n (keys (r_sg_th r))) eqn:Ez.
    - intros k Hk. cbn [c_t] in Hk. apply sadd_In in Hk. destruct Hk as [->|Hk]; [apply zmem_In; exact Ez | apply H0; exact Hk].
    - destruct (al_center r n); exact H0.
  Qed.

  Lemma cc_fold_only_CC : forall l acc res, (forall c, In c acc -> exists a b n ij, c = CC a b /\ zget (r_ct_terminals r) n = Some (a, b) /\
                                                   zget (r_ct_centers r) n = Some ij /\ bond_labelled g ij = false) ->
    fold_left (fun acc n =>
                match acc with
                | Err e => Err e
                | Ok l => match zget (r_ct_centers r) n, zget (r_ct_terminals r) n with
                          | Some ij, Some ab => Ok (if bond_labelled g ij then l else
                                                    if existsb (centre_eqb (CC (fst ab) (snd ab))) l then l else l ++ [CC (fst ab) (snd ab)])
                          | _, _ => Err KeyError
                          end
                end) l (Ok acc) = Ok res ->
    forall c, In c res -> exists a b n ij, c = CC a b /\ zget (r_ct_terminals r) n = Some (a, b) /\
                                           zget (r_ct_centers r) n = Some ij /\ bond_labelled g ij = false.
  Proof.
    induction l as [|n l IH]; intros acc res Hacc; cbn [fold_left]; [intros E; injection E as <-; exact Hacc|].
    destruct (zget (r_ct_centers r) n) as [ij|] eqn:E1.
    2:{ intros E. exfalso. clear -E. induction l as [|x l IHl]; cbn in E; [discriminate | apply IHl; exact E]. }
    destruct (zget (r_ct_terminals r) n) as [[a b]|] eqn:E2.
    2:{ intros E. exfalso. clear -E. induction l as [|x l IHl]; cbn in E; [discriminate | apply IHl; exact E]. }
    apply IH. cbn [fst snd]. destruct (bond_labelled g ij) eqn:Eb; [exact Hacc|].
    destruct (existsb (centre_eqb (CC a b)) acc); [exact Hacc|].
    intros c Hc. apply in_app_or in Hc. destruct Hc as [Hc|[<-|[]]]; [apply Hacc; exact Hc|]. exists a, b, n, ij. tauto.
  Qed.

  Theorem chiral_centres_sound l : chiral_centres g r ar w = Ok l ->
    (forall n, In (CT n) l -> In n (keys (r_sg_th r)) /\ labelled g n = false) /\
    (forall a b, In (CC a b) l -> exists n ij, zget (r_ct_terminals r) n = Some (a, b) /\ zget (r_ct_centers r) n = Some ij /\
                                               bond_labelled g ij = false) /\
    (forall c, In (CA c) l -> labelled g c = false).
  Proof.
    unfold chiral_centres. destruct (final_state g r ar w) as [s|e] eqn:Ef; [|discriminate].
    pose proof (step_graph_ok _ _ pre_graph_ok Ef) as Ht.
    unfold centres_of_state.
    match goal with |- match ?F with _ => _ end = _ -> _ => destruct F as [cs|e] eqn:Ec end; [|discriminate].
    intros E. injection E as <-.
    pose proof (cc_fold_only_CC (c_c s) [] cs (fun c H => match H with end) Ec) as Hcc.
    split; [|split].
    - intros n H. apply in_app_or in H. destruct H as [H|H].
      + apply in_map_iff in H. destruct H as (k & E & H). injection E as ->. apply filter_In in H. destruct H as [H1 H2].
        split; [apply Ht; exact H1 | apply negb_true_iff in H2; exact H2].
      + apply in_app_or in H. destruct H as [H|H].
        * destruct (Hcc _ H) as (a & b & _ & _ & E & _). discriminate.
        * apply in_map_iff in H. destruct H as (k & E & _). discriminate.
    - intros a b H. apply in_app_or in H. destruct H as [H|H].
      + apply in_map_iff in H. destruct H as (k & E & _). discriminate.
      + apply in_app_or in H. destruct H as [H|H].
        * destruct (Hcc _ H) as (a' & b' & n & ij & E & H1 & H2 & H3). injection E as -> ->. exists n, ij. tauto.
        * apply in_map_iff in H. destruct H as (k & E & _). discriminate.
    - intros c H. apply in_app_or in H. destruct H as [H|H].
      + apply in_map_iff in H. destruct H as (k & E & _). discriminate.
      + apply in_app_or in H. destruct H as [H|H].
        * destruct (Hcc _ H) as (a & b & _ & _ & E & _). discriminate.
        * apply in_map_iff in H. destruct H as (k & E & H). injection E as ->. apply filter_In in H. destruct H as [_ H2].
          apply negb_true_iff in H2. exact H2.
  Qed.
End Sound.

(* ---------- non-vacuity: the pseudo-asymmetric triol CC(O)C(F)C(O)C with classes that tell the two ends apart / do not ---------- *)
Definition ex_triol : mol :=
  mkMol [(1, mkAtom 6 None 0 false (Some 3) None); (2, mkAtom 6 None 0 false (Some 1) None); (3, mkAtom 8 None 0 false (Some 1) None);
         (4, mkAtom 6 None 0 false (Some 1) None); (5, mkAtom 9 None 0 false (Some 0) None); (6, mkAtom 6 None 0 false (Some 1) None);
         (7, mkAtom 8 None 0 false (Some 1) None); (8, mkAtom 6 None 0 false (Some 3) None)]
        [(1, [(2, mkBond 1 None)]); (2, [(1, mkBond 1 None); (3, mkBond 1 None); (4, mkBond 1 None)]); (3, [(2, mkBond 1 None)]);
         (4, [(2, mkBond 1 None); (5, mkBond 1 None); (6, mkBond 1 None)]); (5, [(4, mkBond 1 None)]);
         (6, [(4, mkBond 1 None); (7, mkBond 1 None); (8, mkBond 1 None)]); (7, [(6, mkBond 1 None)]); (8, [(6, mkBond 1 None)])].
(* symmetric classes: 1=8, 2=6, 3=7 ; refined classes: all different *)
Definition ex_w_sym (x : Z) : Z := if x =? 8 then 1 else if x =? 6 then 2 else if x =? 7 then 3 else x.
Definition ex_w_ref (x : Z) : Z := x.

Theorem chiral_example :
  (exists r, registries_real ex_triol = Ok r /\
     chiral_centres ex_triol r [] ex_w_sym = Ok [CT 2; CT 6] /\ chiral_centres ex_triol r [] ex_w_ref = Ok [CT 2; CT 4; CT 6]) /\
  (forall x y, ex_w_sym x <> ex_w_sym y -> ex_w_ref x <> ex_w_ref y).
Proof.
  split.
  - eexists. split; [vm_compute; reflexivity|]. split; vm_compute; reflexivity.
  - unfold ex_w_ref. intros x y H E. subst. apply H. reflexivity.
Qed.

(* ---------- fix_stereo with the chirality MODEL in place of the parameter (molecules without rings) ---------- *)
Section FixAcyclic.
  Variable r : registries.
  (* the classes of _chiral_morgan as a function of the labels present: the only remaining parameter (C01: Model.ChiralMorgan) *)
  Variable W : list label -> Z -> Z.
  Hypothesis W_refines : forall R R', incl R R' -> (forall x y, W R x <> W R y -> W R' x <> W R' y) /\ (forall x, W R x <> 0 -> W R' x <> 0).

  Definition chiral_model (R : list label) (c : centre) : bool :=
    negb (existsb (fun l => centre_eqb (fst l) c) R) &&
    match c with
    | CT n => zmem n (c_t (acyclic_state r (W R)))
    | CA n => zmem n (c_a (acyclic_state r (W R)))
    | CC a _ => zmem a (c_c (acyclic_state r (W R)))
    end.

  Lemma chiral_model_mono R R' c : incl R R' -> (forall s, ~ In (c, s) R') -> chiral_model R c = true -> chiral_model R' c = true.
  Proof.
    intros Hi Hn H. unfold chiral_model in *. apply andb_prop in H. destruct H as [_ H]. apply andb_true_intro. split.
    - apply negb_true_iff. apply not_true_is_false. intros E. apply existsb_exists in E. destruct E as ([c' s] & Hl & E).
      cbn [fst] in E. apply centre_eqb_eq in E. subst c'. apply (Hn s Hl).
    - destruct (W_refines R R' Hi) as [F1 F2]. destruct (acyclic_chiral_mono r (W R) (W R') F1 F2) as (M1 & M2 & M3).
      destruct c as [n|n|a b]; apply zmem_In; apply zmem_In in H; [apply M1 | apply M3 | apply M2]; exact H.
  Qed.

  (* a saved label survives fix_stereo iff its centre passes the chirality test of __chiral_centers on the classes computed
     with the labels of the other surviving centres *)
  Theorem fix_stereo_acyclic_spec (saved : list label) : NoDup (map fst saved) ->
    let result := fix_loop chiral_model (S (List.length saved)) [] saved in
    forall cs, In cs saved -> (In cs result <-> chiral_model (others cs result) (fst cs) = true).
  Proof. intros Hn. apply (fix_stereo_spec chiral_model chiral_model_mono saved Hn). Qed.
End FixAcyclic.

(* non-vacuity: classes that do not depend on the labels and separate all atoms (a chiral molecule) satisfy W_refines; on the triol
   all three labels survive, under the symmetric classes the middle one is dropped *)
Definition ex_W_id (_ : list label) (z : Z) : Z := z.
Definition ex_W_sym (_ : list label) (z : Z) : Z := ex_w_sym z.
Definition ex_saved : list label := [(CT 2, true); (CT 4, true); (CT 6, false)].
Theorem fix_acyclic_example :
  (forall (R R' : list label), incl R R' ->
     (forall x y, ex_W_id R x <> ex_W_id R y -> ex_W_id R' x <> ex_W_id R' y) /\ (forall x, ex_W_id R x <> 0 -> ex_W_id R' x <> 0)) /\
  (exists r, registries_real ex_triol = Ok r /\
     (fix_loop (chiral_model r ex_W_id) 4 [] ex_saved = ex_saved) /\
     (fix_loop (chiral_model r ex_W_sym) 4 [] ex_saved = [(CT 2, true); (CT 6, false)])).
Proof.
  split; [intros R R' _; split; intros; assumption|].
  eexists. split; [vm_compute; reflexivity|]. split; vm_compute; reflexivity.
Qed.

(* ---------- labels are kept only on registered (stereogenic) centres: every molecule, every chirality function ---------- *)
Lemma collect_registered r g cs : In cs (collect r g) ->
  match fst cs with
  | CT n => In n (keys (r_sg_th r)) /\ exists a, In (n, a) (m_atoms g) /\ a_stereo a = Some (snd cs)
  | CA n => In n (keys (r_sg_al r)) /\ ~ In n (keys (r_sg_th r)) /\ exists a, In (n, a) (m_atoms g) /\ a_stereo a = Some (snd cs)
  | CC a b => exists n m bd, In (n, m, bd) (bonds_once g) /\ b_stereo bd = Some (snd cs) /\ zget (r_ct_terminals r) n = Some (a, b)
  end.
Proof.
  unfold collect. rewrite !in_app_iff. intros [H|[H|H]].
  - unfold collect_th in H. apply in_flat_map in H. destruct H as ([n a] & Hin & H). cbn [fst snd] in H.
    destruct (a_stereo a) as [s|] eqn:Es; [|destruct H]. destruct (zmem n (keys (r_sg_th r))) eqn:Ez; [|destruct H].
    destruct H as [<-|[]]. cbn [fst snd]. split; [apply zmem_In; exact Ez|]. exists a. tauto.
  - unfold collect_al in H. apply in_flat_map in H. destruct H as ([n a] & Hin & H). cbn [fst snd] in H.
    destruct (a_stereo a) as [s|] eqn:Es; [|destruct H]. destruct (zmem n (keys (r_sg_th r))) eqn:Ez; [destruct H|].
    destruct (zmem n (keys (r_sg_al r))) eqn:Ea; [|destruct H]. destruct H as [<-|[]]. cbn [fst snd].
    split; [apply zmem_In; exact Ea|]. split; [intros Hk; apply zmem_In in Hk; congruence|]. exists a. tauto.
  - unfold collect_ct in H. apply in_flat_map in H. destruct H as ([[n m] bd] & Hin & H). cbn [fst snd] in H.
    destruct (b_stereo bd) as [s|] eqn:Es; [|destruct H]. destruct (zget (r_ct_terminals r) n) as [[a b]|] eqn:Et; [|destruct H].
    destruct H as [<-|[]]. cbn [fst snd]. exists n, m, bd. tauto.
Qed.

Theorem fix_stereo_only_registered (chiral : list label -> centre -> bool) r g cs :
  In cs (fix_stereo_labels chiral r g) ->
  In cs (collect r g) /\
  match fst cs with
  | CT n => In n (keys (r_sg_th r))
  | CA n => In n (keys (r_sg_al r))
  | CC a b => exists n, zget (r_ct_terminals r) n = Some (a, b)
  end.
Proof.
  unfold fix_stereo_labels. destruct (fix_loop_justified chiral (S (List.length (collect r g))) [] (collect r g)) as (kept & E & Hi & _).
  rewrite E. cbn [app]. intros H. pose proof (Hi cs H) as Hc. split; [exact Hc|].
  pose proof (collect_registered r g cs Hc) as R. destruct (fst cs) as [n|n|a b].
  - tauto.
  - tauto.
  - destruct R as (n & m & bd & _ & _ & Ht). exists n. exact Ht.
Qed.

(* ---------- ALL molecules: exactly which tetrahedrons are chiral ---------- *)
Section TetraSpec.
  Variable g : mol.
  Variable r : registries.
  Variable ar : list (Z * list (list Z)).
  Variable w : Z -> Z.

  Lemma fold_sadd_In {E} (P : E -> bool) (key : E -> Z) : forall l t0 n,
    In n (fold_left (fun t e => if P e then sadd (key e) t else t) l t0) <-> In n t0 \/ exists e, In e l /\ P e = true /\ key e = n.
  Proof.
    induction l as [|e l IH]; intros t0 n; cbn [fold_left].
    - split; [tauto | intros [H|[e [[] _]]]; exact H].
    - rewrite IH. destruct (P e) eqn:Ep.
      + rewrite sadd_In. split.
        * intros [[->|H]|[e' [H1 H2]]]; [right; exists e; cbn; tauto | tauto | right; exists e'; cbn; tauto].
        * intros [H|[e' [[<-|H1] [H2 H3]]]]; [tauto | left; left; symmetry; exact H3 | right; exists e'; tauto].
      + split.
        * intros [H|[e' [H1 H2]]]; [tauto | right; exists e'; cbn; tauto].
        * intros [H|[e' [[<-|H1] [H2 H3]]]]; [tauto | congruence | right; exists e'; tauto].
  Qed.

  Definition linker_unsym (e : Z * (Z * Z * Z * Z)) : bool :=
    let '(_, (n1, n2, m1, m2)) := e in negb (w n1 =? w n2) && negb (w m1 =? w m2).

  Lemma step_tetra_c_t n : In n (c_t (step_tetra r ar w)) <->
    (exists env, In (n, env) (r_sg_th r) /\ distinct_classes w env = true) \/
    (exists e, In e (rl_th r ar) /\ linker_unsym e = true /\ fst e = n).
  Proof.
    unfold step_tetra. cbn [c_t].
    assert (E : forall l t0, fold_left (fun t e => let '(n, (n1, n2, m1, m2)) := e in
                            if negb (w n1 =? w n2) && negb (w m1 =? w m2) then sadd n t else t) l t0 =
                            fold_left (fun t (e : Z * (Z * Z * Z * Z)) => if linker_unsym e then sadd (fst e) t else t) l t0).
    { induction l as [|[k [[[a b] c] d]] l IH]; intros t0; cbn [fold_left]; [reflexivity|]. rewrite IH. reflexivity. }
    rewrite E, fold_sadd_In. rewrite in_map_iff. split.
    - intros [[[n' env] [En H]]|H]; [left | right; exact H]. cbn in En. subst n'. apply filter_In in H. exists env. exact H.
    - intros [[env H]|H]; [left; exists (n, env); split; [reflexivity | apply filter_In; exact H] | right; exact H].
  Qed.

  Lemma step_graph_c_t s s' : step_graph r ar s = Ok s' ->
    forall n, In n (c_t s') <-> In n (c_t s) \/
      ((1 <? Z.of_nat (List.length (c_graph s))) = true /\ In n (keys (c_graph s')) /\ In n (keys (r_sg_th r))).
  Proof.
    unfold step_graph. destruct (1 <? Z.of_nat (List.length (c_graph s))) eqn:E1.
    2:{ intros E n. injection E as <-. split; [tauto | intros [H|[H _]]; [exact H | discriminate]]. }
    destruct (prune _ _ _) as [gr|e]; [|discriminate]. intros E. injection E as <-. intros n.
    set (f := fun s0 k => if zmem k (keys (r_sg_th r)) then mkCs (sadd k (c_t s0)) (c_c s0) (c_a s0) (c_sg s0) (c_graph s0) (c_pseudo s0)
                          else match al_center r k with
                               | Some c => mkCs (c_t s0) (c_c s0) (sadd c (c_a s0)) (c_sg s0) (c_graph s0) (c_pseudo s0)
                               | None => mkCs (c_t s0) (sadd k (c_c s0)) (c_a s0) (c_sg s0) (c_graph s0) (c_pseudo s0) end).
    assert (G : forall l s0, c_graph (fold_left f l s0) = c_graph s0 /\
                 (forall k, In k (c_t (fold_left f l s0)) <-> In k (c_t s0) \/ (In k l /\ In k (keys (r_sg_th r))))).
    { induction l as [|k l IH]; intros s0; cbn [fold_left].
      - split; [reflexivity|]. intros k. split; [tauto | intros [H|[[] _]]; exact H].
      - destruct (IH (f s0 k)) as [I1 I2]. split.
        + rewrite I1. unfold f. destruct (zmem k (keys (r_sg_th r))); [reflexivity|]. destruct (al_center r k); reflexivity.
        + intros x. rewrite I2. unfold f. destruct (zmem k (keys (r_sg_th r))) eqn:Ez.
          * cbn [c_t]. rewrite sadd_In. split.
            -- intros [[->|H]|[H1 H2]]; [right; split; [left; reflexivity | apply zmem_In; exact Ez] | tauto | right; split; [right; exact H1 | exact H2]].
            -- intros [H|[[<-|H1] H2]]; [tauto | tauto | right; tauto].
          * assert (Hk : ~ In k (keys (r_sg_th r))) by (intros Hk; apply zmem_In in Hk; congruence).
            destruct (al_center r k); cbn [c_t]; (split; [intros [H|[H1 H2]]; [tauto | right; split; [right; exact H1 | exact H2]]|
              intros [H|[[<-|H1] H2]]; [tauto | contradiction | right; tauto]]). }
    destruct (G (keys gr) (mkCs (c_t s) (c_c s) (c_a s) (c_sg s) gr (c_pseudo s))) as [G1 G2].
    rewrite G2, G1. cbn [c_t c_graph]. tauto.
  Qed.

  (* a tetrahedron is chiral (before labelled ones are removed) iff
     (a) its listed neighbours have pairwise different classes, or
     (b) it links two rings and in BOTH rings its two ring neighbours have different classes, or
     (c) it is a stereogenic tetrahedron that stays in the axes graph after pruning *)
  Theorem chiral_tetrahedrons_spec s : final_state g r ar w = Ok s -> forall n,
    In n (c_t s) <->
      (exists env, In (n, env) (r_sg_th r) /\ distinct_classes w env = true) \/
      (exists n1 n2 m1 m2, In (n, (n1, n2, m1, m2)) (rl_th r ar) /\ w n1 <> w n2 /\ w m1 <> w m2) \/
      ((1 <? Z.of_nat (List.length (c_graph (pre_graph_state g r ar w)))) = true /\ In n (keys (c_graph s)) /\ In n (keys (r_sg_th r))).
  Proof.
    unfold final_state. intros Ef n. rewrite (step_graph_c_t _ _ Ef n).
    unfold pre_graph_state at 1. rewrite step_axes_t, step_ring_cum_t, step_cum_t, step_tetra_c_t.
    split.
    - intros [[H|(e & He & Hu & Hf)]|H]; [left; exact H | right; left | right; right; exact H].
      destruct e as [k [[[n1 n2] m1] m2]]. cbn in Hf. subst k. unfold linker_unsym in Hu. apply andb_prop in Hu. destruct Hu as [U1 U2].
      apply negb_true_iff, Z.eqb_neq in U1, U2. exists n1, n2, m1, m2. tauto.
    - intros [H|[(n1 & n2 & m1 & m2 & He & U1 & U2)|H]]; [left; left; exact H | left; right | right; exact H].
      exists (n, (n1, n2, m1, m2)). split; [exact He|]. split; [|reflexivity].
      unfold linker_unsym. apply Z.eqb_neq in U1, U2. rewrite U1, U2. reflexivity.
  Qed.
End TetraSpec.

(* non-vacuity with rings: the spiro atom 3 of C1CC12CCO2 links a symmetric ring (classes of 1 and 2 equal) and an unsymmetric one:
   not chiral (BOTH rings must be unsymmetric); with classes that separate 1 and 2 it is *)
Definition ex_spiro : mol :=
  mkMol [(1, (mkAtom 6 None 0 false (Some 2) None)); (2, (mkAtom 6 None 0 false (Some 2) None)); (3, (mkAtom 6 None 0 false (Some 0) None));
         (4, (mkAtom 6 None 0 false (Some 2) None)); (5, (mkAtom 6 None 0 false (Some 2) None)); (6, (mkAtom 8 None 0 false (Some 0) None))]
        [(1, [(2, (mkBond 1 None)); (3, (mkBond 1 None))]); (2, [(1, (mkBond 1 None)); (3, (mkBond 1 None))]);
         (3, [(2, (mkBond 1 None)); (1, (mkBond 1 None)); (4, (mkBond 1 None)); (6, (mkBond 1 None))]);
         (4, [(3, (mkBond 1 None)); (5, (mkBond 1 None))]); (5, [(4, (mkBond 1 None)); (6, (mkBond 1 None))]);
         (6, [(5, (mkBond 1 None)); (3, (mkBond 1 None))])].
Definition ex_spiro_ar : list (Z * list (list Z)) :=
  [(1, [[1; 2; 3]]); (2, [[1; 2; 3]]); (3, [[1; 2; 3]; [3; 4; 5; 6]]); (4, [[3; 4; 5; 6]]); (5, [[3; 4; 5; 6]]); (6, [[3; 4; 5; 6]])].
Definition ex_spiro_w (x : Z) : Z := match zget [(1, 1); (2, 1); (4, 2); (5, 3); (3, 4); (6, 5)] x with Some v => v | None => 0 end.

Theorem chiral_spiro_example :
  exists r, registries_real ex_spiro = Ok r /\ rl_th r ex_spiro_ar = [(3, (2, 1, 6, 4))] /\
    chiral_centres ex_spiro r ex_spiro_ar ex_spiro_w = Ok [] /\
    chiral_centres ex_spiro r ex_spiro_ar (fun x => x) = Ok [CT 3].
Proof. eexists. split; [vm_compute; reflexivity|]. repeat split; vm_compute; reflexivity. Qed.

(* ---------- no rings: chirality is equivariant under injective renumbering (classes carried along) ---------- *)
Section AcyclicEquivariant.
  Variable s : Z -> Z.
  Hypothesis s_inj : forall x y, s x = s y -> x = y.
  Variable r : registries.
  Variable w w' : Z -> Z.
  Hypothesis w_s : forall x, w' (s x) = w x.
  Hypothesis Hlen : len2 (r_sg_cum r).

  Lemma distinct_classes_rn env : distinct_classes w' (map s env) = distinct_classes w env.
  Proof.
    induction env as [|x l IH]; [reflexivity|]. cbn [map distinct_classes]. rewrite IH. f_equal. f_equal.
    rewrite existsb_map. apply existsb_ext. intros y. rewrite !w_s. reflexivity.
  Qed.

  Lemma ends_distinct_rn e : ends_distinct w' (rn_env s e) = ends_distinct w e.
  Proof.
    destruct e as [[[n1 m1] n2] m2]. unfold ends_distinct, rn_env. rewrite !w_s.
    destruct n2 as [a|], m2 as [b|]; cbn [option_map wo]; rewrite ?w_s; reflexivity.
  Qed.

  Theorem acyclic_chiral_equivariant :
    (forall n, In (s n) (c_t (acyclic_state (rn_reg s r) w')) <-> In n (c_t (acyclic_state r w))) /\
    (forall n, In (s n) (c_c (acyclic_state (rn_reg s r) w')) <-> In n (c_c (acyclic_state r w))) /\
    (forall c, In (s c) (c_a (acyclic_state (rn_reg s r) w')) <-> In c (c_a (acyclic_state r w))).
  Proof.
    split; [|split].
    - intros n. rewrite !acyclic_chiral_tetrahedrons. cbn [rn_reg r_sg_th]. split.
      + intros [env' [H D]]. apply in_map_iff in H. destruct H as ([k env] & E & H). cbn [fst snd] in E. injection E as Ek <-.
        apply s_inj in Ek. subst k. exists env. split; [exact H | rewrite <- distinct_classes_rn; exact D].
      + intros [env [H D]]. exists (map s env). split; [|rewrite distinct_classes_rn; exact D].
        apply in_map_iff. exists (n, env). split; [reflexivity | exact H].
    - intros n. rewrite (proj1 (acyclic_chiral_cumulenes (rn_reg s r) w')), (proj1 (acyclic_chiral_cumulenes r w)). cbn [rn_reg r_sg_cum]. split.
      + intros (pe' & H & D & O & E). apply in_map_iff in H. destruct H as (pe & <- & H). cbn [fst snd] in *.
        exists pe. rewrite ends_distinct_rn in D. rewrite odd_len_rn in O. rewrite first_z_rn in E by (apply Hlen; exact H).
        apply s_inj in E. tauto.
      + intros (pe & H & D & O & E). exists (map s (fst pe), rn_env s (snd pe)). cbn [fst snd].
        split; [apply in_map_iff; exists pe; split; [reflexivity | exact H]|]. rewrite ends_distinct_rn, odd_len_rn, first_z_rn by (apply Hlen; exact H).
        subst n. tauto.
    - intros c. rewrite (proj2 (acyclic_chiral_cumulenes (rn_reg s r) w')), (proj2 (acyclic_chiral_cumulenes r w)). cbn [rn_reg r_sg_cum]. split.
      + intros (pe' & H & D & O & E). apply in_map_iff in H. destruct H as (pe & <- & H). cbn [fst snd] in *.
        exists pe. rewrite ends_distinct_rn in D. rewrite odd_len_rn in O. rewrite centre_of_rn in E by (apply Hlen; exact H).
        apply s_inj in E. tauto.
      + intros (pe & H & D & O & E). exists (map s (fst pe), rn_env s (snd pe)). cbn [fst snd].
        split; [apply in_map_iff; exists pe; split; [reflexivity | exact H]|]. rewrite ends_distinct_rn, odd_len_rn, centre_of_rn by (apply Hlen; exact H).
        subst c. tauto.
  Qed.
End AcyclicEquivariant.
