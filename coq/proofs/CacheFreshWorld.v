(* C13 -- the freshness invariant at world level: outside a transaction, after every operation, every stored hydrogen count is the
   snapshot of the atom's current environment and every label that of its current neighbourhood. *)
From Coq Require Import ZArith List Bool Lia.
From Model Require Import PyBase Cache.
From Proofs Require Import CacheProofs CacheWf CacheCopy CacheCoh CacheWorld CacheUnion CacheTheorems CacheUsable CacheExamples CacheTxn
  CacheFresh CacheFreshOps.
Import ListNotations.
Open Scope Z_scope.

Definition FW (s : state) : Prop := W s /\ Forall (Fr (s_heap s)) (units s).

(* the contract of the freshness theorem: setters only inside a transaction; no copy() of the intermediate state of an open
   transaction (substructures are fine: everything in them is recalculated); union, split and the patch step of Standardize
   are not covered (_partial) *)
Definition in_txn (o : mobj) : Prop := o_backup o <> None.
Definition fop_ok (s : state) (p : op) : Prop :=
  match p with
  | OSetCharge _ _ | OSetRadical _ _ => in_txn (s_cur s)
  | OCopy => o_backup (s_cur s) = None
  | OUnion _ _ => False
  | OPatch _ _ _ _ => False
  | OSplit => False
  | OSubH _ => False
  | _ => True
  end.

(* units other than the current molecule keep their freshness when only bond objects of the current molecule (or new ones) change *)
Lemma rest_fresh s h' : W s -> Forall (Fr (s_heap s)) (units s) ->
  h_next (s_heap s) <= h_next h' ->
  (forall r, r < h_next (s_heap s) -> ~ In r (arefs (o_adj (s_cur s))) -> hget h' r = hget (s_heap s) r) ->
  forall u, In u (shadow (s_cur s) ++ flat_map units_of (s_others s)) -> Fr h' u.
Proof.
  intros [F P] Ff L Un u Hu. destruct s as [h o others]. cbn [s_heap s_cur s_others] in *. rewrite units_cons in *.
  rewrite Forall_forall in F, Ff. destruct P as [P1 _]. apply (Fr_ext h); [apply Ff; now right|].
  intros r Hr. apply Un; [eapply U_lt; [apply F; right; exact Hu | exact Hr]|]. intros Hi. exact (P1 u Hu r Hi Hr).
Qed.

Lemma FW_cur s : FW s -> Fr (s_heap s) (s_cur s).
Proof. intros [_ F]. destruct s as [h o others]. rewrite units_cons in F. inversion F; assumption. Qed.

Lemma Fr_lift (a : act) s : FW s -> good1 a ->
  (match a (s_heap s) (s_cur s) with (h', o', _) => Fr h' o' end) ->
  Forall (Fr (s_heap (fst (lift a s)))) (units (fst (lift a s))).
Proof.
  intros [Ws Ff] G HF. pose proof (W_cur s Ws) as Uc. pose proof (rest_fresh s) as RF. unfold lift in *.
  specialize (G _ _ (proj1 Uc)). destruct s as [h o others]. cbn [s_heap s_cur s_others] in *.
  destruct (a h o) as [[h1 o1] e]. destruct G as [_ [[Lh _] [Un [_ Bk]]]]. cbn [fst s_heap]. rewrite units_cons, (shadow_same o o1 Bk).
  constructor; [exact HF|]. rewrite Forall_forall. intros u Hu. apply RF; auto.
Qed.

(* ---- renumbering outside a transaction *)
Lemma zget_map_inj {A B} (f : Z -> Z) (g : A -> B) (d : list (Z * A)) k : inj_on f (k :: keys d) ->
  zget (map (fun kv => (f (fst kv), g (snd kv))) d) (f k) = option_map g (zget d k).
Proof.
  induction d as [|[k0 v0] t IH]; intros I; cbn; [reflexivity|].
  destruct (Z.eqb_spec k k0) as [->|D].
  - now rewrite Z.eqb_refl.
  - destruct (Z.eqb_spec (f k) (f k0)) as [E|_]; [exfalso; apply D; apply I; cbn; auto|].
    apply IH. intros x y Hx Hy. apply I; cbn in *; tauto.
Qed.
Lemma zget_rn_atoms f atoms k : inj_on f (k :: keys atoms) -> zget (rn_atoms f atoms) (f k) = zget atoms k.
Proof.
  intros I. pose proof (zget_map_inj f (fun a : acell => a) atoms k I) as H. cbn beta in H. unfold rn_atoms. rewrite H.
  now destruct (zget atoms k).
Qed.
Lemma inj_on_sub f (l l' : list Z) : inj_on f l -> incl l' l -> inj_on f l'.
Proof. intros I S x y Hx Hy. apply I; auto. Qed.

Lemma remap_frop_txn mp h o : Fr h o -> o_backup o <> None -> match remap mp h o with (h', o', _) => Fr h' o' end.
Proof.
  intros F B. unfold remap. destruct (negb (nodup_z (map snd mp)) || existsb _ (keys (o_atoms o))); [exact F|].
  unfold flush, ok. cbn beta iota. apply Fr_txn; [simpo; exact B|]. intros x a Ha. left. unfold pend. simpo.
  destruct (o_backup o) as [b|]; [|contradiction]. apply In_fold_sadd. left. apply zget_In_keys in Ha. unfold keys in *.
  rewrite map_map in Ha. cbn [fst] in Ha. rewrite map_map. exact Ha.
Qed.
Lemma remap_frop_out mp h o : inv1 h o -> Fr h o -> o_backup o = None -> match remap mp h o with (h', o', _) => Fr h' o' end.
Proof.
  intros [Wf Cw] F B. destruct (Fr_settled h o F B) as [C [Bo OK]]. unfold remap. rewrite B.
  destruct (nodup_z (map snd mp)) eqn:E1; cbn [negb orb]; [|exact F].
  destruct (existsb _ (keys (o_atoms o))) eqn:E2; [exact F|].
  pose proof (mg_inj mp _ E1 E2) as Inj. unfold flush, ok. cbn beta iota. simpo. rewrite C.
  set (f := mg mp) in *. fold (rn_atoms f (o_atoms o)). fold (rn_adj f (o_adj o)).
  set (o' := set_cache _ _).
  assert (forall x, In x (keys (o_atoms o)) -> lenvn h o' (f x) = lenvn h o x) as Ls.
  { intros x Hx. unfold lenvn, row. change (o_adj o') with (rn_adj f (o_adj o)). change (o_atoms o') with (rn_atoms f (o_atoms o)).
    unfold rn_adj.
    rewrite (zget_map_inj f (rn_row f) (o_adj o) x) by (eapply inj_on_sub; [exact Inj|]; intros y [<-|Hy]; [exact Hx | now rewrite <- (wf_keys _ _ _ Wf)]).
    destruct (zget (o_adj o) x) as [rw|] eqn:Er; cbn [option_map]; [|reflexivity].
    assert (forall m rf, In (m, rf) rw -> In m (keys (o_atoms o))) as Nb.
    { intros m rf Hm. eapply (wfa_nbr_atom _ _ _ x m rf Wf). eapply nd_In_aslot; [apply (wf_nd _ _ _ Wf) | apply zget_In; exact Er | exact Hm]. }
    clear Er. induction rw as [|[m rf] t IH]; [reflexivity|]. cbn [rn_row map fst snd lenv_of_row].
    fold (rn_row f t). rewrite IH by (intros; eapply Nb; right; eauto).
    assert (In m (keys (o_atoms o))) as Hm by (eapply Nb; now left).
    rewrite (zget_rn_atoms f (o_atoms o) m) by (eapply inj_on_sub; [exact Inj|]; intros y [<-|Hy]; assumption).
    destruct (zget (o_atoms o) m); reflexivity. }
  assert (forall x' a, zget (o_atoms o') x' = Some a -> exists x, x' = f x /\ zget (o_atoms o) x = Some a) as Pre.
  { intros x' a Ha. change (o_atoms o') with (rn_atoms f (o_atoms o)) in Ha. apply zget_In in Ha. unfold rn_atoms in Ha. apply in_map_iff in Ha.
    destruct Ha as [[x a1] [E Hi]]. cbn [fst snd] in E. inversion E; subst. exists x. split; [reflexivity|].
    apply In_zget_nodup; [rewrite <- (wf_keys _ _ _ Wf); apply (wf_nd _ _ _ Wf) | exact Hi]. }
  apply Fr_of_OK; [exact B | reflexivity | |].
  - intros r Hr. change (o_adj o') with (rn_adj f (o_adj o)) in Hr. rewrite arefs_rn_adj in Hr. now apply Bo.
  - intros x' a Ha. destruct (Pre x' a Ha) as [x [-> Hx]]. destruct (OK x a Hx) as [[l [X1 X2]] [l' [Y1 Y2]]].
    assert (In x (keys (o_atoms o))) as Hk by (eapply zget_In_keys; eauto).
    split; [exists l | exists l']; (split; [rewrite Ls; assumption | assumption]).
Qed.

(* ---- the step theorem *)
Lemma Forall_units_split h o others (P : mobj -> Prop) :
  Forall P (units (mkS h o others)) <-> P o /\ Forall P (shadow o ++ flat_map units_of others).
Proof. rewrite units_cons. split; [intros H; inversion H; auto | intros [A B]; constructor; auto]. Qed.

Lemma FW_frop a s : FW s -> good1 a -> frop a -> Forall (Fr (s_heap (fst (lift a s)))) (units (fst (lift a s))).
Proof. intros Fs G Fa. apply Fr_lift; auto. apply Fa; [apply (W_cur s (proj1 Fs)) | now apply FW_cur]. Qed.

Lemma Fr_cache h o c : Fr h o -> Fr h (set_cache o c).
Proof. apply Fr_same; reflexivity. Qed.

Lemma Fr_sub_step ats s : FW s -> Forall (Fr (s_heap (fst (sub_step ats s)))) (units (fst (sub_step ats s))).
Proof.
  intros Fs. pose proof Fs as [Ws Ff]. pose proof (W_cur s Ws) as Uc. pose proof (FW_cur s Fs) as Fc. unfold sub_step, sub_step_g. change (substructure_g true) with substructure.
    destruct s as [h o others]. cbn [s_heap s_cur s_others] in *.
  destruct (substructure ats h o) as [[[h2 o2] e]|err] eqn:E; [|exact Ff].
  destruct (sub_spec _ _ _ _ _ _ (proj1 (proj1 Uc)) E) as [h1 [sub0 [X [I0 [C0 [B0 [Cs0 [Fr0 R]]]]]]]].
  pose proof (fix_both_good h1 sub0 I0) as G. rewrite R in G. destruct G as [I2 [HL [Un [Rf Bk]]]].
  assert (hext h h2) as X2.
  { destruct X as [L E1]. split; [destruct HL; lia|]. intros r Hr. rewrite Un; [apply E1; exact Hr | lia |].
    intros Hi. apply Fr0 in Hi. lia. }
  pose proof (rest_fresh (mkS h o others) h2 Ws Ff (proj1 X2) (fun r Hr _ => proj2 X2 r Hr)) as RF. cbn [s_cur s_others] in RF.
  assert (Fr h2 o) as Fo by (apply (Fr_ext h); [exact Fc | intros r Hr; apply X2; eapply U_lt; eauto]).
  destruct e as [e|]; cbn [fst s_heap].
  + apply Forall_units_split. split; [exact Fo|]. rewrite Forall_forall. exact RF.
  + rewrite units_others. apply Forall_app. split; [|apply Forall_app; split].
    * constructor; [exact Fo|]. rewrite Forall_forall. intros u Hu. apply RF. apply in_or_app. now left.
    * (* the new molecule: everything was recalculated *)
      assert (shadow o2 = []) as -> by (unfold shadow; now rewrite Bk, B0). constructor; [|constructor].
      destruct (fix_hyd h1 sub0 I0) as [h3 [o3 [E3 [I3 [_ [C3 [B3 [Bo3 R3]]]]]]]].
      { intros n a Ha. left. unfold todo. rewrite Cs0. eapply zget_In_keys; eauto. }
      unfold seq in R. rewrite E3 in R. unfold fix_stereo, read, ok in R. inversion R; subst h2 o2.
      apply Fr_of_OK; [simpo; congruence | simpo; exact C3 | eapply bondsOK_view; [|exact Bo3]; reflexivity|].
      intros x a Ha. simpo. destruct (R3 x a Ha) as [[l [Z1 Z2]] [l' [Y1 Y2]]]. split; [exists l | exists l']; split; auto.
    * rewrite Forall_forall. intros u Hu. apply RF. apply in_or_app. now right.
Qed.

Theorem step_FW s p : FW s -> op_ok s p -> fop_ok s p -> FW (fst (step s p)).
Proof.
  intros Fs Ok Fk. pose proof Fs as [Ws Ff]. split; [now apply step_W|]. pose proof (W_cur s Ws) as Uc. pose proof (FW_cur s Fs) as Fc.
  destruct p; cbn [step op_ok fop_ok] in *; try contradiction.
  - (* read *) apply Fr_lift; [exact Fs | apply read_good|]. cbv beta iota delta [read ok]. now apply Fr_cache.
  - apply FW_frop; [exact Fs | apply add_atom_good | apply add_atom_frop].
  - apply FW_frop; [exact Fs | apply add_bond_good | apply add_bond_frop].
  - apply FW_frop; [exact Fs | apply delete_atom_good | apply delete_atom_frop].
  - apply FW_frop; [exact Fs | apply delete_bond_good | apply delete_bond_frop].
  - apply Fr_lift; [exact Fs | apply remap_good|]. destruct (o_backup (s_cur s)) as [b0|] eqn:Eb0.
    + apply remap_frop_txn; [exact Fc | congruence].
    + apply remap_frop_out; [apply Uc | exact Fc | exact Eb0].
  - (* copy *)
    destruct s as [h o others]. cbn [s_heap s_cur s_others] in *.
    destruct (copy_mol false false h o) as [[h1 b]|e] eqn:E; [|exact Ff]. cbn [fst s_heap].
    destruct (copy_mol_spec _ _ _ _ _ _ (proj1 (proj1 Uc)) E) as [cb [Eb [_ [X [_ V]]]]].
    pose proof (rest_fresh (mkS h o others) h1 Ws Ff (proj1 X) (fun r Hr _ => proj2 X r Hr)) as RF. cbn [s_cur s_others] in RF.
    rewrite units_others. apply Forall_app. split; [|apply Forall_app; split].
    + constructor; [apply (Fr_ext h); [exact Fc | intros r Hr; apply X; eapply U_lt; eauto]|]. rewrite Forall_forall. intros u Hu. apply RF.
      apply in_or_app. now left.
    + assert (shadow b = []) as -> by (subst b; reflexivity). constructor; [|constructor].
      apply (Fr_view h o); [exact V | subst b; reflexivity | subst b; simpo; symmetry; exact Fk | exact Fc].
    + rewrite Forall_forall. intros u Hu. apply RF. apply in_or_app. now right.
  - now apply Fr_sub_step.
  - now apply Fr_sub_step.
  - destruct (negb (subset_z ats (keys (o_atoms (s_cur s))))); [exact Ff|].
    destruct (filter (fun n => negb (zmem n ats)) (keys (o_atoms (s_cur s)))); [exact Ff | now apply Fr_sub_step].
  - destruct (negb (subset_z ats (keys (o_adj (s_cur s))))); [exact Ff|].
    destruct (aug_grow (o_adj (s_cur s)) ats deep); [now apply Fr_sub_step | exact Ff].
  - (* swap *)
    destruct s as [h o [|a t]]; [exact Ff|]. cbn [fst s_heap] in *. rewrite units_others in *.
    apply Forall_app in Ff. destruct Ff as [F1 F2]. apply Forall_app in F2. destruct F2 as [F2 F3].
    apply Forall_app. split; [exact F2|]. apply Forall_app. split; assumption.
  - (* flush *) apply Fr_lift; [exact Fs | apply flush_good|]. cbv beta iota delta [flush ok]. now apply Fr_cache.
  - (* enter *)
    destruct s as [h o others]. unfold lift, enter. cbn [s_heap s_cur s_others] in *.
    destruct (o_backup o) as [b0|] eqn:Eb0; [exact Ff|].
    destruct (copy_mol true true h o) as [[h1 b]|e] eqn:E; [|exact Ff]. cbn [ok fst s_heap].
    destruct (copy_mol_spec _ _ _ _ _ _ (proj1 (proj1 Uc)) E) as [cb [Eb [_ [X [_ V]]]]].
    pose proof (rest_fresh (mkS h o others) h1 Ws Ff (proj1 X) (fun r Hr _ => proj2 X r Hr)) as RF. cbn [s_cur s_others] in RF.
    destruct (Fr_settled h o Fc Eb0) as [Cn [Bo OK]].
    assert (forall n, lenvn h1 o n = lenvn h o n) as Ls.
    { apply lenvn_view. apply view_of_ext. intros r Hr. apply X. eapply U_lt; eauto. }
    rewrite units_cons. constructor; [|constructor].
    + apply Fr_txn; [discriminate|]. intros n a Ha. right. simpo. destruct (OK n a Ha) as [[l [X1 X2]] _]. exists (a_core a), l.
      split; [exact X2|]. split; [unfold lenvn, row in *; simpo; rewrite Ls; exact X1|]. split; [reflexivity|]. split; [reflexivity|]. simpo.
      subst b. cbn [bk_atoms o_atoms]. rewrite Ha. auto.
    + subst b. cbn [bk_mobj bk_atoms bk_adj bk_cache bk_changed bk_name bk_meta o_atoms o_adj o_cache o_changed o_name o_meta].
      eapply (Fr_view h o); [exact V | reflexivity | simpo; symmetry; exact Eb0 | exact Fc].
    + rewrite Forall_forall. intros u Hu. apply RF. apply in_or_app. now right.
  - (* exit_ok *)
    pose proof (exit_ok_frop _ _ (proj1 Uc) Fc) as Fx. pose proof (exit_body_good _ _ (proj1 Uc)) as G.
    destruct s as [h o others]. unfold lift in *. cbn [s_heap s_cur s_others] in *. rewrite exit_ok_split in *. unfold seq in *.
    destruct (exit_body h o) as [[h1 o1] [e|]]; destruct G as [_ [[Lh _] [Un [_ Bk]]]]; cbn [fst s_heap].
    + rewrite units_cons, (shadow_same o o1 Bk). constructor; [exact Fx|]. rewrite Forall_forall. intros u Hu.
      apply (rest_fresh (mkS h o others) h1 Ws Ff Lh Un). exact Hu.
    + unfold drop_backup, ok in *. cbn [fst s_heap] in *. rewrite units_cons. constructor; [exact Fx|]. rewrite Forall_forall. intros u Hu.
      apply (rest_fresh (mkS h o others) h1 Ws Ff Lh Un). cbn [s_cur s_others]. apply in_or_app. right. exact Hu.
  - (* exit_exn *)
    destruct s as [h o others]. unfold lift, exit_exn. cbn [s_heap s_cur s_others] in *.
    destruct (o_backup o) as [b|] eqn:Eb; [|exact Ff]. cbn [ok fst s_heap]. rewrite units_cons in *. unfold shadow in Ff. rewrite Eb in Ff.
    inversion Ff as [|? ? _ F']; subst. exact F'.
  - apply Fr_lift; [exact Fs | apply set_charge_good|]. apply set_charge_frop; [apply Uc | exact Fc | exact Fk].
  - apply Fr_lift; [exact Fs | apply set_radical_good|]. apply set_radical_frop; [apply Uc | exact Fc | exact Fk].
  - apply Fr_lift; [exact Fs | apply (set_name_good (Some x))|]. cbv beta iota delta [ok]. apply (Fr_same _ (s_cur s)); auto.
  - apply Fr_lift; [exact Fs | apply (set_meta_good (Some (zset (match o_meta (s_cur s) with Some d => d | None => [] end) k v)))|].
    cbv beta iota delta [ok]. apply (Fr_same _ (s_cur s)); auto.
Qed.

Fixpoint fops_ok (s : state) (ops : list op) : Prop :=
  match ops with [] => True | p :: t => op_ok s p /\ fop_ok s p /\ fops_ok (fst (step s p)) t end.
Theorem run_FW ops : forall s, FW s -> fops_ok s ops -> FW (run ops s).
Proof.
  unfold run. induction ops as [|p t IH]; intros s Fs Ok; [exact Fs|]. cbn [fold_left]. destruct Ok as [O1 [O2 O3]].
  apply IH; [now apply step_FW | exact O3].
Qed.
Lemma FW_empty : FW empty_state.
Proof.
  split; [apply W_empty|]. constructor; [|constructor]. apply Fr_of_OK; try reflexivity.
  - intros r [].
  - intros n a H. discriminate.
Qed.

(* the statement: outside a transaction, after every operation of a history within the contract, every stored hydrogen count is
   calc of the atom's CURRENT environment and every label is labels of its CURRENT neighbourhood, for any calc / labels *)
Section Stored.
Variables (H L : Type) (calc : env -> H) (labels : lenv -> L).
Definition stored_h (a : acell) : option H := option_map calc (a_hyd a).
Definition stored_l (a : acell) : option L := option_map labels (a_lab a).
Theorem stored_fresh : forall ops s, FW s -> fops_ok s ops ->
  forall o, In o (live (run ops s)) -> o_backup o = None ->
    o_changed o = None /\
    (forall r, In r (refs_of_adj (o_adj o)) -> exists c, hget (s_heap (run ops s)) r = Some c /\ b_lab c = true) /\
    forall n a, zget (o_atoms o) n = Some a ->
      exists l, lenv_of_row (s_heap (run ops s)) (o_atoms o) (row o n) = Ok l /\
                stored_h a = Some (calc (a_core a, l)) /\ stored_l a = Some (labels l).
Proof.
  intros ops s Fs Ok o Ho B. destruct (run_FW ops s Fs Ok) as [_ Ff]. rewrite Forall_forall in Ff.
  destruct (Fr_settled _ o (Ff o (live_units _ _ Ho)) B) as [C [Bo OK]]. split; [exact C|]. split; [exact Bo|].
  intros n a Ha. destruct (OK n a Ha) as [[l [X1 X2]] [l' [Y1 Y2]]]. exists l. split; [exact X1|]. unfold stored_h, stored_l.
  rewrite X2. split; [reflexivity|]. unfold lenvn in *. rewrite X1 in Y1. inversion Y1; subst. now rewrite Y2.
Qed.
End Stored.

(* non-vacuity: edits, a transaction with setters, a renumbering and structural edits, committed; then everything is current *)
Definition fresh_history : list op :=
  build_cco ++ [OEnter; OSetCharge 3 (-1); ORemap [(3, 9)]; OAddAtom carbon None; ODelBond 1 2; OSetRadical 2 true; OExitOk;
                OAddBond 1 10 2; OCopy; OSwap; ODelAtom 2; OSub [1; 9]].
Theorem fresh_example :
  fops_ok empty_state fresh_history /\ trace fresh_history empty_state = repeat None 20 /\
  (let s := run fresh_history empty_state in
   forallb (fun o => forallb (fun n => hyd_fresh (s_heap s) o n && lab_fresh (s_heap s) o n) (keys (o_atoms o))) (live s) = true /\
   List.length (live s) = 3%nat /\ keys (o_atoms (s_cur s)) = [1; 9; 10]).
Proof. split; [vm_compute; repeat split; discriminate|]. split; vm_compute; repeat split; reflexivity. Qed.
