(* C14 -- proofs about Model.Standardize and the generated rule tables Gen.StdRules *)
From Coq Require Import ZArith List String Bool Lia.
From Model Require Import PyBase Graph PeriodicTable Standardize.
From Gen Require Import Elements StdRules.
Import ListNotations.
Open Scope Z_scope.

(* ================================================================================================
   A. table obligations: finite sweeps over the regenerated tables
   ================================================================================================ *)
Definition all_rules : list rule := double_rules ++ single_rules ++ metal_rules.

(* the rules whose deltas do NOT sum to zero, by name (str(pattern)) *)
Definition unbalanced_names : list string :=
  ["[P;D4;x0;z1]"; "[B;D4;z1]"; "[N;D4;z1]"; "[N;D2;z3;x2](=[N;D2;z2])#[N;D1;-]";
   "[P;D6;z1]([F;D1])([F;D1])([F;D1])([F;D1])([F;D1])[F;D1]"]%string.

Lemma table_sweep (P : rule -> bool) : forallb P all_rules = true -> forall r, In r all_rules -> P r = true.
Proof. intros H r Hr. rewrite forallb_forall in H. exact (H r Hr). Qed.

Lemma unbalanced_exact :
  map r_name (filter (fun r => negb (balanced r)) double_rules) = [] /\
  map r_name (filter (fun r => negb (balanced r)) single_rules) = unbalanced_names /\
  map r_name (filter (fun r => negb (balanced r)) metal_rules) = [].
Proof. vm_compute. repeat split; reflexivity. Qed.

Lemma table_balanced_b : forallb (fun r => balanced r || smem (r_name r) unbalanced_names) all_rules = true.
Proof. vm_compute. reflexivity. Qed.
Lemma table_balanced : forall r, In r all_rules -> delta_sum r = 0 \/ In (r_name r) unbalanced_names.
Proof.
  intros r Hr. pose proof (table_sweep _ table_balanced_b r Hr) as H.
  apply orb_true_iff in H. destruct H as [H | H].
  - left. apply Z.eqb_eq. exact H.
  - right. unfold smem in H. rewrite existsb_exists in H. destruct H as [x [Hx He]].
    apply String.eqb_eq in He. subst. exact Hx.
Qed.

(* every unbalanced rule can only be matched by a centre atom that has no valence state *)
Lemma table_unbalanced_invalid_b : forallb (fun r => balanced r || centre_invalid r) all_rules = true.
Proof. vm_compute. reflexivity. Qed.
Lemma table_unbalanced_invalid : forall r, In r all_rules -> delta_sum r <> 0 -> centre_invalid r = true.
Proof.
  intros r Hr Hd. pose proof (table_sweep _ table_unbalanced_invalid_b r Hr) as H.
  apply orb_true_iff in H. destruct H as [H | H]; [|exact H].
  apply Z.eqb_eq in H. contradiction.
Qed.

Lemma table_rule_ok_b : forallb rule_ok all_rules = true.
Proof. vm_compute. reflexivity. Qed.
Lemma table_rule_ok : forall r, In r all_rules -> rule_ok r = true.
Proof. exact (table_sweep _ table_rule_ok_b). Qed.

Lemma rule_ok_parts r : rule_ok r = true ->
  range_ok r = true /\ metal_first r = true /\ names_ok r = true /\ bfix_on_bonds r = true.
Proof. unfold rule_ok. rewrite !andb_true_iff. tauto. Qed.

Lemma table_self_test_b : forallb self_test all_rules = true.
Proof. vm_compute. reflexivity. Qed.

Lemma table_charged_b :
  forallb crule_balanced_fixed fixed_rules = true /\ forallb crule_balanced_morgan morgan_rules = true.
Proof. vm_compute. split; reflexivity. Qed.

(* the unconstrained patched atoms are exactly the any-metal heads of the metal rules *)
Definition has_unc (r : rule) : bool := existsb (fun e => negb (constrained r (af_atom e))) (r_afix r).
Lemma table_unc_only_metal_b :
  forallb (fun r => negb (has_unc r)) (double_rules ++ single_rules) = true /\
  List.length (filter has_unc metal_rules) = 13%nat.
Proof. vm_compute. split; reflexivity. Qed.

(* ================================================================================================
   B. valence states: the spec-level lemma behind centre_invalid
   ================================================================================================ *)
Lemma zsum_app a b : zsum (a ++ b) = zsum a + zsum b.
Proof. unfold zsum. induction a as [|x a IH]; cbn; [reflexivity|]. fold (zsum (a ++ b)) in *. fold (zsum a) in *. unfold zsum in *. lia. Qed.

(* an environment made of single bonds only *)
Definition all_single (e : env) : Prop := forall k, In k e -> fst k = 1.

Lemma env_count_nonneg e k : 0 <= env_count e k.
Proof. unfold env_count. lia. Qed.

Lemma env_count_pos_in e k : In k e -> 0 < env_count e k.
Proof.
  unfold env_count. induction e as [|x e IH]; cbn [In filter]; [tauto|].
  intros [-> | H].
  - rewrite Z.eqb_refl, String.eqb_refl. cbn. lia.
  - specialize (IH H). destruct ((fst x =? fst k) && String.eqb (snd x) (snd k)); cbn [List.length]; lia.
Qed.

Lemma env_count_zero_notin e k : (forall x, In x e -> fst x <> fst k) -> env_count e k = 0.
Proof.
  unfold env_count. induction e as [|x e IH]; cbn [filter]; intros H; [reflexivity|].
  destruct (fst x =? fst k) eqn:E.
  - apply Z.eqb_eq in E. exfalso. exact (H x (or_introl eq_refl) E).
  - cbn. apply IH. intros y Hy. apply H. right. exact Hy.
Qed.

Lemma env_sum_all_single e : all_single e -> env_sum e = Z.of_nat (List.length e).
Proof.
  unfold env_sum, zsum. induction e as [|x e IH]; intros H; [reflexivity|].
  cbn [map fold_right List.length]. rewrite IH by (intros k Hk; apply H; right; exact Hk).
  rewrite (H x (or_introl eq_refl)). lia.
Qed.

(* if need has a multiple bond and have has none, need is not covered *)
Lemma env_covers_single need have : all_single have -> env_covers need have = true -> forallb (fun k => fst k =? 1) need = true.
Proof.
  intros Hs Hc. unfold env_covers in Hc. rewrite forallb_forall in *. intros k Hk.
  specialize (Hc k Hk). apply Z.leb_le in Hc.
  destruct (fst k =? 1) eqn:E; [reflexivity|]. apply Z.eqb_neq in E.
  pose proof (env_count_pos_in need k Hk).
  rewrite (env_count_zero_notin have k) in Hc; [lia|].
  intros x Hx. rewrite (Hs x Hx). congruence.
Qed.

(* the `D<d>;z1` centre: no environment of d single bonds has a valence state *)
Lemma may_have_state_single_sound el chg rad have :
  all_single have ->
  has_state el chg rad have = true -> may_have_state_single el chg rad (Z.of_nat (List.length have)) = true.
Proof.
  intros Hs. unfold has_state, may_have_state_single. rewrite (env_sum_all_single have Hs).
  rewrite !orb_true_iff. intros [H | H]; [left; exact H|right].
  rewrite existsb_exists in *. destruct H as [x [Hx Hm]]. exists x. split; [exact Hx|].
  destruct x as [[[c r] imp] need]. unfold exception_state in Hm. unfold exception_state_single.
  rewrite (env_sum_all_single have Hs) in Hm.
  rewrite !andb_true_iff in *. destruct Hm as [[[Hc Hr] Hsum] Hcov].
  repeat split; try assumption. exact (env_covers_single need have Hs Hcov).
Qed.

(* ================================================================================================
   C. molecule updates
   ================================================================================================ *)
Lemma keys_upd_atoms n f l : keys (upd_atoms n f l) = keys l.
Proof. unfold keys, upd_atoms. rewrite map_map. apply map_ext. intros [k a]. cbn. destruct (k =? n); reflexivity. Qed.

Definition keeps_elem (f : atom -> atom) : Prop := forall a, a_num (f a) = a_num a /\ a_iso (f a) = a_iso a.

Lemma keeps_set_chg_rad c ir : keeps_elem (set_chg_rad c ir).
Proof. intros a. split; reflexivity. Qed.
Lemma keeps_set_h h : keeps_elem (set_h h).
Proof. intros a. split; reflexivity. Qed.

Lemma skeleton_upd_atom g n f : keeps_elem f -> skeleton (upd_atom g n f) = skeleton g.
Proof.
  intros Hf. unfold skeleton, upd_atom, upd_atoms. cbn [m_atoms]. rewrite map_map. apply map_ext.
  intros [k a]. cbn. destruct (k =? n); cbn; [|reflexivity]. destruct (Hf a) as [-> ->]. reflexivity.
Qed.

Lemma ids_skeleton g : ids g = map (fun x => fst (fst x)) (skeleton g).
Proof. unfold ids, keys, skeleton. rewrite map_map. reflexivity. Qed.

Lemma zget_upd_atoms n f l k :
  zget (upd_atoms n f l) k = if k =? n then option_map f (zget l k) else zget l k.
Proof.
  induction l as [|[k' a] l IH]; cbn.
  - destruct (k =? n); reflexivity.
  - destruct (k' =? n) eqn:E1; cbn [fst snd]; destruct (k =? k') eqn:E2.
    + apply Z.eqb_eq in E1, E2. subst. rewrite Z.eqb_refl. reflexivity.
    + exact IH.
    + apply Z.eqb_eq in E2. subst. rewrite E1. reflexivity.
    + exact IH.
Qed.

Lemma atom_of_upd_atom g n f k :
  atom_of (upd_atom g n f) k = if k =? n then option_map f (atom_of g k) else atom_of g k.
Proof. unfold atom_of, upd_atom. cbn [m_atoms]. apply zget_upd_atoms. Qed.

Lemma upd_atoms_notin n f l : ~ In n (keys l) -> upd_atoms n f l = l.
Proof.
  induction l as [|[k a] l IH]; cbn; intros H; [reflexivity|].
  destruct (k =? n) eqn:E.
  - apply Z.eqb_eq in E. subst. exfalso. apply H. left. reflexivity.
  - f_equal. apply IH. intros Hn. apply H. right. exact Hn.
Qed.

Definition csum (l : list (Z * atom)) : Z := zsum (map (fun na => a_chg (snd na)) l).

Lemma upd_atoms_cons n f k x l :
  upd_atoms n f ((k, x) :: l) = (if k =? n then (k, f x) else (k, x)) :: upd_atoms n f l.
Proof. reflexivity. Qed.

Lemma csum_cons k x l : csum ((k, x) :: l) = a_chg x + csum l.
Proof. reflexivity. Qed.

Lemma csum_upd n f l a :
  NoDup (keys l) -> zget l n = Some a -> csum (upd_atoms n f l) = csum l - a_chg a + a_chg (f a).
Proof.
  induction l as [|[k x] l IH]; intros Hnd Hg; [discriminate|].
  inversion Hnd as [|? ? Hnotin Hnd']; subst.
  rewrite upd_atoms_cons. cbn [zget] in Hg.
  destruct (n =? k) eqn:E.
  - apply Z.eqb_eq in E. subst. inversion Hg; subst. rewrite Z.eqb_refl.
    rewrite (upd_atoms_notin k f l Hnotin). rewrite !csum_cons. lia.
  - rewrite Z.eqb_sym in E. rewrite E. rewrite !csum_cons. specialize (IH Hnd' Hg). lia.
Qed.

Lemma total_upd_atom g n f a :
  NoDup (ids g) -> atom_of g n = Some a ->
  total_charge (upd_atom g n f) = total_charge g - a_chg a + a_chg (f a).
Proof. intros Hnd Ha. unfold total_charge, upd_atom. cbn [m_atoms]. apply (csum_upd n f (m_atoms g) a Hnd Ha). Qed.

Lemma ids_upd_atom g n f : ids (upd_atom g n f) = ids g.
Proof. unfold ids, upd_atom. cbn [m_atoms]. apply keys_upd_atoms. Qed.

(* ---- adjacency ---- *)
Lemma keys_upd_nb m o l : keys (upd_nb m o l) = keys l.
Proof. unfold keys, upd_nb. rewrite map_map. apply map_ext. intros [k b]. cbn. destruct (k =? m); reflexivity. Qed.

Lemma graph_set_bond_dir adj n m o :
  map (fun nl => (fst nl, keys (snd nl))) (set_bond_dir adj n m o) = map (fun nl : Z * list (Z * bond) => (fst nl, keys (snd nl))) adj.
Proof.
  unfold set_bond_dir. rewrite map_map. apply map_ext. intros [k l]. cbn [fst snd].
  destruct (k =? n); cbn [fst snd]; [rewrite keys_upd_nb|]; reflexivity.
Qed.

Lemma gnbrs_graph_of g n : gnbrs (graph_of g) n = nbr_ids g n.
Proof.
  unfold gnbrs, graph_of, nbr_ids, nbrs. induction (m_adj g) as [|[k l] adj IH]; cbn; [reflexivity|].
  destruct (n =? k); [reflexivity|exact IH].
Qed.

Lemma adjacent_graph g h n m : graph_of g = graph_of h -> adjacent g n m = adjacent h n m.
Proof. intros H. unfold adjacent. rewrite <- !gnbrs_graph_of, H. reflexivity. Qed.

Lemma graph_of_upd_atom g n f : graph_of (upd_atom g n f) = graph_of g.
Proof. reflexivity. Qed.

Lemma patch_bond_adjacent g n m o :
  adjacent g n m = true ->
  exists g', patch_bond g n m o = Ok g' /\ m_atoms g' = m_atoms g /\ graph_of g' = graph_of g.
Proof.
  unfold adjacent, nbr_ids, nbrs, patch_bond. intros H.
  destruct (zget (m_adj g) n) as [nbn|] eqn:E; [|cbn in H; discriminate].
  rewrite H. eexists. split; [reflexivity|]. split; [reflexivity|].
  unfold graph_of. cbn [m_adj]. rewrite !graph_set_bond_dir. reflexivity.
Qed.

(* a step that fails or not, patch_bond never touches the atoms *)
Lemma patch_bond_atoms g n m o g' : patch_bond g n m o = Ok g' -> m_atoms g' = m_atoms g.
Proof.
  unfold patch_bond. destruct (zget (m_adj g) n); [|discriminate].
  destruct (zmem m (keys l)).
  - intros H. inversion H. reflexivity.
  - destruct (zget (m_adj g) m); [|discriminate]. intros H. inversion H. reflexivity.
Qed.

(* ================================================================================================
   D. the pass never touches numbers, elements, isotopes: for ANY rule table and ANY matcher
   ================================================================================================ *)
Lemma afix_loop_skeleton mp fx : forall g hs,
  match afix_loop mp fx g hs with
  | AfDone g' _ | AfBad g' _ => skeleton g' = skeleton g /\ m_adj g' = m_adj g
  | AfErr _ => True
  end.
Proof.
  induction fx as [|e fx IH]; intros g hs; cbn [afix_loop]; [split; reflexivity|].
  destruct (zget mp (af_atom e)) as [n|]; [|exact I].
  destruct (atom_of g n) as [a|]; [|exact I].
  destruct (a_chg a + af_delta e >? 4); [split; reflexivity|].
  specialize (IH (upd_atom g n (set_chg_rad (a_chg a + af_delta e) (af_rad e))) (add_set n hs)).
  destruct (afix_loop mp fx _ _); try exact I;
    (destruct IH as [H1 H2]; split; [rewrite H1; apply skeleton_upd_atom, keeps_set_chg_rad | rewrite H2; reflexivity]).
Qed.

Lemma bfix_loop_atoms mp bx : forall g hs g' hs', bfix_loop mp bx g hs = Ok (g', hs') -> m_atoms g' = m_atoms g.
Proof.
  induction bx as [|[[p q] o] bx IH]; intros g hs g' hs'; cbn [bfix_loop].
  - intros H. inversion H. reflexivity.
  - destruct (zget mp p) as [n|]; [|discriminate]. destruct (zget mp q) as [m|]; [|discriminate].
    destruct (patch_bond g n m o) as [g1|] eqn:E; [|discriminate].
    intros H. rewrite (IH _ _ _ _ H). exact (patch_bond_atoms _ _ _ _ _ E).
Qed.

Lemma skeleton_atoms g h : m_atoms g = m_atoms h -> skeleton g = skeleton h.
Proof. unfold skeleton. intros ->. reflexivity. Qed.

Lemma apply_match_skeleton ridx r mp st st' :
  apply_match ridx r mp st = Ok st' -> skeleton (ps_mol st') = skeleton (ps_mol st).
Proof.
  unfold apply_match. destruct (negb (disjoint (values mp) (ps_seen st))).
  - intros H. inversion H. reflexivity.
  - destruct (map_all mp (r_any r)) as [anys|]; [|discriminate].
    pose proof (afix_loop_skeleton mp (r_afix r) (ps_mol st) (ps_hs st)) as Ha.
    destruct (afix_loop mp (r_afix r) (ps_mol st) (ps_hs st)) as [g hs|g hs|e]; [| |discriminate].
    + destruct (bfix_loop mp (r_bfix r) g hs) as [[g' hs']|] eqn:E; [|discriminate].
      intros H. inversion H. cbn [ps_mol]. rewrite (skeleton_atoms _ _ (bfix_loop_atoms _ _ _ _ _ _ E)). apply Ha.
    + intros H. inversion H. cbn [ps_mol]. apply Ha.
Qed.

Lemma matches_loop_skeleton ridx r mps : forall st st',
  matches_loop ridx r mps st = Ok st' -> skeleton (ps_mol st') = skeleton (ps_mol st).
Proof.
  induction mps as [|mp mps IH]; intros st st'; cbn [matches_loop].
  - intros H. inversion H. reflexivity.
  - destruct (apply_match ridx r mp st) as [st1|] eqn:E; [|discriminate].
    intros H. rewrite (IH _ _ H). exact (apply_match_skeleton _ _ _ _ _ E).
Qed.

Section PassProofs.
  Variable matches : Z -> Z -> rule -> mol -> list mapping.
  Variable calc_h : mol -> Z -> option Z.

  Lemma recalc_skeleton hs : forall g, skeleton (recalc calc_h g hs) = skeleton g.
  Proof.
    unfold recalc. induction hs as [|n hs IH]; intros g; cbn [fold_left]; [reflexivity|].
    rewrite IH. apply skeleton_upd_atom, keeps_set_h.
  Qed.
  Lemma recalc_graph hs : forall g, m_adj (recalc calc_h g hs) = m_adj g.
  Proof.
    unfold recalc. induction hs as [|n hs IH]; intros g; cbn [fold_left]; [reflexivity|]. rewrite IH. reflexivity.
  Qed.
  Lemma recalc_charges hs : forall g, map (fun na => a_chg (snd na)) (m_atoms (recalc calc_h g hs)) = map (fun na => a_chg (snd na)) (m_atoms g).
  Proof.
    unfold recalc. induction hs as [|n hs IH]; intros g; cbn [fold_left]; [reflexivity|]. rewrite IH.
    unfold upd_atom, upd_atoms. cbn [m_atoms]. rewrite map_map. apply map_ext. intros [k a]. cbn.
    destruct (k =? n); reflexivity.
  Qed.
  Lemma recalc_total hs g : total_charge (recalc calc_h g hs) = total_charge g.
  Proof. unfold total_charge. rewrite recalc_charges. reflexivity. Qed.

  (* for ANY rule table, ANY matcher, ANY hydrogen calculator: a pass that returns never changed atom numbers, their
     order, elements or isotopes *)
  Theorem pass_preserves_skeleton stage rules fix_taut : forall ridx g log fixed g' log' fixed',
    rules_loop matches calc_h stage ridx rules fix_taut g log fixed = Ok (g', log', fixed') ->
    skeleton g' = skeleton g.
  Proof.
    induction rules as [|r rules IH]; intros ridx g log fixed g' log' fixed'; cbn [rules_loop].
    - intros H. inversion H. reflexivity.
    - destruct (negb fix_taut && r_taut r); [apply IH|].
      destruct (matches_loop ridx r (matches stage ridx r g) (mkPS g [] [] log)) as [st|] eqn:E; [|discriminate].
      pose proof (matches_loop_skeleton _ _ _ _ _ E) as Hs. cbn [ps_mol] in Hs.
      destruct (ps_hs st) as [|h hs].
      + intros H. rewrite (IH _ _ _ _ _ _ _ H). exact Hs.
      + intros H. rewrite (IH _ _ _ _ _ _ _ H). rewrite recalc_skeleton. exact Hs.
  Qed.
End PassProofs.

(* ================================================================================================
   E. conservation of the net charge by a pass, for ANY rule table satisfying the obligations and ANY sound matcher
   ================================================================================================ *)
Lemma zmem_app x a b : zmem x (a ++ b) = zmem x a || zmem x b.
Proof. unfold zmem. apply existsb_app. Qed.

Lemma zmem_add_set x y l : zmem x (add_set y l) = (x =? y) || zmem x l.
Proof.
  unfold add_set. destruct (zmem y l) eqn:E.
  - destruct (x =? y) eqn:E2; [|reflexivity]. apply Z.eqb_eq in E2. subst. rewrite E. reflexivity.
  - rewrite zmem_app. cbn. rewrite orb_false_r, orb_comm. reflexivity.
Qed.

Lemma zmem_union_set x b : forall a, zmem x (union_set a b) = zmem x a || zmem x b.
Proof.
  unfold union_set. induction b as [|y b IH]; intros a; cbn [fold_left].
  - cbn. rewrite orb_false_r. reflexivity.
  - rewrite IH, zmem_add_set. cbn [zmem existsb]. fold (zmem x b).
    destruct (x =? y), (zmem x a), (zmem x b); reflexivity.
Qed.

Lemma zmem_filter x f l : zmem x (filter f l) = zmem x l && f x.
Proof.
  induction l as [|y l IH]; cbn [filter]; [reflexivity|].
  destruct (f y) eqn:E.
  - cbn [zmem existsb]. fold (zmem x (filter f l)). fold (zmem x l). rewrite IH.
    destruct (x =? y) eqn:E2; cbn; [|reflexivity]. apply Z.eqb_eq in E2. subst. rewrite E. reflexivity.
  - cbn [zmem existsb]. fold (zmem x l). rewrite IH.
    destruct (x =? y) eqn:E2; cbn; [|reflexivity]. apply Z.eqb_eq in E2. subst. rewrite E. rewrite andb_false_r. reflexivity.
Qed.

Lemma nodup_z_NoDup l : nodup_z l = true -> NoDup l.
Proof.
  induction l as [|x l IH]; cbn; intros H; [constructor|].
  apply andb_true_iff in H. destruct H as [H1 H2]. constructor; [|exact (IH H2)].
  intros Hin. apply zmem_In in Hin. rewrite Hin in H1. discriminate.
Qed.

Lemma zget_In {V} (d : list (Z * V)) k v : zget d k = Some v -> In (k, v) d.
Proof.
  induction d as [|[k' v'] d IH]; cbn; [discriminate|].
  destruct (k =? k') eqn:E.
  - apply Z.eqb_eq in E. subst. intros H. inversion H. left. reflexivity.
  - intros H. right. exact (IH H).
Qed.

Lemma zget_some_of_key {V} (d : list (Z * V)) k : In k (keys d) -> exists v, zget d k = Some v.
Proof.
  induction d as [|[k' v'] d IH]; cbn; [tauto|].
  intros [H | H].
  - subst. rewrite Z.eqb_refl. eexists. reflexivity.
  - destruct (k =? k'); [eexists; reflexivity|exact (IH H)].
Qed.

Lemma nodup_values_inj (mp : mapping) p q n : NoDup (values mp) -> In (p, n) mp -> In (q, n) mp -> p = q.
Proof.
  unfold values. induction mp as [|[k v] mp IH]; cbn; [tauto|].
  intros Hnd. inversion Hnd as [|? ? Hnotin Hnd']; subst.
  intros [H1 | H1] [H2 | H2].
  - congruence.
  - inversion H1; subst. exfalso. apply Hnotin. apply (in_map snd) in H2. exact H2.
  - inversion H2; subst. exfalso. apply Hnotin. apply (in_map snd) in H1. exact H1.
  - exact (IH Hnd' H1 H2).
Qed.

Lemma zget_value_in (mp : mapping) p n : zget mp p = Some n -> zmem n (values mp) = true.
Proof. intros H. apply zmem_In. apply zget_In in H. apply (in_map snd) in H. exact H. Qed.

Lemma atom_of_ids g n a : atom_of g n = Some a -> In n (ids g).
Proof. unfold atom_of, ids, keys. intros H. apply zget_In in H. apply (in_map fst) in H. exact H. Qed.

Lemma ids_atom_of g n : In n (ids g) -> exists a, atom_of g n = Some a.
Proof. unfold ids, atom_of. apply zget_some_of_key. Qed.

Lemma skeleton_ids g h : skeleton g = skeleton h -> ids g = ids h.
Proof. intros H. rewrite !ids_skeleton, H. reflexivity. Qed.

Lemma disjoint_notin a b x : disjoint a b = true -> zmem x a = true -> zmem x b = false.
Proof.
  unfold disjoint. intros H Hx. rewrite forallb_forall in H. apply zmem_In in Hx.
  specialize (H x Hx). apply negb_true_iff in H. exact H.
Qed.

Definition mapped (mp : mapping) (fx : list afix_entry) : list (option Z) := map (fun e => zget mp (af_atom e)) fx.

(* every entry applies: the loop completes, moves the net charge by the sum of the deltas and touches mapped atoms only *)
Lemma afix_loop_done mp fx : forall g hs,
  NoDup (ids g) -> NoDup (mapped mp fx) ->
  (forall e, In e fx -> exists n a, zget mp (af_atom e) = Some n /\ atom_of g n = Some a /\ a_chg a + af_delta e <= 4) ->
  exists g' hs', afix_loop mp fx g hs = AfDone g' hs' /\
    total_charge g' = total_charge g + zsum (map af_delta fx) /\
    (forall k, ~ In (Some k) (mapped mp fx) -> atom_of g' k = atom_of g k).
Proof.
  induction fx as [|e fx IH]; intros g hs Hnd Hmp Hall; cbn [afix_loop].
  - exists g, hs. split; [reflexivity|]. split; [cbn; lia|]. intros; reflexivity.
  - destruct (Hall e (or_introl eq_refl)) as [n [a [Hn [Ha Hle]]]].
    rewrite Hn, Ha. assert (Hgt : (a_chg a + af_delta e >? 4) = false) by (rewrite Z.gtb_ltb; apply Z.ltb_ge; lia). rewrite Hgt.
    cbn [mapped map] in Hmp. inversion Hmp as [|? ? Hnotin Hmp']; subst. rewrite Hn in Hnotin.
    set (g1 := upd_atom g n (set_chg_rad (a_chg a + af_delta e) (af_rad e))).
    assert (Hnd1 : NoDup (ids g1)) by (unfold g1; rewrite ids_upd_atom; exact Hnd).
    assert (Hall1 : forall e', In e' fx -> exists n' a', zget mp (af_atom e') = Some n' /\ atom_of g1 n' = Some a' /\ a_chg a' + af_delta e' <= 4).
    { intros e' He'. destruct (Hall e' (or_intror He')) as [n' [a' [Hn' [Ha' Hle']]]].
      exists n', a'. split; [exact Hn'|]. split; [|exact Hle'].
      unfold g1. rewrite atom_of_upd_atom. destruct (n' =? n) eqn:E; [|exact Ha'].
      apply Z.eqb_eq in E. subst. exfalso. apply Hnotin. unfold mapped. rewrite <- Hn'.
      apply (in_map (fun e => zget mp (af_atom e))). exact He'. }
    destruct (IH g1 (add_set n hs) Hnd1 Hmp' Hall1) as [g' [hs' [Hrun [Htot Hun]]]].
    exists g', hs'. split; [exact Hrun|]. split.
    + rewrite Htot. unfold g1. rewrite (total_upd_atom g n _ a Hnd Ha). cbn [map zsum fold_right a_chg set_chg_rad]. unfold zsum. lia.
    + intros k Hk. rewrite Hun by (intros Hin; apply Hk; cbn [mapped map]; right; exact Hin).
      unfold g1. rewrite atom_of_upd_atom. destruct (k =? n) eqn:E; [|reflexivity].
      apply Z.eqb_eq in E. subst. exfalso. apply Hk. cbn [mapped map]. left. exact Hn.
Qed.

Lemma bfix_loop_ok mp bx g0 : forall g hs,
  graph_of g = graph_of g0 ->
  (forall p q o, In (p, q, o) bx -> exists n m, zget mp p = Some n /\ zget mp q = Some m /\ adjacent g0 n m = true) ->
  exists g' hs', bfix_loop mp bx g hs = Ok (g', hs') /\ m_atoms g' = m_atoms g /\ graph_of g' = graph_of g0.
Proof.
  induction bx as [|[[p q] o] bx IH]; intros g hs Hg Hall; cbn [bfix_loop].
  - exists g, hs. repeat split. exact Hg.
  - destruct (Hall p q o (or_introl eq_refl)) as [n [m [Hp [Hq Hadj]]]]. rewrite Hp, Hq.
    rewrite <- (adjacent_graph g g0 n m Hg) in Hadj.
    destruct (patch_bond_adjacent g n m o Hadj) as [g1 [Hpb [Hat Hgr]]]. rewrite Hpb.
    destruct (IH g1 (add_set m (add_set n hs))) as [g' [hs' [Hrun [Hat' Hgr']]]].
    + rewrite Hgr. exact Hg.
    + intros p' q' o' Hin. apply (Hall p' q' o'). right. exact Hin.
    + exists g', hs'. split; [exact Hrun|]. split; [rewrite Hat'; exact Hat|exact Hgr'].
Qed.

(* ---- what match_ok gives ---- *)
Lemma patom_of_some r p a : patom_of r p = Some a -> In a (r_atoms r) /\ pa_id a = p.
Proof. unfold patom_of. intros H. apply find_some in H. destruct H as [H1 H2]. apply Z.eqb_eq in H2. tauto. Qed.

Lemma pattern_id_patom r p : zmem p (pattern_ids r) = true -> exists a, patom_of r p = Some a.
Proof.
  intros H. apply zmem_In in H. unfold pattern_ids in H. apply in_map_iff in H. destruct H as [a [Hid Hin]].
  unfold patom_of. destruct (find (fun a0 => pa_id a0 =? p) (r_atoms r)) eqn:E; [eexists; reflexivity|].
  exfalso. pose proof (find_none _ _ E a Hin) as Hn. cbn in Hn. rewrite Hid, Z.eqb_refl in Hn. discriminate.
Qed.

Lemma match_ok_parts r g mp : match_ok r g mp = true ->
  NoDup (values mp) /\ (forall a, In a (r_atoms r) -> patom_ok g mp a = true) /\
  (forall x, In x (r_bonds r) -> exists n m, zget mp (pb_n x) = Some n /\ zget mp (pb_m x) = Some m /\
                                              adjacent g n m = true /\ adjacent g m n = true).
Proof.
  unfold match_ok. rewrite !andb_true_iff. intros [[[H1 H2] H3] H4].
  split; [exact (nodup_z_NoDup _ H1)|]. split.
  - rewrite forallb_forall in H3. exact H3.
  - rewrite forallb_forall in H4. intros x Hx. specialize (H4 x Hx).
    destruct (zget mp (pb_n x)) as [n|]; [|discriminate]. destruct (zget mp (pb_m x)) as [m|]; [|discriminate].
    apply andb_true_iff in H4. exists n, m. tauto.
Qed.

Lemma patom_ok_parts g mp a : patom_ok g mp a = true ->
  exists n x, zget mp (pa_id a) = Some n /\ atom_of g n = Some x /\
    (forall c, pa_chg a = Some c -> a_chg x = c) /\
    (forall nums, pa_kind a = PElem nums -> zmem (a_num x) nums = true) /\
    (pa_kind a = PMetal -> is_metal (a_num x) = true).
Proof.
  unfold patom_ok. destruct (zget mp (pa_id a)) as [n|] eqn:En; [|discriminate].
  destruct (atom_of g n) as [x|] eqn:Ex; [|discriminate]. rewrite andb_true_iff. intros [H1 H2].
  exists n, x. split; [reflexivity|]. split; [exact Ex|]. split; [|split].
  - intros c Hc. rewrite Hc in H1. apply Z.eqb_eq. exact H1.
  - intros nums Hk. rewrite Hk in H2. exact H2.
  - intros Hk. rewrite Hk in H2. exact H2.
Qed.

Definition metal_atom (g : mol) (n : Z) : bool := match atom_of g n with Some a => is_metal (a_num a) | None => false end.

(* the loop invariant of one rule: g0 is the molecule the matcher saw *)
Record inv (r : rule) (g0 : mol) (st : pstate) : Prop := mkInv {
  inv_skel : skeleton (ps_mol st) = skeleton g0;
  inv_graph : graph_of (ps_mol st) = graph_of g0;
  inv_total : total_charge (ps_mol st) = total_charge g0;
  inv_chg : forall n, zmem n (ps_seen st) = false -> has_unc r && metal_atom g0 n = false ->
                      atom_of (ps_mol st) n = atom_of g0 n }.

Lemma total_atoms g h : m_atoms g = m_atoms h -> total_charge g = total_charge h.
Proof. unfold total_charge. intros ->. reflexivity. Qed.
Lemma atom_of_atoms g h n : m_atoms g = m_atoms h -> atom_of g n = atom_of h n.
Proof. unfold atom_of. intros ->. reflexivity. Qed.

Lemma map_all_ok r g mp : match_ok r g mp = true -> forall ps,
  (forall p, In p ps -> zmem p (pattern_ids r) = true) ->
  exists l, map_all mp ps = Ok l /\ (forall n, In n l <-> exists p, In p ps /\ zget mp p = Some n).
Proof.
  intros Hm. destruct (match_ok_parts _ _ _ Hm) as [_ [Hat _]].
  induction ps as [|p ps IH]; intros Hps; cbn [map_all].
  - exists []. split; [reflexivity|]. intros n. split; [intros []|intros [p [[] _]]].
  - destruct (pattern_id_patom r p (Hps p (or_introl eq_refl))) as [a Ha].
    destruct (patom_of_some _ _ _ Ha) as [Hin Hid].
    destruct (patom_ok_parts _ _ _ (Hat a Hin)) as [n [x [Hn _]]]. rewrite Hid in Hn. rewrite Hn.
    destruct (IH (fun q Hq => Hps q (or_intror Hq))) as [l [Hl Hiff]]. rewrite Hl.
    exists (n :: l). split; [reflexivity|]. intros k. cbn [In]. rewrite Hiff. split.
    + intros [-> | [q [Hq Hk]]]; [exists p; split; [left; reflexivity|exact Hn] | exists q; split; [right; exact Hq|exact Hk]].
    + intros [q [[-> | Hq] Hk]]; [left; congruence | right; exists q; split; assumption].
Qed.

Lemma has_unc_false_all r : has_unc r = false -> forall e, In e (r_afix r) -> constrained r (af_atom e) = true.
Proof.
  unfold has_unc. intros H e He. destruct (constrained r (af_atom e)) eqn:E; [reflexivity|].
  exfalso. assert (existsb (fun e0 => negb (constrained r (af_atom e0))) (r_afix r) = true).
  { apply existsb_exists. exists e. split; [exact He|]. rewrite E. reflexivity. }
  congruence.
Qed.

Lemma names_ok_parts r : names_ok r = true ->
  NoDup (map af_atom (r_afix r)) /\
  (forall e, In e (r_afix r) -> zmem (af_atom e) (pattern_ids r) = true) /\
  (forall p q o, In (p, q, o) (r_bfix r) -> zmem p (pattern_ids r) = true /\ zmem q (pattern_ids r) = true) /\
  (forall p, In p (r_any r) -> zmem p (pattern_ids r) = true) /\
  (forall e, In e (r_afix r) -> constrained r (af_atom e) = true -> zmem (af_atom e) (r_any r) = false).
Proof.
  unfold names_ok. rewrite !andb_true_iff. intros [[[[[H1 H2] H3] H4] H5] H6].
  split; [exact (nodup_z_NoDup _ H2)|]. rewrite forallb_forall in H3, H4, H5, H6. repeat split.
  - exact H3.
  - specialize (H4 _ H). cbn in H4. apply andb_true_iff in H4. tauto.
  - specialize (H4 _ H). cbn in H4. apply andb_true_iff in H4. tauto.
  - exact H5.
  - intros e He Hc. specialize (H6 e He). rewrite Hc in H6. cbn in H6. rewrite orb_false_r in H6.
    apply negb_true_iff in H6. exact H6.
Qed.

(* a constrained patched atom of an accepted match still carries the charge the pattern names *)
Lemma constrained_entry_ready r g0 mp st e :
  range_ok r = true -> names_ok r = true -> match_ok r g0 mp = true -> inv r g0 st ->
  disjoint (values mp) (ps_seen st) = true ->
  In e (r_afix r) -> constrained r (af_atom e) = true -> (has_unc r = false \/ nonmetal_elem r (af_atom e) = true) ->
  exists n a, zget mp (af_atom e) = Some n /\ atom_of (ps_mol st) n = Some a /\ a_chg a + af_delta e <= 4 /\
              -4 <= a_chg a + af_delta e /\ atom_of (ps_mol st) n = atom_of g0 n.
Proof.
  intros Hr Hnm Hm Hinv Hdis He Hc Hnon.
  destruct (match_ok_parts _ _ _ Hm) as [_ [Hat _]].
  unfold constrained in Hc. destruct (patom_of r (af_atom e)) as [pa|] eqn:Epa; [|discriminate].
  destruct (pa_chg pa) as [c|] eqn:Ec; [|discriminate].
  destruct (patom_of_some _ _ _ Epa) as [Hin Hid].
  destruct (patom_ok_parts _ _ _ (Hat pa Hin)) as [n [x [Hn [Hx [Hchg [Hel _]]]]]]. rewrite Hid in Hn.
  unfold range_ok in Hr. rewrite forallb_forall in Hr. specialize (Hr e He). rewrite Epa, Ec in Hr.
  apply andb_true_iff in Hr. destruct Hr as [Hlo Hhi]. apply Z.leb_le in Hlo, Hhi.
  assert (Hsame : atom_of (ps_mol st) n = atom_of g0 n).
  { apply (inv_chg _ _ _ Hinv).
    - exact (disjoint_notin _ _ _ Hdis (zget_value_in _ _ _ Hn)).
    - destruct Hnon as [Hu | Hnm']; [rewrite Hu; reflexivity|].
      unfold nonmetal_elem in Hnm'. rewrite Epa in Hnm'. destruct (pa_kind pa) as [nums| |] eqn:Ek; try discriminate.
      rewrite forallb_forall in Hnm'. specialize (Hel nums eq_refl). apply zmem_In in Hel.
      specialize (Hnm' _ Hel). apply negb_true_iff in Hnm'. unfold metal_atom. rewrite Hx, Hnm'. apply andb_false_r. }
  exists n, x. rewrite Hsame. rewrite (Hchg c Ec). repeat split; try assumption; lia.
Qed.

Lemma mapped_nodup (mp : mapping) (fx : list afix_entry) :
  NoDup (values mp) -> NoDup (map af_atom fx) ->
  (forall e, In e fx -> exists n, zget mp (af_atom e) = Some n) -> NoDup (mapped mp fx).
Proof.
  intros Hv. induction fx as [|e fx IH]; cbn [map mapped]; intros Hk Hall; [constructor|].
  inversion Hk as [|? ? Hnotin Hk']; subst. constructor.
  - intros Hin. apply in_map_iff in Hin. destruct Hin as [e' [Heq He']].
    destruct (Hall e (or_introl eq_refl)) as [n Hn]. rewrite Hn in Heq.
    assert (af_atom e' = af_atom e) by (exact (nodup_values_inj mp _ _ n Hv (zget_In _ _ _ Heq) (zget_In _ _ _ Hn))).
    apply Hnotin. rewrite <- H. apply in_map. exact He'.
  - apply IH; [exact Hk'|]. intros e' He'. apply Hall. right. exact He'.
Qed.

(* ---- one accepted or skipped match keeps the invariant, and never fails ---- *)
Lemma bfix_adjacent r g0 mp : bfix_on_bonds r = true -> match_ok r g0 mp = true ->
  forall p q o, In (p, q, o) (r_bfix r) -> exists n m, zget mp p = Some n /\ zget mp q = Some m /\ adjacent g0 n m = true.
Proof.
  intros Hb Hm p q o Hin. destruct (match_ok_parts _ _ _ Hm) as [_ [_ Hbd]].
  unfold bfix_on_bonds in Hb. rewrite forallb_forall in Hb. specialize (Hb _ Hin). cbn [fst snd] in Hb.
  rewrite !andb_true_iff in Hb. destruct Hb as [[Hpb _] _].
  unfold is_pbond in Hpb. rewrite existsb_exists in Hpb. destruct Hpb as [x [Hx Hor]].
  destruct (Hbd x Hx) as [n [m [Hn [Hm' [Ha1 Ha2]]]]].
  apply orb_true_iff in Hor. destruct Hor as [H|H]; apply andb_true_iff in H; destruct H as [H1 H2];
    apply Z.eqb_eq in H1, H2; rewrite <- H1, <- H2.
  - exists n, m. auto.
  - exists m, n. auto.
Qed.

Lemma afix_entry_mapped r g0 mp : names_ok r = true -> match_ok r g0 mp = true ->
  forall e, In e (r_afix r) -> exists n x, zget mp (af_atom e) = Some n /\ atom_of g0 n = Some x.
Proof.
  intros Hnm Hm e He. destruct (names_ok_parts r Hnm) as [_ [Hpat _]]. destruct (match_ok_parts _ _ _ Hm) as [_ [Hat _]].
  destruct (pattern_id_patom r _ (Hpat e He)) as [a Ha]. destruct (patom_of_some _ _ _ Ha) as [Hin Hid].
  destruct (patom_ok_parts _ _ _ (Hat a Hin)) as [n [x [Hn [Hx _]]]]. rewrite Hid in Hn. exists n, x. auto.
Qed.

Lemma all_constrained_no_unc r : forallb (fun x => constrained r (af_atom x)) (r_afix r) = true -> has_unc r = false.
Proof.
  intros H. unfold has_unc. destruct (existsb _ _) eqn:E; [|reflexivity].
  rewrite existsb_exists in E. destruct E as [e [He Hn]]. rewrite forallb_forall in H. rewrite (H e He) in Hn. discriminate.
Qed.

Lemma unc_is_metal r e : metal_first r = true -> In e (r_afix r) -> constrained r (af_atom e) = false ->
  is_pmetal r (af_atom e) = true /\ has_unc r = true.
Proof.
  intros Hmf He Hc. split.
  - unfold metal_first in Hmf. destruct (r_afix r) as [|e0 rest]; [destruct He|].
    apply andb_true_iff in Hmf. destruct Hmf as [Hrest Hfirst]. destruct He as [-> | He].
    + rewrite Hc in Hfirst. cbn [orb] in Hfirst. rewrite !andb_true_iff in Hfirst. tauto.
    + rewrite forallb_forall in Hrest. rewrite (Hrest e He) in Hc. discriminate.
  - unfold has_unc. apply existsb_exists. exists e. split; [exact He|]. rewrite Hc. reflexivity.
Qed.

Lemma pmetal_is_metal r g0 mp p n x : match_ok r g0 mp = true -> is_pmetal r p = true ->
  zget mp p = Some n -> atom_of g0 n = Some x -> is_metal (a_num x) = true.
Proof.
  intros Hm Hp Hn Hx. destruct (match_ok_parts _ _ _ Hm) as [_ [Hat _]].
  unfold is_pmetal in Hp. destruct (patom_of r p) as [a|] eqn:Ea; [|discriminate].
  destruct (pa_kind a) eqn:Ek; try discriminate.
  destruct (patom_of_some _ _ _ Ea) as [Hin Hid].
  destruct (patom_ok_parts _ _ _ (Hat a Hin)) as [n' [x' [Hn' [Hx' [_ [_ Hmet]]]]]].
  rewrite Hid, Hn in Hn'. inversion Hn'; subst n'. rewrite Hx in Hx'. inversion Hx'; subst x'. exact (Hmet Ek).
Qed.

Lemma in_mapped mp fx k : In (Some k) (mapped mp fx) -> exists e, In e fx /\ zget mp (af_atom e) = Some k.
Proof. unfold mapped. intros H. apply in_map_iff in H. destruct H as [e [He Hin]]. exists e. auto. Qed.

Lemma opt_z_dec (a b : option Z) : {a = b} + {a <> b}.
Proof. decide equality. apply Z.eq_dec. Qed.

Lemma afix_outcome r g0 mp st :
  rule_ok r = true -> NoDup (ids g0) -> match_ok r g0 mp = true -> inv r g0 st ->
  disjoint (values mp) (ps_seen st) = true ->
  (exists g' hs', afix_loop mp (r_afix r) (ps_mol st) (ps_hs st) = AfDone g' hs' /\
     total_charge g' = total_charge (ps_mol st) + delta_sum r /\
     (forall k, ~ In (Some k) (mapped mp (r_afix r)) -> atom_of g' k = atom_of (ps_mol st) k))
  \/ (exists hs', afix_loop mp (r_afix r) (ps_mol st) (ps_hs st) = AfBad (ps_mol st) hs').
Proof.
  intros Hok Hnd Hm Hinv Hdis.
  destruct (rule_ok_parts r Hok) as [Hrange [Hmf [Hnames _]]].
  destruct (names_ok_parts r Hnames) as [Hafnd _].
  destruct (match_ok_parts _ _ _ Hm) as [Hvnd _].
  assert (Hnds : NoDup (ids (ps_mol st))) by (rewrite (skeleton_ids _ _ (inv_skel _ _ _ Hinv)); exact Hnd).
  assert (Hmapped : forall e, In e (r_afix r) -> exists n, zget mp (af_atom e) = Some n).
  { intros e He. destruct (afix_entry_mapped r g0 mp Hnames Hm e He) as [n [x [Hn _]]]. exists n. exact Hn. }
  pose proof (mapped_nodup mp (r_afix r) Hvnd Hafnd Hmapped) as Hmnd.
  destruct (forallb (fun x => constrained r (af_atom x)) (r_afix r)) eqn:Eall.
  - (* every patched atom has a constrained charge *)
    left. pose proof (all_constrained_no_unc r Eall) as Hnu. rewrite forallb_forall in Eall.
    destruct (afix_loop_done mp (r_afix r) (ps_mol st) (ps_hs st) Hnds Hmnd) as [g' [hs' [Hrun [Htot Hun]]]].
    + intros e He.
      destruct (constrained_entry_ready r g0 mp st e Hrange Hnames Hm Hinv Hdis He (Eall e He) (or_introl Hnu))
        as [n [a [Hn [Ha [Hle _]]]]]. exists n, a. auto.
    + exists g', hs'. split; [exact Hrun|]. split; [exact Htot|exact Hun].
  - (* the first entry is the unconstrained any-metal atom *)
    pose proof Hmf as Hmf'. unfold metal_first in Hmf'. unfold delta_sum. unfold mapped in Hmnd |- *.
    remember (r_afix r) as fx eqn:Efx.
    assert (Hin_all : forall x, In x fx -> In x (r_afix r)) by (intros x0 Hx0; rewrite <- Efx; exact Hx0).
    destruct fx as [|e rest]; [cbn in Eall; discriminate|].
    apply andb_true_iff in Hmf'. destruct Hmf' as [Hrest Hfirst].
    cbn [forallb] in Eall. rewrite Hrest, andb_true_r in Eall. rewrite Eall in Hfirst. cbn [orb] in Hfirst.
    rewrite !andb_true_iff in Hfirst. destruct Hfirst as [[Hpos Hpm] Hnonm]. apply Z.leb_le in Hpos.
    destruct (afix_entry_mapped r g0 mp Hnames Hm e (Hin_all e (or_introl eq_refl))) as [n [x [Hn Hx]]].
    destruct (ids_atom_of (ps_mol st) n) as [a Ha].
    { rewrite (skeleton_ids _ _ (inv_skel _ _ _ Hinv)). exact (atom_of_ids _ _ _ Hx). }
    cbn [afix_loop]. rewrite Hn, Ha.
    destruct (a_chg a + af_delta e >? 4) eqn:Egt.
    + right. eexists. reflexivity.
    + left. cbn [map] in Hmnd. inversion Hmnd as [|? ? Hnotin Hmnd']; subst. rewrite Hn in Hnotin.
      set (g1 := upd_atom (ps_mol st) n (set_chg_rad (a_chg a + af_delta e) (af_rad e))).
      assert (Hnd1 : NoDup (ids g1)) by (unfold g1; rewrite ids_upd_atom; exact Hnds).
      rewrite forallb_forall in Hrest, Hnonm.
      destruct (afix_loop_done mp rest g1 (add_set n (ps_hs st)) Hnd1 Hmnd') as [g' [hs' [Hrun [Htot Hun]]]].
      * intros e' He'.
        destruct (constrained_entry_ready r g0 mp st e' Hrange Hnames Hm Hinv Hdis (Hin_all e' (or_intror He')) (Hrest e' He')
                    (or_intror (Hnonm e' He'))) as [n' [a' [Hn' [Ha' [Hle _]]]]].
        exists n', a'. split; [exact Hn'|]. split; [|exact Hle].
        unfold g1. rewrite atom_of_upd_atom. destruct (n' =? n) eqn:E; [|exact Ha'].
        apply Z.eqb_eq in E. subst n'. exfalso. apply Hnotin. rewrite <- Hn'.
        apply (in_map (fun e0 => zget mp (af_atom e0))). exact He'.
      * exists g', hs'. split; [exact Hrun|]. split.
        -- rewrite Htot. unfold g1. rewrite (total_upd_atom (ps_mol st) n _ a Hnds Ha).
           cbn [map zsum fold_right a_chg set_chg_rad]. unfold zsum. lia.
        -- intros k Hk. rewrite Hun by (intros Hin; apply Hk; cbn [map]; right; exact Hin).
           unfold g1. rewrite atom_of_upd_atom. destruct (k =? n) eqn:E; [|reflexivity].
           apply Z.eqb_eq in E. subst k. exfalso. apply Hk. cbn [map]. left. exact Hn.
Qed.

Lemma graph_of_adj g h : m_adj g = m_adj h -> graph_of g = graph_of h.
Proof. unfold graph_of. intros ->. reflexivity. Qed.

Lemma inv_weaken_seen r g0 g seen seen' hs hs' log log' :
  inv r g0 (mkPS g seen hs log) -> (forall n, zmem n seen' = false -> zmem n seen = false) ->
  inv r g0 (mkPS g seen' hs' log').
Proof.
  intros [H1 H2 H3 H4] Hs. constructor; cbn [ps_mol ps_seen] in *; try assumption.
  intros n Hn Hu. apply H4; [apply Hs; exact Hn|exact Hu].
Qed.

Lemma apply_match_inv ridx r g0 mp st :
  rule_ok r = true -> delta_sum r = 0 -> NoDup (ids g0) -> match_ok r g0 mp = true -> inv r g0 st ->
  exists st', apply_match ridx r mp st = Ok st' /\ inv r g0 st'.
Proof.
  intros Hok Hbal Hnd Hm Hinv.
  destruct (rule_ok_parts r Hok) as [Hrange [Hmf [Hnames Hbfix]]].
  destruct (names_ok_parts r Hnames) as [Hafnd [Hafpat [Hbfpat [Hanypat Hanycon]]]].
  destruct (match_ok_parts _ _ _ Hm) as [Hvnd [Hat Hbd]].
  unfold apply_match.
  destruct (disjoint (values mp) (ps_seen st)) eqn:Hdis; cbn [negb].
  2: { exists st. split; [reflexivity|exact Hinv]. }
  destruct (map_all_ok r g0 mp Hm (r_any r) Hanypat) as [anys [Hanys Hanys_iff]]. rewrite Hanys.
  set (seen' := union_set (ps_seen st) (filter (fun x => negb (zmem x anys)) (values mp))).
  assert (Hseen : forall n, zmem n seen' = false -> zmem n (ps_seen st) = false).
  { intros n Hn. unfold seen' in Hn. rewrite zmem_union_set in Hn. apply orb_false_iff in Hn. tauto. }
  destruct st as [g seen hs log]. cbn [ps_mol ps_seen ps_hs ps_log] in *.
  destruct (afix_outcome r g0 mp (mkPS g seen hs log) Hok Hnd Hm Hinv Hdis) as [[g' [hs' [Hrun [Htot Hun]]]] | [hs' Hrun]];
    cbn [ps_mol ps_hs] in Hrun; rewrite Hrun.
  - (* the atom patch completed: now the bonds *)
    pose proof (afix_loop_skeleton mp (r_afix r) g hs) as Hsk. rewrite Hrun in Hsk. destruct Hsk as [Hsk Hadj].
    destruct (bfix_loop_ok mp (r_bfix r) g0 g' hs') as [g'' [hs'' [Hb [Hat'' Hgr'']]]].
    + rewrite (graph_of_adj _ _ Hadj). exact (inv_graph _ _ _ Hinv).
    + exact (bfix_adjacent r g0 mp Hbfix Hm).
    + rewrite Hb. eexists. split; [reflexivity|]. constructor; cbn [ps_mol ps_seen].
      * rewrite (skeleton_atoms _ _ Hat''), Hsk. exact (inv_skel _ _ _ Hinv).
      * exact Hgr''.
      * rewrite (total_atoms _ _ Hat''), Htot, Hbal, Z.add_0_r. exact (inv_total _ _ _ Hinv).
      * intros k Hk Hu. rewrite (atom_of_atoms _ _ k Hat'').
        destruct (in_dec opt_z_dec (Some k) (mapped mp (r_afix r))) as [Hin | Hnin].
        -- exfalso. destruct (in_mapped _ _ _ Hin) as [e [He Hke]].
           destruct (constrained r (af_atom e)) eqn:Ec.
           ++ (* a constrained patched atom is not an any-atom: it went into seen' *)
              assert (Hks : zmem k seen' = true).
              { unfold seen'. rewrite zmem_union_set, zmem_filter. apply orb_true_iff. right.
                rewrite (zget_value_in _ _ _ Hke). cbn [andb]. apply negb_true_iff.
                destruct (zmem k anys) eqn:Ek; [|reflexivity]. exfalso.
                apply zmem_In in Ek. apply Hanys_iff in Ek. destruct Ek as [p [Hp Hkp]].
                assert (p = af_atom e) by (exact (nodup_values_inj mp _ _ k Hvnd (zget_In _ _ _ Hkp) (zget_In _ _ _ Hke))).
                subst p. pose proof (Hanycon e He Ec) as Hno. apply zmem_In in Hp. rewrite Hp in Hno. discriminate. }
              rewrite Hks in Hk. discriminate.
           ++ (* the unconstrained one is the any-metal atom *)
              destruct (unc_is_metal r e Hmf He Ec) as [Hpm Hhu].
              destruct (afix_entry_mapped r g0 mp Hnames Hm e He) as [n [x [Hn Hx]]].
              rewrite Hke in Hn. inversion Hn; subst n.
              pose proof (pmetal_is_metal r g0 mp _ k x Hm Hpm Hke Hx) as Hmet.
              unfold metal_atom in Hu. rewrite Hx, Hhu, Hmet in Hu. discriminate.
        -- rewrite (Hun k Hnin). exact (inv_chg _ _ _ Hinv k (Hseen k Hk) Hu).
  - (* bad charge formed: nothing was patched *)
    eexists. split; [reflexivity|]. exact (inv_weaken_seen r g0 g seen seen' hs hs' log _ Hinv Hseen).
Qed.

Lemma matches_loop_inv ridx r g0 mps : forall st,
  rule_ok r = true -> delta_sum r = 0 -> NoDup (ids g0) ->
  (forall mp, In mp mps -> match_ok r g0 mp = true) -> inv r g0 st ->
  exists st', matches_loop ridx r mps st = Ok st' /\ inv r g0 st'.
Proof.
  induction mps as [|mp mps IH]; intros st Hok Hbal Hnd Hall Hinv; cbn [matches_loop].
  - exists st. split; [reflexivity|exact Hinv].
  - destruct (apply_match_inv ridx r g0 mp st Hok Hbal Hnd (Hall mp (or_introl eq_refl)) Hinv) as [st1 [H1 Hinv1]].
    rewrite H1. apply IH; try assumption. intros mp' Hin. apply Hall. right. exact Hin.
Qed.

Lemma inv_start r g log : inv r g (mkPS g [] [] log).
Proof. constructor; cbn [ps_mol ps_seen]; try reflexivity. Qed.

(* what a pass never changes *)
Definition conserved (g g' : mol) : Prop :=
  skeleton g' = skeleton g /\ graph_of g' = graph_of g /\ total_charge g' = total_charge g.

Lemma conserved_refl g : conserved g g.
Proof. repeat split. Qed.
Lemma conserved_trans g1 g2 g3 : conserved g1 g2 -> conserved g2 g3 -> conserved g1 g3.
Proof. intros [A1 [A2 A3]] [B1 [B2 B3]]. repeat split; congruence. Qed.

Section PassCharge.
  Variable matches : Z -> Z -> rule -> mol -> list mapping.
  Variable calc_h : mol -> Z -> option Z.

  (* the hypotheses on a rule list: the table obligations, a sound matcher, and: a rule that matches is balanced *)
  Definition table_ok (rules : list rule) : Prop := forall r, In r rules -> rule_ok r = true.
  Definition matcher_sound (rules : list rule) : Prop :=
    forall stage ridx r g mp, In r rules -> In mp (matches stage ridx r g) -> match_ok r g mp = true.
  Definition unbalanced_silent (rules : list rule) : Prop :=
    forall stage ridx r g, In r rules -> delta_sum r <> 0 -> matches stage ridx r g = [].

  Lemma recalc_conserved g hs : conserved g (recalc calc_h g hs).
  Proof.
    repeat split; [apply recalc_skeleton | apply graph_of_adj, recalc_graph | apply recalc_total].
  Qed.

  Theorem rules_loop_conserves stage fix_taut rules :
    table_ok rules -> matcher_sound rules -> unbalanced_silent rules ->
    forall ridx g log fixed, NoDup (ids g) ->
    exists g' log' fixed', rules_loop matches calc_h stage ridx rules fix_taut g log fixed = Ok (g', log', fixed') /\ conserved g g'.
  Proof.
    induction rules as [|r rules IH]; intros Htab Hsound Hsil ridx g log fixed Hnd; cbn [rules_loop].
    - exists g, log, fixed. split; [reflexivity|apply conserved_refl].
    - assert (Htab' : table_ok rules) by (intros x Hx; apply Htab; right; exact Hx).
      assert (Hsound' : matcher_sound rules) by (intros s i x g0 mp Hx; apply Hsound; right; exact Hx).
      assert (Hsil' : unbalanced_silent rules) by (intros s i x g0 Hx; apply Hsil; right; exact Hx).
      destruct (negb fix_taut && r_taut r); [apply IH; assumption|].
      assert (Hstep : exists st, matches_loop ridx r (matches stage ridx r g) (mkPS g [] [] log) = Ok st /\ conserved g (ps_mol st)).
      { destruct (Z.eq_dec (delta_sum r) 0) as [Hbal | Hunb].
        - destruct (matches_loop_inv ridx r g (matches stage ridx r g) (mkPS g [] [] log) (Htab r (or_introl eq_refl)) Hbal Hnd)
            as [st [Hrun Hinv]].
          + intros mp Hmp. exact (Hsound stage ridx r g mp (or_introl eq_refl) Hmp).
          + apply inv_start.
          + exists st. split; [exact Hrun|]. destruct Hinv as [H1 H2 H3 _]. repeat split; assumption.
        - rewrite (Hsil stage ridx r g (or_introl eq_refl) Hunb). cbn [matches_loop]. eexists. split; [reflexivity|].
          cbn [ps_mol]. apply conserved_refl. }
      destruct Hstep as [st [Hrun Hcons]]. rewrite Hrun.
      assert (Hnd1 : NoDup (ids (ps_mol st))) by (destruct Hcons as [Hs _]; rewrite (skeleton_ids _ _ Hs); exact Hnd).
      destruct (ps_hs st) as [|h hs].
      + destruct (IH Htab' Hsound' Hsil' (ridx + 1) (ps_mol st) (ps_log st) fixed Hnd1) as [g' [l' [f' [Hr Hc]]]].
        exists g', l', f'. split; [exact Hr|exact (conserved_trans _ _ _ Hcons Hc)].
      + pose proof (recalc_conserved (ps_mol st) (h :: hs)) as Hrc.
        assert (Hnd2 : NoDup (ids (recalc calc_h (ps_mol st) (h :: hs)))) by (destruct Hrc as [Hs _]; rewrite (skeleton_ids _ _ Hs); exact Hnd1).
        destruct (IH Htab' Hsound' Hsil' (ridx + 1) _ (ps_log st) (union_set fixed (h :: hs)) Hnd2) as [g' [l' [f' [Hr Hc]]]].
        exists g', l', f'. split; [exact Hr|exact (conserved_trans _ _ _ (conserved_trans _ _ _ Hcons Hrc) Hc)].
  Qed.

  (* one private __standardize call *)
  Theorem pass_conserves stage rules fix_taut g :
    table_ok rules -> matcher_sound rules -> unbalanced_silent rules -> NoDup (ids g) ->
    exists g' log fixed, standardize_pass matches calc_h stage rules fix_taut g = Ok (g', log, fixed) /\ conserved g g'.
  Proof. intros Ht Hs Hu Hnd. exact (rules_loop_conserves stage fix_taut rules Ht Hs Hu 0 g [] [] Hnd). Qed.

  (* the four calls of standardize() *)
  Theorem passes_conserve dbl sgl mtl fix_taut g :
    table_ok (dbl ++ sgl ++ mtl) -> matcher_sound (dbl ++ sgl ++ mtl) -> unbalanced_silent (dbl ++ sgl ++ mtl) -> NoDup (ids g) ->
    exists g' log fixed, standardize_passes matches calc_h dbl sgl mtl fix_taut g = Ok (g', log, fixed) /\ conserved g g'.
  Proof.
    intros Ht Hs Hu Hnd.
    assert (sub : forall (P : list rule -> Prop) l, (forall a b, (forall x, In x a -> In x b) -> P b -> P a) -> P (dbl ++ sgl ++ mtl) ->
                  (forall x, In x l -> In x (dbl ++ sgl ++ mtl)) -> P l) by (intros P l HP Hall Hin; exact (HP _ _ Hin Hall)).
    assert (Hd : forall x, In x dbl -> In x (dbl ++ sgl ++ mtl)) by (intros; apply in_or_app; left; assumption).
    assert (Hsg : forall x, In x sgl -> In x (dbl ++ sgl ++ mtl)) by (intros; apply in_or_app; right; apply in_or_app; left; assumption).
    assert (Hmt : forall x, In x mtl -> In x (dbl ++ sgl ++ mtl)) by (intros; apply in_or_app; right; apply in_or_app; right; assumption).
    assert (P1 : forall l, (forall x, In x l -> In x (dbl ++ sgl ++ mtl)) -> table_ok l /\ matcher_sound l /\ unbalanced_silent l).
    { intros l Hl. split; [|split].
      - intros x Hx. exact (Ht x (Hl x Hx)).
      - intros s i x g0 mp Hx. exact (Hs s i x g0 mp (Hl x Hx)).
      - intros s i x g0 Hx. exact (Hu s i x g0 (Hl x Hx)). }
    clear sub. destruct (P1 dbl Hd) as [Td [Sd Ud]]. destruct (P1 sgl Hsg) as [Tsg [Ssg Usg]]. destruct (P1 mtl Hmt) as [Tm [Sm Um]].
    unfold standardize_passes.
    destruct (pass_conserves 0 dbl fix_taut g Td Sd Ud Hnd) as [g1 [l1 [f1 [R1 C1]]]]. rewrite R1.
    assert (N1 : NoDup (ids g1)) by (destruct C1 as [Hsk _]; rewrite (skeleton_ids _ _ Hsk); exact Hnd).
    assert (Hsecond : exists g2 l2 f2, (match f1 with [] => Ok (g1, [], []) | _ => standardize_pass matches calc_h 1 dbl fix_taut g1 end) = Ok (g2, l2, f2)
                                       /\ conserved g1 g2).
    { destruct f1 as [|x f1].
      - exists g1, [], []. split; [reflexivity|apply conserved_refl].
      - exact (pass_conserves 1 dbl fix_taut g1 Td Sd Ud N1). }
    destruct Hsecond as [g2 [l2 [f2 [R2 C2]]]]. rewrite R2.
    assert (N2 : NoDup (ids g2)) by (destruct C2 as [Hsk _]; rewrite (skeleton_ids _ _ Hsk); exact N1).
    destruct (pass_conserves 2 sgl fix_taut g2 Tsg Ssg Usg N2) as [g3 [l3 [f3 [R3 C3]]]]. rewrite R3.
    assert (N3 : NoDup (ids g3)) by (destruct C3 as [Hsk _]; rewrite (skeleton_ids _ _ Hsk); exact N2).
    destruct (pass_conserves 3 mtl fix_taut g3 Tm Sm Um N3) as [g4 [l4 [f4 [R4 C4]]]]. rewrite R4.
    eexists _, _, _. split; [reflexivity|].
    exact (conserved_trans _ _ _ (conserved_trans _ _ _ (conserved_trans _ _ _ C1 C2) C3) C4).
  Qed.
End PassCharge.

(* ---- the generated tables satisfy the hypotheses: standardize() with the real rule collections ---- *)
Theorem real_tables_ok : table_ok all_rules.
Proof. exact table_rule_ok. Qed.

(* a matcher that never matches a pattern whose centre has no valence state (i.e. the input is valence-valid, see
   may_have_state_single_sound) makes the unbalanced rules silent *)
Definition respects_valence (matches : Z -> Z -> rule -> mol -> list mapping) : Prop :=
  forall stage ridx r g, In r all_rules -> centre_invalid r = true -> matches stage ridx r g = [].

Lemma real_unbalanced_silent matches : respects_valence matches -> unbalanced_silent matches all_rules.
Proof. intros H stage ridx r g Hr Hd. exact (H stage ridx r g Hr (table_unbalanced_invalid r Hr Hd)). Qed.

Theorem standardize_real_conserves matches calc_h fix_taut g :
  matcher_sound matches all_rules -> respects_valence matches -> NoDup (ids g) ->
  exists g' log fixed,
    standardize_passes matches calc_h double_rules single_rules metal_rules fix_taut g = Ok (g', log, fixed) /\ conserved g g'.
Proof.
  intros Hs Hv Hnd.
  exact (passes_conserve matches calc_h double_rules single_rules metal_rules fix_taut g real_tables_ok Hs (real_unbalanced_silent matches Hv) Hnd).
Qed.

(* non-vacuity: a sound matcher that does match, on a molecule where a rule fires and the net charge stays 0 *)
Definition nitro_mol : mol :=
  mkMol [(1, mkAtom 6 None 0 false (Some 3) None); (2, mkAtom 7 None 0 false (Some 0) None);
         (3, mkAtom 8 None 0 false (Some 0) None); (4, mkAtom 8 None 0 false (Some 0) None)]
        [(1, [(2, mkBond 1 None)]); (2, [(1, mkBond 1 None); (3, mkBond 2 None); (4, mkBond 2 None)]);
         (3, [(2, mkBond 2 None)]); (4, [(2, mkBond 2 None)])].
Definition nitro_rule_name : string := "[N;D3;z3](=[O;D1])(=[C,N,O])-[A]"%string.
Definition nitro_matches (stage ridx : Z) (r : rule) (g : mol) : list mapping :=
  if String.eqb (r_name r) nitro_rule_name then
    filter (match_ok r g) [[(1, 2); (2, 3); (3, 4); (4, 1)]; [(1, 2); (2, 4); (3, 3); (4, 1)]]
  else [].

Lemma nitro_sound : matcher_sound nitro_matches all_rules.
Proof.
  intros stage ridx r g mp _ Hin. unfold nitro_matches in Hin. destruct (String.eqb (r_name r) nitro_rule_name); [|destruct Hin].
  apply filter_In in Hin. tauto.
Qed.

Lemma nitro_respects_b : forallb (fun r => negb (centre_invalid r) || negb (String.eqb (r_name r) nitro_rule_name)) all_rules = true.
Proof. vm_compute. reflexivity. Qed.
Lemma nitro_respects : respects_valence nitro_matches.
Proof.
  intros stage ridx r g Hr Hc. pose proof (table_sweep _ nitro_respects_b r Hr) as H. cbn beta in H. rewrite Hc in H. cbn [negb orb] in H.
  unfold nitro_matches. apply negb_true_iff in H. rewrite H. reflexivity.
Qed.

(* the hypotheses of standardize_real_conserves are satisfiable by a matcher that does match: nitromethane spelled C-N(=O)=O,
   both embeddings of the nitro rule offered, the second one skipped as overlapping, N becomes +1, one O becomes -1 *)
Theorem conserves_nonvacuous :
  matcher_sound nitro_matches all_rules /\ respects_valence nitro_matches /\ NoDup (ids nitro_mol) /\
  exists g' log fixed,
    standardize_passes nitro_matches (fun _ _ => Some 0) double_rules single_rules metal_rules true nitro_mol = Ok (g', log, fixed) /\
    List.length log = 1%nat /\ charge_of g' 2 = Some 1 /\ charge_of g' 3 = Some (-1) /\ charge_of g' 4 = Some 0 /\
    bond_of g' 2 3 = Some (mkBond 1 None) /\ total_charge g' = total_charge nitro_mol.
Proof.
  split; [exact nitro_sound|]. split; [exact nitro_respects|]. split.
  - apply nodup_z_NoDup. vm_compute. reflexivity.
  - eexists _, _, _. split; [vm_compute; reflexivity|]. vm_compute. repeat split; reflexivity.
Qed.

(* ================================================================================================
   F. fix_resonance: applying a found path conserves skeleton, adjacency and net charge
   ================================================================================================ *)
Lemma apply_orders_atoms : forall p g g', apply_orders g p = Ok g' -> m_atoms g' = m_atoms g /\ graph_of g' = graph_of g.
Proof.
  induction p as [|[[n m] o] p IH]; intros g g'; cbn [apply_orders].
  - intros H. inversion H. split; reflexivity.
  - destruct (zget (m_adj g) n) as [nb|]; [|discriminate]. destruct (zmem m (keys nb)); [|discriminate].
    intros H. destruct (IH _ _ H) as [H1 H2]. split; [rewrite H1; reflexivity|].
    rewrite H2. unfold graph_of. cbn [m_adj]. rewrite !graph_set_bond_dir. reflexivity.
Qed.

Lemma keeps_chg_shift d : keeps_elem (fun a => set_chg (a_chg a + d) a).
Proof. intros a. split; reflexivity. Qed.

Theorem charge_path_conserves g n p g' : NoDup (ids g) -> apply_charge_path g n p = Ok g' -> conserved g g'.
Proof.
  unfold apply_charge_path. set (m := path_end n p).
  destruct (atom_of g m) as [am|] eqn:Em; [|discriminate]. destruct (atom_of g n) as [an|] eqn:En; [|discriminate].
  intros Hnd H. destruct (apply_orders_atoms _ _ _ H) as [Hat Hgr].
  set (f1 := fun a => set_chg (a_chg a - 1) a) in *. set (f2 := fun a => set_chg (a_chg a + 1) a) in *.
  set (g1 := upd_atom g m f1) in *.
  assert (K1 : keeps_elem f1) by (intros a; split; reflexivity).
  assert (K2 : keeps_elem f2) by (intros a; split; reflexivity).
  repeat split.
  - rewrite (skeleton_atoms _ _ Hat). unfold g1. rewrite !skeleton_upd_atom by assumption. reflexivity.
  - rewrite Hgr. reflexivity.
  - rewrite (total_atoms _ _ Hat).
    assert (Hnd1 : NoDup (ids g1)) by (unfold g1; rewrite ids_upd_atom; exact Hnd).
    assert (E1 : exists a1, atom_of g1 n = Some a1).
    { unfold g1. rewrite atom_of_upd_atom. rewrite En. destruct (n =? m); eexists; reflexivity. }
    destruct E1 as [a1 E1]. rewrite (total_upd_atom g1 n f2 a1 Hnd1 E1).
    unfold g1. rewrite (total_upd_atom g m f1 am Hnd Em). unfold f1, f2. cbn [a_chg set_chg set_chg_rad]. lia.
Qed.

Theorem radical_path_conserves g n p g' : NoDup (ids g) -> apply_radical_path g n p = Ok g' -> conserved g g'.
Proof.
  unfold apply_radical_path. set (m := path_end n p).
  destruct (atom_of g m) as [am|] eqn:Em; [|discriminate]. destruct (atom_of g n) as [an|] eqn:En; [|discriminate].
  intros Hnd H. destruct (apply_orders_atoms _ _ _ H) as [Hat Hgr].
  set (f := fun a => set_chg_rad (a_chg a) (Some false) a) in *.
  assert (K : keeps_elem f) by (intros a; split; reflexivity).
  set (g1 := upd_atom g n f) in *.
  repeat split.
  - rewrite (skeleton_atoms _ _ Hat). unfold g1. rewrite !skeleton_upd_atom by assumption. reflexivity.
  - rewrite Hgr. reflexivity.
  - rewrite (total_atoms _ _ Hat).
    assert (Hnd1 : NoDup (ids g1)) by (unfold g1; rewrite ids_upd_atom; exact Hnd).
    assert (E1 : exists a1, atom_of g1 m = Some a1).
    { unfold g1. rewrite atom_of_upd_atom. rewrite Em. destruct (m =? n); eexists; reflexivity. }
    destruct E1 as [a1 E1]. rewrite (total_upd_atom g1 m f a1 Hnd1 E1).
    unfold g1. rewrite (total_upd_atom g n f an Hnd En). unfold f. cbn [a_chg set_chg_rad]. lia.
Qed.

(* standardize_charges: the patch of one accepted match moves one unit of charge between two atoms the pattern constrains *)
Theorem charged_patch_conserves g d u ad au :
  NoDup (ids g) -> d <> u -> atom_of g d = Some ad -> atom_of g u = Some au -> a_chg ad = 1 -> a_chg au = 0 ->
  conserved g (charged_patch g d u).
Proof.
  intros Hnd Hdu Hd Hu Hcd Hcu. unfold charged_patch.
  assert (K0 : keeps_elem (set_chg 0)) by (intros a; split; reflexivity).
  assert (K1 : keeps_elem (set_chg 1)) by (intros a; split; reflexivity).
  repeat split.
  - rewrite !skeleton_upd_atom by assumption. reflexivity.
  - assert (Hnd1 : NoDup (ids (upd_atom g d (set_chg 0)))) by (rewrite ids_upd_atom; exact Hnd).
    assert (E : atom_of (upd_atom g d (set_chg 0)) u = Some au).
    { rewrite atom_of_upd_atom. destruct (u =? d) eqn:E; [apply Z.eqb_eq in E; congruence|exact Hu]. }
    rewrite (total_upd_atom _ u (set_chg 1) au Hnd1 E). rewrite (total_upd_atom g d (set_chg 0) ad Hnd Hd).
    cbn [a_chg set_chg set_chg_rad]. lia.
Qed.
