(* C14 -- proofs about Model.Standardize and the generated rule tables Gen.StdRules *)
From Coq Require Import ZArith List String Bool Lia.
From Model Require Import PyBase Graph PeriodicTable Standardize.
From Gen Require Import Elements StdRules.
Import ListNotations.
Open Scope Z_scope.

(* ================================================================================================
   A. table obligations: finite sweeps over the regenerated tables
   ================================================================================================ *)
Definition all_rules : list rule := double_rules ++ single_rules ++ metal_rules.

(* the rules whose deltas do NOT sum to zero, by name (str(pattern)) *)
Definition unbalanced_names : list string :=
  ["[P;D4;x0;z1]"; "[B;D4;z1]"; "[N;D4;z1]"; "[N;D2;z3;x2](=[N;D2;z2])#[N;D1;-]";
   "[P;D6;z1]([F;D1])([F;D1])([F;D1])([F;D1])([F;D1])[F;D1]"]%string.

Lemma table_sweep (P : rule -> bool) : forallb P all_rules = true -> forall r, In r all_rules -> P r = true.
Proof. intros H r Hr. rewrite forallb_forall in H. exact (H r Hr). Qed.

Lemma unbalanced_exact :
  map r_name (filter (fun r => negb (balanced r)) double_rules) = [] /\
  map r_name (filter (fun r => negb (balanced r)) single_rules) = unbalanced_names /\
  map r_name (filter (fun r => negb (balanced r)) metal_rules) = [].
Proof. vm_compute. repeat split; reflexivity. Qed.

Lemma table_balanced_b : forallb (fun r => balanced r || smem (r_name r) unbalanced_names) all_rules = true.
Proof. vm_compute. reflexivity. Qed.
Lemma table_balanced : forall r, In r all_rules -> delta_sum r = 0 \/ In (r_name r) unbalanced_names.
Proof.
  intros r Hr. pose proof (table_sweep _ table_balanced_b r Hr) as H.
  apply orb_true_iff in H. destruct H as [H | H].
  - left. apply Z.eqb_eq. exact H.
  - right. unfold smem in H. rewrite existsb_exists in H. destruct H as [x [Hx He]].
    apply String.eqb_eq in He. subst. exact Hx.
Qed.

(* every unbalanced rule can only be matched by a centre atom that has no valence state *)
Lemma table_unbalanced_invalid_b : forallb (fun r => balanced r || centre_invalid r) all_rules = true.
Proof. vm_compute. reflexivity. Qed.
Lemma table_unbalanced_invalid : forall r, In r all_rules -> delta_sum r <> 0 -> centre_invalid r = true.
Proof.
  intros r Hr Hd. pose proof (table_sweep _ table_unbalanced_invalid_b r Hr) as H.
  apply orb_true_iff in H. destruct H as [H | H]; [|exact H].
  apply Z.eqb_eq in H. contradiction.
Qed.

Lemma table_rule_ok_b : forallb rule_ok all_rules = true.
Proof. vm_compute. reflexivity. Qed.
Lemma table_rule_ok : forall r, In r all_rules -> rule_ok r = true.
Proof. exact (table_sweep _ table_rule_ok_b). Qed.

Lemma rule_ok_parts r : rule_ok r = true ->
  range_ok r = true /\ metal_first r = true /\ names_ok r = true /\ bfix_on_bonds r = true.
Proof. unfold rule_ok. rewrite !andb_true_iff. tauto. Qed.

Lemma table_self_test_b : forallb self_test all_rules = true.
Proof. vm_compute. reflexivity. Qed.

Lemma table_charged_b :
  forallb crule_balanced_fixed fixed_rules = true /\ forallb crule_balanced_morgan morgan_rules = true.
Proof. vm_compute. split; reflexivity. Qed.

(* the unconstrained patched atoms are exactly the any-metal heads of the metal rules *)
Definition has_unc (r : rule) : bool := existsb (fun e => negb (constrained r (af_atom e))) (r_afix r).
Lemma table_unc_only_metal_b :
  forallb (fun r => negb (has_unc r)) (double_rules ++ single_rules) = true /\
  List.length (filter has_unc metal_rules) = 13%nat.
Proof. vm_compute. split; reflexivity. Qed.

(* ================================================================================================
   B. valence states: the spec-level lemma behind centre_invalid
   ================================================================================================ *)
Lemma zsum_app a b : zsum (a ++ b) = zsum a + zsum b.
Proof. unfold zsum. induction a as [|x a IH]; cbn; [reflexivity|]. fold (zsum (a ++ b)) in *. fold (zsum a) in *. unfold zsum in *. lia. Qed.

(* an environment made of single bonds only *)
Definition all_single (e : env) : Prop := forall k, In k e -> fst k = 1.

Lemma env_count_nonneg e k : 0 <= env_count e k.
Proof. unfold env_count. lia. Qed.

Lemma env_count_pos_in e k : In k e -> 0 < env_count e k.
Proof.
  unfold env_count. induction e as [|x e IH]; cbn [In filter]; [tauto|].
  intros [-> | H].
  - rewrite Z.eqb_refl, String.eqb_refl. cbn. lia.
  - specialize (IH H). destruct ((fst x =? fst k) && String.eqb (snd x) (snd k)); cbn [List.length]; lia.
Qed.

Lemma env_count_zero_notin e k : (forall x, In x e -> fst x <> fst k) -> env_count e k = 0.
Proof.
  unfold env_count. induction e as [|x e IH]; cbn [filter]; intros H; [reflexivity|].
  destruct (fst x =? fst k) eqn:E.
  - apply Z.eqb_eq in E. exfalso. exact (H x (or_introl eq_refl) E).
  - cbn. apply IH. intros y Hy. apply H. right. exact Hy.
Qed.

Lemma env_sum_all_single e : all_single e -> env_sum e = Z.of_nat (List.length e).
Proof.
  unfold env_sum, zsum. induction e as [|x e IH]; intros H; [reflexivity|].
  cbn [map fold_right List.length]. rewrite IH by (intros k Hk; apply H; right; exact Hk).
  rewrite (H x (or_introl eq_refl)). lia.
Qed.

(* if need has a multiple bond and have has none, need is not covered *)
Lemma env_covers_single need have : all_single have -> env_covers need have = true -> forallb (fun k => fst k =? 1) need = true.
Proof.
  intros Hs Hc. unfold env_covers in Hc. rewrite forallb_forall in *. intros k Hk.
  specialize (Hc k Hk). apply Z.leb_le in Hc.
  destruct (fst k =? 1) eqn:E; [reflexivity|]. apply Z.eqb_neq in E.
  pose proof (env_count_pos_in need k Hk).
  rewrite (env_count_zero_notin have k) in Hc; [lia|].
  intros x Hx. rewrite (Hs x Hx). congruence.
Qed.

(* the `D<d>;z1` centre: no environment of d single bonds has a valence state *)
Lemma may_have_state_single_sound el chg rad have :
  all_single have ->
  has_state el chg rad have = true -> may_have_state_single el chg rad (Z.of_nat (List.length have)) = true.
Proof.
  intros Hs. unfold has_state, may_have_state_single. rewrite (env_sum_all_single have Hs).
  rewrite !orb_true_iff. intros [H | H]; [left; exact H|right].
  rewrite existsb_exists in *. destruct H as [x [Hx Hm]]. exists x. split; [exact Hx|].
  destruct x as [[[c r] imp] need]. unfold exception_state in Hm. unfold exception_state_single.
  rewrite (env_sum_all_single have Hs) in Hm.
  rewrite !andb_true_iff in *. destruct Hm as [[[Hc Hr] Hsum] Hcov].
  repeat split; try assumption. exact (env_covers_single need have Hs Hcov).
Qed.

(* ================================================================================================
   C. molecule updates
   ================================================================================================ *)
Lemma keys_upd_atoms n f l : keys (upd_atoms n f l) = keys l.
Proof. unfold keys, upd_atoms. rewrite map_map. apply map_ext. intros [k a]. cbn. destruct (k =? n); reflexivity. Qed.

Definition keeps_elem (f : atom -> atom) : Prop := forall a, a_num (f a) = a_num a /\ a_iso (f a) = a_iso a.

Lemma keeps_set_chg_rad c ir : keeps_elem (set_chg_rad c ir).
Proof. intros a. split; reflexivity. Qed.
Lemma keeps_set_h h : keeps_elem (set_h h).
Proof. intros a. split; reflexivity. Qed.

Lemma skeleton_upd_atom g n f : keeps_elem f -> skeleton (upd_atom g n f) = skeleton g.
Proof.
  intros Hf. unfold skeleton, upd_atom, upd_atoms. cbn [m_atoms]. rewrite map_map. apply map_ext.
  intros [k a]. cbn. destruct (k =? n); cbn; [|reflexivity]. destruct (Hf a) as [-> ->]. reflexivity.
Qed.

Lemma ids_skeleton g : ids g = map (fun x => fst (fst x)) (skeleton g).
Proof. unfold ids, keys, skeleton. rewrite map_map. reflexivity. Qed.

Lemma zget_upd_atoms n f l k :
  zget (upd_atoms n f l) k = if k =? n then option_map f (zget l k) else zget l k.
Proof.
  induction l as [|[k' a] l IH]; cbn.
  - destruct (k =? n); reflexivity.
  - destruct (k' =? n) eqn:E1; cbn [fst snd]; destruct (k =? k') eqn:E2.
    + apply Z.eqb_eq in E1, E2. subst. rewrite Z.eqb_refl. reflexivity.
    + exact IH.
    + apply Z.eqb_eq in E2. subst. rewrite E1. reflexivity.
    + exact IH.
Qed.

Lemma atom_of_upd_atom g n f k :
  atom_of (upd_atom g n f) k = if k =? n then option_map f (atom_of g k) else atom_of g k.
Proof. unfold atom_of, upd_atom. cbn [m_atoms]. apply zget_upd_atoms. Qed.

Lemma upd_atoms_notin n f l : ~ In n (keys l) -> upd_atoms n f l = l.
Proof.
  induction l as [|[k a] l IH]; cbn; intros H; [reflexivity|].
  destruct (k =? n) eqn:E.
  - apply Z.eqb_eq in E. subst. exfalso. apply H. left. reflexivity.
  - f_equal. apply IH. intros Hn. apply H. right. exact Hn.
Qed.

Definition csum (l : list (Z * atom)) : Z := zsum (map (fun na => a_chg (snd na)) l).

Lemma upd_atoms_cons n f k x l :
  upd_atoms n f ((k, x) :: l) = (if k =? n then (k, f x) else (k, x)) :: upd_atoms n f l.
Proof. reflexivity. Qed.

Lemma csum_cons k x l : csum ((k, x) :: l) = a_chg x + csum l.
Proof. reflexivity. Qed.

Lemma csum_upd n f l a :
  NoDup (keys l) -> zget l n = Some a -> csum (upd_atoms n f l) = csum l - a_chg a + a_chg (f a).
Proof.
  induction l as [|[k x] l IH]; intros Hnd Hg; [discriminate|].
  inversion Hnd as [|? ? Hnotin Hnd']; subst.
  rewrite upd_atoms_cons. cbn [zget] in Hg.
  destruct (n =? k) eqn:E.
  - apply Z.eqb_eq in E. subst. inversion Hg; subst. rewrite Z.eqb_refl.
    rewrite (upd_atoms_notin k f l Hnotin). rewrite !csum_cons. lia.
  - rewrite Z.eqb_sym in E. rewrite E. rewrite !csum_cons. specialize (IH Hnd' Hg). lia.
Qed.

Lemma total_upd_atom g n f a :
  NoDup (ids g) -> atom_of g n = Some a ->
  total_charge (upd_atom g n f) = total_charge g - a_chg a + a_chg (f a).
Proof. intros Hnd Ha. unfold total_charge, upd_atom. cbn [m_atoms]. apply (csum_upd n f (m_atoms g) a Hnd Ha). Qed.

Lemma ids_upd_atom g n f : ids (upd_atom g n f) = ids g.
Proof. unfold ids, upd_atom. cbn [m_atoms]. apply keys_upd_atoms. Qed.

(* ---- adjacency ---- *)
Lemma keys_upd_nb m o l : keys (upd_nb m o l) = keys l.
Proof. unfold keys, upd_nb. rewrite map_map. apply map_ext. intros [k b]. cbn. destruct (k =? m); reflexivity. Qed.

Lemma graph_set_bond_dir adj n m o :
  map (fun nl => (fst nl, keys (snd nl))) (set_bond_dir adj n m o) = map (fun nl : Z * list (Z * bond) => (fst nl, keys (snd nl))) adj.
Proof.
  unfold set_bond_dir. rewrite map_map. apply map_ext. intros [k l]. cbn [fst snd].
  destruct (k =? n); cbn [fst snd]; [rewrite keys_upd_nb|]; reflexivity.
Qed.

Lemma gnbrs_graph_of g n : gnbrs (graph_of g) n = nbr_ids g n.
Proof.
  unfold gnbrs, graph_of, nbr_ids, nbrs. induction (m_adj g) as [|[k l] adj IH]; cbn; [reflexivity|].
  destruct (n =? k); [reflexivity|exact IH].
Qed.

Lemma adjacent_graph g h n m : graph_of g = graph_of h -> adjacent g n m = adjacent h n m.
Proof. intros H. unfold adjacent. rewrite <- !gnbrs_graph_of, H. reflexivity. Qed.

Lemma graph_of_upd_atom g n f : graph_of (upd_atom g n f) = graph_of g.
Proof. reflexivity. Qed.

Lemma patch_bond_adjacent g n m o :
  adjacent g n m = true ->
  exists g', patch_bond g n m o = Ok g' /\ m_atoms g' = m_atoms g /\ graph_of g' = graph_of g.
Proof.
  unfold adjacent, nbr_ids, nbrs, patch_bond. intros H.
  destruct (zget (m_adj g) n) as [nbn|] eqn:E; [|cbn in H; discriminate].
  rewrite H. eexists. split; [reflexivity|]. split; [reflexivity|].
  unfold graph_of. cbn [m_adj]. rewrite !graph_set_bond_dir. reflexivity.
Qed.

(* a step that fails or not, patch_bond never touches the atoms *)
Lemma patch_bond_atoms g n m o g' : patch_bond g n m o = Ok g' -> m_atoms g' = m_atoms g.
Proof.
  unfold patch_bond. destruct (zget (m_adj g) n); [|discriminate].
  destruct (zmem m (keys l)).
  - intros H. inversion H. reflexivity.
  - destruct (zget (m_adj g) m); [|discriminate]. intros H. inversion H. reflexivity.
Qed.

(* ================================================================================================
   D. the pass never touches numbers, elements, isotopes: for ANY rule table and ANY matcher
   ================================================================================================ *)
Lemma afix_loop_skeleton mp fx : forall g hs,
  match afix_loop mp fx g hs with
  | AfDone g' _ | AfBad g' _ => skeleton g' = skeleton g /\ m_adj g' = m_adj g
  | AfErr _ => True
  end.
Proof.
  induction fx as [|e fx IH]; intros g hs; cbn [afix_loop]; [split; reflexivity|].
  destruct (zget mp (af_atom e)) as [n|]; [|exact I].
  destruct (atom_of g n) as [a|]; [|exact I].
  destruct (a_chg a + af_delta e >? 4); [split; reflexivity|].
  specialize (IH (upd_atom g n (set_chg_rad (a_chg a + af_delta e) (af_rad e))) (add_set n hs)).
  destruct (afix_loop mp fx _ _); try exact I;
    (destruct IH as [H1 H2]; split; [rewrite H1; apply skeleton_upd_atom, keeps_set_chg_rad | rewrite H2; reflexivity]).
Qed.

Lemma bfix_loop_atoms mp bx : forall g hs g' hs', bfix_loop mp bx g hs = Ok (g', hs') -> m_atoms g' = m_atoms g.
Proof.
  induction bx as [|[[p q] o] bx IH]; intros g hs g' hs'; cbn [bfix_loop].
  - intros H. inversion H. reflexivity.
  - destruct (zget mp p) as [n|]; [|discriminate]. destruct (zget mp q) as [m|]; [|discriminate].
    destruct (patch_bond g n m o) as [g1|] eqn:E; [|discriminate].
    intros H. rewrite (IH _ _ _ _ H). exact (patch_bond_atoms _ _ _ _ _ E).
Qed.

Lemma skeleton_atoms g h : m_atoms g = m_atoms h -> skeleton g = skeleton h.
Proof. unfold skeleton. intros ->. reflexivity. Qed.

Lemma apply_match_skeleton ridx r mp st st' :
  apply_match ridx r mp st = Ok st' -> skeleton (ps_mol st') = skeleton (ps_mol st).
Proof.
  unfold apply_match. destruct (negb (disjoint (values mp) (ps_seen st))).
  - intros H. inversion H. reflexivity.
  - destruct (map_all mp (r_any r)) as [anys|]; [|discriminate].
    pose proof (afix_loop_skeleton mp (r_afix r) (ps_mol st) (ps_hs st)) as Ha.
    destruct (afix_loop mp (r_afix r) (ps_mol st) (ps_hs st)) as [g hs|g hs|e]; [| |discriminate].
    + destruct (bfix_loop mp (r_bfix r) g hs) as [[g' hs']|] eqn:E; [|discriminate].
      intros H. inversion H. cbn [ps_mol]. rewrite (skeleton_atoms _ _ (bfix_loop_atoms _ _ _ _ _ _ E)). apply Ha.
    + intros H. inversion H. cbn [ps_mol]. apply Ha.
Qed.

Lemma matches_loop_skeleton ridx r mps : forall st st',
  matches_loop ridx r mps st = Ok st' -> skeleton (ps_mol st') = skeleton (ps_mol st).
Proof.
  induction mps as [|mp mps IH]; intros st st'; cbn [matches_loop].
  - intros H. inversion H. reflexivity.
  - destruct (apply_match ridx r mp st) as [st1|] eqn:E; [|discriminate].
    intros H. rewrite (IH _ _ H). exact (apply_match_skeleton _ _ _ _ _ E).
Qed.

Section PassProofs.
  Variable matches : Z -> Z -> rule -> mol -> list mapping.
  Variable calc_h : mol -> Z -> option Z.

  Lemma recalc_skeleton hs : forall g, skeleton (recalc calc_h g hs) = skeleton g.
  Proof.
    unfold recalc. induction hs as [|n hs IH]; intros g; cbn [fold_left]; [reflexivity|].
    rewrite IH. apply skeleton_upd_atom, keeps_set_h.
  Qed.
  Lemma recalc_graph hs : forall g, m_adj (recalc calc_h g hs) = m_adj g.
  Proof.
    unfold recalc. induction hs as [|n hs IH]; intros g; cbn [fold_left]; [reflexivity|]. rewrite IH. reflexivity.
  Qed.
  Lemma recalc_charges hs : forall g, map (fun na => a_chg (snd na)) (m_atoms (recalc calc_h g hs)) = map (fun na => a_chg (snd na)) (m_atoms g).
  Proof.
    unfold recalc. induction hs as [|n hs IH]; intros g; cbn [fold_left]; [reflexivity|]. rewrite IH.
    unfold upd_atom, upd_atoms. cbn [m_atoms]. rewrite map_map. apply map_ext. intros [k a]. cbn.
    destruct (k =? n); reflexivity.
  Qed.
  Lemma recalc_total hs g : total_charge (recalc calc_h g hs) = total_charge g.
  Proof. unfold total_charge. rewrite recalc_charges. reflexivity. Qed.

  (* for ANY rule table, ANY matcher, ANY hydrogen calculator: a pass that returns never changed atom numbers, their
     order, elements or isotopes *)
  Theorem pass_preserves_skeleton stage rules fix_taut : forall ridx g log fixed g' log' fixed',
    rules_loop matches calc_h stage ridx rules fix_taut g log fixed = Ok (g', log', fixed') ->
    skeleton g' = skeleton g.
  Proof.
    induction rules as [|r rules IH]; intros ridx g log fixed g' log' fixed'; cbn [rules_loop].
    - intros H. inversion H. reflexivity.
    - destruct (negb fix_taut && r_taut r); [apply IH|].
      destruct (matches_loop ridx r (matches stage ridx r g) (mkPS g [] [] log)) as [st|] eqn:E; [|discriminate].
      pose proof (matches_loop_skeleton _ _ _ _ _ E) as Hs. cbn [ps_mol] in Hs.
      destruct (ps_hs st) as [|h hs].
      + intros H. rewrite (IH _ _ _ _ _ _ _ H). exact Hs.
      + intros H. rewrite (IH _ _ _ _ _ _ _ H). rewrite recalc_skeleton. exact Hs.
  Qed.
End PassProofs.

(* ================================================================================================
   E. conservation of the net charge by a pass, for ANY rule table satisfying the obligations and ANY sound matcher
   ================================================================================================ *)
Lemma zmem_app x a b : zmem x (a ++ b) = zmem x a || zmem x b.
Proof. unfold zmem. apply existsb_app. Qed.

Lemma zmem_add_set x y l : zmem x (add_set y l) = (x =? y) || zmem x l.
Proof.
  unfold add_set. destruct (zmem y l) eqn:E.
  - destruct (x =? y) eqn:E2; [|reflexivity]. apply Z.eqb_eq in E2. subst. rewrite E. reflexivity.
  - rewrite zmem_app. cbn. rewrite orb_false_r, orb_comm. reflexivity.
Qed.

Lemma zmem_union_set x b : forall a, zmem x (union_set a b) = zmem x a || zmem x b.
Proof.
  unfold union_set. induction b as [|y b IH]; intros a; cbn [fold_left].
  - cbn. rewrite orb_false_r. reflexivity.
  - rewrite IH, zmem_add_set. cbn [zmem existsb]. fold (zmem x b).
    destruct (x =? y), (zmem x a), (zmem x b); reflexivity.
Qed.

Lemma zmem_filter x f l : zmem x (filter f l) = zmem x l && f x.
Proof.
  induction l as [|y l IH]; cbn [filter]; [reflexivity|].
  destruct (f y) eqn:E.
  - cbn [zmem existsb]. fold (zmem x (filter f l)). fold (zmem x l). rewrite IH.
    destruct (x =? y) eqn:E2; cbn; [|reflexivity]. apply Z.eqb_eq in E2. subst. rewrite E. reflexivity.
  - cbn [zmem existsb]. fold (zmem x l). rewrite IH.
    destruct (x =? y) eqn:E2; cbn; [|reflexivity]. apply Z.eqb_eq in E2. subst. rewrite E. rewrite andb_false_r. reflexivity.
Qed.

Lemma nodup_z_NoDup l : nodup_z l = true -> NoDup l.
Proof.
  induction l as [|x l IH]; cbn; intros H; [constructor|].
  apply andb_true_iff in H. destruct H as [H1 H2]. constructor; [|exact (IH H2)].
  intros Hin. apply zmem_In in Hin. rewrite Hin in H1. discriminate.
Qed.

Lemma zget_In {V} (d : list (Z * V)) k v : zget d k = Some v -> In (k, v) d.
Proof.
  induction d as [|[k' v'] d IH]; cbn; [discriminate|].
  destruct (k =? k') eqn:E.
  - apply Z.eqb_eq in E. subst. intros H. inversion H. left. reflexivity.
  - intros H. right. exact (IH H).
Qed.

Lemma zget_some_of_key {V} (d : list (Z * V)) k : In k (keys d) -> exists v, zget d k = Some v.
Proof.
  induction d as [|[k' v'] d IH]; cbn; [tauto|].
  intros [H | H].
  - subst. rewrite Z.eqb_refl. eexists. reflexivity.
  - destruct (k =? k'); [eexists; reflexivity|exact (IH H)].
Qed.

Lemma nodup_values_inj (mp : mapping) p q n : NoDup (values mp) -> In (p, n) mp -> In (q, n) mp -> p = q.
Proof.
  unfold values. induction mp as [|[k v] mp IH]; cbn; [tauto|].
  intros Hnd. inversion Hnd as [|? ? Hnotin Hnd']; subst.
  intros [H1 | H1] [H2 | H2].
  - congruence.
  - inversion H1; subst. exfalso. apply Hnotin. apply (in_map snd) in H2. exact H2.
  - inversion H2; subst. exfalso. apply Hnotin. apply (in_map snd) in H1. exact H1.
  - exact (IH Hnd' H1 H2).
Qed.

Lemma zget_value_in (mp : mapping) p n : zget mp p = Some n -> zmem n (values mp) = true.
Proof. intros H. apply zmem_In. apply zget_In in H. apply (in_map snd) in H. exact H. Qed.

Lemma atom_of_ids g n a : atom_of g n = Some a -> In n (ids g).
Proof. unfold atom_of, ids, keys. intros H. apply zget_In in H. apply (in_map fst) in H. exact H. Qed.

Lemma ids_atom_of g n : In n (ids g) -> exists a, atom_of g n = Some a.
Proof. unfold ids, atom_of. apply zget_some_of_key. Qed.

Lemma skeleton_ids g h : skeleton g = skeleton h -> ids g = ids h.
Proof. intros H. rewrite !ids_skeleton, H. reflexivity. Qed.

Lemma disjoint_notin a b x : disjoint a b = true -> zmem x a = true -> zmem x b = false.
Proof.
  unfold disjoint. intros H Hx. rewrite forallb_forall in H. apply zmem_In in Hx.
  specialize (H x Hx). apply negb_true_iff in H. exact H.
Qed.

Definition mapped (mp : mapping) (fx : list afix_entry) : list (option Z) := map (fun e => zget mp (af_atom e)) fx.

(* every entry applies: the loop completes, moves the net charge by the sum of the deltas and touches mapped atoms only *)
Lemma afix_loop_done mp fx : forall g hs,
  NoDup (ids g) -> NoDup (mapped mp fx) ->
  (forall e, In e fx -> exists n a, zget mp (af_atom e) = Some n /\ atom_of g n = Some a /\ a_chg a + af_delta e <= 4) ->
  exists g' hs', afix_loop mp fx g hs = AfDone g' hs' /\
    total_charge g' = total_charge g + zsum (map af_delta fx) /\
    (forall k, ~ In (Some k) (mapped mp fx) -> atom_of g' k = atom_of g k).
Proof.
  induction fx as [|e fx IH]; intros g hs Hnd Hmp Hall; cbn [afix_loop].
  - exists g, hs. split; [reflexivity|]. split; [cbn; lia|]. intros; reflexivity.
  - destruct (Hall e (or_introl eq_refl)) as [n [a [Hn [Ha Hle]]]].
    rewrite Hn, Ha. assert (Hgt : (a_chg a + af_delta e >? 4) = false) by (rewrite Z.gtb_ltb; apply Z.ltb_ge; lia). rewrite Hgt.
    cbn [mapped map] in Hmp. inversion Hmp as [|? ? Hnotin Hmp']; subst. rewrite Hn in Hnotin.
    set (g1 := upd_atom g n (set_chg_rad (a_chg a + af_delta e) (af_rad e))).
    assert (Hnd1 : NoDup (ids g1)) by (unfold g1; rewrite ids_upd_atom; exact Hnd).
    assert (Hall1 : forall e', In e' fx -> exists n' a', zget mp (af_atom e') = Some n' /\ atom_of g1 n' = Some a' /\ a_chg a' + af_delta e' <= 4).
    { intros e' He'. destruct (Hall e' (or_intror He')) as [n' [a' [Hn' [Ha' Hle']]]].
      exists n', a'. split; [exact Hn'|]. split; [|exact Hle'].
      unfold g1. rewrite atom_of_upd_atom. destruct (n' =? n) eqn:E; [|exact Ha'].
      apply Z.eqb_eq in E. subst. exfalso. apply Hnotin. unfold mapped. rewrite <- Hn'.
      apply (in_map (fun e => zget mp (af_atom e))). exact He'. }
    destruct (IH g1 (add_set n hs) Hnd1 Hmp' Hall1) as [g' [hs' [Hrun [Htot Hun]]]].
    exists g', hs'. split; [exact Hrun|]. split.
    + rewrite Htot. unfold g1. rewrite (total_upd_atom g n _ a Hnd Ha). cbn [map zsum fold_right a_chg set_chg_rad]. unfold zsum. lia.
    + intros k Hk. rewrite Hun by (intros Hin; apply Hk; cbn [mapped map]; right; exact Hin).
      unfold g1. rewrite atom_of_upd_atom. destruct (k =? n) eqn:E; [|reflexivity].
      apply Z.eqb_eq in E. subst. exfalso. apply Hk. cbn [mapped map]. left. exact Hn.
Qed.

Lemma bfix_loop_ok mp bx g0 : forall g hs,
  graph_of g = graph_of g0 ->
  (forall p q o, In (p, q, o) bx -> exists n m, zget mp p = Some n /\ zget mp q = Some m /\ adjacent g0 n m = true) ->
  exists g' hs', bfix_loop mp bx g hs = Ok (g', hs') /\ m_atoms g' = m_atoms g /\ graph_of g' = graph_of g0.
Proof.
  induction bx as [|[[p q] o] bx IH]; intros g hs Hg Hall; cbn [bfix_loop].
  - exists g, hs. repeat split. exact Hg.
  - destruct (Hall p q o (or_introl eq_refl)) as [n [m [Hp [Hq Hadj]]]]. rewrite Hp, Hq.
    rewrite <- (adjacent_graph g g0 n m Hg) in Hadj.
    destruct (patch_bond_adjacent g n m o Hadj) as [g1 [Hpb [Hat Hgr]]]. rewrite Hpb.
    destruct (IH g1 (add_set m (add_set n hs))) as [g' [hs' [Hrun [Hat' Hgr']]]].
    + rewrite Hgr. exact Hg.
    + intros p' q' o' Hin. apply (Hall p' q' o'). right. exact Hin.
    + exists g', hs'. split; [exact Hrun|]. split; [rewrite Hat'; exact Hat|exact Hgr'].
Qed.

(* ---- what match_ok gives ---- *)
Lemma patom_of_some r p a : patom_of r p = Some a -> In a (r_atoms r) /\ pa_id a = p.
Proof. unfold patom_of. intros H. apply find_some in H. destruct H as [H1 H2]. apply Z.eqb_eq in H2. tauto. Qed.

Lemma pattern_id_patom r p : zmem p (pattern_ids r) = true -> exists a, patom_of r p = Some a.
Proof.
  intros H. apply zmem_In in H. unfold pattern_ids in H. apply in_map_iff in H. destruct H as [a [Hid Hin]].
  unfold patom_of. destruct (find (fun a0 => pa_id a0 =? p) (r_atoms r)) eqn:E; [eexists; reflexivity|].
  exfalso. pose proof (find_none _ _ E a Hin) as Hn. cbn in Hn. rewrite Hid, Z.eqb_refl in Hn. discriminate.
Qed.

Lemma match_ok_parts r g mp : match_ok r g mp = true ->
  NoDup (values mp) /\ (forall a, In a (r_atoms r) -> patom_ok g mp a = true) /\
  (forall x, In x (r_bonds r) -> exists n m, zget mp (pb_n x) = Some n /\ zget mp (pb_m x) = Some m /\
                                              adjacent g n m = true /\ adjacent g m n = true).
Proof.
  unfold match_ok. rewrite !andb_true_iff. intros [[[H1 H2] H3] H4].
  split; [exact (nodup_z_NoDup _ H1)|]. split.
  - rewrite forallb_forall in H3. exact H3.
  - rewrite forallb_forall in H4. intros x Hx. specialize (H4 x Hx).
    destruct (zget mp (pb_n x)) as [n|]; [|discriminate]. destruct (zget mp (pb_m x)) as [m|]; [|discriminate].
    apply andb_true_iff in H4. exists n, m. tauto.
Qed.

Lemma patom_ok_parts g mp a : patom_ok g mp a = true ->
  exists n x, zget mp (pa_id a) = Some n /\ atom_of g n = Some x /\
    (forall c, pa_chg a = Some c -> a_chg x = c) /\
    (forall nums, pa_kind a = PElem nums -> zmem (a_num x) nums = true) /\
    (pa_kind a = PMetal -> is_metal (a_num x) = true).
Proof.
  unfold patom_ok. destruct (zget mp (pa_id a)) as [n|] eqn:En; [|discriminate].
  destruct (atom_of g n) as [x|] eqn:Ex; [|discriminate]. rewrite andb_true_iff. intros [H1 H2].
  exists n, x. split; [reflexivity|]. split; [exact Ex|]. split; [|split].
  - intros c Hc. rewrite Hc in H1. apply Z.eqb_eq. exact H1.
  - intros nums Hk. rewrite Hk in H2. exact H2.
  - intros Hk. rewrite Hk in H2. exact H2.
Qed.

Definition metal_atom (g : mol) (n : Z) : bool := match atom_of g n with Some a => is_metal (a_num a) | None => false end.

(* the loop invariant of one rule: g0 is the molecule the matcher saw *)
Record inv (r : rule) (g0 : mol) (st : pstate) : Prop := mkInv {
  inv_skel : skeleton (ps_mol st) = skeleton g0;
  inv_graph : graph_of (ps_mol st) = graph_of g0;
  inv_total : total_charge (ps_mol st) = total_charge g0;
  inv_chg : forall n, zmem n (ps_seen st) = false -> has_unc r && metal_atom g0 n = false ->
                      atom_of (ps_mol st) n = atom_of g0 n }.

Lemma total_atoms g h : m_atoms g = m_atoms h -> total_charge g = total_charge h.
Proof. unfold total_charge. intros ->. reflexivity. Qed.
Lemma atom_of_atoms g h n : m_atoms g = m_atoms h -> atom_of g n = atom_of h n.
Proof. unfold atom_of. intros ->. reflexivity. Qed.

Lemma map_all_ok r g mp : match_ok r g mp = true -> forall ps,
  (forall p, In p ps -> zmem p (pattern_ids r) = true) ->
  exists l, map_all mp ps = Ok l /\ (forall n, In n l <-> exists p, In p ps /\ zget mp p = Some n).
Proof.
  intros Hm. destruct (match_ok_parts _ _ _ Hm) as [_ [Hat _]].
  induction ps as [|p ps IH]; intros Hps; cbn [map_all].
  - exists []. split; [reflexivity|]. intros n. split; [intros []|intros [p [[] _]]].
  - destruct (pattern_id_patom r p (Hps p (or_introl eq_refl))) as [a Ha].
    destruct (patom_of_some _ _ _ Ha) as [Hin Hid].
    destruct (patom_ok_parts _ _ _ (Hat a Hin)) as [n [x [Hn _]]]. rewrite Hid in Hn. rewrite Hn.
    destruct (IH (fun q Hq => Hps q (or_intror Hq))) as [l [Hl Hiff]]. rewrite Hl.
    exists (n :: l). split; [reflexivity|]. intros k. cbn [In]. rewrite Hiff. split.
    + intros [-> | [q [Hq Hk]]]; [exists p; split; [left; reflexivity|exact Hn] | exists q; split; [right; exact Hq|exact Hk]].
    + intros [q [[-> | Hq] Hk]]; [left; congruence | right; exists q; split; assumption].
Qed.

Lemma has_unc_false_all r : has_unc r = false -> forall e, In e (r_afix r) -> constrained r (af_atom e) = true.
Proof.
  unfold has_unc. intros H e He. destruct (constrained r (af_atom e)) eqn:E; [reflexivity|].
  exfalso. assert (existsb (fun e0 => negb (constrained r (af_atom e0))) (r_afix r) = true).
  { apply existsb_exists. exists e. split; [exact He|]. rewrite E. reflexivity. }
  congruence.
Qed.

Lemma names_ok_parts r : names_ok r = true ->
  NoDup (map af_atom (r_afix r)) /\
  (forall e, In e (r_afix r) -> zmem (af_atom e) (pattern_ids r) = true) /\
  (forall p q o, In (p, q, o) (r_bfix r) -> zmem p (pattern_ids r) = true /\ zmem q (pattern_ids r) = true) /\
  (forall p, In p (r_any r) -> zmem p (pattern_ids r) = true) /\
  (forall e, In e (r_afix r) -> constrained r (af_atom e) = true -> zmem (af_atom e) (r_any r) = false).
Proof.
  unfold names_ok. rewrite !andb_true_iff. intros [[[[[H1 H2] H3] H4] H5] H6].
  split; [exact (nodup_z_NoDup _ H2)|]. rewrite forallb_forall in H3, H4, H5, H6. repeat split.
  - exact H3.
  - specialize (H4 _ H). cbn in H4. apply andb_true_iff in H4. tauto.
  - specialize (H4 _ H). cbn in H4. apply andb_true_iff in H4. tauto.
  - exact H5.
  - intros e He Hc. specialize (H6 e He). rewrite Hc in H6. cbn in H6. rewrite orb_false_r in H6.
    apply negb_true_iff in H6. exact H6.
Qed.

(* a constrained patched atom of an accepted match still carries the charge the pattern names *)
Lemma constrained_entry_ready r g0 mp st e :
  range_ok r = true -> names_ok r = true -> match_ok r g0 mp = true -> inv r g0 st ->
  disjoint (values mp) (ps_seen st) = true ->
  In e (r_afix r) -> constrained r (af_atom e) = true -> (has_unc r = false \/ nonmetal_elem r (af_atom e) = true) ->
  exists n a, zget mp (af_atom e) = Some n /\ atom_of (ps_mol st) n = Some a /\ a_chg a + af_delta e <= 4 /\
              -4 <= a_chg a + af_delta e /\ atom_of (ps_mol st) n = atom_of g0 n.
Proof.
  intros Hr Hnm Hm Hinv Hdis He Hc Hnon.
  destruct (match_ok_parts _ _ _ Hm) as [_ [Hat _]].
  unfold constrained in Hc. destruct (patom_of r (af_atom e)) as [pa|] eqn:Epa; [|discriminate].
  destruct (pa_chg pa) as [c|] eqn:Ec; [|discriminate].
  destruct (patom_of_some _ _ _ Epa) as [Hin Hid].
  destruct (patom_ok_parts _ _ _ (Hat pa Hin)) as [n [x [Hn [Hx [Hchg [Hel _]]]]]]. rewrite Hid in Hn.
  unfold range_ok in Hr. rewrite forallb_forall in Hr. specialize (Hr e He). rewrite Epa, Ec in Hr.
  apply andb_true_iff in Hr. destruct Hr as [Hlo Hhi]. apply Z.leb_le in Hlo, Hhi.
  assert (Hsame : atom_of (ps_mol st) n = atom_of g0 n).
  { apply (inv_chg _ _ _ Hinv).
    - exact (disjoint_notin _ _ _ Hdis (zget_value_in _ _ _ Hn)).
    - destruct Hnon as [Hu | Hnm']; [rewrite Hu; reflexivity|].
      unfold nonmetal_elem in Hnm'. rewrite Epa in Hnm'. destruct (pa_kind pa) as [nums| |] eqn:Ek; try discriminate.
      rewrite forallb_forall in Hnm'. specialize (Hel nums eq_refl). apply zmem_In in Hel.
      specialize (Hnm' _ Hel). apply negb_true_iff in Hnm'. unfold metal_atom. rewrite Hx, Hnm'. apply andb_false_r. }
  exists n, x. rewrite Hsame. rewrite (Hchg c Ec). repeat split; try assumption; lia.
Qed.

Lemma mapped_nodup (mp : mapping) (fx : list afix_entry) :
  NoDup (values mp) -> NoDup (map af_atom fx) ->
  (forall e, In e fx -> exists n, zget mp (af_atom e) = Some n) -> NoDup (mapped mp fx).
Proof.
  intros Hv. induction fx as [|e fx IH]; cbn [map mapped]; intros Hk Hall; [constructor|].
  inversion Hk as [|? ? Hnotin Hk']; subst. constructor.
  - intros Hin. apply in_map_iff in Hin. destruct Hin as [e' [Heq He']].
    destruct (Hall e (or_introl eq_refl)) as [n Hn]. rewrite Hn in Heq.
    assert (af_atom e' = af_atom e) by (exact (nodup_values_inj mp _ _ n Hv (zget_In _ _ _ Heq) (zget_In _ _ _ Hn))).
    apply Hnotin. rewrite <- H. apply in_map. exact He'.
  - apply IH; [exact Hk'|]. intros e' He'. apply Hall. right. exact He'.
Qed.
