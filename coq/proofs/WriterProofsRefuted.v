(* C02: witness that the canonical string is not injective on the current code (recorded finding
   cis-trans-on-ring-closure-double-bond).  GENERATED terms: the molecule smiles('C/C1=C/C=C/CCCCCC1'), the same molecule with
   the cis/trans label of the ring-closure double bond 2=3 inverted, their _chiral_morgan weights and stereo registries as printed by harness/checks/C02.py. *)
From Coq Require Import ZArith List String Bool.
From Model Require Import PyBase Graph PeriodicTable Stereo Writer.
Import ListNotations.
Open Scope Z_scope.

Definition rf_g1 : mol := (mkMol [(1, (mkAtom 6 None 0 false (Some 3) None)); (2, (mkAtom 6 None 0 false (Some 0) None)); (3, (mkAtom 6 None 0 false (Some 1) None)); (4, (mkAtom 6 None 0 false (Some 1) None)); (5, (mkAtom 6 None 0 false (Some 1) None)); (6, (mkAtom 6 None 0 false (Some 2) None)); (7, (mkAtom 6 None 0 false (Some 2) None)); (8, (mkAtom 6 None 0 false (Some 2) None)); (9, (mkAtom 6 None 0 false (Some 2) None)); (10, (mkAtom 6 None 0 false (Some 2) None)); (11, (mkAtom 6 None 0 false (Some 2) None))] [(1, [(2, (mkBond 1 None))]); (2, [(1, (mkBond 1 None)); (3, (mkBond 2 (Some false))); (11, (mkBond 1 None))]); (3, [(2, (mkBond 2 (Some false))); (4, (mkBond 1 None))]); (4, [(3, (mkBond 1 None)); (5, (mkBond 2 (Some false)))]); (5, [(4, (mkBond 2 (Some false))); (6, (mkBond 1 None))]); (6, [(5, (mkBond 1 None)); (7, (mkBond 1 None))]); (7, [(6, (mkBond 1 None)); (8, (mkBond 1 None))]); (8, [(7, (mkBond 1 None)); (9, (mkBond 1 None))]); (9, [(8, (mkBond 1 None)); (10, (mkBond 1 None))]); (10, [(9, (mkBond 1 None)); (11, (mkBond 1 None))]); (11, [(10, (mkBond 1 None)); (2, (mkBond 1 None))])]).
Definition rf_g2 : mol := (mkMol [(1, (mkAtom 6 None 0 false (Some 3) None)); (2, (mkAtom 6 None 0 false (Some 0) None)); (3, (mkAtom 6 None 0 false (Some 1) None)); (4, (mkAtom 6 None 0 false (Some 1) None)); (5, (mkAtom 6 None 0 false (Some 1) None)); (6, (mkAtom 6 None 0 false (Some 2) None)); (7, (mkAtom 6 None 0 false (Some 2) None)); (8, (mkAtom 6 None 0 false (Some 2) None)); (9, (mkAtom 6 None 0 false (Some 2) None)); (10, (mkAtom 6 None 0 false (Some 2) None)); (11, (mkAtom 6 None 0 false (Some 2) None))] [(1, [(2, (mkBond 1 None))]); (2, [(1, (mkBond 1 None)); (3, (mkBond 2 (Some true))); (11, (mkBond 1 None))]); (3, [(2, (mkBond 2 (Some true))); (4, (mkBond 1 None))]); (4, [(3, (mkBond 1 None)); (5, (mkBond 2 (Some false)))]); (5, [(4, (mkBond 2 (Some false))); (6, (mkBond 1 None))]); (6, [(5, (mkBond 1 None)); (7, (mkBond 1 None))]); (7, [(6, (mkBond 1 None)); (8, (mkBond 1 None))]); (8, [(7, (mkBond 1 None)); (9, (mkBond 1 None))]); (9, [(8, (mkBond 1 None)); (10, (mkBond 1 None))]); (10, [(9, (mkBond 1 None)); (11, (mkBond 1 None))]); (11, [(10, (mkBond 1 None)); (2, (mkBond 1 None))])]).
Definition rf_t1 : stabs := (mkStabs [] [] [] [((2, 3), (1, 4, (Some 11), None)); ((4, 5), (3, 6, None, None))] [(2, (2, 3)); (3, (2, 3)); (4, (4, 5)); (5, (4, 5))] [(2, (2, 3)); (3, (2, 3)); (4, (4, 5)); (5, (4, 5))] [(2, 3); (3, 2); (4, 5); (5, 4)]).
Definition rf_t2 : stabs := (mkStabs [] [] [] [((2, 3), (1, 4, (Some 11), None)); ((4, 5), (3, 6, None, None))] [(2, (2, 3)); (3, (2, 3)); (4, (4, 5)); (5, (4, 5))] [(2, (2, 3)); (3, (2, 3)); (4, (4, 5)); (5, (4, 5))] [(2, 3); (3, 2); (4, 5); (5, 4)]).
Definition rf_w1 : list (Z * Z) := [(1, 1); (2, 10); (3, 5); (4, 6); (5, 2); (6, 9); (7, 3); (8, 7); (9, 8); (10, 11); (11, 4)].
Definition rf_w2 : list (Z * Z) := [(1, 1); (2, 10); (3, 5); (4, 6); (5, 2); (6, 9); (7, 3); (8, 7); (9, 8); (10, 11); (11, 4)].
Definition rf_order : list Z := [1; 2; 11; 10; 9; 8; 7; 6; 5; 4; 3].
Definition rf_fun (l : list (Z * Z)) : Z -> Z := fun n => match zget l n with Some x => x | None => 0 end.
Definition rf_tb : Z -> Z := fun n => match index_of rf_order n with Some i => i | None => 0 end.

(* same atoms, same bonds, the cis/trans label of bond 2=3 differs: different molecules, one canonical string *)
Lemma canonical_injective_refuted :
  mol_eqb rf_g1 rf_g2 = false /\
  list_eqb (pair_eqb Z.eqb atom_eqb) (m_atoms rf_g1) (m_atoms rf_g2) = true /\
  smiles_text rf_g1 (rf_fun rf_w1) rf_tb default_opts rf_t1 = Ok ("C/C=1/CCCCCC/C=C/C=1"%string, rf_order) /\
  smiles_text rf_g2 (rf_fun rf_w2) rf_tb default_opts rf_t2 = Ok ("C/C=1/CCCCCC/C=C/C=1"%string, rf_order).
Proof. repeat split; vm_compute; reflexivity. Qed.
