(* C09 -- the candidate block of the .pyx loop (closure bookkeeping and push decision), regenerated statement by statement from
   chython/algorithms/_isomorphism.pyx by tools/gen_isocand.py on every run (Gen.IsoCand.g_cand_body), IS pyx_cand of the
   hand-written array-level model (Model.IsoBitsPyx): same push decision (exactly one push or none), same closures array
   afterwards, for all inputs.  An edit of those source lines changes coq/gen/IsoCand.v and breaks the theorem below. *)
From Coq Require Import ZArith List Bool Lia.
From Model Require Import PyBase IsoBits IsoBitsPyx.
From Gen Require Import IsoClosure IsoCand.
From Proofs Require Import IsoClosureTie.
Import ListNotations.
Open Scope Z_scope.

Lemma fold_left_rel {A B C} (R : B -> C -> Prop) (f : B -> A -> B) (g : C -> A -> C) l :
  (forall b c a, R b c -> R (f b a) (g c a)) -> forall b c, R b c -> R (fold_left f l b) (fold_left g l c).
Proof. intros H. induction l as [|a l IH]; intros b c Hr; cbn [fold_left]; [exact Hr|]. apply IH, H, Hr. Qed.

Lemma forallb_ext_all {A} (f g : A -> bool) l : (forall x, f x = g x) -> forallb f l = forallb g l.
Proof. intros H. induction l as [|a l IH]; cbn [forallb]; [reflexivity|]. rewrite H, IH. reflexivity. Qed.

Lemma forallb_negb_existsb {A} (f : A -> bool) l : forallb (fun x => negb (f x)) l = negb (existsb f l).
Proof. induction l as [|a l IH]; cbn [forallb existsb]; [reflexivity|]. rewrite IH, negb_orb. reflexivity. Qed.

Theorem g_cand_body_is_model qu mo scope front path matched base i_bond closures :
  let m := bt_index i_bond in
  let qa := q_atom qu (Z.of_nat front) in
  znth scope m false && negb (aget matched m false) && mask_match_next (qa_mask qa) (bt_bond i_bond) (ma_bits (m_atom mo m)) = true ->
  g_cand_body qu mo front path matched base m closures =
  (Z.b2z (fst (pyx_cand qu mo scope front path matched base i_bond closures)),
   snd (pyx_cand qu mo scope front path matched base i_bond closures)).
Proof.
  intros m qa G. unfold pyx_cand. fold m. fold qa. rewrite G. unfold g_cand_body. fold qa.
  change (slice (ma_from (m_atom mo m)) (ma_to (m_atom mo m)) (mo_bonds mo)) with (m_bonds_of mo m).
  set (mb := m_bonds_of mo m). set (qs := slice (qa_from qa) (qa_to qa) (qu_bonds qu)).
  destruct (negb (qa_closure qa =? 0)).
  - unfold fill_closures, null_closures.
    set (gfill := fun (st : Z * list Z) (j : bond_t) =>
                    if negb (bt_index j =? base) && aget matched (bt_index j) false
                    then (fst st + 1, aset (snd st) (bt_index j) (bt_bond j)) else st).
    match goal with |- context [fold_left ?f mb (closures, 0, 0)] =>
      pose proof (fold_left_rel (fun (st : list Z * Z * Z) (ms : Z * list Z) => st = (snd ms, fst ms, 0)) f gfill mb) as HF
    end.
    cbv beta in HF. rewrite (HF ltac:(intros [[cl c] p] [c2 cl2] a H; cbn [fst snd] in H; inversion H; subst; unfold gfill;
                                      cbn [fst snd]; destruct (negb (bt_index a =? base) && aget matched (bt_index a) false); reflexivity)
                                (closures, 0, 0) (0, closures) eq_refl).
    clear HF. destruct (fold_left gfill mb (0, closures)) as [counter cl1]. cbn [fst snd].
    erewrite (forallb_ext_all _ (fun jq => closure_ok (bt_bond jq) (aget cl1 (znth path (bt_index jq) 0) 0))).
    2:{ intros j. unfold closure_ok, aget. rewrite negb_involutive, negb_orb, negb_involutive. reflexivity. }
    set (ok := forallb _ qs).
    assert (HN : forall p, fold_left (fun (st_ : list Z * Z * Z) (j_bond : bond_t) =>
                                      let '(closures2, closures_counter1, pushed1) := st_ in
                                      (aset closures2 (bt_index j_bond) 0, closures_counter1, pushed1)) mb (cl1, counter, p) =
                           (fold_left (fun cl j => aset cl (bt_index j) 0) mb cl1, counter, p)).
    { intros p.
      apply (fold_left_rel (fun (st : list Z * Z * Z) (cl : list Z) => st = (cl, counter, p))); [|reflexivity].
      intros [[cl c] p'] cl' a H. inversion H; subst. reflexivity. }
    destruct (counter =? qa_closure qa); [destruct ok|]; rewrite HN; reflexivity.
  - rewrite forallb_negb_existsb.
    destruct (existsb _ mb); reflexivity.
Qed.

(* when the mask test of the neighbour loop (g_next_test of Gen.IsoClosure) fails the block is not entered: no push, array untouched *)
Theorem pyx_cand_not_entered qu mo scope front path matched base i_bond closures :
  g_next_test (znth scope (bt_index i_bond) false) (aget matched (bt_index i_bond) false) (qa_mask (q_atom qu (Z.of_nat front)))
              (bt_bond i_bond) (ma_bits (m_atom mo (bt_index i_bond))) = false ->
  pyx_cand qu mo scope front path matched base i_bond closures = (false, closures).
Proof. rewrite g_next_test_is_model. unfold pyx_cand. intros ->. reflexivity. Qed.

(* the whole body of the neighbour loop for one record, from the generated pieces only *)
Theorem pyx_cand_from_source qu mo scope front path matched base i_bond closures :
  let m := bt_index i_bond in
  pyx_cand qu mo scope front path matched base i_bond closures =
  if g_next_test (znth scope m false) (aget matched m false) (qa_mask (q_atom qu (Z.of_nat front))) (bt_bond i_bond) (ma_bits (m_atom mo m))
  then (fst (g_cand_body qu mo front path matched base m closures) =? 1, snd (g_cand_body qu mo front path matched base m closures))
  else (false, closures).
Proof.
  cbv zeta. destruct (g_next_test _ _ _ _ _) eqn:G.
  - rewrite g_next_test_is_model in G. rewrite (g_cand_body_is_model qu mo scope front path matched base i_bond closures G).
    cbn [fst snd]. destruct (pyx_cand qu mo scope front path matched base i_bond closures) as [[|] cl]; reflexivity.
  - apply pyx_cand_not_entered. exact G.
Qed.

(* non-vacuity: candidate 0 of a triangle whose two other atoms are matched: one closure expected and found -> one push, array nulled;
   the same with a stale entry in the array (what a missing null loop would leave) is still nulled afterwards *)
Example g_cand_body_example :
  let mo := mkMolT [mkMA b4zero 0 2 1; mkMA b4zero 2 4 2; mkMA b4zero 4 6 3]
                   [mkBT 7 1; mkBT 7 2; mkBT 7 0; mkBT 7 2; mkBT 7 0; mkBT 7 1] in
  let qu := mkQueryT [mkQA b4zero 0 0 0 0 1; mkQA b4zero 0 0 0 0 2; mkQA b4zero 1 1 0 1 3] [mkBT 7 0] in
  g_cand_body qu mo 2 [1; 2] [false; true; true] 2 0 [0; 0; 0] = (1, [0; 0; 0]) /\
  g_cand_body qu mo 2 [1; 2] [false; true; true] 2 0 [0; 5; 0] = (1, [0; 0; 0]) /\
  g_cand_body qu mo 1 [1; 2] [false; true; true] 2 0 [0; 0; 0] = (0, [0; 0; 0]).
Proof. vm_compute. repeat split; reflexivity. Qed.
