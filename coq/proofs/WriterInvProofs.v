(* C01, first steps towards `smiles_invariant_discrete` (DESIGN appendix A) on the writer model Model.Writer (owned by C02,
   used read-only): with injective weights every `min` / `sorted` of the traversal is decided by the weights alone.

     - sort_by (the model of Python's stable `sorted(l, key=...)`) returns a permutation; it only looks at the comparison
       of the keys of the list members; it commutes with a key-preserving map; and when the key is injective on the
       members, the result does not depend on the order of the input (set iteration order is irrelevant);
     - start atom (`min(atoms_set, key=mod_weights_start)`) and children order (`sorted(front, key=mod_weights)`):
       with weights injective on the atoms, the result does not depend on the tie-break priority `tb` (the stand-in for
       CPython's set iteration order), nor on the order in which the candidates are listed, and it is mapped by an
       injective renumbering of the atoms.

     - together with the Morgan model (MorganProofs): when the classes of `atoms_order` are discrete, the weights of the
       renumbered and re-inserted molecule are the renumbered weights, and with them the writer model starts at the image
       of the start atom and visits the children of every atom in the image of the original order (sections 7);
     - under a renumbering that keeps the insertion orders (remap()) and any other tie-break priorities, with injective
       weights: the BFS labels, every step and the result of the depth-first search (spanning tree `edges`, predecessor
       table `visited`, ring-closure pairs `tokens`, their cycle numbers) and hence one whole component of `traverse` are
       the renamed originals (sections 8-9); so is the token list (atoms, bonds, parentheses) the tree is flattened into,
       i.e. the branch structure and the order in which the atoms of the component are written (section 11);
     - the ring-closure numbers (`casted_cycles`, heap) assigned for a component are IDENTICAL on the two sides, the closure
       lists and the neighbour lists used for the stereo marks are the renamed ones, and the last loop (`emit`) produces
       the renamed output list with the same strings and the mapped atom order PROVIDED the atom / bond token functions
       of the two sides agree on the tokens that are written (section 12).

     - composed (section 13): one component, the loop over the components and `smiles_text` (text + CXSMILES suffix + written
       order) are equivariant CONDITIONAL on the agreement of `_format_atom` / `_format_bond` of the two sides
       ([smiles_text_ren]); the condition is discharged when no stereo mark and no atom-map number is written:
       [smiles_invariant_discrete_nostereo] (format(mol, '!s'), any molecule) and [smiles_invariant_discrete_unlabelled]
       (str(mol) of a molecule without stereo labels), and with the weights of the Morgan model
       [canonical_nostereo_string_invariant].

   What is NOT proved (the full goal is stated as [smiles_invariant_discrete_goal] below, not as a theorem):
     * the agreement of the token functions when stereo marks are written (`_format_atom` stereo part, `__ct_map`: the sign
       algebra of C12 applied to the renamed neighbour lists) - it stays a hypothesis of [smiles_text_ren];
     * renumberings that also change the insertion order of atoms / neighbours (the BFS labels are shown equivariant only
       for remap()-like renumberings; independence of the BFS distances from the neighbour order needs the shortest-path
       characterisation of the BFS) - for those only the start atom and the children order are theorems (sections 3, 4, 7);
     * anything when weights tie. *)
From Coq Require Import ZArith List String Bool Lia Permutation Sorting.Sorted.
From Model Require Import PyBase PyHash Graph Morgan Writer.
From Proofs Require Import MorganProofs.
Import ListNotations.
Open Scope Z_scope.

(* ==================================================================================================== *)
(* 1. the lexicographic comparison of key tuples                                                          *)
Lemma zlist_ltb_irrefl a : zlist_ltb a a = false.
Proof. induction a as [|x a IH]; cbn; [reflexivity|]. rewrite Z.ltb_irrefl, Z.eqb_refl, IH. reflexivity. Qed.

Lemma zlist_ltb_asym a : forall b, zlist_ltb a b = true -> zlist_ltb b a = false.
Proof.
  induction a as [|x a IH]; intros [|y b]; cbn; try congruence.
  intros H. apply orb_true_iff in H. destruct H as [H|H].
  - apply Z.ltb_lt in H. replace (y <? x) with false by (symmetry; apply Z.ltb_ge; lia).
    replace (y =? x) with false by (symmetry; apply Z.eqb_neq; lia). reflexivity.
  - apply andb_true_iff in H. destruct H as [He H]. apply Z.eqb_eq in He. subst y.
    rewrite Z.ltb_irrefl, Z.eqb_refl. cbn. apply IH. exact H.
Qed.

(* not (b < a) and not (a < b): the tuples are equal *)
Lemma zlist_ltb_tricho a : forall b, zlist_ltb a b = false -> zlist_ltb b a = false -> a = b.
Proof.
  induction a as [|x a IH]; intros [|y b]; cbn; try congruence.
  intros H1 H2. apply orb_false_iff in H1. destruct H1 as [H1 H1']. apply orb_false_iff in H2. destruct H2 as [H2 H2'].
  apply Z.ltb_ge in H1. apply Z.ltb_ge in H2. assert (x = y) by lia. subst y.
  rewrite Z.eqb_refl in H1', H2'. cbn in H1', H2'. f_equal. apply IH; assumption.
Qed.

(* a <= b := not (b < a) is transitive *)
Lemma zlist_leb_trans a : forall b c, zlist_ltb b a = false -> zlist_ltb c b = false -> zlist_ltb c a = false.
Proof.
  induction a as [|x a IH]; intros b c Hab Hbc.
  - destruct c; reflexivity.
  - destruct b as [|y b]; [cbn in Hab; discriminate|].
    destruct c as [|z c]; [cbn in Hbc; cbn; destruct b; cbn in Hbc; discriminate|].
    cbn in *. apply orb_false_iff in Hab. destruct Hab as [H1 H1']. apply orb_false_iff in Hbc. destruct Hbc as [H2 H2'].
    apply Z.ltb_ge in H1. apply Z.ltb_ge in H2.
    apply orb_false_iff. split; [apply Z.ltb_ge; lia|].
    destruct (z =? x) eqn:E; [|reflexivity]. apply Z.eqb_eq in E. subst z. assert (y = x) by lia. subst y.
    rewrite Z.eqb_refl in H1', H2'. cbn in *. eapply IH; eassumption.
Qed.

(* ==================================================================================================== *)
(* 2. sort_by / min_by                                                                                    *)
Section SortBy.
  Context {A : Type}.
  Variable key : A -> list Z.
  Let R (x y : A) : Prop := zlist_ltb (key y) (key x) = false.       (* x may stand before y *)

  Lemma insert_first_perm x l : Permutation (insert_first key x l) (x :: l).
  Proof.
    induction l as [|y r IH]; cbn; [apply Permutation_refl|].
    destruct (zlist_ltb (key y) (key x)); [|apply Permutation_refl].
    eapply Permutation_trans; [apply perm_skip; exact IH | apply perm_swap].
  Qed.

  Lemma sort_by_perm l : Permutation (sort_by key l) l.
  Proof.
    induction l as [|x l IH]; cbn; [constructor|].
    eapply Permutation_trans; [apply insert_first_perm | apply perm_skip; exact IH].
  Qed.

  Lemma insert_first_sorted x l : StronglySorted R l -> StronglySorted R (insert_first key x l).
  Proof.
    induction l as [|y r IH]; intros Hs; cbn.
    - constructor; constructor.
    - inversion Hs as [|? ? Hr Hy]; subst.
      destruct (zlist_ltb (key y) (key x)) eqn:E.
      + constructor; [apply IH; exact Hr|].
        rewrite Forall_forall in *. intros z Hz.
        apply (Permutation_in _ (insert_first_perm x r)) in Hz. destruct Hz as [<-|Hz].
        * unfold R. apply zlist_ltb_asym. exact E.
        * apply Hy; exact Hz.
      + constructor; [exact Hs|]. constructor; [exact E|].
        rewrite Forall_forall in *. intros z Hz. unfold R. eapply zlist_leb_trans; [exact E | apply Hy; exact Hz].
  Qed.

  Lemma sort_by_sorted l : StronglySorted R (sort_by key l).
  Proof. induction l as [|x l IH]; cbn; [constructor | apply insert_first_sorted; exact IH]. Qed.

  (* two sorted lists with the same members are equal when the key separates the members *)
  Lemma sorted_perm_eq_on l : forall l', (forall x y, In x l -> In y l -> key x = key y -> x = y) ->
    StronglySorted R l -> StronglySorted R l' -> Permutation l l' -> l = l'.
  Proof.
    induction l as [|x l IH]; intros l' Hinj Hs Hs' Hp.
    - apply Permutation_nil in Hp. subst. reflexivity.
    - destruct l' as [|x' l']; [apply Permutation_sym, Permutation_nil in Hp; discriminate|].
      inversion Hs as [|? ? Hl Hx]; subst. inversion Hs' as [|? ? Hl' Hx']; subst.
      rewrite Forall_forall in Hx, Hx'.
      assert (In x (x' :: l')) as H1 by (eapply Permutation_in; [exact Hp | left; reflexivity]).
      assert (In x' (x :: l)) as H2 by (eapply Permutation_in; [apply Permutation_sym; exact Hp | left; reflexivity]).
      assert (x = x') as ->.
      { destruct H1 as [H1|H1]; [symmetry; exact H1|]. destruct H2 as [H2|H2]; [exact H2|].
        apply Hinj; [left; reflexivity | right; exact H2|].
        apply zlist_ltb_tricho; [apply Hx'; exact H1 | apply Hx; exact H2]. }
      f_equal. apply IH; [|exact Hl | exact Hl' | eapply Permutation_cons_inv; exact Hp].
      intros a b Ha Hb. apply Hinj; right; assumption.
  Qed.

  (* sorted() of a set: the iteration order of the set is irrelevant when the key separates its members *)
  Lemma sort_by_canonical l l' : (forall x y, In x l -> In y l -> key x = key y -> x = y) ->
    Permutation l l' -> sort_by key l = sort_by key l'.
  Proof.
    intros Hinj Hp. apply sorted_perm_eq_on; [|apply sort_by_sorted | apply sort_by_sorted|].
    - intros x y Hx Hy. apply Hinj; eapply Permutation_in; try apply sort_by_perm; assumption.
    - eapply Permutation_trans; [apply sort_by_perm|]. eapply Permutation_trans; [exact Hp|].
      apply Permutation_sym, sort_by_perm.
  Qed.

  (* the result is determined by the comparisons between the members *)
  Variable key' : A -> list Z.
  Lemma insert_first_ext x l : (forall y, In y l -> zlist_ltb (key y) (key x) = zlist_ltb (key' y) (key' x)) ->
    insert_first key x l = insert_first key' x l.
  Proof.
    induction l as [|y r IH]; intros H; cbn; [reflexivity|].
    rewrite <- (H y (or_introl eq_refl)). destruct (zlist_ltb (key y) (key x)); [|reflexivity].
    f_equal. apply IH. intros z Hz. apply H. right. exact Hz.
  Qed.

  Lemma sort_by_ext l : (forall x y, In x l -> In y l -> zlist_ltb (key y) (key x) = zlist_ltb (key' y) (key' x)) ->
    sort_by key l = sort_by key' l.
  Proof.
    induction l as [|x l IH]; intros H; [reflexivity|].
    change (sort_by key (x :: l)) with (insert_first key x (sort_by key l)).
    change (sort_by key' (x :: l)) with (insert_first key' x (sort_by key' l)).
    rewrite <- IH by (intros a b Ha Hb; apply H; right; assumption).
    apply insert_first_ext. intros y Hy. apply H; [left; reflexivity | right].
    eapply Permutation_in; [apply sort_by_perm | exact Hy].
  Qed.
End SortBy.

(* sorted() commutes with a renaming that preserves the keys *)
Lemma insert_first_map {A B} (key : A -> list Z) (key' : B -> list Z) (f : A -> B) x l :
  key' (f x) = key x -> (forall y, In y l -> key' (f y) = key y) ->
  insert_first key' (f x) (map f l) = map f (insert_first key x l).
Proof.
  intros Hx. induction l as [|y r IH]; intros H; cbn; [reflexivity|].
  rewrite Hx, (H y (or_introl eq_refl)). destruct (zlist_ltb (key y) (key x)); cbn; [|reflexivity].
  f_equal. apply IH. intros z Hz. apply H. right. exact Hz.
Qed.

Lemma sort_by_map {A B} (key : A -> list Z) (key' : B -> list Z) (f : A -> B) l :
  (forall y, In y l -> key' (f y) = key y) -> sort_by key' (map f l) = map f (sort_by key l).
Proof.
  induction l as [|x l IH]; intros H; [reflexivity|].
  change (sort_by key' (map f (x :: l))) with (insert_first key' (f x) (sort_by key' (map f l))).
  change (sort_by key (x :: l)) with (insert_first key x (sort_by key l)).
  rewrite IH by (intros y Hy; apply H; right; exact Hy).
  apply insert_first_map; [apply H; left; reflexivity|].
  intros y Hy. apply H. right. eapply Permutation_in; [apply sort_by_perm | exact Hy].
Qed.

Lemma min_by_head {A} (key : A -> list Z) l : min_by key l = hd_error (sort_by key l).
Proof. unfold min_by. destruct (sort_by key l); reflexivity. Qed.

(* ==================================================================================================== *)
(* 3. the keys of the writer: decided by the weights when these are injective                             *)
Section WriterKeys.
  Variable w : Z -> Z.
  Variable o : opts.
  Variable all : list Z.
  Hypothesis w_inj : inj_on all w.

  Lemma key_start_tb x y tb tb' : In x all -> In y all ->
    zlist_ltb (key_start w tb o all y) (key_start w tb o all x) = zlist_ltb (key_start w tb' o all y) (key_start w tb' o all x).
  Proof.
    intros Hx Hy. destruct (Z.eq_dec x y) as [->|Hne]; [rewrite !zlist_ltb_irrefl; reflexivity|].
    assert ((w y =? w x) = false) as E by (apply Z.eqb_neq; intros He; apply Hne; symmetry; apply w_inj; assumption).
    unfold key_start. destruct (o_random o); cbn; rewrite E; cbn; rewrite ?andb_false_r; reflexivity.
  Qed.

  Lemma key_child_tb seen x y tb tb' : In x all -> In y all ->
    zlist_ltb (key_child w tb o all seen y) (key_child w tb o all seen x) =
    zlist_ltb (key_child w tb' o all seen y) (key_child w tb' o all seen x).
  Proof.
    intros Hx Hy. destruct (Z.eq_dec x y) as [->|Hne]; [rewrite !zlist_ltb_irrefl; reflexivity|].
    assert ((w y =? w x) = false) as E by (apply Z.eqb_neq; intros He; apply Hne; symmetry; apply w_inj; assumption).
    unfold key_child. destruct (o_random o); cbn; rewrite E; cbn; rewrite ?andb_false_r; reflexivity.
  Qed.

  Lemma key_start_inj tb x y : In x all -> In y all -> key_start w tb o all x = key_start w tb o all y -> x = y.
  Proof.
    intros Hx Hy. unfold key_start. destruct (o_random o); intros H; injection H; intros; apply w_inj; assumption.
  Qed.

  Lemma key_child_inj tb seen x y : In x all -> In y all -> key_child w tb o all seen x = key_child w tb o all seen y -> x = y.
  Proof.
    intros Hx Hy. unfold key_child. destruct (o_random o); intros H; injection H; intros; apply w_inj; assumption.
  Qed.

  (* since fix 2e3e6bb the traversal sorts the neighbours of atom p by key_child_at g .. p = the weight part, then the order
     of the bond to p, then tb: with injective weights the bond order (like tb) is never reached *)
  Lemma key_child_at_cmp g tb seen p x y : In x all -> In y all ->
    zlist_ltb (key_child_at g w tb o all seen p y) (key_child_at g w tb o all seen p x) =
    zlist_ltb (key_child w tb o all seen y) (key_child w tb o all seen x).
  Proof.
    intros Hx Hy. destruct (Z.eq_dec x y) as [->|Hne]; [rewrite !zlist_ltb_irrefl; reflexivity|].
    assert ((w y =? w x) = false) as E by (apply Z.eqb_neq; intros He; apply Hne; symmetry; apply w_inj; assumption).
    unfold key_child_at, key_child. destruct (o_random o); cbn; rewrite E; cbn; rewrite ?andb_false_r; reflexivity.
  Qed.

  Theorem children_at_is_weight_order g tb seen p l : incl l all ->
    sort_by (key_child_at g w tb o all seen p) l = sort_by (key_child w tb o all seen) l.
  Proof. intros Hi. apply sort_by_ext. intros x y Hx Hy. apply key_child_at_cmp; apply Hi; assumption. Qed.

  (* min(atoms_set, key=mod_weights_start): neither the tie-break priority nor the iteration order of the set matters *)
  Theorem start_atom_weights_only tb tb' l l' : incl l all -> Permutation l l' ->
    min_by (key_start w tb o all) l = min_by (key_start w tb' o all) l'.
  Proof.
    intros Hi Hp. rewrite !min_by_head. f_equal.
    rewrite (sort_by_ext _ (key_start w tb' o all) l) by (intros x y Hx Hy; apply key_start_tb; apply Hi; assumption).
    apply sort_by_canonical; [|exact Hp].
    intros x y Hx Hy. apply key_start_inj; apply Hi; assumption.
  Qed.

  (* sorted(bonds[n].keys() - {parent}, key=mod_weights) *)
  Theorem children_order_weights_only tb tb' seen l l' : incl l all -> Permutation l l' ->
    sort_by (key_child w tb o all seen) l = sort_by (key_child w tb' o all seen) l'.
  Proof.
    intros Hi Hp.
    rewrite (sort_by_ext _ (key_child w tb' o all seen) l) by (intros x y Hx Hy; apply key_child_tb; apply Hi; assumption).
    apply sort_by_canonical; [|exact Hp].
    intros x y Hx Hy. apply key_child_inj; apply Hi; assumption.
  Qed.

  (* the key the traversal really uses: neither the molecule's bond orders, nor the parent, nor tb, nor the set order matter *)
  Theorem children_at_order_weights_only g g2 tb tb' seen p p2 l l' : incl l all -> Permutation l l' ->
    sort_by (key_child_at g w tb o all seen p) l = sort_by (key_child_at g2 w tb' o all seen p2) l'.
  Proof.
    intros Hi Hp. rewrite (children_at_is_weight_order g tb seen p l Hi).
    rewrite (children_at_is_weight_order g2 tb' seen p2 l') by (intros x Hx; apply Hi; eapply Permutation_in; [apply Permutation_sym; exact Hp | exact Hx]).
    apply children_order_weights_only; assumption.
  Qed.
End WriterKeys.

(* ==================================================================================================== *)
(* 4. renumbering                                                                                         *)
Section Renumbering.
  Variable w w' : Z -> Z.
  Variable o : opts.
  Variable all : list Z.
  Variable s : Z -> Z.
  Hypothesis w_inj : inj_on all w.
  Hypothesis w_ren : forall n, In n all -> w' (s n) = w n.

  Lemma group_of_ren x : In x all -> group_of w' (map s all) (s x) = group_of w all x.
  Proof.
    intros Hx. unfold group_of. f_equal. f_equal. rewrite w_ren by exact Hx.
    assert (forall l, incl l all ->
            List.length (filter (fun n => w' n =? w x) (map s l)) = List.length (filter (fun n => w n =? w x) l)) as H.
    { induction l as [|a l IH]; intros Hi; cbn; [reflexivity|].
      rewrite w_ren by (apply Hi; left; reflexivity).
      destruct (w a =? w x); cbn; rewrite IH by (intros z Hz; apply Hi; right; exact Hz); reflexivity. }
    apply H. apply incl_refl.
  Qed.

  Lemma w'_inj : inj_on (map s all) w'.
  Proof.
    intros a b Ha Hb He. apply in_map_iff in Ha. destruct Ha as [x [<- Hx]]. apply in_map_iff in Hb. destruct Hb as [y [<- Hy]].
    rewrite !w_ren in He by assumption. f_equal. apply w_inj; assumption.
  Qed.

  (* the start atom of the renumbered molecule is the image of the start atom, whatever the tie-break priorities and the
     iteration order of the renumbered atom set are *)
  Theorem start_atom_equivariant tb tb' l l' : incl l all -> Permutation (map s l) l' ->
    min_by (key_start w' tb' o (map s all)) l' = option_map s (min_by (key_start w tb o all) l).
  Proof.
    intros Hi Hp.
    rewrite <- (start_atom_weights_only w' o (map s all) w'_inj (fun y => tb (0 * y)) tb' (map s l) l');
      [|intros z Hz; apply in_map_iff in Hz; destruct Hz as [a [<- Ha]]; apply in_map; apply Hi; exact Ha | exact Hp].
    rewrite (start_atom_weights_only w o all w_inj tb (fun _ => tb 0) l l Hi (Permutation_refl _)).
    rewrite !min_by_head.
    rewrite (sort_by_map (key_start w (fun _ => tb 0) o all) (key_start w' (fun y => tb (0 * y)) o (map s all)) s l).
    - destruct (sort_by (key_start w (fun _ => tb 0) o all) l); reflexivity.
    - intros y Hy. unfold key_start. rewrite group_of_ren, w_ren by (apply Hi; exact Hy). reflexivity.
  Qed.

  (* the children of a DFS node of the renumbered molecule are visited in the image of the original order; `seen'` holds
     the BFS labels of the renumbered molecule *)
  Theorem children_order_equivariant tb tb' seen seen' l l' : incl l all -> Permutation (map s l) l' ->
    (forall n, In n all -> zget seen' (s n) = zget seen n) ->
    sort_by (key_child w' tb' o (map s all) seen') l' = map s (sort_by (key_child w tb o all seen) l).
  Proof.
    intros Hi Hp Hseen.
    rewrite <- (children_order_weights_only w' o (map s all) w'_inj (fun y => tb (0 * y)) tb' seen' (map s l) l');
      [|intros z Hz; apply in_map_iff in Hz; destruct Hz as [a [<- Ha]]; apply in_map; apply Hi; exact Ha | exact Hp].
    rewrite (children_order_weights_only w o all w_inj tb (fun _ => tb 0) seen l l Hi (Permutation_refl _)).
    apply sort_by_map.
    intros y Hy. unfold key_child. rewrite group_of_ren, w_ren, Hseen by (apply Hi; exact Hy). reflexivity.
  Qed.

  (* the same for the key the traversal uses (any two molecules g, g' and parents p, p': the bond order never decides) *)
  Theorem children_at_order_equivariant g g' p p' tb tb' seen seen' l l' : incl l all -> Permutation (map s l) l' ->
    (forall n, In n all -> zget seen' (s n) = zget seen n) ->
    sort_by (key_child_at g' w' tb' o (map s all) seen' p') l' = map s (sort_by (key_child_at g w tb o all seen p) l).
  Proof.
    intros Hi Hp Hseen.
    rewrite (children_at_is_weight_order w o all w_inj g tb seen p l Hi).
    rewrite (children_at_is_weight_order w' o (map s all) w'_inj g' tb' seen' p' l').
    - apply children_order_equivariant; assumption.
    - intros z Hz. apply (Permutation_in _ (Permutation_sym Hp)) in Hz. apply in_map_iff in Hz. destruct Hz as [a [<- Ha]].
      apply in_map. apply Hi. exact Ha.
  Qed.
End Renumbering.

(* ==================================================================================================== *)
(* 5. the goal these lemmas work towards (a Prop, NOT a theorem of this development): with injective weights the written
      string is the same and the written atom order is mapped by the renumbering.  `tabs'` are the stereo registries of
      the renumbered molecule. *)
Definition map_order (s : Z -> Z) (r : pyres (string * list Z)) : pyres (string * list Z) :=
  match r with Ok (txt, order) => Ok (txt, map s order) | Err e => Err e end.

Definition smiles_invariant_discrete_goal : Prop :=
  forall (g : mol) (s : Z -> Z) (w w' tb tb' : Z -> Z) (o : opts) (tabs tabs' : stabs),
    wf_mol g = true -> inj_on (ids g) s -> inj_on (ids g) w -> (forall n, In n (ids g) -> w' (s n) = w n) ->
    o_mapping o = false ->
    (* tabs' = the registries of tabs renumbered by s *) True ->
    smiles_text (ren_mol s g) w' tb' o tabs' = map_order s (smiles_text g w tb o tabs).

(* ==================================================================================================== *)
(* 6. a concrete instance of the hypotheses (non-vacuity) *)
Definition exw_all : list Z := [1; 2; 3; 4].
Definition exw_w (n : Z) : Z := 50 - 7 * n.
Definition exw_s (n : Z) : Z := 2 * n + 10.
Definition exw_w' (m : Z) : Z := 50 - 7 * ((m - 10) / 2).

Theorem writer_keys_example :
  inj_on exw_all exw_w /\ inj_on exw_all exw_s /\ (forall n, In n exw_all -> exw_w' (exw_s n) = exw_w n) /\
  min_by (key_start exw_w (fun n => n) default_opts exw_all) [1; 2; 3; 4] = Some 4 /\
  min_by (key_start exw_w' (fun n => - n) default_opts (map exw_s exw_all)) [14; 18; 12; 16] = Some 18 /\
  sort_by (key_child exw_w (fun n => n) default_opts exw_all []) [1; 2; 3] = [3; 2; 1] /\
  sort_by (key_child exw_w' (fun n => n) default_opts (map exw_s exw_all) []) [12; 16; 14] = [16; 14; 12].
Proof.
  assert (forall n, In n exw_all -> n = 1 \/ n = 2 \/ n = 3 \/ n = 4) as Hall
    by (intros n H; cbn in H; intuition).
  split; [intros x y Hx Hy; unfold exw_w; lia|].
  split; [intros x y Hx Hy; unfold exw_s; lia|].
  split; [intros n Hn; apply Hall in Hn; destruct Hn as [->|[->|[->| ->]]]; vm_compute; reflexivity|].
  repeat split; vm_compute; reflexivity.
Qed.

(* ==================================================================================================== *)
(* 7. Morgan model + writer keys: the first choices of the canonical traversal are structure-determined  *)
Lemma filter_length_perm {A} (p : A -> bool) l l' : Permutation l l' -> List.length (filter p l) = List.length (filter p l').
Proof. intros H. apply Permutation_length. apply filter_perm. exact H. Qed.

Lemma group_of_perm w all all' x : Permutation all all' -> group_of w all x = group_of w all' x.
Proof. intros H. unfold group_of. f_equal. f_equal. apply filter_length_perm. exact H. Qed.

Lemma key_start_perm w tb o all all' x : Permutation all all' -> key_start w tb o all x = key_start w tb o all' x.
Proof. intros H. unfold key_start. rewrite (group_of_perm w all all' x H). reflexivity. Qed.

Lemma key_child_perm w tb o all all' seen x : Permutation all all' ->
  key_child w tb o all seen x = key_child w tb o all' seen x.
Proof. intros H. unfold key_child. rewrite (group_of_perm w all all' x H). reflexivity. Qed.

Lemma key_child_at_perm g w tb o all all' seen p x : Permutation all all' ->
  key_child_at g w tb o all seen p x = key_child_at g w tb o all' seen p x.
Proof. intros H. unfold key_child_at. rewrite (group_of_perm w all all' x H). reflexivity. Qed.

Lemma sort_by_key_eq {A} (key key' : A -> list Z) l : (forall x, key x = key' x) -> sort_by key l = sort_by key' l.
Proof. intros H. apply sort_by_ext. intros x y _ _. rewrite !H. reflexivity. Qed.

(* discrete ranks: the weight function read off the result dict is injective on its keys *)
Lemma lbl_inj_of_nodup (l : labels) : NoDup (keys l) -> NoDup (map snd l) -> inj_on (keys l) (lbl l).
Proof.
  intros Hk Hv x y Hx Hy He.
  apply in_map_iff in Hx. destruct Hx as [[x' vx] [Ex Hx]]. cbn in Ex. subst x'.
  apply in_map_iff in Hy. destruct Hy as [[y' vy] [Ey Hy]]. cbn in Ey. subst y'.
  unfold lbl in He. rewrite (zget_In l x vx Hk Hx), (zget_In l y vy Hk Hy) in He. subst vy.
  clear Hk. induction l as [|[k v] l IH]; [destruct Hx|].
  cbn [map snd] in Hv. inversion Hv as [|? ? Hn Hv']; subst.
  destruct Hx as [Hx|Hx], Hy as [Hy|Hy].
  - congruence.
  - injection Hx as -> ->. exfalso. apply Hn. apply in_map_iff. exists (y, vx). split; [reflexivity | exact Hy].
  - injection Hy as -> ->. exfalso. apply Hn. apply in_map_iff. exists (x, vx). split; [reflexivity | exact Hx].
  - apply IH; assumption.
Qed.


(* looking a row up in the same dict of dicts built in another insertion order *)
Lemma zget_nb_perm {B} (adj mid : list (Z * list (Z * B))) k row : Forall2 nb_perm adj mid -> zget adj k = Some row ->
  exists row', zget mid k = Some row' /\ Permutation row row'.
Proof.
  intros Hf. induction Hf as [|[n ms] [n' ms'] adj mid [Hn Hms] _ IH]; cbn [zget]; [discriminate|].
  cbn [fst snd] in Hn, Hms. subst n'. destruct (k =? n).
  - intros [= <-]. exists ms'. split; [reflexivity | exact Hms].
  - exact IH.
Qed.

Lemma keys_nb_perm {B} (adj mid : list (Z * list (Z * B))) : Forall2 nb_perm adj mid -> keys mid = keys adj.
Proof.
  intros Hf. induction Hf as [|[n ms] [n' ms'] adj mid [Hn _] _ IH]; [reflexivity|].
  cbn [keys map fst] in *. cbn [fst] in Hn. subst n'. f_equal. exact IH.
Qed.

Lemma zget_adj_perm {B} (adj adj' : list (Z * list (Z * B))) k row : adj_perm adj adj' -> NoDup (keys adj) ->
  zget adj k = Some row -> exists row', zget adj' k = Some row' /\ Permutation row row'.
Proof.
  intros [mid [Hf Hp]] Hn Hk. destruct (zget_nb_perm adj mid k row Hf Hk) as [row' [E P]].
  exists row'. split; [|exact P]. rewrite <- (zget_perm mid adj' k); [exact E | rewrite (keys_nb_perm adj mid Hf); exact Hn | exact Hp].
Qed.

Lemma zget_ren_map {V W} (f : V -> W) s (d : list (Z * V)) n D : inj_on D s -> incl (keys d) D -> In n D ->
  zget (map (fun kv => (s (fst kv), f (snd kv))) d) (s n) = option_map f (zget d n).
Proof.
  intros Hs Hd Hn. induction d as [|[k v] d IH]; cbn; [reflexivity|].
  assert (In k D) as Hk by (apply Hd; left; reflexivity).
  assert (incl (keys d) D) as Hd' by (intros x Hx; apply Hd; right; exact Hx).
  destruct (Z.eqb_spec n k) as [->|Hne].
  - rewrite Z.eqb_refl. reflexivity.
  - destruct (Z.eqb_spec (s n) (s k)) as [E|_]; [exfalso; apply Hne; apply Hs; assumption | apply IH; exact Hd'].
Qed.

Lemma zget_some_of_key {V} (d : list (Z * V)) k : In k (keys d) -> exists v, zget d k = Some v.
Proof.
  intros H. destruct (zget d k) as [v|] eqn:E; [exists v; reflexivity|].
  apply zget_None_iff in E. contradiction.
Qed.

Section CanonicalFirstChoices.
  Variable h : list Z -> Z.
  Variable ring ring' : Z -> bool.
  Variable g g' : mol.
  Variable s : Z -> Z.
  Variable l : labels.
  Hypothesis Hwf : wf_mol g = true.
  Hypothesis Hs : inj_on (ids g) s.
  Hypothesis Hr : forall n, In n (ids g) -> ring' (s n) = ring n.
  Hypothesis Hp : mol_perm (ren_mol s g) g'.
  Hypothesis Hl : atoms_order h ring g = Ok l.
  Hypothesis Hd : NoDup (map snd l).

  Let l' := ren_labels s l.

  Lemma Hkeys : Permutation (keys l) (ids g).
  Proof. destruct (atoms_order_total h ring g Hwf) as [l0 [E P]]. rewrite Hl in E. injection E as <-. exact P. Qed.

  Lemma Hnd : NoDup (keys l).
  Proof.
    destruct (wf_mol_inv g Hwf) as [H1 [H2 _]].
    eapply atoms_order_keys_nodup; [exact H2 | rewrite <- H1; exact H2 | exact Hl].
  Qed.

  Lemma w_inj_ids : inj_on (ids g) (lbl l).
  Proof.
    intros x y Hx Hy. apply (lbl_inj_of_nodup l Hnd Hd); eapply Permutation_in; try (apply Permutation_sym; apply Hkeys); assumption.
  Qed.

  Lemma w_ren_ids n : In n (ids g) -> lbl l' (s n) = lbl l n.
  Proof.
    intros Hn. apply (lbl_ren s l n (ids g) Hs); [|exact Hn].
    intros x Hx. eapply Permutation_in; [apply Hkeys | exact Hx].
  Qed.

  Lemma ids_perm' : Permutation (map s (ids g)) (ids g').
  Proof. destruct Hp as [Ha _]. rewrite <- ids_ren_mol. apply keys_perm. exact Ha. Qed.

  (* the weights of the renumbered, re-inserted molecule are the renumbered weights ... *)
  Theorem canonical_weights_equivariant : atoms_order h ring' g' = Ok l'.
  Proof. apply (morgan_rank_order_equivariant h ring ring' g s g' l Hwf Hs Hr Hp Hl Hd). Qed.

  (* ... and with them the writer model starts at the image of the start atom, whatever the tie-break priorities *)
  Theorem canonical_start_structure_only tb tb' o :
    min_by (key_start (lbl l') tb' o (ids g')) (ids g') = option_map s (min_by (key_start (lbl l) tb o (ids g)) (ids g)).
  Proof.
    unfold min_by.
    rewrite (sort_by_key_eq (key_start (lbl l') tb' o (ids g')) (key_start (lbl l') tb' o (map s (ids g))))
      by (intros x; apply key_start_perm; apply Permutation_sym; exact ids_perm').
    fold (min_by (key_start (lbl l') tb' o (map s (ids g))) (ids g')).
    fold (min_by (key_start (lbl l) tb o (ids g)) (ids g)).
    apply (start_atom_equivariant (lbl l) (lbl l') o (ids g) s w_inj_ids w_ren_ids tb tb' (ids g) (ids g')).
    - apply incl_refl.
    - exact ids_perm'.
  Qed.

  (* the children of any atom n are visited in the image of the original order, given BFS labels that correspond *)
  Theorem canonical_children_structure_only tb tb' o seen seen' n :
    In n (ids g) -> (forall x, In x (ids g) -> zget seen' (s x) = zget seen x) ->
    sort_by (key_child_at g' (lbl l') tb' o (ids g') seen' (s n)) (nbr_ids g' (s n)) =
    map s (sort_by (key_child_at g (lbl l) tb o (ids g) seen n) (nbr_ids g n)).
  Proof.
    intros Hn Hseen.
    destruct (wf_mol_inv g Hwf) as [H1 [H2 H3]].
    assert (exists row, zget (m_adj g) n = Some row) as [row Hrow] by (apply zget_some_of_key; rewrite <- H1; exact Hn).
    assert (incl (nbr_ids g n) (ids g)) as Hincl.
    { unfold nbr_ids, nbrs. rewrite Hrow. apply (H3 n row). apply zget_Some_In. exact Hrow. }
    assert (Permutation (map s (nbr_ids g n)) (nbr_ids g' (s n))) as Hperm.
    { assert (zget (m_adj (ren_mol s g)) (s n) = Some (map (fun mb => (s (fst mb), snd mb)) row)) as E.
      { unfold ren_mol, ren_adj. cbn [m_adj].
        rewrite (zget_ren_map (fun r : list (Z * bond) => map (fun mb => (s (fst mb), snd mb)) r) s (m_adj g) n (ids g) Hs);
          [rewrite Hrow; reflexivity | rewrite H1; apply incl_refl | exact Hn]. }
      destruct Hp as [_ Hadj].
      assert (NoDup (keys (m_adj (ren_mol s g)))) as Hnd' by (rewrite keys_adj_ren_mol, <- H1; apply NoDup_map_inj; assumption).
      destruct (zget_adj_perm _ _ (s n) _ Hadj Hnd' E) as [row' [E' P]].
      unfold nbr_ids, nbrs. rewrite Hrow, E'. unfold keys.
      eapply Permutation_trans; [|apply Permutation_map; exact P].
      rewrite !map_map. cbn [fst]. apply Permutation_refl. }
    rewrite (sort_by_key_eq (key_child_at g' (lbl l') tb' o (ids g') seen' (s n)) (key_child_at g' (lbl l') tb' o (map s (ids g)) seen' (s n)))
      by (intros x; apply key_child_at_perm; apply Permutation_sym; exact ids_perm').
    apply (children_at_order_equivariant (lbl l) (lbl l') o (ids g) s w_inj_ids w_ren_ids g g' n (s n) tb tb' seen seen'
                                         (nbr_ids g n) (nbr_ids g' (s n))); assumption.
  Qed.
End CanonicalFirstChoices.

(* the two statements of section 7 about the start atom in one *)
Theorem canonical_start_full (h : list Z -> Z) (ring ring' : Z -> bool) (g g' : mol) (s : Z -> Z) (l : labels) :
  wf_mol g = true -> inj_on (ids g) s -> (forall n, In n (ids g) -> ring' (s n) = ring n) -> mol_perm (ren_mol s g) g' ->
  atoms_order h ring g = Ok l -> NoDup (map snd l) ->
  atoms_order h ring' g' = Ok (ren_labels s l) /\
  forall (tb tb' : Z -> Z) (o : opts),
    min_by (key_start (lbl (ren_labels s l)) tb' o (ids g')) (ids g') = option_map s (min_by (key_start (lbl l) tb o (ids g)) (ids g)).
Proof.
  intros Hwf Hs Hr Hp Hl Hd. split.
  - exact (canonical_weights_equivariant h ring ring' g g' s l Hwf Hs Hr Hp Hl Hd).
  - exact (canonical_start_structure_only h ring g g' s l Hwf Hs Hp Hl Hd).
Qed.

(* ==================================================================================================== *)
(* 8. the depth-first search of the writer under a renumbering (remap): same insertion orders, other numbers, other
      tie-break priorities.  s is injective on all of Z here (every finite renumbering extends to such a map). *)
Definition ren_vis (s : Z -> Z) (d : list (Z * list Z)) : list (Z * list Z) := map (fun kv => (s (fst kv), map s (snd kv))) d.
Definition ren_pairs (s : Z -> Z) (l : list (Z * Z)) : list (Z * Z) := map (fun p => (s (fst p), s (snd p))) l.
Definition ren_tokens (s : Z -> Z) (d : list (Z * list (Z * Z))) : list (Z * list (Z * Z)) :=
  map (fun kv => (s (fst kv), map (fun pc => (s (fst pc), snd pc)) (snd kv))) d.
Definition ren_stack (s : Z -> Z) (st : list (Z * Z * list Z)) : list (Z * Z * list Z) :=
  map (fun e => (s (fst (fst e)), snd (fst e), map s (snd e))) st.
Definition ren_dfs (s : Z -> Z) (st : dfs_st) : dfs_st :=
  mkDfs (ren_stack s (ds_stack st)) (ren_vis s (ds_visited st)) (ren_pairs s (ds_disc st)) (ren_vis s (ds_edges st))
        (ren_tokens s (ds_tokens st)) (ds_cycle st).

Section GlobalRenaming.
  Variable s : Z -> Z.
  Hypothesis s_inj : forall x y, s x = s y -> x = y.

  Lemma seqb x y : (s x =? s y) = (x =? y).
  Proof.
    destruct (Z.eqb_spec x y) as [->|Hne]; [apply Z.eqb_refl|].
    apply Z.eqb_neq. intros E. apply Hne. apply s_inj. exact E.
  Qed.

  Lemma zget_renG {V W} (f : V -> W) (d : list (Z * V)) k :
    zget (map (fun kv => (s (fst kv), f (snd kv))) d) (s k) = option_map f (zget d k).
  Proof.
    induction d as [|[k' v] d IH]; cbn; [reflexivity|]. rewrite seqb. destruct (k =? k'); [reflexivity | exact IH].
  Qed.

  Lemma zhas_renG {V W} (f : V -> W) (d : list (Z * V)) k : zhas (map (fun kv => (s (fst kv), f (snd kv))) d) (s k) = zhas d k.
  Proof. unfold zhas. rewrite zget_renG. destruct (zget d k); reflexivity. Qed.

  Lemma zapp_renG {V W} (f : V -> W) (d : list (Z * list V)) k x :
    zapp (map (fun kv => (s (fst kv), map f (snd kv))) d) (s k) (f x) = map (fun kv => (s (fst kv), map f (snd kv))) (zapp d k x).
  Proof.
    induction d as [|[k' v] d IH]; cbn; [reflexivity|]. rewrite seqb. destruct (k =? k'); cbn.
    - rewrite map_app. reflexivity.
    - rewrite IH. reflexivity.
  Qed.

  Lemma zset_renG {V} (d : list (Z * V)) k v :
    zset (map (fun kv => (s (fst kv), snd kv)) d) (s k) v = map (fun kv => (s (fst kv), snd kv)) (zset d k v).
  Proof.
    induction d as [|[k' v'] d IH]; cbn; [reflexivity|]. rewrite seqb. destruct (k =? k'); cbn; [reflexivity | rewrite IH; reflexivity].
  Qed.

  Lemma pair_mem_renG a b l : pair_mem (s a, s b) (ren_pairs s l) = pair_mem (a, b) l.
  Proof.
    unfold pair_mem, ren_pairs. induction l as [|[x y] l IH]; cbn; [reflexivity|].
    unfold pair_eqbZ at 1 3. cbn [fst snd]. rewrite !seqb, IH. reflexivity.
  Qed.

  Lemma filter_neq_renG p l : filter (fun m => negb (m =? s p)) (map s l) = map s (filter (fun m => negb (m =? p)) l).
  Proof.
    induction l as [|x l IH]; cbn; [reflexivity|]. rewrite seqb. destruct (x =? p); cbn; rewrite IH; reflexivity.
  Qed.

  Lemma nbr_ids_renG g n : nbr_ids (ren_mol s g) (s n) = map s (nbr_ids g n).
  Proof.
    unfold nbr_ids, nbrs, ren_mol, ren_adj. cbn [m_adj].
    rewrite (zget_renG (fun r : list (Z * bond) => map (fun mb => (s (fst mb), snd mb)) r)).
    destruct (zget (m_adj g) n); cbn; [|reflexivity]. unfold keys. rewrite !map_map. reflexivity.
  Qed.

  Section Dfs.
    Variable g : mol.
    Variable all : list Z.
    Variable key key' : Z -> Z -> list Z.
    Hypothesis Hnb : forall n, incl (nbr_ids g n) all.
    Hypothesis Hsort : forall p l, incl l all -> sort_by (key' (s p)) (map s l) = map s (sort_by (key p) l).

    Lemma dfs_step_ren st : dfs_step (ren_mol s g) key' (ren_dfs s st) = option_map (ren_dfs s) (dfs_step g key st).
    Proof.
      destruct st as [stack vis disc edges tokens cyc]. unfold dfs_step, ren_dfs. cbn [ds_stack ds_visited ds_disc ds_edges ds_tokens ds_cycle].
      destruct stack as [|[[parent depth] children] rest]; [reflexivity|].
      cbn [ren_stack map fst snd]. destruct children as [|child children']; [reflexivity|].
      cbn [map]. unfold ren_vis at 1. rewrite (zhas_renG (map s)). destruct (zhas vis child); cbn [negb].
      - (* already visited *)
        rewrite pair_mem_renG. destruct (pair_mem (child, parent) disc); cbn [negb option_map]; [reflexivity|].
        f_equal. unfold ren_dfs. cbn [ds_stack ds_visited ds_disc ds_edges ds_tokens ds_cycle]. f_equal.
        unfold ren_tokens. set (f := fun pc : Z * Z => (s (fst pc), snd pc)).
        change (s child, cyc + 1) with (f (child, cyc + 1)). change (s parent, cyc + 1) with (f (parent, cyc + 1)).
        rewrite !zapp_renG. reflexivity.
      - (* a new atom *)
        cbn [option_map]. f_equal. unfold ren_dfs. cbn [ds_stack ds_visited ds_disc ds_edges ds_tokens ds_cycle]. f_equal.
        + destruct (1 <? depth); [|reflexivity].
          rewrite nbr_ids_renG, filter_neq_renG.
          assert (incl (filter (fun m => negb (m =? parent)) (nbr_ids g child)) all) as Hi
            by (intros x Hx; apply filter_In in Hx; apply (Hnb child); apply Hx).
          destruct (filter (fun m => negb (m =? parent)) (nbr_ids g child)) as [|f0 fr] eqn:E; [reflexivity|].
          cbn [map]. change (s f0 :: map s fr) with (map s (f0 :: fr)). rewrite (Hsort child _ Hi). reflexivity.
        + unfold ren_vis. rewrite map_app. reflexivity.
        + unfold ren_vis. rewrite <- (zapp_renG s edges parent child). reflexivity.
    Qed.

    Lemma iter_opt_ren {S} (f : S -> S) (step step' : S -> option S) :
      (forall x, step' (f x) = option_map f (step x)) ->
      forall fuel x, iter_opt fuel step' (f x) = option_map f (iter_opt fuel step x).
    Proof.
      intros H fuel. induction fuel as [|fuel IH]; intros x; cbn; [reflexivity|].
      rewrite H. destruct (step x) as [x'|]; cbn; [apply IH | reflexivity].
    Qed.

    (* the whole `while stack:` loop *)
    Theorem dfs_ren fuel st :
      iter_opt fuel (dfs_step (ren_mol s g) key') (ren_dfs s st) = option_map (ren_dfs s) (iter_opt fuel (dfs_step g key) st).
    Proof. apply iter_opt_ren. exact dfs_step_ren. Qed.
  End Dfs.

  (* the BFS labels *)
  Lemma bfs_ren g fuel : forall queue seen,
    bfs (ren_mol s g) fuel (ren_labels s queue) (ren_labels s seen) = ren_labels s (bfs g fuel queue seen).
  Proof.
    induction fuel as [|fuel IH]; intros queue seen; cbn [bfs]; [reflexivity|].
    destruct queue as [|[n d] q]; [reflexivity|]. cbn [ren_labels map fst snd].
    rewrite nbr_ids_renG.
    assert (filter (fun m => negb (zhas (ren_labels s seen) m)) (map s (nbr_ids g n)) =
            map s (filter (fun m => negb (zhas seen m)) (nbr_ids g n))) as ->.
    { induction (nbr_ids g n) as [|x l IHl]; cbn; [reflexivity|].
      unfold ren_labels at 1. rewrite (zhas_renG (fun v : Z => v)).
      destruct (zhas seen x); cbn; fold (ren_labels s seen); rewrite IHl; reflexivity. }
    rewrite <- IH. f_equal.
    - unfold ren_labels. rewrite map_app, !map_map. reflexivity.
    - unfold ren_labels. rewrite map_app, !map_map. reflexivity.
  Qed.
End GlobalRenaming.

(* ==================================================================================================== *)
(* 9. one component of the traversal (start atom, BFS labels, DFS tree with ring-closure pairs) under renumbering *)
Definition ren_traversal (s : Z -> Z) (t : traversal) : traversal :=
  mkTr (s (tr_start t)) (ren_labels s (tr_seen t)) (ren_dfs s (tr_dfs t)).
Definition ren_tres (s : Z -> Z) (r : pyres traversal) : pyres traversal :=
  match r with Ok t => Ok (ren_traversal s t) | Err e => Err e end.

Lemma n_atoms_ren s g : n_atoms (ren_mol s g) = n_atoms g.
Proof. unfold n_atoms. rewrite ids_ren_mol. apply map_length. Qed.

Lemma n_dbonds_ren s g : n_dbonds (ren_mol s g) = n_dbonds g.
Proof.
  unfold n_dbonds, ren_mol, ren_adj. cbn [m_adj]. induction (m_adj g) as [|[n row] adj IH]; cbn; [reflexivity|].
  rewrite !app_length, map_length. f_equal. exact IH.
Qed.

Lemma nbr_ids_incl g : wf_mol g = true -> forall n, incl (nbr_ids g n) (ids g).
Proof.
  intros Hwf n. destruct (wf_mol_inv g Hwf) as [_ [_ H3]]. unfold nbr_ids, nbrs.
  destruct (zget (m_adj g) n) as [row|] eqn:E; [|intros x []].
  apply (H3 n row). apply zget_Some_In. exact E.
Qed.

Section TraverseRen.
  Variable g : mol.
  Variable s : Z -> Z.
  Variable w w' tb tb' : Z -> Z.
  Variable o : opts.
  Hypothesis Hwf : wf_mol g = true.
  Hypothesis s_inj : forall x y, s x = s y -> x = y.
  Hypothesis w_inj : inj_on (ids g) w.
  Hypothesis w_ren : forall n, In n (ids g) -> w' (s n) = w n.

  Lemma seen_ren seen n : zget (ren_labels s seen) (s n) = zget seen n.
  Proof. unfold ren_labels. rewrite (zget_renG s s_inj (fun v : Z => v)). destruct (zget seen n); reflexivity. Qed.

  Theorem traverse_ren st st' :
    incl (ws_atoms st) (ids g) -> Permutation (map s (ws_atoms st)) (ws_atoms st') ->
    ws_seen st' = ren_labels s (ws_seen st) -> ws_cycle st' = ws_cycle st ->
    traverse (ren_mol s g) w' tb' o (map s (ids g)) st' = ren_tres s (traverse g w tb o (ids g) st).
  Proof.
    intros Hi Hp Hseen Hcyc. unfold traverse.
    rewrite (start_atom_equivariant w w' o (ids g) s w_inj w_ren tb tb' (ws_atoms st) (ws_atoms st') Hi Hp).
    destruct (min_by (key_start w tb o (ids g)) (ws_atoms st)) as [start|]; cbn [option_map ren_tres]; [|reflexivity].
    set (seen := if o_random o then ws_seen st else bfs g (S (n_atoms g)) [(start, 1)] (zset (ws_seen st) start 0)).
    assert ((if o_random o then ws_seen st'
             else bfs (ren_mol s g) (S (n_atoms (ren_mol s g))) [(s start, 1)] (zset (ws_seen st') (s start) 0)) = ren_labels s seen) as ->.
    { unfold seen. rewrite Hseen. destruct (o_random o); [reflexivity|].
      rewrite n_atoms_ren. unfold ren_labels at 1. rewrite (zset_renG s s_inj). fold (ren_labels s (zset (ws_seen st) start 0)).
      change [(s start, 1)] with (ren_labels s [(start, 1)]). apply bfs_ren. exact s_inj. }
    assert (forall p l, incl l (ids g) ->
              sort_by (key_child_at (ren_mol s g) w' tb' o (map s (ids g)) (ren_labels s seen) (s p)) (map s l) =
              map s (sort_by (key_child_at g w tb o (ids g) seen p) l)) as Hsort.
    { intros p l Hl. apply (children_at_order_equivariant w w' o (ids g) s w_inj w_ren g (ren_mol s g) p (s p) tb tb' seen (ren_labels s seen)
                                                          l (map s l) Hl (Permutation_refl _)).
      intros n _. apply seen_ren. }
    assert (Z.of_nat (List.length (ws_atoms st')) = Z.of_nat (List.length (ws_atoms st))) as ->.
    { f_equal. rewrite <- (Permutation_length Hp). apply map_length. }
    rewrite nbr_ids_renG by exact s_inj. rewrite (Hsort start _ (nbr_ids_incl g Hwf start)). rewrite Hcyc.
    unfold dfs_fuel. rewrite n_atoms_ren, n_dbonds_ren.
    pose proof (dfs_ren s s_inj g (ids g) (key_child_at g w tb o (ids g) seen) (key_child_at (ren_mol s g) w' tb' o (map s (ids g)) (ren_labels s seen))
                        (nbr_ids_incl g Hwf) Hsort (n_dbonds g + 2 * n_atoms g + 2)
                        (mkDfs [(start, Z.of_nat (List.length (ws_atoms st)), sort_by (key_child_at g w tb o (ids g) seen start) (nbr_ids g start))]
                               [(start, [])] [] [] [] (ws_cycle st))) as Hd.
    unfold ren_dfs at 1 in Hd. cbn [ds_stack ds_visited ds_disc ds_edges ds_tokens ds_cycle ren_stack ren_vis ren_pairs ren_tokens map fst snd] in Hd.
    rewrite Hd.
    destruct (iter_opt (n_dbonds g + 2 * n_atoms g + 2) (dfs_step g (key_child_at g w tb o (ids g) seen)) _) as [d|]; reflexivity.
  Qed.
End TraverseRen.

(* ==================================================================================================== *)
(* 10. non-vacuity: ethanol (MorganProofs.ex_g) renumbered n -> 10 - n; the weights are the ranks the Morgan model computes
       with the CPython hash; other tie-break priorities on the two sides *)
Definition exw_l : labels := [(1, 1); (3, 2); (2, 3)].
Definition exw_st : wstate := mkW [1; 2; 3] [] 0 [] [] [] [] [].
Definition exw_st' : wstate := mkW [8; 9; 7] [] 0 [] [] [] [] [].

Theorem traverse_example :
  wf_mol ex_g = true /\ (forall x y, ex_s x = ex_s y -> x = y) /\ inj_on (ids ex_g) (lbl exw_l) /\
  (forall n, In n (ids ex_g) -> lbl (ren_labels ex_s exw_l) (ex_s n) = lbl exw_l n) /\
  Morgan.atoms_order PyHash.hash_ztuple ex_ring ex_g = Ok exw_l /\
  traverse ex_g (lbl exw_l) (fun n => n) default_opts (ids ex_g) exw_st =
    Ok (mkTr 1 [(1, 0); (2, 1); (3, 2)] (mkDfs [] [(1, []); (2, [1]); (3, [2])] [] [(1, [2]); (2, [3])] [] 0)) /\
  traverse (ren_mol ex_s ex_g) (lbl (ren_labels ex_s exw_l)) (fun n => - n) default_opts (map ex_s (ids ex_g)) exw_st' =
    Ok (mkTr 9 [(9, 0); (8, 1); (7, 2)] (mkDfs [] [(9, []); (8, [9]); (7, [8])] [] [(9, [8]); (8, [7])] [] 0)).
Proof.
  split; [vm_compute; reflexivity|].
  split; [intros x y; unfold ex_s; lia|].
  split; [intros x y Hx Hy; cbn in Hx, Hy; intuition (subst; vm_compute in *; congruence)|].
  split; [intros n Hn; cbn in Hn; intuition (subst; vm_compute; reflexivity)|].
  repeat split; vm_compute; reflexivity.
Qed.

(* ==================================================================================================== *)
(* 11. flattening the DFS tree into the token list (atoms, bonds, parentheses) under renumbering          *)
Definition ren_tok (s : Z -> Z) (t : tok) : tok :=
  match t with TAtom n => TAtom (s n) | TBond n m => TBond (s n) (s m) | TOpen => TOpen | TClose => TClose end.
Definition ren_entry (s : Z -> Z) (e : fl_entry) : fl_entry := (s (fst (fst e)), snd (fst e), map (ren_tok s) (snd e)).
Definition ren_flres (s : Z -> Z) (r : fl_res) : fl_res :=
  match r with FlCont st => FlCont (map (ren_entry s) st) | FlDone l => FlDone (map (ren_tok s) l) | FlErr e => FlErr e end.
Definition ren_toks (s : Z -> Z) (r : pyres (list tok)) : pyres (list tok) :=
  match r with Ok l => Ok (map (ren_tok s) l) | Err e => Err e end.

Section FlattenRen.
  Variable s : Z -> Z.
  Hypothesis s_inj : forall x y, s x = s y -> x = y.

  Lemma second_last_ren smi : second_last_is_open (map (ren_tok s) smi) = second_last_is_open smi.
  Proof.
    unfold second_last_is_open. rewrite <- map_rev. destruct (rev smi) as [|a [|x r]]; cbn; try reflexivity.
    destruct x; reflexivity.
  Qed.

  Lemma pop_second_last_ren smi : pop_second_last (map (ren_tok s) smi) = map (ren_tok s) (pop_second_last smi).
  Proof.
    unfold pop_second_last. rewrite <- map_rev. destruct (rev smi) as [|a [|x r]]; cbn [map]; try reflexivity.
    rewrite map_app, map_rev. reflexivity.
  Qed.

  Lemma upd_at_map {A B} (f : A -> B) (u : A -> A) (u' : B -> B) : (forall x, u' (f x) = f (u x)) ->
    forall i l, upd_at i u' (map f l) = map f (upd_at i u l).
  Proof.
    intros H i. induction i as [|i IH]; intros [|x l]; cbn; try reflexivity.
    - rewrite H. reflexivity.
    - rewrite IH. reflexivity.
  Qed.

  Lemma fl_step_ren edges stack : fl_step (ren_vis s edges) (map (ren_entry s) stack) = ren_flres s (fl_step edges stack).
  Proof.
    unfold fl_step. destruct stack as [|[[tail closure] smi] rest]; [reflexivity|].
    cbn [map ren_entry fst snd]. unfold ren_vis. rewrite (zget_renG s s_inj (map s)).
    destruct (zget edges tail) as [children|]; cbn [option_map].
    - rewrite <- map_rev. destruct (rev children) as [|last revfront] eqn:E; [reflexivity|].
      cbn [map]. rewrite !map_length. cbn [List.length]. rewrite map_length.
      destruct (1 <? Z.of_nat (List.length children)); cbn [ren_flres].
      + f_equal. rewrite (map_app (ren_entry s)). f_equal.
        rewrite <- map_rev, !map_map. apply map_ext. intros c. reflexivity.
      + f_equal. cbn [map]. f_equal. unfold ren_entry. cbn [fst snd]. rewrite map_app. reflexivity.
    - destruct (negb (closure =? 0)).
      + rewrite second_last_ren. destruct (second_last_is_open smi) as [b|]; [|reflexivity].
        rewrite map_length. destruct (closure - 1 <? Z.of_nat (List.length rest)); [|reflexivity].
        cbn [ren_flres]. f_equal.
        apply (upd_at_map (ren_entry s)). intros [[t c] sm]. unfold ren_entry. cbn [fst snd]. f_equal.
        rewrite (map_app (ren_tok s) sm). f_equal. destruct b; [apply pop_second_last_ren | rewrite map_app; reflexivity].
      + destruct rest as [|[[t1 c1] s1] [|e2 rest']]; cbn [map ren_entry fst snd ren_flres]; try reflexivity.
        * rewrite map_app. reflexivity.
        * unfold ren_entry at 3. cbn [fst snd]. rewrite map_app. reflexivity.
  Qed.

  Lemma fl_run_ren fuel edges : forall stack,
    fl_run fuel (ren_vis s edges) (map (ren_entry s) stack) = ren_toks s (fl_run fuel edges stack).
  Proof.
    induction fuel as [|fuel IH]; intros stack; cbn [fl_run]; [reflexivity|].
    rewrite fl_step_ren. destruct (fl_step edges stack) as [st|r|e]; cbn [ren_flres ren_toks]; [apply IH | reflexivity | reflexivity].
  Qed.

  Theorem flatten_ren g t : flatten (ren_mol s g) (ren_traversal s t) = ren_toks s (flatten g t).
  Proof.
    unfold flatten, fl_fuel. rewrite n_atoms_ren. unfold ren_traversal, ren_dfs. cbn [tr_dfs tr_start ds_edges].
    apply (fl_run_ren _ (ds_edges (tr_dfs t)) [(tr_start t, 0, [TAtom (tr_start t)])]).
  Qed.
End FlattenRen.

(* traversal + flattening: the token skeleton of one component, hence the order in which its atoms are written, is the
   renamed original *)
Definition component_tokens (g : mol) (w tb : Z -> Z) (o : opts) (st : wstate) : pyres (list tok) :=
  match traverse g w tb o (ids g) st with Ok t => flatten g t | Err e => Err e end.
Theorem component_tokens_ren (g : mol) (s w w' tb tb' : Z -> Z) (o : opts) :
  wf_mol g = true -> (forall x y, s x = s y -> x = y) -> inj_on (ids g) w -> (forall n, In n (ids g) -> w' (s n) = w n) ->
  forall st st' : wstate, incl (ws_atoms st) (ids g) -> Permutation (map s (ws_atoms st)) (ws_atoms st') ->
  ws_seen st' = ren_labels s (ws_seen st) -> ws_cycle st' = ws_cycle st ->
  component_tokens (ren_mol s g) w' tb' o st' = ren_toks s (component_tokens g w tb o st).
Proof.
  intros Hwf Hs Hw Hr st st' Hi Hp Hse Hc. unfold component_tokens. rewrite ids_ren_mol.
  rewrite (traverse_ren g s w w' tb tb' o Hwf Hs Hw Hr st st' Hi Hp Hse Hc).
  destruct (traverse g w tb o (ids g) st) as [t|e]; cbn [ren_tres]; [|reflexivity].
  apply flatten_ren. exact Hs.
Qed.

(* the atoms of a token list in writing order *)
Definition tok_atoms (l : list tok) : list Z := flat_map (fun t => match t with TAtom n => [n] | _ => [] end) l.
Lemma tok_atoms_ren s l : tok_atoms (map (ren_tok s) l) = map s (tok_atoms l).
Proof.
  unfold tok_atoms. induction l as [|t l IH]; cbn; [reflexivity|]. rewrite IH. destruct t; reflexivity.
Qed.

(* non-vacuity, continuing traverse_example: isobutanol-like branch is not needed; ethanol suffices to see the renaming *)
Theorem component_tokens_example :
  component_tokens ex_g (lbl exw_l) (fun n => n) default_opts exw_st = Ok [TAtom 1; TBond 1 2; TAtom 2; TBond 2 3; TAtom 3] /\
  component_tokens (ren_mol ex_s ex_g) (lbl (ren_labels ex_s exw_l)) (fun n => - n) default_opts exw_st' =
    Ok [TAtom 9; TBond 9 8; TAtom 8; TBond 8 7; TAtom 7].
Proof. split; vm_compute; reflexivity. Qed.

Theorem component_tokens_ren_order (g : mol) (s w w' tb tb' : Z -> Z) (o : opts) :
  wf_mol g = true -> (forall x y, s x = s y -> x = y) -> inj_on (ids g) w -> (forall n, In n (ids g) -> w' (s n) = w n) ->
  forall st st' : wstate, incl (ws_atoms st) (ids g) -> Permutation (map s (ws_atoms st)) (ws_atoms st') ->
  ws_seen st' = ren_labels s (ws_seen st) -> ws_cycle st' = ws_cycle st ->
  component_tokens (ren_mol s g) w' tb' o st' = ren_toks s (component_tokens g w tb o st) /\
  (forall l, tok_atoms (map (ren_tok s) l) = map s (tok_atoms l)).
Proof.
  intros Hwf Hs Hw Hr st st' Hi Hp Hse Hc. split; [apply component_tokens_ren; assumption | apply tok_atoms_ren].
Qed.

(* ==================================================================================================== *)
(* 12. ring-closure numbers, neighbour lists, and the emission of the strings under renumbering          *)
Definition ren_otok (s : Z -> Z) (t : otok) : otok :=
  match t with
  | OAtom n x => OAtom (s n) x | OBond n m x => OBond (s n) (s m) x | OCBond n m x => OCBond (s n) (s m) x
  | OClosure n m c => OClosure (s n) (s m) c | OOpen => OOpen | OClose => OClose | ODot => ODot
  end.
Lemma spell_ren s l : spell (map (ren_otok s) l) = spell l.
Proof. unfold spell. f_equal. rewrite map_map. apply map_ext. intros [ | | | | | | ]; reflexivity. Qed.

Section EmitRen.
  Variable s : Z -> Z.
  Hypothesis s_inj : forall x y, s x = s y -> x = y.
  Let rtk := fun pc : Z * Z => (s (fst pc), snd pc).

  Lemma zgetl_ren_tokens tokens a : zgetl (ren_tokens s tokens) (s a) = map rtk (zgetl tokens a).
  Proof. unfold zgetl, ren_tokens. rewrite (zget_renG s s_inj (map rtk)). destruct (zget tokens a); reflexivity. Qed.

  Lemma zget_ren_tokens tokens a : zget (ren_tokens s tokens) (s a) = option_map (map rtk) (zget tokens a).
  Proof. unfold ren_tokens. apply (zget_renG s s_inj (map rtk)). Qed.
  Lemma zget_ren_vis d a : zget (ren_vis s d) (s a) = option_map (map s) (zget d a).
  Proof. unfold ren_vis. apply (zget_renG s s_inj (map s)). Qed.

  Lemma zhas_ren_tokens tokens a : zhas (ren_tokens s tokens) (s a) = zhas tokens a.
  Proof. unfold ren_tokens. apply (zhas_renG s s_inj (map rtk)). Qed.

  (* positions of the ring-closure atoms in the token list *)
  Lemma ring_positions_ren tokens smi : forall i,
    ring_positions (ren_tokens s tokens) (map (ren_tok s) smi) i = ren_labels s (ring_positions tokens smi i).
  Proof.
    induction smi as [|t r IH]; intros i; cbn [map ring_positions]; [reflexivity|].
    destruct t; cbn [ren_tok]; try apply IH.
    rewrite zhas_ren_tokens. destruct (zhas tokens n); [|apply IH].
    cbn [ren_labels map fst snd]. f_equal. apply IH.
  Qed.

  (* closure numbers never look at atom numbers *)
  Lemma number_closures_ren cl : forall casted heap released,
    number_closures (map rtk cl) casted heap released = number_closures cl casted heap released.
  Proof.
    induction cl as [|[a c] r IH]; intros casted heap released; cbn [map number_closures]; [reflexivity|].
    unfold rtk at 1. cbn [fst snd]. destruct (zget casted c); [apply IH|]. destruct heap; [reflexivity | apply IH].
  Qed.

  (* casted_cycles and the heap after a component: identical *)
  Theorem number_atoms_ren tokens ro todo : forall casted heap,
    number_atoms (ren_tokens s tokens) (ren_labels s ro) (ren_labels s todo) casted heap = number_atoms tokens ro todo casted heap.
  Proof.
    induction todo as [|[a p] r IH]; intros casted heap; cbn [ren_labels map number_atoms fst snd]; [reflexivity|].
    rewrite zgetl_ren_tokens.
    rewrite (sort_by_map (fun x : Z * Z => [match zget ro (fst x) with Some p => p | None => 0 end])
                         (fun x : Z * Z => [match zget (ren_labels s ro) (fst x) with Some p => p | None => 0 end]) rtk).
    - rewrite number_closures_ren.
      destruct (number_closures _ casted heap []) as [[[casted' heap'] released]|e]; [|reflexivity].
      apply IH.
    - intros y _. unfold rtk. cbn [fst]. unfold ren_labels. rewrite (zget_renG s s_inj (fun v : Z => v)).
      destruct (zget ro (fst y)); reflexivity.
  Qed.

  Lemma zset_ren_tokens tokens n l :
    zset (ren_tokens s tokens) (s n) (map rtk l) = ren_tokens s (zset tokens n l).
  Proof.
    unfold ren_tokens. induction tokens as [|[k v] d IH]; cbn; [reflexivity|].
    rewrite (seqb s s_inj). destruct (n =? k); cbn; [reflexivity | rewrite IH; reflexivity].
  Qed.

  Lemma zupd_ren_vis visited n (f f' : list Z -> list Z) : (forall v, f' (map s v) = map s (f v)) ->
    zupd (ren_vis s visited) (s n) f' = ren_vis s (zupd visited n f).
  Proof.
    intros H. unfold ren_vis. induction visited as [|[k v] d IH]; cbn; [reflexivity|].
    rewrite (seqb s s_inj). destruct (n =? k); cbn; [rewrite H; reflexivity | rewrite IH; reflexivity].
  Qed.

  (* the closure lists in closure-number order and the neighbour lists used for the stereo marks *)
  Theorem order_neighbours_ren smi casted edges : forall tokens visited,
    order_neighbours (map (ren_tok s) smi) casted (ren_vis s edges) (ren_tokens s tokens) (ren_vis s visited) =
    (ren_tokens s (fst (order_neighbours smi casted edges tokens visited)),
     ren_vis s (snd (order_neighbours smi casted edges tokens visited))).
  Proof.
    induction smi as [|t r IH]; intros tokens visited; cbn [map order_neighbours]; [reflexivity|].
    destruct t; cbn [ren_tok]; try apply IH.
    rewrite zget_ren_tokens, zget_ren_vis.
    destruct (zget tokens n) as [l|]; cbn [option_map].
    - rewrite (sort_by_map (fun x : Z * Z => [casted_of casted (snd x)]) (fun x : Z * Z => [casted_of casted (snd x)]) rtk)
        by (intros y _; reflexivity).
      rewrite zset_ren_tokens.
      rewrite (zupd_ren_vis visited n (fun v => v ++ map fst (sort_by (fun x : Z * Z => [casted_of casted (snd x)]) l))).
      + destruct (zget edges n) as [ch|]; cbn [option_map].
        * rewrite (zupd_ren_vis _ n (fun v => v ++ ch)) by (intros v; rewrite map_app; reflexivity). apply IH.
        * apply IH.
      + intros v. rewrite map_app, !map_map. reflexivity.
    - destruct (zget edges n) as [ch|]; cbn [option_map].
      + rewrite (zupd_ren_vis _ n (fun v => v ++ ch)) by (intros v; rewrite map_app; reflexivity). apply IH.
      + apply IH.
  Qed.

  (* ---- emission ---- *)
  Definition ren_emit_cl (r : pyres (list otok * list (Z * Z))) : pyres (list otok * list (Z * Z)) :=
    match r with Ok (out, vb) => Ok (map (ren_otok s) out, ren_pairs s vb) | Err e => Err e end.
  Definition ren_emit (r : pyres (list otok * list Z * list (Z * Z))) : pyres (list otok * list Z * list (Z * Z)) :=
    match r with Ok (out, ord, vb) => Ok (map (ren_otok s) out, map s ord, ren_pairs s vb) | Err e => Err e end.

  Variable o : opts.
  Variable fa fa' : Z -> Z -> pyres string.
  Variable fat fat' : Z -> pyres string.

  Lemma emit_closures_ren n cl casted : (forall m c, In (m, c) cl -> fa' (s n) (s m) = fa n m) -> forall vb,
    emit_closures o fa' (s n) (map rtk cl) casted (ren_pairs s vb) = ren_emit_cl (emit_closures o fa n cl casted vb).
  Proof.
    induction cl as [|[m c] r IH]; intros Hfa vb; cbn [map emit_closures]; [reflexivity|].
    unfold rtk at 1. cbn [fst snd].
    assert (forall vb0, emit_closures o fa' (s n) (map rtk r) casted (ren_pairs s vb0) = ren_emit_cl (emit_closures o fa n r casted vb0)) as IH'
      by (apply IH; intros m0 c0 H0; apply (Hfa m0 c0); right; exact H0).
    rewrite (Hfa m c (or_introl eq_refl)).
    destruct (o_asym o).
    - rewrite (pair_mem_renG s s_inj). destruct (pair_mem (n, m) vb); cbn [negb].
      + rewrite IH'. destruct (emit_closures o fa n r casted vb) as [[out vb']|e]; reflexivity.
      + destruct (fa n m) as [x|e]; [|reflexivity].
        change ((s m, s n) :: ren_pairs s vb) with (ren_pairs s ((m, n) :: vb)). rewrite IH'.
        destruct (emit_closures o fa n r casted ((m, n) :: vb)) as [[out vb']|e]; reflexivity.
    - destruct (fa n m) as [x|e]; [|reflexivity]. rewrite IH'.
      destruct (emit_closures o fa n r casted vb) as [[out vb']|e]; reflexivity.
  Qed.

  (* the last loop of a component: if the atom / bond token functions of the two sides agree on the tokens that are
     written, the output list is the renamed list (same strings), the written order is mapped by s *)
  Theorem emit_ren smi tokens casted :
    (forall n, In (TAtom n) smi -> fat' (s n) = fat n) ->
    (forall n m, In (TBond n m) smi -> fa' (s n) (s m) = fa n m) ->
    (forall n m c, In (TAtom n) smi -> In (m, c) (zgetl tokens n) -> fa' (s n) (s m) = fa n m) ->
    forall vb,
    emit o fat' fa' (map (ren_tok s) smi) (ren_tokens s tokens) casted (ren_pairs s vb) = ren_emit (emit o fat fa smi tokens casted vb).
  Proof.
    induction smi as [|t r IH]; intros H1 H2 H3 vb; cbn [map emit]; [reflexivity|].
    assert (forall vb0, emit o fat' fa' (map (ren_tok s) r) (ren_tokens s tokens) casted (ren_pairs s vb0) =
                        ren_emit (emit o fat fa r tokens casted vb0)) as IH'.
    { apply IH; [intros n H; apply H1; right; exact H | intros n m H; apply H2; right; exact H
                | intros n m c H; apply (H3 n m c); right; exact H]. }
    destruct t; cbn [ren_tok].
    - rewrite (H1 n (or_introl eq_refl)). destruct (fat n) as [x|e]; [|reflexivity].
      rewrite zgetl_ren_tokens, emit_closures_ren by (intros m c Hm; apply (H3 n m c); [left; reflexivity | exact Hm]).
      destruct (emit_closures o fa n (zgetl tokens n) casted vb) as [[cls vb1]|e]; cbn [ren_emit_cl]; [|reflexivity].
      rewrite IH'. destruct (emit o fat fa r tokens casted vb1) as [[[out ord] vb2]|e]; cbn [ren_emit]; [|reflexivity].
      cbn [map ren_otok]. rewrite (map_app (ren_otok s)). reflexivity.
    - rewrite IH'. destruct (emit o fat fa r tokens casted vb) as [[[out ord] vb2]|e]; reflexivity.
    - rewrite IH'. destruct (emit o fat fa r tokens casted vb) as [[[out ord] vb2]|e]; reflexivity.
    - rewrite (H2 n m (or_introl eq_refl)). destruct (fa n m) as [x|e]; [|reflexivity].
      rewrite IH'. destruct (emit o fat fa r tokens casted vb) as [[[out ord] vb2]|e]; reflexivity.
  Qed.
End EmitRen.

(* non-vacuity of emit_ren with the real atom / bond token functions: ethanol renumbered n -> 10 - n *)
Definition exw_smi : list tok := [TAtom 1; TBond 1 2; TAtom 2; TBond 2 3; TAtom 3].
Definition exw_vis : adjacency := [(1, [2]); (2, [1; 3]); (3, [2])].
Definition exw_fat (n : Z) := format_atom ex_g default_opts no_stabs n exw_vis.
Definition exw_fat' (n : Z) := format_atom (ren_mol ex_s ex_g) default_opts no_stabs n (ren_vis ex_s exw_vis).
Definition exw_fa := format_bond ex_g default_opts (ct_map ex_g no_stabs exw_vis).
Definition exw_fa' := format_bond (ren_mol ex_s ex_g) default_opts (ct_map (ren_mol ex_s ex_g) no_stabs (ren_vis ex_s exw_vis)).

Theorem emit_example :
  (forall n, In (TAtom n) exw_smi -> exw_fat' (ex_s n) = exw_fat n) /\
  (forall n m, In (TBond n m) exw_smi -> exw_fa' (ex_s n) (ex_s m) = exw_fa n m) /\
  (forall n m c, In (TAtom n) exw_smi -> In (m, c) (zgetl ([] : list (Z * list (Z * Z))) n) -> exw_fa' (ex_s n) (ex_s m) = exw_fa n m) /\
  emit default_opts exw_fat exw_fa exw_smi [] [] [] =
    Ok ([OAtom 1 "C"; OBond 1 2 ""; OAtom 2 "C"; OBond 2 3 ""; OAtom 3 "O"], [1; 2; 3], []) /\
  emit default_opts exw_fat' exw_fa' (map (ren_tok ex_s) exw_smi) (ren_tokens ex_s []) [] (ren_pairs ex_s []) =
    Ok ([OAtom 9 "C"; OBond 9 8 ""; OAtom 8 "C"; OBond 8 7 ""; OAtom 7 "O"], [9; 8; 7], []).
Proof.
  split; [intros n H; cbn in H; intuition (try discriminate); match goal with E : TAtom _ = TAtom _ |- _ => injection E as <- end; vm_compute; reflexivity|].
  split; [intros n m H; cbn in H; intuition (try discriminate); match goal with E : TBond _ _ = TBond _ _ |- _ => injection E as <- <- end; vm_compute; reflexivity|].
  split; [intros n m c _ H; cbn in H; destruct H|].
  split; vm_compute; reflexivity.
Qed.

(* ==================================================================================================== *)
(* 13. one component, all components, the text: conditional on the token functions; unconditional without stereo marks *)
(* two writer states that describe the same progress on the two sides (the atom set of the renumbered side in any order) *)
Definition wstate_rel (s : Z -> Z) (a b : wstate) : Prop :=
  Permutation (map s (ws_atoms a)) (ws_atoms b) /\ ws_seen b = ren_labels s (ws_seen a) /\ ws_cycle b = ws_cycle a /\
  ws_casted b = ws_casted a /\ ws_heap b = ws_heap a /\ ws_out b = map (ren_otok s) (ws_out a) /\
  ws_order b = map s (ws_order a) /\ ws_vb b = ren_pairs s (ws_vb a).
Definition wres_rel (s : Z -> Z) (a b : pyres wstate) : Prop :=
  match a, b with Ok x, Ok y => wstate_rel s x y | Err e, Err e' => e = e' | _, _ => False end.

Lemma filter_perm_map {A} (p : A -> bool) l l' : Permutation l l' -> Permutation (filter p l) (filter p l').
Proof. apply filter_perm. Qed.

Section ComponentRen.
  Variable g : mol.
  Variable s w w' tb tb' : Z -> Z.
  Variable o : opts.
  Variable tabs tabs' : stabs.
  Hypothesis Hwf : wf_mol g = true.
  Hypothesis s_inj : forall x y, s x = s y -> x = y.
  Hypothesis w_inj : inj_on (ids g) w.
  Hypothesis w_ren : forall n, In n (ids g) -> w' (s n) = w n.
  (* the token functions of the two sides agree (for every neighbour table) *)
  Hypothesis Hfat : forall visited n, format_atom (ren_mol s g) o tabs' (s n) (ren_vis s visited) = format_atom g o tabs n visited.
  Hypothesis Hfa : forall visited n m,
    format_bond (ren_mol s g) o (ct_map (ren_mol s g) tabs' (ren_vis s visited)) (s n) (s m) = format_bond g o (ct_map g tabs visited) n m.

  Lemma filter_not_visited visited l :
    filter (fun n => negb (zhas (ren_vis s visited) n)) (map s l) = map s (filter (fun n => negb (zhas visited n)) l).
  Proof.
    induction l as [|x l IH]; cbn; [reflexivity|]. unfold ren_vis at 1. rewrite (zhas_renG s s_inj (map s)).
    destruct (zhas visited x); cbn; fold (ren_vis s visited); rewrite IH; reflexivity.
  Qed.

  Theorem component_ren st st' : incl (ws_atoms st) (ids g) -> wstate_rel s st st' ->
    wres_rel s (component g w tb o tabs (ids g) st) (component (ren_mol s g) w' tb' o tabs' (map s (ids g)) st').
  Proof.
    intros Hi [Hp [Hse [Hcy [Hca [Hhe [Hout [Hord Hvb]]]]]]]. unfold component.
    rewrite (traverse_ren g s w w' tb tb' o Hwf s_inj w_inj w_ren st st' Hi Hp Hse Hcy).
    destruct (traverse g w tb o (ids g) st) as [t|e]; cbn [ren_tres wres_rel]; [|reflexivity].
    rewrite (flatten_ren s s_inj g t).
    destruct (flatten g t) as [smi|e]; cbn [ren_toks wres_rel]; [|reflexivity].
    unfold ren_traversal, ren_dfs. cbn [tr_dfs tr_seen tr_start ds_tokens ds_edges ds_visited ds_cycle].
    rewrite (ring_positions_ren s s_inj), Hca, Hhe, (number_atoms_ren s s_inj).
    destruct (number_atoms (ds_tokens (tr_dfs t)) _ _ (ws_casted st) (ws_heap st)) as [[casted heap]|e]; cbn [wres_rel]; [|reflexivity].
    rewrite (order_neighbours_ren s s_inj).
    destruct (order_neighbours smi casted (ds_edges (tr_dfs t)) (ds_tokens (tr_dfs t)) (ds_visited (tr_dfs t))) as [tokens visited] eqn:E.
    cbn [fst snd]. rewrite Hvb.
    rewrite (emit_ren s s_inj o (format_bond g o (ct_map g tabs visited))
                      (format_bond (ren_mol s g) o (ct_map (ren_mol s g) tabs' (ren_vis s visited)))
                      (fun n => format_atom g o tabs n visited) (fun n => format_atom (ren_mol s g) o tabs' n (ren_vis s visited)))
      by (intros; first [apply Hfat | apply Hfa]).
    destruct (emit o _ _ smi tokens casted (ws_vb st)) as [[[out ord] vb]|e]; cbn [ren_emit wres_rel]; [|reflexivity].
    assert (Permutation (map s (filter (fun n => negb (zhas visited n)) (ws_atoms st)))
                        (filter (fun n => negb (zhas (ren_vis s visited) n)) (ws_atoms st'))) as Hrest.
    { rewrite <- filter_not_visited. apply filter_perm. exact Hp. }
    unfold wstate_rel. cbn [ws_atoms ws_seen ws_cycle ws_casted ws_heap ws_out ws_order ws_vb].
    repeat split; try reflexivity.
    - exact Hrest.
    - rewrite Hout, !map_app. f_equal. f_equal.
      destruct (filter (fun n => negb (zhas visited n)) (ws_atoms st)) as [|r0 rr];
        destruct (filter (fun n => negb (zhas (ren_vis s visited) n)) (ws_atoms st')) as [|q0 qq]; try reflexivity.
      + apply Permutation_nil in Hrest. discriminate.
      + apply Permutation_sym, Permutation_nil in Hrest. discriminate.
    - rewrite Hord, map_app. reflexivity.
  Qed.
End ComponentRen.

Section TextRen.
  Variable g : mol.
  Variable s w w' tb tb' : Z -> Z.
  Variable o : opts.
  Variable tabs tabs' : stabs.
  Hypothesis Hwf : wf_mol g = true.
  Hypothesis s_inj : forall x y, s x = s y -> x = y.
  Hypothesis w_inj : inj_on (ids g) w.
  Hypothesis w_ren : forall n, In n (ids g) -> w' (s n) = w n.
  Hypothesis Hfat : forall visited n, format_atom (ren_mol s g) o tabs' (s n) (ren_vis s visited) = format_atom g o tabs n visited.
  Hypothesis Hfa : forall visited n m,
    format_bond (ren_mol s g) o (ct_map (ren_mol s g) tabs' (ren_vis s visited)) (s n) (s m) = format_bond g o (ct_map g tabs visited) n m.

  Lemma component_atoms_incl st st2 : component g w tb o tabs (ids g) st = Ok st2 -> incl (ws_atoms st2) (ws_atoms st).
  Proof.
    unfold component. destruct (traverse g w tb o (ids g) st) as [t|]; [|discriminate].
    destruct (flatten g t) as [smi|]; [|discriminate].
    destruct (number_atoms _ _ _ _ _) as [[casted heap]|]; [|discriminate].
    destruct (order_neighbours _ _ _ _ _) as [tokens visited].
    destruct (emit _ _ _ _ _ _ _) as [[[out ord] vb]|]; [|discriminate].
    intros [= <-]. cbn [ws_atoms]. intros x Hx. apply filter_In in Hx. apply Hx.
  Qed.

  Lemma components_ren fuel : forall st st', incl (ws_atoms st) (ids g) -> wstate_rel s st st' ->
    wres_rel s (components g w tb o tabs fuel (ids g) st) (components (ren_mol s g) w' tb' o tabs' fuel (map s (ids g)) st').
  Proof.
    induction fuel as [|fuel IH]; intros st st' Hi Hrel; cbn [components]; [reflexivity|].
    pose proof (component_ren g s w w' tb tb' o tabs tabs' Hwf s_inj w_inj w_ren Hfat Hfa st st' Hi Hrel) as Hc.
    destruct (component g w tb o tabs (ids g) st) as [a|e] eqn:Ea;
      destruct (component (ren_mol s g) w' tb' o tabs' (map s (ids g)) st') as [b|e'] eqn:Eb; cbn [wres_rel] in Hc; try contradiction.
    - pose proof Hc as [Hp _].
      destruct (ws_atoms a) as [|a0 ar] eqn:Eaa; destruct (ws_atoms b) as [|b0 br] eqn:Ebb.
      + exact Hc.
      + apply Permutation_nil in Hp. discriminate.
      + apply Permutation_sym, Permutation_nil in Hp. discriminate.
      + apply IH; [|exact Hc]. intros x Hx. apply Hi. apply (component_atoms_incl st a Ea). exact Hx.
    - exact Hc.
  Qed.

  Lemma atom_of_renG n : atom_of (ren_mol s g) (s n) = atom_of g n.
  Proof.
    unfold atom_of, ren_mol. cbn [m_atoms]. rewrite (zget_renG s s_inj (fun a : atom => a)). destruct (zget (m_atoms g) n); reflexivity.
  Qed.

  Lemma radical_positions_ren ord : forall i, radical_positions (ren_mol s g) (map s ord) i = radical_positions g ord i.
  Proof.
    induction ord as [|m r IH]; intros i; cbn [map radical_positions]; [reflexivity|].
    rewrite atom_of_renG, !IH. reflexivity.
  Qed.

  Lemma format_cxsmiles_ren ord : format_cxsmiles (ren_mol s g) (map s ord) = format_cxsmiles g ord.
  Proof.
    unfold format_cxsmiles. rewrite radical_positions_ren.
    replace (existsb (fun na => a_rad (snd na)) (m_atoms (ren_mol s g))) with (existsb (fun na => a_rad (snd na)) (m_atoms g)); [reflexivity|].
    unfold ren_mol. cbn [m_atoms]. induction (m_atoms g) as [|[k a] l IH]; cbn; [reflexivity|]. rewrite IH. reflexivity.
  Qed.

  (* Smiles._smiles + the CXSMILES suffix: the same text, the written order mapped by s *)
  Theorem smiles_text_ren : smiles_text (ren_mol s g) w' tb' o tabs' = map_order s (smiles_text g w tb o tabs).
  Proof.
    assert (wstate_rel s (init_state g) (init_state (ren_mol s g))) as Hrel.
    { unfold init_state, wstate_rel. cbn [ws_atoms ws_seen ws_cycle ws_casted ws_heap ws_out ws_order ws_vb].
      rewrite ids_ren_mol. repeat split; reflexivity || apply Permutation_refl. }
    pose proof (components_ren (S (n_atoms g)) (init_state g) (init_state (ren_mol s g)) (incl_refl _) Hrel) as Hc.
    unfold smiles_text, smiles_tokens. rewrite ids_ren_mol, n_atoms_ren.
    destruct (components g w tb o tabs (S (n_atoms g)) (ids g) (init_state g)) as [a|e];
      destruct (components (ren_mol s g) w' tb' o tabs' (S (n_atoms g)) (map s (ids g)) (init_state (ren_mol s g))) as [b|e'];
      cbn [wres_rel] in Hc; try contradiction.
    - destruct Hc as [_ [_ [_ [_ [_ [Hout [Hord _]]]]]]].
      destruct (ids g); [reflexivity|]. cbn [map]. rewrite Hout, Hord, spell_ren, format_cxsmiles_ren.
      destruct (o_cx o); [destruct (format_cxsmiles g (ws_order a))|]; reflexivity.
    - subst e'. destruct (ids g); reflexivity.
  Qed.
End TextRen.

(* ---- the token functions without stereo marks and without atom-map numbers do not look at atom numbers ---- *)
Section NoStereoFormat.
  Variable g : mol.
  Variable s : Z -> Z.
  Variable o : opts.
  Hypothesis s_inj : forall x y, s x = s y -> x = y.
  Hypothesis Hst : o_stereo o = false.
  Hypothesis Hmp : o_mapping o = false.

  Lemma nbrs_renG n : nbrs (ren_mol s g) (s n) = map (fun mb => (s (fst mb), snd mb)) (nbrs g n).
  Proof.
    unfold nbrs, ren_mol, ren_adj. cbn [m_adj].
    rewrite (zget_renG s s_inj (fun r : list (Z * bond) => map (fun mb => (s (fst mb), snd mb)) r)).
    destruct (zget (m_adj g) n); reflexivity.
  Qed.

  Lemma hybridization_renG n : hybridization (ren_mol s g) (s n) = hybridization g n.
  Proof.
    unfold hybridization. rewrite nbrs_renG. generalize 1. induction (nbrs g n) as [|mb l IH]; intros h; cbn; [reflexivity|]. apply IH.
  Qed.

  Lemma no_plain_renG n : no_plain_neighbours (ren_mol s g) (s n) = no_plain_neighbours g n.
  Proof.
    unfold no_plain_neighbours. rewrite nbrs_renG. induction (nbrs g n) as [|mb l IH]; cbn; [reflexivity|]. rewrite IH. reflexivity.
  Qed.

  Lemma bond_of_renG n m : bond_of (ren_mol s g) (s n) (s m) = bond_of g n m.
  Proof.
    unfold bond_of. rewrite nbrs_renG. rewrite (zget_renG s s_inj (fun b : bond => b)). destruct (zget (nbrs g n) m); reflexivity.
  Qed.

  Lemma stereo_mark_off (g0 : mol) tabs0 n adj a : stereo_mark g0 o tabs0 n adj a = Ok EmptyString.
  Proof. unfold stereo_mark. rewrite Hst. destruct (a_stereo a); reflexivity. Qed.

  Lemma format_atom_nostereo tabs tabs' visited visited' n :
    format_atom (ren_mol s g) o tabs' (s n) visited' = format_atom g o tabs n visited.
  Proof.
    unfold format_atom, atom_fields. rewrite (atom_of_renG g s s_inj). destruct (atom_of g n) as [a|]; [|reflexivity].
    destruct (symbol_of_num (a_num a)) as [sym|]; [|reflexivity].
    rewrite !stereo_mark_off, Hmp, hybridization_renG, no_plain_renG. reflexivity.
  Qed.

  Lemma format_bond_nostereo ctm ctm' n m : format_bond (ren_mol s g) o ctm' (s n) (s m) = format_bond g o ctm n m.
  Proof.
    unfold format_bond. rewrite bond_of_renG, !hybridization_renG, Hst. reflexivity.
  Qed.
End NoStereoFormat.

(* smiles_invariant_discrete for the stereo-free canonical string (format(mol, '!s') and every other option set without
   stereo marks and atom-map numbers) under renumberings that keep the insertion orders (remap()), for any tie-break
   priorities on the two sides and any stereo registries: the same text, the written order mapped by s *)
Theorem smiles_invariant_discrete_nostereo (g : mol) (s w w' tb tb' : Z -> Z) (o : opts) (tabs tabs' : stabs) :
  wf_mol g = true -> (forall x y, s x = s y -> x = y) -> inj_on (ids g) w -> (forall n, In n (ids g) -> w' (s n) = w n) ->
  o_stereo o = false -> o_mapping o = false ->
  smiles_text (ren_mol s g) w' tb' o tabs' = map_order s (smiles_text g w tb o tabs).
Proof.
  intros Hwf Hs Hw Hr Hst Hmp. apply smiles_text_ren; try assumption.
  - intros visited n. apply format_atom_nostereo; assumption.
  - intros visited n m. apply format_bond_nostereo; assumption.
Qed.

(* with the weights of the Morgan model: discrete classes of atoms_order make format(mol, '!s') invariant under remap() *)
Theorem canonical_nostereo_string_invariant (h : list Z -> Z) (ring ring' : Z -> bool) (g : mol) (s tb tb' : Z -> Z) (o : opts)
  (tabs tabs' : stabs) (l : labels) :
  wf_mol g = true -> (forall x y, s x = s y -> x = y) -> (forall n, In n (ids g) -> ring' (s n) = ring n) ->
  atoms_order h ring g = Ok l -> NoDup (map snd l) -> o_stereo o = false -> o_mapping o = false ->
  exists l', atoms_order h ring' (ren_mol s g) = Ok l' /\
             smiles_text (ren_mol s g) (lbl l') tb' o tabs' = map_order s (smiles_text g (lbl l) tb o tabs).
Proof.
  intros Hwf Hs Hr Hl Hd Hst Hmp. exists (ren_labels s l).
  assert (inj_on (ids g) s) as Hs' by (intros x y _ _; apply Hs).
  split.
  - pose proof (atoms_order_equivariant h ring ring' g s Hwf Hs' Hr) as He. rewrite Hl in He. exact He.
  - apply smiles_invariant_discrete_nostereo; try assumption.
    + apply (w_inj_ids h ring g l Hwf Hl Hd).
    + apply (w_ren_ids h ring g s l Hwf Hs' Hl).
Qed.

(* non-vacuity: ethanol, renumbered n -> 10 - n, weights = ranks of the Morgan model with the CPython hash, option set '!s' *)
Definition exw_o : opts := opts_of_spec "!s".
Theorem nostereo_example :
  o_stereo exw_o = false /\ o_mapping exw_o = false /\
  smiles_text ex_g (lbl exw_l) (fun n => n) exw_o no_stabs = Ok ("CCO"%string, [1; 2; 3]) /\
  smiles_text (ren_mol ex_s ex_g) (lbl (ren_labels ex_s exw_l)) (fun n => - n) exw_o no_stabs = Ok ("CCO"%string, [9; 8; 7]).
Proof. repeat split; vm_compute; reflexivity. Qed.

(* ---- molecules that carry no stereo label: the default option set (str(mol)) as well ---- *)
Definition no_stereo_labels (g : mol) : Prop :=
  (forall n a, atom_of g n = Some a -> a_stereo a = None) /\ stereo_bond_atoms g = [].

Section NoLabelFormat.
  Variable g : mol.
  Variable s : Z -> Z.
  Variable o : opts.
  Hypothesis s_inj : forall x y, s x = s y -> x = y.
  Hypothesis Hnl : no_stereo_labels g.
  Hypothesis Hmp : o_mapping o = false.

  Lemma stereo_bond_atoms_ren : stereo_bond_atoms (ren_mol s g) = map s (stereo_bond_atoms g).
  Proof.
    unfold stereo_bond_atoms, ren_mol, ren_adj. cbn [m_adj]. induction (m_adj g) as [|[n row] adj IH]; cbn [map filter fst snd]; [reflexivity|].
    assert (forall r : list (Z * bond), existsb (fun mb : Z * bond => match b_stereo (snd mb) with Some _ => true | None => false end)
                                            (map (fun mb : Z * bond => (s (fst mb), snd mb)) r) =
                                   existsb (fun mb : Z * bond => match b_stereo (snd mb) with Some _ => true | None => false end) r) as Hex
      by (intros r; induction r as [|mb r IHr]; cbn; [reflexivity | rewrite IHr; reflexivity]).
    rewrite Hex.
    destruct (existsb (fun mb : Z * bond => match b_stereo (snd mb) with Some _ => true | None => false end) row);
      cbn [map fst]; rewrite IH; reflexivity.
  Qed.

  Lemma ct_map_nolabels tabs v : ct_map g tabs v = Ok [].
  Proof. unfold ct_map. destruct Hnl as [_ ->]. reflexivity. Qed.
  Lemma ct_map_nolabels_ren tabs v : ct_map (ren_mol s g) tabs v = Ok [].
  Proof. unfold ct_map. rewrite stereo_bond_atoms_ren. destruct Hnl as [_ ->]. reflexivity. Qed.

  Lemma format_atom_nolabels tabs tabs' visited visited' n :
    format_atom (ren_mol s g) o tabs' (s n) visited' = format_atom g o tabs n visited.
  Proof.
    unfold format_atom, atom_fields. rewrite (atom_of_renG g s s_inj). destruct (atom_of g n) as [a|] eqn:Ea; [|reflexivity].
    destruct (symbol_of_num (a_num a)) as [sym|]; [|reflexivity].
    assert (forall g0 tabs0 n0 adj, stereo_mark g0 o tabs0 n0 adj a = Ok EmptyString) as Hsm
      by (intros; unfold stereo_mark; destruct Hnl as [H _]; rewrite (H n a Ea); reflexivity).
    rewrite !Hsm, Hmp, (hybridization_renG g s s_inj), (no_plain_renG g s s_inj). reflexivity.
  Qed.

  Lemma format_bond_nolabels tabs tabs' v v' n m :
    format_bond (ren_mol s g) o (ct_map (ren_mol s g) tabs' v') (s n) (s m) = format_bond g o (ct_map g tabs v) n m.
  Proof.
    unfold format_bond. rewrite (bond_of_renG g s s_inj), !(hybridization_renG g s s_inj), ct_map_nolabels, ct_map_nolabels_ren. reflexivity.
  Qed.
End NoLabelFormat.

(* smiles_invariant_discrete for molecules without stereo labels, every option set without atom-map numbers (str(mol) too) *)
Theorem smiles_invariant_discrete_unlabelled (g : mol) (s w w' tb tb' : Z -> Z) (o : opts) (tabs tabs' : stabs) :
  wf_mol g = true -> (forall x y, s x = s y -> x = y) -> inj_on (ids g) w -> (forall n, In n (ids g) -> w' (s n) = w n) ->
  no_stereo_labels g -> o_mapping o = false ->
  smiles_text (ren_mol s g) w' tb' o tabs' = map_order s (smiles_text g w tb o tabs).
Proof.
  intros Hwf Hs Hw Hr Hnl Hmp. apply smiles_text_ren; try assumption.
  - intros visited n. apply format_atom_nolabels; assumption.
  - intros visited n m. apply format_bond_nolabels; assumption.
Qed.

Theorem unlabelled_example :
  no_stereo_labels ex_g /\ o_mapping default_opts = false /\
  smiles_text ex_g (lbl exw_l) (fun n => n) default_opts no_stabs = Ok ("CCO"%string, [1; 2; 3]) /\
  smiles_text (ren_mol ex_s ex_g) (lbl (ren_labels ex_s exw_l)) (fun n => - n) default_opts no_stabs = Ok ("CCO"%string, [9; 8; 7]).
Proof.
  split; [split; [|vm_compute; reflexivity]|repeat split; vm_compute; reflexivity].
  intros n a H. unfold atom_of, ex_g in H. cbn [m_atoms zget] in H.
  destruct (n =? 1); [injection H as <-; reflexivity|]. destruct (n =? 2); [injection H as <-; reflexivity|].
  destruct (n =? 3); [injection H as <-; reflexivity | discriminate].
Qed.
