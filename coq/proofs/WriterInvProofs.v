(* C01, first steps towards `smiles_invariant_discrete` (DESIGN appendix A) on the writer model Model.Writer (owned by C02,
   used read-only): with injective weights every `min` / `sorted` of the traversal is decided by the weights alone.

     - sort_by (the model of Python's stable `sorted(l, key=...)`) returns a permutation; it only looks at the comparison
       of the keys of the list members; it commutes with a key-preserving map; and when the key is injective on the
       members, the result does not depend on the order of the input (set iteration order is irrelevant);
     - start atom (`min(atoms_set, key=mod_weights_start)`) and children order (`sorted(front, key=mod_weights)`):
       with weights injective on the atoms, the result does not depend on the tie-break priority `tb` (the stand-in for
       CPython's set iteration order), nor on the order in which the candidates are listed, and it is mapped by an
       injective renumbering of the atoms.

   What is NOT proved (the goal is stated as [smiles_invariant_discrete_goal] below, not as a theorem): that the whole
   written string and atom order are invariant - the BFS distances, the DFS bookkeeping, the closure numbering, the atom
   / bond tokens and the stereo marks would have to be carried through the renumbering as well. *)
From Coq Require Import ZArith List String Bool Lia Permutation Sorting.Sorted.
From Model Require Import PyBase Graph Morgan Writer.
Import ListNotations.
Open Scope Z_scope.

(* ==================================================================================================== *)
(* 1. the lexicographic comparison of key tuples                                                          *)
Lemma zlist_ltb_irrefl a : zlist_ltb a a = false.
Proof. induction a as [|x a IH]; cbn; [reflexivity|]. rewrite Z.ltb_irrefl, Z.eqb_refl, IH. reflexivity. Qed.

Lemma zlist_ltb_asym a : forall b, zlist_ltb a b = true -> zlist_ltb b a = false.
Proof.
  induction a as [|x a IH]; intros [|y b]; cbn; try congruence.
  intros H. apply orb_true_iff in H. destruct H as [H|H].
  - apply Z.ltb_lt in H. replace (y <? x) with false by (symmetry; apply Z.ltb_ge; lia).
    replace (y =? x) with false by (symmetry; apply Z.eqb_neq; lia). reflexivity.
  - apply andb_true_iff in H. destruct H as [He H]. apply Z.eqb_eq in He. subst y.
    rewrite Z.ltb_irrefl, Z.eqb_refl. cbn. apply IH. exact H.
Qed.

(* not (b < a) and not (a < b): the tuples are equal *)
Lemma zlist_ltb_tricho a : forall b, zlist_ltb a b = false -> zlist_ltb b a = false -> a = b.
Proof.
  induction a as [|x a IH]; intros [|y b]; cbn; try congruence.
  intros H1 H2. apply orb_false_iff in H1. destruct H1 as [H1 H1']. apply orb_false_iff in H2. destruct H2 as [H2 H2'].
  apply Z.ltb_ge in H1. apply Z.ltb_ge in H2. assert (x = y) by lia. subst y.
  rewrite Z.eqb_refl in H1', H2'. cbn in H1', H2'. f_equal. apply IH; assumption.
Qed.

(* a <= b := not (b < a) is transitive *)
Lemma zlist_leb_trans a : forall b c, zlist_ltb b a = false -> zlist_ltb c b = false -> zlist_ltb c a = false.
Proof.
  induction a as [|x a IH]; intros b c Hab Hbc.
  - destruct c; reflexivity.
  - destruct b as [|y b]; [cbn in Hab; discriminate|].
    destruct c as [|z c]; [cbn in Hbc; cbn; destruct b; cbn in Hbc; discriminate|].
    cbn in *. apply orb_false_iff in Hab. destruct Hab as [H1 H1']. apply orb_false_iff in Hbc. destruct Hbc as [H2 H2'].
    apply Z.ltb_ge in H1. apply Z.ltb_ge in H2.
    apply orb_false_iff. split; [apply Z.ltb_ge; lia|].
    destruct (z =? x) eqn:E; [|reflexivity]. apply Z.eqb_eq in E. subst z. assert (y = x) by lia. subst y.
    rewrite Z.eqb_refl in H1', H2'. cbn in *. eapply IH; eassumption.
Qed.

(* ==================================================================================================== *)
(* 2. sort_by / min_by                                                                                    *)
Section SortBy.
  Context {A : Type}.
  Variable key : A -> list Z.
  Let R (x y : A) : Prop := zlist_ltb (key y) (key x) = false.       (* x may stand before y *)

  Lemma insert_first_perm x l : Permutation (insert_first key x l) (x :: l).
  Proof.
    induction l as [|y r IH]; cbn; [apply Permutation_refl|].
    destruct (zlist_ltb (key y) (key x)); [|apply Permutation_refl].
    eapply Permutation_trans; [apply perm_skip; exact IH | apply perm_swap].
  Qed.

  Lemma sort_by_perm l : Permutation (sort_by key l) l.
  Proof.
    induction l as [|x l IH]; cbn; [constructor|].
    eapply Permutation_trans; [apply insert_first_perm | apply perm_skip; exact IH].
  Qed.

  Lemma insert_first_sorted x l : StronglySorted R l -> StronglySorted R (insert_first key x l).
  Proof.
    induction l as [|y r IH]; intros Hs; cbn.
    - constructor; constructor.
    - inversion Hs as [|? ? Hr Hy]; subst.
      destruct (zlist_ltb (key y) (key x)) eqn:E.
      + constructor; [apply IH; exact Hr|].
        rewrite Forall_forall in *. intros z Hz.
        apply (Permutation_in _ (insert_first_perm x r)) in Hz. destruct Hz as [<-|Hz].
        * unfold R. apply zlist_ltb_asym. exact E.
        * apply Hy; exact Hz.
      + constructor; [exact Hs|]. constructor; [exact E|].
        rewrite Forall_forall in *. intros z Hz. unfold R. eapply zlist_leb_trans; [exact E | apply Hy; exact Hz].
  Qed.

  Lemma sort_by_sorted l : StronglySorted R (sort_by key l).
  Proof. induction l as [|x l IH]; cbn; [constructor | apply insert_first_sorted; exact IH]. Qed.

  (* two sorted lists with the same members are equal when the key separates the members *)
  Lemma sorted_perm_eq_on l : forall l', (forall x y, In x l -> In y l -> key x = key y -> x = y) ->
    StronglySorted R l -> StronglySorted R l' -> Permutation l l' -> l = l'.
  Proof.
    induction l as [|x l IH]; intros l' Hinj Hs Hs' Hp.
    - apply Permutation_nil in Hp. subst. reflexivity.
    - destruct l' as [|x' l']; [apply Permutation_sym, Permutation_nil in Hp; discriminate|].
      inversion Hs as [|? ? Hl Hx]; subst. inversion Hs' as [|? ? Hl' Hx']; subst.
      rewrite Forall_forall in Hx, Hx'.
      assert (In x (x' :: l')) as H1 by (eapply Permutation_in; [exact Hp | left; reflexivity]).
      assert (In x' (x :: l)) as H2 by (eapply Permutation_in; [apply Permutation_sym; exact Hp | left; reflexivity]).
      assert (x = x') as ->.
      { destruct H1 as [H1|H1]; [symmetry; exact H1|]. destruct H2 as [H2|H2]; [exact H2|].
        apply Hinj; [left; reflexivity | right; exact H2|].
        apply zlist_ltb_tricho; [apply Hx'; exact H1 | apply Hx; exact H2]. }
      f_equal. apply IH; [|exact Hl | exact Hl' | eapply Permutation_cons_inv; exact Hp].
      intros a b Ha Hb. apply Hinj; right; assumption.
  Qed.

  (* sorted() of a set: the iteration order of the set is irrelevant when the key separates its members *)
  Lemma sort_by_canonical l l' : (forall x y, In x l -> In y l -> key x = key y -> x = y) ->
    Permutation l l' -> sort_by key l = sort_by key l'.
  Proof.
    intros Hinj Hp. apply sorted_perm_eq_on; [|apply sort_by_sorted | apply sort_by_sorted|].
    - intros x y Hx Hy. apply Hinj; eapply Permutation_in; try apply sort_by_perm; assumption.
    - eapply Permutation_trans; [apply sort_by_perm|]. eapply Permutation_trans; [exact Hp|].
      apply Permutation_sym, sort_by_perm.
  Qed.

  (* the result is determined by the comparisons between the members *)
  Variable key' : A -> list Z.
  Lemma insert_first_ext x l : (forall y, In y l -> zlist_ltb (key y) (key x) = zlist_ltb (key' y) (key' x)) ->
    insert_first key x l = insert_first key' x l.
  Proof.
    induction l as [|y r IH]; intros H; cbn; [reflexivity|].
    rewrite <- (H y (or_introl eq_refl)). destruct (zlist_ltb (key y) (key x)); [|reflexivity].
    f_equal. apply IH. intros z Hz. apply H. right. exact Hz.
  Qed.

  Lemma sort_by_ext l : (forall x y, In x l -> In y l -> zlist_ltb (key y) (key x) = zlist_ltb (key' y) (key' x)) ->
    sort_by key l = sort_by key' l.
  Proof.
    induction l as [|x l IH]; intros H; [reflexivity|].
    change (sort_by key (x :: l)) with (insert_first key x (sort_by key l)).
    change (sort_by key' (x :: l)) with (insert_first key' x (sort_by key' l)).
    rewrite <- IH by (intros a b Ha Hb; apply H; right; assumption).
    apply insert_first_ext. intros y Hy. apply H; [left; reflexivity | right].
    eapply Permutation_in; [apply sort_by_perm | exact Hy].
  Qed.
End SortBy.

(* sorted() commutes with a renaming that preserves the keys *)
Lemma insert_first_map {A B} (key : A -> list Z) (key' : B -> list Z) (f : A -> B) x l :
  key' (f x) = key x -> (forall y, In y l -> key' (f y) = key y) ->
  insert_first key' (f x) (map f l) = map f (insert_first key x l).
Proof.
  intros Hx. induction l as [|y r IH]; intros H; cbn; [reflexivity|].
  rewrite Hx, (H y (or_introl eq_refl)). destruct (zlist_ltb (key y) (key x)); cbn; [|reflexivity].
  f_equal. apply IH. intros z Hz. apply H. right. exact Hz.
Qed.

Lemma sort_by_map {A B} (key : A -> list Z) (key' : B -> list Z) (f : A -> B) l :
  (forall y, In y l -> key' (f y) = key y) -> sort_by key' (map f l) = map f (sort_by key l).
Proof.
  induction l as [|x l IH]; intros H; [reflexivity|].
  change (sort_by key' (map f (x :: l))) with (insert_first key' (f x) (sort_by key' (map f l))).
  change (sort_by key (x :: l)) with (insert_first key x (sort_by key l)).
  rewrite IH by (intros y Hy; apply H; right; exact Hy).
  apply insert_first_map; [apply H; left; reflexivity|].
  intros y Hy. apply H. right. eapply Permutation_in; [apply sort_by_perm | exact Hy].
Qed.

Lemma min_by_head {A} (key : A -> list Z) l : min_by key l = hd_error (sort_by key l).
Proof. unfold min_by. destruct (sort_by key l); reflexivity. Qed.

(* ==================================================================================================== *)
(* 3. the keys of the writer: decided by the weights when these are injective                             *)
Section WriterKeys.
  Variable w : Z -> Z.
  Variable o : opts.
  Variable all : list Z.
  Hypothesis w_inj : inj_on all w.

  Lemma key_start_tb x y tb tb' : In x all -> In y all ->
    zlist_ltb (key_start w tb o all y) (key_start w tb o all x) = zlist_ltb (key_start w tb' o all y) (key_start w tb' o all x).
  Proof.
    intros Hx Hy. destruct (Z.eq_dec x y) as [->|Hne]; [rewrite !zlist_ltb_irrefl; reflexivity|].
    assert ((w y =? w x) = false) as E by (apply Z.eqb_neq; intros He; apply Hne; symmetry; apply w_inj; assumption).
    unfold key_start. destruct (o_random o); cbn; rewrite E; cbn; rewrite ?andb_false_r; reflexivity.
  Qed.

  Lemma key_child_tb seen x y tb tb' : In x all -> In y all ->
    zlist_ltb (key_child w tb o all seen y) (key_child w tb o all seen x) =
    zlist_ltb (key_child w tb' o all seen y) (key_child w tb' o all seen x).
  Proof.
    intros Hx Hy. destruct (Z.eq_dec x y) as [->|Hne]; [rewrite !zlist_ltb_irrefl; reflexivity|].
    assert ((w y =? w x) = false) as E by (apply Z.eqb_neq; intros He; apply Hne; symmetry; apply w_inj; assumption).
    unfold key_child. destruct (o_random o); cbn; rewrite E; cbn; rewrite ?andb_false_r; reflexivity.
  Qed.

  Lemma key_start_inj tb x y : In x all -> In y all -> key_start w tb o all x = key_start w tb o all y -> x = y.
  Proof.
    intros Hx Hy. unfold key_start. destruct (o_random o); intros H; injection H; intros; apply w_inj; assumption.
  Qed.

  Lemma key_child_inj tb seen x y : In x all -> In y all -> key_child w tb o all seen x = key_child w tb o all seen y -> x = y.
  Proof.
    intros Hx Hy. unfold key_child. destruct (o_random o); intros H; injection H; intros; apply w_inj; assumption.
  Qed.

  (* min(atoms_set, key=mod_weights_start): neither the tie-break priority nor the iteration order of the set matters *)
  Theorem start_atom_weights_only tb tb' l l' : incl l all -> Permutation l l' ->
    min_by (key_start w tb o all) l = min_by (key_start w tb' o all) l'.
  Proof.
    intros Hi Hp. rewrite !min_by_head. f_equal.
    rewrite (sort_by_ext _ (key_start w tb' o all) l) by (intros x y Hx Hy; apply key_start_tb; apply Hi; assumption).
    apply sort_by_canonical; [|exact Hp].
    intros x y Hx Hy. apply key_start_inj; apply Hi; assumption.
  Qed.

  (* sorted(bonds[n].keys() - {parent}, key=mod_weights) *)
  Theorem children_order_weights_only tb tb' seen l l' : incl l all -> Permutation l l' ->
    sort_by (key_child w tb o all seen) l = sort_by (key_child w tb' o all seen) l'.
  Proof.
    intros Hi Hp.
    rewrite (sort_by_ext _ (key_child w tb' o all seen) l) by (intros x y Hx Hy; apply key_child_tb; apply Hi; assumption).
    apply sort_by_canonical; [|exact Hp].
    intros x y Hx Hy. apply key_child_inj; apply Hi; assumption.
  Qed.
End WriterKeys.

(* ==================================================================================================== *)
(* 4. renumbering                                                                                         *)
Section Renumbering.
  Variable w w' : Z -> Z.
  Variable o : opts.
  Variable all : list Z.
  Variable s : Z -> Z.
  Hypothesis w_inj : inj_on all w.
  Hypothesis w_ren : forall n, In n all -> w' (s n) = w n.

  Lemma group_of_ren x : In x all -> group_of w' (map s all) (s x) = group_of w all x.
  Proof.
    intros Hx. unfold group_of. f_equal. f_equal. rewrite w_ren by exact Hx.
    assert (forall l, incl l all ->
            List.length (filter (fun n => w' n =? w x) (map s l)) = List.length (filter (fun n => w n =? w x) l)) as H.
    { induction l as [|a l IH]; intros Hi; cbn; [reflexivity|].
      rewrite w_ren by (apply Hi; left; reflexivity).
      destruct (w a =? w x); cbn; rewrite IH by (intros z Hz; apply Hi; right; exact Hz); reflexivity. }
    apply H. apply incl_refl.
  Qed.

  Lemma w'_inj : inj_on (map s all) w'.
  Proof.
    intros a b Ha Hb He. apply in_map_iff in Ha. destruct Ha as [x [<- Hx]]. apply in_map_iff in Hb. destruct Hb as [y [<- Hy]].
    rewrite !w_ren in He by assumption. f_equal. apply w_inj; assumption.
  Qed.

  (* the start atom of the renumbered molecule is the image of the start atom, whatever the tie-break priorities and the
     iteration order of the renumbered atom set are *)
  Theorem start_atom_equivariant tb tb' l l' : incl l all -> Permutation (map s l) l' ->
    min_by (key_start w' tb' o (map s all)) l' = option_map s (min_by (key_start w tb o all) l).
  Proof.
    intros Hi Hp.
    rewrite <- (start_atom_weights_only w' o (map s all) w'_inj (fun y => tb (0 * y)) tb' (map s l) l');
      [|intros z Hz; apply in_map_iff in Hz; destruct Hz as [a [<- Ha]]; apply in_map; apply Hi; exact Ha | exact Hp].
    rewrite (start_atom_weights_only w o all w_inj tb (fun _ => tb 0) l l Hi (Permutation_refl _)).
    rewrite !min_by_head.
    rewrite (sort_by_map (key_start w (fun _ => tb 0) o all) (key_start w' (fun y => tb (0 * y)) o (map s all)) s l).
    - destruct (sort_by (key_start w (fun _ => tb 0) o all) l); reflexivity.
    - intros y Hy. unfold key_start. rewrite group_of_ren, w_ren by (apply Hi; exact Hy). reflexivity.
  Qed.

  (* the children of a DFS node of the renumbered molecule are visited in the image of the original order; `seen'` holds
     the BFS labels of the renumbered molecule *)
  Theorem children_order_equivariant tb tb' seen seen' l l' : incl l all -> Permutation (map s l) l' ->
    (forall n, In n all -> zget seen' (s n) = zget seen n) ->
    sort_by (key_child w' tb' o (map s all) seen') l' = map s (sort_by (key_child w tb o all seen) l).
  Proof.
    intros Hi Hp Hseen.
    rewrite <- (children_order_weights_only w' o (map s all) w'_inj (fun y => tb (0 * y)) tb' seen' (map s l) l');
      [|intros z Hz; apply in_map_iff in Hz; destruct Hz as [a [<- Ha]]; apply in_map; apply Hi; exact Ha | exact Hp].
    rewrite (children_order_weights_only w o all w_inj tb (fun _ => tb 0) seen l l Hi (Permutation_refl _)).
    apply sort_by_map.
    intros y Hy. unfold key_child. rewrite group_of_ren, w_ren, Hseen by (apply Hi; exact Hy). reflexivity.
  Qed.
End Renumbering.

(* ==================================================================================================== *)
(* 5. the goal these lemmas work towards (a Prop, NOT a theorem of this development): with injective weights the written
      string is the same and the written atom order is mapped by the renumbering.  `tabs'` are the stereo registries of
      the renumbered molecule. *)
Definition map_order (s : Z -> Z) (r : pyres (string * list Z)) : pyres (string * list Z) :=
  match r with Ok (txt, order) => Ok (txt, map s order) | Err e => Err e end.

Definition smiles_invariant_discrete_goal : Prop :=
  forall (g : mol) (s : Z -> Z) (w w' tb tb' : Z -> Z) (o : opts) (tabs tabs' : stabs),
    wf_mol g = true -> inj_on (ids g) s -> inj_on (ids g) w -> (forall n, In n (ids g) -> w' (s n) = w n) ->
    o_mapping o = false ->
    (* tabs' = the registries of tabs renumbered by s *) True ->
    smiles_text (ren_mol s g) w' tb' o tabs' = map_order s (smiles_text g w tb o tabs).

(* ==================================================================================================== *)
(* 6. a concrete instance of the hypotheses (non-vacuity) *)
Definition exw_all : list Z := [1; 2; 3; 4].
Definition exw_w (n : Z) : Z := 50 - 7 * n.
Definition exw_s (n : Z) : Z := 2 * n + 10.
Definition exw_w' (m : Z) : Z := 50 - 7 * ((m - 10) / 2).

Theorem writer_keys_example :
  inj_on exw_all exw_w /\ inj_on exw_all exw_s /\ (forall n, In n exw_all -> exw_w' (exw_s n) = exw_w n) /\
  min_by (key_start exw_w (fun n => n) default_opts exw_all) [1; 2; 3; 4] = Some 4 /\
  min_by (key_start exw_w' (fun n => - n) default_opts (map exw_s exw_all)) [14; 18; 12; 16] = Some 18 /\
  sort_by (key_child exw_w (fun n => n) default_opts exw_all []) [1; 2; 3] = [3; 2; 1] /\
  sort_by (key_child exw_w' (fun n => n) default_opts (map exw_s exw_all) []) [12; 16; 14] = [16; 14; 12].
Proof.
  assert (forall n, In n exw_all -> n = 1 \/ n = 2 \/ n = 3 \/ n = 4) as Hall
    by (intros n H; cbn in H; intuition).
  split; [intros x y Hx Hy; unfold exw_w; lia|].
  split; [intros x y Hx Hy; unfold exw_s; lia|].
  split; [intros n Hn; apply Hall in Hn; destruct Hn as [->|[->|[->| ->]]]; vm_compute; reflexivity|].
  repeat split; vm_compute; reflexivity.
Qed.
