(* C09 extension -- proofs: the two PUBLIC calls agree (wrapper around any component matcher is extensional in it), and the
   stack occupancy of the explicit-stack loop is bounded by atoms + (query atoms - 1) * max degree. *)
From Coq Require Import ZArith List Bool Lia.
From Model Require Import PyBase PeriodicTable IsoBits IsoBitsExt.
From Model Require Iso.
From Proofs Require Import IsoBitsProofs IsoBitsSearchProofs.
Import ListNotations.
Open Scope Z_scope.

(* ------------------------------------------------------------------------------------------------------------ *)
(* 1. the wrapper only calls the component matcher on the given components                                        *)

Lemma w_build_mappers_ext (C : Type) (gm1 gm2 : C -> list Z -> list Iso.mapping) scope comps :
  (forall c, In c comps -> forall s, gm1 c s = gm2 c s) ->
  forall cands, w_build_mappers C gm1 scope comps cands = w_build_mappers C gm2 scope comps cands.
Proof.
  induction comps as [|c cr IH]; intros H cands; cbn [w_build_mappers]; [reflexivity|].
  destruct cands as [|cand dr]; [reflexivity|]. destruct (Iso.restrict scope cand) as [s|]; [|reflexivity].
  rewrite IH by (intros c' Hc'; apply H; right; exact Hc'). rewrite (H c (or_introl eq_refl)). reflexivity.
Qed.

Lemma flat_map_ext_in {A B} (f g : A -> list B) l : (forall x, In x l -> f x = g x) -> flat_map f l = flat_map g l.
Proof.
  induction l as [|x l IH]; intros H; cbn [flat_map]; [reflexivity|].
  rewrite (H x (or_introl eq_refl)), IH; [reflexivity|]. intros y Hy. apply H. right. exact Hy.
Qed.

Lemma w_stream_ext (C : Type) (gm1 gm2 : C -> list Z -> list Iso.mapping) comps tcomps scope :
  (forall c, In c comps -> forall s, gm1 c s = gm2 c s) ->
  w_stream C gm1 comps tcomps scope = w_stream C gm2 comps tcomps scope.
Proof.
  intros H. unfold w_stream.
  assert (M : forall cands, w_build_mappers C gm1 scope comps cands = w_build_mappers C gm2 scope comps cands)
    by (apply w_build_mappers_ext; exact H).
  destruct comps as [|c [|c2 cr]].
  - apply flat_map_ext_in. intros cands _. rewrite M. reflexivity.
  - apply flat_map_ext_in. intros cand _. destruct (Iso.restrict scope cand); [|reflexivity]. apply H. left. reflexivity.
  - apply flat_map_ext_in. intros cands _. rewrite M. reflexivity.
Qed.

(* THE TWO PUBLIC CALLS  query.get_mapping(other, automorphism_filter, searching_scope)  with _cython=True and False yield the
   same sequence of dictionaries: for any number of query components, any connected components of the target in any
   order, any searching scope (or none), automorphism filter on or off, any stereo post-filter. *)
Theorem public_get_mapping_equiv stereo_ok comps rm tcomps flt scope fuel :
  Forall (fun rq => rq <> [] /\ wf_query rq /\ in_range_pair rq rm) comps ->
  (has_unknown_h rm = false -> wf_mol rm) ->
  public_get_mapping stereo_ok true comps rm tcomps flt scope fuel =
  public_get_mapping stereo_ok false comps rm tcomps flt scope fuel.
Proof.
  intros Hc Hm. unfold public_get_mapping, w_get_mapping. f_equal. f_equal.
  apply w_stream_ext. intros rq Hrq s. unfold component_list.
  rewrite Forall_forall in Hc. destruct (Hc rq Hrq) as [H1 [H2 H3]].
  rewrite (get_mapping_equiv rq rm (scope_bits rm s) fuel H1 H2 Hm H3). reflexivity.
Qed.

Lemma gm_hyps_ok_sound rq rm : gm_hyps_ok rq rm = true ->
  rq <> [] /\ wf_query rq /\ (has_unknown_h rm = false -> wf_mol rm) /\ in_range_pair rq rm.
Proof.
  unfold gm_hyps_ok. intros H. apply andb_true_iff in H. destruct H as [H H4]. apply andb_true_iff in H. destruct H as [H H3].
  apply andb_true_iff in H. destruct H as [H1 H2].
  split; [destruct rq; [discriminate | congruence]|]. split; [apply wf_queryb_sound; exact H2|].
  split; [|apply in_range_pairb_sound; exact H4].
  intros Hu. rewrite Hu in H3. cbn [orb] in H3. apply wf_molb_sound. exact H3.
Qed.

Theorem public_get_mapping_equiv_b stereo_ok comps rm tcomps flt scope fuel :
  public_hyps_ok comps rm = true ->
  public_get_mapping stereo_ok true comps rm tcomps flt scope fuel =
  public_get_mapping stereo_ok false comps rm tcomps flt scope fuel.
Proof.
  intros H. unfold public_hyps_ok in H. rewrite forallb_forall in H.
  destruct comps as [|c0 cr] eqn:Ec.
  - reflexivity.
  - rewrite <- Ec in *. apply public_get_mapping_equiv.
    + apply Forall_forall. intros rq Hrq. destruct (gm_hyps_ok_sound rq rm (H rq Hrq)) as [H1 [H2 [_ H4]]]. tauto.
    + assert (Hin : In c0 comps) by (rewrite Ec; left; reflexivity).
      destruct (gm_hyps_ok_sound c0 rm (H c0 Hin)) as [_ [_ [H3 _]]]. exact H3.
Qed.

(* non-vacuity: query C.O (two components) on CO.C (two connected components): the only embedding puts C on the lone carbon *)
Definition ex2_rm : list ratom :=
  [mkRA 1 (mkLA 6 None 0 false 1 1 (Some 3) 1 []) [(1, mkLB 1 false)];
   mkRA 2 (mkLA 8 None 0 false 1 1 (Some 1) 0 []) [(0, mkLB 1 false)];
   mkRA 3 (mkLA 6 None 0 false 0 1 (Some 4) 0 []) []].
Definition ex2_comps : list (list rqent) :=
  [[mkRQ 1 0 (QElem 6 None (mkQX 0 false [] [] [] [] [])) None []];
   [mkRQ 2 0 (QElem 8 None (mkQX 0 false [] [] [] [] [])) None []]].
Theorem public_get_mapping_example :
  public_hyps_ok ex2_comps ex2_rm = true /\
  public_get_mapping (fun _ => true) true ex2_comps ex2_rm [[1; 2]; [3]] true None 100 = [[(1, 3); (2, 2)]] /\
  public_get_mapping (fun _ => true) false ex2_comps ex2_rm [[1; 2]; [3]] true None 100 = [[(1, 3); (2, 2)]] /\
  public_get_mapping (fun _ => true) true ex2_comps ex2_rm [[1; 2]; [3]] true (Some [1; 2]) 100 = [].
Proof. vm_compute. repeat split; reflexivity. Qed.

(* ------------------------------------------------------------------------------------------------------------ *)
(* 2. stack occupancy                                                                                             *)

Lemma filter_len_le {A} (p : A -> bool) l : (List.length (filter p l) <= List.length l)%nat.
Proof. induction l as [|x l IH]; cbn [filter List.length]; [lia|]. destruct (p x); cbn [List.length]; lia. Qed.

Section OccBound.
  Variables (E : Type) (idx : E -> Z) (nbrs : Z -> list E) (last : nat) (back : nat -> Z).
  Variable cand : nat -> list Z -> Z -> E -> bool.
  Variables (N D : nat).
  Hypothesis deg_le : forall b, (List.length (nbrs b) <= D)%nat.

  Definition cnt (d : nat) (st : list (Z * nat)) : nat := List.length (filter (fun x => Nat.eqb (snd x) d) st).
  Fixpoint sumcnt (k : nat) (st : list (Z * nat)) : nat :=
    match k with O => cnt O st | S j => (sumcnt j st + cnt (S j) st)%nat end.

  Lemma cnt_cons d n e st : cnt d ((n, e) :: st) = (cnt d st + (if Nat.eqb e d then 1 else 0))%nat.
  Proof. unfold cnt. simpl. destruct (Nat.eqb e d); simpl; [rewrite Nat.add_1_r | rewrite Nat.add_0_r]; reflexivity. Qed.

  Lemma sumcnt_cons k n e st : sumcnt k ((n, e) :: st) = (sumcnt k st + (if Nat.leb e k then 1 else 0))%nat.
  Proof.
    induction k as [|k IH]; cbn [sumcnt]; rewrite cnt_cons.
    - destruct e; reflexivity.
    - rewrite IH. destruct (Nat.leb_spec e k), (Nat.eqb_spec e (S k)), (Nat.leb_spec e (S k)); lia.
  Qed.

  Lemma length_sumcnt k st : Forall (fun x => (snd x <= k)%nat) st -> List.length st = sumcnt k st.
  Proof.
    induction st as [|[n e] st IH]; intros H.
    - clear. induction k as [|k IH]; cbn [sumcnt]; [reflexivity|]. rewrite <- IH. reflexivity.
    - inversion H as [|? ? He Hs]; subst. cbn [snd] in He. rewrite sumcnt_cons, <- (IH Hs).
      assert (L : Nat.leb e k = true) by (apply Nat.leb_le; exact He). rewrite L. cbn [List.length]. lia.
  Qed.

  Lemma sumcnt_bound k st : (cnt O st <= N)%nat -> (forall d, (1 <= d)%nat -> (cnt d st <= D)%nat) -> (sumcnt k st <= N + k * D)%nat.
  Proof.
    intros H0 Hd. induction k as [|k IH]; cbn [sumcnt]; [lia|]. specialize (Hd (S k) ltac:(lia)). lia.
  Qed.

  (* depths weakly decreasing downwards, none above `last`, at most N entries of depth 0 and D of every other depth *)
  Fixpoint sorted (st : list (Z * nat)) : Prop :=
    match st with [] => True | (n, d) :: r => Forall (fun x => (snd x <= d)%nat) r /\ sorted r end.
  Definition occ_inv (st : list (Z * nat)) : Prop :=
    sorted st /\ Forall (fun x => (snd x <= last)%nat) st /\ (cnt O st <= N)%nat /\ forall d, (1 <= d)%nat -> (cnt d st <= D)%nat.

  Lemma occ_inv_len st : occ_inv st -> (List.length st <= N + last * D)%nat.
  Proof. intros [_ [H1 [H2 H3]]]. rewrite (length_sumcnt last st H1). apply sumcnt_bound; assumption. Qed.

  Lemma cnt_app d a c : cnt d (a ++ c) = (cnt d a + cnt d c)%nat.
  Proof. unfold cnt. rewrite filter_app, app_length. reflexivity. Qed.

  Lemma cnt_const_depth d f (l : list Z) : cnt d (map (fun c => (c, f)) l) = if Nat.eqb f d then List.length l else O.
  Proof.
    unfold cnt. induction l as [|x l IH]; cbn [map filter snd]; [destruct (Nat.eqb f d); reflexivity|].
    destruct (Nat.eqb f d); cbn [List.length]; rewrite IH; reflexivity.
  Qed.

  Lemma cnt_zero_above d st : Forall (fun x => (snd x < d)%nat) st -> cnt d st = O.
  Proof.
    unfold cnt. induction st as [|[n e] st IH]; intros H; [reflexivity|]. inversion H as [|? ? He Hs]; subst. cbn [snd] in He.
    cbn [filter snd]. assert (L : Nat.eqb e d = false) by (apply Nat.eqb_neq; lia). rewrite L. apply IH. exact Hs.
  Qed.

  Lemma occ_inv_pop n d st : occ_inv ((n, d) :: st) -> occ_inv st /\ Forall (fun x => (snd x <= d)%nat) st /\ (d <= last)%nat.
  Proof.
    intros [[Hs1 Hs2] [Hl [H0 Hd]]]. inversion Hl as [|? ? Hdl Hl']; subst. cbn [snd] in Hdl.
    split; [|split; assumption]. split; [exact Hs2|]. split; [exact Hl'|]. split.
    - rewrite cnt_cons in H0. lia.
    - intros e He. specialize (Hd e He). rewrite cnt_cons in Hd. lia.
  Qed.

  Lemma occ_inv_push d (cs : list Z) st :
    occ_inv st -> Forall (fun x => (snd x <= d)%nat) st -> (S d <= last)%nat -> (List.length cs <= D)%nat ->
    occ_inv (rev (map (fun c => (c, S d)) cs) ++ st).
  Proof.
    intros [Hs [Hl [H0 Hd]]] Hle Hf Hc.
    rewrite <- map_rev. set (l := rev cs). assert (Hll : (List.length l <= D)%nat) by (unfold l; rewrite rev_length; exact Hc).
    clearbody l. split; [|split; [|split]].
    - induction l as [|x l IH]; cbn [map app sorted]; [exact Hs|]. split; [|apply IH; cbn [List.length] in Hll; lia].
      apply Forall_app. split.
      + apply Forall_forall. intros y Hy. apply in_map_iff in Hy. destruct Hy as [c [<- _]]. cbn [snd]. lia.
      + eapply Forall_impl; [|exact Hle]. intros y Hy. cbn beta in Hy. lia.
    - apply Forall_app. split; [|exact Hl]. apply Forall_forall. intros y Hy. apply in_map_iff in Hy.
      destruct Hy as [c [<- _]]. cbn [snd]. exact Hf.
    - rewrite cnt_app, cnt_const_depth. cbn [Nat.eqb]. lia.
    - intros e He. rewrite cnt_app, cnt_const_depth. destruct (Nat.eqb (S d) e) eqn:Ee.
      + apply Nat.eqb_eq in Ee. subst e. rewrite (cnt_zero_above (S d) st); [lia|].
        eapply Forall_impl; [|exact Hle]. intros y Hy. cbn beta in Hy. lia.
      + specialize (Hd e He). lia.
  Qed.

  Lemma dfs_occ_bound fuel : forall st path hi,
    occ_inv st -> (hi <= N + last * D)%nat ->
    (dfs_occ E idx nbrs last back cand fuel st path hi <= N + last * D)%nat.
  Proof.
    induction fuel as [|fuel IH]; intros st path hi Hinv Hhi; cbn [dfs_occ]; [exact Hhi|].
    destruct st as [|[n d] st]; [exact Hhi|].
    destruct (occ_inv_pop n d st Hinv) as [Hst [Hle Hdl]].
    destruct (Nat.eqb d last) eqn:Ed; [apply IH; assumption|]. apply Nat.eqb_neq in Ed.
    set (path' := firstn d path ++ [n]).
    set (base := if negb (back (S d) =? Z.of_nat d) then znth path' (back (S d)) 0 else n).
    set (cands := filter (cand (S d) path' base) (nbrs base)).
    assert (Hc : (List.length (map idx cands) <= D)%nat).
    { rewrite map_length. unfold cands. etransitivity; [apply filter_len_le | apply deg_le]. }
    pose proof (occ_inv_push d (map idx cands) st Hst Hle ltac:(lia) Hc) as Hnew.
    rewrite map_map in Hnew.
    apply IH; [exact Hnew|]. apply Nat.max_lub; [exact Hhi | apply occ_inv_len; exact Hnew].
  Qed.
End OccBound.

(* ---- the instance: the loop of the .pyx on any buffers ---- *)
Lemma zrange_from_length s n : List.length (zrange_from s n) = n.
Proof. revert s. induction n as [|n IH]; intros s; cbn [zrange_from List.length]; [reflexivity|]. rewrite IH. reflexivity. Qed.

Lemma max_ge {A} (f : A -> nat) l x : In x l -> (f x <= fold_right Nat.max O (map f l))%nat.
Proof.
  induction l as [|y l IH]; intros H; [destruct H|]. cbn [map fold_right]. destruct H as [->|H]; [lia|].
  specialize (IH H). lia.
Qed.

Lemma znth_In_or_default {A} (l : list A) i d : In (znth l i d) l \/ znth l i d = d.
Proof.
  unfold znth. destruct (i <? 0); [right; reflexivity|].
  destruct (Nat.lt_ge_cases (Z.to_nat i) (List.length l)) as [H|H]; [left; apply nth_In; exact H | right; apply nth_overflow; exact H].
Qed.

Lemma m_bonds_of_length mo b : (List.length (m_bonds_of mo b) <= max_degree mo)%nat.
Proof.
  unfold m_bonds_of, slice. rewrite firstn_length. etransitivity; [apply Nat.le_min_l|].
  unfold max_degree, m_atom. destruct (znth_In_or_default (mo_atoms mo) b (mkMA b4zero 0 0 0)) as [H|H].
  - apply (max_ge (fun a => Z.to_nat (ma_to a - ma_from a)) _ _ H).
  - rewrite H. cbn. lia.
Qed.

(* THE REPAIR: atoms_count + (query atoms - 1) * (largest neighbour list) cells are always enough - for ANY pair of buffers,
   any scope, any fuel (no well-formedness needed): the stack holds at most atoms_count entries of depth 0 and, for every
   depth 1..q-1, the remains of ONE batch of candidates, i.e. at most one neighbour list *)
Theorem stack_bound_tight qu mo scope fuel :
  (mask_occupancy qu mo scope fuel <= alloc_tight qu mo)%nat.
Proof.
  unfold mask_occupancy, alloc_tight.
  set (N := List.length (mo_atoms mo)). set (L := Nat.pred (List.length (qu_atoms qu))). set (D := max_degree mo).
  set (st0 := init_stack (zlen (mo_atoms mo)) (mask_first qu mo scope)).
  assert (Hlen : (List.length st0 <= N)%nat).
  { unfold st0, init_stack. rewrite rev_length, map_length. etransitivity; [apply filter_len_le|].
    unfold zrange. rewrite zrange_from_length. unfold zlen, N. lia. }
  assert (Hd0 : Forall (fun x : Z * nat => snd x = O) st0).
  { unfold st0, init_stack. apply Forall_forall. intros x Hx. apply in_rev in Hx. apply in_map_iff in Hx.
    destruct Hx as [n [<- _]]. reflexivity. }
  apply (dfs_occ_bound bond_t bt_index (m_bonds_of mo) L _ _ N D (m_bonds_of_length mo)); [|lia].
  clear -Hlen Hd0. revert Hlen. generalize st0 Hd0. clear. intros st Hd.
  induction st as [|[n d] st IH]; intros Hlen.
  - split; [exact I|]. split; [constructor|]. split; [cbn; lia|]. intros; cbn; lia.
  - inversion Hd as [|? ? Hd1 Hds]; subst. cbn [snd] in Hd1. subst d. cbn [List.length] in Hlen.
    destruct (IH Hds ltac:(lia)) as [Hs [Hl [H0 Hdd]]].
    split; [|split; [|split]].
    + cbn [sorted]. split; [|exact Hs]. eapply Forall_impl; [|exact Hds]. intros x Hx. cbn beta in Hx. lia.
    + constructor; [cbn; lia | exact Hl].
    + assert (C0 : cnt O ((n, O) :: st) = S (cnt O st)) by (rewrite cnt_cons; cbn; lia).
      assert (Cl : (cnt O st <= List.length st)%nat) by (unfold cnt; apply filter_len_le). lia.
    + intros e He. rewrite cnt_cons. destruct e; [lia|]. cbn [Nat.eqb]. specialize (Hdd (S e) He). lia.
Qed.

(* witnesses built from the real objects (smarts / smiles): SF6 query on SF6, K5 of carbons on itself *)
Definition sf6_rq : list rqent :=
  [(mkRQ 1 0 (QElem 9 None (mkQX 0 false [] [] [] [] [])) None []);
   (mkRQ 2 0 (QElem 16 None (mkQX 0 false [] [] [] [] [])) (Some (mkQB [1] None)) []);
   (mkRQ 3 1 (QElem 9 None (mkQX 0 false [] [] [] [] [])) (Some (mkQB [1] None)) []);
   (mkRQ 4 1 (QElem 9 None (mkQX 0 false [] [] [] [] [])) (Some (mkQB [1] None)) []);
   (mkRQ 5 1 (QElem 9 None (mkQX 0 false [] [] [] [] [])) (Some (mkQB [1] None)) []);
   (mkRQ 6 1 (QElem 9 None (mkQX 0 false [] [] [] [] [])) (Some (mkQB [1] None)) []);
   (mkRQ 7 1 (QElem 9 None (mkQX 0 false [] [] [] [] [])) (Some (mkQB [1] None)) [])].
Definition sf6_f : ratom := mkRA 0 (mkLA 9 None 0 false 1 1 (Some 0) 1 []) [(1, mkLB 1 false)].
Definition sf6_rm : list ratom :=
  [mkRA 1 (ra_atom sf6_f) (ra_nbrs sf6_f);
   mkRA 2 (mkLA 16 None 0 false 6 1 (Some 0) 6 [])
        [(0, mkLB 1 false); (2, mkLB 1 false); (3, mkLB 1 false); (4, mkLB 1 false); (5, mkLB 1 false); (6, mkLB 1 false)];
   mkRA 3 (ra_atom sf6_f) (ra_nbrs sf6_f); mkRA 4 (ra_atom sf6_f) (ra_nbrs sf6_f); mkRA 5 (ra_atom sf6_f) (ra_nbrs sf6_f);
   mkRA 6 (ra_atom sf6_f) (ra_nbrs sf6_f); mkRA 7 (ra_atom sf6_f) (ra_nbrs sf6_f)].
Definition k5_c : qatom := QElem 6 None (mkQX 0 false [] [] [] [] []).
Definition k5_b : qbond := mkQB [1] None.
Definition k5_rq : list rqent :=
  [mkRQ 1 0 k5_c None []; mkRQ 2 0 k5_c (Some k5_b) []; mkRQ 3 1 k5_c (Some k5_b) [(0, k5_b)];
   mkRQ 4 2 k5_c (Some k5_b) [(1, k5_b); (0, k5_b)]; mkRQ 5 3 k5_c (Some k5_b) [(2, k5_b); (1, k5_b); (0, k5_b)]].
Definition k5_a : latom := mkLA 6 None 0 false 4 1 (Some 0) 0 [3].
Definition k5_l : lbond := mkLB 1 true.
Definition k5_rm : list ratom :=
  [mkRA 1 k5_a [(1, k5_l); (2, k5_l); (3, k5_l); (4, k5_l)]; mkRA 2 k5_a [(0, k5_l); (2, k5_l); (3, k5_l); (4, k5_l)];
   mkRA 3 k5_a [(1, k5_l); (0, k5_l); (3, k5_l); (4, k5_l)]; mkRA 4 k5_a [(2, k5_l); (0, k5_l); (1, k5_l); (4, k5_l)];
   mkRA 5 k5_a [(3, k5_l); (0, k5_l); (1, k5_l); (2, k5_l)]].
Definition all_scope (rm : list ratom) : list bool := map (fun _ => true) rm.
Definition occ_of (rq : list rqent) (rm : list ratom) : nat :=
  mask_occupancy (enc_query rq) (enc_mol rm) (all_scope rm) (Z.to_nat 100000).

(* SF6 written with the sulfur last (F%11.F%12.F%13.F%14.F%15.F%16.S%11%12%13%14%15%16), query [A]([A])([A])([A])([A])([A])[A] *)
Definition star_a : qatom := QAny (mkQX 0 false [] [] [] [] []).
Definition star_rq : list rqent :=
  mkRQ 1 0 star_a None [] :: map (fun n => mkRQ n 0 star_a (Some (mkQB [1] None)) []) [2; 3; 4; 5; 6; 7].
Definition sf6s_rm : list ratom :=
  map (fun n => mkRA n (ra_atom sf6_f) [(6, mkLB 1 false)]) [1; 2; 3; 4; 5; 6] ++
  [mkRA 7 (mkLA 16 None 0 false 6 1 (Some 0) 6 [])
        [(0, mkLB 1 false); (1, mkLB 1 false); (2, mkLB 1 false); (3, mkLB 1 false); (4, mkLB 1 false); (5, mkLB 1 false)]].

(* the allocation of the .pyx (2 * atoms_count cells) is exceeded on inputs inside every hypothesis of the equivalence
   theorems: K5 of carbons on itself needs 11 cells of 10, the SF6 query on SF6 16 of 14 *)
Theorem stack_bound_2n_refuted :
  hyps_ok k5_rq k5_rm = true /\ occ_of k5_rq k5_rm = 11%nat /\ alloc_2n (enc_mol k5_rm) = 10%nat /\
  hyps_ok sf6_rq sf6_rm = true /\ occ_of sf6_rq sf6_rm = 16%nat /\ alloc_2n (enc_mol sf6_rm) = 14%nat.
Proof. vm_compute. repeat split; reflexivity. Qed.

(* the repair suggested first (atoms_count + number of bond records) is NOT sufficient: every front of a star query re-scans
   the neighbour list of the same centre *)
Theorem stack_bound_atoms_plus_bonds_refuted :
  hyps_ok star_rq sf6s_rm = true /\ occ_of star_rq sf6s_rm = 22%nat /\ alloc_atoms_plus_bonds (enc_mol sf6s_rm) = 19%nat /\
  alloc_tight (enc_query star_rq) (enc_mol sf6s_rm) = 43%nat.
Proof. vm_compute. repeat split; reflexivity. Qed.

(* ---- the allocation of the code since 25e27ca: atoms_count * query atoms cells ---- *)
Lemma from_to_widths {A} (f : A -> Z) l s : map (fun ft => snd ft - fst ft) (from_to f l s) = map f l.
Proof. revert s. induction l as [|a l IH]; intros s; cbn [from_to map fst snd]; [reflexivity|]. rewrite IH. f_equal. lia. Qed.

Lemma map_snd_combine {A B} (l : list A) (l' : list B) : List.length l = List.length l' -> map snd (combine l l') = l'.
Proof.
  revert l'. induction l as [|x l IH]; intros [|y l'] H; cbn [combine map snd]; try reflexivity; try discriminate.
  f_equal. apply IH. cbn [List.length] in H. lia.
Qed.

Lemma fold_max_le {A} (f : A -> nat) l n : (forall x, In x l -> (f x <= n)%nat) -> (fold_right Nat.max O (map f l) <= n)%nat.
Proof.
  induction l as [|x l IH]; intros H; cbn [map fold_right]; [lia|].
  apply Nat.max_lub; [apply H; left; reflexivity | apply IH; intros y Hy; apply H; right; exact Hy].
Qed.

Lemma max_degree_enc_mol rm : adj_ok rm -> (max_degree (enc_mol rm) <= List.length rm)%nat.
Proof.
  intros Hm. unfold max_degree, enc_mol. cbn [mo_atoms]. rewrite map_map.
  set (ft := from_to (fun a => zlen (ra_nbrs a)) rm 0). set (bits := map (fun a => enc_atom (ra_atom a)) rm).
  assert (E : map (fun x : ratom * bits4 * (Z * Z) =>
                     Z.to_nat (ma_to (let '(a, b, (f, t)) := x in mkMA b f t (ra_num a)) - ma_from (let '(a, b, (f, t)) := x in mkMA b f t (ra_num a))))
                  (combine (combine rm bits) ft) =
              map (fun a => Z.to_nat (zlen (ra_nbrs a))) rm).
  { transitivity (map (fun ft0 : Z * Z => Z.to_nat (snd ft0 - fst ft0)) (map snd (combine (combine rm bits) ft))).
    - rewrite map_map. apply map_ext. intros [[a b] [f t]]. reflexivity.
    - rewrite map_snd_combine by (unfold ft, bits; rewrite combine_length, from_to_length, map_length, Nat.min_id; reflexivity).
      unfold ft. rewrite <- (map_map (fun ft0 : Z * Z => snd ft0 - fst ft0) Z.to_nat), from_to_widths, map_map. reflexivity. }
  rewrite E. apply fold_max_le. intros a Ha.
  unfold adj_ok in Hm. rewrite Forall_forall in Hm. destruct (Hm a Ha) as [Hnd Hr].
  unfold zlen. rewrite Nat2Z.id. rewrite <- (map_length fst).
  replace (List.length rm) with (List.length (zrange 0 (zlen rm))) by (unfold zrange; rewrite zrange_from_length; unfold zlen; lia).
  apply NoDup_incl_length; [exact Hnd|]. intros x Hx. apply in_map_iff in Hx. destruct Hx as [e [<- He]].
  rewrite Forall_forall in Hr. apply zrange_In. apply (Hr e He).
Qed.

Theorem stack_bound_sufficient rq rm scope fuel : rq <> [] -> adj_ok rm ->
  (mask_occupancy (enc_query rq) (enc_mol rm) scope fuel <= alloc_pyx (enc_query rq) (enc_mol rm))%nat.
Proof.
  intros Hne Hm. etransitivity; [apply stack_bound_tight|]. unfold alloc_tight, alloc_pyx.
  pose proof (max_degree_enc_mol rm Hm) as Hd. rewrite enc_query_natoms.
  assert (Hn : List.length (mo_atoms (enc_mol rm)) = List.length rm).
  { pose proof (enc_mol_natoms rm) as H. unfold zlen in H. lia. }
  rewrite Hn. destruct rq as [|e rq]; [congruence|]. cbn [List.length Nat.pred]. nia.
Qed.

Lemma wf_mol_adj_ok rm : wf_mol rm -> adj_ok rm.
Proof.
  unfold wf_mol, adj_ok. rewrite !Forall_forall. intros H a Ha. destruct (H a Ha) as [_ [H1 H2]]. split; [exact H1|].
  rewrite Forall_forall in H2. apply Forall_forall. intros e He. apply (H2 e He).
Qed.

(* the inputs that overflowed 2 * atoms_count cells fit the new allocation (and the theorem above applies to them) *)
Theorem stack_bound_examples :
  adj_ok k5_rm /\ occ_of k5_rq k5_rm = 11%nat /\ alloc_pyx (enc_query k5_rq) (enc_mol k5_rm) = 25%nat /\
  adj_ok sf6s_rm /\ occ_of star_rq sf6s_rm = 22%nat /\ alloc_pyx (enc_query star_rq) (enc_mol sf6s_rm) = 49%nat /\
  alloc_tight (enc_query star_rq) (enc_mol sf6s_rm) = 43%nat.
Proof.
  split; [apply wf_mol_adj_ok, wf_molb_sound; vm_compute; reflexivity|]. split; [vm_compute; reflexivity|]. split; [vm_compute; reflexivity|].
  split; [apply wf_mol_adj_ok, wf_molb_sound; vm_compute; reflexivity|]. repeat split; vm_compute; reflexivity.
Qed.
