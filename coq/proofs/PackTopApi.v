(* C10: the generic dispatcher chython.unpack / unpach on top of the API level round trips (labels re-attached) *)
From Coq Require Import ZArith List Bool.
From Model Require Import PyBase Graph StereoRegistry Pack PackSpec PackApi PackStereo PackStereoSpec PackMol PackTop.
From Proofs Require Import PackStereoProofs PackStereoDisjoint PackMolProofs PackTopProofs.
Import ListNotations.
Open Scope Z_scope.

Theorem top_unpack_api (R : Type) dec (ru : list Z -> pyres R) atoms paths suf :
  pack_ok (api_pmol atoms paths) = true -> labels_sym_b atoms = true ->
  paths_disjoint_b paths = true -> labelled_registered_b atoms paths = true ->
  exists bytes, api_pack atoms paths = Ok bytes /\
    top_unpack dec (api_unpack paths) ru false (bytes ++ suf) = Ok (inl (map uatom_of atoms, ladj_of_atoms atoms, Z.of_nat (length bytes))) /\
    forall z, dec z = Ok (bytes ++ suf) ->
      top_unpack dec (api_unpack paths) ru true z = Ok (inl (map uatom_of atoms, ladj_of_atoms atoms, Z.of_nat (length bytes))).
Proof.
  intros H Hs Hd Hl. destruct (api_roundtrip atoms paths suf H Hs Hd Hl) as [bytes [E1 E2]].
  exists bytes. split; [exact E1|]. split; [apply top_mol_ok; exact E2|].
  intros z Hz. apply (top_mol_ok_compressed dec _ ru z _ _ Hz E2).
Qed.

Theorem top_unpack_mc (R : Type) dec (ru : list Z -> pyres R) g xyf suf : mc_ok g xyf = true ->
  exists bytes, mc_pack g xyf = Ok bytes /\
    top_unpack dec mc_unpack ru false (bytes ++ suf) = Ok (inl (g, map xyf (ids g), Z.of_nat (length bytes))) /\
    forall z, dec z = Ok (bytes ++ suf) ->
      top_unpack dec mc_unpack ru true z = Ok (inl (g, map xyf (ids g), Z.of_nat (length bytes))).
Proof.
  intros H. destruct (mc_roundtrip g xyf suf H) as [bytes [E1 E2]].
  exists bytes. split; [exact E1|]. split; [apply top_mol_ok; exact E2|].
  intros z Hz. apply (top_mol_ok_compressed dec _ ru z _ _ Hz E2).
Qed.
