(* C02, round 4: the entry points of the writer (Smiles.__str__, smiles_atoms_order, __format__), translated statement by statement
   from chython/algorithms/smiles.py by tools/gen_smiles_entry.py on every run (coq/gen/SmilesEntry.v).
   - closed forms of the four generated programs: what each returns and what it leaves in the instance dictionary;
   - entry_points_agree: whichever entry point is used first, the string returned / cached under the slot @cached_method reads and
     the order returned / cached under the slot @cached_property reads are the SAME text and order (the text carries the CXSMILES
     block exactly when _format_cxsmiles gives one);
   - smiles_text_generated: Writer.smiles_text (the model of format(mol, spec) the other theorems speak about) is the generated tail
     of __format__ applied to the model's _smiles and _format_cxsmiles.
   Moving a statement of these bodies (e.g. the cache assignment above the block that appends the radical extension) changes the
   generated term and breaks the closed-form lemma of that entry point. *)
From Coq Require Import ZArith List String Ascii Bool Lia.
From Gen Require Import SmilesEntry.
From Model Require Import PyBase Graph Writer.
From Proofs Require Import WriterProofsStream.
Import ListNotations.
Open Scope Z_scope.

(* the canonical text: the joined strings of _smiles, then ' ' and the CXSMILES block when there is one *)
Definition entry_text (run : list string * list Z) (cxf : list Z -> option string) : string :=
  match cxf (snd run) with
  | Some cx => (ejoin (fst run) ++ " " ++ cx)%string
  | None => ejoin (fst run)
  end.

Definition cache_get (c : ecache) (k : string) : option cval :=
  match find (fun kv => String.eqb (fst kv) k) c with Some kv => Some (snd kv) | None => None end.

Lemma ejoin_scat l : ejoin l = scat l.
Proof. reflexivity. Qed.

Lemma ejoin_two_appends l cx : ejoin ((l ++ [" "%string]) ++ [cx]) = (ejoin l ++ " " ++ cx)%string.
Proof.
  rewrite !ejoin_scat, !scat_app. change (scat [" "%string]) with " "%string.
  replace (scat [cx]) with cx by (unfold scat; cbn; induction cx; cbn; congruence).
  apply sapp_assoc'.
Qed.

Lemma ejoin_three a b c : ejoin [a; b; c] = (a ++ b ++ c)%string.
Proof. reflexivity. Qed.

(* ---------------- closed forms ---------------- *)
Lemma str_closed : forall run cxf,
  g_str run cxf = (RStr (entry_text run cxf), [(slot_order, COrder (snd run))]).
Proof.
  intros [l o] cxf. unfold g_str, entry_text, slot_order. cbn [fst snd].
  destruct (cxf o) as [cx|]; [rewrite ejoin_two_appends|]; reflexivity.
Qed.

Lemma atoms_order_closed : forall run cxf,
  g_atoms_order run cxf = (ROrder (snd run), [(slot_str, CStr (entry_text run cxf))]).
Proof.
  intros [l o] cxf. unfold g_atoms_order, entry_text, slot_str. cbn [fst snd].
  destruct (cxf o) as [cx|]; [rewrite ejoin_two_appends|]; reflexivity.
Qed.

Lemma format_order_closed : forall run cxf,
  g_format_order run cxf =
  (RPair (ejoin (fst run)) (snd run), [(slot_order, COrder (snd run)); (slot_str, CStr (entry_text run cxf))]).
Proof.
  intros [l o] cxf. unfold g_format_order, entry_text, slot_str, slot_order. cbn [fst snd].
  destruct (cxf o) as [cx|]; [rewrite ejoin_three|]; reflexivity.
Qed.

Lemma format_spec_closed : forall run cxf spec ro,
  g_format_spec run cxf spec ro =
  if ro then (RPair (ejoin (fst run)) (snd run), [])
  else (RStr (if esubstr "!x" spec then ejoin (fst run) else entry_text run cxf), []).
Proof.
  intros [l o] cxf spec ro. unfold g_format_spec, entry_text. cbn [fst snd].
  destruct ro; [reflexivity|]. destruct (esubstr "!x" spec); [reflexivity|].
  destruct (cxf o) as [cx|]; [rewrite ejoin_two_appends|]; reflexivity.
Qed.

(* ---------------- every first access leaves the same text and order ---------------- *)
Theorem entry_points_agree : forall run cxf,
  let s := entry_text run cxf in
  let o := snd run in
  (* str(mol) *)
  fst (g_str run cxf) = RStr s /\ cache_get (snd (g_str run cxf)) slot_order = Some (COrder o) /\
  (* mol.smiles_atoms_order *)
  fst (g_atoms_order run cxf) = ROrder o /\ cache_get (snd (g_atoms_order run cxf)) slot_str = Some (CStr s) /\
  (* mol.__format__('', _return_order=True) *)
  fst (g_format_order run cxf) = RPair (ejoin (fst run)) o /\
  cache_get (snd (g_format_order run cxf)) slot_str = Some (CStr s) /\
  cache_get (snd (g_format_order run cxf)) slot_order = Some (COrder o) /\
  (* format(mol, spec) for a spec without '!x' is the same text; with '!x' the bare joined strings; nothing is cached *)
  (forall spec, esubstr "!x" spec = false -> g_format_spec run cxf spec false = (RStr s, [])) /\
  (forall spec, esubstr "!x" spec = true -> g_format_spec run cxf spec false = (RStr (ejoin (fst run)), [])) /\
  (forall spec, g_format_spec run cxf spec true = (RPair (ejoin (fst run)) o, [])).
Proof.
  intros run cxf s o. rewrite str_closed, atoms_order_closed, format_order_closed.
  repeat split; try reflexivity; intros spec; try intros H; rewrite format_spec_closed; try rewrite H; reflexivity.
Qed.

(* the text ends with the block whenever there is one (the radical flags are only in the block) *)
Lemma entry_text_has_block : forall run cxf cx,
  cxf (snd run) = Some cx -> entry_text run cxf = (ejoin (fst run) ++ " " ++ cx)%string.
Proof. intros run cxf cx H. unfold entry_text. rewrite H. reflexivity. Qed.

(* non-vacuity: a radical: three strings, a block *)
Example entry_points_example :
  let run := (["C"; "[CH2]"]%string, [1; 2]) in
  let cxf := fun _ : list Z => Some "|^1:1|"%string in
  g_str run cxf = (RStr "C[CH2] |^1:1|", [("smiles_atoms_order"%string, COrder [1; 2])]) /\
  g_atoms_order run cxf = (ROrder [1; 2], [("__cached_method___str__"%string, CStr "C[CH2] |^1:1|")]).
Proof. split; reflexivity. Qed.

(* ---------------- the model of format() is the generated tail on the model's _smiles ---------------- *)
Lemma esubstr_pre_prefix p s : esubstr_pre p s = prefix_of p s.
Proof.
  revert s. induction p as [|a p IH]; intros [|b s]; cbn [esubstr_pre prefix_of]; try reflexivity.
  all: try (rewrite IH; destruct (Ascii.eqb a b); reflexivity).
Qed.
Lemma esubstr_substr p s : esubstr p s = substr p s.
Proof. induction s as [|c s IH]; cbn; rewrite esubstr_pre_prefix; [reflexivity | rewrite IH; reflexivity]. Qed.

Lemma smiles_text_generated : forall g w tb spec tabs,
  smiles_text g w tb (opts_of_spec spec) tabs =
  match smiles_tokens g w tb (opts_of_spec spec) tabs with
  | Err e => Err e
  | Ok None => Err ValueError
  | Ok (Some (out, order)) =>
      match fst (g_format_spec (map spell_otok out, order) (format_cxsmiles g) spec false) with
      | RStr s => Ok (s, order)
      | _ => Err ValueError
      end
  end.
Proof.
  intros g w tb spec tabs. unfold smiles_text.
  destruct (smiles_tokens g w tb (opts_of_spec spec) tabs) as [[[out order]|]|e]; try reflexivity.
  rewrite format_spec_closed. cbn [fst snd]. unfold opts_of_spec at 1. cbn [o_cx].
  rewrite (esubstr_substr "!x" spec). destruct (substr "!x" spec); cbn [negb]; [reflexivity|].
  unfold entry_text. cbn [fst snd]. destruct (format_cxsmiles g order) as [cx|]; reflexivity.
Qed.
