(* C13 -- the loop shared by Graph.copy and substructure (Model.Cache.gcopy_rows): the new adjacency has the selected
   rows in the same order, fresh bond objects holding the transformed cells, both directions aliased. *)
From Coq Require Import ZArith List Bool Lia.
From Model Require Import PyBase Cache.
From Proofs Require Import CacheProofs CacheWf.
Import ListNotations.
Open Scope Z_scope.

(* ---- Forall2 over association lists with equal keys *)
Section F2.
Context {A B : Type} (R : Z * A -> Z * B -> Prop).
Hypothesis Rk : forall x y, R x y -> fst y = fst x.
Lemma F2_keys a b : Forall2 R a b -> keys b = keys a.
Proof. induction 1; cbn; [reflexivity|]. f_equal; auto. Qed.
Lemma F2_zget_r a b : Forall2 R a b -> forall k v', zget b k = Some v' -> exists v, zget a k = Some v /\ R (k, v) (k, v').
Proof.
  induction 1 as [|[k1 v1] [k2 v2] a b H F IH]; cbn; [discriminate|]. intros k v'. pose proof (Rk _ _ H) as E. cbn in E. subst.
  destruct (Z.eqb_spec k k1); [|apply IH]. intros E; inversion E; subst. eauto.
Qed.
Lemma F2_zget_l a b : Forall2 R a b -> forall k v, zget a k = Some v -> exists v', zget b k = Some v' /\ R (k, v) (k, v').
Proof.
  induction 1 as [|[k1 v1] [k2 v2] a b H F IH]; cbn; [discriminate|]. intros k v. pose proof (Rk _ _ H) as E. cbn in E. subst.
  destruct (Z.eqb_spec k k1); [|apply IH]. intros E; inversion E; subst. eauto.
Qed.
Lemma F2_In_r a b : Forall2 R a b -> forall y, In y b -> exists x, In x a /\ R x y.
Proof. induction 1; cbn; [tauto|]. intros z [E|E]; [subst; eauto|]. destruct (IHForall2 z E) as [w [? ?]]. eauto. Qed.
End F2.

Lemma Forall2_impl {A B} (R R' : A -> B -> Prop) a b : (forall x y, R x y -> R' x y) -> Forall2 R a b -> Forall2 R' a b.
Proof. intros I. induction 1; constructor; auto. Qed.
Lemma zget_filter_key {V} (keep : Z -> bool) (d : list (Z * V)) k :
  zget (filter (fun mr => keep (fst mr)) d) k = if keep k then zget d k else None.
Proof.
  induction d as [|[k0 v0] t IH]; cbn; [now destruct (keep k)|]. destruct (keep k0) eqn:E0; cbn.
  - destruct (Z.eqb_spec k k0); [subst; now rewrite E0 | apply IH].
  - rewrite IH. destruct (Z.eqb_spec k k0); [subst; now rewrite E0 | reflexivity].
Qed.
Lemma NoDup_keys_filter {V} (p : Z * V -> bool) (d : list (Z * V)) : NoDup (keys d) -> NoDup (keys (filter p d)).
Proof.
  induction d as [|[k0 v0] t IH]; cbn; [auto|]. intros N. inversion N; subst. destruct (p (k0, v0)); cbn; [|auto].
  constructor; [|auto]. intros H. apply H1. unfold keys in *. apply in_map_iff in H. destruct H as [x [E H]]. apply filter_In in H.
  apply in_map_iff. exists x. tauto.
Qed.
Lemma zset_last {V} (d : list (Z * V)) k v w : ~ In k (keys d) -> zset (d ++ [(k, v)]) k w = d ++ [(k, w)].
Proof.
  induction d as [|[k0 v0] t IH]; cbn; intros H; [now rewrite Z.eqb_refl|].
  destruct (Z.eqb_spec k k0); [exfalso; apply H; left; congruence|]. f_equal. apply IH. tauto.
Qed.

(* heap extension: allocation only *)
Definition hext (h h' : hp) : Prop := h_next h <= h_next h' /\ forall r, r < h_next h -> hget h' r = hget h r.
Lemma hext_refl h : hext h h.
Proof. split; [lia | auto]. Qed.
Lemma hext_trans a b c : hext a b -> hext b c -> hext a c.
Proof. intros [L1 U1] [L2 U2]. split; [lia|]. intros r H. rewrite U2, U1; auto. lia. Qed.
Lemma hext_halloc h c : hext h (fst (halloc h c)).
Proof. split; [rewrite hnext_halloc; lia|]. intros r H. rewrite hget_halloc. destruct (Z.eqb_spec r (h_next h)); [lia | reflexivity]. Qed.

Section GCopy.
Variables (keep : Z -> bool) (f : bcell -> pyres bcell) (h0 : hp).

Definition erel (h : hp) (mr mr' : Z * ref) : Prop :=
  fst mr' = fst mr /\ h_next h0 <= snd mr' < h_next h /\
  exists c c', hget h0 (snd mr) = Some c /\ f c = Ok c' /\ hget h (snd mr') = Some c'.
Definition rrel (h : hp) (nr nr' : Z * list (Z * ref)) : Prop :=
  fst nr' = fst nr /\ Forall2 (erel h) (filter (fun mr => keep (fst mr)) (snd nr)) (snd nr').
Lemma erel_k h x y : erel h x y -> fst y = fst x.
Proof. intros [E _]. exact E. Qed.
Lemma rrel_k h x y : rrel h x y -> fst y = fst x.
Proof. intros [E _]. exact E. Qed.
Lemma erel_mono h h' x y : hext h h' -> erel h x y -> erel h' x y.
Proof.
  intros [L U] [E [B [c [c' [H1 [H2 H3]]]]]]. split; [exact E|]. split; [lia|]. exists c, c'. repeat split; auto. rewrite U; [assumption | lia].
Qed.
Lemma rrel_mono h h' x y : hext h h' -> rrel h x y -> rrel h' x y.
Proof. intros X [E F]. split; [exact E|]. eapply Forall2_impl; [|exact F]. intros a b. now apply erel_mono. Qed.

Lemma gcopy_row_spec cb n : forall t h h1 l,
  hext h0 h ->
  (forall m, In m (keys cb) -> keep m = true) ->
  (forall m rf, In (m, rf) t -> rf < h_next h0) ->
  (forall m rf rowm rf', In (m, rf) t -> zget cb m = Some rowm -> zget rowm n = Some rf' -> erel h (m, rf) (m, rf')) ->
  gcopy_row keep f h cb n t = Ok (h1, l) ->
  hext h h1 /\ Forall2 (erel h1) (filter (fun mr => keep (fst mr)) t) l /\
  (forall m rf', In (m, rf') l -> (exists rowm, zget cb m = Some rowm /\ zget rowm n = Some rf') \/ zget cb m = None).
Proof.
  induction t as [|[m rf] t IH]; intros h h1 l X K Old Al H.
  - cbn in H. inversion H; subst. split; [apply hext_refl|]. split; [constructor|]. intros m rf' [].
  - cbn [gcopy_row] in H. destruct (zget cb m) as [rowm|] eqn:Em.
    + destruct (zget rowm n) as [rf'|] eqn:En; [|discriminate].
      destruct (gcopy_row keep f h cb n t) as [[h2 l2]|] eqn:Rec; [|discriminate]. inversion H; subst.
      destruct (IH h h1 l2 X K) as [X1 [F1 A1]]; auto.
      { intros; eapply Old; right; eauto. } { intros; eapply Al; eauto. right; eauto. }
      split; [exact X1|]. split.
      * cbn [filter fst]. rewrite (K m) by (eapply zget_In_keys; eauto). constructor; [|exact F1].
        eapply erel_mono; [exact X1|]. eapply Al; eauto. now left.
      * intros m' r' [E|E]; [inversion E; subst; left; eauto | now apply A1].
    + destruct (keep m) eqn:Km.
      * destruct (hget h rf) as [cl|] eqn:Ec; [|discriminate]. destruct (f cl) as [cl'|] eqn:Ef; [|discriminate].
        pose proof (hext_halloc h cl') as Xa. destruct (halloc h cl') as [ha rfa] eqn:Ea.
        assert (rfa = h_next h /\ h_next ha = h_next h + 1 /\ hget ha (h_next h) = Some cl') as [-> [Na Ga]].
        { unfold halloc in Ea. inversion Ea; subst. cbn. repeat split. unfold hget; cbn. now rewrite Z.eqb_refl. }
        cbn [fst] in Xa.
        destruct (gcopy_row keep f ha cb n t) as [[h2 l2]|] eqn:Rec; [|discriminate]. inversion H; subst.
        destruct (IH ha h1 l2 (hext_trans _ _ _ X Xa) K) as [X1 [F1 A1]]; auto.
        { intros; eapply Old; right; eauto. }
        { intros. eapply erel_mono; [exact Xa|]. eapply Al; eauto. right; eauto. }
        split; [eapply hext_trans; eauto|]. split.
        -- cbn [filter fst]. rewrite Km. constructor; [|exact F1]. split; [reflexivity|]. cbn [snd]. destruct X as [L0 U0], X1 as [L1 U1].
           split; [lia|]. exists cl, cl'. split; [|split; [exact Ef|]].
           ++ rewrite <- U0; [exact Ec|]. eapply Old. now left.
           ++ rewrite U1; [exact Ga | lia].
        -- intros m' r' [E|E]; [inversion E; subst; now right | now apply A1].
      * destruct (IH h h1 l X K) as [X1 [F1 A1]]; auto.
        { intros; eapply Old; right; eauto. } { intros; eapply Al; eauto. right; eauto. }
        split; [exact X1|]. split; [|exact A1]. cbn [filter fst]. now rewrite Km.
Qed.

(* source adjacency *)
Variable adj : adjacency.
Hypothesis Hnd : nd adj.
Hypothesis Hsym : forall n m r, aslot adj n m = Some r -> aslot adj m n = Some r.
Hypothesis Hold : forall r, In r (arefs adj) -> r < h_next h0.

(* both directions, when present, hold the same reference *)
Definition alias (cb : adjacency) : Prop := forall x y r1 r2, aslot cb x y = Some r1 -> aslot cb y x = Some r2 -> r1 = r2.
Definition cinv (h : hp) (done cb : adjacency) : Prop :=
  hext h0 h /\ Forall2 (rrel h) done cb /\ alias cb.

Lemma aslot_snoc cb n l x y : aslot (cb ++ [(n, l)]) x y =
  match zget cb x with Some rw => zget rw y | None => if x =? n then zget l y else None end.
Proof. unfold aslot. rewrite zget_app. destruct (zget cb x); [reflexivity|]. cbn. now destruct (x =? n). Qed.

Lemma gcopy_rows_spec : forall rows done h cb h' cb',
  (forall n r, In (n, r) (done ++ rows) -> zget adj n = Some r) ->
  NoDup (keys (done ++ rows)) ->
  (forall n, In n (keys (done ++ rows)) -> keep n = true) ->
  cinv h done cb -> gcopy_rows keep f h cb rows = Ok (h', cb') -> cinv h' (done ++ rows) cb'.
Proof.
  induction rows as [|[n r] rows IH]; intros done h cb h' cb' Src ND K [X [F J]] H.
  - cbn in H. inversion H; subst. rewrite app_nil_r. split; [exact X | split; [exact F | exact J]].
  - cbn [gcopy_rows] in H.
    assert (keys cb = keys done) as Kc by (eapply F2_keys; [apply rrel_k | exact F]).
    assert (~ In n (keys cb)) as Nn.
    { rewrite Kc. rewrite keys_app in ND. cbn in ND. apply NoDup_remove_2 in ND. intros Hi. apply ND. apply in_or_app. now left. }
    rewrite (zset_notin_app cb n []) in H by assumption.
    destruct (gcopy_row keep f h (cb ++ [(n, [])]) n r) as [[h1 l]|] eqn:Row; [|discriminate].
    rewrite (zset_notin_app cb n l) in H by assumption.
    assert (zget adj n = Some r) as Hr by (apply Src; apply in_or_app; right; now left).
    assert (forall m rf, In (m, rf) r -> aslot adj n m = Some rf) as Sl.
    { intros m rf Hi. unfold aslot. rewrite Hr. apply In_zget_nodup; [|assumption]. destruct Hnd as [_ Rw]. eapply Rw; eauto. }
    destruct (gcopy_row_spec (cb ++ [(n, [])]) n r h h1 l X) as [X1 [F1 A1]]; [| | |exact Row|].
    { intros m Hm. apply K. rewrite keys_app in *. cbn in *. apply in_app_or in Hm. apply in_or_app.
      destruct Hm as [Hm|[Hm|[]]]; [left; now rewrite <- Kc | right; left; assumption]. }
    { intros m rf Hi. apply Hold. eapply aslot_arefs. eapply Sl; eauto. }
    { intros m rf rowm rf' Hi Hz Hn. rewrite zget_app in Hz. destruct (zget cb m) as [rw|] eqn:Em.
      - inversion Hz; subst rw.
        destruct (F2_zget_r _ (rrel_k h) _ _ F m rowm Em) as [rsrc [Hd [_ Fr]]]. cbn [snd] in Fr.
        destruct (F2_zget_r _ (erel_k h) _ _ Fr n rf' Hn) as [rfs [Hf Er]].
        rewrite zget_filter_key in Hf. destruct (keep n); [|discriminate].
        assert (zget adj m = Some rsrc) as Hm. { apply Src. apply in_or_app. left. now apply zget_In. }
        assert (aslot adj m n = Some rfs) as S1 by (unfold aslot; now rewrite Hm).
        pose proof (Hsym _ _ _ (Sl _ _ Hi)) as S2. rewrite S1 in S2. inversion S2; subst rfs.
        destruct Er as [_ [B C]]. split; [reflexivity|]. split; assumption.
      - cbn in Hz. destruct (m =? n); [|discriminate]. inversion Hz; subst. discriminate. }
    assert (done ++ (n, r) :: rows = (done ++ [(n, r)]) ++ rows) as EA by (rewrite <- app_assoc; reflexivity).
    rewrite EA in Src, ND, K. rewrite EA.
    apply (IH (done ++ [(n, r)]) h1 (cb ++ [(n, l)]) h' cb'); try assumption.
    split; [eapply hext_trans; eauto|]. split.
    + apply Forall2_app; [eapply Forall2_impl; [|exact F]; intros a b; now apply rrel_mono|].
      constructor; [|constructor]. split; [reflexivity | exact F1].
    + intros x y r1 r2. rewrite !aslot_snoc. destruct (zget cb x) as [rwx|] eqn:Ex, (zget cb y) as [rwy|] eqn:Ey.
      * intros H1 H2. apply (J x y r1 r2); unfold aslot; [now rewrite Ex | now rewrite Ey].
      * destruct (Z.eqb_spec y n) as [->|]; [|discriminate]. intros H1 H2. apply zget_In in H2. apply A1 in H2.
        rewrite zget_app, Ex in H2. destruct H2 as [[rowm [E E2]]|E]; [|discriminate]. inversion E; subst. congruence.
      * destruct (Z.eqb_spec x n) as [->|]; [|discriminate]. intros H1 H2. apply zget_In in H1. apply A1 in H1.
        rewrite zget_app, Ey in H1. destruct H1 as [[rowm [E E2]]|E]; [|discriminate]. inversion E; subst. congruence.
      * destruct (Z.eqb_spec x n) as [->|]; [|discriminate]. destruct (Z.eqb_spec y n) as [->|]; [|discriminate]. congruence.
Qed.

(* ---- consequences for a complete run *)
Variable rows : adjacency.
Hypothesis Hsrc : forall n r, In (n, r) rows -> zget adj n = Some r.
Hypothesis Hrnd : NoDup (keys rows).
Hypothesis Hkeep : forall n, In n (keys rows) -> keep n = true.
Hypothesis Hclosed : forall n r m rf, In (n, r) rows -> In (m, rf) r -> keep m = true -> In m (keys rows).
Hypothesis Hloop : forall n, aslot adj n n = None.
Variables (h' : hp) (cb' : adjacency).
Hypothesis Hrun : gcopy_rows keep f h0 [] rows = Ok (h', cb').

Lemma gcopy_cinv : cinv h' rows cb'.
Proof.
  apply (gcopy_rows_spec rows [] h0 [] h' cb'); auto.
  split; [apply hext_refl|]. split; [constructor|]. intros x y r1 r2 H. unfold aslot in H. cbn in H. discriminate.
Qed.
Lemma gcopy_hext : hext h0 h'.
Proof. apply gcopy_cinv. Qed.
Lemma gcopy_keys : keys cb' = keys rows.
Proof. destruct gcopy_cinv as [_ [F _]]. eapply F2_keys; [apply rrel_k | exact F]. Qed.
Lemma gcopy_fw x y r' : aslot cb' x y = Some r' ->
  exists r c c', aslot adj x y = Some r /\ keep y = true /\ hget h0 r = Some c /\ f c = Ok c' /\ hget h' r' = Some c' /\
                 h_next h0 <= r' < h_next h' /\ In x (keys rows).
Proof.
  intros H. destruct gcopy_cinv as [_ [F _]]. apply aslot_row in H. destruct H as [rw [H1 H2]].
  destruct (F2_zget_r _ (rrel_k h') _ _ F x rw H1) as [rsrc [Hd [_ Fr]]]. cbn [snd] in Fr.
  destruct (F2_zget_r _ (erel_k h') _ _ Fr y r' H2) as [rfs [Hf [_ [B [c [c' [C1 [C2 C3]]]]]]]].
  rewrite zget_filter_key in Hf. destruct (keep y) eqn:Ky; [|discriminate]. exists rfs, c, c'. cbn [snd] in *.
  split; [|repeat split; auto; try lia].
  - unfold aslot. rewrite (Hsrc x rsrc); [assumption|]. now apply zget_In.
  - eapply zget_In_keys; eauto.
Qed.
Lemma gcopy_bw x y r : In x (keys rows) -> aslot adj x y = Some r -> keep y = true -> exists r', aslot cb' x y = Some r'.
Proof.
  intros Hx H Ky. destruct gcopy_cinv as [_ [F _]]. apply keys_In_zget in Hx. destruct Hx as [rsrc Hd].
  destruct (F2_zget_l _ (rrel_k h') _ _ F x rsrc Hd) as [rw [H1 [_ Fr]]]. cbn [snd] in Fr.
  assert (zget adj x = Some rsrc) as Hz. { apply Hsrc. now apply zget_In. }
  unfold aslot in H. rewrite Hz in H.
  assert (zget (filter (fun mr => keep (fst mr)) rsrc) y = Some r) as Hf by (rewrite zget_filter_key, Ky; exact H).
  destruct (F2_zget_l _ (erel_k h') _ _ Fr y r Hf) as [r' [H2 _]]. exists r'. unfold aslot. now rewrite H1.
Qed.
Lemma gcopy_nd : nd cb'.
Proof.
  split; [rewrite gcopy_keys; exact Hrnd|]. intros x rw H1. destruct gcopy_cinv as [_ [F _]].
  destruct (F2_zget_r _ (rrel_k h') _ _ F x rw H1) as [rsrc [Hd [_ Fr]]]. cbn [snd] in Fr.
  rewrite (F2_keys _ (erel_k h') _ _ Fr). apply NoDup_keys_filter. destruct Hnd as [_ Rw]. apply (Rw x). apply Hsrc. now apply zget_In.
Qed.
Lemma gcopy_sym x y r' : aslot cb' x y = Some r' -> aslot cb' y x = Some r'.
Proof.
  intros H. destruct (gcopy_fw _ _ _ H) as [r [c [c' [S [Ky [_ [_ [_ [_ Hx]]]]]]]]].
  assert (In y (keys rows)) as Hy.
  { apply keys_In_zget in Hx. destruct Hx as [rsrc Hd]. apply zget_In in Hd. pose proof (Hsrc _ _ Hd) as Hz.
    unfold aslot in S. rewrite Hz in S. apply zget_In in S. eapply Hclosed; eauto. }
  destruct (gcopy_bw y x r Hy (Hsym _ _ _ S) (Hkeep _ Hx)) as [r2 H2].
  destruct gcopy_cinv as [_ [_ J]]. rewrite H2. f_equal. symmetry. eapply J; eauto.
Qed.
Lemma gcopy_loop x : aslot cb' x x = None.
Proof.
  destruct (aslot cb' x x) as [r'|] eqn:E; [|reflexivity]. destruct (gcopy_fw _ _ _ E) as [r [c [c' [S _]]]]. rewrite Hloop in S. discriminate.
Qed.
Lemma gcopy_wfa atoms' : keys atoms' = keys rows -> wfa h' atoms' cb'.
Proof.
  intros Ka. constructor.
  - now rewrite gcopy_keys.
  - apply gcopy_nd.
  - apply gcopy_sym.
  - apply gcopy_loop.
  - intros r' H. destruct (arefs_aslot _ _ gcopy_nd H) as [x [y S]]. destruct (gcopy_fw _ _ _ S) as [r [c [c' [_ [_ [_ [_ [G _]]]]]]]]. eauto.
  - intros r' H. destruct (arefs_aslot _ _ gcopy_nd H) as [x [y S]]. destruct (gcopy_fw _ _ _ S) as [r [c [c' [_ [_ [_ [_ [_ [B _]]]]]]]]]. lia.
Qed.
Lemma gcopy_fresh r' : In r' (arefs cb') -> h_next h0 <= r'.
Proof.
  intros H. destruct (arefs_aslot _ _ gcopy_nd H) as [x [y S]]. destruct (gcopy_fw _ _ _ S) as [r [c [c' [_ [_ [_ [_ [_ [B _]]]]]]]]]. lia.
Qed.
End GCopy.

(* a full copy (every neighbour kept, cells copied unchanged) shows the same rows *)
Definition rowview (h : hp) (nr : Z * list (Z * ref)) : Z * list (Z * option bcell) :=
  (fst nr, map (fun mr => (fst mr, hget h (snd mr))) (snd nr)).
Lemma filter_all {A} (p : A -> bool) l : (forall x, p x = true) -> filter p l = l.
Proof. intros H. induction l as [|a r IH]; cbn; [reflexivity|]. now rewrite H, IH. Qed.
Lemma gcopy_view keep f h0 h' rows cb' :
  (forall m, keep m = true) -> (forall c c', f c = Ok c' -> c' = c) ->
  Forall2 (rrel keep f h0 h') rows cb' -> map (rowview h') cb' = map (rowview h0) rows.
Proof.
  intros Ka Hf. induction 1 as [|[n r] [n' r'] a b [E F] _ IH]; cbn; [reflexivity|]. cbn in E, F. subst. rewrite IH. f_equal.
  unfold rowview; cbn. f_equal. rewrite filter_all in F by (intros; apply Ka). clear -F Hf.
  induction F as [|[m rf] [m' rf'] t t' [E [_ [c [c' [H1 [H2 H3]]]]]] _ IH]; cbn; [reflexivity|]. cbn in *. subst.
  rewrite IH. f_equal. apply Hf in H2. subst. now rewrite H1, H3.
Qed.
