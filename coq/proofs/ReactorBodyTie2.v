(* C16 (round 4): TIE BY TRANSLATION, second function.  Gen.ReactorBody.g_patcher_keep is the text of BaseReactor._patcher
   from `patched_atoms = set(new)` to the end of `for n, bs in sbonds.items()` (the atoms the template does not name and the
   bonds that survive, with the stereo bookkeeping), translated statement by statement from /repo on every run.  It is proved
   to compute, for ALL inputs, what the last two folds of the hand-written Model.Reactor.patcher compute (same exceptions; the
   atoms up to the stereo label, which the hand model does not carry), and the label it stores for an untouched atom is the
   hand-written Model.ReactorStage.untouched_label. *)
From Coq Require Import ZArith List Bool Lia.
From Model Require Import PyBase Graph Reactor ReactorStage.
From Gen Require Import ReactorBody.
From Proofs Require Import ReactorProofs ReactorBodyTie.
Import ListNotations.
Open Scope Z_scope.

Definition erase_stereo (atoms : list (Z * atom)) : list (Z * atom) := map (fun na => (fst na, set_a_stereo (snd na) None)) atoms.

Lemma erase_zset atoms n a : erase_stereo (zset atoms n a) = zset (erase_stereo atoms) n (set_a_stereo a None).
Proof.
  induction atoms as [|[k v] r IH]; simpl; [reflexivity|].
  destruct (n =? k); simpl; [reflexivity|]. rewrite IH. reflexivity.
Qed.

Lemma zset_zset {V} (d : list (Z * V)) n a b : zset (zset d n a) n b = zset d n b.
Proof.
  induction d as [|[k v] r IH]; simpl.
  - rewrite Z.eqb_refl. reflexivity.
  - destruct (n =? k) eqn:E; simpl.
    + rewrite Z.eqb_refl. reflexivity.
    + rewrite E, IH. reflexivity.
Qed.

Lemma zmem_keys_zget {V} (d : list (Z * V)) n : zmem n (keys d) = match zget d n with Some _ => true | None => false end.
Proof.
  destruct (zget d n) eqn:E.
  - apply zmem_In. eapply zget_Some_key; eassumption.
  - apply zmem_false. apply zget_None_key. assumption.
Qed.

(* ---------- first loop: for n, sa in satoms.items() ---------- *)
Notation A3 := (list (Z * atom) * list (Z * list (Z * bond)) * list Z)%type (only parsing).

Lemma atoms_loop_gen (F : A3 -> Z * atom -> pyres A3) (P del : list Z) :
  (forall ng nh nb sts na, erase_stereo ng = erase_stereo nh ->
     exists ng' sts', F (ng, nb, sts) na = Ok (ng', snd (keep_atom P del (nh, nb) na), sts') /\
                      erase_stereo ng' = erase_stereo (fst (keep_atom P del (nh, nb) na))) ->
  forall l ng nh nb sts, erase_stereo ng = erase_stereo nh ->
     exists ng' sts', fold_res F l (ng, nb, sts) = Ok (ng', snd (fold_left (keep_atom P del) l (nh, nb)), sts') /\
                      erase_stereo ng' = erase_stereo (fst (fold_left (keep_atom P del) l (nh, nb))).
Proof.
  intros Hstep. induction l as [|na r IH]; intros ng nh nb sts He; cbn [fold_res fold_left].
  - exists ng, sts. split; [reflexivity|assumption].
  - destruct (Hstep ng nh nb sts na He) as (ng' & sts' & HF & He'). rewrite HF.
    destruct (keep_atom P del (nh, nb) na) as [nh' nb'] eqn:EK. cbn [fst snd] in *.
    apply IH. assumption.
Qed.

(* ---------- second loop: a fold whose state carries an extra component the hand model does not have ---------- *)
Lemma bonds_loop_gen {X E} (F : list (Z * list (Z * bond)) * E -> X -> pyres (list (Z * list (Z * bond)) * E))
      (H : list (Z * list (Z * bond)) -> X -> pyres (list (Z * list (Z * bond)))) (l : list X) :
  (forall adj sb x, In x l -> match F (adj, sb) x with Ok (adj', _) => H adj x = Ok adj' | Err e => H adj x = Err e end) ->
  forall adj sb, match fold_res F l (adj, sb) with Ok (adj', _) => fold_res H l adj = Ok adj' | Err e => fold_res H l adj = Err e end.
Proof.
  induction l as [|x r IH]; intros Hstep adj sb; cbn [fold_res]; [reflexivity|].
  specialize (Hstep adj sb x (or_introl eq_refl)) as Hx.
  destruct (F (adj, sb) x) as [[adj' sb']|e]; rewrite Hx; [|reflexivity].
  apply IH. intros; apply Hstep; right; assumption.
Qed.

(* ---------- the tie ---------- *)
Theorem g_patcher_keep_is_model : forall satoms sbonds del tetra natoms nbonds sts stb,
  let kept := fold_left (keep_atom (keys natoms) del) satoms (natoms, nbonds) in
  match g_patcher_keep satoms sbonds del tetra natoms nbonds sts stb with
  | Ok (natoms', nbonds', _, _) =>
      erase_stereo natoms' = erase_stereo (fst kept) /\
      fold_res (keep_bonds_of (keys natoms) del) sbonds (snd kept) = Ok nbonds'
  | Err e => fold_res (keep_bonds_of (keys natoms) del) sbonds (snd kept) = Err e
  end.
Proof.
  intros satoms sbonds del tetra natoms nbonds sts stb kept. unfold g_patcher_keep. cbv zeta. unfold py_set, py_for.
  set (P := keys natoms) in *.
  match goal with |- context [fold_res ?F satoms (natoms, nbonds, sts)] =>
    destruct (atoms_loop_gen F P del) with (l := satoms) (ng := natoms) (nh := natoms) (nb := nbonds) (sts := sts)
      as (ng' & sts' & HF & He) end.
  { intros ng nh nb sts0 [n sa] Heq. unfold keep_atom. cbn [fst snd]. rewrite zmem_nodup.
    destruct (zmem n P); cbn [negb andb orb].
    - exists ng, sts0. split; [reflexivity|assumption].
    - destruct (zmem n del); cbn [negb andb orb].
      + exists ng, sts0. split; [reflexivity|assumption].
      + destruct (py_is_some (a_stereo sa)); [destruct (zmem n tetra)|]; eexists; eexists; (split; [reflexivity|]);
          cbn [fst snd]; rewrite ?zset_zset, !erase_zset, Heq; reflexivity. }
  { reflexivity. }
  rewrite HF. fold kept in HF, He |- *.
  match goal with |- context [fold_res ?F sbonds (?a, stb)] =>
    pose proof (bonds_loop_gen F (keep_bonds_of P del) sbonds) as HB end.
  match type of HB with ?Hyp -> _ => assert (Hs : Hyp) end.
  { intros adj sb [n bs] _. unfold keep_bonds_of. cbn [fst snd].
    destruct (zmem n del); [reflexivity|].
    match goal with |- context [fold_res ?F bs (adj, sb)] =>
      pose proof (bonds_loop_gen F (fun adj0 mb => let m := fst mb in
                               if zmem m del || (zmem n P && zmem m P) then Ok adj0 else link adj0 n m (plain (snd mb))) bs) as HI end.
    match type of HI with ?Hyp -> _ => assert (Hi : Hyp) end.
    { intros adj0 sb0 [m b] _. cbn [fst snd]. rewrite !zmem_nodup.
      destruct (zmem m del || zmem n P && zmem m P); [reflexivity|]. unfold link.
      destruct (zget adj0 m) as [lm|]; [|reflexivity]. rewrite zmem_keys_zget.
      destruct (zget lm n) as [v|]; destruct (zget adj0 n) as [ln|]; try reflexivity.
      destruct (py_is_some (b_stereo b)); reflexivity. }
    specialize (HI Hi adj sb).
    destruct (fold_res _ bs (adj, sb)) as [[adj' sb']|e]; exact HI. }
  specialize (HB Hs (snd kept) stb).
  destruct (fold_res _ sbonds (snd kept, stb)) as [[adj' sb']|e]; [split; [exact He | exact HB] | exact HB].
Qed.

(* ---------- the label stored for an atom the template does not touch ("for tetrahedrons label can be stored as is") ---------- *)
(* the atoms loop alone, as the generated text runs it: n untouched -> natoms'[n] = copy of sa with the label of
   Model.ReactorStage.untouched_label *)
Lemma zget_erase atoms n : zget (erase_stereo atoms) n = option_map (fun a => set_a_stereo a None) (zget atoms n).
Proof. induction atoms as [|[k v] r IH]; simpl; [reflexivity|]. destruct (n =? k); [reflexivity|assumption]. Qed.

(* stepwise description of the generated atoms loop: other slots untouched; the slot of an unpatched, undeleted atom gets
   the copy with the label stored as is for tetrahedrons *)
Definition stored (tetra : list Z) (n : Z) (sa : atom) : atom :=
  set_a_stereo (plain_atom sa) (if zmem n tetra then a_stereo sa else None).

Lemma atoms_loop_label (F : A3 -> Z * atom -> pyres A3) (P del tetra : list Z) :
  (forall ng nb sts k a, exists ng' nb' sts', F (ng, nb, sts) (k, a) = Ok (ng', nb', sts') /\
      (forall x, x <> k -> zget ng' x = zget ng x) /\
      (zmem k P = false -> zmem k del = false -> zget ng' k = Some (stored tetra k a))) ->
  forall l ng nb sts, NoDup (keys l) ->
    exists ng' nb' sts', fold_res F l (ng, nb, sts) = Ok (ng', nb', sts') /\
      forall n, (forall sa, In (n, sa) l -> zmem n P = false -> zmem n del = false -> zget ng' n = Some (stored tetra n sa)) /\
                (~ In n (keys l) -> zget ng' n = zget ng n).
Proof.
  intros Hstep. induction l as [|[k a] r IH]; intros ng nb sts Hnd; cbn [fold_res].
  - exists ng, nb, sts. split; [reflexivity|]. intros n. split; [intros sa []|reflexivity].
  - destruct (Hstep ng nb sts k a) as (ng1 & nb1 & sts1 & HF & Hother & Hk). rewrite HF.
    inversion Hnd as [|? ? Hnotin Hnd']; subst.
    destruct (IH ng1 nb1 sts1 Hnd') as (ng' & nb' & sts' & HR & Hall). exists ng', nb', sts'. split; [exact HR|].
    intros n. destruct (Hall n) as [Hin Hout]. split.
    + intros sa [Heq|Hin'] HP Hd.
      * inversion Heq; subst. rewrite Hout by exact Hnotin. apply Hk; assumption.
      * apply Hin; assumption.
    + intros Hn. cbn [keys map fst] in Hn. rewrite Hout by (intro; apply Hn; right; assumption).
      apply Hother. intro; subst. apply Hn. left; reflexivity.
Qed.

Theorem g_patcher_keep_label : forall satoms sbonds del tetra natoms nbonds sts stb natoms' nbonds' sts' stb' n sa,
  g_patcher_keep satoms sbonds del tetra natoms nbonds sts stb = Ok (natoms', nbonds', sts', stb') ->
  NoDup (keys satoms) -> In (n, sa) satoms -> ~ In n (keys natoms) -> ~ In n del ->
  zget natoms' n = Some (stored tetra n sa).
Proof.
  intros satoms sbonds del tetra natoms nbonds sts stb natoms' nbonds' sts' stb' n sa Hrun Hnd Hin HnP Hnd'.
  unfold g_patcher_keep in Hrun. cbv zeta in Hrun. unfold py_set, py_for in Hrun.
  match type of Hrun with context [fold_res ?F satoms (natoms, nbonds, sts)] =>
    destruct (atoms_loop_label F (keys natoms) del tetra) with (l := satoms) (ng := natoms) (nb := nbonds) (sts := sts)
      as (ng' & nb' & sts1 & HF & Hall) end.
  { intros ng nb sts0 k a. rewrite zmem_nodup. unfold stored.
    destruct (zmem k (keys natoms)) eqn:EP; cbn [negb andb].
    - exists ng, nb, sts0. split; [reflexivity|]. split; [reflexivity|discriminate].
    - destruct (zmem k del) eqn:ED; cbn [negb andb].
      + exists ng, nb, sts0. split; [reflexivity|]. split; [reflexivity|discriminate].
      + destruct (py_is_some (a_stereo a)) eqn:ES; [destruct (zmem k tetra)|]; eexists; eexists; eexists; (split; [reflexivity|]);
          (split; [intros x Hx; rewrite ?zset_zset; apply zget_zset_other; assumption
                  | intros _ _; rewrite ?zset_zset, zget_zset_same; try reflexivity]).
        destruct (a_stereo a); [discriminate|]. destruct (zmem k tetra); reflexivity. }
  { assumption. }
  rewrite HF in Hrun.
  destruct (fold_res _ sbonds (nb', stb)) as [[adj' sb']|e]; [|discriminate].
  inversion Hrun; subst. destruct (Hall n) as [Hlab _]. apply Hlab.
  - assumption.
  - apply zmem_false; assumption.
  - apply zmem_false; assumption.
Qed.

(* in the vocabulary of the hand model of the stereo tie: the label the translated loop stores for an untouched atom is
   Model.ReactorStage.untouched_label (which the existing theorems C16_untouched_centre_same_configuration etc. are about) *)
Theorem g_patcher_keep_untouched_label : forall g sbonds del tetra natoms nbonds sts stb natoms' nbonds' sts' stb' n,
  g_patcher_keep (m_atoms g) sbonds del tetra natoms nbonds sts stb = Ok (natoms', nbonds', sts', stb') ->
  NoDup (ids g) -> In n (ids g) -> ~ In n (keys natoms) -> ~ In n del ->
  option_map a_stereo (zget natoms' n) = Some (untouched_label tetra g n).
Proof.
  intros g sbonds del tetra natoms nbonds sts stb natoms' nbonds' sts' stb' n Hrun Hnd Hin HnP Hd.
  destruct (zget_key_Some (m_atoms g) n Hin) as [sa Hsa].
  rewrite (g_patcher_keep_label _ _ _ _ _ _ _ _ _ _ _ _ n sa Hrun Hnd (zget_Some_In _ _ _ Hsa) HnP Hd).
  unfold untouched_label, atom_of. rewrite Hsa. unfold stored. cbn. reflexivity.
Qed.

(* ---------- the translated loops inside the hand-written patcher ---------- *)
Definition all_plain (atoms : list (Z * atom)) : Prop := forall na, In na atoms -> a_stereo (snd na) = None.

Lemma all_plain_zset atoms n a : all_plain atoms -> a_stereo a = None -> all_plain (zset atoms n a).
Proof.
  induction atoms as [|[k v] r IH]; intros Hall Ha; simpl.
  - intros na [<-|[]]. exact Ha.
  - destruct (n =? k).
    + intros na [<-|Hin]; [exact Ha|]. apply Hall. right; assumption.
    + intros na [<-|Hin]; [apply (Hall (k, v)); left; reflexivity|].
      apply IH; [intros x Hx; apply Hall; right; assumption | assumption | assumption].
Qed.

Lemma erase_all_plain atoms : all_plain atoms -> erase_stereo atoms = atoms.
Proof.
  induction atoms as [|[k v] r IH]; intros Hall; simpl; [reflexivity|].
  rewrite IH by (intros x Hx; apply Hall; right; assumption).
  specialize (Hall (k, v) (or_introl eq_refl)). cbn in Hall. destruct v; cbn in *. subst. reflexivity.
Qed.

Lemma patch_atoms_plain g : forall l s s', fold_res (patch_atom g) l s = Ok s' -> all_plain (p_atoms s) -> all_plain (p_atoms s').
Proof.
  induction l as [|[n ra] r IH]; intros s s' H Hall; cbn [fold_res] in H.
  - inversion H; subst; assumption.
  - destruct (patch_atom g s (n, ra)) as [s1|e] eqn:E; [|discriminate]. apply (IH s1 s' H).
    unfold patch_atom in E. destruct ra as [chg rad|num iso chg rad h].
    + destruct (truthy_get (p_map s) n) as [m|]; [|discriminate]. destruct (atom_of g m); [|discriminate].
      inversion E; subst. cbn. apply all_plain_zset; [assumption|reflexivity].
    + destruct (truthy_get (p_map s) n) as [m|].
      * destruct (atom_of g m); [|discriminate]. inversion E; subst. cbn. apply all_plain_zset; [assumption|reflexivity].
      * inversion E; subst. cbn. apply all_plain_zset; [assumption|reflexivity].
Qed.

Lemma keep_atoms_plain P del : forall l st, all_plain (fst st) -> all_plain (fst (fold_left (keep_atom P del) l st)).
Proof.
  induction l as [|na r IH]; intros st Hall; cbn [fold_left]; [assumption|].
  apply IH. unfold keep_atom. destruct (zmem (fst na) P || zmem (fst na) del); [assumption|].
  cbn [fst]. apply all_plain_zset; [assumption|reflexivity].
Qed.

(* Model.Reactor.patcher IS: its first two folds (replacement atoms, replacement bonds), then the TRANSLATED text of the
   two loops over the structure; whatever the tetrahedron registry and the stereo lists are *)
Theorem patcher_runs_translated_loops : forall g mapping tpl del tetra sts stb,
  patcher g mapping tpl del =
  match zmax_list (ids g) with
  | None => Err ValueError
  | Some mx =>
      match fold_res (patch_atom g) (t_atoms tpl) (mkP [] [] mapping mx) with
      | Err e => Err e
      | Ok s =>
          match fold_res (patch_bonds_of (p_map s)) (t_bonds tpl) (p_adj s) with
          | Err e => Err e
          | Ok adj2 =>
              match g_patcher_keep (m_atoms g) (m_adj g) del tetra (p_atoms s) adj2 sts stb with
              | Err e => Err e
              | Ok (atoms', adj', _, _) => Ok (mkMol (erase_stereo atoms') adj', p_map s)
              end
          end
      end
  end.
Proof.
  intros g mapping tpl del tetra sts stb. unfold patcher.
  destruct (zmax_list (ids g)) as [mx|]; [|reflexivity].
  destruct (fold_res (patch_atom g) (t_atoms tpl) (mkP [] [] mapping mx)) as [s|e] eqn:E1; [|reflexivity].
  destruct (fold_res (patch_bonds_of (p_map s)) (t_bonds tpl) (p_adj s)) as [adj2|e]; [|reflexivity].
  pose proof (g_patcher_keep_is_model (m_atoms g) (m_adj g) del tetra (p_atoms s) adj2 sts stb) as HT. cbv zeta in HT.
  assert (Hplain : all_plain (fst (fold_left (keep_atom (keys (p_atoms s)) del) (m_atoms g) (p_atoms s, adj2)))).
  { apply keep_atoms_plain. cbn [fst]. apply (patch_atoms_plain g _ _ _ E1). intros na []. }
  destruct (fold_left (keep_atom (keys (p_atoms s)) del) (m_atoms g) (p_atoms s, adj2)) as [atoms3 adj3]. cbn [fst snd] in *.
  destruct (g_patcher_keep (m_atoms g) (m_adj g) del tetra (p_atoms s) adj2 sts stb) as [[[[atoms' adj'] s1] s2]|e].
  - destruct HT as [He HB]. rewrite HB, He, (erase_all_plain atoms3 Hplain). reflexivity.
  - rewrite HT. reflexivity.
Qed.

(* non-vacuity: structure C(1)-C(2, label true, tetrahedron)-O(3, label false, not in the registry)-N(4), template names atom 1
   only, atom 4 deleted: atom 2 keeps its label as is, atom 3 is queued in stereo_atoms, the bond 2-3 (stereo label) in
   stereo_bonds; with an adjacency that lacks the entry of atom 3 the loop raises KeyError as nbonds[m] does *)
Definition ex_satoms : list (Z * atom) :=
  [(1, mkAtom 6 None 0 false (Some 3) None); (2, mkAtom 6 None 0 false (Some 1) (Some true));
   (3, mkAtom 8 None 0 false (Some 0) (Some false)); (4, mkAtom 7 None 0 false (Some 2) None)].
Definition ex_sbonds : list (Z * list (Z * bond)) :=
  [(1, [(2, mkBond 1 None)]); (2, [(1, mkBond 1 None); (3, mkBond 2 (Some true))]);
   (3, [(2, mkBond 2 (Some true)); (4, mkBond 1 None)]); (4, [(3, mkBond 1 None)])].
Lemma g_patcher_keep_example :
  g_patcher_keep ex_satoms ex_sbonds [4] [2] [(1, mkAtom 6 None 1 false None None)] [(1, [])] [] [] =
    Ok ([(1, mkAtom 6 None 1 false None None); (2, mkAtom 6 None 0 false (Some 1) (Some true)); (3, mkAtom 8 None 0 false (Some 0) None)],
        [(1, [(2, mkBond 1 None)]); (2, [(1, mkBond 1 None); (3, mkBond 2 None)]); (3, [(2, mkBond 2 None)])],
        [3], [(2, 3)]) /\
  g_patcher_keep ex_satoms ex_sbonds [3; 4] [2] [(1, mkAtom 6 None 1 false None None)] [] [] [] = Err KeyError.
Proof. vm_compute. split; reflexivity. Qed.
