(* C07: top-level statements -- matcher = induced embeddings for compiled queries, automorphism filter, the wrapper
   Isomorphism._get_mapping (components, scope), operators. *)
From Coq Require Import ZArith List Bool Lia Permutation.
From Model Require Import PyBase Iso.
From Proofs Require Import IsoLazyProofs IsoMatchProofs IsoCompileProofs.
Import ListNotations.
Local Open Scope Z_scope.

(* ---------- frozenset equality ---------- *)
Lemma fs_eqb_iff a b : fs_eqb a b = true <-> (forall x, In x a <-> In x b).
Proof. apply same_keys_z_iff. Qed.
Lemma fs_eqb_refl a : fs_eqb a a = true.
Proof. apply fs_eqb_iff. tauto. Qed.
Lemma fs_eqb_sym a b : fs_eqb a b = fs_eqb b a.
Proof.
  destruct (fs_eqb a b) eqn:E1, (fs_eqb b a) eqn:E2; try reflexivity.
  - assert (fs_eqb b a = true) by (apply fs_eqb_iff; intros x; symmetry; apply (proj1 (fs_eqb_iff a b) E1)). congruence.
  - assert (fs_eqb a b = true) by (apply fs_eqb_iff; intros x; symmetry; apply (proj1 (fs_eqb_iff b a) E2)). congruence.
Qed.

(* ---------- the automorphism filter ---------- *)
Lemma auto_filter_spec : forall ms seen,
  (forall m, In m (auto_filter true seen ms) -> In m ms /\ existsb (fs_eqb (image m)) seen = false) /\
  (forall m, In m ms -> existsb (fs_eqb (image m)) seen = true \/
                        exists m', In m' (auto_filter true seen ms) /\ fs_eqb (image m) (image m') = true) /\
  ForallOrdPairs (fun a b => fs_eqb (image a) (image b) = false) (auto_filter true seen ms).
Proof.
  induction ms as [|m r IH]; intros seen.
  - cbn. split; [intros ? []|]. split; [intros ? []|]. constructor.
  - cbn [auto_filter]. destruct (existsb (fs_eqb (image m)) seen) eqn:Es.
    + destruct (IH seen) as (I1 & I2 & I3). split; [|split; [|exact I3]].
      * intros m' H. destruct (I1 m' H). split; [right|]; assumption.
      * intros m' [<-|H]; [left; exact Es | apply I2; exact H].
    + destruct (IH (image m :: seen)) as (I1 & I2 & I3). split; [|split].
      * intros m' [<-|H]; [split; [left; reflexivity | exact Es]|].
        destruct (I1 m' H) as [Ha Hb]. cbn in Hb. apply orb_false_elim in Hb. split; [right; exact Ha | apply Hb].
      * intros m' [<-|H].
        -- right. exists m. split; [left; reflexivity | apply fs_eqb_refl].
        -- destruct (I2 m' H) as [Hs|(m2 & H2 & E2)].
           ++ cbn in Hs. apply orb_prop in Hs. destruct Hs as [Hs|Hs]; [|left; exact Hs].
              right. exists m. split; [left; reflexivity | exact Hs].
           ++ right. exists m2. split; [right; exact H2 | exact E2].
      * constructor; [|exact I3]. apply Forall_forall. intros m' H.
        destruct (I1 m' H) as [_ Hb]. cbn in Hb. apply orb_false_elim in Hb. rewrite fs_eqb_sym. apply Hb.
Qed.

(* with the filter: the retained mappings are among the found ones, every found mapping has a retained one with the
   same set of image atoms (none lost), no two retained mappings cover the same atoms; without it nothing is removed *)
Theorem automorphism_filter_exact : forall ms,
  (forall m, In m (auto_filter true [] ms) -> In m ms) /\
  (forall m, In m ms -> exists m', In m' (auto_filter true [] ms) /\ (forall y, In y (image m) <-> In y (image m'))) /\
  ForallOrdPairs (fun a b => ~ (forall y, In y (image a) <-> In y (image b))) (auto_filter true [] ms) /\
  auto_filter false [] ms = ms.
Proof.
  intros ms. destruct (auto_filter_spec ms []) as (I1 & I2 & I3). split; [|split; [|split]].
  - intros m H. apply I1. exact H.
  - intros m H. destruct (I2 m H) as [Hs|(m' & H' & E)]; [discriminate|]. exists m'. split; [exact H' | apply fs_eqb_iff; exact E].
  - clear I1 I2. induction I3 as [|a l Ha Hl IH].
    + constructor.
    + constructor; [|exact IH].
      apply Forall_forall. intros b' Hb E. rewrite Forall_forall in Ha. specialize (Ha b' Hb).
      apply fs_eqb_iff in E. congruence.
  - clear I1 I2 I3. generalize (@nil (list Z)). induction ms as [|m r IH]; intros s; [reflexivity|]. cbn. f_equal. apply IH.
Qed.

(* ---------- the matcher on the output of _compile_query ---------- *)
Section Exact.
  Variables QA A QB B : Type.
  Variable amatch : QA -> A -> bool.
  Variable bmatch : QB -> B -> bool.

  (* every yielded mapping is an induced embedding of the component into the scope, every such embedding is yielded,
     and it is yielded once *)
  Theorem matcher_exact : forall (q_atoms : list (Z * QA)) q_bonds (o_atoms : list (Z * A)) o_bonds comps clo scope,
    wf_adj q_atoms q_bonds -> wf_adj o_atoms o_bonds ->
    compile_query q_atoms q_bonds = Ok (comps, clo) ->
    forall c, In c comps ->
      NoDup (get_mapping amatch bmatch c clo o_atoms o_bonds scope) /\
      forall f, In f (get_mapping amatch bmatch c clo o_atoms o_bonds scope) <->
                induced_embedding amatch bmatch q_atoms q_bonds o_atoms o_bonds (map fst4 c) scope f.
  Proof.
    intros q_atoms q_bonds o_atoms o_bonds comps clo scope Wq Wo Hc c Hin.
    destruct (compile_query_spec _ _ _ _ Wq _ _ Hc) as (_ & Hl & _). destruct (Hl c Hin) as [Hne Hlin].
    split; [apply get_mapping_NoDup; exact Wo|]. intros f. split.
    - apply get_mapping_sound; assumption.
    - apply get_mapping_complete; assumption.
  Qed.
End Exact.

(* ---------- Isomorphism._get_mapping with a one-component pattern: target components and search scope ---------- *)
Section Single.
  Variables QA A QB B : Type.
  Variable amatch : QA -> A -> bool.
  Variable bmatch : QB -> B -> bool.
  Variable q_atoms : list (Z * QA).
  Variable q_bonds : list (Z * list (Z * QB)).
  Variable o_atoms : list (Z * A).
  Variable o_bonds : list (Z * list (Z * B)).
  Variable tcomps : list (list Z).
  Hypothesis wf_q : wf_adj q_atoms q_bonds.
  Hypothesis wf_o : wf_adj o_atoms o_bonds.
  (* other.connected_components: every atom is in a component, no bond leaves a component, components are disjoint *)
  Definition tcomps_ok : Prop :=
    (forall y, In y (keys o_atoms) -> exists cand, In cand tcomps /\ In y cand) /\
    (forall cand y m, In cand tcomps -> In y cand -> In m (keys (adj_get o_bonds y)) -> In m cand) /\
    NoDup tcomps /\
    (forall c1 c2 y, In c1 tcomps -> In c2 tcomps -> In y c1 -> In y c2 -> c1 = c2).
  Hypothesis tc_ok : tcomps_ok.

  Notation emb := (induced_embedding amatch bmatch q_atoms q_bonds o_atoms o_bonds).

  (* the atoms a search with this scope may use *)
  Definition scope_list (scope : option (list Z)) : list Z :=
    match scope with
    | Some s => filter (fun y => zmem y s) (keys o_atoms)
    | None => keys o_atoms
    end.

  Lemma emb_scope_mono comp sc1 sc2 f : emb comp sc1 f -> (forall y, In y (image f) -> In y sc2) -> emb comp sc2 f.
  Proof.
    intros (H1 & H2 & H3 & H4) Hs. unfold induced_embedding. split; [exact H1|]. split; [exact H2|]. split; [|exact H4].
    intros x y Hxy. destruct (H3 x y Hxy) as [_ Hr]. split; [|exact Hr]. apply Hs. apply (in_map snd) in Hxy. exact Hxy.
  Qed.

  Lemma emb_image_atom comp sc f y : emb comp sc f -> In y (image f) -> In y (keys o_atoms) /\ In y sc.
  Proof.
    intros (_ & _ & H3 & _) Hy. unfold image in Hy. apply in_map_iff in Hy. destruct Hy as ([x y'] & E & Hxy). cbn in E. subst y'.
    destruct (H3 x y Hxy) as (Hs & qa & oa & _ & Ho & _). split; [apply zget_Some_key in Ho; exact Ho | exact Hs].
  Qed.

  (* a linearised (hence connected) pattern component is embedded into ONE target component *)
  Lemma conn_aux clo cand : forall rest pre (fpre frest : mapping),
    lin_ok q_atoms q_bonds clo pre rest -> pre <> [] -> In cand tcomps ->
    map fst fpre = pre -> map fst frest = map fst4 rest ->
    (forall x1 y1 x2 y2, In (x1, y1) (fpre ++ frest) -> In (x2, y2) (fpre ++ frest) ->
       match bond_get q_bonds x1 x2, bond_get o_bonds y1 y2 with
       | Some qb, Some ob => bmatch qb ob = true | None, None => True | _, _ => False end) ->
    (forall x y, In (x, y) fpre -> In y cand) ->
    forall x y, In (x, y) frest -> In y cand.
  Proof.
    induction rest as [|e rest IH]; intros pre fpre frest Hl Hp Hc Hk1 Hk2 Hpair Hpre x y Hxy.
    - destruct frest; [destruct Hxy | discriminate].
    - destruct (lin_ok_cons _ _ _ _ _ _ _ _ Hp Hl) as [He Hl']. destruct e as [[[s_n back] a] b]. cbn [fst4] in Hl'.
      destruct He as (_ & _ & (bk & bd & _ & _ & Hbk & Hbond) & _).
      destruct frest as [|[s yn] frest']; [discriminate|]. cbn [map fst fst4] in Hk2. injection Hk2 as -> Hk2.
      rewrite <- Hk1 in Hbk. apply in_map_iff in Hbk. destruct Hbk as ([bk' yb] & E & Hb). cbn in E. subst bk'.
      assert (Hyn : In yn cand).
      { assert (Hn1 : In (bk, yb) (fpre ++ (s_n, yn) :: frest')) by (apply in_or_app; left; exact Hb).
        assert (Hn2 : In (s_n, yn) (fpre ++ (s_n, yn) :: frest')) by (apply in_or_app; right; left; reflexivity).
        pose proof (Hpair bk yb s_n yn Hn1 Hn2) as P.
        rewrite Hbond in P. destruct (bond_get o_bonds yb yn) as [ob|] eqn:Eo; [|contradiction].
        destruct tc_ok as (_ & T2 & _). apply (T2 cand yb yn Hc (Hpre _ _ Hb)). unfold bond_get in Eo. apply zget_Some_key in Eo. exact Eo. }
      destruct Hxy as [E|Hxy]; [injection E as <- <-; exact Hyn|].
      refine (IH (pre ++ [s_n]) (fpre ++ [(s_n, yn)]) frest' _ _ _ _ _ _ _ x y Hxy); try assumption.
      + intros H. apply app_eq_nil in H. destruct H; discriminate.
      + rewrite map_app, Hk1. reflexivity.
      + intros x1 y1 x2 y2 H1 H2. apply Hpair; rewrite <- app_assoc in *; assumption.
      + intros x' y' H. apply in_app_or in H. destruct H as [H|[E|[]]]; [apply (Hpre _ _ H) | injection E as <- <-; exact Hyn].
  Qed.

  Lemma emb_in_one_component clo c sc f :
    c <> [] -> lin_ok q_atoms q_bonds clo [] c -> emb (map fst4 c) sc f ->
    exists cand, In cand tcomps /\ forall y, In y (image f) -> In y cand.
  Proof.
    intros Hc Hl E. destruct (first_entry _ _ _ _ _ c Hc Hl) as (s0 & a0 & rest & -> & _ & Hl').
    pose proof E as (Ek & _ & Eat & Epair). cbn [map fst4] in Ek.
    destruct f as [|[x y0] frest]; [discriminate|]. cbn in Ek. injection Ek as -> Ek.
    destruct (emb_image_atom _ _ _ y0 E (or_introl eq_refl)) as [Hy0 _].
    destruct tc_ok as (T1 & _). destruct (T1 y0 Hy0) as (cand & Hcand & Hin).
    exists cand. split; [exact Hcand|]. intros y Hy. cbn in Hy. destruct Hy as [<-|Hy]; [exact Hin|].
    unfold image in Hy. apply in_map_iff in Hy. destruct Hy as ([x y'] & E' & Hxy). cbn in E'. subst y'.
    refine (conn_aux clo cand rest [s0] [(s0, y0)] frest Hl' _ _ _ _ _ _ x y Hxy); try assumption; try discriminate; try reflexivity.
    intros x' y' [E'|[]]. injection E' as <- <-. exact Hin.
  Qed.

  Lemma restrict_spec scope cand s' :
    restrict scope cand = Some s' ->
    forall y, In y s' <-> In y cand /\ match scope with Some s => In y s | None => True end.
  Proof.
    unfold restrict. destruct scope as [s|].
    - destruct (filter (fun x => zmem x s) cand) eqn:Ef; [discriminate|]. intros E. injection E as <-.
      intros y. rewrite <- Ef, filter_In, zmem_In. tauto.
    - intros E. injection E as <-. tauto.
  Qed.

  Lemma restrict_some scope cand y :
    In y cand -> match scope with Some s => In y s | None => True end -> exists s', restrict scope cand = Some s'.
  Proof.
    unfold restrict. destruct scope as [s|]; eauto. intros Hc Hs.
    destruct (filter (fun x => zmem x s) cand) eqn:Ef; [|eauto].
    assert (In y (filter (fun x => zmem x s) cand)) by (apply filter_In; split; [exact Hc | apply zmem_In; exact Hs]).
    rewrite Ef in H. destruct H.
  Qed.

  (* one pattern component against one target component under a scope *)
  Lemma restricted_match_iff c clo scope cand (fi : mapping) :
    c <> [] -> lin_ok q_atoms q_bonds clo [] c -> In cand tcomps ->
    (exists s', restrict scope cand = Some s' /\ In fi (get_mapping amatch bmatch c clo o_atoms o_bonds s')) <->
    (emb (map fst4 c) (scope_list scope) fi /\ forall y, In y (image fi) -> In y cand).
  Proof.
    intros Hc Hl Hcand.
    assert (Hin_scope : forall y, In y (scope_list scope) <-> In y (keys o_atoms) /\ match scope with Some s => In y s | None => True end).
    { intros y. unfold scope_list. destruct scope as [s|]; [|tauto]. rewrite filter_In, zmem_In. tauto. }
    split.
    - intros (s' & Hr & Hf). pose proof (get_mapping_sound _ _ _ _ amatch bmatch _ _ clo _ _ s' wf_q wf_o c Hc Hl fi Hf) as E. split.
      + apply (emb_scope_mono _ s'); [exact E|]. intros y Hy. destruct (emb_image_atom _ _ _ y E Hy) as [Ha Hs].
        apply Hin_scope. split; [exact Ha|]. apply (restrict_spec _ _ _ Hr) in Hs. apply Hs.
      + intros y Hy. destruct (emb_image_atom _ _ _ y E Hy) as [_ Hs]. apply (restrict_spec _ _ _ Hr) in Hs. apply Hs.
    - intros (E & Him).
      assert (Hne : fi <> []) by (destruct E as (Ek & _); intros ->; destruct c; [congruence | discriminate]).
      destruct fi as [|[x0 y0] f']; [congruence|].
      assert (Hy0 : In y0 (image ((x0, y0) :: f'))) by (left; reflexivity).
      destruct (emb_image_atom _ _ _ y0 E Hy0) as [_ Hs0]. apply Hin_scope in Hs0. destruct Hs0 as [_ Hs0].
      destruct (restrict_some scope cand y0 (Him _ Hy0) Hs0) as [s' Er]. exists s'. split; [exact Er|].
      apply (get_mapping_complete _ _ _ _ amatch bmatch q_atoms q_bonds clo _ _ s' wf_o c Hc Hl).
      apply (emb_scope_mono _ (scope_list scope)); [exact E|]. intros y Hy.
      apply (restrict_spec _ _ _ Er). split; [apply Him; exact Hy|].
      destruct (emb_image_atom _ _ _ y E Hy) as [_ Hs]. apply Hin_scope in Hs. apply Hs.
  Qed.

  (* the stream of mappings before the automorphism filter *)
  Definition single_stream (c : list (lentry QA QB)) (clo : closures_t QB) (scope : option (list Z)) : list mapping :=
    flat_map (fun cand => match restrict scope cand with
                          | None => []
                          | Some s => get_mapping amatch bmatch c clo o_atoms o_bonds s
                          end) tcomps.

  Lemma iso_stream_single c clo scope :
    iso_stream amatch bmatch [c] clo o_atoms o_bonds tcomps scope = Ok (single_stream c clo scope).
  Proof. reflexivity. Qed.

  (* any scope (absent, empty, partial, with foreign numbers): exactly the embeddings whose image lies inside the scope, each once *)
  Theorem scope_exact : forall c clo scope,
    c <> [] -> lin_ok q_atoms q_bonds clo [] c ->
    NoDup (single_stream c clo scope) /\
    forall f, In f (single_stream c clo scope) <-> emb (map fst4 c) (scope_list scope) f.
  Proof.
    intros c clo scope Hc Hl.
    assert (Hin_scope : forall y, In y (scope_list scope) <-> In y (keys o_atoms) /\ match scope with Some s => In y s | None => True end).
    { intros y. unfold scope_list. destruct scope as [s|]; [|tauto]. rewrite filter_In, zmem_In. tauto. }
    assert (Hsound : forall cand s' f, In cand tcomps -> restrict scope cand = Some s' ->
                       In f (get_mapping amatch bmatch c clo o_atoms o_bonds s') ->
                       emb (map fst4 c) (scope_list scope) f /\ (forall y, In y (image f) -> In y cand) /\ f <> []).
    { intros cand s' f Hcand Hr Hf. pose proof (get_mapping_sound _ _ _ _ amatch bmatch _ _ clo _ _ s' wf_q wf_o c Hc Hl f Hf) as E.
      split; [|split].
      - apply (emb_scope_mono _ s'); [exact E|]. intros y Hy. destruct (emb_image_atom _ _ _ y E Hy) as [Ha Hs].
        apply Hin_scope. split; [exact Ha|]. apply (restrict_spec _ _ _ Hr) in Hs. apply Hs.
      - intros y Hy. destruct (emb_image_atom _ _ _ y E Hy) as [_ Hs]. apply (restrict_spec _ _ _ Hr) in Hs. apply Hs.
      - destruct E as (Ek & _). intros ->. destruct c; [congruence | discriminate]. }
    split.
    - unfold single_stream. destruct tc_ok as (_ & _ & Tn & Td). apply NoDup_flat_map; [exact Tn | |].
      + intros cand _. destruct (restrict scope cand); [apply get_mapping_NoDup; exact wf_o | constructor].
      + intros c1 c2 f H1 H2 Hf1 Hf2.
        destruct (restrict scope c1) as [s1|] eqn:E1; [|destruct Hf1]. destruct (restrict scope c2) as [s2|] eqn:E2; [|destruct Hf2].
        destruct (Hsound c1 s1 f H1 E1 Hf1) as (_ & I1 & Hne). destruct (Hsound c2 s2 f H2 E2 Hf2) as (_ & I2 & _).
        destruct f as [|[x y] f']; [congruence|]. apply (Td c1 c2 y H1 H2); [apply I1 | apply I2]; left; reflexivity.
    - intros f. unfold single_stream. rewrite in_flat_map. split.
      + intros (cand & Hcand & Hf). destruct (restrict scope cand) as [s'|] eqn:Er; [|destruct Hf].
        apply (Hsound cand s' f Hcand Er Hf).
      + intros E. destruct (emb_in_one_component clo c _ f Hc Hl E) as (cand & Hcand & Him).
        exists cand. split; [exact Hcand|].
        assert (Hne : f <> []) by (destruct E as (Ek & _); intros ->; destruct c; [congruence | discriminate]).
        destruct f as [|[x0 y0] f']; [congruence|].
        assert (Hy0 : In y0 (image ((x0, y0) :: f'))) by (left; reflexivity).
        destruct (emb_image_atom _ _ _ y0 E Hy0) as [_ Hs0]. apply Hin_scope in Hs0. destruct Hs0 as [_ Hs0].
        destruct (restrict_some scope cand y0 (Him _ Hy0) Hs0) as [s' Er]. rewrite Er.
        apply (get_mapping_complete _ _ _ _ amatch bmatch q_atoms q_bonds clo _ _ s' wf_o c Hc Hl).
        apply (emb_scope_mono _ (scope_list scope)); [exact E|]. intros y Hy.
        apply (restrict_spec _ _ _ Er). split; [apply Him; exact Hy|].
        destruct (emb_image_atom _ _ _ y E Hy) as [_ Hs]. apply Hin_scope in Hs. apply Hs.
  Qed.
End Single.

(* ---------- itertools.permutations ---------- *)
Lemma selects_spec {T} (l : list T) x r : In (x, r) (selects l) <-> exists l1 l2, l = l1 ++ x :: l2 /\ r = l1 ++ l2.
Proof.
  revert x r. induction l as [|y l IH]; intros x r; cbn [selects].
  - split; [intros [] | intros (l1 & l2 & E & _); destruct l1; discriminate].
  - cbn [In]. rewrite in_map_iff. split.
    + intros [E|((x' & r') & E & H)].
      * injection E as -> ->. exists [], r. split; reflexivity.
      * cbn in E. injection E as -> <-. apply IH in H. destruct H as (l1 & l2 & -> & ->). exists (y :: l1), l2. split; reflexivity.
    + intros (l1 & l2 & E & ->). destruct l1 as [|z l1]; cbn in E; injection E as -> E.
      * left. subst. reflexivity.
      * right. exists (x, l1 ++ l2). split; [reflexivity|]. apply IH. exists l1, l2. split; [exact E | reflexivity].
Qed.

Lemma permutations_sound {T} : forall k (l p : list T), In p (permutations k l) ->
  length p = k /\ incl p l /\ (NoDup l -> NoDup p).
Proof.
  induction k as [|k IH]; intros l p H; cbn [permutations] in H.
  - destruct H as [<-|[]]. split; [reflexivity|]. split; [intros ? []|]. intros _. constructor.
  - apply in_flat_map in H. destruct H as ((x & r) & Hs & H). cbn [fst snd] in H. apply in_map_iff in H. destruct H as (p' & <- & Hp).
    apply selects_spec in Hs. destruct Hs as (l1 & l2 & -> & ->). destruct (IH _ _ Hp) as (I1 & I2 & I3).
    split; [cbn; congruence|]. split.
    + intros z [<-|Hz]; [apply in_or_app; right; left; reflexivity|]. apply I2 in Hz. apply in_app_or in Hz.
      apply in_or_app. destruct Hz; [left | right; right]; assumption.
    + intros Hn. constructor.
      * intros Hx. apply I2 in Hx. apply NoDup_remove_2 in Hn. contradiction.
      * apply I3. apply NoDup_remove_1 in Hn. exact Hn.
Qed.

Lemma permutations_complete {T} : forall (p l : list T), NoDup p -> incl p l -> In p (permutations (length p) l).
Proof.
  induction p as [|x p IH]; intros l Hn Hi; cbn [length permutations]; [left; reflexivity|].
  inversion Hn as [|? ? Hx Hp]; subst.
  assert (Hxl : In x l) by (apply Hi; left; reflexivity). apply in_split in Hxl. destruct Hxl as (l1 & l2 & ->).
  apply in_flat_map. exists (x, l1 ++ l2). split; [apply selects_spec; exists l1, l2; split; reflexivity|].
  cbn [fst snd]. apply in_map. apply IH; [exact Hp|]. intros z Hz.
  assert (Hzl : In z (l1 ++ x :: l2)) by (apply Hi; right; exact Hz). apply in_app_or in Hzl. apply in_or_app.
  destruct Hzl as [H|[H|H]]; [left; exact H | subst; contradiction | right; exact H].
Qed.

(* permutations(l, k) lists no tuple twice when l has no duplicates *)
Lemma selects_fst {T} (l : list T) : map fst (selects l) = l.
Proof. induction l as [|x l IH]; [reflexivity|]. cbn [selects map fst]. f_equal. rewrite map_map. cbn [fst]. exact IH. Qed.

Lemma NoDup_map_fst_inj {S T} (d : list (S * T)) a b : NoDup (map fst d) -> In a d -> In b d -> fst a = fst b -> a = b.
Proof.
  induction d as [|e d IH]; intros Hn Ha Hb E; [destruct Ha|]. cbn in Hn. inversion Hn as [|? ? He Hd]; subst.
  destruct Ha as [<-|Ha], Hb as [<-|Hb].
  - reflexivity.
  - exfalso. apply He. rewrite E. apply in_map. exact Hb.
  - exfalso. apply He. rewrite <- E. apply in_map. exact Ha.
  - apply IH; assumption.
Qed.

Lemma NoDup_map_inj_in {S T} (f : S -> T) (l : list S) :
  (forall a b, In a l -> In b l -> f a = f b -> a = b) -> NoDup l -> NoDup (map f l).
Proof.
  induction l as [|x l IH]; intros Hi Hn; [constructor|]. inversion Hn as [|? ? Hx Hl]; subst. cbn. constructor.
  - intros H. apply in_map_iff in H. destruct H as (y & E & Hy). assert (y = x) by (apply Hi; [right; exact Hy | left; reflexivity | exact E]).
    subst. contradiction.
  - apply IH; [|exact Hl]. intros a b Ha Hb. apply Hi; right; assumption.
Qed.

Lemma permutations_NoDup {T} : forall k (l : list T), NoDup l -> NoDup (permutations k l).
Proof.
  induction k as [|k IH]; intros l Hn; cbn [permutations]; [constructor; [intros []|constructor]|].
  assert (Hs : NoDup (map fst (selects l))) by (rewrite selects_fst; exact Hn).
  apply NoDup_flat_map.
  - apply (NoDup_map_inv _ _ Hs).
  - intros (x & r) Hxr. cbn [fst snd]. apply NoDup_map_inj_in; [intros a b _ _ E; congruence|]. apply IH.
    apply selects_spec in Hxr. destruct Hxr as (l1 & l2 & -> & ->). apply NoDup_remove_1 in Hn. exact Hn.
  - intros (x & r) (x' & r') p Hx Hx' Hp Hp'. cbn [fst snd] in *. apply in_map_iff in Hp. destruct Hp as (q & <- & _).
    apply in_map_iff in Hp'. destruct Hp' as (q' & E & _). injection E as E _. apply (NoDup_map_fst_inj _ _ _ Hs Hx Hx'). cbn. congruence.
Qed.

Lemma app_eq_len {T} : forall (a a' b b' : list T), length a = length a' -> a ++ b = a' ++ b' -> a = a' /\ b = b'.
Proof.
  induction a as [|x a IH]; intros [|x' a'] b b' Hl E; try discriminate; [split; [reflexivity | exact E]|].
  cbn in Hl, E. injection Hl as Hl. injection E as -> E. destruct (IH a' b b' Hl E) as [-> ->]. split; reflexivity.
Qed.

(* mappings with prescribed key lists, position by position, are determined by their concatenation *)
Lemma concat_split_eq : forall (ks : list (list Z)) (fs fs' : list mapping),
  Forall2 (fun k fi => map fst fi = k) ks fs -> Forall2 (fun k fi => map fst fi = k) ks fs' -> concat fs = concat fs' -> fs = fs'.
Proof.
  induction ks as [|k ks IH]; intros fs fs' F F' E; inversion F; subst; inversion F'; subst; [reflexivity|]. cbn in E.
  match goal with H1 : map fst ?a = map fst ?b |- _ => apply (f_equal (@length Z)) in H1; rewrite !map_length in H1;
    destruct (app_eq_len _ _ _ _ (eq_sym H1) E) as [-> E'] end.
  f_equal. apply IH; assumption.
Qed.

(* ---------- mapping.update on disjoint keys is concatenation ---------- *)
Lemma dict_set_fresh (d : mapping) k v : ~ In k (keys d) -> dict_set d k v = d ++ [(k, v)].
Proof.
  induction d as [|[k' v'] d IH]; cbn; intros H; [reflexivity|].
  destruct (Z.eqb_spec k k'); [exfalso; apply H; left; congruence|]. f_equal. apply IH. intros Hin. apply H. right. exact Hin.
Qed.

Lemma dict_update_fresh : forall (m d : mapping), NoDup (keys d ++ keys m) -> dict_update d m = d ++ m.
Proof.
  unfold dict_update. induction m as [|[k v] m IH]; intros d Hn; cbn [fold_left fst snd]; [rewrite app_nil_r; reflexivity|].
  rewrite dict_set_fresh.
  - rewrite IH; [rewrite <- app_assoc; reflexivity|]. unfold keys in *. rewrite map_app. cbn [map fst]. rewrite <- app_assoc. exact Hn.
  - cbn [keys map fst] in Hn. apply NoDup_remove_2 in Hn. intros H. apply Hn. apply in_or_app. left. exact H.
Qed.

Lemma fold_update_concat : forall (fs : list mapping) (d : mapping),
  NoDup (keys d ++ concat (map (@keys Z Z) fs)) -> fold_left dict_update fs d = d ++ concat fs.
Proof.
  induction fs as [|g fr IH]; intros d Hn; cbn [fold_left concat map] in *.
  - symmetry. apply app_nil_r.
  - rewrite dict_update_fresh.
    + rewrite IH; [rewrite <- app_assoc; reflexivity|]. unfold keys in *. rewrite map_app, <- app_assoc. exact Hn.
    + rewrite app_assoc in Hn. apply NoDup_app_l in Hn. exact Hn.
Qed.

(* mapping = {}; for m in match: mapping.update(m) *)
Lemma merge_concat : forall (fs : list mapping), NoDup (concat (map (@keys Z Z) fs)) -> merge fs = concat fs.
Proof. intros fs Hn. unfold merge. rewrite fold_update_concat; [reflexivity | exact Hn]. Qed.

(* mapping = match[0].copy(); for m in match[1:]: mapping.update(m)   (_get_automorphism_mapping) *)
Lemma merge_copy_concat : forall (fs : list mapping), NoDup (concat (map (@keys Z Z) fs)) -> merge_copy fs = concat fs.
Proof. intros [|f fr] Hn; [reflexivity|]. cbn [merge_copy concat]. apply fold_update_concat. exact Hn. Qed.

(* ---------- Isomorphism._get_mapping with a pattern of several components ---------- *)
Section Multi.
  Variables QA A QB B : Type.
  Variable amatch : QA -> A -> bool.
  Variable bmatch : QB -> B -> bool.
  Variable q_atoms : list (Z * QA).
  Variable q_bonds : list (Z * list (Z * QB)).
  Variable o_atoms : list (Z * A).
  Variable o_bonds : list (Z * list (Z * B)).
  Variable tcomps : list (list Z).
  Variable comps : list (list (lentry QA QB)).
  Variable clo : closures_t QB.
  Hypothesis wf_q : wf_adj q_atoms q_bonds.
  Hypothesis wf_o : wf_adj o_atoms o_bonds.
  Hypothesis tc_ok : tcomps_ok A B o_atoms o_bonds tcomps.
  Hypothesis c_ok : compiled_ok q_atoms q_bonds comps clo.

  Notation emb := (induced_embedding amatch bmatch q_atoms q_bonds o_atoms o_bonds).
  Notation slist := (scope_list A o_atoms).

  Definition multi_stream (scope : option (list Z)) : list mapping :=
    flat_map (fun cands => match build_mappers QA A QB B amatch bmatch clo o_atoms o_bonds scope comps cands with
                           | None => []
                           | Some mappers => map merge (lazy_product mappers)
                           end) (permutations (length comps) tcomps).

  Lemma iso_stream_multi scope : length comps <> 1%nat ->
    iso_stream amatch bmatch comps clo o_atoms o_bonds tcomps scope = Ok (multi_stream scope).
  Proof. unfold iso_stream, multi_stream. destruct comps as [|c1 [|c2 r]]; cbn [length]; intros H; [reflexivity | exfalso; apply H; reflexivity | reflexivity]. Qed.

  (* every pattern component is embedded (induced, inside the scope) into a target component of its own *)
  Definition multi_embedding (scope : option (list Z)) (f : mapping) : Prop :=
    exists fs cands,
      f = concat fs /\
      Forall2 (fun c fi => emb (map fst4 c) (slist scope) fi) comps fs /\
      Forall2 (fun cand fi => In cand tcomps /\ forall y, In y (image fi) -> In y cand) cands fs /\
      NoDup cands.

  (* comps / cands / fs position by position *)
  Fixpoint assigned (scope : option (list Z)) (cs : list (list (lentry QA QB))) (cands : list (list Z)) (fs : list mapping) : Prop :=
    match cs, cands, fs with
    | [], [], [] => True
    | c :: cr, cand :: dr, fi :: fr =>
        (exists s', restrict scope cand = Some s' /\ In fi (get_mapping amatch bmatch c clo o_atoms o_bonds s')) /\ assigned scope cr dr fr
    | _, _, _ => False
    end.

  Lemma build_mappers_spec scope : forall cs cands fs, length cands = length cs ->
    (exists mappers, build_mappers QA A QB B amatch bmatch clo o_atoms o_bonds scope cs cands = Some mappers /\
                     Forall2 (fun fi M => In fi M) fs mappers) <-> assigned scope cs cands fs.
  Proof.
    induction cs as [|c cr IH]; intros cands fs Hlen; destruct cands as [|cand dr]; try discriminate.
    - cbn. split.
      + intros (m & E & F). injection E as <-. inversion F. exact I.
      + destruct fs; [|intros []]. intros _. exists []. split; [reflexivity | constructor].
    - cbn [build_mappers assigned]. cbn in Hlen. injection Hlen as Hlen. split.
      + intros (m & E & F). destruct (restrict scope cand) as [s'|] eqn:Er; [|discriminate].
        destruct (build_mappers QA A QB B amatch bmatch clo o_atoms o_bonds scope cr dr) as [ms|] eqn:Eb; [|discriminate].
        injection E as <-. inversion F as [|fi M fr ms' H1 H2]; subst. split; [exists s'; split; [reflexivity | exact H1]|].
        apply (IH dr fr Hlen). exists ms. split; [exact Eb | exact H2].
      + destruct fs as [|fi fr]; [intros []|]. intros ((s' & Er & Hf) & Hr). apply (IH dr fr Hlen) in Hr. destruct Hr as (ms & Eb & F).
        rewrite Er, Eb. exists (get_mapping amatch bmatch c clo o_atoms o_bonds s' :: ms). split; [reflexivity | constructor; assumption].
  Qed.

  Lemma assigned_iff scope : forall cs cands fs,
    (forall c, In c cs -> c <> [] /\ lin_ok q_atoms q_bonds clo [] c) -> (forall cand, In cand cands -> In cand tcomps) ->
    (assigned scope cs cands fs <->
     Forall2 (fun c fi => emb (map fst4 c) (slist scope) fi) cs fs /\
     Forall2 (fun cand fi => In cand tcomps /\ forall y, In y (image fi) -> In y cand) cands fs).
  Proof.
    induction cs as [|c cr IH]; intros cands fs Hcs Hcands.
    - destruct cands, fs; cbn; split; try tauto; try (intros [F1 F2]; inversion F1; inversion F2; fail). intros _. split; constructor.
    - destruct cands as [|cand dr], fs as [|fi fr]; cbn [assigned]; try (split; [intros [] | intros [F1 F2]; inversion F1; inversion F2]; fail).
      destruct (Hcs c (or_introl eq_refl)) as [Hne Hl].
      rewrite (restricted_match_iff QA A QB B amatch bmatch q_atoms q_bonds o_atoms o_bonds tcomps wf_q wf_o c clo scope cand fi Hne Hl
                 (Hcands cand (or_introl eq_refl))).
      rewrite (IH dr fr (fun c' H => Hcs c' (or_intror H)) (fun c' H => Hcands c' (or_intror H))). split.
      + intros ((E & Him) & F1 & F2). split; constructor; try assumption. split; [apply Hcands; left; reflexivity | exact Him].
      + intros (F1 & F2). inversion F1 as [|? ? ? ? G1 G2]; subst. inversion F2 as [|? ? ? ? G3 G4]; subst.
        split; [split; [exact G1 | apply G3] | split; assumption].
  Qed.

  Lemma Forall2_length {S T} (R : S -> T -> Prop) l1 l2 : Forall2 R l1 l2 -> length l1 = length l2.
  Proof. induction 1; cbn; congruence. Qed.

  Lemma emb_keys_concat scope : forall cs fs, Forall2 (fun c fi => emb (map fst4 c) (slist scope) fi) cs fs ->
    concat (map (@keys Z Z) fs) = concat (map (map (@fst4 QA QB)) cs).
  Proof. induction 1 as [|c fi cs fs H _ IH]; [reflexivity|]. cbn. rewrite IH. destruct H as (Hk & _). unfold keys. rewrite Hk. reflexivity. Qed.

  Theorem multi_component_exact : forall scope f, In f (multi_stream scope) <-> multi_embedding scope f.
  Proof.
    intros scope f. unfold multi_stream. rewrite in_flat_map.
    destruct c_ok as (P & Hl & _). destruct tc_ok as (_ & _ & Tn & _).
    assert (Hkeys : NoDup (concat (map (map (@fst4 QA QB)) comps))) by (apply (Permutation_NoDup (Permutation_sym P)); apply wf_q).
    split.
    - intros (cands & Hperm & Hf). apply permutations_sound in Hperm. destruct Hperm as (Plen & Pincl & Pn).
      destruct (build_mappers QA A QB B amatch bmatch clo o_atoms o_bonds scope comps cands) as [mappers|] eqn:Eb; [|destruct Hf].
      apply in_map_iff in Hf. destruct Hf as (fs & <- & Hfs). apply lazy_product_In in Hfs.
      assert (Ha : assigned scope comps cands fs) by (apply (build_mappers_spec scope comps cands fs Plen); exists mappers; split; assumption).
      apply (assigned_iff scope comps cands fs Hl Pincl) in Ha. destruct Ha as [F1 F2].
      exists fs, cands. split; [|split; [exact F1 | split; [exact F2 | apply Pn; exact Tn]]].
      apply merge_concat. rewrite (emb_keys_concat scope comps fs F1). exact Hkeys.
    - intros (fs & cands & -> & F1 & F2 & Hn).
      assert (Hincl : incl cands tcomps).
      { clear -F2. induction F2 as [|cand fi dr fr H _ IH]; [intros ? []|]. intros z [<-|Hz]; [apply H | apply IH; exact Hz]. }
      assert (Hlen : length cands = length comps) by (rewrite (Forall2_length _ _ _ F1), (Forall2_length _ _ _ F2); reflexivity).
      exists cands. split; [rewrite <- Hlen; apply permutations_complete; assumption|].
      assert (Ha : assigned scope comps cands fs) by (apply (assigned_iff scope comps cands fs Hl Hincl); split; assumption).
      apply (build_mappers_spec scope comps cands fs Hlen) in Ha. destruct Ha as (mappers & Eb & Hfs). rewrite Eb.
      apply in_map_iff. exists fs. split; [|apply lazy_product_In; exact Hfs].
      apply merge_concat. rewrite (emb_keys_concat scope comps fs F1). exact Hkeys.
  Qed.

  (* ---- nothing is yielded twice ---- *)
  Lemma build_mappers_NoDup scope : forall cs cands mappers,
    build_mappers QA A QB B amatch bmatch clo o_atoms o_bonds scope cs cands = Some mappers -> forall L, In L mappers -> NoDup L.
  Proof.
    induction cs as [|c cr IH]; intros cands mappers E L HL; cbn [build_mappers] in E.
    - injection E as <-. destruct HL.
    - destruct cands as [|cand dr]; [injection E as <-; destruct HL|].
      destruct (restrict scope cand) as [s'|]; [|discriminate].
      destruct (build_mappers QA A QB B amatch bmatch clo o_atoms o_bonds scope cr dr) as [ms|] eqn:Eb; [|discriminate].
      injection E as <-. destruct HL as [<-|HL]; [apply get_mapping_NoDup; exact wf_o | apply (IH dr ms Eb L HL)].
  Qed.

  (* what being yielded for the assignment [cands] of target components means *)
  Lemma stream_elem scope cands mappers fs :
    In cands (permutations (length comps) tcomps) ->
    build_mappers QA A QB B amatch bmatch clo o_atoms o_bonds scope comps cands = Some mappers ->
    In fs (lazy_product mappers) ->
    merge fs = concat fs /\
    Forall2 (fun c fi => emb (map fst4 c) (slist scope) fi) comps fs /\
    Forall2 (fun cand fi => In cand tcomps /\ forall y, In y (image fi) -> In y cand) cands fs.
  Proof.
    intros Hperm Eb Hfs. destruct c_ok as (P & Hl & _).
    assert (Hkeys : NoDup (concat (map (map (@fst4 QA QB)) comps))) by (apply (Permutation_NoDup (Permutation_sym P)); apply wf_q).
    apply permutations_sound in Hperm. destruct Hperm as (Plen & Pincl & _). apply lazy_product_In in Hfs.
    assert (Ha : assigned scope comps cands fs) by (apply (build_mappers_spec scope comps cands fs Plen); exists mappers; split; assumption).
    apply (assigned_iff scope comps cands fs Hl Pincl) in Ha. destruct Ha as [F1 F2].
    split; [|split; assumption]. apply merge_concat. rewrite (emb_keys_concat scope comps fs F1). exact Hkeys.
  Qed.

  Lemma emb_keys_Forall2 scope : forall cs fs, Forall2 (fun c fi => emb (map fst4 c) (slist scope) fi) cs fs ->
    Forall2 (fun k fi => map fst fi = k) (map (map (@fst4 QA QB)) cs) fs.
  Proof. induction 1 as [|c fi cs fs H _ IH]; cbn; constructor; [apply H | exact IH]. Qed.

  Lemma cands_unique : forall fs cands1 cands2,
    Forall2 (fun cand (fi : mapping) => In cand tcomps /\ forall y, In y (image fi) -> In y cand) cands1 fs ->
    Forall2 (fun cand (fi : mapping) => In cand tcomps /\ forall y, In y (image fi) -> In y cand) cands2 fs ->
    (forall fi, In fi fs -> fi <> []) -> cands1 = cands2.
  Proof.
    destruct tc_ok as (_ & _ & _ & Td).
    induction fs as [|fi fs IH]; intros cands1 cands2 F1 F2 Hne; inversion F1; subst; inversion F2; subst; [reflexivity|].
    f_equal; [|apply IH; try assumption; intros g Hg; apply Hne; right; exact Hg].
    destruct fi as [|[kx ky] fi']; [exfalso; apply (Hne [] (or_introl eq_refl)); reflexivity|].
    match goal with H1 : In ?a tcomps /\ _, H2 : In ?b tcomps /\ _ |- ?a = ?b =>
      destruct H1 as [T1 I1]; destruct H2 as [T2 I2]; apply (Td a b ky T1 T2); [apply I1 | apply I2]; left; reflexivity end.
  Qed.

  Theorem multi_stream_NoDup : forall scope, NoDup (multi_stream scope).
  Proof.
    intros scope. unfold multi_stream. pose proof c_ok as (_ & Hl & _). pose proof tc_ok as (_ & _ & Tn & _).
    assert (Hsame : forall cands mappers fs cands' mappers' fs',
              In cands (permutations (length comps) tcomps) ->
              build_mappers QA A QB B amatch bmatch clo o_atoms o_bonds scope comps cands = Some mappers -> In fs (lazy_product mappers) ->
              In cands' (permutations (length comps) tcomps) ->
              build_mappers QA A QB B amatch bmatch clo o_atoms o_bonds scope comps cands' = Some mappers' -> In fs' (lazy_product mappers') ->
              merge fs = merge fs' -> fs = fs' /\ cands = cands').
    { intros cands mappers fs cands' mappers' fs' Hp Eb Hfs Hp' Eb' Hfs' E.
      destruct (stream_elem scope cands mappers fs Hp Eb Hfs) as (M & F1 & F2).
      destruct (stream_elem scope cands' mappers' fs' Hp' Eb' Hfs') as (M' & F1' & F2').
      rewrite M, M' in E.
      assert (fs = fs') by (apply (concat_split_eq _ fs fs' (emb_keys_Forall2 scope comps fs F1) (emb_keys_Forall2 scope comps fs' F1') E)).
      subst fs'. split; [reflexivity|]. apply (cands_unique fs cands cands' F2 F2').
      clear -F1 Hl. induction F1 as [|c fi cs fs H _ IH]; intros g Hg; [destruct Hg|].
      destruct Hg as [<-|Hg]; [|apply IH; [intros c' Hc'; apply Hl; right; exact Hc' | exact Hg]].
      destruct (Hl c (or_introl eq_refl)) as [Hne _]. destruct H as (Hk & _). intros ->. destruct c; [congruence | discriminate]. }
    apply NoDup_flat_map.
    - apply permutations_NoDup. exact Tn.
    - intros cands Hp. destruct (build_mappers QA A QB B amatch bmatch clo o_atoms o_bonds scope comps cands) as [mappers|] eqn:Eb; [|constructor].
      apply NoDup_map_inj_in.
      + intros fs fs' Hfs Hfs' E. apply (Hsame cands mappers fs cands mappers fs' Hp Eb Hfs Hp Eb Hfs' E).
      + apply lazy_product_NoDup. apply (build_mappers_NoDup scope comps cands mappers Eb).
    - intros cands cands' f Hp Hp' Hf Hf'.
      destruct (build_mappers QA A QB B amatch bmatch clo o_atoms o_bonds scope comps cands) as [mappers|] eqn:Eb; [|destruct Hf].
      destruct (build_mappers QA A QB B amatch bmatch clo o_atoms o_bonds scope comps cands') as [mappers'|] eqn:Eb'; [|destruct Hf'].
      apply in_map_iff in Hf. destruct Hf as (fs & <- & Hfs). apply in_map_iff in Hf'. destruct Hf' as (fs' & E & Hfs').
      apply (Hsame cands mappers fs cands' mappers' fs' Hp Eb Hfs Hp' Eb' Hfs' (eq_sym E)).
  Qed.
End Multi.

(* ---------- the whole call: pattern.get_mapping(target, ...), is_substructure, is_equal, <, <= ---------- *)
Section Whole.
  Variables QA A QB B : Type.
  Variable amatch : QA -> A -> bool.
  Variable bmatch : QB -> B -> bool.
  Variable q_atoms : list (Z * QA).
  Variable q_bonds : list (Z * list (Z * QB)).
  Variable o_atoms : list (Z * A).
  Variable o_bonds : list (Z * list (Z * B)).
  Variable tcomps : list (list Z).
  Hypothesis wf_q : wf_adj q_atoms q_bonds.
  Hypothesis wf_o : wf_adj o_atoms o_bonds.
  Hypothesis tc_ok : tcomps_ok A B o_atoms o_bonds tcomps.

  Notation emb := (induced_embedding amatch bmatch q_atoms q_bonds o_atoms o_bonds).
  Notation membed := (multi_embedding QA A QB B amatch bmatch q_atoms q_bonds o_atoms o_bonds tcomps).

  Lemma single_is_multi c clo scope f : compiled_ok q_atoms q_bonds [c] clo ->
    emb (map fst4 c) (scope_list A o_atoms scope) f <-> membed [c] scope f.
  Proof.
    intros (_ & Hl & _). destruct (Hl c (or_introl eq_refl)) as [Hne Hlin]. split.
    - intros E. destruct (emb_in_one_component QA A QB B amatch bmatch q_atoms q_bonds o_atoms o_bonds tcomps tc_ok clo c _ f Hne Hlin E) as (cand & Hc & Him).
      exists [f], [cand]. split; [cbn; rewrite app_nil_r; reflexivity|]. split; [constructor; [exact E | constructor]|].
      split; [constructor; [split; assumption | constructor]|]. constructor; [intros [] | constructor].
    - intros (fs & cands & -> & F1 & _). inversion F1 as [|? fi ? fr G1 G2]; subst. inversion G2; subst. cbn. rewrite app_nil_r. exact G1.
  Qed.

  (* ANY pattern (also the one without atoms) and ANY scope: the stream before the filter holds exactly the embeddings
     (every pattern component induced-embedded inside the scope, into a target component of its own) *)
  Theorem get_mapping_exact : forall comps clo flt scope,
    compile_query q_atoms q_bonds = Ok (comps, clo) ->
    exists stream,
      mol_get_mapping amatch bmatch q_atoms q_bonds o_atoms o_bonds tcomps flt scope = Ok (auto_filter flt [] stream) /\
      NoDup stream /\
      forall f, In f stream <-> membed comps scope f.
  Proof.
    intros comps clo flt scope Hc. pose proof (compile_query_spec _ _ _ _ wf_q _ _ Hc) as Hok.
    unfold mol_get_mapping, iso_get_mapping. rewrite Hc.
    destruct (Nat.eq_dec (length comps) 1) as [E1|E1].
    - destruct comps as [|c [|c2 r]]; try discriminate.
      rewrite (iso_stream_single QA A QB B amatch bmatch o_atoms o_bonds tcomps c clo scope). eexists. split; [reflexivity|].
      pose proof Hok as (P & Hl & Hcl). destruct (Hl c (or_introl eq_refl)) as [Hne Hlin].
      destruct (scope_exact QA A QB B amatch bmatch q_atoms q_bonds o_atoms o_bonds tcomps wf_q wf_o tc_ok c clo scope Hne Hlin) as [Hnd Hin].
      split; [exact Hnd|]. intros f. rewrite (Hin f). apply (single_is_multi c clo scope f Hok).
    - rewrite (iso_stream_multi QA A QB B amatch bmatch q_atoms q_bonds o_atoms o_bonds tcomps comps clo Hok scope E1).
      eexists. split; [reflexivity|].
      split; [apply (multi_stream_NoDup QA A QB B amatch bmatch q_atoms q_bonds o_atoms o_bonds tcomps comps clo wf_q wf_o tc_ok Hok scope)|].
      intros f.
      apply (multi_component_exact QA A QB B amatch bmatch q_atoms q_bonds o_atoms o_bonds tcomps comps clo wf_q wf_o tc_ok Hok scope).
  Qed.

  (* automorphism_filter=True: every result is an embedding, every embedding has a result with the same set of image atoms,
     no two results have the same set of image atoms; automorphism_filter=False: exactly the embeddings, each once *)
  Theorem get_mapping_filtered_exact : forall comps clo scope,
    compile_query q_atoms q_bonds = Ok (comps, clo) ->
    (exists res, mol_get_mapping amatch bmatch q_atoms q_bonds o_atoms o_bonds tcomps true scope = Ok res /\
       (forall m, In m res -> membed comps scope m) /\
       (forall f, membed comps scope f -> exists m, In m res /\ (forall y, In y (image f) <-> In y (image m))) /\
       ForallOrdPairs (fun a b => ~ (forall y, In y (image a) <-> In y (image b))) res) /\
    (exists res, mol_get_mapping amatch bmatch q_atoms q_bonds o_atoms o_bonds tcomps false scope = Ok res /\
       NoDup res /\ forall f, In f res <-> membed comps scope f).
  Proof.
    intros comps clo scope Hc. split.
    - destruct (get_mapping_exact comps clo true scope Hc) as (stream & E & _ & Hs).
      destruct (automorphism_filter_exact stream) as (F1 & F2 & F3 & _).
      exists (auto_filter true [] stream). split; [exact E|]. split; [|split; [|exact F3]].
      + intros m Hm. apply Hs. apply F1. exact Hm.
      + intros f Hf. apply Hs in Hf. apply F2. exact Hf.
    - destruct (get_mapping_exact comps clo false scope Hc) as (stream & E & Hn & Hs).
      assert (Ef : auto_filter false [] stream = stream) by apply automorphism_filter_exact. rewrite Ef in E.
      exists stream. split; [exact E|]. split; assumption.
  Qed.

  (* the operators agree with the set of embeddings *)
  Theorem is_substructure_iff : forall comps clo,
    compile_query q_atoms q_bonds = Ok (comps, clo) ->
    exists b, is_substructure amatch bmatch q_atoms q_bonds o_atoms o_bonds tcomps = Ok b /\
              (b = true <-> exists f, membed comps None f).
  Proof.
    intros comps clo Hc. destruct (get_mapping_exact comps clo false None Hc) as (stream & E & _ & Hs).
    unfold is_substructure. rewrite E.
    assert (Ef : auto_filter false [] stream = stream) by apply automorphism_filter_exact. rewrite Ef.
    destruct stream as [|f0 r].
    - exists false. split; [reflexivity|]. split; [discriminate|]. intros (f & Hf). apply Hs in Hf. destruct Hf.
    - exists true. split; [reflexivity|]. split; [|reflexivity]. intros _. exists f0. apply Hs. left. reflexivity.
  Qed.

  Theorem is_equal_iff : forall comps clo,
    compile_query q_atoms q_bonds = Ok (comps, clo) ->
    exists b, is_equal amatch bmatch q_atoms q_bonds o_atoms o_bonds tcomps = Ok b /\
              (b = true <-> length q_atoms = length o_atoms /\ exists f, membed comps None f).
  Proof.
    intros comps clo Hc. destruct (is_substructure_iff comps clo Hc) as (b & E & Hb). unfold is_equal.
    destruct (Nat.eqb_spec (length q_atoms) (length o_atoms)) as [El|El]; cbn [negb].
    - exists b. split; [exact E|]. rewrite Hb. tauto.
    - exists false. split; [reflexivity|]. split; [discriminate | intros [H _]; contradiction].
  Qed.

  (* self < other; self <= other is is_substructure; self > other, self >= other are other < self, other <= self *)
  Theorem lt_iff : forall comps clo,
    compile_query q_atoms q_bonds = Ok (comps, clo) ->
    exists b, iso_lt amatch bmatch q_atoms q_bonds o_atoms o_bonds tcomps = Ok b /\
              (b = true <-> (length q_atoms < length o_atoms)%nat /\ exists f, membed comps None f).
  Proof.
    intros comps clo Hc. destruct (is_substructure_iff comps clo Hc) as (b & E & Hb). unfold iso_lt.
    destruct (Nat.leb_spec (length o_atoms) (length q_atoms)) as [El|El].
    - exists false. split; [reflexivity|]. split; [discriminate | intros [H _]; lia].
    - exists b. split; [exact E|]. rewrite Hb. tauto.
  Qed.
End Whole.

(* ---------- a decision procedure for wf_adj (used for the concrete witnesses below) ---------- *)
Section WfB.
  Context {V W : Type}.
  Variable weq : W -> W -> bool.
  Hypothesis weq_eq : forall a b, weq a b = true -> a = b.

  Definition wf_adjb (atoms : list (Z * V)) (bonds : list (Z * list (Z * W))) : bool :=
    nodup_z (keys atoms) && nodup_z (keys bonds) && same_keys_z (keys bonds) (keys atoms) &&
    forallb (fun nl => nodup_z (keys (snd nl)) &&
       forallb (fun mb => negb (fst mb =? fst nl) && zmem (fst mb) (keys atoms) &&
                          match bond_get bonds (fst mb) (fst nl) with Some w => weq (snd mb) w | None => false end) (snd nl)) bonds.

  Lemma nodup_z_NoDup l : nodup_z l = true -> NoDup l.
  Proof.
    induction l as [|x l IH]; cbn; intros H; [constructor|]. apply andb_prop in H. destruct H as [H1 H2].
    constructor; [|apply IH; exact H2]. intros Hin. apply zmem_In in Hin. rewrite Hin in H1. discriminate.
  Qed.

  Lemma wf_adjb_sound atoms bonds : wf_adjb atoms bonds = true -> wf_adj atoms bonds.
  Proof.
    unfold wf_adjb. intros H. repeat (apply andb_prop in H; destruct H as [H ?]).
    rename H into Ha, H2 into Hb, H1 into Hk, H0 into Hall. rewrite forallb_forall in Hall.
    apply nodup_z_NoDup in Ha. apply nodup_z_NoDup in Hb.
    assert (Hadj : forall n l, zget bonds n = Some l -> In (n, l) bonds) by (intros; apply zget_In; assumption).
    assert (Hrow : forall n m w, bond_get bonds n m = Some w ->
              m <> n /\ In m (keys atoms) /\ exists w', bond_get bonds m n = Some w' /\ w = w').
    { intros n m w E. unfold bond_get, adj_get in E. destruct (zget bonds n) as [l|] eqn:El; [|discriminate].
      specialize (Hall _ (Hadj _ _ El)). cbn [fst snd] in Hall. apply andb_prop in Hall. destruct Hall as [_ Hall].
      rewrite forallb_forall in Hall. specialize (Hall _ (zget_In _ _ _ E)). cbn [fst snd] in Hall.
      repeat (apply andb_prop in Hall; destruct Hall as [Hall ?]).
      split; [apply negb_true_iff, Z.eqb_neq in Hall; exact Hall|]. split; [apply zmem_In; assumption|].
      destruct (bond_get bonds m n) as [w'|]; [|discriminate]. exists w'. split; [reflexivity | apply weq_eq; assumption]. }
    unfold wf_adj. split; [exact Ha|]. split; [exact Hb|]. split; [apply same_keys_z_iff; exact Hk|]. split; [|split].
    - intros n. unfold adj_get. destruct (zget bonds n) as [l|] eqn:El; [|constructor].
      specialize (Hall _ (Hadj _ _ El)). cbn [snd] in Hall. apply andb_prop in Hall. apply nodup_z_NoDup. apply Hall.
    - intros n m Hm. destruct (In_key_zget _ _ Hm) as [w Hw]. destruct (Hrow n m w Hw) as (H1 & H2 & _). split; assumption.
    - intros n m. destruct (bond_get bonds n m) as [w|] eqn:E1.
      + destruct (Hrow n m w E1) as (_ & _ & w' & E2 & ->). symmetry. exact E2.
      + destruct (bond_get bonds m n) as [w'|] eqn:E2; [|reflexivity].
        destruct (Hrow m n w' E2) as (_ & _ & w2 & E3 & _). congruence.
  Qed.
End WfB.

(* other.connected_components of a concrete target, decided *)
Definition tcomps_okb {A B : Type} (o_atoms : list (Z * A)) (o_bonds : list (Z * list (Z * B))) (tcomps : list (list Z)) : bool :=
  forallb (fun y => existsb (fun cand => zmem y cand) tcomps) (keys o_atoms) &&
  forallb (fun cand => forallb (fun y => forallb (fun m => zmem m cand) (keys (adj_get o_bonds y))) cand) tcomps &&
  forallb (fun cand => forallb (fun y => forallb (fun c2 => list_eqb Z.eqb cand c2 || negb (zmem y c2)) tcomps) cand) tcomps &&
  (fix nd (l : list (list Z)) := match l with [] => true | x :: r => negb (existsb (list_eqb Z.eqb x) r) && nd r end) tcomps.

Lemma list_eqb_Z_iff a b : list_eqb Z.eqb a b = true <-> a = b.
Proof.
  revert b. induction a as [|x a IH]; intros [|y b]; cbn; split; intros H; try congruence; try discriminate.
  - apply andb_prop in H. destruct H as [H1 H2]. apply Z.eqb_eq in H1. apply IH in H2. congruence.
  - injection H as -> ->. rewrite Z.eqb_refl. apply IH. reflexivity.
Qed.

Lemma tcomps_okb_sound {A B : Type} (o_atoms : list (Z * A)) (o_bonds : list (Z * list (Z * B))) tcomps :
  tcomps_okb o_atoms o_bonds tcomps = true -> tcomps_ok A B o_atoms o_bonds tcomps.
Proof.
  unfold tcomps_okb. intros H. repeat (apply andb_prop in H; destruct H as [H ?]).
  rename H into H1, H2 into H2', H1 into H3, H0 into H4. rewrite forallb_forall in H1, H2', H3.
  unfold tcomps_ok. split; [|split; [|split]].
  - intros y Hy. specialize (H1 y Hy). apply existsb_exists in H1. destruct H1 as (cand & Hc & Hz). exists cand. split; [exact Hc | apply zmem_In; exact Hz].
  - intros cand y m Hc Hy Hm. specialize (H2' cand Hc). rewrite forallb_forall in H2'. specialize (H2' y Hy).
    rewrite forallb_forall in H2'. apply zmem_In. apply H2'. exact Hm.
  - clear H1 H2' H3. induction tcomps as [|x r IH]; [constructor|]. apply andb_prop in H4. destruct H4 as [Ha Hb].
    constructor; [|apply IH; exact Hb]. intros Hin. apply negb_true_iff in Ha.
    assert (existsb (list_eqb Z.eqb x) r = true) by (apply existsb_exists; exists x; split; [exact Hin | apply list_eqb_Z_iff; reflexivity]). congruence.
  - intros c1 c2 y Hc1 Hc2 Hy1 Hy2. specialize (H3 c1 Hc1). rewrite forallb_forall in H3. specialize (H3 y Hy1).
    rewrite forallb_forall in H3. specialize (H3 c2 Hc2). apply orb_prop in H3. destruct H3 as [E|E].
    + apply list_eqb_Z_iff. exact E.
    + apply negb_true_iff in E. assert (zmem y c2 = true) by (apply zmem_In; exact Hy2). congruence.
Qed.

Lemma flat_map_nil_all {S T} (g : S -> list T) (l : list S) : (forall x, In x l -> g x = []) -> flat_map g l = [].
Proof. induction l as [|x r IH]; intros H; [reflexivity|]. cbn. rewrite (H x (or_introl eq_refl)), IH; [reflexivity|]. intros y Hy. apply H. right. exact Hy. Qed.

(* ---------- the two boundary inputs on which the code used to violate the statement (fixed in /repo: a6a7a4a, 3d5c51c) ---------- *)
Section Boundary.
  Variables QA A QB B : Type.
  Variable amatch : QA -> A -> bool.
  Variable bmatch : QB -> B -> bool.

  (* an EMPTY searching_scope: no mapping at all for a pattern with at least one atom, whatever the target is
     (no well-formedness hypothesis is needed: `searching_scope.intersection(candidate)` is empty for every candidate) *)
  Theorem empty_scope_no_mapping : forall (comps : list (list (lentry QA QB))) clo (o_atoms : list (Z * A)) o_bonds tcomps flt,
    comps <> [] -> iso_get_mapping amatch bmatch comps clo o_atoms o_bonds tcomps flt (Some []) = Ok [].
  Proof.
    intros comps clo o_atoms o_bonds tcomps flt Hne. unfold iso_get_mapping.
    assert (Hr : forall cand, restrict (Some []) cand = None).
    { intros cand. unfold restrict. replace (filter (fun x => zmem x []) cand) with (@nil Z); [reflexivity|].
      induction cand as [|x r IH]; [reflexivity | cbn; exact IH]. }
    assert (E : iso_stream amatch bmatch comps clo o_atoms o_bonds tcomps (Some []) = Ok []).
    { unfold iso_stream. destruct comps as [|c [|c2 r]]; [congruence | |].
      - f_equal. induction tcomps as [|cand tr IH]; [reflexivity|]. cbn [flat_map]. rewrite Hr. exact IH.
      - f_equal. apply flat_map_nil_all. intros cands Hp. apply permutations_sound in Hp. destruct Hp as (Hlen & _).
        destruct cands as [|cand dr]; [discriminate|]. cbn [build_mappers]. rewrite Hr. reflexivity. }
    rewrite E. destruct flt; reflexivity.
  Qed.

  (* a pattern WITHOUT atoms: exactly one mapping, the empty one, for every target, filter value and scope *)
  Theorem empty_pattern_one_embedding : forall (o_atoms : list (Z * A)) (o_bonds : list (Z * list (Z * B))) tcomps flt scope,
    mol_get_mapping amatch bmatch (@nil (Z * QA)) (@nil (Z * list (Z * QB))) o_atoms o_bonds tcomps flt scope = Ok [[]].
  Proof. intros. destruct flt; reflexivity. Qed.
End Boundary.

(* ---------- a concrete instance of all hypotheses (non-vacuity) ---------- *)
(* pattern C.O (two components), target C-C-O . O  (integer labels 6 / 8, single bonds = 1) *)
Definition ex_q_atoms : list (Z * Z) := [(1, 6); (2, 8)].
Definition ex_q_bonds : list (Z * list (Z * Z)) := [(1, []); (2, [])].
Definition ex_o_atoms : list (Z * Z) := [(1, 6); (2, 6); (3, 8); (4, 8)].
Definition ex_o_bonds : list (Z * list (Z * Z)) := [(1, [(2, 1)]); (2, [(1, 1); (3, 1)]); (3, [(2, 1)]); (4, [])].
Definition ex_tcomps : list (list Z) := [[1; 2; 3]; [4]].

Lemma Zeqb_eq a b : Z.eqb a b = true -> a = b.
Proof. apply Z.eqb_eq. Qed.

(* the hypotheses of get_mapping_exact hold, the search yields four mappings (C on either carbon and O on the lone
   water, or C on a carbon ... never C and O inside the same target component), and with a scope {2, 3, 4, 99} two *)
Theorem example_instance :
  wf_adj ex_q_atoms ex_q_bonds /\ wf_adj ex_o_atoms ex_o_bonds /\ tcomps_ok Z Z ex_o_atoms ex_o_bonds ex_tcomps /\
  compile_query ex_q_atoms ex_q_bonds = Ok ([[(1, None, 6, None)]; [(2, None, 8, None)]], []) /\
  mol_get_mapping Z.eqb Z.eqb ex_q_atoms ex_q_bonds ex_o_atoms ex_o_bonds ex_tcomps false None
    = Ok [[(1, 2); (2, 4)]; [(1, 1); (2, 4)]] /\
  mol_get_mapping Z.eqb Z.eqb ex_q_atoms ex_q_bonds ex_o_atoms ex_o_bonds ex_tcomps true (Some [2; 3; 4; 99])
    = Ok [[(1, 2); (2, 4)]] /\
  multi_embedding Z Z Z Z Z.eqb Z.eqb ex_q_atoms ex_q_bonds ex_o_atoms ex_o_bonds ex_tcomps
    [[(1, None, 6, None)]; [(2, None, 8, None)]] None [(1, 2); (2, 4)].
Proof.
  assert (Wq : wf_adj ex_q_atoms ex_q_bonds) by (apply (wf_adjb_sound Z.eqb Zeqb_eq); vm_compute; reflexivity).
  assert (Wo : wf_adj ex_o_atoms ex_o_bonds) by (apply (wf_adjb_sound Z.eqb Zeqb_eq); vm_compute; reflexivity).
  assert (Tc : tcomps_ok Z Z ex_o_atoms ex_o_bonds ex_tcomps) by (apply tcomps_okb_sound; vm_compute; reflexivity).
  assert (Hc : compile_query ex_q_atoms ex_q_bonds = Ok ([[(1, None, 6, None)]; [(2, None, 8, None)]], [])) by (vm_compute; reflexivity).
  split; [exact Wq|]. split; [exact Wo|]. split; [exact Tc|]. split; [exact Hc|].
  assert (E1 : mol_get_mapping Z.eqb Z.eqb ex_q_atoms ex_q_bonds ex_o_atoms ex_o_bonds ex_tcomps false None
               = Ok [[(1, 2); (2, 4)]; [(1, 1); (2, 4)]]) by (vm_compute; reflexivity).
  split; [exact E1|]. split; [vm_compute; reflexivity|].
  destruct (get_mapping_exact Z Z Z Z Z.eqb Z.eqb ex_q_atoms ex_q_bonds ex_o_atoms ex_o_bonds ex_tcomps Wq Wo Tc _ _ false None Hc)
    as (stream & E & _ & Hs).
  rewrite E1 in E. injection E as E. replace (auto_filter false [] stream) with stream in E by (symmetry; apply automorphism_filter_exact).
  apply Hs. rewrite <- E. left. reflexivity.
Qed.

(* ---------- the embeddings in the words of the property: ONE injective map of the whole pattern ---------- *)
Lemma NoDup_app_intro {T} : forall (a c : list T), NoDup a -> NoDup c -> (forall z, In z a -> In z c -> False) -> NoDup (a ++ c).
Proof.
  induction a as [|u a IHa]; intros c Ha Hc Hac; [exact Hc|].
  inversion Ha as [|? ? Hu Ha']; subst. cbn. constructor.
  - rewrite in_app_iff. intros [H|H]; [contradiction | apply (Hac u); [left; reflexivity | exact H]].
  - apply IHa; [exact Ha' | exact Hc |]. intros z H1 H2. apply (Hac z); [right; exact H1 | exact H2].
Qed.

Lemma NoDup_app_r {T} (a c : list T) : NoDup (a ++ c) -> NoDup c.
Proof. induction a as [|x a IH]; intros H; [exact H|]. cbn in H. inversion H; subst. apply IH. assumption. Qed.

Lemma Forall2_In_r {S T} (R : S -> T -> Prop) l1 l2 b : Forall2 R l1 l2 -> In b l2 -> exists a, In a l1 /\ R a b.
Proof.
  induction 1 as [|a0 b0 l1 l2 H _ IH]; intros Hb; [destruct Hb|]. destruct Hb as [<-|Hb]; [exists a0; split; [left; reflexivity | exact H]|].
  destruct (IH Hb) as (a & Ha & Hr). exists a. split; [right; exact Ha | exact Hr].
Qed.

Lemma Forall2_In_l {S T} (R : S -> T -> Prop) l1 l2 a : Forall2 R l1 l2 -> In a l1 -> exists b, In b l2 /\ R a b.
Proof.
  induction 1 as [|a0 b0 l1 l2 H _ IH]; intros Ha; [destruct Ha|]. destruct Ha as [<-|Ha]; [exists b0; split; [left; reflexivity | exact H]|].
  destruct (IH Ha) as (b & Hb & Hr). exists b. split; [right; exact Hb | exact Hr].
Qed.

Lemma Forall2_exists_l {S T} (P : S -> T -> Prop) : forall (l2 : list T), (forall b, In b l2 -> exists a, P a b) -> exists l1, Forall2 P l1 l2.
Proof.
  induction l2 as [|b l2 IH]; intros H; [exists []; constructor|].
  destruct (H b (or_introl eq_refl)) as [a Ha]. destruct IH as [l1 Hl]; [intros b' Hb'; apply H; right; exact Hb'|].
  exists (a :: l1). constructor; assumption.
Qed.

Section Global.
  Variables QA A QB B : Type.
  Variable amatch : QA -> A -> bool.
  Variable bmatch : QB -> B -> bool.
  Variable q_atoms : list (Z * QA).
  Variable q_bonds : list (Z * list (Z * QB)).
  Variable o_atoms : list (Z * A).
  Variable o_bonds : list (Z * list (Z * B)).
  Variable tcomps : list (list Z).
  Variable comps : list (list (lentry QA QB)).
  Variable clo : closures_t QB.
  Hypothesis wf_q : wf_adj q_atoms q_bonds.
  Hypothesis wf_o : wf_adj o_atoms o_bonds.
  Hypothesis tc_ok : tcomps_ok A B o_atoms o_bonds tcomps.
  Hypothesis c_ok : compiled_ok q_atoms q_bonds comps clo.

  Notation emb := (induced_embedding amatch bmatch q_atoms q_bonds o_atoms o_bonds).
  Notation slist := (scope_list A o_atoms).
  Notation aof := (map (@fst4 QA QB)).
  Notation membed := (multi_embedding QA A QB B amatch bmatch q_atoms q_bonds o_atoms o_bonds tcomps comps).

  (* two pattern atoms in one pattern component / two target atoms in one target component *)
  Definition same_qcomp (x1 x2 : Z) : Prop := exists c, In c comps /\ In x1 (aof c) /\ In x2 (aof c).
  Definition same_tcomp (y1 y2 : Z) : Prop := exists cand, In cand tcomps /\ In y1 cand /\ In y2 cand.

  (* f maps ALL pattern atoms (listed component after component) injectively into the scope, atoms match, for EVERY two
     pattern atoms bond <-> bond (matching) and no bond <-> no bond, and two pattern atoms lie in one pattern component
     exactly when their images lie in one target component *)
  Definition global_embedding (scope : option (list Z)) (f : mapping) : Prop :=
    emb (concat (map aof comps)) (slist scope) f /\
    forall x1 y1 x2 y2, In (x1, y1) f -> In (x2, y2) f -> (same_qcomp x1 x2 <-> same_tcomp y1 y2).

  Notation Pc := (fun cand (fi : mapping) => In cand tcomps /\ forall y, In y (image fi) -> In y cand).

  Lemma q_cross c x1 x2 rest : In c comps -> In x1 (aof c) -> In x2 rest -> (forall z, In z (aof c) -> In z rest -> False) ->
    bond_get q_bonds x1 x2 = None /\ bond_get q_bonds x2 x1 = None /\ ~ same_qcomp x1 x2 /\ ~ same_qcomp x2 x1.
  Proof.
    intros Hc H1 H2 Hd. destruct c_ok as (_ & _ & Hcl). destruct wf_q as (_ & _ & _ & _ & _ & Hsym).
    assert (E : bond_get q_bonds x1 x2 = None).
    { destruct (bond_get q_bonds x1 x2) as [bd|] eqn:E; [|reflexivity]. exfalso. unfold bond_get in E. apply zget_Some_key in E.
      apply (Hd x2); [apply (Hcl c x1 x2 Hc H1 E) | exact H2]. }
    assert (Hs : ~ same_qcomp x1 x2).
    { intros (c' & Hc' & G1 & G2). assert (c' = c) by (apply (same_comp QA QB q_atoms q_bonds comps clo wf_q c_ok c' c x1); assumption).
      subst c'. apply (Hd x2 G2 H2). }
    split; [exact E|]. split; [rewrite <- Hsym; exact E|]. split; [exact Hs|]. intros (c' & Hc' & G1 & G2). apply Hs. exists c'. auto.
  Qed.

  Lemma o_cross cand cand' y1 y2 : In cand tcomps -> In cand' tcomps -> cand <> cand' -> In y1 cand -> In y2 cand' ->
    bond_get o_bonds y1 y2 = None /\ bond_get o_bonds y2 y1 = None /\ ~ same_tcomp y1 y2 /\ ~ same_tcomp y2 y1.
  Proof.
    intros Hc Hc' Hne H1 H2. destruct tc_ok as (_ & T2 & _ & Td). destruct wf_o as (_ & _ & _ & _ & _ & Hsym).
    assert (E : bond_get o_bonds y1 y2 = None).
    { destruct (bond_get o_bonds y1 y2) as [bd|] eqn:E; [|reflexivity]. exfalso. unfold bond_get in E. apply zget_Some_key in E.
      apply Hne. apply (Td cand cand' y2 Hc Hc'); [apply (T2 cand y1 y2 Hc H1 E) | exact H2]. }
    assert (Hs : ~ same_tcomp y1 y2).
    { intros (c'' & Hc'' & G1 & G2). apply Hne. rewrite <- (Td c'' cand y1 Hc'' Hc G1 H1). apply (Td c'' cand' y2 Hc'' Hc' G2 H2). }
    split; [exact E|]. split; [rewrite <- Hsym; exact E|]. split; [exact Hs|]. intros (c'' & Hc'' & G1 & G2). apply Hs. exists c''. auto.
  Qed.

  Lemma membed_global_aux scope : forall cs fs, Forall2 (fun c fi => emb (aof c) (slist scope) fi) cs fs ->
    forall cands, incl cs comps -> NoDup (concat (map aof cs)) -> Forall2 Pc cands fs -> NoDup cands ->
    emb (concat (map aof cs)) (slist scope) (concat fs) /\
    (forall x1 y1 x2 y2, In (x1, y1) (concat fs) -> In (x2, y2) (concat fs) -> (same_qcomp x1 x2 <-> same_tcomp y1 y2)) /\
    (forall x y, In (x, y) (concat fs) -> In x (concat (map aof cs)) /\ exists cand, In cand cands /\ In y cand).
  Proof.
    induction 1 as [|c fi cs fs He _ IH]; intros cands Hincl Hn F2 Hnc.
    - cbn. split; [|split; [intros ? ? ? ? [] | intros ? ? []]].
      unfold induced_embedding. cbn. split; [reflexivity|]. split; [constructor|]. split; intros; contradiction.
    - inversion F2 as [|cand fi' cands' fs' [Hcand Him] F2']; subst. inversion Hnc as [|? ? Hcn Hnc']; subst.
      cbn [map concat] in Hn |- *.
      assert (Hc : In c comps) by (apply Hincl; left; reflexivity).
      assert (Hdis : forall z, In z (aof c) -> In z (concat (map aof cs)) -> False) by (intros z; apply (NoDup_app_disj _ _ z Hn)).
      destruct (IH cands' (fun z Hz => Hincl z (or_intror Hz)) (NoDup_app_r _ _ Hn) F2' Hnc') as (E' & Sep' & Loc').
      pose proof He as (Hk & Hni & Hat & Hbd). pose proof E' as (Hk' & Hni' & Hat' & Hbd').
      assert (Hhead : forall x y, In (x, y) fi -> In x (aof c) /\ In y cand).
      { intros x y Hxy. split; [rewrite <- Hk; apply (in_map fst) in Hxy; exact Hxy | apply Him; apply (in_map snd) in Hxy; exact Hxy]. }
      assert (Htail : forall x y, In (x, y) (concat fs) -> In x (concat (map aof cs)) /\ exists cand', In cand' tcomps /\ cand <> cand' /\ In y cand').
      { intros x y Hxy. destruct (Loc' x y Hxy) as (Hx & cand' & Hc' & Hy). split; [exact Hx|]. exists cand'.
        destruct (Forall2_In_l _ _ _ cand' F2' Hc') as (fj & _ & Ht & _). split; [exact Ht|]. split; [intros ->; contradiction | exact Hy]. }
      assert (Hcross : forall x1 y1 x2 y2, In (x1, y1) fi -> In (x2, y2) (concat fs) ->
                bond_get q_bonds x1 x2 = None /\ bond_get q_bonds x2 x1 = None /\ ~ same_qcomp x1 x2 /\ ~ same_qcomp x2 x1 /\
                bond_get o_bonds y1 y2 = None /\ bond_get o_bonds y2 y1 = None /\ ~ same_tcomp y1 y2 /\ ~ same_tcomp y2 y1).
      { intros x1 y1 x2 y2 H1 H2. destruct (Hhead _ _ H1) as [Hx1 Hy1]. destruct (Htail _ _ H2) as (Hx2 & cand' & Hc' & Hne & Hy2).
        destruct (q_cross c x1 x2 _ Hc Hx1 Hx2 Hdis) as (Q1 & Q2 & Q3 & Q4).
        destruct (o_cross cand cand' y1 y2 Hcand Hc' Hne Hy1 Hy2) as (O1 & O2 & O3 & O4). repeat split; assumption. }
      split; [|split].
      + unfold induced_embedding. split; [rewrite map_app, Hk, Hk'; reflexivity|]. split; [|split].
        * unfold image. rewrite map_app. apply NoDup_app_intro; [exact Hni | exact Hni' |].
          intros y H1 H2. apply in_map_iff in H1. destruct H1 as ([x1 y1] & E1 & H1). apply in_map_iff in H2. destruct H2 as ([x2 y2] & E2 & H2).
          cbn in E1, E2. subst y1 y2. destruct (Hhead _ _ H1) as [_ Hy1]. destruct (Htail _ _ H2) as (_ & cand' & Hc' & Hne & Hy2).
          apply Hne. destruct tc_ok as (_ & _ & _ & Td). apply (Td cand cand' y Hcand Hc' Hy1 Hy2).
        * intros x y Hxy. apply in_app_or in Hxy. destruct Hxy as [H|H]; [apply (Hat x y H) | apply (Hat' x y H)].
        * intros x1 y1 x2 y2 H1 H2. apply in_app_or in H1. apply in_app_or in H2. destruct H1 as [H1|H1], H2 as [H2|H2].
          -- apply (Hbd _ _ _ _ H1 H2).
          -- destruct (Hcross _ _ _ _ H1 H2) as (Q1 & _ & _ & _ & O1 & _). rewrite Q1, O1. exact I.
          -- destruct (Hcross _ _ _ _ H2 H1) as (_ & Q2 & _ & _ & _ & O2 & _). rewrite Q2, O2. exact I.
          -- apply (Hbd' _ _ _ _ H1 H2).
      + intros x1 y1 x2 y2 H1 H2. apply in_app_or in H1. apply in_app_or in H2. destruct H1 as [H1|H1], H2 as [H2|H2].
        * destruct (Hhead _ _ H1) as [Hx1 Hy1]. destruct (Hhead _ _ H2) as [Hx2 Hy2].
          split; intros _; [exists cand | exists c]; auto.
        * destruct (Hcross _ _ _ _ H1 H2) as (_ & _ & Q3 & _ & _ & _ & O3 & _). tauto.
        * destruct (Hcross _ _ _ _ H2 H1) as (_ & _ & _ & Q4 & _ & _ & _ & O4). tauto.
        * apply (Sep' _ _ _ _ H1 H2).
      + intros x y Hxy. apply in_app_or in Hxy. destruct Hxy as [H|H].
        * destruct (Hhead _ _ H) as [Hx Hy]. split; [apply in_or_app; left; exact Hx | exists cand; split; [left; reflexivity | exact Hy]].
        * destruct (Loc' x y H) as (Hx & cand' & Hc' & Hy). split; [apply in_or_app; right; exact Hx | exists cand'; split; [right; exact Hc' | exact Hy]].
  Qed.

  Lemma comps_concat_NoDup : NoDup (concat (map aof comps)).
  Proof. destruct c_ok as (P & _). apply (Permutation_NoDup (Permutation_sym P)). apply wf_q. Qed.

  Theorem membed_is_global scope f : membed scope f -> global_embedding scope f.
  Proof.
    intros (fs & cands & -> & F1 & F2 & Hn).
    destruct (membed_global_aux scope comps fs F1 cands (incl_refl _) comps_concat_NoDup F2 Hn) as (E & Sep & _).
    split; assumption.
  Qed.

  (* ---- the converse: cut a global embedding into its components ---- *)
  Lemma split_by_keys : forall (cs : list (list (lentry QA QB))) (f : mapping), map fst f = concat (map aof cs) ->
    exists fs, f = concat fs /\ Forall2 (fun c (fi : mapping) => map fst fi = aof c) cs fs.
  Proof.
    induction cs as [|c cs IH]; intros f H.
    - cbn in H. destruct f; [|discriminate]. exists []. split; [reflexivity | constructor].
    - cbn [map concat] in H. apply map_eq_app in H. destruct H as (f1 & f2 & -> & H1 & H2).
      destruct (IH f2 H2) as (fs & -> & F). exists (f1 :: fs). split; [reflexivity | constructor; assumption].
  Qed.

  Lemma NoDup_map_app_l {S T} (g : S -> T) (a c : list S) : NoDup (map g (a ++ c)) -> NoDup (map g a).
  Proof. rewrite map_app. apply NoDup_app_l. Qed.

  (* pieces of one map that respects the components go to pairwise different target components *)
  Lemma cands_NoDup_aux (f : mapping) :
    (forall x1 y1 x2 y2, In (x1, y1) f -> In (x2, y2) f -> same_tcomp y1 y2 -> same_qcomp x1 x2) ->
    forall cs' fs', Forall2 (fun c (fi : mapping) => map fst fi = aof c) cs' fs' ->
    forall cands, Forall2 Pc cands fs' ->
    (forall fi, In fi fs' -> incl fi f) ->
    (forall fi, In fi fs' -> exists c x0 y0 r, In c comps /\ map fst fi = aof c /\ fi = (x0, y0) :: r) ->
    NoDup (concat (map aof cs')) -> NoDup cands.
  Proof.
    intros Sep. induction 1 as [|c fi cs' fs' Hkc FK' IH]; intros cands F2 Hsub Hne Hn;
      inversion F2 as [|cand ? cands' ? [Hcand Him] F2']; subst; constructor.
    - intros Hin. destruct (Forall2_In_l _ _ _ cand F2' Hin) as (fj & Hfj & _ & Himj).
      destruct (Hne fi (or_introl eq_refl)) as (ci & xi & yi & ri & Hci & Hki & Ei).
      destruct (Hne fj (or_intror Hfj)) as (cj & xj & yj & rj & Hcj & Hkj & Ej).
      assert (Hi : In (xi, yi) fi) by (rewrite Ei; left; reflexivity). assert (Hj : In (xj, yj) fj) by (rewrite Ej; left; reflexivity).
      assert (Hs : same_tcomp yi yj).
      { exists cand. split; [exact Hcand|]. split; [apply Him; apply (in_map snd) in Hi; exact Hi | apply Himj; apply (in_map snd) in Hj; exact Hj]. }
      apply (Sep xi yi xj yj (Hsub fi (or_introl eq_refl) _ Hi) (Hsub fj (or_intror Hfj) _ Hj)) in Hs.
      destruct Hs as (c'' & Hc'' & G1 & G2).
      assert (Hxi : In xi (aof ci)) by (rewrite <- Hki; apply (in_map fst) in Hi; exact Hi).
      assert (c'' = ci) by (apply (same_comp QA QB q_atoms q_bonds comps clo wf_q c_ok c'' ci xi); assumption). subst c''.
      cbn [map concat] in Hn. apply (NoDup_app_disj _ _ xj Hn).
      + rewrite <- Hkc, Hki. exact G2.
      + destruct (Forall2_In_r _ _ _ fj FK' Hfj) as (c2 & Hc2 & Hk2). apply in_concat. exists (aof c2). split; [apply in_map; exact Hc2|].
        rewrite <- Hk2. apply (in_map fst) in Hj. exact Hj.
    - apply (IH cands' F2'); [intros g Hg; apply Hsub; right; exact Hg | intros g Hg; apply Hne; right; exact Hg |].
      cbn [map concat] in Hn. apply (NoDup_app_r _ _ Hn).
  Qed.

  Theorem global_is_membed scope f : global_embedding scope f -> membed scope f.
  Proof.
    intros ((Hk & Hni & Hat & Hbd) & Sep).
    destruct (split_by_keys comps f Hk) as (fs & -> & FK).
    pose proof c_ok as (_ & Hl & _). pose proof tc_ok as (T1 & _ & _ & Td).
    (* every piece is an embedding of its component *)
    assert (Hpiece : forall cs' fs', Forall2 (fun c (fi : mapping) => map fst fi = aof c) cs' fs' -> (forall fi, In fi fs' -> incl fi (concat fs)) ->
              NoDup (image (concat fs')) -> Forall2 (fun c fi => emb (aof c) (slist scope) fi) cs' fs').
    { induction 1 as [|c fi cs' fs' Hkc _ IH]; intros Hin Hnd; constructor.
      - unfold induced_embedding. split; [exact Hkc|]. split; [cbn in Hnd; apply (NoDup_map_app_l snd _ _ Hnd)|]. split.
        + intros x y Hxy. apply (Hat x y). apply (Hin fi (or_introl eq_refl)). exact Hxy.
        + intros x1 y1 x2 y2 H1 H2. apply Hbd; apply (Hin fi (or_introl eq_refl)); assumption.
      - apply IH; [intros g Hg; apply Hin; right; exact Hg|]. cbn in Hnd. unfold image in Hnd. rewrite map_app in Hnd. apply (NoDup_app_r _ _ Hnd). }
    assert (Hsub : forall fi, In fi fs -> incl fi (concat fs)) by (intros fi Hfi z Hz; apply in_concat; exists fi; split; assumption).
    pose proof (Hpiece comps fs FK Hsub Hni) as F1.
    (* the target component of every piece *)
    assert (Hne : forall fi, In fi fs -> exists c x0 y0 r, In c comps /\ map fst fi = aof c /\ fi = (x0, y0) :: r).
    { intros fi Hfi. destruct (Forall2_In_r _ _ _ fi FK Hfi) as (c & Hc & Hkc). destruct (Hl c Hc) as [Hcn _].
      destruct fi as [|[x0 y0] r]; [destruct c; [congruence | discriminate]|]. exists c, x0, y0, r. auto. }
    assert (Hex : forall fi, In fi fs -> exists cand, Pc cand fi).
    { intros fi Hfi. destruct (Hne fi Hfi) as (c & x0 & y0 & r & Hc & Hkc & ->).
      assert (H0 : In (x0, y0) (concat fs)) by (apply (Hsub _ Hfi); left; reflexivity).
      destruct (Hat x0 y0 H0) as (_ & qa & oa & _ & Ho & _). destruct (T1 y0 (zget_Some_key _ _ _ Ho)) as (cand & Hcand & Hy0).
      exists cand. split; [exact Hcand|]. intros y Hy. unfold image in Hy. apply in_map_iff in Hy. destruct Hy as ([x y'] & E & Hxy). cbn in E. subst y'.
      assert (Hs : same_qcomp x0 x).
      { exists c. split; [exact Hc|]. rewrite <- Hkc. split; [left; reflexivity | apply (in_map fst) in Hxy; exact Hxy]. }
      apply (Sep x0 y0 x y H0 (Hsub _ Hfi _ Hxy)) in Hs. destruct Hs as (cand' & Hc' & G1 & G2).
      rewrite (Td cand cand' y0 Hcand Hc' Hy0 G1). exact G2. }
    destruct (Forall2_exists_l _ fs Hex) as [cands F2].
    exists fs, cands. split; [reflexivity|]. split; [exact F1|]. split; [exact F2|].
    apply (cands_NoDup_aux (concat fs)) with (cs' := comps) (fs' := fs); try assumption; [|apply comps_concat_NoDup].
    intros x1 y1 x2 y2 H1 H2 Hs. apply (Sep x1 y1 x2 y2 H1 H2). exact Hs.
  Qed.

  Theorem multi_embedding_iff_global scope f : membed scope f <-> global_embedding scope f.
  Proof. split; [apply membed_is_global | apply global_is_membed]. Qed.
End Global.

(* pattern.get_mapping(target, automorphism_filter=False, searching_scope=scope) in the words of the property *)
Theorem get_mapping_global_exact : forall (QA A QB B : Type) (amatch : QA -> A -> bool) (bmatch : QB -> B -> bool)
    (q_atoms : list (Z * QA)) (q_bonds : list (Z * list (Z * QB))) (o_atoms : list (Z * A)) (o_bonds : list (Z * list (Z * B)))
    (tcomps : list (list Z)),
  wf_adj q_atoms q_bonds -> wf_adj o_atoms o_bonds -> tcomps_ok A B o_atoms o_bonds tcomps ->
  exists comps clo, compile_query q_atoms q_bonds = Ok (comps, clo) /\
    Permutation (concat (map (map fst4) comps)) (keys q_atoms) /\
    forall scope, exists res,
      mol_get_mapping amatch bmatch q_atoms q_bonds o_atoms o_bonds tcomps false scope = Ok res /\
      NoDup res /\
      forall f, In f res <-> global_embedding QA A QB B amatch bmatch q_atoms q_bonds o_atoms o_bonds tcomps comps scope f.
Proof.
  intros QA A QB B amatch bmatch q_atoms q_bonds o_atoms o_bonds tcomps Wq Wo Tc.
  destruct (compile_query_total QA QB q_atoms q_bonds Wq) as (comps & clo & Hc). exists comps, clo. split; [exact Hc|].
  pose proof (compile_query_spec _ _ _ _ Wq _ _ Hc) as Hok. split; [apply Hok|]. intros scope.
  destruct (get_mapping_filtered_exact QA A QB B amatch bmatch q_atoms q_bonds o_atoms o_bonds tcomps Wq Wo Tc comps clo scope Hc)
    as (_ & res & E & Hn & Hs).
  exists res. split; [exact E|]. split; [exact Hn|]. intros f. rewrite (Hs f).
  apply (multi_embedding_iff_global QA A QB B amatch bmatch q_atoms q_bonds o_atoms o_bonds tcomps comps clo Wq Wo Tc Hok).
Qed.

(* is_equal answers True only for isomorphic graphs: the embedding found is then a bijection between ALL atoms of the two
   graphs that preserves atoms and, in both directions, bonds.  (The converse -- every isomorphism is found -- follows from
   get_mapping_global_exact only together with `an isomorphism maps components onto components`, which is not proved here;
   the brute-force search covers it.) *)
Theorem is_equal_true_isomorphism : forall (QA A QB B : Type) (amatch : QA -> A -> bool) (bmatch : QB -> B -> bool)
    (q_atoms : list (Z * QA)) (q_bonds : list (Z * list (Z * QB))) (o_atoms : list (Z * A)) (o_bonds : list (Z * list (Z * B)))
    (tcomps : list (list Z)),
  wf_adj q_atoms q_bonds -> wf_adj o_atoms o_bonds -> tcomps_ok A B o_atoms o_bonds tcomps ->
  is_equal amatch bmatch q_atoms q_bonds o_atoms o_bonds tcomps = Ok true ->
  exists f : mapping,
    Permutation (map fst f) (keys q_atoms) /\ Permutation (image f) (keys o_atoms) /\
    (forall x y, In (x, y) f -> exists qa oa, zget q_atoms x = Some qa /\ zget o_atoms y = Some oa /\ amatch qa oa = true) /\
    (forall x1 y1 x2 y2, In (x1, y1) f -> In (x2, y2) f ->
       match bond_get q_bonds x1 x2, bond_get o_bonds y1 y2 with
       | Some qb, Some ob => bmatch qb ob = true
       | None, None => True
       | _, _ => False
       end).
Proof.
  intros QA A QB B amatch bmatch q_atoms q_bonds o_atoms o_bonds tcomps Wq Wo Tc He.
  destruct (compile_query_total QA QB q_atoms q_bonds Wq) as (comps & clo & Hc).
  pose proof (compile_query_spec _ _ _ _ Wq _ _ Hc) as Hok.
  destruct (is_equal_iff QA A QB B amatch bmatch q_atoms q_bonds o_atoms o_bonds tcomps Wq Wo Tc comps clo Hc) as (b & E & Hb).
  rewrite He in E. injection E as <-. destruct (proj1 Hb eq_refl) as (Hlen & f & Hf).
  apply (multi_embedding_iff_global QA A QB B amatch bmatch q_atoms q_bonds o_atoms o_bonds tcomps comps clo Wq Wo Tc Hok) in Hf.
  destruct Hf as ((Hk & Hni & Hat & Hbd) & _). destruct Hok as (P & _).
  exists f. split; [rewrite Hk; exact P|]. split; [|split; [|exact Hbd]].
  - apply NoDup_Permutation_bis; [exact Hni | |].
    + unfold image, keys. rewrite !map_length. rewrite <- Hlen.
      rewrite <- (map_length fst f), Hk, (Permutation_length P). unfold keys. rewrite map_length. apply le_n.
    + intros y Hy. unfold image in Hy. apply in_map_iff in Hy. destruct Hy as ([x y'] & E & Hxy). cbn in E. subst y'.
      destruct (Hat x y Hxy) as (_ & qa & oa & _ & Ho & _). apply zget_Some_key in Ho. exact Ho.
  - intros x y Hxy. destruct (Hat x y Hxy) as (_ & H). exact H.
Qed.
