(* C06 -- round 4: the partial flush flush_cache(keep_sssr=True) after an edit that removes an atom with at most one neighbour
   (remove_metals: an isolated counter-ion; implicify_hydrogens: a terminal hydrogen), on the model graph "connectivity without
   coordinate bonds".  The edit is Proofs.RingsExt.prune (the atom leaves, its at most one neighbour forgets it).
     * rings_count survives rightly: the cyclomatic number is unchanged  (remove_atom_keeps_rings_count);
     * not_special_connectivity does NOT: the edited graph is never the old one (remove_atom_changes_connectivity), so
       "the cache left by flush_cache(keep_sssr=True) ALONE is valid for the edited structure" is REFUTED (this was the defect of
       remove_metals found in round 4 and repaired in /repo by fed0944; implicify / explicify_hydrogens: 55af6a9) and holds under the
       extra hypothesis that the attribute is not in the cache (_partial) -- which is what the three methods now ensure by dropping it
       right after the flush.
   Views that are not functions of the graph in the model (sssr, atoms_rings, atoms_rings_sizes: their value depends on CPython's set
   order, an oracle input of sssr_model) are the constant RVother here: their validity after such an edit is a search result
   (standardisation histories in harness/checks/C06.py), not part of these statements. *)
From Coq Require Import ZArith List Bool Lia String.
From Model Require Import PyBase Graph Rings.
From Gen Require Import RingsCacheKeys.
From Proofs Require Import RingsProofs RingsMcb RingsExt RingsCacheTie.
Import ListNotations.
Open Scope Z_scope.

Inductive rview := RVgraph (g : graph) | RVcount (r : pyres Z) | RVother.

Definition ring_view (k : string) (g : graph) : rview :=
  if String.eqb k "not_special_connectivity" then RVgraph g
  else if String.eqb k "rings_count" then RVcount (rings_count g)
  else RVother.

Theorem remove_atom_keeps_rings_count : forall g n ms, gwf g -> In (n, ms) g -> (List.length ms <= 1)%nat ->
  rings_count (prune g n ms) = rings_count g.
Proof.
  intros g n ms W I T. rewrite (rings_count_ok g W), (rings_count_ok _ (prune_wf g n ms W I)).
  rewrite (prune_keeps_cyclomatic g n ms W I T). reflexivity.
Qed.

Lemma filter_len_le {A} (f : A -> bool) (l : list A) : (List.length (filter f l) <= List.length l)%nat.
Proof. induction l as [|x l IH]; cbn [filter List.length]; [lia|]. destruct (f x); cbn [List.length]; lia. Qed.

Theorem remove_atom_changes_connectivity : forall g n ms, In (n, ms) g -> prune g n ms <> g.
Proof.
  intros g n ms I E. assert (L : List.length (keys (prune g n ms)) = List.length (keys g)) by (rewrite E; reflexivity).
  rewrite prune_keys in L. assert (Hn : In n (keys g)) by (apply in_map_iff; exists (n, ms); split; [reflexivity | exact I]).
  clear - L Hn. revert L. generalize (keys g) Hn. intros l. induction l as [|x l IH]; intros H L; [destruct H|].
  cbn [filter] in L. destruct (negb (x =? n)) eqn:B.
  - cbn [List.length] in L. destruct H as [H|H]; [subst x; rewrite Z.eqb_refl in B; discriminate|]. apply IH; [exact H | lia].
  - pose proof (filter_len_le (fun k : Z => negb (Z.eqb k n)) l) as X. cbn [List.length] in L. lia.
Qed.

Definition nsc_key : string := "not_special_connectivity".
Definition ring_cache_valid := cache_valid rview graph ring_view.

(* FULL statement (false): the cache left by flush_cache(keep_sssr=True) after removing an atom with at most one neighbour is valid *)
Definition partial_flush_valid_after_atom_removal : Prop :=
  forall g n ms (c : cache_t rview), gwf g -> In (n, ms) g -> (List.length ms <= 1)%nat -> NoDup (map fst c) -> ring_cache_valid g c ->
  ring_cache_valid (prune g n ms) (gen_flush_cache rview true false c).

(* witness: sodium next to a bonded pair, not_special_connectivity read before remove_metals *)
Theorem partial_flush_valid_after_atom_removal_refuted : ~ partial_flush_valid_after_atom_removal.
Proof.
  intro H. set (g := [(1, []); (2, [3]); (3, [2])] : graph).
  set (c := [("not_special_connectivity"%string, RVgraph g)] : cache_t rview).
  assert (W : gwf g) by (apply gwf_b_sound; vm_compute; reflexivity).
  assert (V : ring_cache_valid g c).
  { intros k v G. unfold c in G. cbn [cget] in G. destruct (String.eqb "not_special_connectivity" k) eqn:E; [|discriminate].
    apply String.eqb_eq in E. subst k. inversion G. reflexivity. }
  assert (ND : NoDup (map fst c)) by (unfold c; cbn [map fst]; constructor; [intros []|constructor]).
  specialize (H g 1 [] c W (or_introl eq_refl) (Nat.le_0_l 1) ND V).
  specialize (H "not_special_connectivity"%string (RVgraph g) eq_refl). vm_compute in H. discriminate.
Qed.

(* PARTIAL: it is valid when not_special_connectivity was not cached (what implicify / explicify_hydrogens ensure by dropping it) *)
Theorem partial_flush_valid_after_atom_removal_partial :
  forall g n ms (c : cache_t rview), gwf g -> In (n, ms) g -> (List.length ms <= 1)%nat -> NoDup (map fst c) -> ring_cache_valid g c ->
  cget rview c nsc_key = None ->
  ring_cache_valid (prune g n ms) (gen_flush_cache rview true false c).
Proof.
  intros g n ms c W I T ND V N k v G. rewrite flush_cache_keeps in G by exact ND.
  destruct ((true && smem k ring_keys) || (false && String.eqb components_key k)) eqn:K; [|discriminate].
  rewrite (V k v G). unfold ring_view.
  destruct (String.eqb k "not_special_connectivity") eqn:E1.
  - apply String.eqb_eq in E1. subst k. unfold nsc_key in N. rewrite N in G. discriminate.
  - destruct (String.eqb k "rings_count"); [|reflexivity]. rewrite (remove_atom_keeps_rings_count g n ms W I T). reflexivity.
Qed.
