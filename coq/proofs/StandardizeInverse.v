(* C14 round 3: implicify_hydrogens undoes explicify_hydrogens (general theorem) *)
From Coq Require Import ZArith List String Bool Lia.
From Model Require Import PyBase Graph PeriodicTable Standardize.
From Gen Require Import Elements StdRules.
From Proofs Require Import StandardizeProofs StandardizeExt StandardizeImplicify StandardizeHydGen.
Import ListNotations.
Open Scope Z_scope.

(* ---- the adjacency explicify builds ---- *)
Fixpoint hs_of (k : Z) (ns : list Z) (m : Z) : list Z :=
  match ns with [] => [] | n :: r => (if k =? n then [m] else []) ++ hs_of k r (m + 1) end.
Fixpoint new_adj (ns : list Z) (m : Z) : list (Z * list (Z * bond)) :=
  match ns with [] => [] | n :: r => (m, [(n, single)]) :: new_adj r (m + 1) end.
Definition with_hs (ns : list Z) (m : Z) (nl : Z * list (Z * bond)) : Z * list (Z * bond) :=
  (fst nl, snd nl ++ map (fun x => (x, single)) (hs_of (fst nl) ns m)).

Lemma hs_of_fresh k ns : forall m, (forall x, In x ns -> x <> k) -> hs_of k ns m = [].
Proof.
  induction ns as [|n r IH]; intros m H; [reflexivity|]. cbn [hs_of].
  destruct (k =? n) eqn:E; [apply Z.eqb_eq in E; exfalso; exact (H n (or_introl eq_refl) (eq_sym E))|].
  cbn [app]. apply IH. intros x Hx. apply H. right. exact Hx.
Qed.

Lemma add_hs_adj ns : forall g m, (forall x, In x ns -> x < m) ->
  m_adj (add_hs g ns m) = map (with_hs ns m) (m_adj g) ++ new_adj ns m.
Proof.
  induction ns as [|n r IH]; intros g m Hlt; cbn [add_hs new_adj].
  - rewrite app_nil_r. symmetry. erewrite map_ext; [apply map_id|]. intros [k l]. unfold with_hs. cbn. rewrite app_nil_r. reflexivity.
  - rewrite IH by (intros x Hx; specialize (Hlt x (or_intror Hx)); lia).
    unfold add_h. cbn [m_adj]. rewrite map_app. cbn [map].
    assert (Hm : with_hs r (m + 1) (m, [(n, single)]) = (m, [(n, single)])).
    { unfold with_hs. cbn [fst snd]. rewrite hs_of_fresh; [reflexivity|]. intros x Hx. specialize (Hlt x (or_intror Hx)). lia. }
    rewrite Hm, <- app_assoc. cbn [app]. f_equal.
    rewrite map_map. apply map_ext. intros [k l]. unfold with_hs. cbn [fst snd hs_of].
    destruct (k =? n) eqn:E; cbn [fst snd].
    + rewrite <- app_assoc. reflexivity.
    + reflexivity.
Qed.

(* ---- the `explicit` dictionary the scan builds from the new hydrogens ---- *)
Definition dget (d : list (Z * list Z)) (k : Z) : list Z := match zget d k with Some l => l | None => [] end.
Fixpoint build (ns : list Z) (m : Z) (d : list (Z * list Z)) : list (Z * list Z) :=
  match ns with [] => d | n :: r => build r (m + 1) (dl_append d n m) end.

Lemma zget_dl_append d k v k' :
  zget (dl_append d k v) k' = if k' =? k then Some (dget d k' ++ [v]) else zget d k'.
Proof.
  unfold dget. induction d as [|[k0 l] d IH]; cbn [dl_append zget].
  - destruct (k' =? k); reflexivity.
  - destruct (k0 =? k) eqn:E0; cbn [zget].
    + apply Z.eqb_eq in E0. subst k0. destruct (k' =? k); reflexivity.
    + destruct (k' =? k0) eqn:E1.
      * apply Z.eqb_eq in E1. subst k0. rewrite E0. reflexivity.
      * exact IH.
Qed.
Lemma dget_dl_append d k v k' : dget (dl_append d k v) k' = if k' =? k then dget d k' ++ [v] else dget d k'.
Proof. unfold dget at 1. rewrite zget_dl_append. destruct (k' =? k); reflexivity. Qed.

Lemma dget_build ns : forall m d k, dget (build ns m d) k = dget d k ++ hs_of k ns m.
Proof.
  induction ns as [|n r IH]; intros m d k; cbn [build hs_of]; [rewrite app_nil_r; reflexivity|].
  rewrite IH, dget_dl_append. destruct (k =? n); [rewrite <- app_assoc; reflexivity|reflexivity].
Qed.
Lemma keys_build ns : forall m d x, In x (keys (build ns m d)) <-> In x (keys d) \/ In x ns.
Proof.
  induction ns as [|n r IH]; intros m d x; cbn [build]; [cbn; tauto|].
  rewrite IH, StandardizeImplicify.dl_append_keys. cbn [In]. intuition.
Qed.
Lemma keys_build_nodup ns : forall m d, NoDup (keys d) -> NoDup (keys (build ns m d)).
Proof.
  induction ns as [|n r IH]; intros m d H; cbn [build]; [exact H|]. apply IH. apply StandardizeImplicify.dl_append_keys_nodup. exact H.
Qed.
Lemma in_dget d k l : NoDup (keys d) -> In (k, l) d -> dget d k = l.
Proof. intros Hnd Hin. unfold dget. rewrite (StandardizeExt.In_zget d k l Hnd Hin). reflexivity. Qed.

(* facts about hs_of *)
Lemma hs_of_range k ns : forall m x, In x (hs_of k ns m) -> m <= x < m + Z.of_nat (List.length ns).
Proof.
  induction ns as [|n r IH]; intros m x H; [destruct H|]. cbn [hs_of] in H. cbn [List.length]. rewrite Nat2Z.inj_succ.
  apply in_app_or in H. destruct H as [H | H].
  - destruct (k =? n); [destruct H as [<- | []]; lia|destruct H].
  - specialize (IH (m + 1) x H). lia.
Qed.
Lemma hs_of_key k ns : forall m x, In x (hs_of k ns m) -> In k ns.
Proof.
  induction ns as [|n r IH]; intros m x H; [destruct H|]. cbn [hs_of] in H. apply in_app_or in H. destruct H as [H | H].
  - destruct (k =? n) eqn:E; [apply Z.eqb_eq in E; left; congruence|destruct H].
  - right. exact (IH _ _ H).
Qed.
Lemma hs_of_nodup k ns : forall m, NoDup (hs_of k ns m).
Proof.
  induction ns as [|n r IH]; intros m; [constructor|]. cbn [hs_of]. destruct (k =? n); cbn [app]; [|apply IH].
  constructor; [|apply IH]. intros H. apply hs_of_range in H. lia.
Qed.
Lemma new_ids_covered ns : forall m x, m <= x < m + Z.of_nat (List.length ns) -> exists n, In n ns /\ In x (hs_of n ns m).
Proof.
  induction ns as [|n r IH]; intros m x H; cbn [List.length] in H; [lia|]. rewrite Nat2Z.inj_succ in H.
  destruct (Z.eq_dec x m) as [-> | Hne].
  - exists n. split; [left; reflexivity|]. cbn [hs_of]. rewrite Z.eqb_refl. left. reflexivity.
  - destruct (IH (m + 1) x ltac:(lia)) as [n' [Hn' Hx]]. exists n'. split; [right; exact Hn'|]. cbn [hs_of]. apply in_or_app. right. exact Hx.
Qed.

(* ---- generic association-list lemmas ---- *)
Lemma zget_app {V} (a b : list (Z * V)) k : zget (a ++ b) k = match zget a k with Some v => Some v | None => zget b k end.
Proof. induction a as [|[k' v] a IH]; [reflexivity|]. cbn [app zget]. destruct (k =? k'); [reflexivity|exact IH]. Qed.
Lemma zget_none {V} (a : list (Z * V)) k : ~ In k (keys a) -> zget a k = None.
Proof.
  induction a as [|[k' v] a IH]; intros H; [reflexivity|]. cbn [zget]. destruct (k =? k') eqn:E.
  - apply Z.eqb_eq in E. subst. exfalso. apply H. left. reflexivity.
  - apply IH. intros Hin. apply H. right. exact Hin.
Qed.
Lemma zget_map_val {V W} (f : Z -> V -> W) (l : list (Z * V)) k :
  zget (map (fun kv => (fst kv, f (fst kv) (snd kv))) l) k = option_map (f k) (zget l k).
Proof.
  induction l as [|[k' v] l IH]; [reflexivity|]. cbn [map zget fst snd]. destruct (k =? k') eqn:E; [|exact IH].
  apply Z.eqb_eq in E. subst. reflexivity.
Qed.
Lemma zmax_ge l : forall x, In x l -> x <= zmax l.
Proof.
  unfold zmax. induction l as [|y l IH]; intros x H; [destruct H|]. cbn [fold_right]. destruct H as [-> | H]; [apply Z.le_max_l|].
  specialize (IH x H). etransitivity; [exact IH|apply Z.le_max_r].
Qed.
Lemma new_hs_keys k : forall m x a, In (x, a) (new_hs k m) -> m <= x < m + Z.of_nat k /\ a = h_atom.
Proof.
  induction k as [|k IH]; intros m x a H; [destruct H|]. cbn [new_hs] in H. rewrite Nat2Z.inj_succ. destruct H as [H | H].
  - inversion H; subst. split; [lia|reflexivity].
  - destruct (IH _ _ _ H) as [H1 H2]. split; [lia|exact H2].
Qed.
Lemma hs_of_app k a : forall b m, hs_of k (a ++ b) m = hs_of k a m ++ hs_of k b (m + Z.of_nat (List.length a)).
Proof.
  induction a as [|n a IH]; intros b m; cbn [app hs_of List.length]; [rewrite Z.add_0_r; reflexivity|].
  rewrite IH, <- app_assoc, Nat2Z.inj_succ. replace (m + 1 + Z.of_nat (List.length a)) with (m + Z.succ (Z.of_nat (List.length a))) by lia. reflexivity.
Qed.
Lemma hs_of_repeat k n c : forall m, List.length (hs_of k (repeat n c) m) = if k =? n then c else 0%nat.
Proof.
  induction c as [|c IH]; intros m; cbn [repeat hs_of]; [destruct (k =? n); reflexivity|].
  rewrite app_length, IH. destruct (k =? n); reflexivity.
Qed.

(* to_add lists the atom n exactly (its hydrogen count) times *)
Lemma to_add_keys l : forall ns, to_add l = Ok ns -> forall x, In x ns -> exists a h, In (x, a) l /\ a_h a = Some h /\ 0 < h.
Proof.
  induction l as [|[k a] l IH]; intros ns H x Hx; cbn [to_add] in H; [inversion H; subst; destruct Hx|].
  destruct (a_h a) as [h|] eqn:Eh; [|discriminate]. destruct (to_add l) as [t|] eqn:Et; [|discriminate]. inversion H; subst ns.
  apply in_app_or in Hx. destruct Hx as [Hx | Hx].
  - pose proof (repeat_spec _ _ _ Hx) as Hxk. subst x. exists a, h. split; [left; reflexivity|]. split; [exact Eh|].
    destruct (Z.to_nat h) eqn:E; [cbn in Hx; destruct Hx|lia].
  - destruct (IH t eq_refl x Hx) as [a' [h' [H1 H2]]]. exists a', h'. split; [right; exact H1|exact H2].
Qed.

Lemma to_add_count l : forall ns, to_add l = Ok ns -> NoDup (keys l) ->
  forall n a h m, In (n, a) l -> a_h a = Some h -> List.length (hs_of n ns m) = Z.to_nat h.
Proof.
  induction l as [|[k a0] l IH]; intros ns H Hnd n a h m Hin Hh; [destruct Hin|]. cbn [to_add] in H.
  destruct (a_h a0) as [h0|] eqn:Eh0; [|discriminate]. destruct (to_add l) as [t|] eqn:Et; [|discriminate]. inversion H; subst ns.
  cbn [keys map fst] in Hnd. inversion Hnd as [|? ? Hk Hnd']; subst.
  rewrite hs_of_app, app_length, hs_of_repeat. destruct Hin as [Heq | Hin].
  - inversion Heq; subst k a0. rewrite Z.eqb_refl. rewrite Eh0 in Hh. inversion Hh; subst h0.
    rewrite (hs_of_fresh n t); [cbn; lia|]. intros x Hx ->.
    destruct (to_add_keys l t Et n Hx) as [a' [h' [Hin' _]]]. apply Hk. unfold keys. apply (in_map fst) in Hin'. exact Hin'.
  - assert (Hne : (n =? k) = false).
    { apply Z.eqb_neq. intros ->. apply Hk. unfold keys. apply (in_map fst) in Hin. exact Hin. }
    rewrite Hne. cbn [Nat.add]. exact (IH t eq_refl Hnd' n a h _ Hin Hh).
Qed.

Lemma scan_app g l1 : forall l2 d, scan_explicit g (l1 ++ l2) d =
  match scan_explicit g l1 d with Ok d1 => scan_explicit g l2 d1 | Err e => Err e end.
Proof.
  induction l1 as [|[n a] l1 IH]; intros l2 d; [reflexivity|]. cbn [app scan_explicit].
  destruct (is_protium a); [|apply IH]. destruct (1 <? _); [reflexivity|].
  destruct (scan_h_bonds g n (nbrs g n) d); [apply IH|reflexivity].
Qed.

(* set_hs with distinct keys, pointwise *)
Definition set_from (fx : list (Z * Z)) (na : Z * atom) : Z * atom :=
  match zget fx (fst na) with Some h => (fst na, set_h (Some h) (snd na)) | None => na end.
Lemma set_hs_map : forall fx g, NoDup (keys fx) ->
  m_atoms (set_hs g fx) = map (set_from fx) (m_atoms g) /\ m_adj (set_hs g fx) = m_adj g.
Proof.
  unfold set_hs. induction fx as [|[n h] fx IH]; intros g Hnd; cbn [fold_left].
  - split; [|reflexivity]. symmetry. erewrite map_ext; [apply map_id|]. intros na. reflexivity.
  - cbn [keys map fst] in Hnd. inversion Hnd as [|? ? Hn Hnd']; subst.
    destruct (IH (upd_atom g n (set_h (Some h))) Hnd') as [H1 H2]. cbn [fst snd]. split; [|rewrite H2; reflexivity].
    rewrite H1. unfold upd_atom, upd_atoms. cbn [m_atoms]. rewrite map_map. apply map_ext. intros [k a].
    unfold set_from. cbn [fst snd zget]. destruct (k =? n) eqn:E; cbn [fst snd].
    + apply Z.eqb_eq in E. subst k. rewrite (zget_none fx n Hn). reflexivity.
    + reflexivity.
Qed.

Lemma zget_map_key {V} (f : Z -> V) (ks : list Z) k :
  zget (map (fun x => (x, f x)) ks) k = if zmem k ks then Some (f k) else None.
Proof.
  induction ks as [|x ks IH]; [reflexivity|]. cbn [map zget zmem existsb]. fold (zmem k ks).
  destruct (k =? x) eqn:E; [apply Z.eqb_eq in E; subst; reflexivity|exact IH].
Qed.

Lemma zget_new_adj n ns : forall m x, In x (hs_of n ns m) -> zget (new_adj ns m) x = Some [(n, single)].
Proof.
  induction ns as [|n0 r IH]; intros m x H; [destruct H|]. cbn [hs_of] in H. cbn [new_adj zget].
  apply in_app_or in H. destruct H as [H | H].
  - destruct (n =? n0) eqn:E; [|destruct H]. destruct H as [<- | []]. apply Z.eqb_eq in E. subst. rewrite Z.eqb_refl. reflexivity.
  - pose proof (hs_of_range _ _ _ _ H) as Hr. destruct (x =? m) eqn:E; [apply Z.eqb_eq in E; lia|]. exact (IH _ _ H).
Qed.
Lemma keys_map_with_hs ns m adj : keys (map (with_hs ns m) adj) = keys adj.
Proof. unfold keys. rewrite map_map. apply map_ext. intros [k l]. reflexivity. Qed.

Lemma env_new_nil gm hs hs' : (forall x, In x hs' -> In x hs) ->
  flat_map (fun mb : Z * bond => if zmem (fst mb) hs || (b_ord (snd mb) =? 8) then []
                                 else [(b_ord (snd mb), match atom_of gm (fst mb) with Some a => a_num a | None => 0 end)])
           (map (fun x => (x, single)) hs') = [].
Proof.
  induction hs' as [|y hs' IH]; intros H; [reflexivity|]. cbn [map flat_map fst].
  rewrite (proj2 (zmem_In _ _) (H y (or_introl eq_refl))). cbn [orb app]. apply IH. intros x Hx. apply H. right. exact Hx.
Qed.

Lemma mol_ext (a b : mol) : m_atoms a = m_atoms b -> m_adj a = m_adj b -> a = b.
Proof. destruct a, b. cbn. intros -> ->. reflexivity. Qed.

Section Inverse.
  Variable vlookup : atom -> list (Z * Z) -> Z -> vres.
  Variable g : mol.
  Definition m0 : Z := zmax (ids g) + 1.
  Hypothesis Hnd : NoDup (ids g).
  Hypothesis Hkeys : keys (m_adj g) = ids g.
  Hypothesis Hnb : forall k l x, In (k, l) (m_adj g) -> In x (keys l) -> In x (ids g).
  Hypothesis Hnoh : forall k a, In (k, a) (m_atoms g) -> a_num a <> 1.
  Hypothesis Hk : hs_known (m_atoms g).
  Variable ns : list Z.
  Hypothesis Hns : to_add (m_atoms g) = Ok ns.
  Definition gx : mol := add_hs g ns m0.

  Lemma F_lt x : In x (ids g) -> x < m0.
  Proof. intros H. unfold m0. pose proof (zmax_ge _ _ H). lia. Qed.
  Lemma F_ns x : In x ns -> exists a h, In (x, a) (m_atoms g) /\ a_h a = Some h /\ 0 < h.
  Proof. exact (to_add_keys _ _ Hns x). Qed.
  Lemma F_ns_ids x : In x ns -> In x (ids g).
  Proof. intros H. destruct (F_ns x H) as [a [h [Hin _]]]. unfold ids, keys. apply (in_map fst) in Hin. exact Hin. Qed.

  Lemma gx_atoms : m_atoms gx = map (zero_h ns) (m_atoms g) ++ new_hs (List.length ns) m0.
  Proof. apply add_hs_atoms. Qed.
  Lemma gx_adj : m_adj gx = map (with_hs ns m0) (m_adj g) ++ new_adj ns m0.
  Proof. apply add_hs_adj. intros x Hx. exact (F_lt x (F_ns_ids x Hx)). Qed.

  Definition zh (k : Z) (a : atom) : atom := if zmem k ns then set_h (Some 0) a else a.
  Lemma zero_h_form : map (zero_h ns) (m_atoms g) = map (fun kv => (fst kv, zh (fst kv) (snd kv))) (m_atoms g).
  Proof. apply map_ext. intros [k a]. unfold zero_h, zh. cbn [fst snd]. destruct (zmem k ns); reflexivity. Qed.

  Lemma gx_atom_of k a : In (k, a) (m_atoms g) -> atom_of gx k = Some (zh k a).
  Proof.
    intros Hin. unfold atom_of. rewrite gx_atoms, zget_app, zero_h_form, zget_map_val.
    rewrite (In_zget (m_atoms g) k a Hnd Hin). reflexivity.
  Qed.
  Lemma zh_num k a : a_num (zh k a) = a_num a.
  Proof. unfold zh. destruct (zmem k ns); reflexivity. Qed.

  Lemma adj_nodup : NoDup (keys (m_adj g)).
  Proof. rewrite Hkeys. exact Hnd. Qed.

  Lemma gx_nbrs_old k l : In (k, l) (m_adj g) -> nbrs gx k = l ++ map (fun x => (x, single)) (hs_of k ns m0).
  Proof.
    intros Hin. unfold nbrs. rewrite gx_adj, zget_app.
    change (map (with_hs ns m0) (m_adj g)) with (map (fun kv => (fst kv, (fun k0 l0 => l0 ++ map (fun x => (x, single)) (hs_of k0 ns m0)) (fst kv) (snd kv))) (m_adj g)).
    rewrite zget_map_val, (In_zget (m_adj g) k l adj_nodup Hin). reflexivity.
  Qed.
  Lemma gx_nbrs_new n x : In x (hs_of n ns m0) -> nbrs gx x = [(n, single)].
  Proof.
    intros Hx. unfold nbrs. rewrite gx_adj, zget_app. rewrite zget_none.
    - rewrite (zget_new_adj n ns m0 x Hx). reflexivity.
    - rewrite keys_map_with_hs, Hkeys. intros Hin. pose proof (F_lt x Hin). pose proof (hs_of_range _ _ _ _ Hx). lia.
  Qed.

  (* the scan over the new hydrogen atoms builds the dictionary *)
  Lemma scan_new : forall r pre d, ns = pre ++ r ->
    scan_explicit gx (new_hs (List.length r) (m0 + Z.of_nat (List.length pre))) d = Ok (build r (m0 + Z.of_nat (List.length pre)) d).
  Proof.
    induction r as [|n r IH]; intros pre d Heq; [reflexivity|]. cbn [List.length new_hs scan_explicit build].
    assert (Hx : In (m0 + Z.of_nat (List.length pre)) (hs_of n ns m0)).
    { rewrite Heq, hs_of_app. apply in_or_app. right. cbn [hs_of]. rewrite Z.eqb_refl. left. reflexivity. }
    change (is_protium h_atom) with true. cbn iota. rewrite (gx_nbrs_new n _ Hx).
    cbn [filter snd single b_ord Z.eqb negb List.length Z.of_nat Pos.of_succ_nat Z.ltb Z.compare Pos.compare Pos.compare_cont].
    cbn [scan_h_bonds single b_ord Z.eqb Pos.eqb].
    assert (Hn : In n ns) by (rewrite Heq; apply in_or_app; right; left; reflexivity).
    destruct (F_ns n Hn) as [a [h [Hin _]]]. rewrite (gx_atom_of n a Hin), zh_num.
    assert (Hnum : (a_num a =? 1) = false) by (apply Z.eqb_neq; exact (Hnoh n a Hin)). rewrite Hnum.
    specialize (IH (pre ++ [n]) (dl_append d n (m0 + Z.of_nat (List.length pre)))).
    rewrite app_length in IH. cbn [List.length] in IH. rewrite Nat2Z.inj_add in IH. cbn [Z.of_nat Pos.of_succ_nat] in IH.
    rewrite Z.add_assoc in IH. apply IH. rewrite <- app_assoc. exact Heq.
  Qed.

  Lemma scan_gx : scan_explicit gx (m_atoms gx) [] = Ok (build ns m0 []).
  Proof.
    rewrite gx_atoms, scan_app. rewrite StandardizeHydGen.scan_explicit_no_protium.
    - pose proof (scan_new ns [] [] eq_refl) as H. cbn [List.length Z.of_nat] in H. rewrite Z.add_0_r in H. exact H.
    - intros na Hna. apply in_map_iff in Hna. destruct Hna as [[k a] [Heq Hin]]. subst na.
      unfold is_protium. assert (E : a_num (snd (zero_h ns (k, a))) = a_num a) by (unfold zero_h; cbn [fst snd]; destruct (zmem k ns); reflexivity).
      rewrite E. assert (Hnum : (a_num a =? 1) = false) by (apply Z.eqb_neq; exact (Hnoh k a Hin)). rewrite Hnum. reflexivity.
  Qed.

  (* the hypothesis the proof forces: for an atom with h > 0 hydrogens the first rule that matches its heavy environment with at
     least h hydrogens has exactly h (its count is a first-rule count) *)
  Hypothesis HV : forall n a h, In (n, a) (m_atoms g) -> a_h a = Some h -> 0 < h ->
    vlookup (set_h (Some 0) a) (env_without g n []) h = VSome h.

  Lemma flat_map_ext_in {A B} (f1 f2 : A -> list B) l : (forall x, In x l -> f1 x = f2 x) -> flat_map f1 l = flat_map f2 l.
  Proof. induction l as [|x l IH]; intros H; [reflexivity|]. cbn [flat_map]. rewrite (H x (or_introl eq_refl)), IH; [reflexivity|]. intros y Hy. apply H. right. exact Hy. Qed.
  Lemma filter_true_in {A} (f : A -> bool) l : (forall x, In x l -> f x = true) -> filter f l = l.
  Proof. induction l as [|x l IH]; intros H; [reflexivity|]. cbn [filter]. rewrite (H x (or_introl eq_refl)), IH; [reflexivity|]. intros y Hy. apply H. right. exact Hy. Qed.
  Lemma filter_false_in {A} (f : A -> bool) l : (forall x, In x l -> f x = false) -> filter f l = [].
  Proof. induction l as [|x l IH]; intros H; [reflexivity|]. cbn [filter]. rewrite (H x (or_introl eq_refl)). apply IH. intros y Hy. apply H. right. exact Hy. Qed.

  Lemma ids_atom k : In k (ids g) -> exists a, In (k, a) (m_atoms g).
  Proof. unfold ids, keys. intros H. apply in_map_iff in H. destruct H as [[k' a] [Hk' Hin]]. cbn [fst] in Hk'. subst. exists a. exact Hin. Qed.

  Lemma env_gx n l : In (n, l) (m_adj g) -> env_without gx n (hs_of n ns m0) = env_without g n [].
  Proof.
    intros Hl. unfold env_without. rewrite (gx_nbrs_old n l Hl). unfold nbrs. rewrite (In_zget (m_adj g) n l adj_nodup Hl).
    rewrite flat_map_app, (env_new_nil gx _ _ (fun x H => H)), app_nil_r.
    apply flat_map_ext_in. intros [x b] Hx. cbn [fst snd].
    assert (Hxid : In x (ids g)) by (apply (Hnb n l x Hl); unfold keys; apply (in_map fst) in Hx; exact Hx).
    assert (Hnot : zmem x (hs_of n ns m0) = false).
    { destruct (zmem x (hs_of n ns m0)) eqn:E; [|reflexivity]. apply zmem_In in E. pose proof (hs_of_range _ _ _ _ E). pose proof (F_lt x Hxid). lia. }
    rewrite Hnot. cbn [zmem existsb orb]. destruct (ids_atom x Hxid) as [ax Hax].
    rewrite (gx_atom_of x ax Hax), zh_num. unfold atom_of. rewrite (In_zget (m_atoms g) x ax Hnd Hax). reflexivity.
  Qed.

  Lemma adj_entry n : In n (ids g) -> exists l, In (n, l) (m_adj g).
  Proof.
    rewrite <- Hkeys. unfold keys. intros H. apply in_map_iff in H. destruct H as [[k l] [Hkk Hin]]. cbn [fst] in Hkk. subst. exists l. exact Hin.
  Qed.

  Lemma decide_full n a h : In (n, a) (m_atoms g) -> a_h a = Some h -> 0 < h ->
    decide vlookup gx n (zh n a) (hs_of n ns m0) (List.length (hs_of n ns m0)) = Some (hs_of n ns m0, h).
  Proof.
    intros Hin Hh Hpos. pose proof (to_add_count _ _ Hns Hnd n a h m0 Hin Hh) as Hlen.
    assert (Hnin : In n ns).
    { destruct (hs_of n ns m0) as [|x hs] eqn:E; [cbn in Hlen; lia|]. apply (hs_of_key n ns m0 x). rewrite E. left. reflexivity. }
    destruct (adj_entry n) as [l Hl]. { unfold ids, keys. apply (in_map fst) in Hin. exact Hin. }
    destruct (List.length (hs_of n ns m0)) as [|i] eqn:El; [lia|]. cbn [decide].
    assert (Hf : firstn (S i) (hs_of n ns m0) = hs_of n ns m0) by (rewrite <- El; apply firstn_all).
    rewrite Hf, (env_gx n l Hl).
    assert (Hz : zh n a = set_h (Some 0) a) by (unfold zh; rewrite (proj2 (zmem_In _ _) Hnin); reflexivity).
    assert (Hi : Z.of_nat (S i) = h) by lia.
    rewrite Hz, Hi, (HV n a h Hin Hh Hpos). reflexivity.
  Qed.

  Definition hn (n : Z) : Z := match atom_of g n with Some a => hval a | None => 0 end.

  Lemma decide_all_full : forall ex rm fx,
    (forall n hs, In (n, hs) ex -> exists a h, In (n, a) (m_atoms g) /\ a_h a = Some h /\ 0 < h /\ hs = hs_of n ns m0) ->
    decide_all vlookup gx ex rm fx =
      Ok (fold_left (fun r e => union_set r (snd e)) ex rm, fx ++ map (fun e => (fst e, hn (fst e))) ex).
  Proof.
    induction ex as [|[n hs] ex IH]; intros rm fx Hall; cbn [decide_all fold_left map]; [rewrite app_nil_r; reflexivity|].
    destruct (Hall n hs (or_introl eq_refl)) as [a [h [Hin [Hh [Hpos ->]]]]].
    rewrite (gx_atom_of n a Hin), (decide_full n a h Hin Hh Hpos).
    rewrite IH by (intros n' hs' H'; apply Hall; right; exact H'). cbn [fst snd]. rewrite <- app_assoc. cbn [app].
    unfold hn, atom_of. rewrite (In_zget (m_atoms g) n a Hnd Hin). unfold hval. rewrite Hh. reflexivity.
  Qed.

  Lemma fold_union_mem x : forall ex rm,
    zmem x (fold_left (fun r (e : Z * list Z) => union_set r (snd e)) ex rm) = zmem x rm || existsb (fun e => zmem x (snd e)) ex.
  Proof.
    induction ex as [|e ex IH]; intros rm; cbn [fold_left existsb]; [rewrite orb_false_r; reflexivity|].
    rewrite IH, zmem_union_set, orb_assoc. reflexivity.
  Qed.

  Definition ex0 := build ns m0 [].
  Lemma ex0_entries n hs : In (n, hs) ex0 -> hs = hs_of n ns m0 /\ In n ns.
  Proof.
    intros Hin. assert (Hkn : NoDup (keys ex0)) by (apply keys_build_nodup; constructor).
    pose proof (in_dget ex0 n hs Hkn Hin) as Hd. unfold ex0 in Hd. rewrite dget_build in Hd. cbn in Hd. split; [congruence|].
    assert (Hkx : In n (keys ex0)) by (unfold keys; apply (in_map fst) in Hin; exact Hin).
    unfold ex0 in Hkx. apply keys_build in Hkx. destruct Hkx as [[] | Hkx]. exact Hkx.
  Qed.
  Lemma ex0_has n : In n ns -> In (n, hs_of n ns m0) ex0.
  Proof.
    intros Hn. assert (Hkx : In n (keys ex0)) by (unfold ex0; apply keys_build; right; exact Hn).
    unfold keys in Hkx. apply in_map_iff in Hkx. destruct Hkx as [[k l] [Hkk Hin]]. cbn [fst] in Hkk. subst k.
    destruct (ex0_entries n l Hin) as [-> _]. exact Hin.
  Qed.

  Definition rm0 := fold_left (fun r (e : Z * list Z) => union_set r (snd e)) ex0 [].
  Lemma rm0_range x : zmem x rm0 = true <-> m0 <= x < m0 + Z.of_nat (List.length ns).
  Proof.
    unfold rm0. rewrite fold_union_mem. cbn [zmem existsb orb]. rewrite existsb_exists. split.
    - intros [[n hs] [Hin Hx]]. cbn [snd] in Hx. apply zmem_In in Hx. destruct (ex0_entries n hs Hin) as [-> _]. exact (hs_of_range _ _ _ _ Hx).
    - intros Hr. destruct (new_ids_covered ns m0 x Hr) as [n [Hn Hx]]. exists (n, hs_of n ns m0). split; [exact (ex0_has n Hn)|].
      cbn [snd]. apply zmem_In. exact Hx.
  Qed.
  Lemma rm0_old x : In x (ids g) -> zmem x rm0 = false.
  Proof. intros H. destruct (zmem x rm0) eqn:E; [|reflexivity]. apply rm0_range in E. pose proof (F_lt x H). lia. Qed.

  (* implicify_hydrogens undoes explicify_hydrogens *)
  Theorem implicify_add_hs : implicify vlookup gx = Ok g.
  Proof.
    unfold implicify. rewrite scan_gx. fold ex0.
    rewrite (decide_all_full ex0 [] []).
    2: { intros n hs Hin. destruct (ex0_entries n hs Hin) as [-> Hn]. destruct (F_ns n Hn) as [a [h [H1 [H2 H3]]]]. exists a, h. auto. }
    fold rm0. cbn [app]. f_equal.
    set (fx := map (fun e : Z * list Z => (fst e, hn (fst e))) ex0).
    assert (Hfx : fx = map (fun k => (k, hn k)) (keys ex0)) by (unfold fx, keys; rewrite map_map; reflexivity).
    assert (Hkn : NoDup (keys ex0)) by (apply keys_build_nodup; constructor).
    assert (Hkfx : NoDup (keys fx)).
    { rewrite Hfx. unfold keys at 1. rewrite map_map. cbn [fst]. rewrite map_id. exact Hkn. }
    destruct (set_hs_map fx (remove_atoms gx rm0) Hkfx) as [Hat Hadj].
    assert (Hgoal : m_atoms (set_hs (remove_atoms gx rm0) fx) = m_atoms g /\ m_adj (set_hs (remove_atoms gx rm0) fx) = m_adj g).
    { rewrite Hat, Hadj. unfold remove_atoms. cbn [m_atoms m_adj]. rewrite gx_atoms, gx_adj, !filter_app. split.
      - (* atoms *)
        rewrite (filter_false_in _ (new_hs (List.length ns) m0)), app_nil_r.
        2: { intros [x a] Hx. cbn [fst]. destruct (new_hs_keys _ _ _ _ Hx) as [Hr _]. apply negb_false_iff. apply rm0_range. exact Hr. }
        rewrite (filter_true_in _ (map (zero_h ns) (m_atoms g))).
        2: { intros na Hna. apply in_map_iff in Hna. destruct Hna as [[k a] [<- Hin]]. apply negb_true_iff.
             assert (E : fst (zero_h ns (k, a)) = k) by (unfold zero_h; cbn [fst snd]; destruct (zmem k ns); reflexivity). rewrite E.
             apply rm0_old. unfold ids, keys. apply (in_map fst) in Hin. exact Hin. }
        rewrite map_map. transitivity (map (fun na : Z * atom => na) (m_atoms g)); [|rewrite map_id; reflexivity].
        apply map_ext_in. intros [k a] Hin. unfold set_from, zero_h. cbn [fst snd].
        destruct (Hk (k, a) Hin) as [h [Hh Hpos]]. cbn [snd] in Hh.
        destruct (zmem k ns) eqn:Ens; cbn [fst snd].
        + rewrite Hfx, zget_map_key. assert (Hke : zmem k (keys ex0) = true) by (apply zmem_In; unfold ex0; apply keys_build; right; apply zmem_In; exact Ens).
          rewrite Hke. unfold hn, atom_of. rewrite (In_zget (m_atoms g) k a Hnd Hin). unfold hval. rewrite Hh.
          destruct a as [nu iso ch ra ah st]. cbn in Hh |- *. subst ah. reflexivity.
        + rewrite Hfx, zget_map_key. assert (Hke : zmem k (keys ex0) = false).
          { destruct (zmem k (keys ex0)) eqn:E; [|reflexivity]. apply zmem_In in E. unfold ex0 in E. apply keys_build in E. destruct E as [[] | E].
            apply zmem_In in E. congruence. }
          rewrite Hke. reflexivity.
      - (* adjacency *)
        rewrite (filter_false_in _ (new_adj ns m0)).
        2: { intros [x l] Hx. cbn [fst]. apply negb_false_iff. apply rm0_range.
             clear - Hx. revert Hx. generalize m0. induction ns as [|n r IH]; intros m Hx; [destruct Hx|]. cbn [new_adj List.length] in *. rewrite Nat2Z.inj_succ.
             destruct Hx as [Hx | Hx]; [inversion Hx; lia|]. specialize (IH (m + 1) Hx). lia. }
        rewrite app_nil_r. rewrite (filter_true_in _ (map (with_hs ns m0) (m_adj g))).
        2: { intros nl Hnl. apply in_map_iff in Hnl. destruct Hnl as [[k l] [<- Hin]]. apply negb_true_iff. cbn [with_hs fst].
             apply rm0_old. rewrite <- Hkeys. unfold keys. apply (in_map fst) in Hin. exact Hin. }
        rewrite map_map. transitivity (map (fun nl : Z * list (Z * bond) => nl) (m_adj g)); [|rewrite map_id; reflexivity].
        apply map_ext_in. intros [k l] Hin. unfold with_hs. cbn [fst snd]. f_equal.
        rewrite filter_app, (filter_false_in _ (map (fun x => (x, single)) (hs_of k ns m0))), app_nil_r.
        2: { intros [x b] Hx. cbn [fst]. apply in_map_iff in Hx. destruct Hx as [y [Hy Hin']]. inversion Hy; subst. apply negb_false_iff.
             apply rm0_range. exact (hs_of_range _ _ _ _ Hin'). }
        apply filter_true_in. intros [x b] Hx. cbn [fst]. apply negb_true_iff. apply rm0_old.
        apply (Hnb k l x Hin). unfold keys. apply (in_map fst) in Hx. exact Hx. }
    destruct Hgoal as [G1 G2]. exact (mol_ext _ _ G1 G2).
  Qed.
End Inverse.

(* explicify_implicify_inverse (general): for every molecule without hydrogen atoms whose adjacency lists exactly its atoms and
   whose hydrogen counts are known and are first-rule counts, implicify_hydrogens gives back EXACTLY the molecule
   explicify_hydrogens started from (both dictionaries, in order) *)
Theorem explicify_implicify_inverse vlookup g g' :
  NoDup (ids g) -> keys (m_adj g) = ids g ->
  (forall k l x, In (k, l) (m_adj g) -> In x (keys l) -> In x (ids g)) ->
  (forall k a, In (k, a) (m_atoms g) -> a_num a <> 1) ->
  hs_known (m_atoms g) ->
  (forall n a h, In (n, a) (m_atoms g) -> a_h a = Some h -> 0 < h -> vlookup (set_h (Some 0) a) (env_without g n []) h = VSome h) ->
  explicify g = Ok g' -> implicify vlookup g' = Ok g.
Proof.
  intros Hnd Hkeys Hnb Hnoh Hk HV. unfold explicify. destruct (to_add (m_atoms g)) as [ns|] eqn:Hns; [|discriminate].
  destruct ns as [|n ns].
  - intros H. inversion H; subst g'. apply implicify_no_protium. intros [k a] Hin. cbn [snd]. unfold is_protium.
    assert (E : (a_num a =? 1) = false) by (apply Z.eqb_neq; exact (Hnoh k a Hin)). rewrite E. reflexivity.
  - intros H. inversion H; subst g'. exact (implicify_add_hs vlookup g Hnd Hkeys Hnb Hnoh Hk (n :: ns) Hns HV).
Qed.
