(* C09 -- the mask tests of _isomorphism.pyx applied to the words written by the two encoders of isomorphism.py decide
   exactly the reference comparison methods (match_atom / qbond_match of Model.IsoBits), inside the representable range stated by atom_ok / query_ok.
   Method: a word is the union of fields with disjoint supports (sub_split), every field is either one-hot against a
   fold of `v |= 1 << f(x)` (generic list lemma, any tuple length) or has a small finite domain (complete sweep by
   vm_compute lifted with forallb_forall). *)
From Coq Require Import ZArith List Bool Lia.
From Model Require Import PyBase PeriodicTable IsoBits.
From Gen Require Import Elements.
Import ListNotations.
Open Scope Z_scope.

(* ------------------------------------------------------------------------------------------------------------ *)
(* 1. generic bit lemmas                                                                                          *)

Definition sub (m b : Z) : bool := Z.land m b =? b.             (* mask & bits == bits *)
Definition meet (m b : Z) : bool := negb (Z.land m b =? 0).     (* mask & bits  (non-zero) *)

Lemma bit_testbit k p : 0 <= k -> Z.testbit (bit k) p = (k =? p).
Proof. intros H. unfold bit. rewrite Z.shiftl_1_l. apply Z.pow2_bits_eqb. exact H. Qed.

Lemma sub_iff m b : sub m b = true <-> forall p, 0 <= p -> Z.testbit b p = true -> Z.testbit m p = true.
Proof.
  unfold sub. rewrite Z.eqb_eq. split.
  - intros H p Hp Hb. rewrite <- H in Hb. rewrite Z.land_spec in Hb. apply andb_true_iff in Hb. tauto.
  - intros H. apply Z.bits_inj'. intros p Hp. rewrite Z.land_spec.
    destruct (Z.testbit b p) eqn:E; [rewrite (H p Hp E); reflexivity | apply andb_false_r].
Qed.

Lemma sub_bit m k : 0 <= k -> sub m (bit k) = Z.testbit m k.
Proof.
  intros Hk. apply eq_true_iff_eq. rewrite sub_iff. split.
  - intros H. apply H; [exact Hk|]. rewrite bit_testbit by exact Hk. apply Z.eqb_refl.
  - intros H p Hp Hb. rewrite bit_testbit in Hb by exact Hk. apply Z.eqb_eq in Hb. subst. exact H.
Qed.

Lemma meet_bit m k : 0 <= k -> meet m (bit k) = Z.testbit m k.
Proof.
  intros Hk. unfold meet. destruct (Z.testbit m k) eqn:E.
  - apply negb_true_iff, Z.eqb_neq. intros Z0.
    assert (T : Z.testbit (Z.land m (bit k)) k = true) by (rewrite Z.land_spec, E, bit_testbit, Z.eqb_refl by exact Hk; reflexivity).
    rewrite Z0, Z.bits_0 in T. discriminate.
  - apply negb_false_iff, Z.eqb_eq. apply Z.bits_inj'. intros p Hp. rewrite Z.land_spec, Z.bits_0, bit_testbit by exact Hk.
    destruct (k =? p) eqn:Ek; [apply Z.eqb_eq in Ek; subst; rewrite E; reflexivity | apply andb_false_r].
Qed.

Lemma sub_0 m : sub m 0 = true.
Proof. unfold sub. rewrite Z.land_0_r. reflexivity. Qed.

Lemma meet_iff m b : 0 <= m -> (meet m b = true <-> exists p, 0 <= p /\ Z.testbit m p = true /\ Z.testbit b p = true).
Proof.
  intros Hm. unfold meet. rewrite negb_true_iff, Z.eqb_neq. split.
  - intros H. assert (0 <= Z.land m b) by (apply Z.land_nonneg; auto).
    assert (0 < Z.land m b) by lia.
    exists (Z.log2 (Z.land m b)). split; [apply Z.log2_nonneg|].
    pose proof (Z.bit_log2 _ H1) as T. rewrite Z.land_spec in T. apply andb_true_iff in T. exact T.
  - intros [p [Hp [H1 H2]]] E.
    assert (Z.testbit (Z.land m b) p = true) by (rewrite Z.land_spec, H1, H2; reflexivity).
    rewrite E in H. rewrite Z.bits_0 in H. discriminate.
Qed.

(* supports *)
Definition within (lo hi v : Z) : Prop := forall p, 0 <= p -> Z.testbit v p = true -> lo <= p <= hi.
Definition outside (lo hi v : Z) : Prop := forall p, 0 <= p -> Z.testbit v p = true -> p < lo \/ hi < p.

Lemma within_bit lo hi k : 0 <= k -> lo <= k <= hi -> within lo hi (bit k).
Proof. intros Hk H p Hp T. rewrite bit_testbit in T by exact Hk. apply Z.eqb_eq in T. lia. Qed.
Lemma within_0 lo hi : within lo hi 0.
Proof. intros p Hp T. rewrite Z.bits_0 in T. discriminate. Qed.
Lemma within_lor lo hi a b : within lo hi a -> within lo hi b -> within lo hi (Z.lor a b).
Proof. intros Ha Hb p Hp T. rewrite Z.lor_spec in T. apply orb_true_iff in T. destruct T; eauto. Qed.
Lemma within_weaken lo hi lo' hi' v : within lo hi v -> lo' <= lo -> hi <= hi' -> within lo' hi' v.
Proof. intros H H1 H2 p Hp T. specialize (H p Hp T). lia. Qed.
Lemma within_outside lo hi lo' hi' v : within lo' hi' v -> hi' < lo \/ hi < lo' -> outside lo hi v.
Proof. intros H Hd p Hp T. specialize (H p Hp T). lia. Qed.

Lemma outside_lor lo hi a b : outside lo hi a -> outside lo hi b -> outside lo hi (Z.lor a b).
Proof. intros Ha Hb p Hp T. rewrite Z.lor_spec in T. apply orb_true_iff in T. destruct T; eauto. Qed.

(* computational check of a support *)
Definition withinb (lo hi v : Z) : bool := (0 <=? v) && (v <? 2 ^ (hi + 1)) && (v mod 2 ^ lo =? 0).
Lemma withinb_sound lo hi v : 0 <= lo -> lo <= hi -> withinb lo hi v = true -> within lo hi v.
Proof.
  intros Hlo Hhi H. unfold withinb in H. apply andb_true_iff in H. destruct H as [H H3].
  apply andb_true_iff in H. destruct H as [H1 H2].
  apply Z.leb_le in H1. apply Z.ltb_lt in H2. apply Z.eqb_eq in H3.
  intros p Hp T. split.
  - destruct (Z_lt_le_dec p lo) as [L|L]; [|exact L]. exfalso.
    rewrite <- (Z.mod_pow2_bits_low v lo p) in T by lia. rewrite H3, Z.bits_0 in T. discriminate.
  - destruct (Z_lt_le_dec hi p) as [L|L]; [|exact L]. exfalso.
    destruct (Z.eq_dec v 0) as [->|Hv]; [rewrite Z.bits_0 in T; discriminate|].
    rewrite Z.bits_above_log2 in T; [discriminate|lia|].
    apply Z.log2_lt_pow2; [lia|]. apply Z.lt_le_trans with (2 ^ (hi + 1)); [exact H2|].
    apply Z.pow_le_mono_r; lia.
Qed.

(* a word that is the union of two fields with disjoint supports is tested field by field *)
Lemma sub_split lo hi m1 m2 b1 b2 :
  outside lo hi m1 -> outside lo hi b1 -> within lo hi m2 -> within lo hi b2 ->
  sub (Z.lor m1 m2) (Z.lor b1 b2) = sub m1 b1 && sub m2 b2.
Proof.
  intros Om Ob Wm Wb. apply eq_true_iff_eq. rewrite andb_true_iff, !sub_iff. split.
  - intros H. split; intros p Hp T.
    + assert (T' : Z.testbit (Z.lor m1 m2) p = true) by (apply H; [exact Hp|]; rewrite Z.lor_spec, T; reflexivity).
      rewrite Z.lor_spec in T'. apply orb_true_iff in T'. destruct T' as [T'|T']; [exact T'|].
      specialize (Ob p Hp T). specialize (Wm p Hp T'). lia.
    + assert (T' : Z.testbit (Z.lor m1 m2) p = true) by (apply H; [exact Hp|]; rewrite Z.lor_spec, T; apply orb_true_r).
      rewrite Z.lor_spec in T'. apply orb_true_iff in T'. destruct T' as [T'|T']; [|exact T'].
      specialize (Om p Hp T'). specialize (Wb p Hp T). lia.
  - intros [H1 H2] p Hp T. rewrite Z.lor_spec in T |- *. apply orb_true_iff in T. apply orb_true_iff.
    destruct T as [T|T]; [left; apply H1 | right; apply H2]; auto.
Qed.

(* the fold `for x in tuple: v |= 1 << f(x)` *)
Lemma or_bits_acc f l v : or_bits f l v = Z.lor v (or_bits f l 0).
Proof.
  unfold or_bits. revert v. induction l as [|x l IH]; intros v; cbn [fold_left].
  - rewrite Z.lor_0_r. reflexivity.
  - rewrite IH. rewrite (IH (Z.lor 0 (bit (f x)))). rewrite Z.lor_0_l, Z.lor_assoc. reflexivity.
Qed.
Lemma or_bits_testbit f l p : (forall x, In x l -> 0 <= f x) ->
  Z.testbit (or_bits f l 0) p = existsb (fun x => f x =? p) l.
Proof.
  induction l as [|x l IH]; intros H.
  - cbn. apply Z.bits_0.
  - unfold or_bits. cbn [fold_left existsb]. fold (or_bits f l (Z.lor 0 (bit (f x)))).
    rewrite or_bits_acc, Z.lor_spec, Z.lor_0_l, bit_testbit by (apply H; left; reflexivity).
    rewrite IH by (intros y Hy; apply H; right; exact Hy). reflexivity.
Qed.
Lemma or_bits_within f l lo hi : (forall x, In x l -> 0 <= f x /\ lo <= f x <= hi) -> within lo hi (or_bits f l 0).
Proof.
  intros H p Hp T. rewrite or_bits_testbit in T by (intros x Hx; apply H; exact Hx).
  apply existsb_exists in T. destruct T as [x [Hx E]]. apply Z.eqb_eq in E. specialize (H x Hx). lia.
Qed.

(* a tuple-valued query field: empty tuple = all bits of the field, otherwise one bit per member *)
Definition tf (f : Z -> Z) (full : Z) (l : list Z) : Z := match l with [] => full | _ => or_bits f l 0 end.

Lemma tf_acc f full l v : or_field f full l v = Z.lor v (tf f full l).
Proof. destruct l; [reflexivity|]. unfold tf, or_field. apply or_bits_acc. Qed.

Lemma all_in_In lo hi l x : all_in lo hi l = true -> In x l -> lo <= x <= hi.
Proof.
  unfold all_in, in_range. rewrite forallb_forall. intros H Hx. specialize (H x Hx).
  apply andb_true_iff in H. destruct H as [H1 H2]. apply Z.leb_le in H1, H2. lia.
Qed.

Lemma tf_within f off full l lo hi vlo vhi :
  (forall x, f x = x + off) -> all_in vlo vhi l = true -> 0 <= vlo + off -> lo <= vlo + off -> vhi + off <= hi ->
  within lo hi full -> within lo hi (tf f full l).
Proof.
  intros Hf Hl H0 H1 H2 Hfull. destruct l as [|y r]; [exact Hfull|]. unfold tf.
  apply or_bits_within. intros x Hx. rewrite Hf. pose proof (all_in_In _ _ _ _ Hl Hx). lia.
Qed.

Lemma sub_tf f off full l v vlo vhi :
  (forall x, f x = x + off) -> all_in vlo vhi l = true -> 0 <= vlo + off -> vlo <= v <= vhi ->
  Z.testbit full (v + off) = true ->
  sub (tf f full l) (bit (v + off)) = negb (nonempty l && negb (zmem v l)).
Proof.
  intros Hf Hl H0 Hv Hfull. rewrite sub_bit by lia. destruct l as [|y r]; [exact Hfull|].
  unfold tf. rewrite or_bits_testbit.
  2:{ intros x Hx. rewrite Hf. pose proof (all_in_In _ _ _ _ Hl Hx). lia. }
  cbn [nonempty andb]. rewrite negb_involutive. unfold zmem.
  apply eq_true_iff_eq. rewrite !existsb_exists. split; intros [x [Hx E]]; exists x; (split; [exact Hx|]).
  - rewrite Hf in E. apply Z.eqb_eq in E. apply Z.eqb_eq. lia.
  - apply Z.eqb_eq in E. subst. rewrite Hf. apply Z.eqb_refl.
Qed.

Lemma lor_swap a b c : Z.lor (Z.lor a b) c = Z.lor (Z.lor a c) b.
Proof. rewrite <- !Z.lor_assoc. f_equal. apply Z.lor_comm. Qed.

(* ------------------------------------------------------------------------------------------------------------ *)
(* 2. word III: isotope/radical [44,63], charge [35,43], hydrogens [30,34], neighbours [15,29], heteroatoms [0,14] *)

Definition opts : list (option Z) := None :: map Some (zrange (-8) 9).
Definition aiso_f (off : option Z) (rad : bool) : Z :=
  match off with
  | Some o => Z.lor (bit (o + 54)) (if rad then 0x200000000000 else 0x100000000000)
  | None => if rad then 0x8000200000000000 else 0x8000100000000000
  end.
Definition qiso_f (off : option Z) (rad : bool) : Z :=
  match off with
  | Some o => Z.lor (if (-8 <=? o) && (o <=? 8) then bit (o + 54) else 0) (if rad then 0x200000000000 else 0x100000000000)
  | None => if rad then 0xffffe00000000000 else 0xffffd00000000000
  end.

Lemma iso_sweep :
  forallb (fun qo => forallb (fun ao => forallb (fun qr => forallb (fun ar =>
    Bool.eqb (sub (qiso_f qo qr) (aiso_f ao ar))
             (Bool.eqb qr ar && match qo with None => true | Some _ => option_eqb Z.eqb qo ao end) &&
    withinb 44 63 (qiso_f qo qr) && withinb 44 63 (aiso_f ao ar))
    [true; false]) [true; false]) opts) opts = true.
Proof. vm_compute. reflexivity. Qed.

Lemma opts_In o : In o opts <-> match o with None => True | Some v => -8 <= v <= 8 end.
Proof.
  unfold opts. cbn [In]. rewrite in_map_iff. destruct o as [v|].
  - split.
    + intros [H|[x [Hx Hr]]]; [discriminate|]. inversion Hx; subst. apply zrange_In in Hr. lia.
    + intros H. right. exists v. split; [reflexivity|]. apply zrange_In. lia.
  - tauto.
Qed.

Lemma iso_field qo ao qr ar : In qo opts -> In ao opts ->
  sub (qiso_f qo qr) (aiso_f ao ar) = (Bool.eqb qr ar && match qo with None => true | Some _ => option_eqb Z.eqb qo ao end) /\
  within 44 63 (qiso_f qo qr) /\ within 44 63 (aiso_f ao ar).
Proof.
  intros Hq Ha. pose proof iso_sweep as S. rewrite forallb_forall in S. specialize (S qo Hq).
  rewrite forallb_forall in S. specialize (S ao Ha). rewrite forallb_forall in S.
  assert (Hb : forall b : bool, In b [true; false]) by (intros []; cbn; auto).
  specialize (S qr (Hb qr)). rewrite forallb_forall in S. specialize (S ar (Hb ar)).
  apply andb_true_iff in S. destruct S as [S S3]. apply andb_true_iff in S. destruct S as [S1 S2].
  apply eqb_prop in S1. split; [exact S1|]. split; apply withinb_sound; (lia || assumption).
Qed.

(* a query offset outside the field leaves only the radical bits: no atom passes, and no atom has that isotope *)
Lemma iso_out_sweep :
  forallb (fun ao => forallb (fun qr : bool => forallb (fun ar : bool =>
    negb (sub (if qr then 0x200000000000 else 0x100000000000) (aiso_f ao ar)) &&
    withinb 44 63 (if qr then 0x200000000000 else 0x100000000000)) [true; false]) [true; false]) opts = true.
Proof. vm_compute. reflexivity. Qed.

Lemma iso_field_any qo ao qr ar : In ao opts ->
  sub (qiso_f qo qr) (aiso_f ao ar) = (Bool.eqb qr ar && match qo with None => true | Some _ => option_eqb Z.eqb qo ao end) /\
  within 44 63 (qiso_f qo qr) /\ within 44 63 (aiso_f ao ar).
Proof.
  intros Ha. destruct qo as [o|]; [|apply iso_field; [apply opts_In; exact I | exact Ha]].
  destruct ((-8 <=? o) && (o <=? 8)) eqn:R.
  - apply iso_field; [|exact Ha]. apply opts_In. apply andb_true_iff in R. destruct R as [R1 R2]. apply Z.leb_le in R1, R2. lia.
  - unfold qiso_f. rewrite R, Z.lor_0_l.
    pose proof iso_out_sweep as S. rewrite forallb_forall in S. specialize (S ao Ha). rewrite forallb_forall in S.
    assert (Hb : forall b : bool, In b [true; false]) by (intros []; cbn; auto).
    specialize (S qr (Hb qr)). rewrite forallb_forall in S. specialize (S ar (Hb ar)).
    apply andb_true_iff in S. destruct S as [S1 S2]. apply negb_true_iff in S1.
    destruct (iso_field None ao false ar) as [_ [_ Wa]]; [apply opts_In; exact I | exact Ha|].
    split; [|split; [apply withinb_sound; (lia || assumption) | exact Wa]].
    rewrite S1. symmetry. apply andb_false_iff. right.
    destruct ao as [v|]; [|reflexivity]. cbn [option_eqb]. apply Z.eqb_neq. intros ->.
    apply opts_In in Ha. apply andb_false_iff in R. destruct R as [R|R]; [apply Z.leb_gt in R | apply Z.leb_gt in R]; lia.
Qed.

(* hydrogens of a query: counts above 4 are skipped *)
Definition hkeep (h : Z) : bool := negb (4 <? h).
Lemma or_bits_h_eq l v : or_bits_h l v = or_bits (fun h => h + 30) (filter hkeep l) v.
Proof.
  unfold or_bits_h, or_bits. revert v. induction l as [|h l IH]; intros v; cbn [fold_left filter]; [reflexivity|].
  unfold hkeep at 1. destruct (4 <? h); cbn [negb fold_left]; apply IH.
Qed.
Definition tfh (l : list Z) : Z := match l with [] => 0x7c0000000 | _ => or_bits (fun h => h + 30) (filter hkeep l) 0 end.
Lemma tfh_acc l v : or_field_h l v = Z.lor v (tfh l).
Proof. destruct l; [reflexivity|]. unfold tfh, or_field_h. rewrite or_bits_h_eq. apply or_bits_acc. Qed.
Lemma filter_hkeep_In l x : all_in 0 14 l = true -> In x (filter hkeep l) -> 0 <= x <= 4.
Proof.
  intros Hl Hx. apply filter_In in Hx. destruct Hx as [Hx Hk]. pose proof (all_in_In _ _ _ _ Hl Hx).
  unfold hkeep in Hk. apply negb_true_iff, Z.ltb_ge in Hk. lia.
Qed.
Lemma tfh_within l : all_in 0 14 l = true -> within 30 34 (tfh l).
Proof.
  intros Hl. destruct l as [|y r]; [apply withinb_sound; [lia|lia|vm_compute; reflexivity]|]. unfold tfh.
  apply or_bits_within. intros x Hx. pose proof (filter_hkeep_In _ _ Hl Hx). lia.
Qed.
Lemma sub_tfh l v : all_in 0 14 l = true -> 0 <= v <= 4 ->
  sub (tfh l) (bit (v + 30)) = negb (nonempty l && negb (zmem v l)).
Proof.
  intros Hl Hv. rewrite sub_bit by lia. destruct l as [|y r].
  - cbn [tfh nonempty andb negb]. assert (P : v + 30 = 30 \/ v + 30 = 31 \/ v + 30 = 32 \/ v + 30 = 33 \/ v + 30 = 34) by lia.
    destruct P as [->|[->|[->|[->| ->]]]]; reflexivity.
  - unfold tfh. rewrite or_bits_testbit by (intros x Hx; pose proof (filter_hkeep_In _ _ Hl Hx); lia).
    cbn [nonempty andb]. rewrite negb_involutive. unfold zmem. apply eq_true_iff_eq. rewrite !existsb_exists.
    split; intros [x [Hx E]].
    + apply filter_In in Hx. destruct Hx as [Hx _]. exists x. split; [exact Hx|]. apply Z.eqb_eq in E. apply Z.eqb_eq. lia.
    + apply Z.eqb_eq in E. subst x. exists v. split; [|apply Z.eqb_refl]. apply filter_In. split; [exact Hx|].
      unfold hkeep. apply negb_true_iff, Z.ltb_ge. lia.
Qed.

(* the offset the encoders compute *)
Definition off_of (iso : option Z) (num : Z) : option Z :=
  if iso_truthy iso then Some ((match iso with Some i => i | None => 0 end) - mdl_of num) else None.

Lemma off_of_In iso num : iso_off_ok iso num = true -> In (off_of iso num) opts.
Proof.
  unfold iso_off_ok, off_of, iso_truthy. intros H. apply opts_In. destruct iso as [i|]; [|exact I].
  destruct (i =? 0); cbn [negb orb] in *; [exact I|].
  unfold in_range in H. apply andb_true_iff in H. destruct H as [H1 H2]. apply Z.leb_le in H1, H2. lia.
Qed.

Definition a3 (a : latom) : Z :=
  Z.lor (Z.lor (Z.lor (Z.lor (aiso_f (off_of (la_iso a) (la_num a)) (la_rad a)) (bit (la_chg a + 39)))
                      (bit ((match la_h a with Some h => h | None => 0 end) + 30)))
               (bit (la_het a + 0))) (bit (la_nb a + 15)).

Lemma enc_atom_w3 a : w3 (enc_atom a) = a3 a.
Proof.
  unfold enc_atom, a3, aiso_f, off_of. destruct (56 <? la_num a); cbn [w3];
  rewrite Z.add_0_r; rewrite lor_swap; destruct (iso_truthy (la_iso a)); reflexivity.
Qed.

(* the five fields of a query word III *)
Definition q3 (fi fc fh fhet fnb : Z) : Z := Z.lor (Z.lor (Z.lor (Z.lor fi fc) fh) fhet) fnb.

Definition hfull := 0x7c0000000.
Definition hetfull := 0x7fff.
Definition nbfull := 0x3fff8000.

Lemma enc_x3_fields iso num x :
  enc_x3 iso num x =
  Z.lor (Z.lor (Z.lor (qiso_f (off_of iso num) (x_rad x)) (bit (x_chg x + 39))) (tfh (x_h x)))
        (tf (fun n => n) hetfull (x_het x)).
Proof.
  unfold enc_x3. cbv zeta. rewrite tf_acc, tfh_acc.
  unfold qiso_f, off_of. destruct (iso_truthy iso); reflexivity.
Qed.

Lemma full_fields :
  0xffffffffc0007fff = Z.lor (Z.lor (Z.lor 0xfffff00000000000 0xff800000000) hfull) hetfull.
Proof. reflexivity. Qed.

Lemma testbit_full lo hi full p : withinb lo hi full = true ->
  forallb (fun k => Z.testbit full k) (zrange lo (hi + 1)) = true -> lo <= p <= hi -> Z.testbit full p = true.
Proof. intros _ H Hp. rewrite forallb_forall in H. apply H. apply zrange_In. lia. Qed.

Lemma hfull_bits p : 30 <= p <= 34 -> Z.testbit hfull p = true.
Proof. apply (testbit_full 30 34); vm_compute; reflexivity. Qed.
Lemma hetfull_bits p : 0 <= p <= 14 -> Z.testbit hetfull p = true.
Proof. apply (testbit_full 0 14); vm_compute; reflexivity. Qed.
Lemma nbfull_bits p : 15 <= p <= 29 -> Z.testbit nbfull p = true.
Proof. apply (testbit_full 15 29); vm_compute; reflexivity. Qed.
Lemma isofull_bits p : 44 <= p <= 63 -> Z.testbit 0xfffff00000000000 p = true.
Proof. apply (testbit_full 44 63); vm_compute; reflexivity. Qed.
Lemma chgfull_bits p : 35 <= p <= 43 -> Z.testbit 0xff800000000 p = true.
Proof. apply (testbit_full 35 43); vm_compute; reflexivity. Qed.

Lemma W (lo hi v : Z) : 0 <= lo -> lo <= hi -> withinb lo hi v = true -> within lo hi v.
Proof. apply withinb_sound. Qed.

Ltac range_hyps :=
  repeat match goal with
         | H : in_range _ _ _ = true |- _ =>
             unfold in_range in H; apply andb_true_iff in H; let H1 := fresh in let H2 := fresh in
             destruct H as [H1 H2]; apply Z.leb_le in H1; apply Z.leb_le in H2
         | H : (_ <=? _) = true |- _ => apply Z.leb_le in H
         end.

(* word III, field by field, for any five query fields with the right supports *)
Lemma sub_q3 fi fc fh fhet fnb a :
  atom_ok a = true ->
  within 44 63 fi -> within 35 43 fc -> within 30 34 fh -> within 0 14 fhet -> within 15 29 fnb ->
  sub (q3 fi fc fh fhet fnb) (a3 a) =
  sub fi (aiso_f (off_of (la_iso a) (la_num a)) (la_rad a)) && sub fc (bit (la_chg a + 39)) &&
  sub fh (bit ((match la_h a with Some h => h | None => 0 end) + 30)) &&
  sub fhet (bit (la_het a + 0)) && sub fnb (bit (la_nb a + 15)).
Proof.
  intros Ha Wi Wc Wh Whet Wnb. unfold atom_ok in Ha.
  repeat (apply andb_true_iff in Ha; let H := fresh "A" in destruct Ha as [Ha H]).
  unfold q3, a3.
  destruct (la_h a) as [h|] eqn:Eh; [|discriminate]. range_hyps.
  destruct (iso_field None (off_of (la_iso a) (la_num a)) false (la_rad a)) as [_ [_ Wa]];
    [apply opts_In; exact I | apply off_of_In; assumption|].
  assert (Bc : within 35 43 (bit (la_chg a + 39))) by (apply within_bit; lia).
  assert (Bh : within 30 34 (bit (h + 30))) by (apply within_bit; lia).
  assert (Bhet : within 0 14 (bit (la_het a + 0))) by (apply within_bit; lia).
  assert (Bnb : within 15 29 (bit (la_nb a + 15))) by (apply within_bit; lia).
  rewrite (sub_split 15 29), (sub_split 0 14), (sub_split 30 34), (sub_split 35 43); try assumption; try reflexivity;
    repeat apply outside_lor; (eapply within_outside; [eassumption | lia]).
Qed.

(* ---- the query side of word III ---- *)
Definition q_nb (q : qatom) : list Z :=
  match q with QElem _ _ x | QAny x | QList _ x => x_nb x | QMetal nb _ => nb end.
Definition q_hyb (q : qatom) : list Z :=
  match q with QElem _ _ x | QAny x | QList _ x => x_hyb x | QMetal _ hyb => hyb end.

Definition q3_of (q : qatom) : Z :=
  match q with
  | QElem num iso x =>
      q3 (qiso_f (off_of iso num) (x_rad x)) (bit (x_chg x + 39)) (tfh (x_h x))
         (tf (fun n => n) hetfull (x_het x)) (tf (fun n => n + 15) nbfull (x_nb x))
  | QAny x | QList _ x =>
      q3 (qiso_f None (x_rad x)) (bit (x_chg x + 39)) (tfh (x_h x))
         (tf (fun n => n) hetfull (x_het x)) (tf (fun n => n + 15) nbfull (x_nb x))
  | QMetal nb _ => q3 0xfffff00000000000 0xff800000000 hfull hetfull (tf (fun n => n + 15) nbfull nb)
  end.

Lemma enc_q_w3 q b : w3 (enc_qatom q b) = q3_of q.
Proof.
  destruct q as [num iso x|x|nums x|nb hyb]; unfold enc_qatom, q3_of, q3.
  - destruct (elem_masks num) as [m1 m2]. cbn [w3]. rewrite tf_acc, enc_x3_fields. reflexivity.
  - cbn [w3]. rewrite tf_acc, enc_x3_fields. reflexivity.
  - destruct (fold_left _ nums (0, 0)) as [m1 m2]. cbn [w3]. rewrite tf_acc, enc_x3_fields. reflexivity.
  - cbn [w3]. rewrite tf_acc, full_fields. reflexivity.
Qed.

(* reference value of the tuple test: `if self.t and other.v not in self.t: return False` *)
Definition tup (l : list Z) (v : Z) : bool := negb (nonempty l && negb (zmem v l)).

Definition x3_ref (x : qx) (a : latom) : bool :=
  Bool.eqb (x_rad x) (la_rad a) && (x_chg x =? la_chg a) &&
  negb (nonempty (x_h x) && negb (opt_mem (la_h a) (x_h x))) && tup (x_het x) (la_het a) && tup (x_nb x) (la_nb a).

Lemma eqb_shift a b k : (a + k =? b + k) = (a =? b).
Proof.
  destruct (a =? b) eqn:E; [apply Z.eqb_eq in E; rewrite E; apply Z.eqb_refl | apply Z.eqb_neq in E; apply Z.eqb_neq; lia].
Qed.

Lemma add0 f : (forall x : Z, f x = x) -> forall x, f x = x + 0.
Proof. intros H x. rewrite H. lia. Qed.

Lemma x_fields_within x : qx_ok x = true ->
  within 35 43 (bit (x_chg x + 39)) /\ within 30 34 (tfh (x_h x)) /\
  within 0 14 (tf (fun n => n) hetfull (x_het x)) /\ within 15 29 (tf (fun n => n + 15) nbfull (x_nb x)).
Proof.
  intros Hx. unfold qx_ok in Hx. repeat (apply andb_true_iff in Hx; let H := fresh "X" in destruct Hx as [Hx H]).
  range_hyps. split; [|split; [|split]].
  - apply within_bit; lia.
  - apply tfh_within. assumption.
  - apply (tf_within _ 0 _ _ _ _ 0 14); try lia; auto. apply W; [lia|lia|vm_compute; reflexivity].
  - apply (tf_within _ 15 _ _ _ _ 0 14); try lia; auto. apply W; [lia|lia|vm_compute; reflexivity].
Qed.

(* word III of an ExtendedQuery with isotope offset qo *)
Lemma sub_x3 qo x a : qx_ok x = true -> atom_ok a = true ->
  sub (q3 (qiso_f qo (x_rad x)) (bit (x_chg x + 39)) (tfh (x_h x))
          (tf (fun n => n) hetfull (x_het x)) (tf (fun n => n + 15) nbfull (x_nb x))) (a3 a) =
  match qo with None => true | Some _ => option_eqb Z.eqb qo (off_of (la_iso a) (la_num a)) end && x3_ref x a.
Proof.
  intros Hx Ha. destruct (x_fields_within x Hx) as [Wc [Wh [Whet Wnb]]].
  assert (Hao : In (off_of (la_iso a) (la_num a)) opts).
  { unfold atom_ok in Ha. repeat (apply andb_true_iff in Ha; let H := fresh "A" in destruct Ha as [Ha H]).
    apply off_of_In. assumption. }
  destruct (iso_field_any qo (off_of (la_iso a) (la_num a)) (x_rad x) (la_rad a) Hao) as [Fi [Wi _]].
  rewrite (sub_q3 _ _ _ _ _ a Ha Wi Wc Wh Whet Wnb), Fi.
  pose proof Ha as Ha'. unfold atom_ok in Ha'. repeat (apply andb_true_iff in Ha'; let H := fresh "A" in destruct Ha' as [Ha' H]).
  pose proof Hx as Hx'. unfold qx_ok in Hx'. repeat (apply andb_true_iff in Hx'; let H := fresh "X" in destruct Hx' as [Hx' H]).
  destruct (la_h a) as [h|] eqn:Eh; [|discriminate]. range_hyps.
  rewrite (sub_bit _ (la_chg a + 39)), bit_testbit by lia.
  rewrite (sub_tfh (x_h x) h) by (assumption || lia).
  rewrite (sub_tf (fun n => n) 0 hetfull (x_het x) (la_het a) 0 14);
    [|intros; lia | assumption | lia | lia | apply hetfull_bits; lia].
  rewrite (sub_tf (fun n => n + 15) 15 nbfull (x_nb x) (la_nb a) 0 14);
    [|reflexivity | assumption | lia | lia | apply nbfull_bits; lia].
  unfold x3_ref, tup. rewrite Eh. cbn [opt_mem].
  rewrite eqb_shift.
  destruct (Bool.eqb (x_rad x) (la_rad a)), (x_chg x =? la_chg a), (match qo with None => true | Some _ => _ end);
    cbn [andb]; reflexivity.
Qed.

Lemma sub_metal3 nb a : all_in 0 14 nb = true -> atom_ok a = true ->
  sub (q3 0xfffff00000000000 0xff800000000 hfull hetfull (tf (fun n => n + 15) nbfull nb)) (a3 a) = tup nb (la_nb a).
Proof.
  intros Hnb Ha.
  assert (Hao : In (off_of (la_iso a) (la_num a)) opts).
  { pose proof Ha as Ha'. unfold atom_ok in Ha'. repeat (apply andb_true_iff in Ha'; let H := fresh "A" in destruct Ha' as [Ha' H]).
    apply off_of_In. assumption. }
  destruct (iso_field None (off_of (la_iso a) (la_num a)) false (la_rad a)) as [_ [_ Wa]]; [apply opts_In; exact I | exact Hao|].
  assert (W1 : within 44 63 0xfffff00000000000) by (apply W; [lia|lia|vm_compute; reflexivity]).
  assert (W2 : within 35 43 0xff800000000) by (apply W; [lia|lia|vm_compute; reflexivity]).
  assert (W3 : within 30 34 hfull) by (apply W; [lia|lia|vm_compute; reflexivity]).
  assert (W4 : within 0 14 hetfull) by (apply W; [lia|lia|vm_compute; reflexivity]).
  assert (W5f : within 15 29 nbfull) by (apply W; [lia|lia|vm_compute; reflexivity]).
  assert (W5 : within 15 29 (tf (fun n => n + 15) nbfull nb)).
  { apply (tf_within _ 15 _ _ _ _ 0 14); try lia; auto. }
  rewrite (sub_q3 _ _ _ _ _ a Ha W1 W2 W3 W4 W5).
  pose proof Ha as Ha'. unfold atom_ok in Ha'. repeat (apply andb_true_iff in Ha'; let H := fresh "A" in destruct Ha' as [Ha' H]).
  destruct (la_h a) as [h|] eqn:Eh; [|discriminate]. range_hyps.
  rewrite (sub_tf (fun n => n + 15) 15 nbfull nb (la_nb a) 0 14);
    [|reflexivity | exact Hnb | lia | lia | apply nbfull_bits; lia].
  rewrite !sub_bit by lia. rewrite chgfull_bits, hfull_bits, hetfull_bits by lia.
  assert (S : sub 0xfffff00000000000 (aiso_f (off_of (la_iso a) (la_num a)) (la_rad a)) = true).
  { apply sub_iff. intros p Hp T. apply isofull_bits. apply (Wa p Hp T). }
  rewrite S. reflexivity.
Qed.

(* ------------------------------------------------------------------------------------------------------------ *)
(* 3. words I and II: element bits, hybridisation [0,3], bond order [59,63], ring mark [57,58]                    *)

Definition pos1 (an : Z) : Z := if 56 <? an then 0 else 57 - an.
Definition b2e (an : Z) : Z := if 56 <? an then bit (120 - clamp116 an) else 0.

Lemma enc_atom_w1 a : w1 (enc_atom a) = bit (pos1 (la_num a)).
Proof. unfold enc_atom, pos1. destruct (56 <? la_num a); reflexivity. Qed.
Lemma enc_atom_w2 a : w2 (enc_atom a) = Z.lor (b2e (la_num a)) (bit (la_hyb a + -1)).
Proof.
  unfold enc_atom, b2e. destruct (56 <? la_num a); cbn [w2].
  - apply Z.lor_comm.
  - rewrite Z.lor_0_l. reflexivity.
Qed.

(* element masks of a query *)
Definition lmasks (nums : list Z) : Z * Z :=
  fold_left (fun acc n => let '(m1, m2) := elem_masks n in (Z.lor (fst acc) m1, Z.lor (snd acc) m2)) nums (0, 0).
Definition qm (q : qatom) : Z * Z :=
  match q with
  | QMetal _ _ => (0x0060707ffc1fff87, 0xfffffff3fffffff0)
  | QAny _ => (0x01ffffffffffffff, 0xfffffffffffffff0)
  | QList nums _ => lmasks nums
  | QElem n _ _ => elem_masks n
  end.

Lemma enc_q_w2 q b : w2 (enc_qatom q b) = Z.lor (snd (qm q)) (tf (fun n => n - 1) 0xf (q_hyb q)).
Proof.
  destruct q as [num iso x|x|nums x|nb hyb]; unfold enc_qatom, qm, q_hyb.
  - destruct (elem_masks num) as [m1 m2]. cbn [w2 snd]. apply tf_acc.
  - cbn [w2 snd]. apply tf_acc.
  - unfold lmasks. destruct (fold_left _ nums (0, 0)) as [m1 m2]. cbn [w2 snd]. apply tf_acc.
  - cbn [w2 snd]. apply tf_acc.
Qed.

Lemma qorder_acc l v : qorder_bits l v = Z.lor v (qorder_bits l 0).
Proof.
  unfold qorder_bits. revert v. induction l as [|x l IH]; intros v; cbn [fold_left].
  - rewrite Z.lor_0_r. reflexivity.
  - rewrite IH, (IH (Z.lor 0 _)), Z.lor_0_l, Z.lor_assoc. reflexivity.
Qed.

Lemma enc_q_w1 q b :
  w1 (enc_qatom q b) =
  match b with
  | None => fst (qm q)
  | Some qb => Z.lor (Z.lor (fst (qm q)) (qorder_bits (qb_ord qb) 0)) (qring_bits (qb_ring qb))
  end.
Proof.
  destruct q as [num iso x|x|nums x|nb hyb]; unfold enc_qatom, qm.
  - destruct (elem_masks num) as [m1 m2]. cbn [w1 fst]. destruct b; [rewrite qorder_acc|]; reflexivity.
  - cbn [w1 fst]. destruct b; [rewrite qorder_acc|]; reflexivity.
  - unfold lmasks. destruct (fold_left _ nums (0, 0)) as [m1 m2]. cbn [w1 fst]. destruct b; [rewrite qorder_acc|]; reflexivity.
  - cbn [w1 fst]. destruct b; [rewrite qorder_acc|]; reflexivity.
Qed.

(* the element part of the two tests *)
Definition elem_test (m : Z * Z) (an : Z) : bool := Z.testbit (fst m) (pos1 an) && sub (snd m) (b2e an).

Definition r116 := zrange 1 117.
Definition r118 := zrange 1 119.

Lemma elem_sweep :
  forallb (fun n => forallb (fun an => Bool.eqb (elem_test (elem_masks n) an) (n =? an)) r116) r116 = true.
Proof. vm_compute. reflexivity. Qed.
Lemma any_sweep :
  forallb (fun an => elem_test (0x01ffffffffffffff, 0xfffffffffffffff0) an) r118 = true.
Proof. vm_compute. reflexivity. Qed.
(* AnyMetal: the two constants agree with the element tables (is_forming_single_bonds, group 18) for 1..116 *)
Lemma metal_sweep :
  forallb (fun an => Bool.eqb (elem_test (0x0060707ffc1fff87, 0xfffffff3fffffff0) an) (negb (non_metal an))) r116 = true.
Proof. vm_compute. reflexivity. Qed.
Lemma supports_sweep :
  forallb (fun n => withinb 0 56 (fst (elem_masks n)) && withinb 4 63 (snd (elem_masks n)) && withinb 4 63 (b2e n) &&
                    in_range 0 56 (pos1 n)) r118 = true.
Proof. vm_compute. reflexivity. Qed.
(* facts used for element lists *)
Lemma list_sweep :
  forallb (fun n => forallb (fun an =>
     Bool.eqb (Z.testbit (fst (elem_masks n)) (pos1 an)) (if 56 <? an then 56 <? n else n =? an) &&
     Bool.eqb (sub (snd (elem_masks n)) (b2e an)) (if 56 <? an then (56 <? n) && (n =? an) else true) &&
     implb (56 <? an) (Z.testbit (snd (elem_masks n)) (120 - clamp116 an) || negb ((56 <? n) && (n =? an)))) r116) r116 = true.
Proof. vm_compute. reflexivity. Qed.

Lemma in_r116 n : In n r116 <-> 1 <= n <= 116.
Proof. unfold r116. rewrite zrange_In. lia. Qed.
Lemma in_r118 n : In n r118 <-> 1 <= n <= 118.
Proof. unfold r118. rewrite zrange_In. lia. Qed.

Lemma supports n : 1 <= n <= 118 ->
  within 0 56 (fst (elem_masks n)) /\ within 4 63 (snd (elem_masks n)) /\ within 4 63 (b2e n) /\ 0 <= pos1 n <= 56.
Proof.
  intros H. pose proof supports_sweep as S. rewrite forallb_forall in S. specialize (S n (proj2 (in_r118 n) H)).
  apply andb_true_iff in S. destruct S as [S S4]. apply andb_true_iff in S. destruct S as [S S3].
  apply andb_true_iff in S. destruct S as [S1 S2]. range_hyps.
  split; [apply W; [lia|lia|exact S1]|]. split; [apply W; [lia|lia|exact S2]|]. split; [apply W; [lia|lia|exact S3]|]. lia.
Qed.

Lemma elem_test_elem n an : 1 <= n <= 116 -> 1 <= an <= 116 -> elem_test (elem_masks n) an = (n =? an).
Proof.
  intros Hn Ha. pose proof elem_sweep as S. rewrite forallb_forall in S. specialize (S n (proj2 (in_r116 n) Hn)).
  rewrite forallb_forall in S. specialize (S an (proj2 (in_r116 an) Ha)). apply eqb_prop in S. exact S.
Qed.
Lemma elem_test_any an : 1 <= an <= 118 -> elem_test (0x01ffffffffffffff, 0xfffffffffffffff0) an = true.
Proof. intros Ha. pose proof any_sweep as S. rewrite forallb_forall in S. apply S. apply in_r118. exact Ha. Qed.
Lemma elem_test_metal an : 1 <= an <= 116 ->
  elem_test (0x0060707ffc1fff87, 0xfffffff3fffffff0) an = negb (non_metal an).
Proof.
  intros Ha. pose proof metal_sweep as S. rewrite forallb_forall in S. specialize (S an (proj2 (in_r116 an) Ha)).
  apply eqb_prop in S. exact S.
Qed.

(* element lists: the fold is the union of the members' masks *)
Definition lm1 (nums : list Z) : Z := fold_left (fun acc n => Z.lor acc (fst (elem_masks n))) nums 0.
Definition lm2 (nums : list Z) : Z := fold_left (fun acc n => Z.lor acc (snd (elem_masks n))) nums 0.
Lemma lmasks_eq nums : lmasks nums = (lm1 nums, lm2 nums).
Proof.
  unfold lmasks, lm1, lm2. generalize 0 at 1 3. generalize 0. induction nums as [|n l IH]; intros u v; cbn [fold_left].
  - reflexivity.
  - destruct (elem_masks n) as [m1 m2]. cbn [fst snd]. apply IH.
Qed.
Lemma fold_lor_testbit (g : Z -> Z) l v p :
  Z.testbit (fold_left (fun acc n => Z.lor acc (g n)) l v) p = Z.testbit v p || existsb (fun n => Z.testbit (g n) p) l.
Proof.
  revert v. induction l as [|n l IH]; intros v; cbn [fold_left existsb].
  - rewrite orb_false_r. reflexivity.
  - rewrite IH, Z.lor_spec, orb_assoc. reflexivity.
Qed.
Lemma fold_lor_within (g : Z -> Z) l lo hi : (forall n, In n l -> within lo hi (g n)) ->
  within lo hi (fold_left (fun acc n => Z.lor acc (g n)) l 0).
Proof.
  intros H p Hp T. rewrite fold_lor_testbit, Z.bits_0 in T. cbn [orb] in T. apply existsb_exists in T.
  destruct T as [n [Hn T]]. exact (H n Hn p Hp T).
Qed.

Lemma elem_test_list nums an : all_in 1 116 nums = true -> 1 <= an <= 116 -> elem_test (lmasks nums) an = zmem an nums.
Proof.
  intros Hl Ha. rewrite lmasks_eq. unfold elem_test. cbn [fst snd].
  assert (F : forall n, In n nums ->
     Z.testbit (fst (elem_masks n)) (pos1 an) = (if 56 <? an then 56 <? n else n =? an) /\
     (56 <? an = true -> Z.testbit (snd (elem_masks n)) (120 - clamp116 an) = (56 <? n) && (n =? an))).
  { intros n Hn. pose proof (all_in_In _ _ _ _ Hl Hn) as Hr. pose proof list_sweep as S.
    rewrite forallb_forall in S. specialize (S n (proj2 (in_r116 n) Hr)). rewrite forallb_forall in S.
    specialize (S an (proj2 (in_r116 an) Ha)). apply andb_true_iff in S. destruct S as [S S3].
    apply andb_true_iff in S. destruct S as [S1 S2]. apply eqb_prop in S1, S2. split; [exact S1|].
    intros Hh. rewrite Hh in S2, S3. cbn [implb] in S3. unfold b2e in S2. rewrite Hh in S2.
    rewrite sub_bit in S2; [exact S2|]. unfold clamp116. destruct (116 <? an); lia. }
  unfold lm1, lm2. rewrite fold_lor_testbit, Z.bits_0. cbn [orb].
  unfold b2e. destruct (56 <? an) eqn:Eh.
  - rewrite sub_bit by (unfold clamp116; destruct (116 <? an); lia).
    rewrite fold_lor_testbit, Z.bits_0. cbn [orb].
    apply eq_true_iff_eq. rewrite andb_true_iff, !existsb_exists. unfold zmem. rewrite existsb_exists. split.
    + intros [_ [n [Hn T]]]. destruct (F n Hn) as [_ F2]. rewrite (F2 eq_refl) in T. apply andb_true_iff in T.
      destruct T as [_ T]. apply Z.eqb_eq in T. subst. exists an. split; [exact Hn | apply Z.eqb_refl].
    + intros [n [Hn E]]. apply Z.eqb_eq in E. subst n. destruct (F an Hn) as [F1 F2]. split; exists an; (split; [exact Hn|]).
      * rewrite F1. exact Eh.
      * rewrite (F2 eq_refl), Eh, Z.eqb_refl. reflexivity.
  - rewrite sub_0, andb_true_r. unfold zmem. apply eq_true_iff_eq. rewrite !existsb_exists.
    split; intros [n [Hn T]]; exists n; (split; [exact Hn|]).
    + destruct (F n Hn) as [F1 _]. rewrite F1 in T. rewrite Z.eqb_sym. exact T.
    + destruct (F n Hn) as [F1 _]. rewrite F1. rewrite Z.eqb_sym. exact T.
Qed.

Lemma lmasks_within nums : all_in 1 116 nums = true -> within 0 56 (fst (lmasks nums)) /\ within 4 63 (snd (lmasks nums)).
Proof.
  intros Hl. rewrite lmasks_eq. cbn [fst snd]. split; apply fold_lor_within; intros n Hn;
  pose proof (all_in_In _ _ _ _ Hl Hn) as Hr; destruct (supports n) as [S1 [S2 _]]; try lia; assumption.
Qed.

(* reference value of the element test of each query class *)
Definition elem_ref (q : qatom) (an : Z) : bool :=
  match q with
  | QElem n _ _ => n =? an
  | QAny _ => true
  | QList nums _ => zmem an nums
  | QMetal _ _ => negb (non_metal an)
  end.
Lemma elem_test_q q an : elem_hyp q an -> elem_test (qm q) an = elem_ref q an.
Proof.
  intros [Ha Hq]. destruct q as [n iso x|x|nums x|nb hyb]; unfold qm, elem_ref.
  - apply elem_test_elem; assumption.
  - apply elem_test_any. lia.
  - apply elem_test_list; assumption.
  - apply elem_test_metal; assumption.
Qed.
Lemma qm_within q an : elem_hyp q an -> within 0 56 (fst (qm q)) /\ within 4 63 (snd (qm q)).
Proof.
  intros [Ha Hq]. destruct q as [n iso x|x|nums x|nb hyb]; unfold qm.
  - destruct (supports n) as [S1 [S2 _]]; [lia|]. tauto.
  - cbn [fst snd]. split; apply W; try lia; vm_compute; reflexivity.
  - apply lmasks_within. exact Hq.
  - cbn [fst snd]. split; apply W; try lia; vm_compute; reflexivity.
Qed.

(* word II *)
Lemma sub_w2 q b a : elem_hyp q (la_num a) -> all_in 1 4 (q_hyb q) = true -> atom_ok a = true ->
  sub (w2 (enc_qatom q b)) (w2 (enc_atom a)) = sub (snd (qm q)) (b2e (la_num a)) && tup (q_hyb q) (la_hyb a).
Proof.
  intros He Hh Ha. rewrite enc_q_w2, enc_atom_w2.
  destruct (qm_within q _ He) as [_ W2]. destruct He as [Hn _].
  destruct (supports (la_num a)) as [_ [_ [Wb _]]]; [lia|].
  pose proof Ha as Ha'. unfold atom_ok in Ha'. repeat (apply andb_true_iff in Ha'; let H := fresh "A" in destruct Ha' as [Ha' H]).
  range_hyps.
  assert (Wt : within 0 3 (tf (fun n => n - 1) 15 (q_hyb q))).
  { apply (tf_within _ (-1) _ _ _ _ 1 4); try lia; auto. apply W; [lia|lia|vm_compute; reflexivity]. }
  rewrite (sub_split 0 3); try assumption.
  - rewrite (sub_tf _ (-1) _ _ (la_hyb a) 1 4); try lia; auto.
    apply (testbit_full 0 3); [vm_compute; reflexivity | vm_compute; reflexivity | lia].
  - eapply within_outside; [eassumption|lia].
  - eapply within_outside; [eassumption|lia].
  - apply within_bit; lia.
Qed.

(* ------------------------------------------------------------------------------------------------------------ *)
(* 4. word IV: ring sizes                                                                                         *)

Definition allones := 0xffffffffffffffff.
Lemma allones_bits p : 0 <= p <= 63 -> Z.testbit allones p = true.
Proof. apply (testbit_full 0 63); vm_compute; reflexivity. Qed.

Lemma ring_fold_eq l v : all_in 3 65 l = true ->
  fold_left (fun acc r => if 65 <? r then acc else Z.lor acc (bit (65 - r))) l v = or_bits (fun r => 65 - r) l v.
Proof.
  unfold or_bits. revert v. induction l as [|r l IH]; intros v Hl; [reflexivity|].
  cbn [fold_left]. cbn [all_in forallb] in Hl. apply andb_true_iff in Hl. destruct Hl as [Hr Hl].
  unfold in_range in Hr. apply andb_true_iff in Hr. destruct Hr as [_ Hr]. apply Z.leb_le in Hr.
  assert (E : 65 <? r = false) by (apply Z.ltb_ge; exact Hr). rewrite E. apply IH. exact Hl.
Qed.

Lemma ring_bits_eq l : l <> [] -> all_in 3 65 l = true -> ring_bits l = or_bits (fun r => 65 - r) l 0.
Proof.
  intros Hne Hl. unfold ring_bits. rewrite ring_fold_eq by exact Hl.
  destruct l as [|r0 l]; [congruence|].
  assert (T : Z.testbit (or_bits (fun r => 65 - r) (r0 :: l) 0) (65 - r0) = true).
  { rewrite or_bits_testbit.
    - cbn [existsb]. rewrite Z.eqb_refl. reflexivity.
    - intros x Hx. pose proof (all_in_In _ _ _ _ Hl Hx). lia. }
  destruct (or_bits (fun r => 65 - r) (r0 :: l) 0 =? 0) eqn:E; [|reflexivity].
  apply Z.eqb_eq in E. rewrite E, Z.bits_0 in T. discriminate.
Qed.

Definition a4 (a : latom) : Z := match la_rings a with [] => bit 63 | l => or_bits (fun r => 65 - r) l 0 end.
Lemma enc_atom_w4 a : atom_ok a = true -> w4 (enc_atom a) = a4 a.
Proof.
  intros Ha. unfold atom_ok in Ha. repeat (apply andb_true_iff in Ha; let H := fresh "A" in destruct Ha as [Ha H]).
  unfold enc_atom, a4. destruct (56 <? la_num a); cbn [w4]; destruct (la_rings a) as [|r l] eqn:E; try reflexivity;
  apply ring_bits_eq; (discriminate || assumption).
Qed.

Definition ring_ref (x : qx) (a : latom) : bool :=
  match x_rings x with
  | [] => true
  | r0 :: _ => if negb (r0 =? 0) then negb (disjoint_z (la_rings a) (x_rings x)) else negb (nonempty (la_rings a))
  end.

Lemma rings_testbit l p : all_in 3 65 l = true ->
  Z.testbit (or_bits (fun r => 65 - r) l 0) p = existsb (fun r => 65 - r =? p) l.
Proof. intros Hl. apply or_bits_testbit. intros x Hx. pose proof (all_in_In _ _ _ _ Hl Hx). lia. Qed.

Lemma meet_comm a b : meet a b = meet b a.
Proof. unfold meet. rewrite Z.land_comm. reflexivity. Qed.

Lemma or_bits_nonneg f l : 0 <= or_bits f l 0.
Proof.
  unfold or_bits. assert (G : forall v, 0 <= v -> 0 <= fold_left (fun acc x => Z.lor acc (bit (f x))) l v).
  { induction l as [|x l IH]; intros v Hv; cbn [fold_left]; [exact Hv|]. apply IH. apply Z.lor_nonneg. split; [exact Hv|].
    unfold bit. apply Z.shiftl_nonneg. lia. }
  apply G. lia.
Qed.

Lemma disjoint_false a b : disjoint_z a b = false <-> exists v, In v b /\ In v a.
Proof.
  unfold disjoint_z. induction a as [|y l IH]; cbn [forallb].
  - split; [discriminate | intros [v [_ []]]].
  - destruct (zmem y b) eqn:M; cbn [negb andb].
    + split; [intros _; exists y; split; [apply zmem_In; exact M | left; reflexivity] | reflexivity].
    + rewrite IH. split; intros [v [H1 H2]]; exists v; (split; [exact H1|]).
      * right; exact H2.
      * destruct H2 as [->|H2]; [apply zmem_In in H1; congruence | exact H2].
Qed.

Lemma meet_w4 x a : qx_ok x = true -> atom_ok a = true -> meet (enc_x4 x) (w4 (enc_atom a)) = ring_ref x a.
Proof.
  intros Hx Ha. rewrite (enc_atom_w4 a Ha).
  pose proof Ha as Ha'. unfold atom_ok in Ha'. repeat (apply andb_true_iff in Ha'; let H := fresh "A" in destruct Ha' as [Ha' H]).
  pose proof Hx as Hx'. unfold qx_ok in Hx'. repeat (apply andb_true_iff in Hx'; let H := fresh "X" in destruct Hx' as [Hx' H]).
  unfold enc_x4, ring_ref, a4. destruct (x_rings x) as [|r0 r] eqn:Er.
  - (* unconstrained *)
    destruct (la_rings a) as [|s0 s] eqn:Es.
    + rewrite meet_bit by lia. apply allones_bits. lia.
    + assert (N0 : 0 <= allones) by (vm_compute; discriminate).
      apply (meet_iff allones _ N0). exists (65 - s0).
      pose proof (all_in_In _ _ _ s0 A ltac:(left; reflexivity)).
      split; [lia|]. split; [apply allones_bits; lia|]. rewrite rings_testbit by exact A. cbn [existsb].
      rewrite Z.eqb_refl. reflexivity.
  - destruct (r0 =? 0) eqn:E0; cbn [negb].
    + (* not in a ring *)
      change 0x8000000000000000 with (bit 63). rewrite meet_comm, meet_bit by lia.
      destruct (la_rings a) as [|s0 s] eqn:Es; cbn [nonempty negb].
      * rewrite bit_testbit by lia. reflexivity.
      * rewrite rings_testbit by exact A. apply not_true_is_false. intros T. apply existsb_exists in T.
        destruct T as [y [Hy E]]. apply Z.eqb_eq in E. pose proof (all_in_In _ _ _ _ A Hy). lia.
    + (* at least one common size *)
      rewrite ring_bits_eq by (discriminate || exact X).
      destruct (la_rings a) as [|s0 s] eqn:Es.
      * rewrite meet_bit by lia. cbn [disjoint_z forallb negb]. rewrite rings_testbit by exact X.
        apply not_true_is_false. intros T. apply existsb_exists in T.
        destruct T as [y [Hy E]]. apply Z.eqb_eq in E. pose proof (all_in_In _ _ _ _ X Hy). lia.
      * apply eq_true_iff_eq. rewrite (meet_iff _ _ (or_bits_nonneg _ _)). rewrite negb_true_iff.
        pose proof (disjoint_false (s0 :: s) (r0 :: r)) as D.
        rewrite D. split.
        -- intros [p [Hp [T1 T2]]]. rewrite rings_testbit in T1 by exact X. rewrite rings_testbit in T2 by exact A.
           apply existsb_exists in T1, T2. destruct T1 as [u [Hu E1]]. destruct T2 as [v [Hv E2]].
           apply Z.eqb_eq in E1, E2. assert (u = v) by lia. subst. exists v. split; assumption.
        -- intros [v [H1 H2]]. pose proof (all_in_In _ _ _ _ X H1). exists (65 - v). split; [lia|].
           rewrite rings_testbit by exact X. rewrite rings_testbit by exact A. split; apply existsb_exists; exists v;
           (split; [assumption | apply Z.eqb_refl]).
Qed.

(* ------------------------------------------------------------------------------------------------------------ *)
(* 5. bond words: order [59,63], ring mark [57,58], atom bits [0,56]                                              *)

Definition opos (o : Z) : Z := if o =? 1 then 59 else if o =? 2 then 60 else if o =? 3 then 61 else if o =? 4 then 62 else 63.
Lemma order_bit_eq o : order_bit o = bit (opos o).
Proof. unfold order_bit, opos. destruct (o =? 1), (o =? 2), (o =? 3), (o =? 4); reflexivity. Qed.
Lemma qorder_eq l : qorder_bits l 0 = or_bits opos l 0.
Proof.
  unfold qorder_bits, or_bits. generalize 0. induction l as [|o l IH]; intros v; cbn [fold_left]; [reflexivity|].
  rewrite order_bit_eq. apply IH.
Qed.
Lemma opos_range o : 59 <= opos o <= 63.
Proof. unfold opos. destruct (o =? 1), (o =? 2), (o =? 3), (o =? 4); lia. Qed.

Definition valid_order (o : Z) : bool := zmem o [1; 2; 3; 4; 8].
Lemma opos_inj x o : valid_order x = true -> valid_order o = true -> (opos x =? opos o) = (x =? o).
Proof.
  unfold valid_order, zmem. cbn [existsb]. rewrite !orb_false_r. intros Hx Ho.
  repeat (apply orb_true_iff in Hx; destruct Hx as [Hx|Hx]); apply Z.eqb_eq in Hx; subst;
  repeat (apply orb_true_iff in Ho; destruct Ho as [Ho|Ho]); apply Z.eqb_eq in Ho; subst; reflexivity.
Qed.

Lemma sub_order l o : forallb valid_order l = true -> valid_order o = true ->
  sub (qorder_bits l 0) (order_bit o) = zmem o l.
Proof.
  intros Hl Ho. rewrite qorder_eq, order_bit_eq. pose proof (opos_range o).
  rewrite sub_bit by lia. rewrite or_bits_testbit by (intros x _; pose proof (opos_range x); lia).
  unfold zmem. rewrite forallb_forall in Hl. apply eq_true_iff_eq. rewrite !existsb_exists.
  split; intros [x [Hx E]]; exists x; (split; [exact Hx|]).
  - rewrite opos_inj in E by auto. rewrite Z.eqb_sym. exact E.
  - rewrite opos_inj by auto. rewrite Z.eqb_sym. exact E.
Qed.

Definition ring_bit (r : bool) : Z := if r then 0x0400000000000000 else 0x0200000000000000.
Lemma sub_ring q r : sub (qring_bits q) (ring_bit r) = match q with None => true | Some x => Bool.eqb x r end.
Proof. destruct q as [[|]|], r; vm_compute; reflexivity. Qed.
Lemma ring_within q r : within 57 58 (qring_bits q) /\ within 57 58 (ring_bit r).
Proof. split; [destruct q as [[|]|] | destruct r]; apply W; try lia; vm_compute; reflexivity. Qed.

Lemma qbond_match_eq qb lb :
  qbond_match qb lb = zmem (lb_ord lb) (qb_ord qb) && match qb_ring qb with None => true | Some x => Bool.eqb x (lb_ring lb) end.
Proof.
  unfold qbond_match. destruct (qb_ring qb) as [r|]; [|rewrite andb_true_r; reflexivity].
  destruct (Bool.eqb r (lb_ring lb)); cbn [negb]; [rewrite andb_true_r | rewrite andb_false_r]; reflexivity.
Qed.

Lemma sub_w1_bond m1 qb lb pos :
  within 0 56 m1 -> 0 <= pos <= 56 -> bond_ok lb = true -> qbond_ok qb = true ->
  sub (Z.lor (Z.lor m1 (qorder_bits (qb_ord qb) 0)) (qring_bits (qb_ring qb))) (enc_bond lb (bit pos)) =
  Z.testbit m1 pos && qbond_match qb lb.
Proof.
  intros Wm Hp Hb Hq. unfold enc_bond. fold (ring_bit (lb_ring lb)).
  destruct (ring_within (qb_ring qb) (lb_ring lb)) as [Wr1 Wr2].
  assert (Wo1 : within 59 63 (qorder_bits (qb_ord qb) 0)).
  { rewrite qorder_eq. apply or_bits_within. intros x _. pose proof (opos_range x). lia. }
  assert (Wo2 : within 59 63 (order_bit (lb_ord lb))).
  { rewrite order_bit_eq. pose proof (opos_range (lb_ord lb)). apply within_bit; lia. }
  assert (Wb : within 0 56 (bit pos)) by (apply within_bit; lia).
  rewrite (sub_split 57 58), (sub_split 59 63); try assumption;
    try (repeat apply outside_lor; (eapply within_outside; [eassumption | lia])).
  rewrite sub_bit by lia. rewrite sub_order by assumption. rewrite sub_ring, qbond_match_eq.
  rewrite andb_assoc. reflexivity.
Qed.

(* ------------------------------------------------------------------------------------------------------------ *)
(* 6. the comparison methods in closed form, and the correctness theorems                                         *)

Definition iso_ref (iso ia : option Z) : bool := negb (iso_truthy iso && negb (option_eqb Z.eqb iso ia)).

Definition ref_match (q : qatom) (a : latom) : bool :=
  match q with
  | QElem n iso x => (n =? la_num a) && iso_ref iso (la_iso a) && x3_ref x a && tup (x_hyb x) (la_hyb a) && ring_ref x a
  | QAny x => x3_ref x a && tup (x_hyb x) (la_hyb a) && ring_ref x a
  | QList nums x => zmem (la_num a) nums && x3_ref x a && tup (x_hyb x) (la_hyb a) && ring_ref x a
  | QMetal nb hyb => negb (non_metal (la_num a)) && tup nb (la_nb a) && tup hyb (la_hyb a)
  end.

Lemma match_tail_ref x a :
  match_tail x a = tup (x_nb x) (la_nb a) && tup (x_hyb x) (la_hyb a) && ring_ref x a &&
                   negb (nonempty (x_h x) && negb (opt_mem (la_h a) (x_h x))) && tup (x_het x) (la_het a).
Proof.
  unfold match_tail, tup. change (ring_step x a) with (ring_ref x a).
  destruct (nonempty (x_nb x) && negb (zmem (la_nb a) (x_nb x))); cbn [negb andb]; [reflexivity|].
  destruct (nonempty (x_hyb x) && negb (zmem (la_hyb a) (x_hyb x))); cbn [negb andb]; [reflexivity|].
  destruct (ring_ref x a); cbn [negb andb]; [|reflexivity].
  destruct (nonempty (x_h x) && negb (opt_mem (la_h a) (x_h x))); cbn [negb andb]; [reflexivity|].
  destruct (nonempty (x_het x) && negb (zmem (la_het a) (x_het x))); reflexivity.
Qed.

Lemma match_atom_ref q a : match_atom q a = ref_match q a.
Proof.
  destruct q as [n iso x|x|nums x|nb hyb]; unfold match_atom, ref_match.
  - unfold match_q. rewrite (match_tail_ref x a). unfold x3_ref, iso_ref.
    destruct (n =? la_num a); cbn [negb andb]; [|reflexivity].
    destruct (x_chg x =? la_chg a); cbn [negb andb]; [|rewrite !andb_false_r; reflexivity].
    destruct (Bool.eqb (x_rad x) (la_rad a)); cbn [negb andb]; [|rewrite !andb_false_r; reflexivity].
    destruct (iso_truthy iso && negb (option_eqb Z.eqb iso (la_iso a))); cbn [negb andb]; [reflexivity|].
    destruct (tup (x_nb x) (la_nb a)), (tup (x_hyb x) (la_hyb a)), (ring_ref x a), (tup (x_het x) (la_het a)),
      (negb (nonempty (x_h x) && negb (opt_mem (la_h a) (x_h x)))); reflexivity.
  - unfold match_any. rewrite (match_tail_ref x a). unfold x3_ref.
    destruct (x_chg x =? la_chg a); cbn [negb andb]; [|rewrite !andb_false_r; reflexivity].
    destruct (Bool.eqb (x_rad x) (la_rad a)); cbn [negb andb]; [|reflexivity].
    destruct (tup (x_nb x) (la_nb a)), (tup (x_hyb x) (la_hyb a)), (ring_ref x a), (tup (x_het x) (la_het a)),
      (negb (nonempty (x_h x) && negb (opt_mem (la_h a) (x_h x)))); reflexivity.
  - unfold match_list. rewrite (match_tail_ref x a). unfold x3_ref.
    destruct (zmem (la_num a) nums); cbn [negb andb]; [|reflexivity].
    destruct (x_chg x =? la_chg a); cbn [negb andb]; [|rewrite !andb_false_r; reflexivity].
    destruct (Bool.eqb (x_rad x) (la_rad a)); cbn [negb andb]; [|reflexivity].
    destruct (tup (x_nb x) (la_nb a)), (tup (x_hyb x) (la_hyb a)), (ring_ref x a), (tup (x_het x) (la_het a)),
      (negb (nonempty (x_h x) && negb (opt_mem (la_h a) (x_h x)))); reflexivity.
  - unfold match_metal, tup. destruct (non_metal (la_num a)); cbn [negb andb]; [reflexivity|].
    destruct (nonempty nb && negb (zmem (la_nb a) nb)); cbn [negb andb]; [reflexivity|].
    destruct (nonempty hyb && negb (zmem (la_hyb a) hyb)); reflexivity.
Qed.

Lemma iso_cond_eq iso ia n :
  match off_of iso n with None => true | Some _ => option_eqb Z.eqb (off_of iso n) (off_of ia n) end = iso_ref iso ia.
Proof.
  unfold off_of, iso_ref, iso_truthy. destruct iso as [i|]; [|reflexivity].
  destruct (i =? 0) eqn:Ei; cbn [negb andb]; [reflexivity|].
  destruct ia as [j|]; [|reflexivity].
  destruct (j =? 0) eqn:Ej; cbn [negb option_eqb].
  - apply Z.eqb_eq in Ej. subst j. rewrite Ei. reflexivity.
  - unfold Z.sub. rewrite eqb_shift, negb_involutive. reflexivity.
Qed.

Lemma q_w4 q b : w4 (enc_qatom q b) = match q with QElem _ _ x | QAny x | QList _ x => enc_x4 x | QMetal _ _ => allones end.
Proof.
  destruct q as [num iso x|x|nums x|nb hyb]; unfold enc_qatom.
  - destruct (elem_masks num). reflexivity.
  - reflexivity.
  - destruct (fold_left _ nums (0, 0)). reflexivity.
  - reflexivity.
Qed.

Definition q_x (q : qatom) : qx :=
  match q with QElem _ _ x | QAny x | QList _ x => x | QMetal nb hyb => mkQX 0 false nb hyb [] [] [] end.

Lemma qx_ok_parts x : qx_ok x = true ->
  in_range (-4) 4 (x_chg x) = true /\ all_in 0 14 (x_nb x) = true /\ all_in 1 4 (x_hyb x) = true /\
  all_in 0 14 (x_h x) = true /\ all_in 0 14 (x_het x) = true.
Proof. unfold qx_ok. rewrite !andb_true_iff. tauto. Qed.

(* words II, III, IV together (they are tested in the same way for the first and for the following atoms) *)
Lemma words_234 q b a : query_ok q = true -> atom_ok a = true -> elem_hyp q (la_num a) ->
  Z.testbit (fst (qm q)) (pos1 (la_num a)) &&
  (sub (w2 (enc_qatom q b)) (w2 (enc_atom a)) && sub (w3 (enc_qatom q b)) (w3 (enc_atom a)) &&
   meet (w4 (enc_qatom q b)) (w4 (enc_atom a))) = ref_match q a.
Proof.
  intros Hq Ha He.
  assert (Hhyb : all_in 1 4 (q_hyb q) = true).
  { destruct q as [n iso x|x|nums x|nb hyb]; cbn [query_ok q_hyb] in *.
    - apply andb_true_iff in Hq. destruct Hq as [_ Hx]. apply qx_ok_parts in Hx. tauto.
    - apply qx_ok_parts in Hq. tauto.
    - apply andb_true_iff in Hq. destruct Hq as [_ Hx]. apply qx_ok_parts in Hx. tauto.
    - apply andb_true_iff in Hq. tauto. }
  rewrite (sub_w2 q b a He Hhyb Ha), enc_q_w3, enc_atom_w3, q_w4.
  rewrite (andb_assoc (Z.testbit _ _)), (andb_assoc (Z.testbit _ _)), (andb_assoc (Z.testbit _ _)).
  fold (elem_test (qm q) (la_num a)). rewrite (elem_test_q q _ He).
  destruct q as [n iso x|x|nums x|nb hyb]; cbn [query_ok] in Hq; unfold elem_ref, q3_of, q_hyb, ref_match.
  - apply andb_true_iff in Hq. destruct Hq as [_ Hx].
    rewrite (sub_x3 _ x a Hx Ha), (meet_w4 x a Hx Ha).
    destruct (n =? la_num a) eqn:En; cbn [andb]; [|reflexivity].
    apply Z.eqb_eq in En. subst n. rewrite iso_cond_eq.
    destruct (iso_ref iso (la_iso a)), (x3_ref x a), (tup (x_hyb x) (la_hyb a)), (ring_ref x a); reflexivity.
  - rewrite (sub_x3 None x a Hq Ha), (meet_w4 x a Hq Ha). cbn [andb].
    destruct (x3_ref x a), (tup (x_hyb x) (la_hyb a)), (ring_ref x a); reflexivity.
  - apply andb_true_iff in Hq. destruct Hq as [_ Hx].
    rewrite (sub_x3 None x a Hx Ha), (meet_w4 x a Hx Ha). cbn [andb].
    destruct (zmem (la_num a) nums), (x3_ref x a), (tup (x_hyb x) (la_hyb a)), (ring_ref x a); reflexivity.
  - apply andb_true_iff in Hq. destruct Hq as [Hnb Hh].
    rewrite (sub_metal3 nb a Hnb Ha).
    change allones with (enc_x4 (mkQX 0 false [] [] [] [] [])).
    rewrite (meet_w4 (mkQX 0 false [] [] [] [] []) a eq_refl Ha). unfold ring_ref. cbn [x_rings].
    destruct (negb (non_metal (la_num a))), (tup nb (la_nb a)), (tup hyb (la_hyb a)); reflexivity.
Qed.

(* THE FIRST ATOM OF A COMPONENT: the four mask tests decide QueryElement/AnyElement/ListElement/AnyMetal.__eq__ *)
Theorem mask_match_first_correct q a :
  query_ok q = true -> atom_ok a = true -> elem_hyp q (la_num a) ->
  mask_match_first (enc_qatom q None) (enc_atom a) = match_atom q a.
Proof.
  intros Hq Ha He. rewrite (match_atom_ref q a).
  rewrite <- (words_234 q None a Hq Ha He). unfold mask_match_first.
  fold (meet (w1 (enc_qatom q None)) (w1 (enc_atom a))) (sub (w2 (enc_qatom q None)) (w2 (enc_atom a)))
       (sub (w3 (enc_qatom q None)) (w3 (enc_atom a))) (meet (w4 (enc_qatom q None)) (w4 (enc_atom a))).
  rewrite enc_q_w1, enc_atom_w1. destruct He as [Hn _]. destruct (supports (la_num a)) as [_ [_ [_ Hp]]]; [lia|].
  rewrite meet_bit by lia. rewrite !andb_assoc. reflexivity.
Qed.

(* EVERY FOLLOWING ATOM: mask1 & bond == bond tests the bond to the `back` atom and the element at once *)
Theorem mask_match_next_correct q qb a lb :
  query_ok q = true -> atom_ok a = true -> elem_hyp q (la_num a) -> qbond_ok qb = true -> bond_ok lb = true ->
  mask_match_next (enc_qatom q (Some qb)) (enc_bond lb (w1 (enc_atom a))) (enc_atom a) = qbond_match qb lb && match_atom q a.
Proof.
  intros Hq Ha He Hqb Hlb. rewrite (match_atom_ref q a).
  rewrite <- (words_234 q (Some qb) a Hq Ha He). unfold mask_match_next.
  fold (sub (w1 (enc_qatom q (Some qb))) (enc_bond lb (w1 (enc_atom a)))) (sub (w2 (enc_qatom q (Some qb))) (w2 (enc_atom a)))
       (sub (w3 (enc_qatom q (Some qb))) (w3 (enc_atom a))) (meet (w4 (enc_qatom q (Some qb))) (w4 (enc_atom a))).
  rewrite enc_q_w1, enc_atom_w1. destruct (qm_within q _ He) as [W1 _]. destruct He as [Hn _].
  destruct (supports (la_num a)) as [_ [_ [_ Hp]]]; [lia|].
  rewrite (sub_w1_bond _ qb lb _ W1 Hp Hlb Hqb).
  destruct (Z.testbit (fst (qm q)) (pos1 (la_num a))), (qbond_match qb lb); cbn [andb]; reflexivity.
Qed.

(* RING CLOSURES: `if not c_bond or j_bond.bond & c_bond != c_bond: break` decides QueryBond.__eq__ *)
Theorem closure_ok_correct qb lb an :
  1 <= an <= 118 -> qbond_ok qb = true -> bond_ok lb = true ->
  closure_ok (enc_closure qb) (enc_bond lb (bit (pos1 an))) = qbond_match qb lb.
Proof.
  intros Hn Hqb Hlb. unfold closure_ok, enc_closure. rewrite qorder_acc.
  destruct (supports an Hn) as [_ [_ [_ Hp]]].
  fold (sub (Z.lor (Z.lor 0x01ffffffffffffff (qorder_bits (qb_ord qb) 0)) (qring_bits (qb_ring qb))) (enc_bond lb (bit (pos1 an)))).
  rewrite sub_w1_bond; try assumption.
  2:{ apply W; try lia. vm_compute. reflexivity. }
  assert (T : Z.testbit 0x01ffffffffffffff (pos1 an) = true) by (apply (testbit_full 0 56); [vm_compute; reflexivity | vm_compute; reflexivity | lia]).
  rewrite T. cbn [andb].
  assert (NZ : (enc_bond lb (bit (pos1 an)) =? 0) = false).
  { apply Z.eqb_neq. intros E.
    assert (B : Z.testbit (enc_bond lb (bit (pos1 an))) (opos (lb_ord lb)) = true).
    { unfold enc_bond. rewrite !Z.lor_spec, order_bit_eq, (bit_testbit (opos (lb_ord lb))), Z.eqb_refl by (pose proof (opos_range (lb_ord lb)); lia).
      rewrite orb_true_r. reflexivity. }
    rewrite E, Z.bits_0 in B. discriminate. }
  rewrite NZ. reflexivity.
Qed.

(* ---- the documented identification: the encoders do not distinguish Lv, Ts and Og ---- *)
Theorem lv_ts_og_identified :
  elem_masks 117 = elem_masks 116 /\ elem_masks 118 = elem_masks 116 /\
  forall a n, In n [117; 118] ->
    let a' := mkLA n (la_iso a) (la_chg a) (la_rad a) (la_nb a) (la_hyb a) (la_h a) (la_het a) (la_rings a) in
    let a0 := mkLA 116 (la_iso a) (la_chg a) (la_rad a) (la_nb a) (la_hyb a) (la_h a) (la_het a) (la_rings a) in
    w1 (enc_atom a') = w1 (enc_atom a0) /\ w2 (enc_atom a') = w2 (enc_atom a0) /\ w4 (enc_atom a') = w4 (enc_atom a0).
Proof.
  split; [reflexivity|]. split; [reflexivity|].
  intros a n [<-|[<-|[]]]; cbn zeta; unfold enc_atom; cbn [la_num la_hyb la_rings w1 w2 w4 Z.ltb Z.compare Pos.compare Pos.compare_cont];
  repeat split; reflexivity.
Qed.

(* ---- the molecule side of the isotope hypothesis is a table fact: every isotope the Element setter accepts
        (a key of isotopes_distribution) lies within mdl_isotope - 8 .. mdl_isotope + 8 ---- *)
Lemma real_isotopes_sweep :
  forallb (fun e => forallb (fun k => iso_off_ok (Some k) (e_num e)) (keys (e_dist e))) elements = true.
Proof. vm_compute. reflexivity. Qed.
Theorem atom_isotope_representable e i :
  In e elements -> isotope_accepted e i = true -> iso_off_ok (Some i) (e_num e) = true.
Proof.
  intros He Hi. pose proof real_isotopes_sweep as S. rewrite forallb_forall in S. specialize (S e He).
  rewrite forallb_forall in S. apply S. unfold isotope_accepted in Hi. apply zmem_In. exact Hi.
Qed.

(* ---- former findings, now fixed in the code and inside the theorems above: the witnesses of the deleted `_refuted`
        lemmas are rejected by both sides (AnyMetal vs Rn; query hydrogens (0, 5) vs [C-4]; query isotope 21 vs plain C) ---- *)
Definition rn_atom : latom := mkLA 86 None 0 false 0 1 (Some 0) 0 [].
Definition c4_atom : latom := mkLA 6 None (-4) false 0 1 (Some 0) 0 [].
Definition h05_query : qatom := QElem 6 None (mkQX 0 false [] [] [0; 5] [] []).
Definition c_atom : latom := mkLA 6 None 0 false 0 1 (Some 4) 0 [].
Definition c21_query : qatom := QElem 6 (Some 21) (mkQX 0 false [] [] [] [] []).
Definition c30_query : qatom := QElem 6 (Some 30) (mkQX 0 false [] [] [] [] []).
Theorem fixed_findings_examples :
  query_ok (QMetal [] []) = true /\ atom_ok rn_atom = true /\ elem_hyp (QMetal [] []) 86 /\
  match_atom (QMetal [] []) rn_atom = false /\ mask_match_first (enc_qatom (QMetal [] []) None) (enc_atom rn_atom) = false /\
  query_ok h05_query = true /\ atom_ok c4_atom = true /\
  match_atom h05_query c4_atom = false /\ mask_match_first (enc_qatom h05_query None) (enc_atom c4_atom) = false /\
  query_ok c21_query = true /\ query_ok c30_query = true /\ atom_ok c_atom = true /\
  match_atom c21_query c_atom = false /\ mask_match_first (enc_qatom c21_query None) (enc_atom c_atom) = false /\
  match_atom c30_query c_atom = false /\ mask_match_first (enc_qatom c30_query None) (enc_atom c_atom) = false.
Proof. repeat split; try (vm_compute; reflexivity); cbn; lia. Qed.

(* an unknown hydrogen count is still encoded as 0 by _cython_compiled_structure, but QueryIsomorphism.get_mapping never
   hands such a molecule to the mask path (uses_mask_path) *)
Definition noh_atom : latom := mkLA 7 None 0 false 2 4 None 0 [6].
Theorem unknown_h_takes_reference_path : forall rm a, In a rm -> la_h (ra_atom a) = None ->
  uses_mask_path true rm = false.
Proof.
  intros rm a Hin Hn. unfold uses_mask_path, has_unknown_h. cbn [andb]. apply negb_false_iff.
  apply existsb_exists. exists a. split; [exact Hin|]. rewrite Hn. reflexivity.
Qed.

(* ---- non-vacuity: concrete instances inside the hypotheses on which both sides are true / false ---- *)
Theorem mask_match_example :
  let q := QElem 6 (Some 13) (mkQX 0 false [2; 3] [1] [1; 2] [0] [5; 6]) in
  let a := mkLA 6 (Some 13) 0 false 3 1 (Some 1) 0 [6] in
  let a' := mkLA 6 (Some 13) 0 false 3 1 (Some 1) 0 [7] in
  let qb := mkQB [1; 4] (Some true) in
  query_ok q = true /\ atom_ok a = true /\ atom_ok a' = true /\ elem_hyp q (la_num a) /\ qbond_ok qb = true /\
  bond_ok (mkLB 4 true) = true /\
  match_atom q a = true /\ mask_match_first (enc_qatom q None) (enc_atom a) = true /\
  match_atom q a' = false /\ mask_match_first (enc_qatom q None) (enc_atom a') = false /\
  mask_match_next (enc_qatom q (Some qb)) (enc_bond (mkLB 4 true) (w1 (enc_atom a))) (enc_atom a) = true /\
  mask_match_next (enc_qatom q (Some qb)) (enc_bond (mkLB 2 true) (w1 (enc_atom a))) (enc_atom a) = false /\
  closure_ok (enc_closure qb) (enc_bond (mkLB 1 true) (w1 (enc_atom a))) = true /\
  closure_ok (enc_closure qb) (enc_bond (mkLB 1 false) (w1 (enc_atom a))) = false.
Proof. cbn zeta. repeat split; try (vm_compute; reflexivity); cbn; lia. Qed.
