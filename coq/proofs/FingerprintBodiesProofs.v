(* C17 round 4: the bodies of _chains, _fragments, linear_hash_set, linear_bit_set, _morgan_hash_dict, morgan_hash_set and morgan_bit_set
   are translated statement by statement from /repo's source on every run (tools/gen_fpbodies.py -> Gen.FingerprintBodies).  Here each
   generated definition is proved equal to the hand-written model of Model.Fingerprint, for ALL arguments; the theorems about the model are
   therefore theorems about the translated code.  A behaviour-changing edit of one of these bodies stops the translator or breaks one of
   these lemmas. *)
From Coq Require Import ZArith List Bool Lia.
From Model Require Import PyBase Graph PyHash Fingerprint.
From Gen Require Import FingerprintBodies.
From Proofs Require Import FingerprintProofs.
Import ListNotations.
Open Scope Z_scope.

(* ---------------------------------------------------------------------------------------------------- *)
(* generic facts *)
Lemma len_z_cons_nz {A} (a : A) l : (len_z (a :: l) =? 0) = false.
Proof. apply Z.eqb_neq. unfold len_z. cbn [length]. lia. Qed.

Lemma fold_left_ext_in {A B} (f f' : A -> B -> A) l : (forall a b, In b l -> f a b = f' a b) ->
  forall a, fold_left f l a = fold_left f' l a.
Proof.
  induction l as [|b l IH]; intros H a; [reflexivity|]. cbn [fold_left].
  rewrite (H a b (or_introl eq_refl)). apply IH. intros a' b' Hb. apply H. right. exact Hb.
Qed.

Lemma fold_left_app_map {A B} (f : B -> A) l : forall acc : list A,
  fold_left (fun acc b => acc ++ [f b]) l acc = acc ++ map f l.
Proof.
  induction l as [|b l IH]; intros acc; cbn [fold_left map]; [now rewrite app_nil_r|].
  rewrite IH, <- app_assoc. reflexivity.
Qed.

Lemma fold_left_app_flat_map {A B} (f : B -> list A) l : forall acc : list A,
  fold_left (fun acc b => acc ++ f b) l acc = acc ++ flat_map f l.
Proof.
  induction l as [|b l IH]; intros acc; cbn [fold_left flat_map]; [now rewrite app_nil_r|].
  rewrite IH, <- app_assoc. reflexivity.
Qed.

Lemma flat_map_ext' {A B} (f f' : A -> list B) l : (forall a, f a = f' a) -> flat_map f l = flat_map f' l.
Proof. intros H. induction l as [|a l IH]; cbn [flat_map]; [reflexivity|]. now rewrite H, IH. Qed.

Lemma zrange_from_length s n : length (zrange_from s n) = n.
Proof. revert s. induction n as [|n IH]; intros s; cbn [zrange_from length]; [reflexivity|]. now rewrite IH. Qed.

(* ---------------------------------------------------------------------------------------------------- *)
(* _chains: the translated `while queue:` loop is chains_loop, the translated function is chains_seq_loop *)
Lemma g_chains_while_eq : forall fuel g lo hi q arr,
  g_chains_while fuel g lo hi (q, arr) =
  match chains_loop fuel g lo hi q arr with Some a => Some ([], a) | None => None end.
Proof.
  induction fuel as [|f IH]; intros g lo hi q arr; [reflexivity|].
  cbn [g_chains_while chains_loop].
  destruct q as [|now q].
  - reflexivity.
  - rewrite len_z_cons_nz. cbn [negb hd tl].
    change (map (fun x => now ++ [x]) (filter (fun x => negb (zmem x now)) (nbr_ids g (last now 0)))) with (extend g now).
    destruct (extend g now) as [|v0 vs] eqn:Ev.
    + cbn [len_z length Z.of_nat Z.eqb negb]. apply IH.
    + rewrite len_z_cons_nz. cbn [negb hd].
      assert (E : forall var a, fold_left (fun (arr0 : list (list Z)) (frag : list Z) =>
                   arr0 ++ [if tuple_gtb frag (rev frag) then frag else rev frag]) var a = a ++ map canon var)
        by exact (fold_left_app_map canon).
      rewrite !E.
      destruct (len_z v0 <? hi), (lo <=? len_z v0); apply IH.
Qed.

Lemma unwrap_arr (o : option (list (list Z))) :
  match (match o with Some a => Some (@nil (list Z), a) | None => None end) with Some (_, arr) => Some arr | None => None end = o.
Proof. destruct o; reflexivity. Qed.

Theorem g_chains_eq : forall fuel g lo hi, g_chains fuel g lo hi = chains_seq_loop fuel g lo hi.
Proof.
  intros fuel g lo hi. unfold g_chains, chains_seq_loop. fold (singles g).
  destruct (lo =? 1).
  - destruct (hi =? 1); [reflexivity|].
    rewrite g_chains_while_eq. exact (unwrap_arr _).
  - rewrite g_chains_while_eq. exact (unwrap_arr _).
Qed.

(* with the fuel of the model the translated function terminates with the enumeration the theorems are about; any other fuel gives
   the same value or runs out *)
Theorem g_chains_total : forall g lo hi, wf_mol g = true ->
  g_chains (chains_fuel g hi) g lo hi = Some (chains_seq g lo hi).
Proof. intros. rewrite g_chains_eq. now apply chains_loop_refines. Qed.

Theorem g_chains_any_fuel : forall g lo hi fuel r, wf_mol g = true ->
  g_chains fuel g lo hi = Some r -> r = chains_seq g lo hi.
Proof. intros g lo hi fuel r W H. rewrite g_chains_eq in H. now apply (chains_loop_any_fuel g lo hi fuel r W). Qed.

(* ---------------------------------------------------------------------------------------------------- *)
(* _fragments *)
Lemma frag_tail_fold idf ord : forall r x acc,
  fold_left (fun var '(x, y) => (var ++ [ord x y]) ++ [idf y]) (combine (x :: r) r) acc = acc ++ frag_tail idf ord x r.
Proof.
  induction r as [|y r IH]; intros x acc; [cbn; now rewrite app_nil_r|].
  change (combine (x :: y :: r) (y :: r)) with ((x, y) :: combine (y :: r) r).
  cbn [fold_left frag_tail]. rewrite IH, <- !app_assoc. reflexivity.
Qed.

(* the chains are never empty (frag[0] of an empty tuple is an IndexError in Python; the model's frag_var [] is []) *)
Theorem g_fragments_eq : forall g idd chs lo hi, Forall (fun p => p <> []) chs ->
  g_fragments g idd chs lo hi = fragments_of (ident idd) (bond_order g) chs.
Proof.
  intros g idd chs lo hi Hne. unfold g_fragments, fragments_of.
  apply fold_left_ext_in. intros out frag Hin.
  rewrite Forall_forall in Hne. specialize (Hne frag Hin).
  destruct frag as [|x r]; [contradiction|].
  cbn [hd tl].
  rewrite (frag_tail_fold (ident idd) (bond_order g) r x [ident idd x]).
  unfold frag_entry. cbn [frag_var app].
  destruct (tuple_gtb (ident idd x :: frag_tail (ident idd) (bond_order g) x r)
                      (rev (ident idd x :: frag_tail (ident idd) (bond_order g) x r))); reflexivity.
Qed.

(* ---------------------------------------------------------------------------------------------------- *)
(* linear_hash_set *)
Theorem g_linear_hash_set_eq : forall h frs lo hi nbp, g_linear_hash_set h frs lo hi nbp = linear_hashes h nbp frs.
Proof.
  intros h frs lo hi nbp. unfold g_linear_hash_set, linear_hashes.
  destruct (nbp =? 0) eqn:E; apply flat_map_ext'; intros [tpl count]; unfold fragment_hashes, cap; rewrite E; reflexivity.
Qed.

(* ---------------------------------------------------------------------------------------------------- *)
(* linear_bit_set / morgan_bit_set: the loop over the hashes *)
Lemma shift_fold log mask : forall n s tpl (ab : list Z),
  snd (fold_left (fun '(tpl, active_bits) (_ : Z) => (Z.shiftr tpl log, active_bits ++ [Z.land (Z.shiftr tpl log) mask]))
                 (zrange_from s n) (tpl, ab)) = ab ++ shift_loop n log mask tpl.
Proof.
  induction n as [|n IH]; intros s tpl ab; cbn [zrange_from fold_left shift_loop snd]; [now rewrite app_nil_r|].
  rewrite IH, <- app_assoc. reflexivity.
Qed.

Definition g_fold_step (len nab : Z) (active_bits : list Z) (tpl : Z) : list Z :=
  let mask_v := len - 1 in
  let log_v := Z.log2 len in
  let active_bits := active_bits ++ [Z.land tpl mask_v] in
  if nab =? 2 then active_bits ++ [Z.land (Z.shiftr tpl log_v) mask_v]
  else if 2 <? nab then
    let '(tpl, active_bits) :=
      fold_left (fun '(tpl, active_bits) (_ : Z) => (Z.shiftr tpl log_v, active_bits ++ [Z.land (Z.shiftr tpl log_v) mask_v]))
                (zrange 1 nab) (tpl, active_bits) in active_bits
  else active_bits.

Lemma g_fold_step_eq len nab ab tpl : g_fold_step len nab ab tpl = ab ++ fold_bits len nab tpl.
Proof.
  unfold g_fold_step, fold_bits. cbv zeta.
  destruct (nab =? 2); [now rewrite <- app_assoc|].
  destruct (2 <? nab).
  - unfold zrange.
    pose proof (shift_fold (Z.log2 len) (len - 1) (Z.to_nat (nab - 1)) 1 tpl (ab ++ [Z.land tpl (len - 1)])) as H.
    destruct (fold_left _ _ _) as [t a]. cbn [snd] in H. rewrite H, <- app_assoc. reflexivity.
  - reflexivity.
Qed.

Lemma g_fold_loop len nab hs : fold_left (g_fold_step len nab) hs [] = flat_map (fold_bits len nab) hs.
Proof.
  rewrite (fold_left_ext_in (g_fold_step len nab) (fun acc b => acc ++ fold_bits len nab b)).
  - now rewrite fold_left_app_flat_map.
  - intros a b _. apply g_fold_step_eq.
Qed.

Theorem g_linear_bit_set_eq : forall hs lo hi len nab nbp, g_linear_bit_set hs lo hi len nab nbp = bit_list len nab hs.
Proof.
  intros hs lo hi len nab nbp. unfold g_linear_bit_set, bit_list. cbv zeta.
  destruct (len <=? 0); [reflexivity|].
  f_equal. exact (g_fold_loop len nab hs).
Qed.

Theorem g_morgan_bit_set_eq : forall r lo hi len nab, g_morgan_bit_set r lo hi len nab = bit_list_of len nab r.
Proof.
  intros r lo hi len nab. unfold g_morgan_bit_set, bit_list_of, bit_list. cbv zeta.
  destruct (len <=? 0); [reflexivity|].
  destruct r as [hs|e]; [|reflexivity].
  f_equal. exact (g_fold_loop len nab hs).
Qed.

(* ---------------------------------------------------------------------------------------------------- *)
(* _morgan_hash_dict *)
Lemma morgan_iter_hd h g n d : morgan_iter h g n d = d :: tl (morgan_iter h g n d).
Proof. destruct n; reflexivity. Qed.

Lemma morgan_fold h g : forall (l : list Z) d out,
  snd (fold_left (fun '(identifiers, out) (_ : Z) => (morgan_step h g identifiers, out ++ [morgan_step h g identifiers])) l (d, out))
  = out ++ tl (morgan_iter h g (length l) d).
Proof.
  induction l as [|a l IH]; intros d out; cbn [fold_left length morgan_iter tl snd]; [now rewrite app_nil_r|].
  rewrite IH, <- app_assoc. cbn [app]. now rewrite <- morgan_iter_hd.
Qed.

Lemma g_morgan_step_eq h g d :
  map (fun '(idx, tpl) => (idx, h ([tpl] ++ flat_map (fun x => map (fun x => x) [fst x; snd x])
                                     (sort_pairs (map (fun '(ngb, b) => (b_ord b, ident d ngb)) (nbrs g idx)))))) d
  = morgan_step h g d.
Proof.
  unfold morgan_step, morgan_atom, flatten_pairs.
  apply map_ext. intros [idx tpl]. cbn [fst snd app].
  replace (map (fun '(ngb, b) => (b_ord b, ident d ngb)) (nbrs g idx))
    with (map (fun nb : Z * bond => (b_ord (snd nb), ident d (fst nb))) (nbrs g idx))
    by (apply map_ext; intros [ngb b]; reflexivity).
  reflexivity.
Qed.

Theorem g_morgan_hash_dict_eq : forall h g idd lo hi, g_morgan_hash_dict h g idd lo hi = morgan_hash_dict_with h idd g lo hi.
Proof.
  intros h g idd lo hi. unfold g_morgan_hash_dict, morgan_hash_dict_with.
  rewrite (Z.leb_antisym lo 1), (Z.leb_antisym hi lo).
  destruct (lo <? 1); [reflexivity|]. destruct (hi <? lo); [reflexivity|]. cbn [negb]. cbv zeta.
  pose proof (morgan_fold h g (zrange 1 hi) idd [idd]) as H.
  rewrite (fold_left_ext_in _ (fun '(identifiers, out) (_ : Z) => (morgan_step h g identifiers, out ++ [morgan_step h g identifiers]))).
  2:{ intros [i o] b _. rewrite g_morgan_step_eq. reflexivity. }
  destruct (fold_left _ _ _) as [i o]. cbn [snd] in H. subst o.
  unfold zrange. rewrite zrange_from_length. cbn [app]. rewrite <- morgan_iter_hd.
  replace (hi - lo + 1) with (hi - lo + 1) by reflexivity. reflexivity.
Qed.

(* morgan_hash_set *)
Theorem g_morgan_hash_set_eq : forall r lo hi,
  g_morgan_hash_set r lo hi = match r with Ok ds => Ok (flat_map (map snd) ds) | Err e => Err e end.
Proof.
  intros [ds|e] lo hi; [|reflexivity]. unfold g_morgan_hash_set. f_equal.
  apply flat_map_ext'. intros d. apply map_id.
Qed.

(* ---------------------------------------------------------------------------------------------------- *)
(* ---------------------------------------------------------------------------------------------------- *)
(* the translated functions composed as the methods call each other = the top-level model functions *)
Lemma chains_nonempty g lo hi : wf_mol g = true -> Forall (fun p => p <> []) (chains g lo hi).
Proof.
  intros W. apply Forall_forall. intros p Hp.
  destruct (chains_exact_any g lo hi W) as [H _]. apply H in Hp. destruct Hp as [[Hne _] _]. exact Hne.
Qed.

(* LINEAR: from the additions `adds` of the translated _chains (a Python set: dedup_paths = first occurrences) through the translated
   _fragments, linear_hash_set and linear_bit_set; every intermediate value is the model's *)
Theorem translated_linear_pipeline : forall h g lo hi len nab nbp, wf_mol g = true ->
  exists adds, g_chains (chains_fuel g hi) g lo hi = Some adds /\
    let chs := dedup_paths adds in
    let frs := g_fragments g (atom_identifiers g) chs lo hi in
    let hs := g_linear_hash_set h frs lo hi nbp in
    chs = chains g lo hi /\ frs = fragments g lo hi /\ hs = linear_hash_list h g lo hi nbp /\
    g_linear_bit_set hs lo hi len nab nbp = linear_bit_list h g lo hi len nab nbp.
Proof.
  intros h g lo hi len nab nbp W. exists (chains_seq g lo hi). split; [now apply g_chains_total|].
  cbv zeta. fold (chains g lo hi).
  rewrite (g_fragments_eq g (atom_identifiers g) (chains g lo hi) lo hi (chains_nonempty g lo hi W)).
  fold (fragments_with (atom_identifiers g) g lo hi). fold (fragments g lo hi).
  rewrite g_linear_hash_set_eq. fold (linear_hash_list h g lo hi nbp).
  rewrite g_linear_bit_set_eq. repeat split; reflexivity.
Qed.

(* the same over an arbitrary identifier dictionary (FingerprintsCGR: identifiers of the CGR, skeleton with int(DynamicBond)) *)
Theorem translated_linear_pipeline_with : forall h idd g lo hi len nab nbp, wf_mol g = true ->
  let frs := g_fragments g idd (chains g lo hi) lo hi in
  let hs := g_linear_hash_set h frs lo hi nbp in
  frs = fragments_with idd g lo hi /\ hs = linear_hashes h nbp (fragments_with idd g lo hi) /\
  g_linear_bit_set hs lo hi len nab nbp = bit_list len nab (linear_hashes h nbp (fragments_with idd g lo hi)).
Proof.
  intros h idd g lo hi len nab nbp W. cbv zeta.
  rewrite (g_fragments_eq g idd (chains g lo hi) lo hi (chains_nonempty g lo hi W)).
  fold (fragments_with idd g lo hi). rewrite g_linear_hash_set_eq, g_linear_bit_set_eq. repeat split; reflexivity.
Qed.

(* MORGAN *)
Theorem translated_morgan_pipeline : forall h g lo hi len nab,
  let ds := g_morgan_hash_dict h g (atom_identifiers g) lo hi in
  let hs := g_morgan_hash_set ds lo hi in
  ds = morgan_hash_dict h g lo hi /\ hs = morgan_hash_list h g lo hi /\
  g_morgan_bit_set hs lo hi len nab = morgan_bit_list h g lo hi len nab.
Proof.
  intros h g lo hi len nab. cbv zeta. rewrite g_morgan_hash_dict_eq, g_morgan_hash_set_eq, g_morgan_bit_set_eq.
  repeat split; reflexivity.
Qed.

Theorem translated_morgan_pipeline_with : forall h idd g lo hi len nab,
  let ds := g_morgan_hash_dict h g idd lo hi in
  let hs := g_morgan_hash_set ds lo hi in
  ds = morgan_hash_dict_with h idd g lo hi /\
  hs = match morgan_hash_dict_with h idd g lo hi with Ok ds => Ok (flat_map (map snd) ds) | Err e => Err e end /\
  g_morgan_bit_set hs lo hi len nab =
    bit_list_of len nab (match morgan_hash_dict_with h idd g lo hi with Ok ds => Ok (flat_map (map snd) ds) | Err e => Err e end).
Proof.
  intros h idd g lo hi len nab. cbv zeta. rewrite g_morgan_hash_dict_eq, g_morgan_hash_set_eq, g_morgan_bit_set_eq.
  repeat split; reflexivity.
Qed.

(* non-vacuity: the translated code evaluated on 2-propanol (values equal to chython's, cf. example_nonvacuous) *)
Lemma translated_example :
  wf_mol ex_mol = true /\
  g_chains 100 ex_mol 2 3 = Some [[2; 1]; [2; 1]; [3; 2]; [4; 2]; [3; 2]; [4; 2]; [3; 2; 1]; [4; 2; 1]; [3; 2; 1]; [4; 2; 3]; [4; 2; 1]; [4; 2; 3]] /\
  g_chains 5 ex_mol 2 3 = None /\
  List.length (g_fragments ex_mol (atom_identifiers ex_mol) (chains ex_mol 1 3) 1 3) = 6%nat /\
  g_morgan_hash_set (g_morgan_hash_dict hash_ztuple ex_mol (atom_identifiers ex_mol) 1 2) 1 2 =
    Ok [-3850700631077715909; -3850700631077715909; -3850700631077715909; 3311492739671872531;
        6744783386241714987; -713217080876991613; 6744783386241714987; -5079278463555148377] /\
  g_morgan_hash_dict hash_ztuple ex_mol (atom_identifiers ex_mol) 0 2 = Err OtherError /\
  g_morgan_bit_set (Ok [-5079278463555148377]) 1 2 1024 3 = Ok [423; 57; 136] /\
  g_linear_bit_set [-5079278463555148377] 1 2 0 3 4 = Err ValueError.
Proof. repeat split; vm_compute; reflexivity. Qed.
